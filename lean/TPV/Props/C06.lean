/-
  C06 — boundary normals are finite outward unit vectors.
  Model: TPV/Model/GeomNormal.lean; denotation `mem`: TPV/Proofs/GeomSpec.lean; algebra: TPV/Proofs/GeomNormalLemmas.lean.
-/
import TPV.Proofs.GeomNormalLemmas

namespace TPV.Geom
set_option linter.unusedSectionVars false
variable {K : Type} [Field K] [LinearOrder K] [IsStrictOrderedRing K] [HasSqrt K]

/-! ### outwardness in terms of the denoted set -/

/-- `p + ε·n`, coordinatewise -/
def moved (p n : List K) (ε : K) : List K := List.zipWith (fun x ni => x + ε * ni) p n

def dot (a b : List K) : K := (List.zipWith (fun x y => x * y) a b).sum

/-- `n` points out of `D` at the point `p` of variable `v` (parameter row `ρ`): every step of length
    `0 < ε < ε₀` along `n` ends outside the denoted set, every such step against `n` ends inside -/
def OutwardAt (D : Dom K) (v : String) (p n : List K) (ρ : Env K) (ε₀ : K) : Prop :=
  ∀ ε, 0 < ε → ε < ε₀ → ¬ mem D [(v, moved p n ε)] ρ ∧ mem D [(v, moved p n (-ε))] ρ

theorem get_single (v : String) (q : List K) : Env.get [(v, q)] v = some q := by
  simp [Env.get, List.lookup]

theorem par_mem_iff (v : String) (o c1 c2 : PFun K) (ρ : Env K) (x y ox oy ax ay bx cy : K)
    (ho : o.f ([(v, [x, y])] ++ ρ) = [ox, oy]) (h1 : c1.f ([(v, [x, y])] ++ ρ) = [ax, ay])
    (h2 : c2.f ([(v, [x, y])] ++ ρ) = [bx, cy])
    (hdet : (ax - ox) * (cy - oy) - (ay - oy) * (bx - ox) ≠ 0) :
    mem (.par v o c1 c2) [(v, [x, y])] ρ ↔
      In01 (solveLgs (x - ox) (y - oy) (ax - ox) (ay - oy) (bx - ox) (cy - oy)).1 ∧
      In01 (solveLgs (x - ox) (y - oy) (ax - ox) (ay - oy) (bx - ox) (cy - oy)).2 := by
  have hnd : NonDeg (.par v o c1 c2) [(v, [x, y])] ρ := by
    intro ox' oy' ax' ay' bx' cy' e0 e1 e2
    rw [ho] at e0; rw [h1] at e1; rw [h2] at e2
    simp only [List.cons.injEq, and_true] at e0 e1 e2
    obtain ⟨rfl, rfl⟩ := e0; obtain ⟨rfl, rfl⟩ := e1; obtain ⟨rfl, rfl⟩ := e2
    exact hdet
  have hc : contains (⟨0, 0, 0⟩ : Tol K) (.par v o c1 c2) [(v, [x, y])] ρ = some
      ((le 0 (solveLgs (x - ox) (y - oy) (ax - ox) (ay - oy) (bx - ox) (cy - oy)).1 &&
          le (solveLgs (x - ox) (y - oy) (ax - ox) (ay - oy) (bx - ox) (cy - oy)).1 1) &&
        (le 0 (solveLgs (x - ox) (y - oy) (ax - ox) (ay - oy) (bx - ox) (cy - oy)).2 &&
          le (solveLgs (x - ox) (y - oy) (ax - ox) (ay - oy) (bx - ox) (cy - oy)).2 1)) := by
    simp only [contains, containsAux, get_single, ho, h1, h2, Bool.false_eq_true, if_false]
  have h := contains_iff_mem (⟨0, 0, 0⟩ : Tol K) (.par v o c1 c2) [(v, [x, y])] ρ _ trivial hnd hc
  rw [← h]
  simp [In01, le_iff]


theorem dot2 (a b : K) : dot [a, b] [a, b] = a * a + b * b := by simp [dot]

/-- **Parallelogram.** For every parallelogram the constructor accepts with non-zero area — any position, size,
    slant and either vertex orientation, possibly parameter-dependent (evaluated at the row `ρ`) — and every
    point of its boundary (the four closed edges, corners included), the coded normal is a finite unit vector
    and points out of the denoted set. -/
theorem par_normal_outward (hsq : SqrtOk K) (τ : Tol K) (hτ : τ.ok) (hsmall : τ.small)
    (v : String) (o c1 c2 : PFun K) (ρ : Env K) (ox oy ax ay bx cy s t : K)
    (ho : ∀ q, o.f ([(v, q)] ++ ρ) = [ox, oy]) (h1 : ∀ q, c1.f ([(v, q)] ++ ρ) = [ax, ay])
    (h2 : ∀ q, c2.f ([(v, q)] ++ ρ) = [bx, cy])
    (hdet : (ax - ox) * (cy - oy) - (ay - oy) * (bx - ox) ≠ 0)
    (hs : In01 s) (ht : In01 t) (hb : s = 0 ∨ s = 1 ∨ t = 0 ∨ t = 1) :
    ∃ n ε₀, 0 < ε₀ ∧
      normalAux true τ (.par v o c1 c2)
        [(v, [ox + s * (ax - ox) + t * (bx - ox), oy + s * (ay - oy) + t * (cy - oy)])] ρ = some n ∧
      dot n n = 1 ∧
      OutwardAt (.par v o c1 c2) v [ox + s * (ax - ox) + t * (bx - ox), oy + s * (ay - oy) + t * (cy - oy)] n ρ ε₀ := by
  obtain ⟨nx, ny, ε₀, hε, hfin, hunit, hall⟩ := par_core hsq τ hτ hsmall ox oy ax ay bx cy s t hdet hs ht hb
  refine ⟨[nx, ny], ε₀, hε, ?_, ?_, ?_⟩
  · simp only [normalAux, get_single, ho, h1, h2]; exact hfin
  · rw [dot2]; exact hunit
  · intro ε h0 hlt
    have key : ∀ e : K, solveLgs (ox + s * (ax - ox) + t * (bx - ox) + e * nx - ox)
        (oy + s * (ay - oy) + t * (cy - oy) + e * ny - oy) (ax - ox) (ay - oy) (bx - ox) (cy - oy) =
        (s + e * (((cy - oy) * nx - (bx - ox) * ny) / ((ax - ox) * (cy - oy) - (ay - oy) * (bx - ox))),
         t + e * (((ax - ox) * ny - (ay - oy) * nx) / ((ax - ox) * (cy - oy) - (ay - oy) * (bx - ox)))) := by
      intro e
      have e1 : ox + s * (ax - ox) + t * (bx - ox) + e * nx - ox = (s * (ax - ox) + t * (bx - ox)) + e * nx := by ring
      have e2 : oy + s * (ay - oy) + t * (cy - oy) + e * ny - oy = (s * (ay - oy) + t * (cy - oy)) + e * ny := by ring
      rw [e1, e2, solveLgs_step, solveLgs_fst _ _ _ _ _ _ s t hdet rfl rfl]
    obtain ⟨hout, hin⟩ := hall ε h0 hlt
    simp only [moved, List.zipWith_cons_cons, List.zipWith_nil_right]
    rw [par_mem_iff v o c1 c2 ρ _ _ ox oy ax ay bx cy (ho _) (h1 _) (h2 _) hdet,
      par_mem_iff v o c1 c2 ρ _ _ ox oy ax ay bx cy (ho _) (h1 _) (h2 _) hdet, key, key]
    exact ⟨hout, hin⟩


theorem tri_mem_iff (v : String) (o c1 c2 : PFun K) (ρ : Env K) (x y ox oy ax ay bx cy : K)
    (ho : o.f ([(v, [x, y])] ++ ρ) = [ox, oy]) (h1 : c1.f ([(v, [x, y])] ++ ρ) = [ax, ay])
    (h2 : c2.f ([(v, [x, y])] ++ ρ) = [bx, cy])
    (hdet : (ax - ox) * (cy - oy) - (ay - oy) * (bx - ox) ≠ 0) :
    mem (.tri v o c1 c2) [(v, [x, y])] ρ ↔
      InTri (solveLgs (x - ox) (y - oy) (ax - ox) (ay - oy) (bx - ox) (cy - oy)).1
            (solveLgs (x - ox) (y - oy) (ax - ox) (ay - oy) (bx - ox) (cy - oy)).2 := by
  have hnd : NonDeg (.tri v o c1 c2) [(v, [x, y])] ρ := by
    intro ox' oy' ax' ay' bx' cy' e0 e1 e2
    rw [ho] at e0; rw [h1] at e1; rw [h2] at e2
    simp only [List.cons.injEq, and_true] at e0 e1 e2
    obtain ⟨rfl, rfl⟩ := e0; obtain ⟨rfl, rfl⟩ := e1; obtain ⟨rfl, rfl⟩ := e2
    exact hdet
  have hc : contains (⟨0, 0, 0⟩ : Tol K) (.tri v o c1 c2) [(v, [x, y])] ρ = some
      ((le 0 (solveLgs (x - ox) (y - oy) (ax - ox) (ay - oy) (bx - ox) (cy - oy)).1 &&
          le 0 (solveLgs (x - ox) (y - oy) (ax - ox) (ay - oy) (bx - ox) (cy - oy)).2) &&
        le ((solveLgs (x - ox) (y - oy) (ax - ox) (ay - oy) (bx - ox) (cy - oy)).2 +
            (solveLgs (x - ox) (y - oy) (ax - ox) (ay - oy) (bx - ox) (cy - oy)).1) 1) := by
    simp only [contains, containsAux, get_single, ho, h1, h2, Bool.false_eq_true, if_false]
  have h := contains_iff_mem (⟨0, 0, 0⟩ : Tol K) (.tri v o c1 c2) [(v, [x, y])] ρ _ trivial hnd hc
  rw [← h]
  simp [InTri, le_iff, and_assoc]

/-- **Triangle.** For every triangle with non-zero area — any position, shape and either vertex orientation
    (the docstring asks for counter-clockwise corners, the constructor accepts both), possibly parameter-dependent —
    and every point of its boundary (three closed edges, corners included), the coded normal is a finite unit
    vector and points out of the denoted set. -/
theorem tri_normal_outward (hsq : SqrtOk K) (τ : Tol K) (hτ : τ.ok) (hsmall : τ.small)
    (v : String) (o c1 c2 : PFun K) (ρ : Env K) (ox oy ax ay bx cy s t : K)
    (ho : ∀ q, o.f ([(v, q)] ++ ρ) = [ox, oy]) (h1 : ∀ q, c1.f ([(v, q)] ++ ρ) = [ax, ay])
    (h2 : ∀ q, c2.f ([(v, q)] ++ ρ) = [bx, cy])
    (hdet : (ax - ox) * (cy - oy) - (ay - oy) * (bx - ox) ≠ 0)
    (hin : InTri s t) (hb : s = 0 ∨ t = 0 ∨ t + s = 1) :
    ∃ n ε₀, 0 < ε₀ ∧
      normalAux true τ (.tri v o c1 c2)
        [(v, [ox + s * (ax - ox) + t * (bx - ox), oy + s * (ay - oy) + t * (cy - oy)])] ρ = some n ∧
      dot n n = 1 ∧
      OutwardAt (.tri v o c1 c2) v [ox + s * (ax - ox) + t * (bx - ox), oy + s * (ay - oy) + t * (cy - oy)] n ρ ε₀ := by
  obtain ⟨nx, ny, ε₀, hε, hfin, hunit, hall⟩ := tri_core hsq τ hτ hsmall ox oy ax ay bx cy s t hdet hin hb
  refine ⟨[nx, ny], ε₀, hε, ?_, ?_, ?_⟩
  · simp only [normalAux, get_single, ho, h1, h2]; exact hfin
  · rw [dot2]; exact hunit
  · intro ε h0 hlt
    have key : ∀ e : K, solveLgs (ox + s * (ax - ox) + t * (bx - ox) + e * nx - ox)
        (oy + s * (ay - oy) + t * (cy - oy) + e * ny - oy) (ax - ox) (ay - oy) (bx - ox) (cy - oy) =
        (s + e * (((cy - oy) * nx - (bx - ox) * ny) / ((ax - ox) * (cy - oy) - (ay - oy) * (bx - ox))),
         t + e * (((ax - ox) * ny - (ay - oy) * nx) / ((ax - ox) * (cy - oy) - (ay - oy) * (bx - ox)))) := by
      intro e
      have e1 : ox + s * (ax - ox) + t * (bx - ox) + e * nx - ox = (s * (ax - ox) + t * (bx - ox)) + e * nx := by ring
      have e2 : oy + s * (ay - oy) + t * (cy - oy) + e * ny - oy = (s * (ay - oy) + t * (cy - oy)) + e * ny := by ring
      rw [e1, e2, solveLgs_step, solveLgs_fst _ _ _ _ _ _ s t hdet rfl rfl]
    obtain ⟨hout, hin'⟩ := hall ε h0 hlt
    simp only [moved, List.zipWith_cons_cons, List.zipWith_nil_right]
    rw [tri_mem_iff v o c1 c2 ρ _ _ ox oy ax ay bx cy (ho _) (h1 _) (h2 _) hdet,
      tri_mem_iff v o c1 c2 ρ _ _ ox oy ax ay bx cy (ho _) (h1 _) (h2 _) hdet, key, key]
    exact ⟨hout, hin'⟩


/-! ### union / cut / intersection: operand selection and sign flip -/

theorem moved_neg (p n : List K) (ε : K) : moved p (n.map (- ·)) ε = moved p n (-ε) := by
  induction p generalizing n with
  | nil => simp [moved]
  | cons x xs ih =>
    cases n with
    | nil => simp [moved]
    | cons y ys =>
      simp only [moved, List.map_cons, List.zipWith_cons_cons, List.cons.injEq]
      exact ⟨by ring, ih ys⟩

theorem map_neg_neg (n : List K) : (n.map (- ·)).map (- ·) = n := by
  induction n with
  | nil => rfl
  | cons x xs ih => simp

theorem dot_neg (n : List K) : dot (n.map (- ·)) (n.map (- ·)) = dot n n := by
  induction n with
  | nil => rfl
  | cons x xs ih =>
    simp only [dot, List.map_cons, List.zipWith_cons_cons, List.sum_cons] at ih ⊢
    rw [ih]; ring

theorem OutwardAt.mono {D : Dom K} {v : String} {p n : List K} {ρ : Env K} {ε₀ ε₁ : K}
    (h : OutwardAt D v p n ρ ε₀) (hle : ε₁ ≤ ε₀) : OutwardAt D v p n ρ ε₁ :=
  fun ε h0 hlt => h ε h0 (lt_of_lt_of_le hlt hle)

/-- union, point on `∂a`: `a`'s normal is outward for `a ∪ b` if the outward step does not enter `b` -/
theorem union_outward_left (a b : Dom K) (v : String) (p n : List K) (ρ : Env K) (ε₀ : K)
    (ha : OutwardAt a v p n ρ ε₀) (hsep : ∀ ε, 0 < ε → ε < ε₀ → ¬ mem b [(v, moved p n ε)] ρ) :
    OutwardAt (.union a b) v p n ρ ε₀ := fun ε h0 hlt => by
  obtain ⟨h1, h2⟩ := ha ε h0 hlt
  exact ⟨fun h => h.elim h1 (hsep ε h0 hlt), Or.inl h2⟩

/-- union, point not on `∂a`: `b`'s normal is outward for `a ∪ b` if the outward step does not enter `a` -/
theorem union_outward_right (a b : Dom K) (v : String) (p n : List K) (ρ : Env K) (ε₀ : K)
    (hb : OutwardAt b v p n ρ ε₀) (hsep : ∀ ε, 0 < ε → ε < ε₀ → ¬ mem a [(v, moved p n ε)] ρ) :
    OutwardAt (.union a b) v p n ρ ε₀ := fun ε h0 hlt => by
  obtain ⟨h1, h2⟩ := hb ε h0 hlt
  exact ⟨fun h => h.elim (hsep ε h0 hlt) h1, Or.inr h2⟩

/-- intersection: the selected operand's normal is outward if the inward step stays in the partner -/
theorem inter_outward_left (a b : Dom K) (v : String) (p n : List K) (ρ : Env K) (ε₀ : K)
    (ha : OutwardAt a v p n ρ ε₀) (hsep : ∀ ε, 0 < ε → ε < ε₀ → mem b [(v, moved p n (-ε))] ρ) :
    OutwardAt (.inter a b) v p n ρ ε₀ := fun ε h0 hlt => by
  obtain ⟨h1, h2⟩ := ha ε h0 hlt
  exact ⟨fun h => h1 h.1, h2, hsep ε h0 hlt⟩

theorem inter_outward_right (a b : Dom K) (v : String) (p n : List K) (ρ : Env K) (ε₀ : K)
    (hb : OutwardAt b v p n ρ ε₀) (hsep : ∀ ε, 0 < ε → ε < ε₀ → mem a [(v, moved p n (-ε))] ρ) :
    OutwardAt (.inter a b) v p n ρ ε₀ := fun ε h0 hlt => by
  obtain ⟨h1, h2⟩ := hb ε h0 hlt
  exact ⟨fun h => h1 h.2, hsep ε h0 hlt, h2⟩

/-- cut, point on `∂a`: `a`'s normal is outward for `a ∖ b` if the inward step does not enter `b` -/
theorem cut_outward_left (a b : Dom K) (v : String) (p n : List K) (ρ : Env K) (ε₀ : K)
    (ha : OutwardAt a v p n ρ ε₀) (hsep : ∀ ε, 0 < ε → ε < ε₀ → ¬ mem b [(v, moved p n (-ε))] ρ) :
    OutwardAt (.cut a b) v p n ρ ε₀ := fun ε h0 hlt => by
  obtain ⟨h1, h2⟩ := ha ε h0 hlt
  exact ⟨fun h => h1 h.1, h2, hsep ε h0 hlt⟩

/-- cut, point on the removed part's boundary: the FLIPPED normal of `b` is outward for `a ∖ b`
    if the step out of `b` stays in `a` -/
theorem cut_outward_right (a b : Dom K) (v : String) (p nb : List K) (ρ : Env K) (ε₀ : K)
    (hb : OutwardAt b v p nb ρ ε₀) (hsep : ∀ ε, 0 < ε → ε < ε₀ → mem a [(v, moved p nb ε)] ρ) :
    OutwardAt (.cut a b) v p (nb.map (- ·)) ρ ε₀ := fun ε h0 hlt => by
  obtain ⟨h1, h2⟩ := hb ε h0 hlt
  rw [moved_neg, moved_neg, neg_neg]
  exact ⟨fun h => h.2 h2, hsep ε h0 hlt, h1⟩

/-- the separation hypothesis along the path of operands the code selects at the point `p`
    (`n` = the normal the composite returns; on the removed side of a cut the operand sees `−n`).
    Leaves (primitives): "the primitive's own coded normal is outward for the primitive" — what
    `par_/tri_/circle_/sphere_/interval_normal_outward` establish. -/
def Sep (o : Bool) (τ : Tol K) : Dom K → String → List K → List K → Env K → K → Prop
  | .union a b, v, p, n, ρ, ε₀ =>
    (bdryContains τ a [(v, p)] ρ = some true → Sep o τ a v p n ρ ε₀ ∧ ∀ ε, 0 < ε → ε < ε₀ → ¬ mem b [(v, moved p n ε)] ρ) ∧
    (bdryContains τ a [(v, p)] ρ = some false → Sep o τ b v p n ρ ε₀ ∧ ∀ ε, 0 < ε → ε < ε₀ → ¬ mem a [(v, moved p n ε)] ρ)
  | .inter a b, v, p, n, ρ, ε₀ =>
    (bdryContains τ a [(v, p)] ρ = some true → Sep o τ a v p n ρ ε₀ ∧ ∀ ε, 0 < ε → ε < ε₀ → mem b [(v, moved p n (-ε))] ρ) ∧
    (bdryContains τ a [(v, p)] ρ = some false → Sep o τ b v p n ρ ε₀ ∧ ∀ ε, 0 < ε → ε < ε₀ → mem a [(v, moved p n (-ε))] ρ)
  | .cut a b, v, p, n, ρ, ε₀ =>
    (bdryContains τ a [(v, p)] ρ = some true → Sep o τ a v p n ρ ε₀ ∧ ∀ ε, 0 < ε → ε < ε₀ → ¬ mem b [(v, moved p n (-ε))] ρ) ∧
    (bdryContains τ a [(v, p)] ρ = some false →
      Sep o τ b v p (n.map (- ·)) ρ ε₀ ∧ ∀ ε, 0 < ε → ε < ε₀ → mem a [(v, moved p n (-ε))] ρ)
  | d, v, p, n, ρ, ε₀ => normalAux o τ d [(v, p)] ρ = some n → OutwardAt d v p n ρ ε₀

/-- **Nested unions, cuts and intersections.** For every expression built from union / cut / intersection over
    any leaves, at every point where the model returns a normal `n`: if the separation hypothesis holds along the
    path of selected operands (the partner is not entered / not left by the relevant step, and the selected
    primitive's own normal is outward for that primitive), then `n` — with the sign flips the code applies on
    removed parts, at any nesting depth — is outward for the whole composite. -/
theorem normal_bool_outward (o : Bool) (τ : Tol K) (D : Dom K) : ∀ (v : String) (p n : List K) (ρ : Env K) (ε₀ : K),
    normalAux o τ D [(v, p)] ρ = some n → Sep o τ D v p n ρ ε₀ → OutwardAt D v p n ρ ε₀ := by
  induction D with
  | union a b iha ihb =>
    intro v p n ρ ε₀ hn hs
    simp only [normalAux, Option.bind_eq_bind] at hn
    simp only [Sep, bdryContains] at hs
    cases hon : containsAux τ true a [(v, p)] ρ with
    | none => simp [hon] at hn
    | some onA =>
      cases onA with
      | true =>
        simp only [hon, Option.bind_some, if_true] at hn
        obtain ⟨h1, h2⟩ := hs.1 hon
        exact union_outward_left a b v p n ρ ε₀ (iha v p n ρ ε₀ hn h1) h2
      | false =>
        simp only [hon, Option.bind_some, Bool.false_eq_true, if_false] at hn
        obtain ⟨h1, h2⟩ := hs.2 hon
        exact union_outward_right a b v p n ρ ε₀ (ihb v p n ρ ε₀ hn h1) h2
  | inter a b iha ihb =>
    intro v p n ρ ε₀ hn hs
    simp only [normalAux, Option.bind_eq_bind] at hn
    simp only [Sep, bdryContains] at hs
    cases hon : containsAux τ true a [(v, p)] ρ with
    | none => simp [hon] at hn
    | some onA =>
      cases onA with
      | true =>
        simp only [hon, Option.bind_some, if_true] at hn
        obtain ⟨h1, h2⟩ := hs.1 hon
        exact inter_outward_left a b v p n ρ ε₀ (iha v p n ρ ε₀ hn h1) h2
      | false =>
        simp only [hon, Option.bind_some, Bool.false_eq_true, if_false] at hn
        obtain ⟨h1, h2⟩ := hs.2 hon
        exact inter_outward_right a b v p n ρ ε₀ (ihb v p n ρ ε₀ hn h1) h2
  | cut a b iha ihb =>
    intro v p n ρ ε₀ hn hs
    simp only [normalAux, Option.bind_eq_bind] at hn
    simp only [Sep, bdryContains] at hs
    cases hon : containsAux τ true a [(v, p)] ρ with
    | none => simp [hon] at hn
    | some onA =>
      cases onA with
      | true =>
        simp only [hon, Option.bind_some, if_true] at hn
        obtain ⟨h1, h2⟩ := hs.1 hon
        exact cut_outward_left a b v p n ρ ε₀ (iha v p n ρ ε₀ hn h1) h2
      | false =>
        simp only [hon, Option.bind_some, Bool.false_eq_true, if_false, Option.map_eq_some_iff] at hn
        obtain ⟨nb, hnb, rfl⟩ := hn
        obtain ⟨h1, h2⟩ := hs.2 hon
        rw [map_neg_neg] at h1
        refine cut_outward_right a b v p nb ρ ε₀ (ihb v p nb ρ ε₀ hnb h1) (fun ε h0 hlt => ?_)
        have := h2 ε h0 hlt
        rwa [moved_neg, neg_neg] at this
  | interval | par | tri | circle | sphere | prod | translate | rotate | bdry | bdryL | bdryR =>
    intro v p n ρ ε₀ hn hs
    exact hs hn

/-- the leaves' normals are unit vectors -/
def LeavesUnit (o : Bool) (τ : Tol K) : Dom K → Env K → Env K → Prop
  | .union a b, pts, ρ | .inter a b, pts, ρ | .cut a b, pts, ρ => LeavesUnit o τ a pts ρ ∧ LeavesUnit o τ b pts ρ
  | d, pts, ρ => ∀ n, normalAux o τ d pts ρ = some n → dot n n = 1

/-- **Unit length is inherited**: the normal of any nested union / cut / intersection is, up to the sign flip,
    the normal of one of its leaves — hence a unit vector whenever the leaves' normals are. -/
theorem normal_bool_unit (o : Bool) (τ : Tol K) (D : Dom K) : ∀ (pts ρ : Env K) (n : List K),
    LeavesUnit o τ D pts ρ → normalAux o τ D pts ρ = some n → dot n n = 1 := by
  induction D with
  | union a b iha ihb | inter a b iha ihb =>
    intro pts ρ n hl hn
    simp only [normalAux, Option.bind_eq_bind] at hn
    simp only [LeavesUnit] at hl
    cases hon : containsAux τ true a pts ρ with
    | none => simp [hon] at hn
    | some onA =>
      cases onA with
      | true => simp only [hon, Option.bind_some, if_true] at hn; exact iha pts ρ n hl.1 hn
      | false => simp only [hon, Option.bind_some, Bool.false_eq_true, if_false] at hn; exact ihb pts ρ n hl.2 hn
  | cut a b iha ihb =>
    intro pts ρ n hl hn
    simp only [normalAux, Option.bind_eq_bind] at hn
    simp only [LeavesUnit] at hl
    cases hon : containsAux τ true a pts ρ with
    | none => simp [hon] at hn
    | some onA =>
      cases onA with
      | true => simp only [hon, Option.bind_some, if_true] at hn; exact iha pts ρ n hl.1 hn
      | false =>
        simp only [hon, Option.bind_some, Bool.false_eq_true, if_false, Option.map_eq_some_iff] at hn
        obtain ⟨nb, hnb, rfl⟩ := hn
        rw [dot_neg]; exact ihb pts ρ nb hl.2 hnb
  | interval | par | tri | circle | sphere | prod | translate | rotate | bdry | bdryL | bdryR =>
    intro pts ρ n hl hn
    exact hl n hn

/-! ### disc, ball, interval -/

theorem circle_mem_iff (v : String) (c r : PFun K) (ρ : Env K) (x y cx cy rr : K)
    (hc : c.f ([(v, [x, y])] ++ ρ) = [cx, cy]) (hr : r.f ([(v, [x, y])] ++ ρ) = [rr]) (hpos : 0 ≤ rr) :
    mem (.circle v c r) [(v, [x, y])] ρ ↔ (x - cx) ^ 2 + (y - cy) ^ 2 ≤ rr ^ 2 := by
  simp only [mem, get_single]
  constructor
  · rintro ⟨x', y', cx', cy', rr', hp, hc', hr', _, h⟩
    rw [hc] at hc'; rw [hr] at hr'
    simp only [Option.some.injEq, List.cons.injEq, and_true] at hp hc' hr'
    obtain ⟨rfl, rfl⟩ := hp; obtain ⟨rfl, rfl⟩ := hc'; subst hr'; exact h
  · intro h; exact ⟨x, y, cx, cy, rr, rfl, hc, hr, hpos, h⟩

/-- **Disc.** At every point of the circle line (any centre, any positive radius, parameter-dependent or not) the
    coded normal `(p − c)/r` is a unit vector; every step along it leaves the disc, every step shorter than the
    diameter against it stays inside. -/
theorem circle_normal_outward (o : Bool) (τ : Tol K) (v : String) (c r : PFun K) (ρ : Env K) (x y cx cy rr : K)
    (hc : ∀ q, c.f ([(v, q)] ++ ρ) = [cx, cy]) (hr : ∀ q, r.f ([(v, q)] ++ ρ) = [rr]) (hpos : 0 < rr)
    (hon : (x - cx) ^ 2 + (y - cy) ^ 2 = rr ^ 2) :
    normalAux o τ (.circle v c r) [(v, [x, y])] ρ = some [(x - cx) / rr, (y - cy) / rr] ∧
    dot [(x - cx) / rr, (y - cy) / rr] [(x - cx) / rr, (y - cy) / rr] = 1 ∧
    OutwardAt (.circle v c r) v [x, y] [(x - cx) / rr, (y - cy) / rr] ρ (2 * rr) := by
  have hz : isZero rr = false := by
    cases h : isZero rr
    · rfl
    · exact absurd ((isZero_iff rr).mp h) hpos.ne'
  refine ⟨by simp only [normalAux, get_single, hc, hr, hz]; simp, ?_, ?_⟩
  · rw [dot2, div_mul_div_comm, div_mul_div_comm, ← add_div, div_eq_one_iff_eq (by positivity)]
    rw [← pow_two rr, ← hon]; ring
  · intro ε h0 hlt
    simp only [moved, List.zipWith_cons_cons, List.zipWith_nil_right]
    rw [circle_mem_iff v c r ρ _ _ cx cy rr (hc _) (hr _) hpos.le, circle_mem_iff v c r ρ _ _ cx cy rr (hc _) (hr _) hpos.le]
    have e : ∀ e : K, (x + e * ((x - cx) / rr) - cx) ^ 2 + (y + e * ((y - cy) / rr) - cy) ^ 2 = (1 + e / rr) ^ 2 * rr ^ 2 := by
      intro e
      have : (x + e * ((x - cx) / rr) - cx) ^ 2 + (y + e * ((y - cy) / rr) - cy) ^ 2 =
          (1 + e / rr) ^ 2 * ((x - cx) ^ 2 + (y - cy) ^ 2) := by field_simp; ring
      rw [this, hon]
    rw [e, e]
    have hr2 : 0 < rr ^ 2 := by positivity
    have hk : 0 < ε / rr := div_pos h0 hpos
    have hk2 : ε / rr < 2 := by rw [div_lt_iff₀ hpos]; linarith
    constructor
    · rw [not_le]
      have h1 : 1 < (1 + ε / rr) ^ 2 := by nlinarith
      have := mul_lt_mul_of_pos_right h1 hr2
      linarith
    · have : (1 + -ε / rr) ^ 2 ≤ 1 := by
        have : -ε / rr = -(ε / rr) := by ring
        rw [this]; nlinarith
      nlinarith

theorem dot3 (a b c : K) : dot [a, b, c] [a, b, c] = a * a + b * b + c * c := by simp [dot]; ring

theorem sphere_mem_iff (v : String) (c r : PFun K) (ρ : Env K) (x y z cx cy cz rr : K)
    (hc : c.f ([(v, [x, y, z])] ++ ρ) = [cx, cy, cz]) (hr : r.f ([(v, [x, y, z])] ++ ρ) = [rr]) (hpos : 0 ≤ rr) :
    mem (.sphere v c r) [(v, [x, y, z])] ρ ↔ (x - cx) ^ 2 + (y - cy) ^ 2 + (z - cz) ^ 2 ≤ rr ^ 2 := by
  simp only [mem, get_single]
  constructor
  · rintro ⟨x', y', z', cx', cy', cz', rr', hp, hc', hr', _, h⟩
    rw [hc] at hc'; rw [hr] at hr'
    simp only [Option.some.injEq, List.cons.injEq, and_true] at hp hc' hr'
    obtain ⟨rfl, rfl, rfl⟩ := hp; obtain ⟨rfl, rfl, rfl⟩ := hc'; subst hr'; exact h
  · intro h; exact ⟨x, y, z, cx, cy, cz, rr, rfl, hc, hr, hpos, h⟩

/-- **Ball.** The same for the sphere surface in three dimensions. -/
theorem sphere_normal_outward (o : Bool) (τ : Tol K) (v : String) (c r : PFun K) (ρ : Env K)
    (x y z cx cy cz rr : K)
    (hc : ∀ q, c.f ([(v, q)] ++ ρ) = [cx, cy, cz]) (hr : ∀ q, r.f ([(v, q)] ++ ρ) = [rr]) (hpos : 0 < rr)
    (hon : (x - cx) ^ 2 + (y - cy) ^ 2 + (z - cz) ^ 2 = rr ^ 2) :
    normalAux o τ (.sphere v c r) [(v, [x, y, z])] ρ = some [(x - cx) / rr, (y - cy) / rr, (z - cz) / rr] ∧
    dot [(x - cx) / rr, (y - cy) / rr, (z - cz) / rr] [(x - cx) / rr, (y - cy) / rr, (z - cz) / rr] = 1 ∧
    OutwardAt (.sphere v c r) v [x, y, z] [(x - cx) / rr, (y - cy) / rr, (z - cz) / rr] ρ (2 * rr) := by
  have hz : isZero rr = false := by
    cases h : isZero rr
    · rfl
    · exact absurd ((isZero_iff rr).mp h) hpos.ne'
  refine ⟨by simp only [normalAux, get_single, hc, hr, hz]; simp, ?_, ?_⟩
  · rw [dot3, div_mul_div_comm, div_mul_div_comm, div_mul_div_comm, ← add_div, ← add_div,
      div_eq_one_iff_eq (by positivity)]
    rw [← pow_two rr, ← hon]; ring
  · intro ε h0 hlt
    simp only [moved, List.zipWith_cons_cons, List.zipWith_nil_right]
    rw [sphere_mem_iff v c r ρ _ _ _ cx cy cz rr (hc _) (hr _) hpos.le,
      sphere_mem_iff v c r ρ _ _ _ cx cy cz rr (hc _) (hr _) hpos.le]
    have e : ∀ e : K, (x + e * ((x - cx) / rr) - cx) ^ 2 + (y + e * ((y - cy) / rr) - cy) ^ 2 +
        (z + e * ((z - cz) / rr) - cz) ^ 2 = (1 + e / rr) ^ 2 * rr ^ 2 := by
      intro e
      have : (x + e * ((x - cx) / rr) - cx) ^ 2 + (y + e * ((y - cy) / rr) - cy) ^ 2 +
          (z + e * ((z - cz) / rr) - cz) ^ 2 =
          (1 + e / rr) ^ 2 * ((x - cx) ^ 2 + (y - cy) ^ 2 + (z - cz) ^ 2) := by field_simp; ring
      rw [this, hon]
    rw [e, e]
    have hr2 : 0 < rr ^ 2 := by positivity
    have hk : 0 < ε / rr := div_pos h0 hpos
    have hk2 : ε / rr < 2 := by rw [div_lt_iff₀ hpos]; linarith
    constructor
    · rw [not_le]
      have h1 : 1 < (1 + ε / rr) ^ 2 := by nlinarith
      have := mul_lt_mul_of_pos_right h1 hr2
      linarith
    · have : (1 + -ε / rr) ^ 2 ≤ 1 := by
        have : -ε / rr = -(ε / rr) := by ring
        rw [this]; nlinarith
      nlinarith

theorem interval_mem_iff (v : String) (lb ub : PFun K) (ρ : Env K) (x l u : K)
    (hl : lb.f ([(v, [x])] ++ ρ) = [l]) (hu : ub.f ([(v, [x])] ++ ρ) = [u]) :
    mem (.interval v lb ub) [(v, [x])] ρ ↔ l ≤ x ∧ x ≤ u := by
  simp only [mem, get_single]
  constructor
  · rintro ⟨x', l', u', hp, hl', hu', h1, h2⟩
    rw [hl] at hl'; rw [hu] at hu'
    simp only [Option.some.injEq, List.cons.injEq, and_true] at hp hl' hu'
    subst hp hl' hu'; exact ⟨h1, h2⟩
  · rintro ⟨h1, h2⟩; exact ⟨x, l, u, rfl, hl, hu, h1, h2⟩

/-- **Interval.** At the left end the coded normal is −1, at the right end +1 (whenever the interval is longer
    than the `isclose` tolerance, so that the right end is not mistaken for the left one); both point outwards. -/
theorem interval_normal_outward (o : Bool) (τ : Tol K) (hτ : τ.ok) (v : String) (lb ub : PFun K) (ρ : Env K) (l u : K)
    (hl : ∀ q, lb.f ([(v, q)] ++ ρ) = [l]) (hu : ∀ q, ub.f ([(v, q)] ++ ρ) = [u])
    (hsep : τ.atol + τ.rtol * |l| < u - l) :
    (normalAux o τ (.interval v lb ub) [(v, [l])] ρ = some [-1] ∧ OutwardAt (.interval v lb ub) v [l] [-1] ρ (u - l)) ∧
    (normalAux o τ (.interval v lb ub) [(v, [u])] ρ = some [1] ∧ OutwardAt (.interval v lb ub) v [u] [1] ρ (u - l)) := by
  have hnc : isclose τ u l = false := by
    cases h : isclose τ u l
    · rfl
    · rw [isclose_iff] at h
      have := le_abs_self (u - l); linarith
  refine ⟨⟨by simp only [normalAux, get_single, hl, hu, isclose_self τ hτ l, if_true], ?_⟩,
          ⟨by simp only [normalAux, get_single, hl, hu, hnc]; simp, ?_⟩⟩
  · intro ε h0 hlt
    simp only [moved, List.zipWith_cons_cons, List.zipWith_nil_right]
    rw [interval_mem_iff v lb ub ρ _ l u (hl _) (hu _), interval_mem_iff v lb ub ρ _ l u (hl _) (hu _)]
    constructor
    · rintro ⟨h1, _⟩; linarith
    · constructor <;> linarith
  · intro ε h0 hlt
    simp only [moved, List.zipWith_cons_cons, List.zipWith_nil_right]
    rw [interval_mem_iff v lb ub ρ _ l u (hl _) (hu _), interval_mem_iff v lb ub ρ _ l u (hl _) (hu _)]
    constructor
    · rintro ⟨_, h2⟩; linarith
    · constructor <;> linarith



/-- `Interval.boundary_left / boundary_right` (`IntervalSingleBoundaryPoint.normal`) return the constants −1 / +1 —
    outward at the left / right end by `interval_normal_outward`; `.boundary.normal` of any other expression is
    `normalAux`. -/
theorem side_normal (o : Bool) (τ : Tol K) (v : String) (lb ub : PFun K) (ρ : Env K) (x : K) :
    normal o τ (.bdryL (.interval v lb ub)) [(v, [x])] ρ = some [-1] ∧
    normal o τ (.bdryR (.interval v lb ub)) [(v, [x])] ρ = some [1] ∧
    ∀ (d : Dom K) (pts : Env K), normal o τ (.bdry d) pts ρ = normalAux o τ d pts ρ := by
  refine ⟨?_, ?_, fun d pts => rfl⟩ <;> simp only [normal, get_single]


/-! ### the code before the orientation fix (`oriented = false`) -/

theorem sgn_neg_of_neg (d : K) (h : d < 0) : sgn d = -1 := by
  unfold sgn
  have : ¬ (0 : K) ≤ d := not_le.mpr h
  simp [le_of_lt h, this]

theorem isZero_neg (a : K) : isZero (-a) = isZero a := by
  cases h : isZero a
  · cases h' : isZero (-a)
    · rfl
    · have := (isZero_iff (-a)).mp h'
      have : a = 0 := by linarith
      rw [(isZero_iff a).mpr this] at h; exact absurd h (by simp)
  · have := (isZero_iff a).mp h
    exact (isZero_iff (-a)).mpr (by rw [this]; simp)

/-- for clockwise vertices (negative determinant) the old code returned exactly the opposite vector -/
theorem finish2_flip (det : K) (hdet : det < 0) (raw : K × K) :
    finish2 false det raw = (finish2 true det raw).map (·.map (- ·)) := by
  simp only [finish2, sgn_neg_of_neg det hdet, if_true, Bool.false_eq_true, if_false, mul_one, mul_neg, isZero_neg]
  cases isZero raw.1 && isZero raw.2
  · simp only [Bool.false_eq_true, if_false, Option.map_some, List.map_cons, List.map_nil, unit2]
    have e : -raw.1 * -raw.1 + -raw.2 * -raw.2 = raw.1 * raw.1 + raw.2 * raw.2 := by ring
    rw [e]
    congr 2
    · ring
    · congr 1; ring
  · simp

/-- **The property was false of the code before the fix**: for EVERY clockwise parallelogram (negative
    determinant) and every boundary point, the vector returned by the old `normal` points INTO the domain — a small
    step along it stays inside, a small step against it leaves. -/
theorem par_normal_old_inward (hsq : SqrtOk K) (τ : Tol K) (hτ : τ.ok) (hsmall : τ.small)
    (v : String) (o c1 c2 : PFun K) (ρ : Env K) (ox oy ax ay bx cy s t : K)
    (ho : ∀ q, o.f ([(v, q)] ++ ρ) = [ox, oy]) (h1 : ∀ q, c1.f ([(v, q)] ++ ρ) = [ax, ay])
    (h2 : ∀ q, c2.f ([(v, q)] ++ ρ) = [bx, cy])
    (hcw : (ax - ox) * (cy - oy) - (ay - oy) * (bx - ox) < 0)
    (hs : In01 s) (ht : In01 t) (hb : s = 0 ∨ s = 1 ∨ t = 0 ∨ t = 1) :
    ∃ n ε₀, 0 < ε₀ ∧
      normalAux false τ (.par v o c1 c2)
        [(v, [ox + s * (ax - ox) + t * (bx - ox), oy + s * (ay - oy) + t * (cy - oy)])] ρ = some n ∧
      ∀ ε, 0 < ε → ε < ε₀ →
        mem (.par v o c1 c2) [(v, moved [ox + s * (ax - ox) + t * (bx - ox), oy + s * (ay - oy) + t * (cy - oy)] n ε)] ρ ∧
        ¬ mem (.par v o c1 c2) [(v, moved [ox + s * (ax - ox) + t * (bx - ox), oy + s * (ay - oy) + t * (cy - oy)] n (-ε))] ρ := by
  obtain ⟨n, ε₀, hε, hn, _, hout⟩ := par_normal_outward hsq τ hτ hsmall v o c1 c2 ρ ox oy ax ay bx cy s t ho h1 h2 hcw.ne hs ht hb
  refine ⟨n.map (- ·), ε₀, hε, ?_, fun ε h0 hlt => ?_⟩
  · simp only [normalAux, get_single, ho, h1, h2] at hn ⊢
    rw [finish2_flip _ hcw, hn]; rfl
  · obtain ⟨a, b⟩ := hout ε h0 hlt
    rw [moved_neg, moved_neg, neg_neg]
    exact ⟨b, a⟩

/-- the same for every clockwise triangle -/
theorem tri_normal_old_inward (hsq : SqrtOk K) (τ : Tol K) (hτ : τ.ok) (hsmall : τ.small)
    (v : String) (o c1 c2 : PFun K) (ρ : Env K) (ox oy ax ay bx cy s t : K)
    (ho : ∀ q, o.f ([(v, q)] ++ ρ) = [ox, oy]) (h1 : ∀ q, c1.f ([(v, q)] ++ ρ) = [ax, ay])
    (h2 : ∀ q, c2.f ([(v, q)] ++ ρ) = [bx, cy])
    (hcw : (ax - ox) * (cy - oy) - (ay - oy) * (bx - ox) < 0)
    (hin : InTri s t) (hb : s = 0 ∨ t = 0 ∨ t + s = 1) :
    ∃ n ε₀, 0 < ε₀ ∧
      normalAux false τ (.tri v o c1 c2)
        [(v, [ox + s * (ax - ox) + t * (bx - ox), oy + s * (ay - oy) + t * (cy - oy)])] ρ = some n ∧
      ∀ ε, 0 < ε → ε < ε₀ →
        mem (.tri v o c1 c2) [(v, moved [ox + s * (ax - ox) + t * (bx - ox), oy + s * (ay - oy) + t * (cy - oy)] n ε)] ρ ∧
        ¬ mem (.tri v o c1 c2) [(v, moved [ox + s * (ax - ox) + t * (bx - ox), oy + s * (ay - oy) + t * (cy - oy)] n (-ε))] ρ := by
  obtain ⟨n, ε₀, hε, hn, _, hout⟩ := tri_normal_outward hsq τ hτ hsmall v o c1 c2 ρ ox oy ax ay bx cy s t ho h1 h2 hcw.ne hin hb
  refine ⟨n.map (- ·), ε₀, hε, ?_, fun ε h0 hlt => ?_⟩
  · simp only [normalAux, get_single, ho, h1, h2] at hn ⊢
    rw [finish2_flip _ hcw, hn]; rfl
  · obtain ⟨a, b⟩ := hout ε h0 hlt
    rw [moved_neg, moved_neg, neg_neg]
    exact ⟨b, a⟩

/-! ### real numbers: `Real.sqrt` is a square root, the Euclidean length of the normal is 1 -/

noncomputable instance : HasSqrt ℝ := ⟨Real.sqrt⟩

theorem sqrtOk_real : SqrtOk ℝ := fun x hx => ⟨Real.sqrt_nonneg x, Real.mul_self_sqrt hx⟩

/-- over ℝ: `‖n‖ = √(n·n) = 1` -/
theorem normal_norm_real (n : List ℝ) (h : dot n n = 1) : Real.sqrt (dot n n) = 1 := by
  rw [h, Real.sqrt_one]

/-- torch's tolerances (`isclose` defaults, `BARY_ATOL`) as real numbers -/
noncomputable def tolR : Tol ℝ := ⟨1 / 100000000, 1 / 100000, 1 / 100000⟩

theorem tolR_ok : tolR.ok ∧ tolR.small := by
  refine ⟨⟨?_, ?_, ?_⟩, ?_⟩ <;> simp only [tolR, Tol.small] <;> norm_num

/-- non-vacuity: a slanted CLOCKWISE parallelogram (det = −5) at its corner `corner_2`, over ℝ -/
example : ∃ n ε₀, 0 < ε₀ ∧
    normalAux true tolR (.par "x" (.const [0, 0]) (.const [1, 2]) (.const [3, 1]))
      [("x", [0 + 0 * (1 - 0) + 1 * (3 - 0), 0 + 0 * (2 - 0) + 1 * (1 - 0)])] [] = some n ∧ dot n n = 1 ∧
    OutwardAt (.par "x" (.const [0, 0]) (.const [1, 2]) (.const [3, 1])) "x"
      [0 + 0 * (1 - 0) + 1 * (3 - 0), 0 + 0 * (2 - 0) + 1 * (1 - 0)] n [] ε₀ :=
  par_normal_outward sqrtOk_real tolR tolR_ok.1 tolR_ok.2 "x" _ _ _ [] 0 0 1 2 3 1 0 1
    (fun _ => rfl) (fun _ => rfl) (fun _ => rfl) (by norm_num) ⟨by norm_num, by norm_num⟩ ⟨by norm_num, by norm_num⟩
    (Or.inl rfl)

/-- non-vacuity: a clockwise triangle on its slanted edge `s + t = 1`, over ℝ; and the old code's inward normal -/
example : ∃ n ε₀, 0 < ε₀ ∧
    normalAux true tolR (.tri "x" (.const [0, 0]) (.const [0, 1]) (.const [2, 0]))
      [("x", [0 + 1 / 4 * (0 - 0) + 3 / 4 * (2 - 0), 0 + 1 / 4 * (1 - 0) + 3 / 4 * (0 - 0)])] [] = some n ∧ dot n n = 1 ∧
    OutwardAt (.tri "x" (.const [0, 0]) (.const [0, 1]) (.const [2, 0])) "x"
      [0 + 1 / 4 * (0 - 0) + 3 / 4 * (2 - 0), 0 + 1 / 4 * (1 - 0) + 3 / 4 * (0 - 0)] n [] ε₀ :=
  tri_normal_outward sqrtOk_real tolR tolR_ok.1 tolR_ok.2 "x" _ _ _ [] 0 0 0 1 2 0 (1 / 4) (3 / 4)
    (fun _ => rfl) (fun _ => rfl) (fun _ => rfl) (by norm_num) ⟨by norm_num, by norm_num, by norm_num⟩
    (Or.inr (Or.inr (by norm_num)))

example : ∃ n ε₀, 0 < ε₀ ∧
    normalAux false tolR (.par "x" (.const [0, 0]) (.const [0, 1]) (.const [1, 0]))
      [("x", [0 + 1 / 2 * (0 - 0) + 0 * (1 - 0), 0 + 1 / 2 * (1 - 0) + 0 * (0 - 0)])] [] = some n ∧
    ∀ ε, 0 < ε → ε < ε₀ →
      mem (.par "x" (.const [0, 0]) (.const [0, 1]) (.const [1, 0]))
        [("x", moved [0 + 1 / 2 * (0 - 0) + 0 * (1 - 0), 0 + 1 / 2 * (1 - 0) + 0 * (0 - 0)] n ε)] [] ∧
      ¬ mem (.par "x" (.const [0, 0]) (.const [0, 1]) (.const [1, 0]))
        [("x", moved [0 + 1 / 2 * (0 - 0) + 0 * (1 - 0), 0 + 1 / 2 * (1 - 0) + 0 * (0 - 0)] n (-ε))] [] :=
  par_normal_old_inward sqrtOk_real tolR tolR_ok.1 tolR_ok.2 "x" _ _ _ [] 0 0 0 1 1 0 (1 / 2) 0
    (fun _ => rfl) (fun _ => rfl) (fun _ => rfl) (by norm_num) ⟨by norm_num, by norm_num⟩ ⟨by norm_num, by norm_num⟩
    (Or.inr (Or.inr (Or.inl rfl)))

/-! ### perpendicularity on open edges -/

theorem closeW_far0 (τ : Tol K) (t w : K) (h : τ.batol < t) : closeW τ t 0 w = 0 := by
  have : isclose τ.bary t 0 = false := by
    cases hh : isclose τ.bary t 0
    · rfl
    · rw [isclose_iff] at hh
      simp only [Tol.bary, sub_zero, abs_zero, mul_zero, add_zero] at hh
      have := le_abs_self t; linarith
  simp [closeW, this]

theorem closeW_far1 (τ : Tol K) (t w : K) (h : t + τ.batol + τ.rtol < 1) : closeW τ t 1 w = 0 := by
  have : isclose τ.bary t 1 = false := by
    cases hh : isclose τ.bary t 1
    · rfl
    · rw [isclose_iff] at hh
      simp only [Tol.bary, abs_one, mul_one] at hh
      have := neg_abs_le (t - 1); linarith
  simp [closeW, this]

theorem finish2_some (det : K) (raw : K × K) (nx ny : K) (h : finish2 true det raw = some [nx, ny]) :
    nx = raw.1 * sgn det / HasSqrt.sqrt (raw.1 * sgn det * (raw.1 * sgn det) + raw.2 * sgn det * (raw.2 * sgn det)) ∧
    ny = raw.2 * sgn det / HasSqrt.sqrt (raw.1 * sgn det * (raw.1 * sgn det) + raw.2 * sgn det * (raw.2 * sgn det)) := by
  simp only [finish2, if_true, unit2] at h
  split at h
  · simp at h
  · simp only [Option.some.injEq, List.cons.injEq, and_true] at h
    exact ⟨h.1.symm, h.2.symm⟩

/-- **Perpendicular on the open edges of a parallelogram.** At a point of an edge `s ∈ {0,1}` whose other
    barycentric coordinate is farther than the tolerance from 0 and 1, the coded normal is perpendicular to that
    edge (direction `corner_2 − origin`); symmetrically for the edges `t ∈ {0,1}` (direction `corner_1 − origin`). -/
theorem par_normal_perp (τ : Tol K) (v : String) (o c1 c2 : PFun K) (ρ : Env K)
    (ox oy ax ay bx cy s t nx ny : K)
    (ho : ∀ q, o.f ([(v, q)] ++ ρ) = [ox, oy]) (h1 : ∀ q, c1.f ([(v, q)] ++ ρ) = [ax, ay])
    (h2 : ∀ q, c2.f ([(v, q)] ++ ρ) = [bx, cy])
    (hdet : (ax - ox) * (cy - oy) - (ay - oy) * (bx - ox) ≠ 0)
    (hn : normalAux true τ (.par v o c1 c2)
      [(v, [ox + s * (ax - ox) + t * (bx - ox), oy + s * (ay - oy) + t * (cy - oy)])] ρ = some [nx, ny]) :
    (τ.batol < t → t + τ.batol + τ.rtol < 1 → nx * (bx - ox) + ny * (cy - oy) = 0) ∧
    (τ.batol < s → s + τ.batol + τ.rtol < 1 → nx * (ax - ox) + ny * (ay - oy) = 0) := by
  simp only [normalAux, get_single, ho, h1, h2] at hn
  obtain ⟨e1, e2⟩ := finish2_some _ _ nx ny hn
  have hsol : solveLgs (ox + s * (ax - ox) + t * (bx - ox) - ox) (oy + s * (ay - oy) + t * (cy - oy) - oy)
      (ax - ox) (ay - oy) (bx - ox) (cy - oy) = (s, t) :=
    solveLgs_fst _ _ _ _ _ _ s t hdet (by ring) (by ring)
  simp only [parRaw, parNormalDir, unit2, hsol] at e1 e2
  constructor
  · intro ha hb
    rw [closeW_far0 τ t _ ha, closeW_far1 τ t _ hb] at e1 e2
    rw [e1, e2]; ring
  · intro ha hb
    rw [closeW_far0 τ s _ ha, closeW_far1 τ s _ hb] at e1 e2
    rw [e1, e2]; ring

/-- **Perpendicular on the open edges of a triangle**: on the edge opposite to a corner, away from the
    other two edges by more than the tolerance, the coded normal is perpendicular to that edge. -/
theorem tri_normal_perp (τ : Tol K) (v : String) (o c1 c2 : PFun K) (ρ : Env K)
    (ox oy ax ay bx cy s t nx ny : K)
    (ho : ∀ q, o.f ([(v, q)] ++ ρ) = [ox, oy]) (h1 : ∀ q, c1.f ([(v, q)] ++ ρ) = [ax, ay])
    (h2 : ∀ q, c2.f ([(v, q)] ++ ρ) = [bx, cy])
    (hdet : (ax - ox) * (cy - oy) - (ay - oy) * (bx - ox) ≠ 0)
    (hn : normalAux true τ (.tri v o c1 c2)
      [(v, [ox + s * (ax - ox) + t * (bx - ox), oy + s * (ay - oy) + t * (cy - oy)])] ρ = some [nx, ny]) :
    -- edge origin → corner_2 (s = 0)
    (τ.batol < t → s + t + τ.batol + τ.rtol < 1 → nx * (bx - ox) + ny * (cy - oy) = 0) ∧
    -- edge origin → corner_1 (t = 0)
    (τ.batol < s → s + t + τ.batol + τ.rtol < 1 → nx * (ax - ox) + ny * (ay - oy) = 0) ∧
    -- edge corner_1 → corner_2 (s + t = 1)
    (τ.batol < s → τ.batol < t → nx * (bx - ax) + ny * (cy - ay) = 0) := by
  simp only [normalAux, get_single, ho, h1, h2] at hn
  obtain ⟨e1, e2⟩ := finish2_some _ _ nx ny hn
  have hsol : solveLgs (ox + s * (ax - ox) + t * (bx - ox) - ox) (oy + s * (ay - oy) + t * (cy - oy) - oy)
      (ax - ox) (ay - oy) (bx - ox) (cy - oy) = (s, t) :=
    solveLgs_fst _ _ _ _ _ _ s t hdet (by ring) (by ring)
  simp only [triRaw, triNormalDir, unit2, hsol] at e1 e2
  refine ⟨fun ha hb => ?_, fun ha hb => ?_, fun ha hb => ?_⟩
  · rw [closeW_far0 τ t _ ha, closeW_far1 τ (s + t) _ hb] at e1 e2
    rw [e1, e2]; ring
  · rw [closeW_far0 τ s _ ha, closeW_far1 τ (s + t) _ hb] at e1 e2
    rw [e1, e2]; ring
  · rw [closeW_far0 τ s _ ha, closeW_far0 τ t _ hb] at e1 e2
    rw [e1, e2]; ring

theorem finish2_shape (o : Bool) (det : K) (raw : K × K) (n : List K) (h : finish2 o det raw = some n) :
    ∃ nx ny, n = [nx, ny] := by
  cases o
  · simp only [finish2, Bool.false_eq_true, if_false] at h
    split at h
    · simp at h
    · exact ⟨_, _, (Option.some.inj h).symm⟩
  · simp only [finish2, if_true] at h
    split at h
    · simp at h
    · exact ⟨_, _, (Option.some.inj h).symm⟩

/-- non-vacuity of `par_normal_perp`: the clockwise slanted parallelogram of the example above, middle of the edge
    `s = 0`: a normal exists and is perpendicular to `corner_2 − origin = (3, 1)` -/
example : ∃ nx ny : ℝ, normalAux true tolR (.par "x" (.const [0, 0]) (.const [1, 2]) (.const [3, 1]))
      [("x", [0 + 0 * (1 - 0) + 1 / 2 * (3 - 0), 0 + 0 * (2 - 0) + 1 / 2 * (1 - 0)])] [] = some [nx, ny] ∧
    nx * (3 - 0) + ny * (1 - 0) = 0 := by
  obtain ⟨n, _, _, hn, _, _⟩ := par_normal_outward sqrtOk_real tolR tolR_ok.1 tolR_ok.2 "x"
    (.const [0, 0]) (.const [1, 2]) (.const [3, 1]) [] 0 0 1 2 3 1 0 (1 / 2)
    (fun _ => rfl) (fun _ => rfl) (fun _ => rfl) (by norm_num) ⟨by norm_num, by norm_num⟩ ⟨by norm_num, by norm_num⟩
    (Or.inl rfl)
  have hn' := hn
  simp only [normalAux, get_single, PFun.const] at hn'
  obtain ⟨nx, ny, rfl⟩ := finish2_shape _ _ _ _ hn'
  refine ⟨nx, ny, hn, ?_⟩
  exact (par_normal_perp tolR "x" (.const [0, 0]) (.const [1, 2]) (.const [3, 1]) [] 0 0 1 2 3 1 0 (1 / 2) nx ny
    (fun _ => rfl) (fun _ => rfl) (fun _ => rfl) (by norm_num) hn).1 (by simp only [tolR]; norm_num) (by simp only [tolR]; norm_num)

/-! ### tolerance: points NEAR an edge get that edge's normal -/

theorem closeW_near (τ : Tol K) (a i w : K) (h : |a - i| ≤ τ.batol + τ.rtol * |i|) : closeW τ a i w = w := by
  have : isclose τ.bary a i = true := by rw [isclose_iff]; simpa [Tol.bary] using h
  simp [closeW, this]

/-- the parallelogram normal depends on the point only through the `isclose` flags of its barycentric coordinates -/
theorem par_normal_congr (o' : Bool) (τ : Tol K) (v : String) (o c1 c2 : PFun K) (ρ : Env K)
    (ox oy ax ay bx cy s t s' t' : K)
    (ho : ∀ q, o.f ([(v, q)] ++ ρ) = [ox, oy]) (h1 : ∀ q, c1.f ([(v, q)] ++ ρ) = [ax, ay])
    (h2 : ∀ q, c2.f ([(v, q)] ++ ρ) = [bx, cy])
    (hdet : (ax - ox) * (cy - oy) - (ay - oy) * (bx - ox) ≠ 0)
    (hx : closeW τ s 0 (-1) + closeW τ s 1 1 = closeW τ s' 0 (-1) + closeW τ s' 1 1)
    (hy : closeW τ t 0 (-1) + closeW τ t 1 1 = closeW τ t' 0 (-1) + closeW τ t' 1 1) :
    normalAux o' τ (.par v o c1 c2) [(v, [ox + s * (ax - ox) + t * (bx - ox), oy + s * (ay - oy) + t * (cy - oy)])] ρ =
    normalAux o' τ (.par v o c1 c2) [(v, [ox + s' * (ax - ox) + t' * (bx - ox), oy + s' * (ay - oy) + t' * (cy - oy)])] ρ := by
  have hsol : ∀ a b : K, solveLgs (ox + a * (ax - ox) + b * (bx - ox) - ox) (oy + a * (ay - oy) + b * (cy - oy) - oy)
      (ax - ox) (ay - oy) (bx - ox) (cy - oy) = (a, b) :=
    fun a b => solveLgs_fst _ _ _ _ _ _ a b hdet (by ring) (by ring)
  simp only [normalAux, get_single, ho, h1, h2, parRaw, hsol, hx, hy]

/-- **A point within the tolerance of an edge gets that edge's normal (parallelogram).** If the barycentric coordinate
    `s` of a point is within `BARY_ATOL` of 0 (resp. within `BARY_ATOL + rtol` of 1) and `t` is farther than the
    tolerance from 0 and 1 — the situation of a float32 boundary sample on the open edge — then `normal` returns
    exactly the vector it returns at the exact edge point with the same `t` (which `par_normal_outward` proves to be
    the outward unit normal and `par_normal_perp` proves perpendicular to the edge).  Symmetric in `s ↔ t`. -/
theorem par_normal_near_edge (o' : Bool) (τ : Tol K) (hτ : τ.ok) (hsmall : τ.small) (v : String) (o c1 c2 : PFun K) (ρ : Env K)
    (ox oy ax ay bx cy s t : K)
    (ho : ∀ q, o.f ([(v, q)] ++ ρ) = [ox, oy]) (h1 : ∀ q, c1.f ([(v, q)] ++ ρ) = [ax, ay])
    (h2 : ∀ q, c2.f ([(v, q)] ++ ρ) = [bx, cy])
    (hdet : (ax - ox) * (cy - oy) - (ay - oy) * (bx - ox) ≠ 0) :
    (|s| ≤ τ.batol →
      normalAux o' τ (.par v o c1 c2) [(v, [ox + s * (ax - ox) + t * (bx - ox), oy + s * (ay - oy) + t * (cy - oy)])] ρ =
      normalAux o' τ (.par v o c1 c2) [(v, [ox + 0 * (ax - ox) + t * (bx - ox), oy + 0 * (ay - oy) + t * (cy - oy)])] ρ) ∧
    (|s - 1| ≤ τ.batol + τ.rtol →
      normalAux o' τ (.par v o c1 c2) [(v, [ox + s * (ax - ox) + t * (bx - ox), oy + s * (ay - oy) + t * (cy - oy)])] ρ =
      normalAux o' τ (.par v o c1 c2) [(v, [ox + 1 * (ax - ox) + t * (bx - ox), oy + 1 * (ay - oy) + t * (cy - oy)])] ρ) ∧
    (|t| ≤ τ.batol →
      normalAux o' τ (.par v o c1 c2) [(v, [ox + s * (ax - ox) + t * (bx - ox), oy + s * (ay - oy) + t * (cy - oy)])] ρ =
      normalAux o' τ (.par v o c1 c2) [(v, [ox + s * (ax - ox) + 0 * (bx - ox), oy + s * (ay - oy) + 0 * (cy - oy)])] ρ) ∧
    (|t - 1| ≤ τ.batol + τ.rtol →
      normalAux o' τ (.par v o c1 c2) [(v, [ox + s * (ax - ox) + t * (bx - ox), oy + s * (ay - oy) + t * (cy - oy)])] ρ =
      normalAux o' τ (.par v o c1 c2) [(v, [ox + s * (ax - ox) + 1 * (bx - ox), oy + s * (ay - oy) + 1 * (cy - oy)])] ρ) := by
  have hb := hτ.2.2; have hr := hτ.2.1
  unfold Tol.small at hsmall
  -- flags of a coordinate near 0 / near 1 / exactly 0 / exactly 1
  have near0 : ∀ a : K, |a| ≤ τ.batol → closeW τ a 0 (-1) + closeW τ a 1 1 = -1 := fun a h => by
    rw [closeW_near τ a 0 (-1) (by simpa using h), closeW_far1 τ a 1 (by have := le_abs_self a; linarith)]; ring
  have near1 : ∀ a : K, |a - 1| ≤ τ.batol + τ.rtol → closeW τ a 0 (-1) + closeW τ a 1 1 = 1 := fun a h => by
    rw [closeW_near τ a 1 1 (by simpa using h), closeW_far0 τ a (-1) (by have := neg_abs_le (a - 1); linarith)]; ring
  have z0 := near0 0 (by simpa using hb)
  have z1 := near1 1 (by simp; linarith)
  refine ⟨fun h => ?_, fun h => ?_, fun h => ?_, fun h => ?_⟩
  · exact par_normal_congr o' τ v o c1 c2 ρ ox oy ax ay bx cy s t 0 t ho h1 h2 hdet (by rw [near0 s h, z0]) rfl
  · exact par_normal_congr o' τ v o c1 c2 ρ ox oy ax ay bx cy s t 1 t ho h1 h2 hdet (by rw [near1 s h, z1]) rfl
  · exact par_normal_congr o' τ v o c1 c2 ρ ox oy ax ay bx cy s t s 0 ho h1 h2 hdet rfl (by rw [near0 t h, z0])
  · exact par_normal_congr o' τ v o c1 c2 ρ ox oy ax ay bx cy s t s 1 ho h1 h2 hdet rfl (by rw [near1 t h, z1])

/-- the triangle normal depends on the point only through its three `isclose` flags -/
theorem tri_normal_congr (o' : Bool) (τ : Tol K) (v : String) (o c1 c2 : PFun K) (ρ : Env K)
    (ox oy ax ay bx cy s t s' t' : K)
    (ho : ∀ q, o.f ([(v, q)] ++ ρ) = [ox, oy]) (h1 : ∀ q, c1.f ([(v, q)] ++ ρ) = [ax, ay])
    (h2 : ∀ q, c2.f ([(v, q)] ++ ρ) = [bx, cy])
    (hdet : (ax - ox) * (cy - oy) - (ay - oy) * (bx - ox) ≠ 0)
    (h3 : closeW τ s 0 1 = closeW τ s' 0 1) (hh1 : closeW τ t 0 1 = closeW τ t' 0 1)
    (hh2 : closeW τ (s + t) 1 1 = closeW τ (s' + t') 1 1) :
    normalAux o' τ (.tri v o c1 c2) [(v, [ox + s * (ax - ox) + t * (bx - ox), oy + s * (ay - oy) + t * (cy - oy)])] ρ =
    normalAux o' τ (.tri v o c1 c2) [(v, [ox + s' * (ax - ox) + t' * (bx - ox), oy + s' * (ay - oy) + t' * (cy - oy)])] ρ := by
  have hsol : ∀ a b : K, solveLgs (ox + a * (ax - ox) + b * (bx - ox) - ox) (oy + a * (ay - oy) + b * (cy - oy) - oy)
      (ax - ox) (ay - oy) (bx - ox) (cy - oy) = (a, b) :=
    fun a b => solveLgs_fst _ _ _ _ _ _ a b hdet (by ring) (by ring)
  simp only [normalAux, get_single, ho, h1, h2, triRaw, hsol, h3, hh1, hh2]

/-- **A point within the tolerance of an edge gets that edge's normal (triangle)**: near the edge `s = 0`, away from
    the other two edges, the normal is the one at the exact edge point with the same `t`; likewise for the edge `t = 0`. -/
theorem tri_normal_near_edge (o' : Bool) (τ : Tol K) (hτ : τ.ok) (v : String) (o c1 c2 : PFun K) (ρ : Env K)
    (ox oy ax ay bx cy s t : K)
    (ho : ∀ q, o.f ([(v, q)] ++ ρ) = [ox, oy]) (h1 : ∀ q, c1.f ([(v, q)] ++ ρ) = [ax, ay])
    (h2 : ∀ q, c2.f ([(v, q)] ++ ρ) = [bx, cy])
    (hdet : (ax - ox) * (cy - oy) - (ay - oy) * (bx - ox) ≠ 0) :
    (|s| ≤ τ.batol → τ.batol < t → s + t + τ.batol + τ.rtol < 1 → t + τ.batol + τ.rtol < 1 →
      normalAux o' τ (.tri v o c1 c2) [(v, [ox + s * (ax - ox) + t * (bx - ox), oy + s * (ay - oy) + t * (cy - oy)])] ρ =
      normalAux o' τ (.tri v o c1 c2) [(v, [ox + 0 * (ax - ox) + t * (bx - ox), oy + 0 * (ay - oy) + t * (cy - oy)])] ρ) ∧
    (|t| ≤ τ.batol → τ.batol < s → s + t + τ.batol + τ.rtol < 1 → s + τ.batol + τ.rtol < 1 →
      normalAux o' τ (.tri v o c1 c2) [(v, [ox + s * (ax - ox) + t * (bx - ox), oy + s * (ay - oy) + t * (cy - oy)])] ρ =
      normalAux o' τ (.tri v o c1 c2) [(v, [ox + s * (ax - ox) + 0 * (bx - ox), oy + s * (ay - oy) + 0 * (cy - oy)])] ρ) := by
  have hb := hτ.2.2
  constructor
  · intro hs ht hst ht1
    apply tri_normal_congr o' τ v o c1 c2 ρ ox oy ax ay bx cy s t 0 t ho h1 h2 hdet
    · rw [closeW_near τ s 0 1 (by simpa using hs), closeW_near τ 0 0 1 (by simpa using hb)]
    · rfl
    · rw [closeW_far1 τ (s + t) 1 hst, closeW_far1 τ (0 + t) 1 (by linarith)]
  · intro ht hs hst hs1
    apply tri_normal_congr o' τ v o c1 c2 ρ ox oy ax ay bx cy s t s 0 ho h1 h2 hdet
    · rfl
    · rw [closeW_near τ t 0 1 (by simpa using ht), closeW_near τ 0 0 1 (by simpa using hb)]
    · rw [closeW_far1 τ (s + t) 1 hst, closeW_far1 τ (s + 0) 1 (by linarith)]


/-! ### closed-form step bound for polygons -/

/-- signs of the two barycentric derivatives along the (scaled) coded vector -/
theorem par_alg_signs (d1x d1y d2x d2y l1 l2 wx wy : K) (hdet : d1x * d2y - d1y * d2x ≠ 0)
    (hl1 : 0 < l1) (hl1' : l1 * l1 = (-d1y) * (-d1y) + d1x * d1x)
    (hl2 : 0 < l2) (hl2' : l2 * l2 = (-d2y) * (-d2y) + d2x * d2x)
    (hwx : wx = -1 ∨ wx = 0 ∨ wx = 1) (hwy : wy = -1 ∨ wy = 0 ∨ wy = 1)
    (vx vy : K)
    (hvx : vx = ((-d1y / l1) * wy + (-(-d2y / l2)) * wx) * sgn (d1x * d2y - d1y * d2x))
    (hvy : vy = ((d1x / l1) * wy + (-(d2x / l2)) * wx) * sgn (d1x * d2y - d1y * d2x))
    (L : K) (hL : 0 < L) :
    (wx = -1 → (d2y * (vx / L) - d2x * (vy / L)) / (d1x * d2y - d1y * d2x) < 0) ∧
    (wx = 1 → 0 < (d2y * (vx / L) - d2x * (vy / L)) / (d1x * d2y - d1y * d2x)) ∧
    (wy = -1 → (d1x * (vy / L) - d1y * (vx / L)) / (d1x * d2y - d1y * d2x) < 0) ∧
    (wy = 1 → 0 < (d1x * (vy / L) - d1y * (vx / L)) / (d1x * d2y - d1y * d2x)) := by
  set det := d1x * d2y - d1y * d2x with hdetdef
  set sg := sgn det with hsg
  have hκ : 0 < sg / det := by
    have h1 := sgn_mul_self_pos det hdet
    have h2 : 0 < det * det := mul_self_pos.mpr hdet
    have : sg / det = (sg * det) / (det * det) := by field_simp
    rw [this]; exact div_pos h1 h2
  set P := d1x * d2x + d1y * d2y with hP
  have hcs : |P| < l1 * l2 := by
    apply cs_strict d1x d1y d2x d2y l1 l2 hl1 hl2 (by rw [hl1']; ring) (by rw [hl2']; ring) hdet
  have hcs' : |P| < l2 * l1 := by rwa [mul_comm]
  have e1 : (d1x * d1x + d1y * d1y) / l1 = l1 := by
    rw [div_eq_iff hl1.ne']; rw [hl1']; ring
  have e2 : (d2x * d2x + d2y * d2y) / l2 = l2 := by
    rw [div_eq_iff hl2.ne']; rw [hl2']; ring
  -- the two directional derivatives (before division by L)
  have Es : (d2y * vx - d2x * vy) / det = sg / det * (wx * l2 - wy * P / l1) := by
    have : d2y * vx - d2x * vy = sg * (wx * ((d2x * d2x + d2y * d2y) / l2) - wy * P / l1) := by
      rw [hvx, hvy]; ring
    rw [this, e2]; ring
  have Et : (d1x * vy - d1y * vx) / det = sg / det * (wy * l1 - wx * P / l2) := by
    have : d1x * vy - d1y * vx = sg * (wy * ((d1x * d1x + d1y * d1y) / l1) - wx * P / l2) := by
      rw [hvx, hvy]; ring
    rw [this, e1]; ring
  have awx := abs_le_one_of_tri wx hwx
  have awy := abs_le_one_of_tri wy hwy
  have Bs_neg : wx = -1 → wx * l2 - wy * P / l1 < 0 := fun h => by rw [h]; exact sel_neg wy P l1 l2 hl1 awy hcs
  have Bs_pos : wx = 1 → 0 < wx * l2 - wy * P / l1 := fun h => by rw [h]; exact sel_pos wy P l1 l2 hl1 awy hcs
  have Bt_neg : wy = -1 → wy * l1 - wx * P / l2 < 0 := fun h => by rw [h]; exact sel_neg wx P l2 l1 hl2 awx hcs'
  have Bt_pos : wy = 1 → 0 < wy * l1 - wx * P / l2 := fun h => by rw [h]; exact sel_pos wx P l2 l1 hl2 awx hcs'
  have hDs : (d2y * (vx / L) - d2x * (vy / L)) / det = sg / det * (wx * l2 - wy * P / l1) / L := by
    rw [← Es]; field_simp
  have hDt : (d1x * (vy / L) - d1y * (vx / L)) / det = sg / det * (wy * l1 - wx * P / l2) / L := by
    rw [← Et]; field_simp
  rw [hDs, hDt]
  refine ⟨fun h => ?_, fun h => ?_, fun h => ?_, fun h => ?_⟩
  · exact div_neg_of_neg_of_pos (mul_neg_of_pos_of_neg hκ (Bs_neg h)) hL
  · exact div_pos (mul_pos hκ (Bs_pos h)) hL
  · exact div_neg_of_neg_of_pos (mul_neg_of_pos_of_neg hκ (Bt_neg h)) hL
  · exact div_pos (mul_pos hκ (Bt_pos h)) hL

/-- a unit vector changes a barycentric coordinate by at most `ℓ/|det|` per unit step (Cauchy–Schwarz) -/
theorem dir_bound (a b nx ny l det : K) (hl : 0 < l) (hl' : l * l = a * a + b * b) (hn : nx * nx + ny * ny = 1)
    (hdet : det ≠ 0) : |(a * nx + b * ny) / det| ≤ l / |det| := by
  rw [abs_div]
  apply div_le_div_of_nonneg_right _ (abs_pos.mpr hdet).le
  apply abs_le_of_sq_le_sq _ hl.le
  have : (a * nx + b * ny) ^ 2 + (a * ny - b * nx) ^ 2 = l ^ 2 := by
    have : l ^ 2 = (a * a + b * b) * (nx * nx + ny * ny) := by rw [hn, ← hl']; ring
    rw [this]; ring
  nlinarith [sq_nonneg (a * ny - b * nx)]

/-- a constraint `g ≥ 0` survives the inward step if its edge is selected (derivative negative) or the step is
    at most `g / B`, `B` a bound on the derivative -/
theorem edge_keep (g0 D B ε : K) (h0 : 0 ≤ g0) (hε : 0 < ε) (hB : |D| ≤ B) (h : D < 0 ∨ ε * B ≤ g0) :
    0 ≤ g0 + (-ε) * D := by
  rcases h with h | h
  · nlinarith
  · have h1 : D ≤ |D| := le_abs_self D
    nlinarith


theorem flags_near0 (τ : Tol K) (hsmall : τ.small) (a : K) (h : |a| ≤ τ.batol) :
    closeW τ a 0 (-1) + closeW τ a 1 1 = -1 := by
  unfold Tol.small at hsmall
  have hb : 0 ≤ τ.batol := le_trans (abs_nonneg a) h
  rw [closeW_near τ a 0 (-1) (by simpa using h), closeW_far1 τ a 1 (by have := le_abs_self a; linarith)]; ring

theorem flags_near1 (τ : Tol K) (hτ : τ.ok) (hsmall : τ.small) (a : K) (h : |a - 1| ≤ τ.batol + τ.rtol) :
    closeW τ a 0 (-1) + closeW τ a 1 1 = 1 := by
  unfold Tol.small at hsmall
  have hb := hτ.2.2
  rw [closeW_near τ a 1 1 (by simpa using h), closeW_far0 τ a (-1) (by have := neg_abs_le (a - 1); linarith)]; ring

/-- **Closed-form step bound (parallelogram).** With `ℓ₁ = ‖corner_1 − origin‖`, `ℓ₂ = ‖corner_2 − origin‖` (any positive
    witnesses of the squared lengths) the quantity `s·|det|/ℓ₂` is the Euclidean distance from the point to the line of the
    edge `s = 0`, etc.  The coded normal at a boundary point is outward for EVERY step `ε > 0` that is at most the distance
    to each edge line that is not within the tolerance of the point (edges within the tolerance are the selected ones):
    `p + εn` is outside and `p − εn` is inside the denoted set. -/
theorem par_normal_outward_bound (hsq : SqrtOk K) (τ : Tol K) (hτ : τ.ok) (hsmall : τ.small)
    (v : String) (o c1 c2 : PFun K) (ρ : Env K) (ox oy ax ay bx cy s t l1 l2 ε : K)
    (ho : ∀ q, o.f ([(v, q)] ++ ρ) = [ox, oy]) (h1 : ∀ q, c1.f ([(v, q)] ++ ρ) = [ax, ay])
    (h2 : ∀ q, c2.f ([(v, q)] ++ ρ) = [bx, cy])
    (hdet : (ax - ox) * (cy - oy) - (ay - oy) * (bx - ox) ≠ 0)
    (hs : In01 s) (ht : In01 t) (hb : s = 0 ∨ s = 1 ∨ t = 0 ∨ t = 1)
    (hl1 : 0 < l1) (hl1' : l1 * l1 = (ax - ox) * (ax - ox) + (ay - oy) * (ay - oy))
    (hl2 : 0 < l2) (hl2' : l2 * l2 = (bx - ox) * (bx - ox) + (cy - oy) * (cy - oy))
    (hε : 0 < ε)
    (c1' : s ≤ τ.batol ∨ ε * l2 ≤ s * |(ax - ox) * (cy - oy) - (ay - oy) * (bx - ox)|)
    (c2' : 1 - s ≤ τ.batol + τ.rtol ∨ ε * l2 ≤ (1 - s) * |(ax - ox) * (cy - oy) - (ay - oy) * (bx - ox)|)
    (c3' : t ≤ τ.batol ∨ ε * l1 ≤ t * |(ax - ox) * (cy - oy) - (ay - oy) * (bx - ox)|)
    (c4' : 1 - t ≤ τ.batol + τ.rtol ∨ ε * l1 ≤ (1 - t) * |(ax - ox) * (cy - oy) - (ay - oy) * (bx - ox)|) :
    ∃ n, normalAux true τ (.par v o c1 c2)
        [(v, [ox + s * (ax - ox) + t * (bx - ox), oy + s * (ay - oy) + t * (cy - oy)])] ρ = some n ∧
      ¬ mem (.par v o c1 c2) [(v, moved [ox + s * (ax - ox) + t * (bx - ox), oy + s * (ay - oy) + t * (cy - oy)] n ε)] ρ ∧
      mem (.par v o c1 c2) [(v, moved [ox + s * (ax - ox) + t * (bx - ox), oy + s * (ay - oy) + t * (cy - oy)] n (-ε))] ρ := by
  obtain ⟨nx, ny, _, _, hfin, hunit, _⟩ := par_core hsq τ hτ hsmall ox oy ax ay bx cy s t hdet hs ht hb
  obtain ⟨e1, e2⟩ := finish2_some _ _ nx ny hfin
  have hsol : solveLgs (ox + s * (ax - ox) + t * (bx - ox) - ox) (oy + s * (ay - oy) + t * (cy - oy) - oy)
      (ax - ox) (ay - oy) (bx - ox) (cy - oy) = (s, t) :=
    solveLgs_fst _ _ _ _ _ _ s t hdet (by ring) (by ring)
  simp only [parRaw, parNormalDir, unit2, hsol] at e1 e2
  -- lengths inside the code
  have hd1 : 0 < (-(ay - oy)) * (-(ay - oy)) + (ax - ox) * (ax - ox) := by
    have : (-(ay - oy)) * (-(ay - oy)) + (ax - ox) * (ax - ox) = l1 * l1 := by rw [hl1']; ring
    rw [this]; exact mul_pos hl1 hl1
  have hd2 : 0 < (-(cy - oy)) * (-(cy - oy)) + (bx - ox) * (bx - ox) := by
    have : (-(cy - oy)) * (-(cy - oy)) + (bx - ox) * (bx - ox) = l2 * l2 := by rw [hl2']; ring
    rw [this]; exact mul_pos hl2 hl2
  obtain ⟨hk1, hk1'⟩ := sqrt_pos_of_pos hsq _ hd1
  obtain ⟨hk2, hk2'⟩ := sqrt_pos_of_pos hsq _ hd2
  obtain ⟨wx3, wx0, wx1⟩ := parW_facts τ hτ hsmall s
  obtain ⟨wy3, wy0, wy1⟩ := parW_facts τ hτ hsmall t
  set vx := ((-(ay - oy) / HasSqrt.sqrt ((-(ay - oy)) * (-(ay - oy)) + (ax - ox) * (ax - ox))) *
      (closeW τ t 0 (-1) + closeW τ t 1 1) +
      (-(-(cy - oy) / HasSqrt.sqrt ((-(cy - oy)) * (-(cy - oy)) + (bx - ox) * (bx - ox)))) *
      (closeW τ s 0 (-1) + closeW τ s 1 1)) * sgn ((ax - ox) * (cy - oy) - (ay - oy) * (bx - ox)) with hvx
  set vy := (((ax - ox) / HasSqrt.sqrt ((-(ay - oy)) * (-(ay - oy)) + (ax - ox) * (ax - ox))) *
      (closeW τ t 0 (-1) + closeW τ t 1 1) +
      (-((bx - ox) / HasSqrt.sqrt ((-(cy - oy)) * (-(cy - oy)) + (bx - ox) * (bx - ox)))) *
      (closeW τ s 0 (-1) + closeW τ s 1 1)) * sgn ((ax - ox) * (cy - oy) - (ay - oy) * (bx - ox)) with hvy
  have hL0 := (hsq (vx * vx + vy * vy) (by nlinarith [mul_self_nonneg vx, mul_self_nonneg vy])).1
  have hL : 0 < HasSqrt.sqrt (vx * vx + vy * vy) := by
    refine lt_of_le_of_ne hL0 (fun h => ?_)
    rw [← h] at e1 e2
    rw [e1, e2] at hunit; simp at hunit
  obtain ⟨sA, sB, sC, sD⟩ := par_alg_signs (ax - ox) (ay - oy) (bx - ox) (cy - oy) _ _ _ _ hdet hk1 hk1' hk2 hk2'
    wx3 wy3 vx vy rfl rfl _ hL
  rw [← e1, ← e2] at sA sB sC sD
  set det := (ax - ox) * (cy - oy) - (ay - oy) * (bx - ox) with hdetdef
  set Ds := ((cy - oy) * nx - (bx - ox) * ny) / det with hDs
  set Dt := ((ax - ox) * ny - (ay - oy) * nx) / det with hDt
  have hadet : 0 < |det| := abs_pos.mpr hdet
  have bS : |Ds| ≤ l2 / |det| := by
    have := dir_bound (cy - oy) (-(bx - ox)) nx ny l2 det hl2 (by rw [hl2']; ring) hunit hdet
    have e : ((cy - oy) * nx + -(bx - ox) * ny) / det = Ds := by rw [hDs]; ring
    rwa [e] at this
  have bT : |Dt| ≤ l1 / |det| := by
    have := dir_bound (-(ay - oy)) (ax - ox) nx ny l1 det hl1 (by rw [hl1']; ring) hunit hdet
    have e : (-(ay - oy) * nx + (ax - ox) * ny) / det = Dt := by rw [hDt]; ring
    rwa [e] at this
  have conv : ∀ g l : K, ε * l ≤ g * |det| → ε * (l / |det|) ≤ g := fun g l h => by
    rw [← mul_div_assoc, div_le_iff₀ hadet]; exact h
  -- the four constraints after the inward step
  have k1 : 0 ≤ s + (-ε) * Ds := edge_keep s Ds _ ε hs.1 hε bS
    (c1'.imp (fun h => sA (flags_near0 τ hsmall s (by rw [abs_of_nonneg hs.1]; exact h))) (conv s l2))
  have k2 : 0 ≤ (1 - s) + (-ε) * (-Ds) := edge_keep (1 - s) (-Ds) _ ε (by linarith [hs.2]) hε (by rwa [abs_neg])
    (c2'.imp (fun h => by
      have := sB (flags_near1 τ hτ hsmall s (by rw [abs_sub_comm, abs_of_nonneg (by linarith [hs.2])]; exact h))
      linarith) (conv (1 - s) l2))
  have k3 : 0 ≤ t + (-ε) * Dt := edge_keep t Dt _ ε ht.1 hε bT
    (c3'.imp (fun h => sC (flags_near0 τ hsmall t (by rw [abs_of_nonneg ht.1]; exact h))) (conv t l1))
  have k4 : 0 ≤ (1 - t) + (-ε) * (-Dt) := edge_keep (1 - t) (-Dt) _ ε (by linarith [ht.2]) hε (by rwa [abs_neg])
    (c4'.imp (fun h => by
      have := sD (flags_near1 τ hτ hsmall t (by rw [abs_sub_comm, abs_of_nonneg (by linarith [ht.2])]; exact h))
      linarith) (conv (1 - t) l1))
  refine ⟨[nx, ny], by simp only [normalAux, get_single, ho, h1, h2]; exact hfin, ?_, ?_⟩
  all_goals
    have key : ∀ e : K, solveLgs (ox + s * (ax - ox) + t * (bx - ox) + e * nx - ox)
        (oy + s * (ay - oy) + t * (cy - oy) + e * ny - oy) (ax - ox) (ay - oy) (bx - ox) (cy - oy) =
        (s + e * Ds, t + e * Dt) := by
      intro e
      have e1 : ox + s * (ax - ox) + t * (bx - ox) + e * nx - ox = (s * (ax - ox) + t * (bx - ox)) + e * nx := by ring
      have e2 : oy + s * (ay - oy) + t * (cy - oy) + e * ny - oy = (s * (ay - oy) + t * (cy - oy)) + e * ny := by ring
      rw [e1, e2, solveLgs_step, solveLgs_fst _ _ _ _ _ _ s t hdet rfl rfl]
    simp only [moved, List.zipWith_cons_cons, List.zipWith_nil_right]
    rw [par_mem_iff v o c1 c2 ρ _ _ ox oy ax ay bx cy (ho _) (h1 _) (h2 _) hdet, key]
  · rintro ⟨⟨p1, p2⟩, p3, p4⟩
    rcases hb with h | h | h | h
    · have := mul_neg_of_pos_of_neg hε (sA (wx0 h)); linarith
    · have := mul_pos hε (sB (wx1 h)); linarith
    · have := mul_neg_of_pos_of_neg hε (sC (wy0 h)); linarith
    · have := mul_pos hε (sD (wy1 h)); linarith
  · exact ⟨⟨k1, by linarith⟩, k3, by linarith⟩

/-! ### the separation hypothesis from a quantitative margin

  `SegIn / SegOut`: the whole segment `p + e·n`, `|e| < ε₀`, lies inside / outside a set.  They propagate through
  union / cut / intersection, hold for a disc (interval) whenever the point has distance-margin `≥ ε₀` from the circle
  line (end points), and they imply every partner clause of `Sep`.  This is the margin the harness computes per point
  ("no other boundary piece within 2.5ε"). -/

def SegIn (D : Dom K) (v : String) (p n : List K) (ρ : Env K) (ε₀ : K) : Prop :=
  ∀ e, |e| < ε₀ → mem D [(v, moved p n e)] ρ

def SegOut (D : Dom K) (v : String) (p n : List K) (ρ : Env K) (ε₀ : K) : Prop :=
  ∀ e, |e| < ε₀ → ¬ mem D [(v, moved p n e)] ρ

/-- propagation through the Boolean operations -/
theorem seg_bool (a b : Dom K) (v : String) (p n : List K) (ρ : Env K) (ε₀ : K) :
    (SegIn a v p n ρ ε₀ ∨ SegIn b v p n ρ ε₀ → SegIn (.union a b) v p n ρ ε₀) ∧
    (SegOut a v p n ρ ε₀ → SegOut b v p n ρ ε₀ → SegOut (.union a b) v p n ρ ε₀) ∧
    (SegIn a v p n ρ ε₀ → SegIn b v p n ρ ε₀ → SegIn (.inter a b) v p n ρ ε₀) ∧
    (SegOut a v p n ρ ε₀ ∨ SegOut b v p n ρ ε₀ → SegOut (.inter a b) v p n ρ ε₀) ∧
    (SegIn a v p n ρ ε₀ → SegOut b v p n ρ ε₀ → SegIn (.cut a b) v p n ρ ε₀) ∧
    (SegOut a v p n ρ ε₀ ∨ SegIn b v p n ρ ε₀ → SegOut (.cut a b) v p n ρ ε₀) := by
  refine ⟨?_, ?_, ?_, ?_, ?_, ?_⟩
  · rintro (h | h) e he
    · exact Or.inl (h e he)
    · exact Or.inr (h e he)
  · intro ha hb e he h; exact h.elim (ha e he) (hb e he)
  · intro ha hb e he; exact ⟨ha e he, hb e he⟩
  · rintro (h | h) e he hm
    · exact h e he hm.1
    · exact h e he hm.2
  · intro ha hb e he; exact ⟨ha e he, hb e he⟩
  · rintro (h | h) e he hm
    · exact h e he hm.1
    · exact hm.2 (h e he)

/-- every partner clause of `Sep` follows from `SegOut` / `SegIn` of the partner -/
theorem sep_of_seg (b : Dom K) (v : String) (p n : List K) (ρ : Env K) (ε₀ : K) :
    (SegOut b v p n ρ ε₀ → (∀ ε, 0 < ε → ε < ε₀ → ¬ mem b [(v, moved p n ε)] ρ) ∧
                            (∀ ε, 0 < ε → ε < ε₀ → ¬ mem b [(v, moved p n (-ε))] ρ)) ∧
    (SegIn b v p n ρ ε₀ → (∀ ε, 0 < ε → ε < ε₀ → mem b [(v, moved p n ε)] ρ) ∧
                           (∀ ε, 0 < ε → ε < ε₀ → mem b [(v, moved p n (-ε))] ρ)) := by
  constructor
  · intro h
    exact ⟨fun ε h0 hlt => h ε (by rw [abs_of_pos h0]; exact hlt),
           fun ε h0 hlt => h (-ε) (by rw [abs_neg, abs_of_pos h0]; exact hlt)⟩
  · intro h
    exact ⟨fun ε h0 hlt => h ε (by rw [abs_of_pos h0]; exact hlt),
           fun ε h0 hlt => h (-ε) (by rw [abs_neg, abs_of_pos h0]; exact hlt)⟩

/-- squared triangle inequality without square roots: `‖a‖ ≤ R`, `‖b‖ ≤ e` ⇒ `‖a + b‖ ≤ R + e` (2-D) -/
theorem sq_add_le (a1 a2 b1 b2 R e : K) (hR : 0 ≤ R) (he : 0 ≤ e) (ha : a1 ^ 2 + a2 ^ 2 ≤ R ^ 2)
    (hb : b1 ^ 2 + b2 ^ 2 ≤ e ^ 2) : (a1 + b1) ^ 2 + (a2 + b2) ^ 2 ≤ (R + e) ^ 2 := by
  have hcs : (a1 * b1 + a2 * b2) ^ 2 ≤ (R * e) ^ 2 := by
    have h1 : (a1 * b1 + a2 * b2) ^ 2 ≤ (a1 ^ 2 + a2 ^ 2) * (b1 ^ 2 + b2 ^ 2) := by
      nlinarith [sq_nonneg (a1 * b2 - a2 * b1)]
    have h2 : (a1 ^ 2 + a2 ^ 2) * (b1 ^ 2 + b2 ^ 2) ≤ R ^ 2 * e ^ 2 :=
      mul_le_mul ha hb (by positivity) (by positivity)
    calc _ ≤ _ := h1
      _ ≤ R ^ 2 * e ^ 2 := h2
      _ = (R * e) ^ 2 := by ring
  have hdot : a1 * b1 + a2 * b2 ≤ R * e := by
    have := abs_le_of_sq_le_sq hcs (mul_nonneg hR he)
    exact (abs_le.mp this).2
  nlinarith

/-- **Disc as partner.** If the point is inside the disc with distance margin `δ` from the circle line
    (`‖p − c‖ ≤ r − δ`) then every step shorter than `δ` along a unit vector stays inside; if it is outside with
    margin `δ` (`‖p − c‖ ≥ r + δ`) every such step stays outside. -/
theorem circle_seg (v : String) (c r : PFun K) (ρ : Env K) (x y cx cy rr nx ny δ : K)
    (hc : ∀ q, c.f ([(v, q)] ++ ρ) = [cx, cy]) (hr : ∀ q, r.f ([(v, q)] ++ ρ) = [rr])
    (hn : nx * nx + ny * ny = 1) (hδ : 0 ≤ δ) :
    (δ ≤ rr → (x - cx) ^ 2 + (y - cy) ^ 2 ≤ (rr - δ) ^ 2 → SegIn (.circle v c r) v [x, y] [nx, ny] ρ δ) ∧
    (0 ≤ rr → (rr + δ) ^ 2 ≤ (x - cx) ^ 2 + (y - cy) ^ 2 → SegOut (.circle v c r) v [x, y] [nx, ny] ρ δ) := by
  constructor
  · intro hle hin e he
    have hr0 : 0 ≤ rr := le_trans hδ hle
    simp only [moved, List.zipWith_cons_cons, List.zipWith_nil_right]
    rw [circle_mem_iff v c r ρ _ _ cx cy rr (hc _) (hr _) hr0]
    have hb : (e * nx) ^ 2 + (e * ny) ^ 2 ≤ |e| ^ 2 := by
      have : (e * nx) ^ 2 + (e * ny) ^ 2 = e ^ 2 * (nx * nx + ny * ny) := by ring
      rw [this, hn, mul_one, sq_abs]
    have := sq_add_le (x - cx) (y - cy) (e * nx) (e * ny) (rr - δ) |e| (by linarith) (abs_nonneg e) hin hb
    have e1 : x + e * nx - cx = (x - cx) + e * nx := by ring
    have e2 : y + e * ny - cy = (y - cy) + e * ny := by ring
    rw [e1, e2]
    have h3 : (rr - δ + |e|) ^ 2 ≤ rr ^ 2 := by
      apply pow_le_pow_left₀ (by linarith [abs_nonneg e]) (by linarith)
    linarith
  · intro hr0 hout e he hm
    simp only [moved, List.zipWith_cons_cons, List.zipWith_nil_right] at hm
    rw [circle_mem_iff v c r ρ _ _ cx cy rr (hc _) (hr _) hr0] at hm
    -- p − c = (q − c) + (−e n): ‖p − c‖ ≤ r + |e| < r + δ
    have hb : (-(e * nx)) ^ 2 + (-(e * ny)) ^ 2 ≤ |e| ^ 2 := by
      have : (-(e * nx)) ^ 2 + (-(e * ny)) ^ 2 = e ^ 2 * (nx * nx + ny * ny) := by ring
      rw [this, hn, mul_one, sq_abs]
    have := sq_add_le (x + e * nx - cx) (y + e * ny - cy) (-(e * nx)) (-(e * ny)) rr |e| hr0 (abs_nonneg e) hm hb
    have e1 : x + e * nx - cx + -(e * nx) = x - cx := by ring
    have e2 : y + e * ny - cy + -(e * ny) = y - cy := by ring
    rw [e1, e2] at this
    have h3 : (rr + |e|) ^ 2 < (rr + δ) ^ 2 := by
      apply pow_lt_pow_left₀ (by linarith) (by linarith [abs_nonneg e]) (by norm_num)
    linarith

/-- **Interval as partner**: margin `δ` from both end points (inside) resp. from the nearer end point (outside). -/
theorem interval_seg (v : String) (lb ub : PFun K) (ρ : Env K) (x l u n δ : K)
    (hl : ∀ q, lb.f ([(v, q)] ++ ρ) = [l]) (hu : ∀ q, ub.f ([(v, q)] ++ ρ) = [u]) (hn : |n| = 1) :
    (l + δ ≤ x → x + δ ≤ u → SegIn (.interval v lb ub) v [x] [n] ρ δ) ∧
    (x + δ ≤ l ∨ u + δ ≤ x → SegOut (.interval v lb ub) v [x] [n] ρ δ) := by
  have key : ∀ e : K, |e * n| = |e| := fun e => by rw [abs_mul, hn, mul_one]
  constructor
  · intro h1 h2 e he
    simp only [moved, List.zipWith_cons_cons, List.zipWith_nil_right]
    rw [interval_mem_iff v lb ub ρ _ l u (hl _) (hu _)]
    have := abs_le.mp (le_of_eq (key e))
    constructor <;> linarith [this.1, this.2]
  · intro h e he hm
    simp only [moved, List.zipWith_cons_cons, List.zipWith_nil_right] at hm
    rw [interval_mem_iff v lb ub ρ _ l u (hl _) (hu _)] at hm
    have := abs_le.mp (le_of_eq (key e))
    rcases h with h | h <;> linarith [this.1, this.2, hm.1, hm.2]


theorem SegIn.mono {D : Dom K} {v : String} {p n : List K} {ρ : Env K} {ε₀ ε₁ : K}
    (h : SegIn D v p n ρ ε₀) (hle : ε₁ ≤ ε₀) : SegIn D v p n ρ ε₁ := fun e he => h e (lt_of_lt_of_le he hle)

theorem SegOut.mono {D : Dom K} {v : String} {p n : List K} {ρ : Env K} {ε₀ ε₁ : K}
    (h : SegOut D v p n ρ ε₀) (hle : ε₁ ≤ ε₀) : SegOut D v p n ρ ε₁ := fun e he => h e (lt_of_lt_of_le he hle)

/-- **Holes.** For ANY domain `a` (arbitrarily nested) and a disc `b`: at a point of the circle line that lies inside `a`
    with margin `ε₀` (`SegIn a`, e.g. from `circle_seg` / `seg_bool` by structural recursion over `a`), the model's
    normal of `a ∖ b` is the FLIPPED radial vector and it is outward for `a ∖ b` for all steps below `min ε₀ 2r` —
    provided the point is not accepted by `a`'s own boundary test (so that the code selects `b`). -/
theorem cut_hole_outward (o' : Bool) (τ : Tol K) (a : Dom K) (v : String) (c r : PFun K) (ρ : Env K) (x y cx cy rr ε₀ : K)
    (hc : ∀ q, c.f ([(v, q)] ++ ρ) = [cx, cy]) (hr : ∀ q, r.f ([(v, q)] ++ ρ) = [rr]) (hpos : 0 < rr)
    (hon : (x - cx) ^ 2 + (y - cy) ^ 2 = rr ^ 2)
    (hsel : bdryContains τ a [(v, [x, y])] ρ = some false)
    (hin : SegIn a v [x, y] [(x - cx) / rr, (y - cy) / rr] ρ ε₀) :
    normalAux o' τ (.cut a (.circle v c r)) [(v, [x, y])] ρ = some [-((x - cx) / rr), -((y - cy) / rr)] ∧
    OutwardAt (.cut a (.circle v c r)) v [x, y] [-((x - cx) / rr), -((y - cy) / rr)] ρ (min ε₀ (2 * rr)) := by
  obtain ⟨hn, _, hout⟩ := circle_normal_outward o' τ v c r ρ x y cx cy rr hc hr hpos hon
  have hN : normalAux o' τ (.cut a (.circle v c r)) [(v, [x, y])] ρ = some [-((x - cx) / rr), -((y - cy) / rr)] := by
    simp only [bdryContains] at hsel
    simp only [normalAux, Option.bind_eq_bind, hsel, Option.bind_some, Bool.false_eq_true, if_false] at hn ⊢
    rw [hn]; rfl
  refine ⟨hN, ?_⟩
  have := cut_outward_right a (.circle v c r) v [x, y] [(x - cx) / rr, (y - cy) / rr] ρ (min ε₀ (2 * rr))
    (hout.mono (min_le_right _ _))
    (((sep_of_seg a v [x, y] _ ρ _).2 (hin.mono (min_le_left _ _))).1)
  simpa using this

/-- **Attached discs.** For any domain `a` and a disc `b`: at a point of the circle line outside `a` with margin `ε₀`
    the model's normal of `a ∪ b` is the radial vector and it is outward for the union. -/
theorem union_disc_outward (o' : Bool) (τ : Tol K) (a : Dom K) (v : String) (c r : PFun K) (ρ : Env K) (x y cx cy rr ε₀ : K)
    (hc : ∀ q, c.f ([(v, q)] ++ ρ) = [cx, cy]) (hr : ∀ q, r.f ([(v, q)] ++ ρ) = [rr]) (hpos : 0 < rr)
    (hon : (x - cx) ^ 2 + (y - cy) ^ 2 = rr ^ 2)
    (hsel : bdryContains τ a [(v, [x, y])] ρ = some false)
    (hout' : SegOut a v [x, y] [(x - cx) / rr, (y - cy) / rr] ρ ε₀) :
    normalAux o' τ (.union a (.circle v c r)) [(v, [x, y])] ρ = some [(x - cx) / rr, (y - cy) / rr] ∧
    OutwardAt (.union a (.circle v c r)) v [x, y] [(x - cx) / rr, (y - cy) / rr] ρ (min ε₀ (2 * rr)) := by
  obtain ⟨hn, _, hout⟩ := circle_normal_outward o' τ v c r ρ x y cx cy rr hc hr hpos hon
  refine ⟨?_, ?_⟩
  · simp only [bdryContains] at hsel
    simp only [normalAux, Option.bind_eq_bind, hsel, Option.bind_some, Bool.false_eq_true, if_false] at hn ⊢
    exact hn
  · exact union_outward_right a (.circle v c r) v [x, y] _ ρ _ (hout.mono (min_le_right _ _))
      (((sep_of_seg a v [x, y] _ ρ _).1 (hout'.mono (min_le_left _ _))).1)


/-- non-vacuity of `par_normal_outward_bound`: clockwise 5×5 square with corners (0,0), (−4,3), (3,4) (det = −25), middle of
    the edge `s = 0`, step ε = 1 (the other edge lines are at distance 5, 2.5, 2.5) -/
example : ∃ n, normalAux true tolR (.par "x" (.const [0, 0]) (.const [-4, 3]) (.const [3, 4]))
      [("x", [0 + 0 * (-4 - 0) + 1 / 2 * (3 - 0), 0 + 0 * (3 - 0) + 1 / 2 * (4 - 0)])] [] = some n ∧
    ¬ mem (.par "x" (.const [0, 0]) (.const [-4, 3]) (.const [3, 4]))
      [("x", moved [0 + 0 * (-4 - 0) + 1 / 2 * (3 - 0), 0 + 0 * (3 - 0) + 1 / 2 * (4 - 0)] n 1)] [] ∧
    mem (.par "x" (.const [0, 0]) (.const [-4, 3]) (.const [3, 4]))
      [("x", moved [0 + 0 * (-4 - 0) + 1 / 2 * (3 - 0), 0 + 0 * (3 - 0) + 1 / 2 * (4 - 0)] n (-1))] [] :=
  par_normal_outward_bound sqrtOk_real tolR tolR_ok.1 tolR_ok.2 "x" _ _ _ [] 0 0 (-4) 3 3 4 0 (1 / 2) 5 5 1
    (fun _ => rfl) (fun _ => rfl) (fun _ => rfl) (by norm_num) ⟨by norm_num, by norm_num⟩ ⟨by norm_num, by norm_num⟩
    (Or.inl rfl) (by norm_num) (by norm_num) (by norm_num) (by norm_num) (by norm_num)
    (Or.inl (by simp only [tolR]; norm_num)) (Or.inr (by norm_num [abs_of_neg])) (Or.inr (by norm_num [abs_of_neg]))
    (Or.inr (by norm_num [abs_of_neg]))

/-- non-vacuity of `par_normal_near_edge`: a point 5·10⁻⁶ (barycentric) inside the edge `s = 0` gets the edge's normal -/
example : normalAux true tolR (.par "x" (.const [0, 0]) (.const [1, 2]) (.const [3, 1]))
      [("x", [0 + 1 / 200000 * (1 - 0) + 1 / 2 * (3 - 0), 0 + 1 / 200000 * (2 - 0) + 1 / 2 * (1 - 0)])] [] =
    normalAux true tolR (.par "x" (.const [0, 0]) (.const [1, 2]) (.const [3, 1]))
      [("x", [0 + 0 * (1 - 0) + 1 / 2 * (3 - 0), 0 + 0 * (2 - 0) + 1 / 2 * (1 - 0)])] [] :=
  (par_normal_near_edge true tolR tolR_ok.1 tolR_ok.2 "x" (.const [0, 0]) (.const [1, 2]) (.const [3, 1]) [] 0 0 1 2 3 1
    (1 / 200000) (1 / 2) (fun _ => rfl) (fun _ => rfl) (fun _ => rfl) (by norm_num)).1
    (by simp only [tolR]; rw [abs_of_pos (by norm_num)]; norm_num)

/-! ### non-vacuity of the Boolean theorems on the executable instance `ℚ` -/

section examples
/-- only so that the model can be evaluated over `ℚ` in the examples below; no square root is taken on discs,
    balls and intervals, and the theorems used here do not assume `SqrtOk` -/
local instance ratNoSqrt : HasSqrt Rat := ⟨fun x => x⟩

def tolQ : Tol Rat := ⟨1 / 100000000, 1 / 100000, 1 / 100000⟩

/-- square `[0,4]²` minus the unit disc around (2,2) -/
def exCut : Dom Rat :=
  .cut (.par "x" (.const [0, 0]) (.const [4, 0]) (.const [0, 4])) (.circle "x" (.const [2, 2]) (.const [1]))

/-- at the point (3,2) of the hole's rim the model returns the FLIPPED disc normal (−1, 0), and it is outward for
    the cut domain: steps towards the hole's centre leave the domain, steps away from it stay inside. -/
example : normalAux true tolQ exCut [("x", [3, 2])] [] = some [-1, 0] ∧
    OutwardAt exCut "x" [3, 2] [-1, 0] [] 1 := by
  have hn : normalAux true tolQ exCut [("x", [3, 2])] [] = some [-1, 0] := by decide +kernel
  refine ⟨hn, normal_bool_outward true tolQ exCut "x" [3, 2] [-1, 0] [] 1 hn ?_⟩
  simp only [exCut, Sep]
  refine ⟨fun h => absurd h (by decide +kernel), fun _ => ⟨?_, ?_⟩⟩
  · intro _
    have h := circle_normal_outward true tolQ "x" (.const [2, 2]) (.const [1]) [] 3 2 2 2 1
      (fun _ => rfl) (fun _ => rfl) (by norm_num) (by norm_num)
    have e : ([(3 - 2) / 1, (2 - 2) / 1] : List Rat) = [1, 0] := by norm_num
    rw [e] at h
    have e2 : (([-1, 0] : List Rat).map (- ·)) = [1, 0] := by norm_num
    rw [e2]
    exact h.2.2.mono (by norm_num)
  · intro ε h0 hlt
    simp only [moved, List.zipWith_cons_cons, List.zipWith_nil_right]
    refine ⟨_, _, 0, 0, 4, 0, 0, 4, (3 + ε) / 4, 1 / 2, get_single _ _, rfl, rfl, rfl, ?_, ?_, ?_, ?_, ?_, ?_⟩
    · linarith
    · linarith
    · norm_num
    · norm_num
    · ring
    · ring

/-- interval `[0, 2]`: −1 at the left end, +1 at the right end -/
example : (normalAux true tolQ (.interval "y" (.const [0]) (.const [2]) : Dom Rat) [("y", [0])] [] = some [-1] ∧
      OutwardAt (.interval "y" (.const [0]) (.const [2]) : Dom Rat) "y" [0] [-1] [] (2 - 0)) ∧
    (normalAux true tolQ (.interval "y" (.const [0]) (.const [2]) : Dom Rat) [("y", [2])] [] = some [1] ∧
      OutwardAt (.interval "y" (.const [0]) (.const [2]) : Dom Rat) "y" [2] [1] [] (2 - 0)) :=
  interval_normal_outward true tolQ (by simp only [Tol.ok, tolQ]; norm_num) "y" (.const [0]) (.const [2]) [] (0 : Rat) 2
    (fun _ => rfl) (fun _ => rfl) (by simp only [tolQ]; norm_num)

/-- ball of radius 3 around (1,0,0) at the rational surface point (3,1,2) -/
example : dot [(3 - 1) / 3, (1 - 0) / 3, (2 - 0) / (3 : Rat)] [(3 - 1) / 3, (1 - 0) / 3, (2 - 0) / 3] = 1 ∧
    OutwardAt (.sphere "z" (.const [1, 0, 0]) (.const [3]) : Dom Rat) "z" [3, 1, 2] [(3 - 1) / 3, (1 - 0) / 3, (2 - 0) / 3] [] (2 * 3) :=
  (sphere_normal_outward true tolQ "z" (.const [1, 0, 0]) (.const [3]) [] 3 1 2 1 0 0 3
    (fun _ => rfl) (fun _ => rfl) (by norm_num) (by norm_num)).2

end examples

section examples2
local instance ratNoSqrt2 : HasSqrt Rat := ⟨fun x => x⟩

/-- non-vacuity of `cut_hole_outward` / `SegIn`: square `[0,4]²` minus the unit disc around (2,2), rim point (3,2), margin 1 -/
example : normalAux true tolQ exCut [("x", [3, 2])] [] = some [-((3 - 2) / 1), -((2 - 2) / 1)] ∧
    OutwardAt exCut "x" [3, 2] [-((3 - 2) / 1), -((2 - 2) / 1)] [] (min 1 (2 * 1)) := by
  refine cut_hole_outward true tolQ _ "x" (.const [2, 2]) (.const [1]) [] 3 2 2 2 1 1 (fun _ => rfl) (fun _ => rfl)
    (by norm_num) (by norm_num) (by decide +kernel) ?_
  intro e he
  have := abs_lt.mp he
  simp only [moved, List.zipWith_cons_cons, List.zipWith_nil_right]
  refine ⟨_, _, 0, 0, 4, 0, 0, 4, (3 + e) / 4, 1 / 2, get_single _ _, rfl, rfl, rfl, ?_, ?_, ?_, ?_, ?_, ?_⟩
  · linarith [this.1]
  · linarith [this.2]
  · norm_num
  · norm_num
  · ring
  · ring

/-- non-vacuity of `circle_seg`: the point (2,2) is inside the disc of radius 3 around (2,1) with margin 2, outside the disc of
    radius 1 around (6,2) with margin 3 -/
example : SegIn (.circle "x" (.const [2, 1]) (.const [3]) : Dom Rat) "x" [2, 2] [1, 0] [] 2 ∧
    SegOut (.circle "x" (.const [6, 2]) (.const [1]) : Dom Rat) "x" [2, 2] [1, 0] [] 3 :=
  ⟨(circle_seg "x" (.const [2, 1]) (.const [3]) [] 2 2 2 1 3 1 0 2 (fun _ => rfl) (fun _ => rfl) (by norm_num) (by norm_num)).1
      (by norm_num) (by norm_num),
   (circle_seg "x" (.const [6, 2]) (.const [1]) [] 2 2 6 2 1 1 0 3 (fun _ => rfl) (fun _ => rfl) (by norm_num) (by norm_num)).2
      (by norm_num) (by norm_num)⟩
end examples2

section finding
/-- a square-root function on `ℚ` that is exact on every radicand occurring in the witness below
    (9, 16, 25 — a 3-4-5 triangle — and 0, 1) -/
def sqrtQ (x : Rat) : Rat := if x = 25 then 5 else if x = 16 then 4 else if x = 9 then 3 else x

local instance ratSqrt345 : HasSqrt Rat := ⟨sqrtQ⟩

/-- 3-4-5 triangle ∪ unit disc around (8, −2) -/
def exUnion : Dom Rat :=
  .union (.tri "x" (.const [0, 0]) (.const [4, 0]) (.const [0, 3])) (.circle "x" (.const [8, -2]) (.const [1]))

/-- the third-edge clause of `TriangleBoundary._contains` BEFORE the repair de8b0f5: `isclose(bary_x + bary_y, 1)`
    without any range check -/
def triThirdEdgeOld (τ : Tol Rat) (x y ox oy ax ay bx cy : Rat) : Bool :=
  let b := solveLgs (x - ox) (y - oy) (ax - ox) (ay - oy) (bx - ox) (cy - oy)
  isclose τ.bary (b.1 + b.2) 1

/-- **Finding `tri_boundary_extended_line` (repaired in /repo de8b0f5), negative result about the old code.**
    The lowest point (8, −3) of the disc lies on the infinite line through the triangle's edge corner_1–corner_2
    (3x + 4y = 12), far outside the triangle. The OLD third-edge test accepted it, so `on_a` was true and the union's
    `where(on_a, a_normals, b_normals)` returned the TRIANGLE's normal there, which is (3/5, 4/5) — but a step of 1/2
    along it ends inside the disc: not outward. -/
theorem union_extended_line_old :
    triThirdEdgeOld tolQ 8 (-3) 0 0 4 0 0 3 = true ∧
    normalAux true tolQ (.tri "x" (.const [0, 0]) (.const [4, 0]) (.const [0, 3])) [("x", [8, -3])] [] = some [3 / 5, 4 / 5] ∧
    mem exUnion [("x", moved [8, -3] [3 / 5, 4 / 5] (1 / 2))] [] := by
  refine ⟨by decide +kernel, by decide +kernel, ?_⟩
  refine (contains_iff_mem tolQ exUnion _ _ true ?_ ?_ ?_).1 rfl
  · simp [exUnion, Dom.solid]
  · simp only [exUnion, NonDeg, PFun.const]
    refine ⟨?_, trivial⟩
    intro ox oy ax ay bx cy h1 h2 h3
    simp only [List.cons.injEq, and_true] at h1 h2 h3
    obtain ⟨rfl, rfl⟩ := h1; obtain ⟨rfl, rfl⟩ := h2; obtain ⟨rfl, rfl⟩ := h3
    norm_num
  · decide +kernel

/-- **After the repair** the triangle's boundary test rejects that point, the union's boundary test still accepts it
    (it is on the disc), and `normal` returns the disc's radial vector (0, −1), which is outward there. -/
theorem union_extended_line_repaired :
    bdryContains tolQ (.tri "x" (.const [0, 0]) (.const [4, 0]) (.const [0, 3])) [("x", [8, -3])] [] = some false ∧
    bdryContains tolQ exUnion [("x", [8, -3])] [] = some true ∧
    normalAux true tolQ exUnion [("x", [8, -3])] [] = some [0, -1] := by
  refine ⟨by decide +kernel, by decide +kernel, by decide +kernel⟩
end finding


end TPV.Geom
