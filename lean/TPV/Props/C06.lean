/-
  C06 — boundary normals are finite outward unit vectors.
  Model: TPV/Model/GeomNormal.lean; denotation `mem`: TPV/Proofs/GeomSpec.lean; algebra: TPV/Proofs/GeomNormalLemmas.lean.
-/
import TPV.Proofs.GeomNormalLemmas

namespace TPV.Geom
set_option linter.unusedSectionVars false
variable {K : Type} [Field K] [LinearOrder K] [IsStrictOrderedRing K] [HasSqrt K]

/-! ### outwardness in terms of the denoted set -/

/-- `p + ε·n`, coordinatewise -/
def moved (p n : List K) (ε : K) : List K := List.zipWith (fun x ni => x + ε * ni) p n

def dot (a b : List K) : K := (List.zipWith (fun x y => x * y) a b).sum

/-- `n` points out of `D` at the point `p` of variable `v` (parameter row `ρ`): every step of length
    `0 < ε < ε₀` along `n` ends outside the denoted set, every such step against `n` ends inside -/
def OutwardAt (D : Dom K) (v : String) (p n : List K) (ρ : Env K) (ε₀ : K) : Prop :=
  ∀ ε, 0 < ε → ε < ε₀ → ¬ mem D [(v, moved p n ε)] ρ ∧ mem D [(v, moved p n (-ε))] ρ

theorem get_single (v : String) (q : List K) : Env.get [(v, q)] v = some q := by
  simp [Env.get, List.lookup]

theorem par_mem_iff (v : String) (o c1 c2 : PFun K) (ρ : Env K) (x y ox oy ax ay bx cy : K)
    (ho : o.f ([(v, [x, y])] ++ ρ) = [ox, oy]) (h1 : c1.f ([(v, [x, y])] ++ ρ) = [ax, ay])
    (h2 : c2.f ([(v, [x, y])] ++ ρ) = [bx, cy])
    (hdet : (ax - ox) * (cy - oy) - (ay - oy) * (bx - ox) ≠ 0) :
    mem (.par v o c1 c2) [(v, [x, y])] ρ ↔
      In01 (solveLgs (x - ox) (y - oy) (ax - ox) (ay - oy) (bx - ox) (cy - oy)).1 ∧
      In01 (solveLgs (x - ox) (y - oy) (ax - ox) (ay - oy) (bx - ox) (cy - oy)).2 := by
  have hnd : NonDeg (.par v o c1 c2) [(v, [x, y])] ρ := by
    intro ox' oy' ax' ay' bx' cy' e0 e1 e2
    rw [ho] at e0; rw [h1] at e1; rw [h2] at e2
    simp only [List.cons.injEq, and_true] at e0 e1 e2
    obtain ⟨rfl, rfl⟩ := e0; obtain ⟨rfl, rfl⟩ := e1; obtain ⟨rfl, rfl⟩ := e2
    exact hdet
  have hc : contains (⟨0, 0, 0⟩ : Tol K) (.par v o c1 c2) [(v, [x, y])] ρ = some
      ((le 0 (solveLgs (x - ox) (y - oy) (ax - ox) (ay - oy) (bx - ox) (cy - oy)).1 &&
          le (solveLgs (x - ox) (y - oy) (ax - ox) (ay - oy) (bx - ox) (cy - oy)).1 1) &&
        (le 0 (solveLgs (x - ox) (y - oy) (ax - ox) (ay - oy) (bx - ox) (cy - oy)).2 &&
          le (solveLgs (x - ox) (y - oy) (ax - ox) (ay - oy) (bx - ox) (cy - oy)).2 1)) := by
    simp only [contains, containsAux, get_single, ho, h1, h2, Bool.false_eq_true, if_false]
  have h := contains_iff_mem (⟨0, 0, 0⟩ : Tol K) (.par v o c1 c2) [(v, [x, y])] ρ _ trivial hnd hc
  rw [← h]
  simp [In01, le_iff]


theorem dot2 (a b : K) : dot [a, b] [a, b] = a * a + b * b := by simp [dot]

/-- **Parallelogram.** For every parallelogram the constructor accepts with non-zero area — any position, size,
    slant and either vertex orientation, possibly parameter-dependent (evaluated at the row `ρ`) — and every
    point of its boundary (the four closed edges, corners included), the coded normal is a finite unit vector
    and points out of the denoted set. -/
theorem par_normal_outward (hsq : SqrtOk K) (τ : Tol K) (hτ : τ.ok) (hsmall : τ.small)
    (v : String) (o c1 c2 : PFun K) (ρ : Env K) (ox oy ax ay bx cy s t : K)
    (ho : ∀ q, o.f ([(v, q)] ++ ρ) = [ox, oy]) (h1 : ∀ q, c1.f ([(v, q)] ++ ρ) = [ax, ay])
    (h2 : ∀ q, c2.f ([(v, q)] ++ ρ) = [bx, cy])
    (hdet : (ax - ox) * (cy - oy) - (ay - oy) * (bx - ox) ≠ 0)
    (hs : In01 s) (ht : In01 t) (hb : s = 0 ∨ s = 1 ∨ t = 0 ∨ t = 1) :
    ∃ n ε₀, 0 < ε₀ ∧
      normalAux true τ (.par v o c1 c2)
        [(v, [ox + s * (ax - ox) + t * (bx - ox), oy + s * (ay - oy) + t * (cy - oy)])] ρ = some n ∧
      dot n n = 1 ∧
      OutwardAt (.par v o c1 c2) v [ox + s * (ax - ox) + t * (bx - ox), oy + s * (ay - oy) + t * (cy - oy)] n ρ ε₀ := by
  obtain ⟨nx, ny, ε₀, hε, hfin, hunit, hall⟩ := par_core hsq τ hτ hsmall ox oy ax ay bx cy s t hdet hs ht hb
  refine ⟨[nx, ny], ε₀, hε, ?_, ?_, ?_⟩
  · simp only [normalAux, get_single, ho, h1, h2]; exact hfin
  · rw [dot2]; exact hunit
  · intro ε h0 hlt
    have key : ∀ e : K, solveLgs (ox + s * (ax - ox) + t * (bx - ox) + e * nx - ox)
        (oy + s * (ay - oy) + t * (cy - oy) + e * ny - oy) (ax - ox) (ay - oy) (bx - ox) (cy - oy) =
        (s + e * (((cy - oy) * nx - (bx - ox) * ny) / ((ax - ox) * (cy - oy) - (ay - oy) * (bx - ox))),
         t + e * (((ax - ox) * ny - (ay - oy) * nx) / ((ax - ox) * (cy - oy) - (ay - oy) * (bx - ox)))) := by
      intro e
      have e1 : ox + s * (ax - ox) + t * (bx - ox) + e * nx - ox = (s * (ax - ox) + t * (bx - ox)) + e * nx := by ring
      have e2 : oy + s * (ay - oy) + t * (cy - oy) + e * ny - oy = (s * (ay - oy) + t * (cy - oy)) + e * ny := by ring
      rw [e1, e2, solveLgs_step, solveLgs_fst _ _ _ _ _ _ s t hdet rfl rfl]
    obtain ⟨hout, hin⟩ := hall ε h0 hlt
    simp only [moved, List.zipWith_cons_cons, List.zipWith_nil_right]
    rw [par_mem_iff v o c1 c2 ρ _ _ ox oy ax ay bx cy (ho _) (h1 _) (h2 _) hdet,
      par_mem_iff v o c1 c2 ρ _ _ ox oy ax ay bx cy (ho _) (h1 _) (h2 _) hdet, key, key]
    exact ⟨hout, hin⟩


theorem tri_mem_iff (v : String) (o c1 c2 : PFun K) (ρ : Env K) (x y ox oy ax ay bx cy : K)
    (ho : o.f ([(v, [x, y])] ++ ρ) = [ox, oy]) (h1 : c1.f ([(v, [x, y])] ++ ρ) = [ax, ay])
    (h2 : c2.f ([(v, [x, y])] ++ ρ) = [bx, cy])
    (hdet : (ax - ox) * (cy - oy) - (ay - oy) * (bx - ox) ≠ 0) :
    mem (.tri v o c1 c2) [(v, [x, y])] ρ ↔
      InTri (solveLgs (x - ox) (y - oy) (ax - ox) (ay - oy) (bx - ox) (cy - oy)).1
            (solveLgs (x - ox) (y - oy) (ax - ox) (ay - oy) (bx - ox) (cy - oy)).2 := by
  have hnd : NonDeg (.tri v o c1 c2) [(v, [x, y])] ρ := by
    intro ox' oy' ax' ay' bx' cy' e0 e1 e2
    rw [ho] at e0; rw [h1] at e1; rw [h2] at e2
    simp only [List.cons.injEq, and_true] at e0 e1 e2
    obtain ⟨rfl, rfl⟩ := e0; obtain ⟨rfl, rfl⟩ := e1; obtain ⟨rfl, rfl⟩ := e2
    exact hdet
  have hc : contains (⟨0, 0, 0⟩ : Tol K) (.tri v o c1 c2) [(v, [x, y])] ρ = some
      ((le 0 (solveLgs (x - ox) (y - oy) (ax - ox) (ay - oy) (bx - ox) (cy - oy)).1 &&
          le 0 (solveLgs (x - ox) (y - oy) (ax - ox) (ay - oy) (bx - ox) (cy - oy)).2) &&
        le ((solveLgs (x - ox) (y - oy) (ax - ox) (ay - oy) (bx - ox) (cy - oy)).2 +
            (solveLgs (x - ox) (y - oy) (ax - ox) (ay - oy) (bx - ox) (cy - oy)).1) 1) := by
    simp only [contains, containsAux, get_single, ho, h1, h2, Bool.false_eq_true, if_false]
  have h := contains_iff_mem (⟨0, 0, 0⟩ : Tol K) (.tri v o c1 c2) [(v, [x, y])] ρ _ trivial hnd hc
  rw [← h]
  simp [InTri, le_iff, and_assoc]

/-- **Triangle.** For every triangle with non-zero area — any position, shape and either vertex orientation
    (the docstring asks for counter-clockwise corners, the constructor accepts both), possibly parameter-dependent —
    and every point of its boundary (three closed edges, corners included), the coded normal is a finite unit
    vector and points out of the denoted set. -/
theorem tri_normal_outward (hsq : SqrtOk K) (τ : Tol K) (hτ : τ.ok) (hsmall : τ.small)
    (v : String) (o c1 c2 : PFun K) (ρ : Env K) (ox oy ax ay bx cy s t : K)
    (ho : ∀ q, o.f ([(v, q)] ++ ρ) = [ox, oy]) (h1 : ∀ q, c1.f ([(v, q)] ++ ρ) = [ax, ay])
    (h2 : ∀ q, c2.f ([(v, q)] ++ ρ) = [bx, cy])
    (hdet : (ax - ox) * (cy - oy) - (ay - oy) * (bx - ox) ≠ 0)
    (hin : InTri s t) (hb : s = 0 ∨ t = 0 ∨ t + s = 1) :
    ∃ n ε₀, 0 < ε₀ ∧
      normalAux true τ (.tri v o c1 c2)
        [(v, [ox + s * (ax - ox) + t * (bx - ox), oy + s * (ay - oy) + t * (cy - oy)])] ρ = some n ∧
      dot n n = 1 ∧
      OutwardAt (.tri v o c1 c2) v [ox + s * (ax - ox) + t * (bx - ox), oy + s * (ay - oy) + t * (cy - oy)] n ρ ε₀ := by
  obtain ⟨nx, ny, ε₀, hε, hfin, hunit, hall⟩ := tri_core hsq τ hτ hsmall ox oy ax ay bx cy s t hdet hin hb
  refine ⟨[nx, ny], ε₀, hε, ?_, ?_, ?_⟩
  · simp only [normalAux, get_single, ho, h1, h2]; exact hfin
  · rw [dot2]; exact hunit
  · intro ε h0 hlt
    have key : ∀ e : K, solveLgs (ox + s * (ax - ox) + t * (bx - ox) + e * nx - ox)
        (oy + s * (ay - oy) + t * (cy - oy) + e * ny - oy) (ax - ox) (ay - oy) (bx - ox) (cy - oy) =
        (s + e * (((cy - oy) * nx - (bx - ox) * ny) / ((ax - ox) * (cy - oy) - (ay - oy) * (bx - ox))),
         t + e * (((ax - ox) * ny - (ay - oy) * nx) / ((ax - ox) * (cy - oy) - (ay - oy) * (bx - ox)))) := by
      intro e
      have e1 : ox + s * (ax - ox) + t * (bx - ox) + e * nx - ox = (s * (ax - ox) + t * (bx - ox)) + e * nx := by ring
      have e2 : oy + s * (ay - oy) + t * (cy - oy) + e * ny - oy = (s * (ay - oy) + t * (cy - oy)) + e * ny := by ring
      rw [e1, e2, solveLgs_step, solveLgs_fst _ _ _ _ _ _ s t hdet rfl rfl]
    obtain ⟨hout, hin'⟩ := hall ε h0 hlt
    simp only [moved, List.zipWith_cons_cons, List.zipWith_nil_right]
    rw [tri_mem_iff v o c1 c2 ρ _ _ ox oy ax ay bx cy (ho _) (h1 _) (h2 _) hdet,
      tri_mem_iff v o c1 c2 ρ _ _ ox oy ax ay bx cy (ho _) (h1 _) (h2 _) hdet, key, key]
    exact ⟨hout, hin'⟩

end TPV.Geom
