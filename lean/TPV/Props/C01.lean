/-
  C01 — every sampled point lies in the domain it was sampled from.
  Property theorems about the sampling model (TPV/Model/GeomSample.lean) and the property oracle
  (TPV/Model/GeomSdf.lean); denotation `mem` and `contains_iff_mem` come from C05.
-/
import TPV.Props.C05
import TPV.Model.GeomSample
import TPV.Model.GeomSdf
import Mathlib.Analysis.SpecialFunctions.Trigonometric.Basic
import Mathlib.Analysis.SpecialFunctions.Pow.Real

namespace TPV.Geom
set_option linter.unusedSectionVars false
variable {K : Type} [Field K] [LinearOrder K] [IsStrictOrderedRing K]

/-! ## 1. the property oracle: the sign of the signed margin decides membership -/


theorem minK_eq_min (a b : K) : minK a b = min a b := by
  unfold minK; rw [min_def]

theorem maxK_eq_max (a b : K) : maxK a b = max a b := by
  unfold maxK; rw [max_def]

theorem nz_pos (a : K) (h : 0 ≤ a) : 0 < nz a := by
  unfold nz
  split
  · exact one_pos
  · rename_i hne
    have : a ≠ 0 := by simpa using hne
    exact lt_of_le_of_ne h (Ne.symm this)

theorem div_nz_pos (a w : K) (hw : 0 ≤ w) : 0 < a / nz w ↔ 0 < a := by
  have := nz_pos w hw
  constructor
  · intro h; by_contra hc; rw [not_lt] at hc
    have : a / nz w ≤ 0 := div_nonpos_of_nonpos_of_nonneg hc this.le
    linarith
  · intro h; exact div_pos h this

theorem div_nz_neg (a w : K) (hw : 0 ≤ w) : a / nz w < 0 ↔ a < 0 := by
  have := nz_pos w hw
  constructor
  · intro h; by_contra hc; rw [not_lt] at hc
    have : 0 ≤ a / nz w := div_nonneg hc this.le
    linarith
  · intro h; exact div_neg_of_neg_of_pos h this

/-- sign of the signed margin decides the coded membership test -/
theorem sd_sign (τ : Tol K) (D : Dom K) : ∀ (pts ρ : Env K) (m : K), D.solid → sd D pts ρ = some m →
    ∃ b, contains τ D pts ρ = some b ∧ (0 < m → b = true) ∧ (m < 0 → b = false) := by
  induction D with
  | interval v lb ub =>
    intro pts ρ m _ h
    simp only [sd, slacks] at h
    simp only [contains, containsAux]
    split at h
    · rename_i x l u hx hl hu
      simp only [Bool.false_eq_true, if_false, Option.bind_some, minList, List.foldl, Option.some.injEq, minK_eq_min] at h
      subst h
      refine ⟨_, rfl, ?_, ?_⟩
      · intro hm
        rw [lt_min_iff, div_nz_pos _ _ (by rw [absK_eq]; exact abs_nonneg _), div_nz_pos _ _ (by rw [absK_eq]; exact abs_nonneg _)] at hm
        simp only [Bool.and_eq_true, le_iff]
        exact ⟨by linarith [hm.1], by linarith [hm.2]⟩
      · intro hm
        rw [min_lt_iff, div_nz_neg _ _ (by rw [absK_eq]; exact abs_nonneg _), div_nz_neg _ _ (by rw [absK_eq]; exact abs_nonneg _)] at hm
        rw [Bool.and_eq_false_iff]
        rcases hm with hm | hm
        · left; rw [← Bool.not_eq_true, le_iff]; intro hc; linarith
        · right; rw [← Bool.not_eq_true, le_iff]; intro hc; linarith
    · simp at h
  | par v o c1 c2 =>
    intro pts ρ m _ h
    simp only [sd, slacks] at h
    simp only [contains, containsAux]
    split at h
    · rename_i x y ox oy ax ay bx cy hp ho h1 h2
      simp only [Bool.false_eq_true, if_false, Option.bind_some, minList, List.foldl, Option.some.injEq, minK_eq_min] at h
      subst h
      refine ⟨_, rfl, ?_, ?_⟩
      · intro hm
        simp only [lt_min_iff] at hm
        simp only [Bool.and_eq_true, le_iff]
        obtain ⟨⟨⟨a, b⟩, c⟩, d⟩ := hm
        exact ⟨⟨a.le, by linarith⟩, c.le, by linarith⟩
      · intro hm
        simp only [min_lt_iff] at hm
        rw [← Bool.not_eq_true]
        simp only [Bool.and_eq_true, le_iff]
        rintro ⟨⟨a, b⟩, c, d⟩
        rcases hm with ((hm | hm) | hm) | hm <;> linarith
    · simp at h
  | tri v o c1 c2 =>
    intro pts ρ m _ h
    simp only [sd, slacks] at h
    simp only [contains, containsAux]
    split at h
    · rename_i x y ox oy ax ay bx cy hp ho h1 h2
      simp only [Bool.false_eq_true, if_false, Option.bind_some, minList, List.foldl, Option.some.injEq, minK_eq_min] at h
      subst h
      refine ⟨_, rfl, ?_, ?_⟩
      · intro hm
        simp only [lt_min_iff] at hm
        simp only [Bool.and_eq_true, le_iff]
        obtain ⟨⟨a, b⟩, c⟩ := hm
        exact ⟨⟨a.le, b.le⟩, by linarith⟩
      · intro hm
        simp only [min_lt_iff] at hm
        rw [← Bool.not_eq_true]
        simp only [Bool.and_eq_true, le_iff]
        rintro ⟨⟨a, b⟩, c⟩
        rcases hm with (hm | hm) | hm <;> linarith
    · simp at h
  | circle v c r =>
    intro pts ρ m _ h
    simp only [sd, slacks] at h
    simp only [contains, containsAux]
    split at h
    · rename_i x y cx cy rr hp hc hr
      simp only [Bool.false_eq_true, if_false, Option.bind_some, minList, List.foldl, Option.some.injEq, minK_eq_min] at h
      subst h
      refine ⟨_, rfl, ?_, ?_⟩
      · intro hm
        rw [lt_min_iff, div_nz_pos _ _ (mul_self_nonneg rr)] at hm
        simp only [Bool.false_eq_true, if_false]
        rw [normLe_iff, pow_two]
        exact ⟨hm.2.le, by linarith [hm.1]⟩
      · intro hm
        rw [min_lt_iff, div_nz_neg _ _ (mul_self_nonneg rr)] at hm
        simp only [Bool.false_eq_true, if_false]
        rw [← Bool.not_eq_true, normLe_iff, pow_two]
        rintro ⟨a, b⟩
        rcases hm with hm | hm <;> linarith
    · simp at h
  | sphere v c r =>
    intro pts ρ m _ h
    simp only [sd, slacks] at h
    simp only [contains, containsAux]
    split at h
    · rename_i x y z cx cy cz rr hp hc hr
      simp only [Bool.false_eq_true, if_false, Option.bind_some, minList, List.foldl, Option.some.injEq, minK_eq_min] at h
      subst h
      refine ⟨_, rfl, ?_, ?_⟩
      · intro hm
        rw [lt_min_iff, div_nz_pos _ _ (mul_self_nonneg rr)] at hm
        simp only [Bool.false_eq_true, if_false]
        rw [normLe_iff, pow_two]
        exact ⟨hm.2.le, by linarith [hm.1]⟩
      · intro hm
        rw [min_lt_iff, div_nz_neg _ _ (mul_self_nonneg rr)] at hm
        simp only [Bool.false_eq_true, if_false]
        rw [← Bool.not_eq_true, normLe_iff, pow_two]
        rintro ⟨a, b⟩
        rcases hm with hm | hm <;> linarith
    · simp at h
  | union a b iha ihb =>
    intro pts ρ m hs h
    simp only [sd, Option.bind_eq_bind, Option.pure_def] at h
    cases ha : sd a pts ρ with
    | none => simp [ha] at h
    | some ma =>
      cases hb : sd b pts ρ with
      | none => simp [ha, hb] at h
      | some mb =>
        simp only [ha, hb, Option.bind_some, Option.some.injEq, maxK_eq_max] at h
        subst h
        obtain ⟨ba, hca, pa, na⟩ := iha pts ρ ma hs.1 ha
        obtain ⟨bb, hcb, pb, nb⟩ := ihb pts ρ mb hs.2 hb
        simp only [contains] at hca hcb
        refine ⟨ba || bb, by simp [contains, containsAux, hca, hcb], ?_, ?_⟩
        · intro hm; rw [lt_max_iff] at hm
          rcases hm with hm | hm
          · simp [pa hm]
          · simp [pb hm]
        · intro hm; rw [max_lt_iff] at hm
          simp [na hm.1, nb hm.2]
  | cut a b iha ihb =>
    intro pts ρ m hs h
    simp only [sd, Option.bind_eq_bind, Option.pure_def] at h
    cases ha : sd a pts ρ with
    | none => simp [ha] at h
    | some ma =>
      cases hb : sd b pts ρ with
      | none => simp [ha, hb] at h
      | some mb =>
        simp only [ha, hb, Option.bind_some, Option.some.injEq, minK_eq_min] at h
        subst h
        obtain ⟨ba, hca, pa, na⟩ := iha pts ρ ma hs.1 ha
        obtain ⟨bb, hcb, pb, nb⟩ := ihb pts ρ mb hs.2 hb
        simp only [contains] at hca hcb
        refine ⟨ba && !bb, by simp [contains, containsAux, hca, hcb], ?_, ?_⟩
        · intro hm; rw [lt_min_iff] at hm
          simp [pa hm.1, nb (by linarith [hm.2])]
        · intro hm; rw [min_lt_iff] at hm
          rcases hm with hm | hm
          · simp [na hm]
          · simp [pb (by linarith)]
  | inter a b iha ihb =>
    intro pts ρ m hs h
    simp only [sd, Option.bind_eq_bind, Option.pure_def] at h
    cases ha : sd a pts ρ with
    | none => simp [ha] at h
    | some ma =>
      cases hb : sd b pts ρ with
      | none => simp [ha, hb] at h
      | some mb =>
        simp only [ha, hb, Option.bind_some, Option.some.injEq, minK_eq_min] at h
        subst h
        obtain ⟨ba, hca, pa, na⟩ := iha pts ρ ma hs.1 ha
        obtain ⟨bb, hcb, pb, nb⟩ := ihb pts ρ mb hs.2 hb
        simp only [contains] at hca hcb
        refine ⟨ba && bb, by simp [contains, containsAux, hca, hcb], ?_, ?_⟩
        · intro hm; rw [lt_min_iff] at hm
          simp [pa hm.1, pb hm.2]
        · intro hm; rw [min_lt_iff] at hm
          rcases hm with hm | hm
          · simp [na hm]
          · simp [nb hm]
  | prod a b iha ihb =>
    intro pts ρ m hs h
    simp only [sd, Option.bind_eq_bind, Option.pure_def] at h
    cases ha : sd a pts ρ with
    | none => simp [ha] at h
    | some ma =>
      cases hb : sd b pts ρ with
      | none => simp [ha, hb] at h
      | some mb =>
        simp only [ha, hb, Option.bind_some, Option.some.injEq, minK_eq_min] at h
        subst h
        obtain ⟨ba, hca, pa, na⟩ := iha pts ρ ma hs.1 ha
        obtain ⟨bb, hcb, pb, nb⟩ := ihb pts ρ mb hs.2 hb
        simp only [contains] at hca hcb
        refine ⟨ba && bb, by simp [contains, containsAux, hca, hcb], ?_, ?_⟩
        · intro hm; rw [lt_min_iff] at hm
          simp [pa hm.1, pb hm.2]
        · intro hm; rw [min_lt_iff] at hm
          rcases hm with hm | hm
          · simp [na hm]
          · simp [nb hm]
  | translate v d t ih =>
    intro pts ρ m hs h
    simp only [sd] at h
    simp only [contains, containsAux]
    split at h
    · rename_i x tx hp ht
      try simp only [hp, ht]
      exact ih _ _ m hs h
    · rename_i x y tx ty hp ht
      try simp only [hp, ht]
      exact ih _ _ m hs h
    · rename_i x y z tx ty tz hp ht
      try simp only [hp, ht]
      exact ih _ _ m hs h
    · simp at h
  | rotate v d mm c ih =>
    intro pts ρ m hs h
    simp only [sd] at h
    simp only [contains, containsAux]
    split at h
    · rename_i x y m00 m01 m10 m11 cx cy hp hm hc
      try simp only [hp, hm, hc]
      exact ih _ _ m hs h
    · simp at h
  | bdry d _ => intro _ _ _ hs; exact absurd hs (by simp [Dom.solid])
  | bdryL d _ => intro _ _ _ hs; exact absurd hs (by simp [Dom.solid])
  | bdryR d _ => intro _ _ _ hs; exact absurd hs (by simp [Dom.solid])


/-- **oracle soundness (positive side)**: a positive signed margin implies membership in the denoted set -/
theorem sd_pos_mem (τ : Tol K) (D : Dom K) (pts ρ : Env K) (m : K) (hs : D.solid) (hnd : NonDeg D pts ρ)
    (h : sd D pts ρ = some m) (hm : 0 < m) : mem D pts ρ := by
  obtain ⟨b, hc, hp, _⟩ := sd_sign τ D pts ρ m hs h
  exact (contains_iff_mem τ D pts ρ b hs hnd hc).1 (hp hm)

/-- **oracle soundness (negative side)**: a negative signed margin implies non-membership — so a returned point
    with margin below `−ε` is a genuine failing input, and every frontier point has margin exactly 0 -/
theorem sd_neg_not_mem (τ : Tol K) (D : Dom K) (pts ρ : Env K) (m : K) (hs : D.solid) (hnd : NonDeg D pts ρ)
    (h : sd D pts ρ = some m) (hm : m < 0) : ¬ mem D pts ρ := by
  obtain ⟨b, hc, _, hn⟩ := sd_sign τ D pts ρ m hs h
  intro hmem
  have := (contains_iff_mem τ D pts ρ b hs hnd hc).2 hmem
  rw [hn hm] at this; exact absurd this (by simp)

/-! ## 2. selection loops return only accepted proposals, exactly n of them -/


section loops
variable {α : Type}

theorem insideRow_sound (n : Nat) (prop : Nat → Nat → List α) (ok : α → Bool) :
    ∀ (fuel rd : Nat) (req : Rat) (reqs rq : List Nat) (out : List α),
      insideRow n prop ok fuel rd req reqs = some (rq, out) →
      out.length = n ∧ ∀ p ∈ out, ok p = true ∧ ∃ rd' m, p ∈ prop rd' m := by
  intro fuel
  induction fuel with
  | zero => intro rd req reqs rq out h; simp [insideRow] at h
  | succ f ih =>
    intro rd req reqs rq out h
    simp only [insideRow] at h
    split at h
    · rename_i hle
      simp only [Option.some.injEq, Prod.mk.injEq] at h
      obtain ⟨_, rfl⟩ := h
      refine ⟨by simp [List.length_take, hle], fun p hp => ?_⟩
      have := List.mem_of_mem_take hp
      rw [List.mem_filter] at this
      exact ⟨this.2, _, _, this.1⟩
    · exact ih _ _ _ _ _ h

theorem insideRow_progress (n : Nat) (prop : Nat → Nat → List α) (ok : α → Bool) (fuel rd : Nat) (req : Rat)
    (reqs : List Nat) (h : n ≤ ((prop rd req.floor.toNat).filter ok).length) :
    insideRow n prop ok (fuel + 1) rd req reqs =
      some (reqs ++ [req.floor.toNat], ((prop rd req.floor.toNat).filter ok).take n) := by
  simp [insideRow, h]

theorem filterMap_id_length (l : List (Option α)) (h : l.all Option.isSome = true) :
    (l.filterMap id).length = l.length := by
  induction l with
  | nil => rfl
  | cons x xs ih =>
    simp only [List.all_cons, Bool.and_eq_true] at h
    cases x with
    | none => simp at h
    | some a => have := ih h.2; simp only [List.filterMap_cons, id, List.length_cons] at this ⊢; omega

theorem n1Loop_sound (prop : Nat → List α) (ok : α → Bool) (P : α → Prop)
    (hP : ∀ rd p, p ∈ prop rd → ok p = true → P p) :
    ∀ (fuel rd : Nat) (final : List (Option α)) (r : Nat) (out : List α),
      (∀ p, some p ∈ final → P p) → n1Loop prop ok fuel rd final = some (r, out) →
      out.length = final.length ∧ ∀ p ∈ out, P p := by
  intro fuel
  induction fuel with
  | zero =>
    intro rd final r out hinv h
    unfold n1Loop at h
    split at h
    · rename_i hall
      simp only [Option.some.injEq, Prod.mk.injEq] at h
      obtain ⟨_, rfl⟩ := h
      refine ⟨?_, fun p hp => ?_⟩
      · exact filterMap_id_length final hall
      · rw [List.mem_filterMap] at hp
        obtain ⟨a, ha, rfl⟩ := hp
        exact hinv p ha
    · simp at h
  | succ f ih =>
    intro rd final r out hinv h
    unfold n1Loop at h
    split at h
    · rename_i hall
      simp only [Option.some.injEq, Prod.mk.injEq] at h
      obtain ⟨_, rfl⟩ := h
      refine ⟨?_, fun p hp => ?_⟩
      · exact filterMap_id_length final hall
      · rw [List.mem_filterMap] at hp
        obtain ⟨a, ha, rfl⟩ := hp
        exact hinv p ha
    · simp only at h
      split at h
      · rename_i hlen
        have := ih _ _ _ _ ?_ h
        · refine ⟨?_, this.2⟩
          rw [this.1]; simp [List.length_zip, hlen]
        · intro p hp
          rw [List.mem_map] at hp
          obtain ⟨⟨old, q⟩, hz, hq⟩ := hp
          simp only at hq
          split at hq
          · rename_i hok
            simp only [Option.some.injEq] at hq; subst hq
            exact hP rd _ (List.of_mem_zip hz).2 hok
          · subst hq; exact hinv p (List.of_mem_zip hz).1
      · simp at h

theorem accLoop_sound (n : Nat) (prop : Nat → List α) (ok : α → Bool) (giveUp : Nat → Nat → Bool) (P : α → Prop)
    (hP : ∀ rd p, p ∈ prop rd → ok p = true → P p) :
    ∀ (fuel rd : Nat) (acc : List α) (r : Nat) (out : List α),
      (∀ p ∈ acc, P p) → accLoop n prop ok giveUp fuel rd acc = some (r, out) →
      out.length = n ∧ ∀ p ∈ out, P p := by
  intro fuel
  induction fuel with
  | zero =>
    intro rd acc r out hinv h
    unfold accLoop at h
    split at h
    · rename_i hle
      simp only [Option.some.injEq, Prod.mk.injEq] at h
      obtain ⟨_, rfl⟩ := h
      exact ⟨by simp [List.length_take, hle], fun p hp => hinv p (List.mem_of_mem_take hp)⟩
    · simp at h
  | succ f ih =>
    intro rd acc r out hinv h
    unfold accLoop at h
    split at h
    · rename_i hle
      simp only [Option.some.injEq, Prod.mk.injEq] at h
      obtain ⟨_, rfl⟩ := h
      exact ⟨by simp [List.length_take, hle], fun p hp => hinv p (List.mem_of_mem_take hp)⟩
    · simp only at h
      split at h
      · simp at h
      · refine ih _ _ _ _ ?_ h
        intro p hp
        rw [List.mem_append] at hp
        rcases hp with hp | hp
        · exact hinv p hp
        · rw [List.mem_filter] at hp; exact hP rd p hp.1 hp.2

/-- before fix 65cd845 the loop started with `k` rows: for `k = 0` it returns no point at all -/
theorem n1Loop_no_rows (prop : Nat → List α) (ok : α → Bool) (fuel : Nat) :
    n1Loop prop ok fuel 0 (List.replicate 0 none) = some (0, []) := by
  unfold n1Loop; simp

theorem n1Rows_pos (k : Nat) : 1 ≤ n1Rows k := by unfold n1Rows; omega

theorem gridInsideOld_raises (n : Nat) (hn : n ≠ 0) (gridA : Nat → List α) (ok : α → Bool) (topup : Nat → Option (List α))
    (h : ∀ p ∈ gridA n, ok p = false) : gridInsideOld n gridA ok topup = none := by
  have : (gridA n).filter ok = [] := by
    rw [List.filter_eq_nil_iff]; intro p hp; simp [h p hp]
  simp [gridInsideOld, this, hn]

end loops

/-! ## 3. parametrisations of the primitives land in the denoted set -/


/-- the parameter function does not read the domain's own coordinate variable `v` (the constructors
    assert this: `assert not any(var in self.necessary_variables for var in self.space)`) -/
def PFun.indep (f : PFun K) (v : String) : Prop := ∀ (x : List K) (ρ : Env K), f.f ((v, x) :: ρ) = f.f ρ

theorem env_get_head (v : String) (x : List K) (ρ : Env K) : Env.get ((v, x) :: ρ) v = some x := by
  simp [Env.get, List.lookup]

/-- a sampled point of a single-variable domain has no other coordinates to hand down -/
theorem filter_single (v : String) (x : List K) (ρ : Env K) :
    List.filter (fun b : String × List K => b.1 != v) [(v, x)] ++ ρ = ρ := by
  simp [List.filter]

theorem intervalSample_bounds (l u t : K) (hlu : l ≤ u) (h0 : 0 ≤ t) (h1 : t ≤ 1) :
    l ≤ intervalSample l u t ∧ intervalSample l u t ≤ u := by
  unfold intervalSample
  have a := mul_nonneg h0 (sub_nonneg.2 hlu)
  have b := mul_le_of_le_one_left (sub_nonneg.2 hlu) h1
  constructor <;> linarith

theorem triMirror_simplex (u v : K) (hu0 : 0 ≤ u) (hu1 : u ≤ 1) (hv0 : 0 ≤ v) (hv1 : v ≤ 1) :
    0 ≤ (triMirror u v).1 ∧ 0 ≤ (triMirror u v).2 ∧ (triMirror u v).1 + (triMirror u v).2 ≤ 1 := by
  unfold triMirror
  split
  · rename_i h; rw [le_iff] at h
    refine ⟨by simp only []; linarith, by simp only []; linarith, by simp only []; linarith⟩
  · rename_i h; rw [le_iff, not_le] at h
    refine ⟨hu0, hv0, by simp only []; linarith⟩

/-- disc / circle-line parametrisation over any ordered field: radius factor `s ∈ [0,1]`, any unit vector `(c, sn)` -/
theorem circle_param (cx cy r s c sn : K) (hs0 : 0 ≤ s) (hs1 : s ≤ 1) (hcs : c ^ 2 + sn ^ 2 = 1) :
    (s * r * c + cx - cx) ^ 2 + (s * r * sn + cy - cy) ^ 2 ≤ r ^ 2 := by
  have e : (s * r * c + cx - cx) ^ 2 + (s * r * sn + cy - cy) ^ 2 = s ^ 2 * r ^ 2 * (c ^ 2 + sn ^ 2) := by ring
  rw [e, hcs, mul_one]
  have hs : s ^ 2 ≤ 1 := by nlinarith
  nlinarith [sq_nonneg r]

theorem circle_line_param (cx cy r c sn : K) (hcs : c ^ 2 + sn ^ 2 = 1) :
    (r * c + cx - cx) ^ 2 + (r * sn + cy - cy) ^ 2 = r ^ 2 := by
  have e : (r * c + cx - cx) ^ 2 + (r * sn + cy - cy) ^ 2 = r ^ 2 * (c ^ 2 + sn ^ 2) := by ring
  rw [e, hcs, mul_one]

/-- ball parametrisation: radius factor `s ∈ [0,1]`, unit vectors `(c1, s1)` (azimuth) and `(c2, s2)` (polar) -/
theorem sphere_param (cx cy cz r s c1 s1 c2 s2 : K) (hs0 : 0 ≤ s) (hs1 : s ≤ 1)
    (h1 : c1 ^ 2 + s1 ^ 2 = 1) (h2 : c2 ^ 2 + s2 ^ 2 = 1) :
    (s * r * c1 * c2 + cx - cx) ^ 2 + (s * r * s1 * c2 + cy - cy) ^ 2 + (s * r * s2 + cz - cz) ^ 2 ≤ r ^ 2 := by
  have e : (s * r * c1 * c2 + cx - cx) ^ 2 + (s * r * s1 * c2 + cy - cy) ^ 2 + (s * r * s2 + cz - cz) ^ 2
      = s ^ 2 * r ^ 2 * ((c1 ^ 2 + s1 ^ 2) * c2 ^ 2 + s2 ^ 2) := by ring
  rw [e, h1, one_mul, h2, mul_one]
  have hs : s ^ 2 ≤ 1 := by nlinarith
  nlinarith [sq_nonneg r]

theorem sphere_surface_param (cx cy cz r c1 s1 c2 s2 : K) (h1 : c1 ^ 2 + s1 ^ 2 = 1) (h2 : c2 ^ 2 + s2 ^ 2 = 1) :
    (r * c1 * c2 + cx - cx) ^ 2 + (r * s1 * c2 + cy - cy) ^ 2 + (r * s2 + cz - cz) ^ 2 = r ^ 2 := by
  have e : (r * c1 * c2 + cx - cx) ^ 2 + (r * s1 * c2 + cy - cy) ^ 2 + (r * s2 + cz - cz) ^ 2
      = r ^ 2 * ((c1 ^ 2 + s1 ^ 2) * c2 ^ 2 + s2 ^ 2) := by ring
  rw [e, h1, one_mul, h2, mul_one]

/-- what the proofs need to know about `sqrt`, `cbrt`, `cos`, `sin` (true of the real functions: `realLaws`) -/
structure TranscLaws (K : Type) [Field K] [LinearOrder K] [Transc K] : Prop where
  sqrt_unit : ∀ x : K, 0 ≤ x → x ≤ 1 → 0 ≤ Transc.sqrt x ∧ Transc.sqrt x ≤ 1
  cbrt_unit : ∀ x : K, 0 ≤ x → x ≤ 1 → 0 ≤ Transc.cbrt x ∧ Transc.cbrt x ≤ 1
  cos_sin : ∀ x : K, Transc.cos x ^ 2 + Transc.sin x ^ 2 = 1
  sqrt_pos : ∀ x : K, 0 < x → 0 < Transc.sqrt x
  sqrt_mono : ∀ x y : K, 0 ≤ x → x ≤ y → Transc.sqrt x ≤ Transc.sqrt y
  sqrt_sq : ∀ x : K, 0 ≤ x → Transc.sqrt x * Transc.sqrt x = x

section prim
variable [Transc K]

/-- side conditions of a primitive at the parameter row `ρ`: parameters do not read the own variable,
    interval bounds are ordered, radii are non-negative -/
def PrimOK : Dom K → Env K → Prop
  | .interval v lb ub, ρ => lb.indep v ∧ ub.indep v ∧ ∀ l u, lb.f ρ = [l] → ub.f ρ = [u] → l ≤ u
  | .par v o c1 c2, _ => o.indep v ∧ c1.indep v ∧ c2.indep v
  | .tri v o c1 c2, _ => o.indep v ∧ c1.indep v ∧ c2.indep v
  | .circle v c r, ρ => c.indep v ∧ r.indep v ∧ ∀ rr, r.f ρ = [rr] → 0 ≤ rr
  | .sphere v c r, ρ => c.indep v ∧ r.indep v ∧ ∀ rr, r.f ρ = [rr] → 0 ≤ rr
  | _, _ => False

/-- **every random parametrisation of a primitive lands in the denoted set**: for draws in `[0,1]` the point
    `primSample D ρ tape` belongs to `mem D · ρ` — interval, parallelogram (any orientation / slant),
    triangle (with the mirror step), disc, ball; parameters evaluated at the row's own `ρ`. -/
theorem prim_sample_mem (L : TranscLaws K) (D : Dom K) (ρ : Env K) (tape : List K) (pts : Env K)
    (hok : PrimOK D ρ) (htape : ∀ t ∈ tape, 0 ≤ t ∧ t ≤ 1) (h : primSample D ρ tape = some pts) : mem D pts ρ := by
  cases D with
  | interval v lb ub =>
    obtain ⟨ilb, iub, hord⟩ := hok
    rcases tape with _ | ⟨t, _ | ⟨t2, rest⟩⟩
    · simp [primSample] at h
    rotate_left
    · simp [primSample] at h
    simp only [primSample] at h
    split at h <;> try (simp at h)
    rename_i l u hl hu
    subst h
    have ht := htape t (by simp)
    have hb := intervalSample_bounds l u t (hord l u hl hu) ht.1 ht.2
    exact ⟨_, l, u, env_get_head _ _ _, by rw [List.cons_append, List.nil_append, ilb, hl],
      by rw [List.cons_append, List.nil_append, iub, hu], hb.1, hb.2⟩
  | par v o c1 c2 =>
    obtain ⟨io, i1, i2⟩ := hok
    rcases tape with _ | ⟨s, _ | ⟨t, _ | ⟨t3, rest⟩⟩⟩
    · simp [primSample] at h
    · simp [primSample] at h
    rotate_left
    · simp [primSample] at h
    simp only [primSample] at h
    split at h <;> try (simp at h)
    rename_i ox oy ax ay bx cy ho h1 h2
    subst h
    have hs := htape s (by simp)
    have ht := htape t (by simp)
    refine ⟨_, _, ox, oy, ax, ay, bx, cy, s, t, env_get_head _ _ _, by rw [List.cons_append, List.nil_append, io, ho],
      by rw [List.cons_append, List.nil_append, i1, h1], by rw [List.cons_append, List.nil_append, i2, h2],
      hs.1, hs.2, ht.1, ht.2, ?_, ?_⟩ <;> simp only [parSample] <;> ring
  | tri v o c1 c2 =>
    obtain ⟨io, i1, i2⟩ := hok
    rcases tape with _ | ⟨s, _ | ⟨t, _ | ⟨t3, rest⟩⟩⟩
    · simp [primSample] at h
    · simp [primSample] at h
    rotate_left
    · simp [primSample] at h
    simp only [primSample] at h
    split at h <;> try (simp at h)
    rename_i ox oy ax ay bx cy ho h1 h2
    subst h
    have hs := htape s (by simp)
    have ht := htape t (by simp)
    have hm := triMirror_simplex s t hs.1 hs.2 ht.1 ht.2
    refine ⟨_, _, ox, oy, ax, ay, bx, cy, (triMirror s t).1, (triMirror s t).2, env_get_head _ _ _,
      by rw [List.cons_append, List.nil_append, io, ho],
      by rw [List.cons_append, List.nil_append, i1, h1], by rw [List.cons_append, List.nil_append, i2, h2],
      hm.1, hm.2.1, hm.2.2, ?_, ?_⟩ <;> simp only [triSample] <;> ring
  | circle v c r =>
    obtain ⟨ic, ir, hr0⟩ := hok
    rcases tape with _ | ⟨u1, _ | ⟨u2, _ | ⟨t3, rest⟩⟩⟩
    · simp [primSample] at h
    · simp [primSample] at h
    rotate_left
    · simp [primSample] at h
    simp only [primSample] at h
    split at h <;> try (simp at h)
    rename_i cx cy rr hc hr
    subst h
    have hu := htape u1 (by simp)
    have hsq := L.sqrt_unit u1 hu.1 hu.2
    refine ⟨_, _, cx, cy, rr, env_get_head _ _ _, by rw [List.cons_append, List.nil_append, ic, hc],
      by rw [List.cons_append, List.nil_append, ir, hr], hr0 rr hr, ?_⟩
    simp only [circleSample]
    exact circle_param cx cy rr _ _ _ hsq.1 hsq.2 (L.cos_sin _)
  | sphere v c r =>
    obtain ⟨ic, ir, hr0⟩ := hok
    rcases tape with _ | ⟨u1, _ | ⟨u2, _ | ⟨u3, _ | ⟨t4, rest⟩⟩⟩⟩
    · simp [primSample] at h
    · simp [primSample] at h
    · simp [primSample] at h
    rotate_left
    · simp [primSample] at h
    simp only [primSample] at h
    split at h <;> try (simp at h)
    rename_i cx cy cz rr hc hr
    subst h
    have hu := htape u1 (by simp)
    have hsq := L.cbrt_unit u1 hu.1 hu.2
    refine ⟨_, _, _, cx, cy, cz, rr, env_get_head _ _ _, by rw [List.cons_append, List.nil_append, ic, hc],
      by rw [List.cons_append, List.nil_append, ir, hr], hr0 rr hr, ?_⟩
    simp only [sphereSample]
    exact sphere_param cx cy cz rr _ _ _ _ _ hsq.1 hsq.2 (L.cos_sin _) (L.cos_sin _)
  | _ => exact absurd hok (by simp [PrimOK])

end prim


/-! ## 4. rigid motions -/



/-! ### rigid motions -/

/-- the translated sample of a member of the inner set is a member of the translated set (row's own translation) -/
theorem translate_sample_mem (v : String) (d : Dom K) (t : PFun K) (ρ inner pts : Env K) (ht : t.indep v)
    (hin : ∃ q, inner = [(v, q)]) (hm : mem d inner ρ) (h : translateSample v t ρ inner = some pts) :
    mem (.translate v d t) pts ρ := by
  obtain ⟨q, rfl⟩ := hin
  simp only [translateSample, env_get_head] at h
  cases hq : translatePt q (t.f ρ) with
  | none => simp [hq] at h
  | some p =>
    simp only [hq, Option.map_some, Option.some.injEq] at h
    subst h
    unfold translatePt at hq
    split at hq <;> try (simp at hq)
    · rename_i x tx htx
      subst hq
      exact Or.inl ⟨x, _, tx, env_get_head _ _ _, by rw [List.cons_append, List.nil_append, ht, htx], rfl, by rw [filter_single]; exact hm⟩
    · rename_i x y tx ty htx
      subst hq
      exact Or.inr (Or.inl ⟨x, y, _, _, tx, ty, env_get_head _ _ _, by rw [List.cons_append, List.nil_append, ht, htx], rfl, rfl, by rw [filter_single]; exact hm⟩)
    · rename_i x y z tx ty tz htx
      subst hq
      exact Or.inr (Or.inr ⟨x, y, z, _, _, _, tx, ty, tz, env_get_head _ _ _,
        by rw [List.cons_append, List.nil_append, ht, htx], rfl, rfl, rfl, by rw [filter_single]; exact hm⟩)

theorem rotate_sample_mem (v : String) (d : Dom K) (m c : PFun K) (ρ inner pts : Env K) (hm' : m.indep v) (hc : c.indep v)
    (hin : ∃ q, inner = [(v, q)]) (hm : mem d inner ρ) (h : rotateSample v m c ρ inner = some pts) :
    mem (.rotate v d m c) pts ρ := by
  obtain ⟨q, rfl⟩ := hin
  simp only [rotateSample, env_get_head] at h
  cases hq : rotatePt q (m.f ρ) (c.f ρ) with
  | none => simp [hq] at h
  | some p =>
    simp only [hq, Option.map_some, Option.some.injEq] at h
    subst h
    unfold rotatePt at hq
    split at hq <;> try (simp at hq)
    rename_i x y m00 m01 m10 m11 cx cy hmm hcc
    subst hq
    exact ⟨x, y, _, _, m00, m01, m10, m11, cx, cy, env_get_head _ _ _,
      by rw [List.cons_append, List.nil_append, hm', hmm], by rw [List.cons_append, List.nil_append, hc, hcc], rfl, rfl, by rw [filter_single]; exact hm⟩


theorem env_get_append (pa pb : Env K) (v : String) (x : List K) (h : pa.get v = some x) : (pa ++ pb).get v = some x := by
  unfold Env.get at *
  induction pa with
  | nil => simp [List.lookup] at h
  | cons hd tl ih =>
    obtain ⟨k, val⟩ := hd
    simp only [List.cons_append, List.lookup] at h ⊢
    split at h
    · exact h
    · exact ih h


/-! ## 4b. products in general: `mem` of a node only reads its own coordinates and parameter values -/

/-- the two rows `(pts, ρ)` and `(pts', ρ')` look the same to the expression `D`: the coordinates of `D`'s
    variables agree and every parameter function of `D` evaluates to the same values (for a translated /
    rotated sub-expression: at every inner point, since the inner domain is evaluated at the moved point
    and the parameter row only) -/
def EnvAgree : Dom K → Env K → Env K → Env K → Env K → Prop
  | .interval v lb ub, p, ρ, p', ρ' => p.get v = p'.get v ∧ lb.f (p ++ ρ) = lb.f (p' ++ ρ') ∧ ub.f (p ++ ρ) = ub.f (p' ++ ρ')
  | .par v o c1 c2, p, ρ, p', ρ' | .tri v o c1 c2, p, ρ, p', ρ' =>
    p.get v = p'.get v ∧ o.f (p ++ ρ) = o.f (p' ++ ρ') ∧ c1.f (p ++ ρ) = c1.f (p' ++ ρ') ∧ c2.f (p ++ ρ) = c2.f (p' ++ ρ')
  | .circle v c r, p, ρ, p', ρ' | .sphere v c r, p, ρ, p', ρ' =>
    p.get v = p'.get v ∧ c.f (p ++ ρ) = c.f (p' ++ ρ') ∧ r.f (p ++ ρ) = r.f (p' ++ ρ')
  | .union a b, p, ρ, p', ρ' | .cut a b, p, ρ, p', ρ' | .inter a b, p, ρ, p', ρ' | .prod a b, p, ρ, p', ρ' =>
    EnvAgree a p ρ p' ρ' ∧ EnvAgree b p ρ p' ρ'
  | .translate v d t, p, ρ, p', ρ' =>
    p.get v = p'.get v ∧ t.f (p ++ ρ) = t.f (p' ++ ρ') ∧
      ∀ q, EnvAgree d [(v, q)] (p.filter (fun b => b.1 != v) ++ ρ) [(v, q)] (p'.filter (fun b => b.1 != v) ++ ρ')
  | .rotate v d m c, p, ρ, p', ρ' =>
    p.get v = p'.get v ∧ m.f (p ++ ρ) = m.f (p' ++ ρ') ∧ c.f (p ++ ρ) = c.f (p' ++ ρ') ∧
      ∀ q, EnvAgree d [(v, q)] (p.filter (fun b => b.1 != v) ++ ρ) [(v, q)] (p'.filter (fun b => b.1 != v) ++ ρ')
  | .bdry _, _, _, _, _ | .bdryL _, _, _, _, _ | .bdryR _, _, _, _, _ => True

/-- membership only depends on what the expression reads -/
theorem mem_congr (D : Dom K) : ∀ (p ρ p' ρ' : Env K), EnvAgree D p ρ p' ρ' → (mem D p ρ ↔ mem D p' ρ') := by
  induction D with
  | interval v lb ub => intro p ρ p' ρ' h; obtain ⟨h1, h2, h3⟩ := h; simp only [mem, h1, h2, h3]
  | par v o c1 c2 => intro p ρ p' ρ' h; obtain ⟨h1, h2, h3, h4⟩ := h; simp only [mem, h1, h2, h3, h4]
  | tri v o c1 c2 => intro p ρ p' ρ' h; obtain ⟨h1, h2, h3, h4⟩ := h; simp only [mem, h1, h2, h3, h4]
  | circle v c r => intro p ρ p' ρ' h; obtain ⟨h1, h2, h3⟩ := h; simp only [mem, h1, h2, h3]
  | sphere v c r => intro p ρ p' ρ' h; obtain ⟨h1, h2, h3⟩ := h; simp only [mem, h1, h2, h3]
  | union a b iha ihb => intro p ρ p' ρ' h; simp only [mem, iha _ _ _ _ h.1, ihb _ _ _ _ h.2]
  | cut a b iha ihb => intro p ρ p' ρ' h; simp only [mem, iha _ _ _ _ h.1, ihb _ _ _ _ h.2]
  | inter a b iha ihb => intro p ρ p' ρ' h; simp only [mem, iha _ _ _ _ h.1, ihb _ _ _ _ h.2]
  | prod a b iha ihb => intro p ρ p' ρ' h; simp only [mem, iha _ _ _ _ h.1, ihb _ _ _ _ h.2]
  | translate v d t ih =>
    intro p ρ p' ρ' h
    obtain ⟨h1, h2, h3⟩ := h
    simp only [mem, h1, h2]
    have e1 : ∀ q, mem d [(v, [q])] (p.filter (fun b => b.1 != v) ++ ρ) ↔ mem d [(v, [q])] (p'.filter (fun b => b.1 != v) ++ ρ') :=
      fun q => ih _ _ _ _ (h3 [q])
    have e2 : ∀ q1 q2, mem d [(v, [q1, q2])] (p.filter (fun b => b.1 != v) ++ ρ) ↔ mem d [(v, [q1, q2])] (p'.filter (fun b => b.1 != v) ++ ρ') :=
      fun q1 q2 => ih _ _ _ _ (h3 [q1, q2])
    have e3 : ∀ q1 q2 q3, mem d [(v, [q1, q2, q3])] (p.filter (fun b => b.1 != v) ++ ρ) ↔
        mem d [(v, [q1, q2, q3])] (p'.filter (fun b => b.1 != v) ++ ρ') := fun q1 q2 q3 => ih _ _ _ _ (h3 [q1, q2, q3])
    simp only [e1, e2, e3]
  | rotate v d m c ih =>
    intro p ρ p' ρ' h
    obtain ⟨h1, h2, h3, h4⟩ := h
    simp only [mem, h1, h2, h3]
    have e2 : ∀ q1 q2, mem d [(v, [q1, q2])] (p.filter (fun b => b.1 != v) ++ ρ) ↔ mem d [(v, [q1, q2])] (p'.filter (fun b => b.1 != v) ++ ρ') :=
      fun q1 q2 => ih _ _ _ _ (h4 [q1, q2])
    simp only [e2]
  | bdry d _ => intro p ρ p' ρ' _; simp [mem]
  | bdryL d _ => intro p ρ p' ρ' _; simp [mem]
  | bdryR d _ => intro p ρ p' ρ' _; simp [mem]

/-- **Cartesian products in general** (any first factor, any second factor, dependent or not): the code samples
    `pb` in the second factor at `ρ` and `pa` in the first factor at the row extended by `pb`; the joined row
    `pa ++ pb` is a member of the product whenever each factor reads only its own part of the row
    (`EnvAgree`; `envAgree_assoc_*` / `envAgree_left` discharge it syntactically). -/
theorem prod_sample_mem_general (a b : Dom K) (ρ pa pb : Env K) (hb : mem b pb ρ) (ha : mem a pa (pb ++ ρ))
    (ea : EnvAgree a pa (pb ++ ρ) (pa ++ pb) ρ) (eb : EnvAgree b pb ρ (pa ++ pb) ρ) :
    mem (.prod a b) (pa ++ pb) ρ :=
  ⟨(mem_congr a _ _ _ _ ea).1 ha, (mem_congr b _ _ _ _ eb).1 hb⟩

/-- the variables of all primitive leaves -/
def Dom.leafVars : Dom K → List String
  | .interval v _ _ | .par v _ _ _ | .tri v _ _ _ | .circle v _ _ | .sphere v _ _ => [v]
  | .union a b | .cut a b | .inter a b | .prod a b => a.leafVars ++ b.leafVars
  | .translate v d _ | .rotate v d _ _ => v :: d.leafVars
  | .bdry d | .bdryL d | .bdryR d => d.leafVars

/-- all parameter functions of an expression -/
def Dom.pfuns : Dom K → List (PFun K)
  | .interval _ lb ub => [lb, ub]
  | .par _ o c1 c2 | .tri _ o c1 c2 => [o, c1, c2]
  | .circle _ c r | .sphere _ c r => [c, r]
  | .union a b | .cut a b | .inter a b | .prod a b => a.pfuns ++ b.pfuns
  | .translate _ d t => t :: d.pfuns
  | .rotate _ d m c => m :: c :: d.pfuns
  | .bdry d | .bdryL d | .bdryR d => d.pfuns

/-- the parameter function does not look at the bindings `pb` (wherever they stand in the row) -/
def PFun.ignores (f : PFun K) (pb : Env K) : Prop := ∀ e1 e2 : Env K, f.f (e1 ++ (pb ++ e2)) = f.f (e1 ++ e2)

theorem envAgree_refl (D : Dom K) : ∀ p ρ, EnvAgree D p ρ p ρ := by
  induction D with
  | interval v lb ub => intro p ρ; exact ⟨rfl, rfl, rfl⟩
  | par v o c1 c2 => intro p ρ; exact ⟨rfl, rfl, rfl, rfl⟩
  | tri v o c1 c2 => intro p ρ; exact ⟨rfl, rfl, rfl, rfl⟩
  | circle v c r => intro p ρ; exact ⟨rfl, rfl, rfl⟩
  | sphere v c r => intro p ρ; exact ⟨rfl, rfl, rfl⟩
  | union a b iha ihb => intro p ρ; exact ⟨iha p ρ, ihb p ρ⟩
  | cut a b iha ihb => intro p ρ; exact ⟨iha p ρ, ihb p ρ⟩
  | inter a b iha ihb => intro p ρ; exact ⟨iha p ρ, ihb p ρ⟩
  | prod a b iha ihb => intro p ρ; exact ⟨iha p ρ, ihb p ρ⟩
  | translate v d t ih => intro p ρ; exact ⟨rfl, rfl, fun q => ih _ _⟩
  | rotate v d m c ih => intro p ρ; exact ⟨rfl, rfl, rfl, fun q => ih _ _⟩
  | bdry d _ => intro p ρ; trivial
  | bdryL d _ => intro p ρ; trivial
  | bdryR d _ => intro p ρ; trivial

/-- an expression whose parameter functions ignore `X` does not notice `X` anywhere in the parameter row -/
theorem envAgree_ignore (X : Env K) (D : Dom K) : (∀ f ∈ D.pfuns, f.ignores X) →
    ∀ p e ρ, EnvAgree D p (e ++ (X ++ ρ)) p (e ++ ρ) := by
  have key : ∀ (f : PFun K), f.ignores X → ∀ p e ρ : Env K, f.f (p ++ (e ++ (X ++ ρ))) = f.f (p ++ (e ++ ρ)) := by
    intro f hf p e ρ
    have := hf (p ++ e) ρ
    simpa [List.append_assoc] using this
  induction D with
  | interval v lb ub =>
    intro h p e ρ; exact ⟨rfl, key lb (h lb (by simp [Dom.pfuns])) p e ρ, key ub (h ub (by simp [Dom.pfuns])) p e ρ⟩
  | par v o c1 c2 =>
    intro h p e ρ
    exact ⟨rfl, key o (h o (by simp [Dom.pfuns])) p e ρ, key c1 (h c1 (by simp [Dom.pfuns])) p e ρ, key c2 (h c2 (by simp [Dom.pfuns])) p e ρ⟩
  | tri v o c1 c2 =>
    intro h p e ρ
    exact ⟨rfl, key o (h o (by simp [Dom.pfuns])) p e ρ, key c1 (h c1 (by simp [Dom.pfuns])) p e ρ, key c2 (h c2 (by simp [Dom.pfuns])) p e ρ⟩
  | circle v c r => intro h p e ρ; exact ⟨rfl, key c (h c (by simp [Dom.pfuns])) p e ρ, key r (h r (by simp [Dom.pfuns])) p e ρ⟩
  | sphere v c r => intro h p e ρ; exact ⟨rfl, key c (h c (by simp [Dom.pfuns])) p e ρ, key r (h r (by simp [Dom.pfuns])) p e ρ⟩
  | union a b iha ihb =>
    intro h p e ρ
    exact ⟨iha (fun f hf => h f (by simp [Dom.pfuns, hf])) p e ρ, ihb (fun f hf => h f (by simp [Dom.pfuns, hf])) p e ρ⟩
  | cut a b iha ihb =>
    intro h p e ρ
    exact ⟨iha (fun f hf => h f (by simp [Dom.pfuns, hf])) p e ρ, ihb (fun f hf => h f (by simp [Dom.pfuns, hf])) p e ρ⟩
  | inter a b iha ihb =>
    intro h p e ρ
    exact ⟨iha (fun f hf => h f (by simp [Dom.pfuns, hf])) p e ρ, ihb (fun f hf => h f (by simp [Dom.pfuns, hf])) p e ρ⟩
  | prod a b iha ihb =>
    intro h p e ρ
    exact ⟨iha (fun f hf => h f (by simp [Dom.pfuns, hf])) p e ρ, ihb (fun f hf => h f (by simp [Dom.pfuns, hf])) p e ρ⟩
  | translate v d t ih =>
    intro h p e ρ
    refine ⟨rfl, key t (h t (by simp [Dom.pfuns])) p e ρ, fun q => ?_⟩
    have := ih (fun f hf => h f (by simp [Dom.pfuns, hf])) [(v, q)] (p.filter (fun b => b.1 != v) ++ e) ρ
    simpa [List.append_assoc] using this
  | rotate v d m c ih =>
    intro h p e ρ
    refine ⟨rfl, key m (h m (by simp [Dom.pfuns])) p e ρ, key c (h c (by simp [Dom.pfuns])) p e ρ, fun q => ?_⟩
    have := ih (fun f hf => h f (by simp [Dom.pfuns, hf])) [(v, q)] (p.filter (fun b => b.1 != v) ++ e) ρ
    simpa [List.append_assoc] using this
  | bdry d _ => intro _ p e ρ; trivial
  | bdryL d _ => intro _ p e ρ; trivial
  | bdryR d _ => intro _ p e ρ; trivial

theorem filter_of_get_none (pb : Env K) (v : String) (h : pb.get v = none) : pb.filter (fun b => b.1 != v) = pb := by
  unfold Env.get at h
  induction pb with
  | nil => rfl
  | cons hd tl ih =>
    obtain ⟨k, val⟩ := hd
    simp only [List.lookup] at h
    split at h
    · simp at h
    · rename_i hne
      have hk : (k != v) = true := by
        rw [bne_iff_ne]; intro hkv; subst hkv; simp at hne
      simp only [List.filter, hk, ih h]

/-- **first factor, any expression** (also with translate / rotate nodes, since /repo 414d4d6 hands the partner's
    coordinates down): moving the second factor's coordinates `pb` from the parameter row into the point row
    changes nothing, provided the leaves' variables are bound in `pa` and not in `pb` -/
theorem envAgree_assoc (a : Dom K) (ρ pa pb : Env K)
    (hv : ∀ v ∈ a.leafVars, ∃ x, pa.get v = some x) (hpb : ∀ v ∈ a.leafVars, pb.get v = none) :
    EnvAgree a pa (pb ++ ρ) (pa ++ pb) ρ := by
  induction a with
  | interval v lb ub =>
    obtain ⟨x, hx⟩ := hv v (by simp [Dom.leafVars])
    exact ⟨by rw [hx, env_get_append pa pb v x hx], by rw [List.append_assoc], by rw [List.append_assoc]⟩
  | par v o c1 c2 =>
    obtain ⟨x, hx⟩ := hv v (by simp [Dom.leafVars])
    exact ⟨by rw [hx, env_get_append pa pb v x hx], by rw [List.append_assoc], by rw [List.append_assoc], by rw [List.append_assoc]⟩
  | tri v o c1 c2 =>
    obtain ⟨x, hx⟩ := hv v (by simp [Dom.leafVars])
    exact ⟨by rw [hx, env_get_append pa pb v x hx], by rw [List.append_assoc], by rw [List.append_assoc], by rw [List.append_assoc]⟩
  | circle v c r =>
    obtain ⟨x, hx⟩ := hv v (by simp [Dom.leafVars])
    exact ⟨by rw [hx, env_get_append pa pb v x hx], by rw [List.append_assoc], by rw [List.append_assoc]⟩
  | sphere v c r =>
    obtain ⟨x, hx⟩ := hv v (by simp [Dom.leafVars])
    exact ⟨by rw [hx, env_get_append pa pb v x hx], by rw [List.append_assoc], by rw [List.append_assoc]⟩
  | union a b iha ihb =>
    exact ⟨iha (fun v h => hv v (by simp [Dom.leafVars, h])) (fun v h => hpb v (by simp [Dom.leafVars, h])),
      ihb (fun v h => hv v (by simp [Dom.leafVars, h])) (fun v h => hpb v (by simp [Dom.leafVars, h]))⟩
  | cut a b iha ihb =>
    exact ⟨iha (fun v h => hv v (by simp [Dom.leafVars, h])) (fun v h => hpb v (by simp [Dom.leafVars, h])),
      ihb (fun v h => hv v (by simp [Dom.leafVars, h])) (fun v h => hpb v (by simp [Dom.leafVars, h]))⟩
  | inter a b iha ihb =>
    exact ⟨iha (fun v h => hv v (by simp [Dom.leafVars, h])) (fun v h => hpb v (by simp [Dom.leafVars, h])),
      ihb (fun v h => hv v (by simp [Dom.leafVars, h])) (fun v h => hpb v (by simp [Dom.leafVars, h]))⟩
  | prod a b iha ihb =>
    exact ⟨iha (fun v h => hv v (by simp [Dom.leafVars, h])) (fun v h => hpb v (by simp [Dom.leafVars, h])),
      ihb (fun v h => hv v (by simp [Dom.leafVars, h])) (fun v h => hpb v (by simp [Dom.leafVars, h]))⟩
  | translate v d t _ =>
    obtain ⟨x, hx⟩ := hv v (by simp [Dom.leafVars])
    refine ⟨by rw [hx, env_get_append pa pb v x hx], by rw [List.append_assoc], fun q => ?_⟩
    rw [List.filter_append, filter_of_get_none pb v (hpb v (by simp [Dom.leafVars])), List.append_assoc]
    exact envAgree_refl d _ _
  | rotate v d m c _ =>
    obtain ⟨x, hx⟩ := hv v (by simp [Dom.leafVars])
    refine ⟨by rw [hx, env_get_append pa pb v x hx], by rw [List.append_assoc], by rw [List.append_assoc], fun q => ?_⟩
    rw [List.filter_append, filter_of_get_none pb v (hpb v (by simp [Dom.leafVars])), List.append_assoc]
    exact envAgree_refl d _ _
  | bdry d _ => trivial
  | bdryL d _ => trivial
  | bdryR d _ => trivial

theorem env_get_append_none (pa pb : Env K) (v : String) (h : pa.get v = none) : (pa ++ pb).get v = pb.get v := by
  unfold Env.get at *
  induction pa with
  | nil => rfl
  | cons hd tl ih =>
    obtain ⟨k, val⟩ := hd
    simp only [List.cons_append, List.lookup] at h ⊢
    split at h
    · simp at h
    · exact ih h

theorem envAgree_symm (D : Dom K) : ∀ p ρ p' ρ', EnvAgree D p ρ p' ρ' → EnvAgree D p' ρ' p ρ := by
  induction D with
  | interval v lb ub => intro p ρ p' ρ' h; exact ⟨h.1.symm, h.2.1.symm, h.2.2.symm⟩
  | par v o c1 c2 => intro p ρ p' ρ' h; exact ⟨h.1.symm, h.2.1.symm, h.2.2.1.symm, h.2.2.2.symm⟩
  | tri v o c1 c2 => intro p ρ p' ρ' h; exact ⟨h.1.symm, h.2.1.symm, h.2.2.1.symm, h.2.2.2.symm⟩
  | circle v c r => intro p ρ p' ρ' h; exact ⟨h.1.symm, h.2.1.symm, h.2.2.symm⟩
  | sphere v c r => intro p ρ p' ρ' h; exact ⟨h.1.symm, h.2.1.symm, h.2.2.symm⟩
  | union a b iha ihb => intro p ρ p' ρ' h; exact ⟨iha _ _ _ _ h.1, ihb _ _ _ _ h.2⟩
  | cut a b iha ihb => intro p ρ p' ρ' h; exact ⟨iha _ _ _ _ h.1, ihb _ _ _ _ h.2⟩
  | inter a b iha ihb => intro p ρ p' ρ' h; exact ⟨iha _ _ _ _ h.1, ihb _ _ _ _ h.2⟩
  | prod a b iha ihb => intro p ρ p' ρ' h; exact ⟨iha _ _ _ _ h.1, ihb _ _ _ _ h.2⟩
  | translate v d t ih => intro p ρ p' ρ' h; exact ⟨h.1.symm, h.2.1.symm, fun q => ih _ _ _ _ (h.2.2 q)⟩
  | rotate v d m c ih => intro p ρ p' ρ' h; exact ⟨h.1.symm, h.2.1.symm, h.2.2.1.symm, fun q => ih _ _ _ _ (h.2.2.2 q)⟩
  | bdry d _ => intro _ _ _ _ _; trivial
  | bdryL d _ => intro _ _ _ _ _; trivial
  | bdryR d _ => intro _ _ _ _ _; trivial

/-- **second factor, any expression**: prepending the first factor's coordinates `pa` to the point row changes
    nothing, provided `pa` binds none of the second factor's variables and its parameter functions ignore `pa` -/
theorem envAgree_left (pa : Env K) (b : Dom K) : (∀ f ∈ b.pfuns, f.ignores pa) →
    (∀ v ∈ b.leafVars, pa.get v = none) → ∀ pb ρ, EnvAgree b pb ρ (pa ++ pb) ρ := by
  have key : ∀ (f : PFun K), f.ignores pa → ∀ pb ρ : Env K, f.f (pb ++ ρ) = f.f ((pa ++ pb) ++ ρ) := by
    intro f hf pb ρ
    have := hf [] (pb ++ ρ)
    simp only [List.nil_append] at this
    rw [List.append_assoc, this]
  induction b with
  | interval v lb ub =>
    intro h hv pb ρ
    exact ⟨(env_get_append_none pa pb v (hv v (by simp [Dom.leafVars]))).symm,
      key lb (h lb (by simp [Dom.pfuns])) pb ρ, key ub (h ub (by simp [Dom.pfuns])) pb ρ⟩
  | par v o c1 c2 =>
    intro h hv pb ρ
    exact ⟨(env_get_append_none pa pb v (hv v (by simp [Dom.leafVars]))).symm,
      key o (h o (by simp [Dom.pfuns])) pb ρ, key c1 (h c1 (by simp [Dom.pfuns])) pb ρ, key c2 (h c2 (by simp [Dom.pfuns])) pb ρ⟩
  | tri v o c1 c2 =>
    intro h hv pb ρ
    exact ⟨(env_get_append_none pa pb v (hv v (by simp [Dom.leafVars]))).symm,
      key o (h o (by simp [Dom.pfuns])) pb ρ, key c1 (h c1 (by simp [Dom.pfuns])) pb ρ, key c2 (h c2 (by simp [Dom.pfuns])) pb ρ⟩
  | circle v c r =>
    intro h hv pb ρ
    exact ⟨(env_get_append_none pa pb v (hv v (by simp [Dom.leafVars]))).symm,
      key c (h c (by simp [Dom.pfuns])) pb ρ, key r (h r (by simp [Dom.pfuns])) pb ρ⟩
  | sphere v c r =>
    intro h hv pb ρ
    exact ⟨(env_get_append_none pa pb v (hv v (by simp [Dom.leafVars]))).symm,
      key c (h c (by simp [Dom.pfuns])) pb ρ, key r (h r (by simp [Dom.pfuns])) pb ρ⟩
  | union a b iha ihb =>
    intro h hv pb ρ
    exact ⟨iha (fun f hf => h f (by simp [Dom.pfuns, hf])) (fun v hv' => hv v (by simp [Dom.leafVars, hv'])) pb ρ,
      ihb (fun f hf => h f (by simp [Dom.pfuns, hf])) (fun v hv' => hv v (by simp [Dom.leafVars, hv'])) pb ρ⟩
  | cut a b iha ihb =>
    intro h hv pb ρ
    exact ⟨iha (fun f hf => h f (by simp [Dom.pfuns, hf])) (fun v hv' => hv v (by simp [Dom.leafVars, hv'])) pb ρ,
      ihb (fun f hf => h f (by simp [Dom.pfuns, hf])) (fun v hv' => hv v (by simp [Dom.leafVars, hv'])) pb ρ⟩
  | inter a b iha ihb =>
    intro h hv pb ρ
    exact ⟨iha (fun f hf => h f (by simp [Dom.pfuns, hf])) (fun v hv' => hv v (by simp [Dom.leafVars, hv'])) pb ρ,
      ihb (fun f hf => h f (by simp [Dom.pfuns, hf])) (fun v hv' => hv v (by simp [Dom.leafVars, hv'])) pb ρ⟩
  | prod a b iha ihb =>
    intro h hv pb ρ
    exact ⟨iha (fun f hf => h f (by simp [Dom.pfuns, hf])) (fun v hv' => hv v (by simp [Dom.leafVars, hv'])) pb ρ,
      ihb (fun f hf => h f (by simp [Dom.pfuns, hf])) (fun v hv' => hv v (by simp [Dom.leafVars, hv'])) pb ρ⟩
  | translate v d t _ =>
    intro h hv pb ρ
    refine ⟨(env_get_append_none pa pb v (hv v (by simp [Dom.leafVars]))).symm, key t (h t (by simp [Dom.pfuns])) pb ρ, fun q => ?_⟩
    rw [List.filter_append, filter_of_get_none pa v (hv v (by simp [Dom.leafVars])), List.append_assoc]
    have := envAgree_ignore pa d (fun f hf => h f (by simp [Dom.pfuns, hf])) [(v, q)] [] (pb.filter (fun b => b.1 != v) ++ ρ)
    simp only [List.nil_append] at this
    exact envAgree_symm d _ _ _ _ this
  | rotate v d m c _ =>
    intro h hv pb ρ
    refine ⟨(env_get_append_none pa pb v (hv v (by simp [Dom.leafVars]))).symm, key m (h m (by simp [Dom.pfuns])) pb ρ,
      key c (h c (by simp [Dom.pfuns])) pb ρ, fun q => ?_⟩
    rw [List.filter_append, filter_of_get_none pa v (hv v (by simp [Dom.leafVars])), List.append_assoc]
    have := envAgree_ignore pa d (fun f hf => h f (by simp [Dom.pfuns, hf])) [(v, q)] [] (pb.filter (fun b => b.1 != v) ++ ρ)
    simp only [List.nil_append] at this
    exact envAgree_symm d _ _ _ _ this
  | bdry d _ => intro _ _ pb ρ; trivial
  | bdryL d _ => intro _ _ pb ρ; trivial
  | bdryR d _ => intro _ _ pb ρ; trivial

/-! ## 5. whole expressions: everything the composite samplers can return is a member -/

section samples
variable [Transc K]

/-- **what sampling a domain expression can return** (one row, parameter row `ρ`), following the code:
    a primitive returns its parametrisation at draws in `[0,1]`; a cut / intersection returns proposals of
    its first operand that the partner's membership test rejects / accepts (sampler_helper loops:
    `insideRow_sound`, `n1Loop_sound`, `accLoop_sound` show that nothing else is returned); a union returns
    a sample of either operand (`where(in_a ∨ u ≤ ratio, a, b)`); a translated / rotated domain returns the
    moved sample of the inner domain, moved by the row's own parameters. -/
inductive Samples (τ : Tol K) : Dom K → Env K → Env K → Prop
  | prim (D : Dom K) (ρ : Env K) (tape : List K) (pts : Env K) :
      (∀ t ∈ tape, 0 ≤ t ∧ t ≤ 1) → primSample D ρ tape = some pts → Samples τ D ρ pts
  | cut (a b : Dom K) (ρ pts : Env K) :
      Samples τ a ρ pts → contains τ b pts ρ = some false → Samples τ (.cut a b) ρ pts
  | inter (a b : Dom K) (ρ pts : Env K) :
      Samples τ a ρ pts → contains τ b pts ρ = some true → Samples τ (.inter a b) ρ pts
  | unionA (a b : Dom K) (ρ pts : Env K) : Samples τ a ρ pts → Samples τ (.union a b) ρ pts
  | unionB (a b : Dom K) (ρ pts : Env K) : Samples τ b ρ pts → Samples τ (.union a b) ρ pts
  | translate (v : String) (d : Dom K) (t : PFun K) (ρ : Env K) (q p : List K) :
      Samples τ d ρ [(v, q)] → translatePt q (t.f ρ) = some p → Samples τ (.translate v d t) ρ [(v, p)]
  | rotate (v : String) (d : Dom K) (m c : PFun K) (ρ : Env K) (q p : List K) :
      Samples τ d ρ [(v, q)] → rotatePt q (m.f ρ) (c.f ρ) = some p → Samples τ (.rotate v d m c) ρ [(v, p)]
  | prod (a b : Dom K) (ρ pa pb : Env K) :
      Samples τ b ρ pb → Samples τ a (pb ++ ρ) pa → Samples τ (.prod a b) ρ (pa ++ pb)

/-- side conditions along the expression at the parameter row `ρ`: primitives as in `PrimOK`; the partner
    of a cut / intersection is a solid, non-degenerate expression (so that its membership test decides its
    set: C05); motion parameters do not read the own coordinate variable -/
def SampleWF (τ : Tol K) : Dom K → Env K → Prop
  | .union a b, ρ => SampleWF τ a ρ ∧ SampleWF τ b ρ
  | .cut a b, ρ => SampleWF τ a ρ ∧ b.solid ∧ ∀ pts, NonDeg b pts ρ
  | .inter a b, ρ => SampleWF τ a ρ ∧ b.solid ∧ ∀ pts, NonDeg b pts ρ
  | .translate v d t, ρ => SampleWF τ d ρ ∧ t.indep v
  | .rotate v d m c, ρ => SampleWF τ d ρ ∧ m.indep v ∧ c.indep v
  | .prod a b, ρ => SampleWF τ b ρ ∧ ∀ pb, Samples τ b ρ pb →
      (SampleWF τ a (pb ++ ρ) ∧ ∀ pa, Samples τ a (pb ++ ρ) pa →
        EnvAgree a pa (pb ++ ρ) (pa ++ pb) ρ ∧ EnvAgree b pb ρ (pa ++ pb) ρ)
  | .bdry _, _ => False
  | .bdryL _, _ => False
  | .bdryR _, _ => False
  | D, ρ => PrimOK D ρ

/-- **Main theorem.** For every domain expression built from interval, parallelogram, triangle, disc, ball
    with union, cut, intersection, translation and rotation (any nesting, any slanted / clockwise /
    parameter-dependent shape), every parameter row `ρ` and every point the sampling procedures can
    return for that row: the point belongs to the set the expression denotes at `ρ`. -/
theorem samples_mem (L : TranscLaws K) (τ : Tol K) (D : Dom K) (ρ pts : Env K) (h : Samples τ D ρ pts) :
    SampleWF τ D ρ → mem D pts ρ := by
  induction h with
  | prim D ρ tape pts htape hs =>
    intro hwf
    cases D with
    | interval v lb ub => exact prim_sample_mem L _ ρ tape pts (by simpa [SampleWF] using hwf) htape hs
    | par v o c1 c2 => exact prim_sample_mem L _ ρ tape pts (by simpa [SampleWF] using hwf) htape hs
    | tri v o c1 c2 => exact prim_sample_mem L _ ρ tape pts (by simpa [SampleWF] using hwf) htape hs
    | circle v c r => exact prim_sample_mem L _ ρ tape pts (by simpa [SampleWF] using hwf) htape hs
    | sphere v c r => exact prim_sample_mem L _ ρ tape pts (by simpa [SampleWF] using hwf) htape hs
    | union a b => simp [primSample] at hs
    | cut a b => simp [primSample] at hs
    | inter a b => simp [primSample] at hs
    | prod a b => simp [primSample] at hs
    | translate v d t => simp [primSample] at hs
    | rotate v d m c => simp [primSample] at hs
    | bdry d => exact absurd hwf (by simp [SampleWF])
    | bdryL d => exact absurd hwf (by simp [SampleWF])
    | bdryR d => exact absurd hwf (by simp [SampleWF])
  | cut a b ρ pts _ hc ih =>
    intro hwf
    obtain ⟨wa, sb, nd⟩ := hwf
    refine ⟨ih wa, fun hm => ?_⟩
    have := (contains_iff_mem τ b pts ρ false sb (nd pts) hc).2 hm
    exact absurd this (by simp)
  | inter a b ρ pts _ hc ih =>
    intro hwf
    obtain ⟨wa, sb, nd⟩ := hwf
    exact ⟨ih wa, (contains_iff_mem τ b pts ρ true sb (nd pts) hc).1 rfl⟩
  | unionA a b ρ pts _ ih => intro hwf; exact Or.inl (ih hwf.1)
  | unionB a b ρ pts _ ih => intro hwf; exact Or.inr (ih hwf.2)
  | translate v d t ρ q p _ hq ih =>
    intro hwf
    exact translate_sample_mem v d t ρ [(v, q)] [(v, p)] hwf.2 ⟨q, rfl⟩ (ih hwf.1)
      (by simp [translateSample, env_get_head, hq])
  | rotate v d m c ρ q p _ hq ih =>
    intro hwf
    exact rotate_sample_mem v d m c ρ [(v, q)] [(v, p)] hwf.2.1 hwf.2.2 ⟨q, rfl⟩ (ih hwf.1)
      (by simp [rotateSample, env_get_head, hq])
  | prod a b ρ pa pb hsb hsa ihb iha =>
    intro hwf
    obtain ⟨wb, hall⟩ := hwf
    obtain ⟨wa, hag⟩ := hall pb hsb
    obtain ⟨ea, eb⟩ := hag pa hsa
    exact prod_sample_mem_general a b ρ pa pb (ihb wb) (iha wa) ea eb

end samples

/-- **Cartesian products, incl. dependent ones**: the code samples the second factor (`pb`) and then the first
    factor at the parameter row extended by `pb`; the joined row is a member of the product as soon as each
    factor only reads its own coordinates (`ta`, `tb`: `mem_assoc_circle` … show this for primitives). -/
theorem prod_sample_mem (a b : Dom K) (ρ pa pb : Env K) (hb : mem b pb ρ) (ha : mem a pa (pb ++ ρ))
    (ta : mem a pa (pb ++ ρ) → mem a (pa ++ pb) ρ) (tb : mem b pb ρ → mem b (pa ++ pb) ρ) :
    mem (.prod a b) (pa ++ pb) ρ := ⟨ta ha, tb hb⟩

/-- the first factor of a dependent product: a disc whose parameters read the second factor's coordinates -/
theorem mem_assoc_circle (v : String) (c r : PFun K) (ρ pa pb : Env K) (h : mem (.circle v c r) pa (pb ++ ρ)) :
    mem (.circle v c r) (pa ++ pb) ρ := by
  obtain ⟨x, y, cx, cy, rr, hp, hc, hr, h0, hle⟩ := h
  exact ⟨x, y, cx, cy, rr, env_get_append pa pb v _ hp, by rw [List.append_assoc]; exact hc, by rw [List.append_assoc]; exact hr, h0, hle⟩

theorem mem_assoc_par (v : String) (o c1 c2 : PFun K) (ρ pa pb : Env K) (h : mem (.par v o c1 c2) pa (pb ++ ρ)) :
    mem (.par v o c1 c2) (pa ++ pb) ρ := by
  obtain ⟨x, y, ox, oy, ax, ay, bx, cy, s, t, hp, ho, h1, h2, rest⟩ := h
  exact ⟨x, y, ox, oy, ax, ay, bx, cy, s, t, env_get_append pa pb v _ hp, by rw [List.append_assoc]; exact ho,
    by rw [List.append_assoc]; exact h1, by rw [List.append_assoc]; exact h2, rest⟩

theorem mem_assoc_tri (v : String) (o c1 c2 : PFun K) (ρ pa pb : Env K) (h : mem (.tri v o c1 c2) pa (pb ++ ρ)) :
    mem (.tri v o c1 c2) (pa ++ pb) ρ := by
  obtain ⟨x, y, ox, oy, ax, ay, bx, cy, s, t, hp, ho, h1, h2, rest⟩ := h
  exact ⟨x, y, ox, oy, ax, ay, bx, cy, s, t, env_get_append pa pb v _ hp, by rw [List.append_assoc]; exact ho,
    by rw [List.append_assoc]; exact h1, by rw [List.append_assoc]; exact h2, rest⟩

/-- the second factor (an interval in `w`) is not disturbed by the first factor's coordinates `(v, q)` -/
theorem mem_cons_interval (v w : String) (hvw : (w == v) = false) (lb ub : PFun K) (ρ pb : Env K) (q : List K)
    (il : lb.indep v) (iu : ub.indep v) (h : mem (.interval w lb ub) pb ρ) :
    mem (.interval w lb ub) ([(v, q)] ++ pb) ρ := by
  obtain ⟨x, l, u, hp, hl, hu, rest⟩ := h
  refine ⟨x, l, u, ?_, by rw [List.append_assoc, List.cons_append, List.nil_append, il]; exact hl,
    by rw [List.append_assoc, List.cons_append, List.nil_append, iu]; exact hu, rest⟩
  simp only [Env.get, List.cons_append, List.nil_append, List.lookup, hvw]
  exact hp

/-! ## 6. the real-number instance: the laws hold for √, ∛, cos, sin -/

noncomputable instance : Transc ℝ := ⟨Real.sqrt, Real.cos, Real.sin, Real.arccos, fun x => x ^ ((1 : ℝ) / 3), Real.pi⟩

theorem realLaws : TranscLaws ℝ where
  sqrt_unit x h0 h1 := ⟨Real.sqrt_nonneg x, by
    have := Real.sqrt_le_sqrt h1; rwa [Real.sqrt_one] at this⟩
  cbrt_unit x h0 h1 := ⟨Real.rpow_nonneg h0 _, Real.rpow_le_one h0 h1 (by norm_num)⟩
  cos_sin x := Real.cos_sq_add_sin_sq x
  sqrt_pos x h := Real.sqrt_pos.2 h
  sqrt_mono x y _ h := Real.sqrt_le_sqrt h
  sqrt_sq x h := Real.mul_self_sqrt h

/-- non-vacuity: a disc whose centre moves with the parameter `t`, sampled at the row `t = 2` with the draws (1/4, 1/8) -/
noncomputable def exDisc : Dom ℝ :=
  .circle "x" ⟨["t"], fun e => match e.get "t" with | some [t] => [t, 1] | _ => []⟩ (.const [3])

example : ∃ pts, primSample exDisc [("t", [2])] [1/4, 1/8] = some pts ∧ mem exDisc pts [("t", [2])] := by
  refine ⟨_, rfl, prim_sample_mem realLaws exDisc _ [1/4, 1/8] _ ?_ ?_ rfl⟩
  · refine ⟨fun x ρ => ?_, fun x ρ => rfl, fun rr h => ?_⟩
    · simp [Env.get, List.lookup]
    · simp only [PFun.const, List.cons.injEq, and_true] at h; subst h; norm_num
  · intro t ht
    simp only [List.mem_cons, List.not_mem_nil, or_false] at ht
    rcases ht with rfl | rfl <;> norm_num

/-- non-vacuity of `samples_mem`: a translated disc united with a parallelogram -/
example (pts : Env ℝ) (h : Samples ⟨0, 0, 0⟩ (.union (.translate "x" exDisc (.const [1, 1])) (.par "x" (.const [0, 0]) (.const [2, 1]) (.const [-1, 3])))
    [("t", [2])] pts) : mem (.union (.translate "x" exDisc (.const [1, 1])) (.par "x" (.const [0, 0]) (.const [2, 1]) (.const [-1, 3]))) pts [("t", [2])] := by
  refine samples_mem realLaws _ _ _ _ h ⟨⟨⟨fun x ρ => ?_, fun x ρ => rfl, fun rr h => ?_⟩, fun x ρ => rfl⟩, fun x ρ => rfl, fun x ρ => rfl, fun x ρ => rfl⟩
  · simp [Env.get, List.lookup]
  · simp only [PFun.const, List.cons.injEq, and_true] at h; subst h; norm_num

/-- non-vacuity of the oracle theorems on the executable instance: the point (1, 3) has margin > 0 in the C05 example domain -/
example : ∃ m, sd exDom [("x", [1, 3])] [("t", [1/2])] = some m ∧ 0 < m := ⟨_, rfl, by decide +kernel⟩

end TPV.Geom
