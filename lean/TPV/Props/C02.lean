/-
  C02 — samplers return exactly n points per parameter row, paired in order.
  Theorems about the row book-keeping model `TPV.Model.Sampler` (which mirrors sampler_base.py,
  random_samplers.py, grid_samplers.py, data_samplers.py and the row handling of the domain operations).
  `o` ranges over ALL oracles: every verdict of a filter / membership test, every choice of a Boolean
  node, every number of allowed rounds.
-/
import TPV.Model.Sampler
set_option linter.unusedVariables false
set_option linter.unnecessarySimpa false

deriving instance DecidableEq for Except

namespace TPV.Sampler


theorem repeatParams_length (ps : List Row) (n : Nat) : (repeatParams ps n).length = ps.length * n := by
  induction ps with
  | nil => simp [repeatParams]
  | cons p ps ih =>
    simp only [repeatParams, List.flatMap_cons, List.length_append, List.length_replicate] at ih ⊢
    rw [ih, List.length_cons, Nat.add_mul, Nat.one_mul, Nat.add_comm]

theorem repeatParams_getElem (ps : List Row) (n i j : Nat) (hi : i < ps.length) (hj : j < n) :
    (repeatParams ps n)[i * n + j]? = ps[i]? := by
  induction ps generalizing i with
  | nil => simp at hi
  | cons p ps ih =>
    simp only [repeatParams, List.flatMap_cons]
    cases i with
    | zero =>
      simp only [Nat.zero_mul, Nat.zero_add, List.getElem?_cons_zero]
      rw [List.getElem?_append_left (by simpa using hj)]
      simp [hj]
    | succ i =>
      have : (i + 1) * n + j = n + (i * n + j) := by rw [Nat.add_mul, Nat.one_mul]; omega
      rw [this, List.getElem?_append_right (by simp)]
      simp only [List.length_replicate, Nat.add_sub_cancel_left, List.getElem?_cons_succ]
      exact ih i (by simpa using hi)

theorem length_flatMap_const {α β} (l : List α) (f : α → List β) (c : Nat) (h : ∀ a ∈ l, (f a).length = c) :
    (l.flatMap f).length = l.length * c := by
  induction l with
  | nil => simp
  | cons a l ih =>
    simp only [List.flatMap_cons, List.length_append, List.length_cons]
    rw [h a (by simp), ih (fun b hb => h b (by simp [hb])), Nat.add_mul, Nat.one_mul, Nat.add_comm]

theorem rowsOr1_length (ps : List Row) : (rowsOr1 ps).length = max 1 ps.length := by
  unfold rowsOr1; cases ps <;> simp

theorem chooseRows_length (o : Nat → Bool) (a b : List Point) : (chooseRows o a b).length = min a.length b.length := by
  simp [chooseRows]

theorem Dom.sample_length (o : Nat → Bool) (d : Dom) : ∀ (n : Nat) (ps : List Row), 0 < n →
    (d.sample o n ps).length = n * max 1 ps.length := by
  induction d with
  | prim v id deps =>
    intro n ps _
    simp only [Dom.sample]
    rw [length_flatMap_const _ _ n (by intro a _; simp), rowsOr1_length, Nat.mul_comm]
  | bool a b iha ihb =>
    intro n ps hn
    simp only [Dom.sample, chooseRows_length, iha n ps hn, ihb n ps hn, Nat.min_self]
  | prod a b iha ihb =>
    intro n ps hn
    simp only [Dom.sample]
    cases ps with
    | nil =>
      simp only [List.isEmpty_nil, if_true, List.length_zipWith, List.length_nil]
      rw [iha 1 _ Nat.one_pos, ihb n [] hn]
      simp only [List.length_map, ihb n [] hn, List.length_nil]
      omega
    | cons p ps =>
      have hk : 1 ≤ (p :: ps).length * n := Nat.mul_pos (by simp) hn
      simp only [List.isEmpty_cons, Bool.false_eq_true, if_false, List.length_zipWith]
      rw [iha 1 _ Nat.one_pos, ihb 1 _ Nat.one_pos]
      simp only [List.length_zipWith, ihb 1 _ Nat.one_pos, repeatParams_length]
      rw [Nat.mul_comm n]
      have : max 1 (p :: ps).length = (p :: ps).length := by simp
      rw [this]
      omega
  | move d id deps ih =>
    intro n ps hn
    simp only [Dom.sample, List.length_zipWith, ih n ps hn]
    cases ps with
    | nil => simp
    | cons p ps =>
      have hk : 0 < (p :: ps).length := by simp
      have h1 : max 1 (p :: ps).length = (p :: ps).length := by simp
      have h2 : max (p :: ps).length 1 = (p :: ps).length := by simp
      simp only [List.isEmpty_cons, Bool.false_eq_true, if_false, repeatParams_length, h1, h2]
      rw [Nat.mul_div_cancel _ hk, Nat.mul_comm]
      simp


theorem joinRows_length {pts : List Point} {reps rows : List Row} (h : joinRows pts reps = .ok rows) :
    rows.length = pts.length := by
  unfold joinRows at h
  split at h
  · cases h; simp
  · split at h
    · rename_i heq; cases h; simp [heq]
    · cases h

theorem filterIdx_length_le {α} (f : Nat → Bool) (l : List α) : (filterIdx f l).length ≤ l.length := by
  unfold filterIdx
  simp only [List.length_map]
  exact Nat.le_trans (List.length_filter_le _ _) (by simp)

theorem accumLoop_length {α} (n : Nat) (prop : Nat → List α) (acc : Nat → Nat → Bool) :
    ∀ (fuel r : Nat) (h out : List α), accumLoop n prop acc fuel r h = some out → out.length = n := by
  intro fuel
  induction fuel with
  | zero => intro r h out e; simp [accumLoop] at e
  | succ f ih =>
    intro r h out e
    simp only [accumLoop] at e
    split at e
    · rename_i hle
      cases e
      simp only [List.length_take]
      omega
    · exact ih _ _ _ e

theorem single_length_max (ρ : Row) : max 1 (single ρ).length = 1 := by
  unfold single; split <;> simp

theorem forRow_length (o : Oracle) (d : Dom) (n : Nat) (ρ : Row) (hn : 0 < n) : (forRow o d n ρ).length = n := by
  simp [forRow, Dom.sample_length _ _ _ _ hn, single_length_max]

theorem lhsRow_length (o : Oracle) (d : Dom) (n : Nat) (ρ : Row) (hn : 0 < n) : (lhsRow o d n ρ).length = n := by
  unfold lhsRow
  have hle := filterIdx_length_le (o.acc 0) (forRow o d n ρ)
  rw [forRow_length o d n ρ hn] at hle
  simp only
  split
  · assumption
  · rename_i hne
    rw [List.length_append, forRow_length o d _ ρ (by omega)]
    omega

theorem tile_length {α} (k : Nat) (l : List α) : (tile k l).length = k * l.length := by
  induction k with
  | zero => simp [tile]
  | succ k ih =>
    simp only [tile, List.replicate_succ, List.flatten_cons, List.length_append] at ih ⊢
    rw [ih, Nat.add_mul, Nat.one_mul, Nat.add_comm]

theorem perRow_length (f : Row → Except Err (List Row)) (c : Nat) :
    ∀ (l : List Row) (rows : List Row), (∀ ρ ∈ l, ∀ r, f ρ = .ok r → r.length = c) →
      perRow f l = .ok rows → rows.length = l.length * c := by
  intro l
  induction l with
  | nil => intro rows _ h; simp [perRow] at h; cases h; simp
  | cons ρ rs ih =>
    intro rows hf h
    simp only [perRow] at h
    cases h1 : f ρ with
    | error e => simp [h1, bind, Except.bind] at h
    | ok r =>
      cases h2 : perRow f rs with
      | error e => simp [h1, h2, bind, Except.bind] at h
      | ok rest =>
        simp only [h1, h2, bind, Except.bind, pure, Except.pure] at h
        cases h
        rw [List.length_append, hf ρ (by simp) r h1, ih rest (fun a ha => hf a (by simp [ha])) h2,
          List.length_cons, Nat.add_mul, Nat.one_mul, Nat.add_comm]

theorem filterLoopRow_length (o : Oracle) (d : Dom) (n : Nat) (ρ : Row) (r : List Row)
    (h : filterLoopRow o d n ρ = .ok r) : r.length = n := by
  unfold filterLoopRow at h
  split at h
  · rename_i out e; cases h; exact accumLoop_length _ _ _ _ _ _ _ e
  · cases h

theorem gridFilterRow_length (o : Oracle) (d : Dom) (n : Nat) (ρ : Row) (r : List Row)
    (h : gridFilterRow o d n ρ = .ok r) : r.length = n := by
  unfold gridFilterRow at h
  simp only at h
  split at h
  · rename_i h1; cases h; exact h1
  · split at h
    · rename_i h2; cases h; exact h2
    · split at h
      · rename_i out e
        cases h
        have := accumLoop_length _ _ _ _ _ _ _ e
        simp only [List.length_take, List.length_append]
        omega
      · cases h

/-- every leaf sampler kind, with or without filter: exactly `n` rows per parameter row -/
theorem leafSample_length (o : Oracle) (kind : LeafKind) (d : Dom) (n : Nat) (filt : Bool) (ps rows : List Row)
    (hn : 0 < n) (h : leafSample o kind d n filt ps = .ok rows) : rows.length = n * max 1 ps.length := by
  have hflat : ∀ (f : Row → List Row), (∀ ρ, (f ρ).length = n) →
      ((rowsOr1 ps).flatMap f).length = n * max 1 ps.length := by
    intro f hf
    rw [length_flatMap_const _ _ n (fun a _ => hf a), rowsOr1_length, Nat.mul_comm]
  unfold leafSample at h
  split at h
  · rw [joinRows_length h, Dom.sample_length _ _ _ _ hn]
  · rw [perRow_length _ n _ _ (fun ρ _ r hr => filterLoopRow_length o d n ρ r hr) h, rowsOr1_length, Nat.mul_comm]
  · rw [perRow_length _ n _ _ (fun ρ _ r hr => filterLoopRow_length o d n ρ r hr) h, rowsOr1_length, Nat.mul_comm]
  · cases h; exact hflat _ (fun ρ => lhsRow_length o d n ρ hn)
  · split at h
    · cases h
    · split at h
      · cases h; exact hflat _ (fun ρ => forRow_length o d n ρ hn)
      · rw [joinRows_length h, tile_length, Dom.sample_length _ _ _ _ hn]
        simp [Nat.mul_comm]
  · split at h
    · cases h
    · rw [perRow_length _ n _ _ (fun ρ _ r hr => gridFilterRow_length o d n ρ r hr) h, rowsOr1_length, Nat.mul_comm]


/-- every requested count is at least one (`n_points >= 1`, non-empty data) -/
def S.pos : S → Prop
  | .leaf _ _ n _ => 0 < n
  | .data _ _ m => 0 < m
  | .prod a b => a.pos ∧ b.pos
  | .sum a b => a.pos ∧ b.pos
  | .append a b => a.pos ∧ b.pos
  | .static s => s.pos

theorem S.len_pos (s : S) (h : s.pos) : 0 < s.len := by
  induction s with
  | leaf k d n f => exact h
  | data v id m => exact h
  | prod a b iha ihb => exact Nat.mul_pos (iha h.1) (ihb h.2)
  | sum a b iha ihb => simp only [S.len]; have := iha h.1; omega
  | append a b iha ihb => exact iha h.1
  | static s ih => exact ih h

theorem dataSample_length (v : Var) (id m : Nat) (ps rows : List Row) (h : dataSample v id m ps = .ok rows) :
    rows.length = m * max 1 ps.length := by
  unfold dataSample at h
  simp only at h
  split at h
  · rename_i he; cases h
    have : ps = [] := by simpa using he
    simp [this]
  · rename_i he
    rw [joinRows_length h, tile_length]
    have : ps ≠ [] := by simpa using he
    have hk : 0 < ps.length := List.length_pos_iff.mpr this
    have : max 1 ps.length = ps.length := by omega
    simp [this, Nat.mul_comm]

theorem appendRows_length (pv : List Var) (ra rb rows : List Row) (h : appendRows pv ra rb = .ok rows) :
    rows.length = ra.length ∧ ra.length = rb.length := by
  unfold appendRows at h
  split at h
  · rename_i he; cases h; simp [he]
  · cases h

/-- product = feed the sample of the second factor to the first one as its parameters -/
theorem prod_rows (o : Oracle) (a b : S) (ps : List Row) :
    (S.prod a b).sample o ps = (b.sample o ps).bind (a.sample o) := by
  simp only [S.sample, bind]

/-- sum = concatenation of the two samples for the same parameters -/
theorem sum_rows (o : Oracle) (a b : S) (ps ra rb : List Row)
    (ha : a.sample o ps = .ok ra) (hb : b.sample o ps = .ok rb) :
    (S.sum a b).sample o ps = .ok (ra ++ rb) := by
  simp [S.sample, ha, hb, bind, Except.bind, pure, Except.pure]

/-- the core count claim: a sampler asked for `len` points returns exactly `len` rows without
    parameters and `len * k` rows for `k` parameter rows, for every composition, kind, filter verdict
    and Boolean-node choice -/
theorem rows_n (o : Oracle) (s : S) : ∀ (ps rows : List Row), s.pos → s.sample o ps = .ok rows →
    rows.length = s.len * max 1 ps.length := by
  induction s with
  | leaf k d n f => intro ps rows hp h; exact leafSample_length o k d n f ps rows hp h
  | data v id m => intro ps rows _ h; exact dataSample_length v id m ps rows h
  | prod a b iha ihb =>
    intro ps rows hp h
    rw [prod_rows] at h
    cases hb : b.sample o ps with
    | error e => simp [hb, Except.bind] at h
    | ok rb =>
      simp only [hb, Except.bind] at h
      have hlb := ihb ps rb hp.2 hb
      have hbpos : 0 < rb.length := by
        rw [hlb]; exact Nat.mul_pos (S.len_pos b hp.2) (by omega)
      rw [iha rb rows hp.1 h, hlb]
      have : max 1 (b.len * max 1 ps.length) = b.len * max 1 ps.length := by
        rw [← hlb]; omega
      rw [this, S.len, Nat.mul_assoc]
  | sum a b iha ihb =>
    intro ps rows hp h
    cases ha : a.sample o ps with
    | error e => simp [S.sample, ha, bind, Except.bind] at h
    | ok ra =>
      cases hb : b.sample o ps with
      | error e => simp [S.sample, ha, hb, bind, Except.bind] at h
      | ok rb =>
        rw [sum_rows o a b ps ra rb ha hb] at h
        cases h
        rw [List.length_append, iha ps ra hp.1 ha, ihb ps rb hp.2 hb, S.len, Nat.add_mul]
  | append a b iha ihb =>
    intro ps rows hp h
    cases ha : a.sample o ps with
    | error e => simp [S.sample, ha, bind, Except.bind] at h
    | ok ra =>
      cases hb : b.sample o ps with
      | error e => simp [S.sample, ha, hb, bind, Except.bind] at h
      | ok rb =>
        simp only [S.sample, ha, hb, bind, Except.bind] at h
        rw [(appendRows_length _ _ _ _ h).1, iha ps ra hp.1 ha, S.len]
  | static s ih => intro ps rows hp h; exact ih ps rows hp h

/-- `len(sampler)` (before any call) equals the number of rows a parameter-free call returns -/
theorem len_eq_rows (o : Oracle) (s : S) (rows : List Row) (hp : s.pos) (h : s.sample o [] = .ok rows) :
    s.len = rows.length := by
  rw [rows_n o s [] rows hp h]; simp

/-- append needs equally long samples, otherwise it is an error (never a silent truncation) -/
theorem append_unequal (o : Oracle) (a b : S) (ps ra rb : List Row)
    (ha : a.sample o ps = .ok ra) (hb : b.sample o ps = .ok rb) (hne : ra.length ≠ rb.length) :
    (S.append a b).sample o ps = .error .shape := by
  simp [S.sample, ha, hb, bind, Except.bind, appendRows, hne]

/-! ## which parameter row a row carries -/

theorem base_joinPt (c : Point) (ρ : Row) : (joinPt c ρ).base = ρ.base := by
  induction c with
  | nil => rfl
  | cons p c ih => simpa [joinPt, Row.base] using ih

theorem map_base_zipWith (pts : List Point) : ∀ (reps : List Row), pts.length = reps.length →
    (List.zipWith joinPt pts reps).map Row.base = reps.map Row.base := by
  induction pts with
  | nil => intro reps h; cases reps <;> simp_all
  | cons p pts ih =>
    intro reps h
    cases reps with
    | nil => simp at h
    | cons r reps =>
      simp only [List.zipWith_cons_cons, List.map_cons, base_joinPt]
      rw [ih reps (by simpa using h)]

theorem map_repeatParams (f : Row → Row) (ps : List Row) (n : Nat) :
    (repeatParams ps n).map f = repeatParams (ps.map f) n := by
  induction ps with
  | nil => simp [repeatParams]
  | cons p ps ih =>
    simp only [repeatParams, List.flatMap_cons, List.map_append, List.map_replicate, List.map_cons] at ih ⊢
    rw [ih]

/-- RandomUniformSampler with n points and k >= 1 parameter rows: the parameter row carried by the
    rows is `repeat_interleave(params, n)` -/
theorem rows_carry_partial_uniform (o : Oracle) (d : Dom) (n : Nat) (ps rows : List Row) (hk : ps ≠ []) (hn : 0 < n)
    (h : leafSample o .uniform d n false ps = .ok rows) :
    rows.map Row.base = repeatParams (ps.map Row.base) n := by
  simp only [leafSample, joinRows] at h
  split at h
  · rename_i he
    have : repeatParams ps n = [] := by simpa using he
    have hl := repeatParams_length ps n
    rw [this] at hl
    have : 0 < ps.length * n := Nat.mul_pos (List.length_pos_iff.mpr hk) hn
    simp at hl; omega
  · split at h
    · rename_i hl; cases h
      rw [map_base_zipWith _ _ hl, map_repeatParams]
    · cases h
/-- "rows i*n .. i*n+n-1 carry parameter row i unchanged" -/
theorem row_carries_partial_uniform (o : Oracle) (d : Dom) (n : Nat) (ps rows : List Row) (hn : 0 < n)
    (h : leafSample o .uniform d n false ps = .ok rows) (i j : Nat) (hi : i < ps.length) (hj : j < n) :
    (rows[i * n + j]?).map Row.base = (ps[i]?).map Row.base := by
  have hk : ps ≠ [] := by intro e; simp [e] at hi
  have hc := rows_carry_partial_uniform o d n ps rows hk hn h
  have := congrArg (fun l => l[i * n + j]?) hc
  simp only [List.getElem?_map] at this
  rw [this, repeatParams_getElem _ n i j (by simpa using hi) hj, List.getElem?_map]


/-- DataSampler with k >= 1 parameter rows: stored data tiled, parameters `repeat_interleave`d -/
theorem rows_carry_partial_data (v : Var) (id m : Nat) (ps rows : List Row) (hk : ps ≠ []) (hm : 0 < m)
    (h : dataSample v id m ps = .ok rows) : rows.map Row.base = repeatParams (ps.map Row.base) m := by
  have hne : ps.isEmpty = false := by cases ps <;> simp_all
  unfold dataSample at h
  simp only [hne, Bool.false_eq_true, if_false] at h
  unfold joinRows at h
  split at h
  · rename_i he
    have : repeatParams ps m = [] := by simpa using he
    have hl := repeatParams_length ps m
    rw [this] at hl
    have : 0 < ps.length * m := Nat.mul_pos (List.length_pos_iff.mpr hk) hm
    simp at hl; omega
  · split at h
    · rename_i hl; cases h
      rw [map_base_zipWith _ _ hl, map_repeatParams]
    · cases h

/-! ## non-vacuity and negative results -/

def o0 : Oracle := { choose := fun i => i % 2 == 0, acc := fun r i => (r + i) % 3 != 0, fuel := 8 }
def pT : List Row := [.ext 0 ["t"], .ext 1 ["t"], .ext 2 ["t"]]
def sEx : S := .prod (.leaf .uniform (.move (.prim "x" 1 ["t"]) 7 ["t"]) 4 true)
                     (.sum (.leaf .grid (.prim "s" 2 []) 3 false) (.data "s" 3 2))

/-- the hypotheses of `rows_n` are met by a composition with a filter loop that needs several rounds,
    a moving domain with n > k+1, a sum, a data sampler and three parameter rows: 4*(3+2)*3 rows -/
example : sEx.pos ∧ ∃ rows, sEx.sample o0 pT = .ok rows ∧ rows.length = 60 := by
  refine ⟨⟨Nat.zero_lt_succ _, Nat.zero_lt_succ _, Nat.zero_lt_succ _⟩, ?_⟩
  have h : (sEx.sample o0 pT).toOption.map List.length = some 60 := by decide +kernel
  cases hs : sEx.sample o0 pT with
  | error e => simp [hs, Except.toOption] at h
  | ok rows => exact ⟨rows, rfl, by simpa [hs, Except.toOption] using h⟩

example : (accumLoop 3 (fun r => [r, r + 10, r + 20]) (fun r i => (r + i) % 2 == 0) 5 0 []) = some [0, 20, 11] := by
  decide +kernel

/-- the pinned snapshot's Translate/Rotate.sample_random_uniform ("n = int(len/(k+1)), repeat n+1"):
    4 points for each of 2 parameter rows cannot be paired (the code raised a shape error) -/
theorem moveOld_shape_error_4_2 :
    moveSampleOld (fun _ => true) (.prim "x" 1 []) 7 4 [.ext 0 ["t"], .ext 1 ["t"]] = .error .shape := by
  decide +kernel

/-- ... while the code as it is now pairs them: 8 points -/
theorem move_length_4_2 :
    ((Dom.move (.prim "x" 1 []) 7 ["t"]).sample (fun _ => true) 4 [.ext 0 ["t"], .ext 1 ["t"]]).length = 8 := by
  decide +kernel

/-- the pinned snapshot's `n = 1` path of cut/intersection allocated `len(params)` rows:
    without parameters it returned no point at all, for every pair of operands -/
theorem boolN1Old_no_rows (o : Nat → Bool) (a b : Dom) : (boolSampleN1Old o a b []).length = 0 := by
  simp [boolSampleN1Old]

example : ∃ rows, leafSample o0 .uniform (.prim "x" 1 ["t"]) 3 false pT = .ok rows ∧
    (rows[1 * 3 + 2]?).map Row.base = some (.ext 1 ["t"]) := by
  refine ⟨_, rfl, ?_⟩
  decide +kernel

/-! ## full-strength statements that are not proved for every sampler expression

  `C02_full_carry` is proved below (`rows_carry`, `C02_full_carry_holds`).  `C02_full_pairing` is decided on every run for
  the real code by the correspondence and the oracles; as a theorem only `leafSample_paired_partial` exists.  Missing: the per-row-loop kinds (`perRow`,
  `flatMap forRow`) need the same carry lemma, and pairing needs reflexivity/monotonicity lemmas of
  `Row.sub` over the mutual `Row`/`Pt` types. -/

def S.sumFree : S → Bool
  | .leaf _ _ _ _ => true
  | .data _ _ _ => true
  | .prod a b => a.sumFree && b.sumFree
  | .sum _ _ => false
  | .append a b => a.sumFree && b.sumFree
  | .static s => s.sumFree

/-- rows `i*len .. (i+1)*len-1` of every sum-free sampler expression carry parameter row `i` -/
def C02_full_carry : Prop :=
  ∀ (o : Oracle) (s : S) (ps rows : List Row), s.pos → s.sumFree = true → ps ≠ [] →
    s.sample o ps = .ok rows → rows.map Row.base = repeatParams (ps.map Row.base) s.len

/-- every point of every returned row was made for (a part of) the row it is joined with -/
def C02_full_pairing : Prop :=
  ∀ (o : Oracle) (s : S) (ps rows : List Row), s.pos → (∀ ρ ∈ ps, ρ.paired = true) →
    s.sample o ps = .ok rows → ∀ r ∈ rows, r.paired = true

/-- the pairing statement holds on the composite example (3 parameter rows, 60 rows): evaluated, not proved in general -/
example : (match sEx.sample o0 pT with | .ok rows => rows.all Row.paired | .error _ => false) = true := by
  decide +kernel


/-! ## the carried parameter row, for every sum-free sampler expression -/


theorem filterIdx_mem {α} (f : Nat → Bool) (l : List α) (x : α) (h : x ∈ filterIdx f l) : x ∈ l := by
  unfold filterIdx at h
  simp only [List.mem_map, List.mem_filter] at h
  obtain ⟨⟨a, i⟩, ⟨hm, _⟩, rfl⟩ := h
  have := List.mem_zipIdx hm
  simp only [Nat.zero_le, Nat.zero_add, Nat.sub_zero, true_and] at this
  obtain ⟨hlt, he⟩ := this
  simp only
  rw [he]; exact List.getElem_mem _

theorem accumLoop_all {α} (P : α → Prop) (n : Nat) (prop : Nat → List α) (acc : Nat → Nat → Bool)
    (hp : ∀ r, ∀ x ∈ prop r, P x) :
    ∀ (fuel r : Nat) (h out : List α), (∀ x ∈ h, P x) → accumLoop n prop acc fuel r h = some out → ∀ x ∈ out, P x := by
  intro fuel
  induction fuel with
  | zero => intro r h out _ e; simp [accumLoop] at e
  | succ f ih =>
    intro r h out hh e
    simp only [accumLoop] at e
    have hall : ∀ x ∈ h ++ filterIdx (acc r) (prop r), P x := by
      intro x hx
      rcases List.mem_append.mp hx with hx | hx
      · exact hh x hx
      · exact hp r x (filterIdx_mem _ _ _ hx)
    split at e
    · cases e
      intro x hx
      exact hall x (List.mem_of_mem_take hx)
    · exact ih _ _ _ hall e

theorem map_base_replicate (r : List Row) (n : Nat) (b : Row) (hl : r.length = n) (hb : ∀ x ∈ r, x.base = b) :
    r.map Row.base = List.replicate n b := by
  rw [List.eq_replicate_iff]
  exact ⟨by simpa using hl, by intro y hy; obtain ⟨x, hx, rfl⟩ := List.mem_map.mp hy; exact hb x hx⟩

theorem forRow_base (o : Oracle) (d : Dom) (n : Nat) (ρ : Row) : ∀ x ∈ forRow o d n ρ, x.base = ρ.base := by
  intro x hx
  simp only [forRow, List.mem_map] at hx
  obtain ⟨c, _, rfl⟩ := hx
  exact base_joinPt c ρ

theorem filterLoopRow_base (o : Oracle) (d : Dom) (n : Nat) (ρ : Row) (r : List Row)
    (h : filterLoopRow o d n ρ = .ok r) : ∀ x ∈ r, x.base = ρ.base := by
  unfold filterLoopRow at h
  split at h
  · rename_i out e; cases h
    exact accumLoop_all (fun x => x.base = ρ.base) _ _ _ (fun _ => forRow_base o d n ρ) _ _ _ _ (by simp) e
  · cases h

theorem lhsRow_base (o : Oracle) (d : Dom) (n : Nat) (ρ : Row) : ∀ x ∈ lhsRow o d n ρ, x.base = ρ.base := by
  intro x hx
  unfold lhsRow at hx
  simp only at hx
  split at hx
  · exact forRow_base o d n ρ x (filterIdx_mem _ _ _ hx)
  · rcases List.mem_append.mp hx with hx | hx
    · exact forRow_base o d n ρ x (filterIdx_mem _ _ _ hx)
    · exact forRow_base o d _ ρ x hx

theorem gridFilterRow_base (o : Oracle) (d : Dom) (n : Nat) (ρ : Row) (r : List Row)
    (h : gridFilterRow o d n ρ = .ok r) : ∀ x ∈ r, x.base = ρ.base := by
  unfold gridFilterRow at h
  simp only at h
  split at h
  · cases h; intro x hx; exact forRow_base o d n ρ x (filterIdx_mem _ _ _ hx)
  · split at h
    · cases h; intro x hx; exact forRow_base o d _ ρ x (filterIdx_mem _ _ _ hx)
    · split at h
      · rename_i out e
        cases h
        intro x hx
        rcases List.mem_append.mp (List.mem_of_mem_take hx) with hx | hx
        · exact forRow_base o d _ ρ x (filterIdx_mem _ _ _ hx)
        · exact accumLoop_all (fun x => x.base = ρ.base) _ _ _ (fun _ => forRow_base o d n ρ) _ _ _ _ (by simp) e x hx
      · cases h

/-- a per-row loop whose body returns n rows carrying the row it was called for -/
theorem perRow_carry (f : Row → Except Err (List Row)) (n : Nat) :
    ∀ (l rows : List Row), (∀ ρ ∈ l, ∀ r, f ρ = .ok r → r.length = n ∧ ∀ x ∈ r, x.base = ρ.base) →
      perRow f l = .ok rows → rows.map Row.base = repeatParams (l.map Row.base) n := by
  intro l
  induction l with
  | nil => intro rows _ h; simp [perRow] at h; cases h; simp [repeatParams]
  | cons ρ rs ih =>
    intro rows hf h
    simp only [perRow] at h
    cases h1 : f ρ with
    | error e => simp [h1, bind, Except.bind] at h
    | ok r =>
      cases h2 : perRow f rs with
      | error e => simp [h1, h2, bind, Except.bind] at h
      | ok rest =>
        simp only [h1, h2, bind, Except.bind, pure, Except.pure] at h
        cases h
        have := hf ρ (by simp) r h1
        rw [List.map_append, map_base_replicate r n ρ.base this.1 this.2,
          ih rest (fun a ha => hf a (by simp [ha])) h2]
        simp [repeatParams]

theorem flatMap_carry (f : Row → List Row) (n : Nat) :
    ∀ (l : List Row), (∀ ρ ∈ l, (f ρ).length = n ∧ ∀ x ∈ f ρ, x.base = ρ.base) →
      (l.flatMap f).map Row.base = repeatParams (l.map Row.base) n := by
  intro l
  induction l with
  | nil => intro _; simp [repeatParams]
  | cons ρ rs ih =>
    intro hf
    have := hf ρ (by simp)
    rw [List.flatMap_cons, List.map_append, map_base_replicate _ n ρ.base this.1 this.2,
      ih (fun a ha => hf a (by simp [ha]))]
    simp [repeatParams]

theorem rowsOr1_ne (ps : List Row) (h : ps ≠ []) : rowsOr1 ps = ps := by
  cases ps <;> simp_all [rowsOr1]

/-- every leaf kind: rows i*n..i*n+n-1 carry parameter row i -/
theorem leafSample_carry (o : Oracle) (kind : LeafKind) (d : Dom) (n : Nat) (filt : Bool) (ps rows : List Row)
    (hn : 0 < n) (hk : ps ≠ []) (h : leafSample o kind d n filt ps = .ok rows) :
    rows.map Row.base = repeatParams (ps.map Row.base) n := by
  have hzip : ∀ (pts : List Point) (m : Nat), m = n → joinRows pts (repeatParams ps m) = .ok rows →
      rows.map Row.base = repeatParams (ps.map Row.base) n := by
    intro pts m hm hj
    subst hm
    unfold joinRows at hj
    split at hj
    · rename_i he
      have : repeatParams ps m = [] := by simpa using he
      have hl := repeatParams_length ps m
      rw [this] at hl
      have : 0 < ps.length * m := Nat.mul_pos (List.length_pos_iff.mpr hk) hn
      simp at hl; omega
    · split at hj
      · rename_i hl; cases hj
        rw [map_base_zipWith _ _ hl, map_repeatParams]
      · cases hj
  unfold leafSample at h
  rw [rowsOr1_ne ps hk] at h
  split at h
  · exact hzip _ n rfl h
  · exact perRow_carry _ n _ _ (fun ρ _ r hr => ⟨filterLoopRow_length o d n ρ r hr, filterLoopRow_base o d n ρ r hr⟩) h
  · exact perRow_carry _ n _ _ (fun ρ _ r hr => ⟨filterLoopRow_length o d n ρ r hr, filterLoopRow_base o d n ρ r hr⟩) h
  · cases h
    exact flatMap_carry _ n _ (fun ρ _ => ⟨lhsRow_length o d n ρ hn, lhsRow_base o d n ρ⟩)
  · split at h
    · cases h
    · split at h
      · cases h
        exact flatMap_carry _ n _ (fun ρ _ => ⟨forRow_length o d n ρ hn, forRow_base o d n ρ⟩)
      · exact hzip _ _ (by rw [Dom.sample_length _ _ _ _ hn]; simp) h
  · split at h
    · cases h
    · exact perRow_carry _ n _ _ (fun ρ _ r hr => ⟨gridFilterRow_length o d n ρ r hr, gridFilterRow_base o d n ρ r hr⟩) h


theorem replicate_flatMap_replicate {α} (m n : Nat) (p : α) :
    (List.replicate m p).flatMap (List.replicate n) = List.replicate (m * n) p := by
  induction m with
  | zero => simp
  | succ m ih =>
    rw [List.replicate_succ, List.flatMap_cons, ih, Nat.succ_mul, Nat.add_comm, ← List.replicate_append_replicate]

theorem repeatParams_repeatParams (P : List Row) (m n : Nat) :
    repeatParams (repeatParams P m) n = repeatParams P (m * n) := by
  induction P with
  | nil => simp [repeatParams]
  | cons p P ih =>
    simp only [repeatParams, List.flatMap_cons, List.flatMap_append] at ih ⊢
    rw [ih, replicate_flatMap_replicate]

theorem base_rest (pv : List Var) : ∀ r : Row, (r.rest pv).base = r.base
  | .nil => rfl
  | .ext _ _ => rfl
  | .cons p r => by
    simp only [Row.rest]
    split
    · simp only [Row.base]; exact base_rest pv r
    · simp only [Row.base]; exact base_rest pv r

theorem map_zipWith_left {α β γ δ} (f : α → β → γ) (g : γ → δ) (h : α → δ) (hg : ∀ a b, g (f a b) = h a) :
    ∀ (la : List α) (lb : List β), la.length = lb.length → (List.zipWith f la lb).map g = la.map h := by
  intro la
  induction la with
  | nil => intro lb _; simp
  | cons a la ih =>
    intro lb hl
    cases lb with
    | nil => simp at hl
    | cons b lb =>
      simp only [List.zipWith_cons_cons, List.map_cons, hg]
      rw [ih lb (by simpa using hl)]

theorem appendRows_carry (pv : List Var) (ra rb rows : List Row) (h : appendRows pv ra rb = .ok rows) :
    rows.map Row.base = ra.map Row.base := by
  unfold appendRows at h
  split at h
  · rename_i he; cases h
    exact map_zipWith_left _ _ _ (fun a b => by rw [base_joinPt, base_rest]) ra rb he
  · cases h

/-- **C02_full_carry as a theorem**: rows `i*len .. (i+1)*len-1` of every sum-free sampler expression carry
    parameter row `i` unchanged (the carried external row of a row is `Row.base`) -/
theorem rows_carry (o : Oracle) (s : S) : ∀ (ps rows : List Row), s.pos → s.sumFree = true → ps ≠ [] →
    s.sample o ps = .ok rows → rows.map Row.base = repeatParams (ps.map Row.base) s.len := by
  induction s with
  | leaf k d n f => intro ps rows hp _ hk h; exact leafSample_carry o k d n f ps rows hp hk h
  | data v id m => intro ps rows hp _ hk h; exact rows_carry_partial_data v id m ps rows hk hp h
  | prod a b iha ihb =>
    intro ps rows hp hs hk h
    simp only [S.sumFree, Bool.and_eq_true] at hs
    rw [prod_rows] at h
    cases hb : b.sample o ps with
    | error e => simp [hb, Except.bind] at h
    | ok rb =>
      simp only [hb, Except.bind] at h
      have hlb := rows_n o b ps rb hp.2 hb
      have hrb : rb ≠ [] := by
        intro e; rw [e] at hlb
        have : 0 < b.len * max 1 ps.length := Nat.mul_pos (S.len_pos b hp.2) (by omega)
        simp at hlb; omega
      rw [iha rb rows hp.1 hs.1 hrb h, ihb ps rb hp.2 hs.2 hk hb, repeatParams_repeatParams, S.len, Nat.mul_comm]
  | sum a b _ _ => intro ps rows _ hs; simp [S.sumFree] at hs
  | append a b iha ihb =>
    intro ps rows hp hs hk h
    simp only [S.sumFree, Bool.and_eq_true] at hs
    cases ha : a.sample o ps with
    | error e => simp [S.sample, ha, bind, Except.bind] at h
    | ok ra =>
      cases hb : b.sample o ps with
      | error e => simp [S.sample, ha, hb, bind, Except.bind] at h
      | ok rb =>
        simp only [S.sample, ha, hb, bind, Except.bind] at h
        rw [appendRows_carry _ _ _ _ h, iha ps ra hp.1 hs.1 hk ha, S.len]
  | static s ih => intro ps rows hp hs hk h; exact ih ps rows hp hs hk h

theorem C02_full_carry_holds : C02_full_carry := fun o s ps rows hp hs hk h => rows_carry o s ps rows hp hs hk h

/-- positional form: row `i*len + j` carries parameter row `i` -/
theorem row_carries (o : Oracle) (s : S) (ps rows : List Row) (hp : s.pos) (hs : s.sumFree = true)
    (h : s.sample o ps = .ok rows) (i j : Nat) (hi : i < ps.length) (hj : j < s.len) :
    (rows[i * s.len + j]?).map Row.base = (ps[i]?).map Row.base := by
  have hk : ps ≠ [] := by intro e; simp [e] at hi
  have hc := rows_carry o s ps rows hp hs hk h
  have := congrArg (fun l => l[i * s.len + j]?) hc
  simp only [List.getElem?_map] at this
  rw [this, repeatParams_getElem _ s.len i j (by simpa using hi) hj, List.getElem?_map]

/-! ## call histories of static samplers -/


/-- whatever a static sampler hands out in a history of calls is one of the samples its wrapped sampler
    produced in that history (in the call itself or in an earlier one) or the points it had saved before -/
theorem staticRun_mem (interval : Option Nat) :
    ∀ (freshs : List (List Row)) (st : Nat × Option (List Row)) (out : List Row),
      out ∈ staticRun interval st freshs → out ∈ freshs ∨ st.2 = some out := by
  intro freshs
  induction freshs with
  | nil => intro st out h; simp [staticRun] at h
  | cons f fs ih =>
    intro st out h
    simp only [staticRun, List.mem_cons] at h
    rcases h with h | h
    · -- the first call
      subst h
      cases hc : st.2 with
      | none => simp [staticStep, hc]
      | some pts =>
        by_cases hk : keepSaved interval (st.1 + 1) pts = true
        · right; simp [staticStep, hc, hk]
        · left; simp [staticStep, hc, hk]
    · rcases ih _ out h with h' | h'
      · left; simp [h']
      · cases hc : st.2 with
        | none => simp [staticStep, hc] at h'; left; simp [h']
        | some pts =>
          by_cases hk : keepSaved interval (st.1 + 1) pts = true
          · right; simpa [staticStep, hc, hk] using h'
          · left; simp [staticStep, hc, hk] at h'; simp [h']

/-- a property that every sample of the wrapped sampler has (row count, carried rows, pairing, the product
    structure …) holds for every output of every call history of the static sampler, for every resample interval -/
theorem static_history (interval : Option Nat) (P : List Row → Prop) (freshs : List (List Row))
    (hP : ∀ f ∈ freshs, P f) : ∀ out ∈ staticRun interval (0, none) freshs, P out := by
  intro out h
  rcases staticRun_mem interval freshs (0, none) out h with h | h
  · exact hP out h
  · simp at h

/-- `static(A) * B` over a history: in every call the result has `len(A) * (rows of B's sample)` rows, whether the
    static first factor resamples in that call or hands out saved points -/
theorem static_first_factor_history (o : Oracle) (a : S) (interval : Option Nat) (L : Nat) (hp : a.pos) (hL0 : 0 < L)
    (freshs : List (List Row))
    (hf : ∀ f ∈ freshs, ∃ rb : List Row, rb.length = L ∧ a.sample o rb = .ok f) :
    ∀ out ∈ staticRun interval (0, none) freshs, out.length = a.len * L := by
  apply static_history
  intro f hfm
  obtain ⟨rb, hl, hs⟩ := hf f hfm
  rw [rows_n o a rb f hp hs, hl]
  congr 1; omega

example : staticRun (some 2) (0, none) [[.ext 0 []], [.ext 1 []], [.ext 2 []], [.ext 3 []], [.ext 4 []]]
    = [[.ext 0 []], [.ext 0 []], [.ext 2 []], [.ext 2 []], [.ext 4 []]] := by decide +kernel

/-! ## negative result: the dependent ProductDomain of the pinned snapshot -/

theorem depLoopOld_length (o : Oracle) (b : Dom) (n : Nat) (ps : List Row) :
    ∀ (fuel r : Nat) (h out : List (Point × Row)), depLoopOld o b n ps fuel r h = some out → out.length = n := by
  intro fuel
  induction fuel with
  | zero => intro r h out e; simp [depLoopOld] at e
  | succ f ih =>
    intro r h out e
    simp only [depLoopOld] at e
    split at e
    · rename_i he; cases e; exact he
    · split at e
      · split at e
        · cases e
        · exact ih _ _ _ e
      · cases e
        simp only [List.length_take]; omega

/-- whenever the pinned dependent ProductDomain returned, it went on with `n` points of its second factor IN
    TOTAL, for every number of parameter rows -/
theorem depBPointsOld_length (o : Oracle) (b : Dom) (n : Nat) (ps : List Row) (out : List (Point × Row))
    (h : depBPointsOld o b n ps = some out) : out.length = n :=
  depLoopOld_length o b n ps _ _ _ _ h

/-- so with 3 parameter rows and n = 4 it returned 4 rows, not 12 — and all of them for parameter row 0 -/
theorem depProductOld_4_3 :
    (depBPointsOld { choose := fun _ => true, acc := fun _ _ => true, fuel := 3 } (.prim "t" 2 []) 4
        [.ext 0 ["D"], .ext 1 ["D"], .ext 2 ["D"]]).map (fun l => l.map (·.2))
      = some [.ext 0 ["D"], .ext 0 ["D"], .ext 0 ["D"], .ext 0 ["D"]] := by
  decide +kernel

/-- the repaired code: 12 points, 4 for each row -/
theorem depProduct_4_3 :
    ((Dom.prod (.prim "x" 1 ["t", "D"]) (.prim "t" 2 [])).sample (fun _ => true) 4
        [.ext 0 ["D"], .ext 1 ["D"], .ext 2 ["D"]]).length = 12 := by
  decide +kernel

/-! ## pairing (partial) -/


theorem sub_refl (g : Row) : g.sub g = true := by
  simp [Row.sub, List.all_eq_true]

theorem rowsOr1_single (ρ : Row) : rowsOr1 (single ρ) = [ρ] := by
  unfold single rowsOr1
  by_cases h : ρ = Row.nil <;> simp [h]

/-- the rows a per-row call produces on a primitive domain: the point was made for exactly that row -/
theorem forRow_prim_paired (o : Oracle) (v : Var) (id : Nat) (deps : List Var) (n : Nat) (ρ : Row) (hρ : ρ.paired = true) :
    ∀ x ∈ forRow o (.prim v id deps) n ρ, x.paired = true := by
  intro x hx
  simp only [forRow, Dom.sample, rowsOr1_single, List.flatMap_cons, List.flatMap_nil, List.append_nil,
    List.map_map, List.mem_map, List.mem_range] at hx
  obtain ⟨j, _, rfl⟩ := hx
  simp [joinPt, Row.paired, Pt.pairedTo, sub_refl, hρ]

theorem perRow_all (P : Row → Prop) (f : Row → Except Err (List Row)) :
    ∀ (l rows : List Row), (∀ ρ ∈ l, ∀ r, f ρ = .ok r → ∀ x ∈ r, P x) → perRow f l = .ok rows → ∀ x ∈ rows, P x := by
  intro l
  induction l with
  | nil => intro rows _ h; simp [perRow] at h; cases h; simp
  | cons ρ rs ih =>
    intro rows hf h
    simp only [perRow] at h
    cases h1 : f ρ with
    | error e => simp [h1, bind, Except.bind] at h
    | ok r =>
      cases h2 : perRow f rs with
      | error e => simp [h1, h2, bind, Except.bind] at h
      | ok rest =>
        simp only [h1, h2, bind, Except.bind, pure, Except.pure] at h
        cases h
        intro x hx
        rcases List.mem_append.mp hx with hx | hx
        · exact hf ρ (by simp) r h1 x hx
        · exact ih rest (fun a ha => hf a (by simp [ha])) h2 x hx

/-- partial pairing theorem: every leaf kind that works row by row (uniform with filter, Gaussian, LHS, grid /
    exponential interval on a parameter-dependent domain, grid with filter) on a primitive domain returns only
    rows whose point was made for the row it is joined with — for every verdict of the filter / membership test -/
theorem leafSample_paired_partial (o : Oracle) (kind : LeafKind) (v : Var) (id : Nat) (deps : List Var) (n : Nat)
    (filt : Bool) (ps rows : List Row) (hps : ∀ ρ ∈ ps, ρ.paired = true)
    (hkind : (kind = .uniform ∧ filt = true) ∨ kind = .gaussian ∨ kind = .lhs ∨
             (dependent (.prim v id deps) ps = true ∧ kind ≠ .uniform) ∨ (filt = true ∧ kind ≠ .uniform))
    (h : leafSample o kind (.prim v id deps) n filt ps = .ok rows) : ∀ x ∈ rows, x.paired = true := by
  have hr : ∀ ρ ∈ rowsOr1 ps, ρ.paired = true := by
    intro ρ hρ
    unfold rowsOr1 at hρ
    split at hρ
    · simp at hρ; subst hρ; rfl
    · exact hps ρ hρ
  have hfor : ∀ m, ∀ ρ ∈ rowsOr1 ps, ∀ x ∈ forRow o (.prim v id deps) m ρ, x.paired = true :=
    fun m ρ hρ => forRow_prim_paired o v id deps m ρ (hr ρ hρ)
  have hloop : ∀ ρ ∈ rowsOr1 ps, ∀ r, filterLoopRow o (.prim v id deps) n ρ = .ok r → ∀ x ∈ r, x.paired = true := by
    intro ρ hρ r hr'
    unfold filterLoopRow at hr'
    split at hr'
    · rename_i out e; cases hr'
      exact accumLoop_all (fun x => x.paired = true) _ _ _ (fun _ => hfor n ρ hρ) _ _ _ _ (by simp) e
    · cases hr'
  unfold leafSample at h
  split at h
  · simp at hkind
  · exact perRow_all _ _ _ _ hloop h
  · exact perRow_all _ _ _ _ hloop h
  · cases h
    intro x hx
    obtain ⟨ρ, hρ, hx⟩ := List.mem_flatMap.mp hx
    unfold lhsRow at hx
    simp only at hx
    split at hx
    · exact hfor n ρ hρ x (filterIdx_mem _ _ _ hx)
    · rcases List.mem_append.mp hx with hx | hx
      · exact hfor n ρ hρ x (filterIdx_mem _ _ _ hx)
      · exact hfor _ ρ hρ x hx
  · rename_i k hne1 hne2 hne3
    split at h
    · cases h
    · split at h
      · cases h
        intro x hx
        obtain ⟨ρ, hρ, hx⟩ := List.mem_flatMap.mp hx
        exact hfor n ρ hρ x hx
      · rename_i hdep
        rcases hkind with ⟨rfl, hf⟩ | rfl | rfl | ⟨hd, _⟩ | ⟨hf, _⟩
        · simp at hf
        · first | exact (hne2 _).elim | exact (hne2 rfl).elim | (exfalso; simp at hne2)
        · first | exact (hne3 rfl).elim | exact (hne3 _ rfl).elim | exact absurd rfl hne3
        · exact absurd hd hdep
        · simp at hf
  · split at h
    · cases h
    · refine perRow_all _ _ _ _ ?_ h
      intro ρ hρ r hr'
      unfold gridFilterRow at hr'
      simp only at hr'
      split at hr'
      · cases hr'; intro x hx; exact hfor n ρ hρ x (filterIdx_mem _ _ _ hx)
      · split at hr'
        · cases hr'; intro x hx; exact hfor _ ρ hρ x (filterIdx_mem _ _ _ hx)
        · split at hr'
          · rename_i out e
            cases hr'
            intro x hx
            rcases List.mem_append.mp (List.mem_of_mem_take hx) with hx | hx
            · exact hfor _ ρ hρ x (filterIdx_mem _ _ _ hx)
            · exact accumLoop_all (fun x => x.paired = true) _ _ _ (fun _ => hfor n ρ hρ) _ _ _ _ (by simp) e x hx
          · cases hr'

end TPV.Sampler
