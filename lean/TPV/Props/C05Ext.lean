/-
  C05 — property theorems for the constructors modelled in TPV/Model/GeomExtra.lean:
  `Point` and products with points, 3-D rotation, polyhedra assembled from convex bodies.
-/
import TPV.Model.GeomExtra
import TPV.Proofs.GeomLemmas
import Mathlib.Algebra.Order.Field.Rat
import Mathlib.Algebra.Order.AbsoluteValue.Basic
import Mathlib.Tactic.NormNum

namespace TPV.GeomX
open TPV.Geom
set_option linter.unusedSectionVars false
variable {K : Type} [Field K] [LinearOrder K] [IsStrictOrderedRing K]

/-! ### Point -/

theorem absK_eq_abs (a : K) : absK a = |a| := by
  unfold absK
  split
  · rename_i h; exact (abs_of_nonneg h).symm
  · rename_i h; exact (abs_of_neg (not_le.mp h)).symm

/-- `isclose` is the documented inequality -/
theorem isclose_iff (τ : Tol K) (x y : K) : isclose τ x y = true ↔ |x - y| ≤ τ.atol + τ.rtol * |y| := by
  simp only [isclose, le_iff, absK_eq_abs]

/-- the denotation of a point test: every coordinate within its tolerance -/
def Near (atol rtol : K) : List K → List K → Prop
  | [], [] => True
  | x :: xs, p :: ps => |x - p| ≤ atol + rtol * |p| ∧ Near atol rtol xs ps
  | _, _ => False

/-- **Point membership is the coordinate-wise tolerance test** (what is accepted is within
    `atol + rtol |pᵢ|` of the point in every coordinate; what is that near is accepted). -/
theorem closeAll_iff (atol rtol : K) : ∀ xs ps : List K, closeAll atol rtol xs ps = true ↔ Near atol rtol xs ps
  | [], [] => by simp [closeAll, Near]
  | [], _ :: _ => by simp [closeAll, Near]
  | _ :: _, [] => by simp [closeAll, Near]
  | x :: xs, p :: ps => by
    simp only [closeAll, Near, Bool.and_eq_true, isclose_iff, closeAll_iff atol rtol xs ps]

/-- the point itself is accepted, whatever the (non-negative) tolerances -/
theorem closeAll_self (atol rtol : K) (ha : 0 ≤ atol) (hr : 0 ≤ rtol) : ∀ ps : List K, closeAll atol rtol ps ps = true
  | [] => by simp [closeAll]
  | p :: ps => by
    rw [closeAll_iff]
    refine ⟨?_, (closeAll_iff atol rtol ps ps).1 (closeAll_self atol rtol ha hr ps)⟩
    simp only [sub_self, abs_zero]
    exact add_nonneg ha (mul_nonneg hr (abs_nonneg p))

/-- a query that differs from the point by more than the tolerance in some coordinate is rejected -/
theorem closeAll_far (atol rtol : K) (xs ps : List K) (i : Nat) (x p : K) (hx : xs[i]? = some x) (hp : ps[i]? = some p)
    (hfar : atol + rtol * |p| < |x - p|) : closeAll atol rtol xs ps = false := by
  rw [Bool.eq_false_iff]
  intro h
  rw [closeAll_iff] at h
  induction xs generalizing ps i with
  | nil => simp at hx
  | cons a xs ih =>
    cases ps with
    | nil => simp at hp
    | cons b ps =>
      cases i with
      | zero =>
        simp only [List.getElem?_cons_zero, Option.some.injEq] at hx hp
        subst hx hp
        exact absurd h.1 (not_le.mpr hfar)
      | succ j =>
        simp only [List.getElem?_cons_succ] at hx hp
        exact ih ps j hx hp h.2

/-- one truth value per row exactly when the row has the point's width -/
theorem pointContains_isSome (atol rtol : K) (v : String) (p : PFun K) (pts ρ : Env K) (x : K) (xs : List K) (q : K) (qs : List K)
    (hx : pts.get v = some (x :: xs)) (hq : p.f (pts ++ ρ) = q :: qs) (hl : xs.length = qs.length) :
    pointContains atol rtol v p pts ρ = some (closeAll atol rtol (x :: xs) (q :: qs)) := by
  simp [pointContains, hx, hq, hl]

/-- **product rule with points**: `Point × … × D` is the conjunction of the point tests and `D`'s test -/
theorem pprod_contains (τ : Tol K) (ps : List (String × PFun K × K)) (D : Dom K) (pts ρ : Env K) (a b : Bool)
    (ha : pointsContain τ.rtol pts ρ ps = some a) (hb : contains τ D pts ρ = some b) :
    PProd.contains τ ⟨ps, some D⟩ pts ρ = some (a && b) := by
  simp [PProd.contains, ha, hb]

theorem pprod_cons (rtol : K) (v : String) (p : PFun K) (a : K) (more : List (String × PFun K × K)) (pts ρ : Env K) (h t : Bool)
    (hh : pointContains a rtol v p pts ρ = some h) (ht : pointsContain rtol pts ρ more = some t) :
    pointsContain rtol pts ρ ((v, p, a) :: more) = some (h && t) := by
  simp [pointsContain, hh, ht]

/-- without point factors the product is the domain itself -/
theorem pprod_nil (τ : Tol K) (D : Dom K) (pts ρ : Env K) :
    PProd.contains τ ⟨[], some D⟩ pts ρ = contains τ D pts ρ := by
  simp only [PProd.contains, pointsContain]
  cases contains τ D pts ρ <;> simp

/-! ### rotation in three dimensions -/

/-- **Cramer's rule solves the system**: with `s = solve3 M q` and `det M ≠ 0`, `M s = q`, so the
    queried point is the image of the tested point under `s ↦ M (s − c) + c`. -/
theorem solve3_spec (m00 m01 m02 m10 m11 m12 m20 m21 m22 q0 q1 q2 : K)
    (hdet : det3 m00 m01 m02 m10 m11 m12 m20 m21 m22 ≠ 0) :
    let s := solve3 m00 m01 m02 m10 m11 m12 m20 m21 m22 q0 q1 q2
    m00 * s.1 + m01 * s.2.1 + m02 * s.2.2 = q0 ∧
    m10 * s.1 + m11 * s.2.1 + m12 * s.2.2 = q1 ∧
    m20 * s.1 + m21 * s.2.1 + m22 * s.2.2 = q2 := by
  simp only [solve3]
  have key : ∀ D a b c x y z : K, x * (a / D) + y * (b / D) + z * (c / D) = (x * a + y * b + z * c) / D := by
    intros; ring
  refine ⟨?_, ?_, ?_⟩ <;> rw [key, div_eq_iff hdet] <;> unfold det3 <;> ring

/-- the solution is unique: whatever `s` satisfies `M s = q` is what the algorithm tests -/
theorem solve3_unique (m00 m01 m02 m10 m11 m12 m20 m21 m22 q0 q1 q2 s0 s1 s2 : K)
    (hdet : det3 m00 m01 m02 m10 m11 m12 m20 m21 m22 ≠ 0)
    (e0 : m00 * s0 + m01 * s1 + m02 * s2 = q0) (e1 : m10 * s0 + m11 * s1 + m12 * s2 = q1)
    (e2 : m20 * s0 + m21 * s1 + m22 * s2 = q2) :
    solve3 m00 m01 m02 m10 m11 m12 m20 m21 m22 q0 q1 q2 = (s0, s1, s2) := by
  subst e0 e1 e2
  simp only [solve3, Prod.mk.injEq]
  unfold det3 at hdet ⊢
  refine ⟨?_, ?_, ?_⟩ <;> rw [div_eq_iff hdet] <;> ring

/-- **a rotated 3-D domain is the inverse image**: the test of `Rotate(D, M, c)` at `x = M (s − c) + c`
    is `D`'s test at `s` -/
theorem rot3_inverse_image (τ : Tol K) (onB : Bool) (v : String) (D : Dom K) (m c : PFun K) (pts ρ : Env K)
    (m00 m01 m02 m10 m11 m12 m20 m21 m22 cx cy cz s0 s1 s2 : K)
    (hm : m.f (pts ++ ρ) = [m00, m01, m02, m10, m11, m12, m20, m21, m22]) (hc : c.f (pts ++ ρ) = [cx, cy, cz])
    (hdet : det3 m00 m01 m02 m10 m11 m12 m20 m21 m22 ≠ 0)
    (hx : pts.get v = some [m00 * (s0 - cx) + m01 * (s1 - cy) + m02 * (s2 - cz) + cx,
                            m10 * (s0 - cx) + m11 * (s1 - cy) + m12 * (s2 - cz) + cy,
                            m20 * (s0 - cx) + m21 * (s1 - cy) + m22 * (s2 - cz) + cz]) :
    rot3Contains τ onB v D m c pts ρ =
      containsAux τ onB D [(v, [s0, s1, s2])] (pts.filter (fun b => b.1 != v) ++ ρ) := by
  simp only [rot3Contains, hx, hm, hc]
  rw [solve3_unique m00 m01 m02 m10 m11 m12 m20 m21 m22 _ _ _ (s0 - cx) (s1 - cy) (s2 - cz) hdet
    (by ring) (by ring) (by ring)]
  simp

/-! ### convex bodies -/

/-- `side` is affine in the query point -/
theorem side_affine (t : Tri K) (x y : V3 K) (l : K) :
    side t (l * x.1 + (1 - l) * y.1, l * x.2.1 + (1 - l) * y.2.1, l * x.2.2 + (1 - l) * y.2.2)
      = l * side t x + (1 - l) * side t y := by
  simp only [side, det3]; ring

/-- **a body given by its faces is convex** -/
theorem convexContains_convex (tris : List (Tri K)) (x y : V3 K) (l : K) (h0 : 0 ≤ l) (h1 : l ≤ 1)
    (hx : convexContains tris x = true) (hy : convexContains tris y = true) :
    convexContains tris (l * x.1 + (1 - l) * y.1, l * x.2.1 + (1 - l) * y.2.1, l * x.2.2 + (1 - l) * y.2.2) = true := by
  simp only [convexContains, List.all_eq_true, le_iff] at *
  intro t ht
  rw [side_affine]
  have a := hx t ht
  have b := hy t ht
  have : 0 ≤ 1 - l := by linarith
  nlinarith [mul_nonneg h0 (neg_nonneg.mpr a), mul_nonneg this (neg_nonneg.mpr b)]

/-- the twelve outward-wound triangles of the axis-parallel box `[l, u]` -/
def boxTris (l u : V3 K) : List (Tri K) :=
  let p := fun (i j k : Bool) => ((if i then u.1 else l.1), (if j then u.2.1 else l.2.1), (if k then u.2.2 else l.2.2))
  [ -- x = l.1 (normal −x)
    (p false false false, p false false true, p false true true), (p false false false, p false true true, p false true false),
    -- x = u.1 (normal +x)
    (p true false false, p true true false, p true true true), (p true false false, p true true true, p true false true),
    -- y = l.2.1 (normal −y)
    (p false false false, p true false false, p true false true), (p false false false, p true false true, p false false true),
    -- y = u.2.1 (normal +y)
    (p false true false, p false true true, p true true true), (p false true false, p true true true, p true true false),
    -- z = l.2.2 (normal −z)
    (p false false false, p false true false, p true true false), (p false false false, p true true false, p true false false),
    -- z = u.2.2 (normal +z)
    (p false false true, p true false true, p true true true), (p false false true, p true true true, p false true true) ]

/-- the twelve face tests of a box, in closed form -/
theorem box_sides (l1 l2 l3 u1 u2 u3 x1 x2 x3 : K) :
    (boxTris (l1, l2, l3) (u1, u2, u3)).map (fun t => side t (x1, x2, x3)) =
      [-((u2 - l2) * (u3 - l3)) * (x1 - l1), -((u2 - l2) * (u3 - l3)) * (x1 - l1),
       (u2 - l2) * (u3 - l3) * (x1 - u1), (u2 - l2) * (u3 - l3) * (x1 - u1),
       -((u1 - l1) * (u3 - l3)) * (x2 - l2), -((u1 - l1) * (u3 - l3)) * (x2 - l2),
       (u1 - l1) * (u3 - l3) * (x2 - u2), (u1 - l1) * (u3 - l3) * (x2 - u2),
       -((u1 - l1) * (u2 - l2)) * (x3 - l3), -((u1 - l1) * (u2 - l2)) * (x3 - l3),
       (u1 - l1) * (u2 - l2) * (x3 - u3), (u1 - l1) * (u2 - l2) * (x3 - u3)] := by
  simp only [boxTris, List.map, side, det3, if_true, if_false, Bool.false_eq_true, List.cons.injEq, and_true]
  refine ⟨?_, ?_, ?_, ?_, ?_, ?_, ?_, ?_, ?_, ?_, ?_, ?_⟩ <;> ring

/-- **the face test of a box is the coordinate test** -/
theorem box_contains_iff (l u x : V3 K) (h1 : l.1 < u.1) (h2 : l.2.1 < u.2.1) (h3 : l.2.2 < u.2.2) :
    convexContains (boxTris l u) x = true ↔
      (l.1 ≤ x.1 ∧ x.1 ≤ u.1) ∧ (l.2.1 ≤ x.2.1 ∧ x.2.1 ≤ u.2.1) ∧ (l.2.2 ≤ x.2.2 ∧ x.2.2 ≤ u.2.2) := by
  obtain ⟨l1, l2, l3⟩ := l
  obtain ⟨u1, u2, u3⟩ := u
  obtain ⟨x1, x2, x3⟩ := x
  simp only at h1 h2 h3
  have e23 : 0 < (u2 - l2) * (u3 - l3) := mul_pos (by linarith) (by linarith)
  have e13 : 0 < (u1 - l1) * (u3 - l3) := mul_pos (by linarith) (by linarith)
  have e12 : 0 < (u1 - l1) * (u2 - l2) := mul_pos (by linarith) (by linarith)
  have hneg : ∀ a y : K, 0 < a → (-a * y ≤ 0 ↔ 0 ≤ y) := fun a y ha => by
    rw [neg_mul, neg_nonpos]; exact mul_nonneg_iff_of_pos_left ha
  have hpos : ∀ a y : K, 0 < a → (a * y ≤ 0 ↔ y ≤ 0) := fun a y ha => by
    constructor
    · intro h; by_contra hc; exact absurd h (not_le.mpr (mul_pos ha (not_le.mp hc)))
    · intro h; exact mul_nonpos_of_nonneg_of_nonpos ha.le h
  have hall : convexContains (boxTris (l1, l2, l3) (u1, u2, u3)) (x1, x2, x3)
      = ((boxTris (l1, l2, l3) (u1, u2, u3)).map (fun t => side t (x1, x2, x3))).all (fun s => le s 0) := by
    simp [convexContains, List.all_map, Function.comp_def]
  rw [hall, box_sides]
  simp only [List.all_cons, List.all_nil, Bool.and_true, Bool.and_eq_true, le_iff, hneg _ _ e23, hneg _ _ e13,
    hneg _ _ e12, hpos _ _ e23, hpos _ _ e13, hpos _ _ e12, sub_nonneg, sub_nonpos]
  tauto

/-- an affine map `x ↦ A x + b` scales every face test by `det A`: a body and its image under a map of
    positive determinant are tested by the images of its faces (how the harness builds slanted bodies) -/
theorem side_image (a00 a01 a02 a10 a11 a12 a20 a21 a22 b0 b1 b2 : K) (t : Tri K) (x : V3 K) :
    let f : V3 K → V3 K := fun p => (a00 * p.1 + a01 * p.2.1 + a02 * p.2.2 + b0, a10 * p.1 + a11 * p.2.1 + a12 * p.2.2 + b1,
                                      a20 * p.1 + a21 * p.2.1 + a22 * p.2.2 + b2)
    side (f t.1, f t.2.1, f t.2.2) (f x) = det3 a00 a01 a02 a10 a11 a12 a20 a21 a22 * side t x := by
  simp only [side, det3]; ring

/-- **solid with cavities**: a point strictly inside a cavity is outside, a point of a solid that is in
    no cavity's interior is inside -/
theorem mesh_contains_iff (m : Mesh K) (x : V3 K) :
    m.contains x = true ↔ (∃ s ∈ m.solids, convexContains s x = true) ∧ ∀ c ∈ m.cavities, convexInterior c x = false := by
  simp only [Mesh.contains, Bool.and_eq_true, List.any_eq_true, Bool.not_eq_true', List.any_eq_false]
  constructor
  · rintro ⟨h, g⟩; exact ⟨h, fun c hc => by simpa using g c hc⟩
  · rintro ⟨h, g⟩; exact ⟨h, fun c hc => by simpa using g c hc⟩

/-! ### non-vacuity on concrete rational data -/

example : closeAll (1/1000 : Rat) (1/100000) [1, 2] [1 + 1/2000, 2] = true := by decide +kernel
example : closeAll (1/1000 : Rat) (1/100000) [1, 2] [1 + 1/500, 2] = false := by decide +kernel
example : convexContains (boxTris ((0, 0, 0) : V3 Rat) (1, 2, 3)) (1/2, 1, 3) = true := by decide +kernel
example : convexContains (boxTris ((0, 0, 0) : V3 Rat) (1, 2, 3)) (1/2, 1, 4) = false := by decide +kernel
example : (solve3 (1 : Rat) 2 0 0 1 0 0 0 1 5 1 2) = (3, 1, 2) := by decide +kernel

end TPV.GeomX
