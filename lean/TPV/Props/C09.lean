/-
  C09 — DeepONet output is the branch-trunk inner product; the fast trunk path is equivalent.
-/
import TPV.Model.DeepONet

namespace TPV.DeepONet

/-- the divisibility check of `finalize` rejects 3 neurons for 2 output components -/
theorem finalize_rejects_3_2 : finalizeOk 2 3 = false := by decide

end TPV.DeepONet
