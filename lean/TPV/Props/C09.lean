/-
  C09 — DeepONet output is the branch-trunk inner product; the fast trunk path is equivalent.

  Theorems about the executable model `TPV/Model/DeepONet.lean` (the same definitions the driver
  `drivers/C09.lean` runs against the implementation).  Scalars: any commutative ring for the algebraic
  statements (in particular `Rat`, the driver's exact instance), no structure at all for the purely
  structural ones (they hold for `Float` as well).

  Reading guide
  * contraction:      `out_spec`, `contract_shared`, `contract_unique`, `out_batch_independent`, `dot_eq_sum`
  * reshape:          `rechunk_flatten`, `reshapeFeat_rows`, `splitRow_get`, `splitRow_index_lt`, `splitRow_flatten`,
                      `branchFlatten_rows`, `reshapeFeatOld_mixes_rows` (negative result about the pinned snapshot)
  * branch variants:  `meshgrid_eq`, `functionSet_rows`, `collection_rows`, `branch_variants_agree`
  * fast trunk path:  `fastLinear_eq_plain`, `fastLinear_r2`, `fastNet_eq_plainNet`, `fastNet_r2`,
                      `forward_fast_eq_plain`, `forward_fast_eq_plain_r2` (all over per-layer activation LISTS),
                      `fcNet_three`, `fcNet_activation_order_matters`, `fastLinear_ne_plain_unshared` (the precondition is needed)
  * coded backward:   `vjp_input`, `vjp_weight`, `vjp_bias` (exact vector-Jacobian products of the affine layer),
                      `gradWeight_eq_plain`, `gradInput_adjoint` (second order)
  * histories:        `Hist.fb_holds`, `Hist.fb_frame`, `Hist.fix_holds`, `Hist.fix_frame`, `Hist.fb_draws`, `Hist.fb_shares_functions`, `Hist.history_last_fb`,
                      `Hist.stepOld_stale`, `Hist.stepOld_second_model_empty` (negative results about the pinned snapshot)
  Non-vacuity examples (concrete data meeting the hypotheses) are collected at the end of the file.
-/
import TPV.Model.DeepONet
import Mathlib.Algebra.BigOperators.Fin
import Mathlib.Tactic.Ring

set_option linter.unusedSectionVars false
set_option linter.unusedSimpArgs false
set_option linter.unusedVariables false

namespace TPV.DeepONet
open List

/-! ## branch input variants -/

section
variable {K : Type}

theorem zipWith_replicate_left {α β γ} (f : α → β → γ) (a : α) : ∀ (l : List β),
    List.zipWith f (List.replicate l.length a) l = l.map (f a)
  | [] => by simp
  | b :: l => by simp [List.replicate_succ, zipWith_replicate_left f a l]

theorem zipWith_replicate_right {α β γ} (f : α → β → γ) (b : β) : ∀ (l : List α),
    List.zipWith f l (List.replicate l.length b) = l.map (fun a => f a b)
  | [] => by simp
  | a :: l => by simp [List.replicate_succ, zipWith_replicate_right f b l]

/-- the meshgrid pairs parameter row `i` with discretisation point `j` -/
theorem meshgrid_eq (params pts : List (List K)) :
    meshgrid params pts = params.map (fun p => pts.map (fun x => p ++ x)) := by
  unfold meshgrid
  simp only []
  have h := zipWith_replicate_right (fun (ps : List (List K)) (xs : List (List K)) => List.zipWith (· ++ ·) ps xs) pts
    (params.map (fun p => List.replicate pts.length p))
  simp only [List.length_map] at h
  rw [h, List.map_map]
  apply List.map_congr_left
  intro p _
  simp only [Function.comp]
  exact zipWith_replicate_left (· ++ ·) p pts

/-- supplying a function set = supplying, function by function, the callable `x ↦ f (pᵢ ++ x)` -/
theorem functionSet_rows (f : List K → List K) (params pts : List (List K)) :
    batchOfFunctionSet f params pts = params.flatMap (fun p => batchOfCallable (fun x => f (p ++ x)) pts) := by
  unfold batchOfFunctionSet
  rw [meshgrid_eq]
  induction params with
  | nil => simp
  | cons p ps ih => simp [batchOfCallable, List.flatMap_cons, List.map_map, Function.comp_def] at ih ⊢; exact ih

theorem foldl_append_aux {α β} (g : α → List β) : ∀ (l : List α) (acc : List β),
    l.foldl (fun acc s => acc ++ g s) acc = acc ++ l.flatMap g
  | [], acc => by simp
  | a :: l, acc => by simp [foldl_append_aux g l, List.flatMap_cons, List.append_assoc]

/-- a collection of function sets presents the functions of its members one after the other -/
theorem collection_rows (sets : List ((List K → List K) × List (List K))) (pts : List (List K)) :
    batchOfCollection sets pts = sets.flatMap (fun s => batchOfFunctionSet s.1 s.2 pts) := by
  unfold batchOfCollection
  rw [foldl_append_aux]; simp

/-- callable, rank-2 tensor/Points of its values, rank-3 tensor/Points of its values, and the function
    set with the single parameter row `p`: one and the same batch -/
theorem branch_variants_agree (f : List K → List K) (p : List K) (pts : List (List K)) :
    let fp := fun x => f (p ++ x)
    batchOfTensor2 (pts.map fp) = batchOfCallable fp pts ∧
    batchOfTensor3 [pts.map fp] = batchOfCallable fp pts ∧
    batchOfFunctionSet f [p] pts = batchOfCallable fp pts := by
  refine ⟨rfl, rfl, ?_⟩
  rw [functionSet_rows]; simp

end

/-! ## the contraction of `DeepONet.forward` -/

section
variable {K : Type} [Add K] [Mul K] [OfNat K 0]

/-- shared trunk input (one copy): the output is, for every function and every location, `outAt` -/
theorem contract_shared (t0 : List (List (List K))) (br : List (List (List K))) :
    contract [t0] br = .ok (br.map (fun bi => t0.map (fun tj => outAt tj bi))) := by
  unfold contract
  split
  · rename_i h
    match br, h with
    | [b0], _ => simp [outRow]
  · simp [outRow]

/-- one trunk batch per function -/
theorem contract_unique (tr : List (List (List (List K)))) (br : List (List (List K)))
    (h : tr.length = br.length) :
    contract tr br = .ok (List.zipWith (fun ti bi => ti.map (fun tj => outAt tj bi)) tr br) := by
  unfold contract
  simp [h, outRow]
  rfl

/-- index form: the entry for function `i`, location `j` -/
theorem contract_shared_get (t0 : List (List (List K))) (br : List (List (List K)))
    (i j : Nat) (hi : i < br.length) (hj : j < t0.length) :
    ∃ out, contract [t0] br = .ok out ∧ ∃ (hi' : i < out.length) (hj' : j < out[i].length),
      out[i][j] = outAt t0[j] br[i] := by
  refine ⟨_, contract_shared t0 br, by simpa using hi, by simpa using hj, by simp⟩

/-- batch independence: the output for (function i, location j) is what the DeepONet returns for
    that function alone at that location alone -/
theorem out_batch_independent (t0 : List (List (List K))) (br : List (List (List K)))
    (i j : Nat) (hi : i < br.length) (hj : j < t0.length) :
    contract [[t0[j]]] [br[i]] = .ok [[outAt t0[j] br[i]]] := by
  rw [contract_shared]; rfl

theorem outAt_get (tj bi : List (List K)) (c : Nat) (h1 : c < tj.length) (h2 : c < bi.length) :
    (outAt tj bi)[c]'(by simp [outAt]; omega) = dot tj[c] bi[c] := by
  simp [outAt]

end

/-! ## reshapes -/

section
variable {K : Type}

theorem chunkN_succ (k n : Nat) (r : List K) (l : List K) (hr : r.length = k) :
    chunkN k (n + 1) (r ++ l) = r :: chunkN k n l := by
  simp only [chunkN, List.range_succ_eq_map, List.map_cons, List.map_map]
  congr 1
  · simp [hr]
  · apply List.map_congr_left
    intro c _
    simp only [Function.comp]
    have : (c + 1) * k = r.length + c * k := by rw [hr, Nat.add_mul, Nat.one_mul, Nat.add_comm]
    rw [this, ← List.drop_drop]
    simp

/-- cutting the concatenation of rows of length `k` into chunks of length `k` gives the rows back -/
theorem chunkN_flatten (k : Nat) : ∀ rows : List (List K), (∀ r ∈ rows, r.length = k) →
    chunkN k rows.length rows.flatten = rows
  | [], _ => by simp [chunkN]
  | r :: rows, h => by
    have hr : r.length = k := h r (by simp)
    have ih := chunkN_flatten k rows (fun r' hr' => h r' (by simp [hr']))
    simp only [List.flatten_cons, List.length_cons]
    rw [chunkN_succ k rows.length r rows.flatten hr, ih]

theorem length_flatten_uniform (k : Nat) : ∀ rows : List (List K), (∀ r ∈ rows, r.length = k) →
    rows.flatten.length = rows.length * k
  | [], _ => by simp
  | r :: rows, h => by
    have hr : r.length = k := h r (by simp)
    have ih := length_flatten_uniform k rows (fun r' hr' => h r' (by simp [hr']))
    simp [ih, hr, Nat.add_mul, Nat.add_comm]

/-- `reshape(-1, k)` of a matrix whose rows already have length `k` respects the rows -/
theorem rechunk_flatten (k : Nat) (hk : 0 < k) (rows : List (List K)) (h : ∀ r ∈ rows, r.length = k) :
    rechunk rows.flatten k = .ok rows := by
  unfold rechunk
  have hl := length_flatten_uniform k rows h
  have h1 : k ≠ 0 := by omega
  have h2 : rows.flatten.length % k = 0 := by rw [hl]; exact Nat.mul_mod_left _ _
  have h3 : rows.flatten.length / k = rows.length := by rw [hl]; exact Nat.mul_div_cancel _ hk
  simp only [h1, if_false, h2, ne_eq, not_true_eq_false, h3]
  rw [chunkN_flatten k rows h]

theorem chunkN_flatten_self (k : Nat) : ∀ (cnt : Nat) (l : List K), l.length = cnt * k →
    (chunkN k cnt l).flatten = l
  | 0, l, h => by
    have : l = [] := List.eq_nil_of_length_eq_zero (by simpa using h)
    simp [chunkN, this]
  | n + 1, l, h => by
    have hk : k ≤ l.length := by rw [h, Nat.add_mul, Nat.one_mul]; omega
    have ht : (l.take k).length = k := by simp [hk]
    have hd : (l.drop k).length = n * k := by
      simp only [List.length_drop, h, Nat.add_mul, Nat.one_mul]; omega
    conv => lhs; rw [← List.take_append_drop k l]
    rw [chunkN_succ k n _ _ ht, List.flatten_cons, chunkN_flatten_self k n _ hd, List.take_append_drop]

/-- every feature is used exactly once and in order: flattening the split row gives the row back -/
theorem splitRow_flatten (d neurons : Nat) (row : List K) (hlen : row.length = neurons) (hdvd : neurons % d = 0) :
    (splitRow d neurons row).flatten = row := by
  have hdm : d * (neurons / d) = neurons := Nat.mul_div_cancel' (Nat.dvd_of_mod_eq_zero hdvd)
  exact chunkN_flatten_self (neurons / d) d row (by rw [hlen, hdm])

theorem splitRow_index_lt (d neurons c k : Nat) (hc : c < d) (hk : k < neurons / d) (hdvd : neurons % d = 0) :
    c * (neurons / d) + k < neurons := by
  have hdm : d * (neurons / d) = neurons := Nat.mul_div_cancel' (Nat.dvd_of_mod_eq_zero hdvd)
  calc c * (neurons / d) + k < c * (neurons / d) + neurons / d := by omega
    _ = (c + 1) * (neurons / d) := by rw [Nat.add_mul, Nat.one_mul]
    _ ≤ d * (neurons / d) := Nat.mul_le_mul_right _ hc
    _ = neurons := hdm


/-- `FCBranchNet.forward`: when every function is discretised by `inputDim` values the flattening
    keeps one row per function -/
theorem branchFlatten_rows (inputDim : Nat) (hk : 0 < inputDim) (batch : List (List (List K)))
    (h : ∀ fn ∈ batch, fn.flatten.length = inputDim) :
    branchFlatten batch inputDim = .ok (batch.map List.flatten) := by
  unfold branchFlatten
  apply rechunk_flatten inputDim hk
  intro r hr
  obtain ⟨fn, hfn, rfl⟩ := List.mem_map.1 hr
  exact h fn hfn

/-- with a wrong number of discretisation points the flat re-cut invents functions (mirrors the code) -/
example : branchFlatten [[[1],[2],[3],[4]]] 2 = (.ok [[1,2],[3,4]] : Except String (List (List Nat))) := by decide

/-- after `finalize` accepted the sizes, the reshape of a feature matrix splits every row on its own:
    no feature of one function/location ever reaches another one -/
theorem reshapeFeat_rows (d neurons : Nat) (hf : finalizeOk d neurons = true) (hn : 0 < neurons)
    (rows : List (List K)) (h : ∀ r ∈ rows, r.length = neurons) :
    reshapeFeat d neurons rows = .ok (rows.map (splitRow d neurons)) := by
  simp only [finalizeOk, Bool.and_eq_true, bne_iff_ne, ne_eq, decide_eq_true_eq] at hf
  have hdm : d * (neurons / d) = neurons := Nat.mul_div_cancel' (Nat.dvd_of_mod_eq_zero hf.2)
  unfold reshapeFeat
  have : finalizeOk d neurons = true := by simp [finalizeOk, hf]
  simp only [this, Bool.not_true, Bool.false_eq_true, if_false, hdm]
  rw [rechunk_flatten neurons hn rows h]
  rfl

/-- the index map of the reshape: entry `(c, k)` of the split row is feature `c * (neurons/d) + k`
    (an index inside the row by `splitRow_index_lt`) -/
theorem splitRow_get (d neurons : Nat) (row : List K) (c k : Nat) (hc : c < d) (hk : k < neurons / d) :
    ((splitRow d neurons row)[c]?.bind (·[k]?)) = row[c * (neurons / d) + k]? := by
  simp only [splitRow, chunkN]
  rw [List.getElem?_map, List.getElem?_range hc]
  simp only [Option.map_some, Option.bind_some]
  rw [List.getElem?_take_of_lt hk, List.getElem?_drop]

end

/-- with one location set per function the trunk copy of function `i` must be used for row `i`: taking
    the first copy for every function (a "shared trunk input" shortcut) gives a different answer as soon as
    the copies differ — here function 1 at its own location gives 2, with the first copy it would be 1 -/
theorem contract_unique_not_first_copy :
    contract (K := Int) [[[[1]]], [[[2]]]] [[[1]], [[1]]] = .ok [[[1]], [[2]]] ∧
    contract (K := Int) [[[[1]]]] [[[1]], [[1]]] = .ok [[[1]], [[1]]] := by
  decide

/-- NEGATIVE result about the pinned snapshot (before the repair `5a45fb8` in /repo): with 3 neurons
    and 2 output components the reshape `reshape(-1, 2, int(3/2))` turns the feature rows of TWO
    functions into THREE rows; the second one mixes features of function 0 and function 1. -/
theorem reshapeFeatOld_mixes_rows :
    reshapeFeatOld 2 3 [[1, 2, 3], [4, 5, 6]] =
      (.ok [[[1], [2]], [[3], [4]], [[5], [6]]] : Except String (List (List (List Nat)))) := by decide

/-- after the repair the same sizes are rejected -/
theorem reshapeFeat_rejects_nondivisible :
    reshapeFeat 2 3 [[1, 2, 3], [4, 5, 6]] = (.error "err:neurons" : Except String (List (List (List Nat)))) := by
  decide

/-! ## the fast trunk path -/

section
variable {K : Type} [Add K] [Mul K] [OfNat K 0]

/-- one fast layer on `n+1` copies of one input = the plain layer on these copies -/
theorem fastLinear_eq_plain (L : Layer K) (n : Nat) (x : List (List K)) :
    fastLinear L (.r3 (List.replicate (n + 1) x)) = plainLinear L (.r3 (List.replicate (n + 1) x)) := by
  simp [fastLinear, plainLinear, T23.map, List.replicate_succ, List.map_replicate]

/-- a rank-2 input is answered like the plain layer answers the input with a leading axis of length 1 -/
theorem fastLinear_r2 (L : Layer K) (x : List (List K)) :
    fastLinear L (.r2 x) = plainLinear L (.r3 [x]) := by
  simp [fastLinear, plainLinear, T23.map]

/-- the whole fast trunk network equals the plain network with the same weights on a shared input:
    any depth, any widths, and ANY LIST of per-layer activations (`acts[i]` follows hidden layer `i`;
    the statement quantifies over the list, so the layers may all use different activations; a list
    that is too short makes both builders fail alike) -/
theorem fastNet_eq_plainNet : ∀ (acts : List (K → K)) (layers : List (Layer K)) (n : Nat) (x : List (List K)),
    fcNet fastLinear acts layers (.r3 (List.replicate (n + 1) x)) =
    fcNet plainLinear acts layers (.r3 (List.replicate (n + 1) x))
  | _, [], _, _ => by simp [fcNet]
  | _, [l], n, x => by simp only [fcNet]; exact fastLinear_eq_plain l n x
  | [], _ :: _ :: _, _, _ => by simp [fcNet]
  | a :: acts, l :: l' :: ls, n, x => by
    simp only [fcNet]
    rw [fastLinear_eq_plain]
    simp only [plainLinear, T23.map, List.map_replicate, bind, Except.bind]
    exact fastNet_eq_plainNet acts (l' :: ls) n _

theorem fastNet_r2 : ∀ (acts : List (K → K)) (layers : List (Layer K)) (x : List (List K)),
    fcNet fastLinear acts layers (.r2 x) = fcNet plainLinear acts layers (.r3 [x])
  | _, [], _ => by simp [fcNet]
  | _, [l], x => by simp only [fcNet]; exact fastLinear_r2 l x
  | [], _ :: _ :: _, _ => by simp [fcNet]
  | a :: acts, l :: l' :: ls, x => by
    simp only [fcNet]
    rw [fastLinear_r2]
    simp only [plainLinear, T23.map, List.map_cons, List.map_nil, bind, Except.bind]
    exact fastNet_eq_plainNet acts (l' :: ls) 0 _

/-- consequently the whole DeepONet with the fast trunk equals the one with the plain trunk
    (per-layer activation lists `tacts` of the trunk and `bacts` of the branch) -/
theorem forward_fast_eq_plain (tacts bacts : List (K → K)) (d neurons : Nat) (trunk branch : List (Layer K))
    (inputDim : Nat) (n : Nat) (x : List (List K)) (fb : List (List (List K))) :
    forward true tacts bacts d neurons trunk branch inputDim (.r3 (List.replicate (n + 1) x)) fb =
    forward false tacts bacts d neurons trunk branch inputDim (.r3 (List.replicate (n + 1) x)) fb := by
  simp only [forward, if_true, Bool.false_eq_true, if_false, fastNet_eq_plainNet]

/-- which activation follows which layer: three layers, `a₀` after the first, `a₁` after the second,
    none after the last (the order `construct_FC_trunk_layers` and `_construct_FC_layers` must both produce) -/
theorem fcNet_three (lin : Layer K → T23 K → Except String (T23 K)) (a0 a1 : K → K) (l0 l1 l2 : Layer K) (x : T23 K) :
    fcNet lin [a0, a1] [l0, l1, l2] x =
      (do let y0 ← lin l0 x; let y1 ← lin l1 (y0.map (·.map a0)); lin l2 (y1.map (·.map a1))) := by
  simp only [fcNet]

end

/-- the order of the activations matters: the same weights with the activation list `[a₀, a₀]`
    (what an off-by-one in the fast builder would produce) give a different network than `[a₀, a₁]` -/
theorem fcNet_activation_order_matters :
    fcNet (K := Int) plainLinear [(· * 2), (· + 1)] [⟨[[1]], none⟩, ⟨[[1]], none⟩, ⟨[[1]], none⟩] (.r2 [[3]]) = .ok (.r2 [[7]]) ∧
    fcNet (K := Int) plainLinear [(· * 2), (· * 2)] [⟨[[1]], none⟩, ⟨[[1]], none⟩, ⟨[[1]], none⟩] (.r2 [[3]]) = .ok (.r2 [[12]]) := by
  constructor <;> rfl

/-- the precondition is needed: on copies that differ the fast layer answers with the first copy -/
theorem fastLinear_ne_plain_unshared :
    fastLinear (K := Int) ⟨[[1]], none⟩ (.r3 [[[1]], [[2]]]) = .ok (.r3 [[[1]], [[1]]]) ∧
    plainLinear (K := Int) ⟨[[1]], none⟩ (.r3 [[[1]], [[2]]]) = .ok (.r3 [[[1]], [[2]]]) := by
  constructor <;> rfl


/-! ### rank-2 trunk input: the whole DeepONet -/

section
variable {K : Type} [Add K] [Mul K] [OfNat K 0]

/-- add a leading axis of length 1 -/
def unsq : T23 K → T23 K
  | .r2 y => .r3 [y]
  | .r3 y => .r3 y

theorem plainNet_unsq : ∀ (acts : List (K → K)) (layers : List (Layer K)) (x : List (List K)),
    fcNet plainLinear acts layers (.r3 [x]) = (fcNet plainLinear acts layers (.r2 x)).map unsq
  | _, [], _ => by simp [fcNet, Except.map]
  | _, [l], x => by simp [fcNet, plainLinear, T23.map, Except.map, unsq]
  | [], _ :: _ :: _, _ => by simp [fcNet, Except.map]
  | a :: acts, l :: l' :: ls, x => by
    simp only [fcNet, plainLinear, T23.map, List.map_cons, List.map_nil, bind, Except.bind]
    exact plainNet_unsq acts (l' :: ls) _

/-- length of one output row of a layer whose bias (if any) is as long as the weight has rows -/
theorem affineRow_length (L : Layer K) (hb : ∀ b, L.b = some b → b.length = L.W.length) (x : List K) :
    (affineRow L x).length = L.W.length := by
  cases L with
  | mk W b =>
    cases b with
    | none => simp [affineRow]
    | some b => simp [affineRow, vadd, hb b rfl]

/-- all rows of the output of a plain network have the width of the last layer -/
theorem plainNet_rows (n : Nat) : ∀ (acts : List (K → K)) (layers : List (Layer K)) (x y : List (List K)),
    (∀ l ∈ layers.getLast?, l.W.length = n ∧ ∀ b, l.b = some b → b.length = l.W.length) →
    fcNet plainLinear acts layers (.r2 x) = .ok (.r2 y) → ∀ r ∈ y, r.length = n
  | _, [], _, _, _, h => by simp [fcNet] at h
  | _, [l], x, y, hl, h => by
    simp only [fcNet, plainLinear, T23.map, Except.ok.injEq, T23.r2.injEq] at h
    subst h
    intro r hr
    obtain ⟨xr, _, rfl⟩ := List.mem_map.1 hr
    have := hl l (by simp)
    rw [affineRow_length l this.2, this.1]
  | [], _ :: _ :: _, _, _, _, h => by simp [fcNet] at h
  | a :: acts, l :: l' :: ls, x, y, hl, h => by
    simp only [fcNet, plainLinear, T23.map, bind, Except.bind] at h
    exact plainNet_rows n acts (l' :: ls) _ y (by simpa using hl) h

theorem plainNet_r2_shape : ∀ (acts : List (K → K)) (layers : List (Layer K)) (x : List (List K)),
    (∃ y, fcNet plainLinear acts layers (.r2 x) = .ok (.r2 y)) ∨ (∃ e, fcNet plainLinear acts layers (.r2 x) = .error e)
  | _, [], _ => by simp [fcNet]
  | _, [l], x => by simp [fcNet, plainLinear, T23.map]
  | [], _ :: _ :: _, _ => by simp [fcNet]
  | a :: acts, l :: l' :: ls, x => by
    simp only [fcNet, plainLinear, T23.map, bind, Except.bind]
    exact plainNet_r2_shape acts (l' :: ls) _


theorem trunkReshape_unsq (d neurons : Nat) (hf : finalizeOk d neurons = true) (hn : 0 < neurons)
    (y : List (List K)) (hy : ∀ r ∈ y, r.length = neurons) :
    trunkReshape d neurons (.r3 [y]) = trunkReshape d neurons (.r2 y) := by
  have hf' := hf
  simp only [finalizeOk, Bool.and_eq_true, bne_iff_ne, ne_eq, decide_eq_true_eq] at hf'
  have hdm : d * (neurons / d) = neurons := Nat.mul_div_cancel' (Nat.dvd_of_mod_eq_zero hf'.2)
  have hall : ([y].all (·.all (fun row => decide (row.length = d * (neurons / d))))) = true := by
    simp only [List.all_cons, List.all_nil, Bool.and_true, List.all_eq_true, decide_eq_true_eq, hdm]
    exact hy
  simp only [trunkReshape, hf, Bool.not_true, Bool.false_eq_true, if_false, hall, if_true,
    reshapeFeat_rows d neurons hf hn y hy, bind, Except.bind, pure, Except.pure, List.map_cons, List.map_nil]

/-- the whole DeepONet on a rank-2 trunk input (the usual `(locations, dim)` batch): fast trunk = plain
    trunk, for every architecture whose last trunk layer produces `neurons` features -/
theorem forward_fast_eq_plain_r2 (tacts bacts : List (K → K)) (d neurons : Nat) (trunk branch : List (Layer K))
    (inputDim : Nat) (x : List (List K)) (fb : List (List (List K)))
    (hf : finalizeOk d neurons = true) (hn : 0 < neurons)
    (hl : ∀ l ∈ trunk.getLast?, l.W.length = neurons ∧ ∀ b, l.b = some b → b.length = l.W.length) :
    forward true tacts bacts d neurons trunk branch inputDim (.r2 x) fb =
    forward false tacts bacts d neurons trunk branch inputDim (.r2 x) fb := by
  unfold forward
  simp only [if_true, Bool.false_eq_true, if_false]
  refine bind_congr fun bin => bind_congr fun bout => ?_
  cases bout with
  | r3 _ => rfl
  | r2 rows =>
    refine bind_congr fun bfeat => ?_
    rw [fastNet_r2, plainNet_unsq]
    rcases plainNet_r2_shape tacts trunk x with ⟨y, hy⟩ | ⟨e, he⟩
    · rw [hy]
      simp only [Except.map, bind, Except.bind, unsq]
      rw [trunkReshape_unsq d neurons hf hn y (plainNet_rows neurons tacts trunk x y hl hy)]
    · rw [he]; rfl

end

/-! ## algebra: inner products, the coded backward is the exact VJP -/

section
variable {K : Type} [CommRing K]

theorem dot_nil_left (b : List K) : dot ([] : List K) b = 0 := by simp [dot, sumL]
theorem dot_nil_right (a : List K) : dot a ([] : List K) = 0 := by simp [dot, sumL]
theorem dot_cons (x y : K) (a b : List K) : dot (x :: a) (y :: b) = x * y + dot a b := by
  simp [dot, sumL]

theorem sumL_nil : sumL ([] : List K) = 0 := rfl
theorem sumL_cons (a : K) (l : List K) : sumL (a :: l) = a + sumL l := rfl

theorem dot_comm : ∀ (a b : List K), dot a b = dot b a
  | [], b => by rw [dot_nil_left, dot_nil_right]
  | _ :: _, [] => by rw [dot_nil_left, dot_nil_right]
  | x :: a, y :: b => by rw [dot_cons, dot_cons, dot_comm a b, mul_comm]

theorem dot_vadd_left : ∀ (a b c : List K), a.length = b.length →
    dot (vadd a b) c = dot a c + dot b c
  | [], [], c, _ => by simp [vadd, dot_nil_left]
  | [], _ :: _, _, h => by simp at h
  | _ :: _, [], _, h => by simp at h
  | x :: a, y :: b, [], _ => by simp [dot_nil_right]
  | x :: a, y :: b, z :: c, h => by
    have h' : a.length = b.length := by simpa using h
    have ih := dot_vadd_left a b c h'
    simp only [vadd, List.zipWith_cons_cons] at ih ⊢
    rw [dot_cons, dot_cons, dot_cons, ih]; ring

theorem dot_vadd_right (g u v : List K) (h : u.length = v.length) :
    dot g (vadd u v) = dot g u + dot g v := by
  rw [dot_comm, dot_vadd_left u v g h, dot_comm u, dot_comm v]

theorem dot_smul_left (k : K) : ∀ (a c : List K), dot (smul k a) c = k * dot a c
  | [], c => by simp [smul, dot_nil_left]
  | _ :: _, [] => by simp [dot_nil_right]
  | x :: a, z :: c => by
    have ih := dot_smul_left k a c
    simp only [smul, List.map_cons] at ih ⊢
    rw [dot_cons, dot_cons, ih]; ring

theorem dot_replicate_zero : ∀ (n : Nat) (c : List K), dot (List.replicate n (0 : K)) c = 0
  | 0, c => by simp [dot_nil_left]
  | n + 1, [] => by simp [dot_nil_right]
  | n + 1, z :: c => by rw [List.replicate_succ, dot_cons, dot_replicate_zero n c]; ring

theorem vadd_length (a b : List K) : (vadd a b).length = min a.length b.length := by
  simp [vadd]

theorem rowTimesW_length (nin : Nat) : ∀ (W : List (List K)) (g : List K), (∀ w ∈ W, w.length = nin) →
    (rowTimesW nin W g).length = nin
  | [], g, _ => by simp [rowTimesW]
  | _ :: _, [], _ => by simp [rowTimesW]
  | w :: W, go :: g, h => by
    have ih := rowTimesW_length nin W g (fun w' hw' => h w' (by simp [hw']))
    have hw : w.length = nin := h w (by simp)
    simp only [rowTimesW, List.zipWith_cons_cons, List.foldr_cons] at ih ⊢
    rw [vadd_length, ih]; simp [smul, hw]

/-- `⟨g, W x⟩ = ⟨gᵀ W, x⟩` -/
theorem adjoint (nin : Nat) (x : List K) : ∀ (W : List (List K)) (g : List K), (∀ w ∈ W, w.length = nin) →
    dot g (W.map (fun w => dot x w)) = dot x (rowTimesW nin W g)
  | [], g, _ => by simp [rowTimesW, dot_nil_right, dot_comm x, dot_replicate_zero]
  | _ :: _, [], _ => by simp [rowTimesW, dot_nil_left, dot_comm x, dot_replicate_zero]
  | w :: W, go :: g, h => by
    have hW : ∀ w' ∈ W, w'.length = nin := fun w' hw' => h w' (by simp [hw'])
    have ih := adjoint nin x W g hW
    have hl := rowTimesW_length nin W g hW
    have hw : w.length = nin := h w (by simp)
    simp only [rowTimesW, List.zipWith_cons_cons, List.foldr_cons, List.map_cons] at ih hl ⊢
    rw [dot_cons, ih, dot_vadd_right _ _ _ (by simp [smul, hw, hl]), dot_comm x (smul go w), dot_smul_left,
      dot_comm w x]

/-- the linear part `x ↦ W x` -/
def linPart (W : List (List K)) (x : List K) : List K := W.map (fun w => dot x w)

theorem linPart_length (W : List (List K)) (x : List K) : (linPart W x).length = W.length := by simp [linPart]

theorem linPart_vadd (x dx : List K) (h : x.length = dx.length) : ∀ W : List (List K),
    linPart W (vadd x dx) = vadd (linPart W x) (linPart W dx)
  | [] => by simp [linPart, vadd]
  | w :: W => by
    have ih := linPart_vadd x dx h W
    simp only [linPart, vadd, List.map_cons, List.zipWith_cons_cons] at ih ⊢
    rw [ih]; congr 1
    exact dot_vadd_left x dx w h

theorem affineRow_eq (L : Layer K) (x : List K) :
    affineRow L x = match L.b with | some b => vadd (linPart L.W x) b | none => linPart L.W x := by
  cases L with
  | mk W b => cases b <;> rfl

/-- the layer is well shaped: weight rows of length `nin`, bias (if any) of length `W.length` -/
def Layer.WF (L : Layer K) (nin : Nat) : Prop :=
  (∀ w ∈ L.W, w.length = nin) ∧ ∀ b, L.b = some b → b.length = L.W.length

/-- row form of the input VJP -/
theorem vjp_input_row (L : Layer K) (nin : Nat) (hL : L.WF nin) (g x dx : List K) (hx : x.length = dx.length) :
    dot g (affineRow L (vadd x dx)) = dot g (affineRow L x) + dot (rowTimesW nin L.W g) dx := by
  have hadj : dot g (linPart L.W dx) = dot (rowTimesW nin L.W g) dx := by
    rw [linPart, adjoint nin dx L.W g hL.1, dot_comm]
  rw [affineRow_eq, affineRow_eq, linPart_vadd x dx hx]
  cases hb : L.b with
  | none =>
    simp only []
    rw [dot_vadd_right _ _ _ (by simp [linPart_length]), hadj]
  | some b =>
    simp only []
    have hbl := hL.2 b hb
    rw [dot_vadd_right _ _ _ (by simp [vadd_length, linPart_length, hbl]),
      dot_vadd_right _ _ _ (by simp [linPart_length]),
      dot_vadd_right _ _ _ (by simp [linPart_length, hbl]), hadj]
    ring

/-! ### lifting row identities to rank 2 and rank 3 -/

theorem sumL_zip3 {α β γ : Type} (F : α → β → γ → K) (P : α → β → K) (Q : α → γ → K) (R : β → γ → Prop)
    (hF : ∀ a b c, R b c → F a b c = P a b + Q a c) :
    ∀ (G : List α) (X : List β) (D : List γ), X.length = D.length → (∀ p ∈ X.zip D, R p.1 p.2) →
      sumL (List.zipWith (fun a (p : β × γ) => F a p.1 p.2) G (X.zip D)) =
        sumL (List.zipWith P G X) + sumL (List.zipWith Q G D)
  | [], _, _, _, _ => by simp [sumL_nil]
  | _ :: _, [], [], _, _ => by simp [sumL_nil]
  | _ :: _, [], _ :: _, h, _ => by simp at h
  | _ :: _, _ :: _, [], h, _ => by simp at h
  | a :: G, b :: X, c :: D, h, hR => by
    have h' : X.length = D.length := by simpa using h
    have ih := sumL_zip3 F P Q R hF G X D h' (fun p hp => hR p (by simp [hp]))
    simp only [List.zip_cons_cons, List.zipWith_cons_cons, sumL_cons]
    rw [ih, hF a b c (hR (b, c) (by simp))]; ring

/-- two matrices of one shape -/
def SameShape (X D : List (List K)) : Prop := X.length = D.length ∧ ∀ p ∈ X.zip D, p.1.length = p.2.length

theorem zipWith_as_map_zip {α β γ : Type} (f : α → β → γ) : ∀ (X : List α) (D : List β),
    List.zipWith f X D = (X.zip D).map (fun p => f p.1 p.2)
  | [], _ => by simp
  | _ :: _, [] => by simp
  | x :: X, d :: D => by simp [zipWith_as_map_zip f X D]

theorem madd_map (f : List K → List K) (X D : List (List K)) :
    (madd X D).map f = (X.zip D).map (fun p => f (vadd p.1 p.2)) := by
  simp [madd, zipWith_as_map_zip vadd, List.map_map, Function.comp_def]

theorem vjp_input2 (L : Layer K) (nin : Nat) (hL : L.WF nin) (G X D : List (List K)) (h : SameShape X D) :
    dot2 G ((madd X D).map (affineRow L)) =
      dot2 G (X.map (affineRow L)) + dot2 (G.map (rowTimesW nin L.W)) D := by
  have := sumL_zip3 (fun g x dx => dot g (affineRow L (vadd x dx))) (fun g x => dot g (affineRow L x))
    (fun g dx => dot (rowTimesW nin L.W g) dx) (fun x dx => x.length = dx.length)
    (fun g x dx hx => vjp_input_row L nin hL g x dx hx) G X D h.1 h.2
  simp only [dot2, madd_map, List.zipWith_map_right, List.zipWith_map_left]
  exact this

/-- rank-3 output of the plain layer -/
def layerOut (L : Layer K) (X : List (List (List K))) : List (List (List K)) :=
  X.map (·.map (affineRow L))

/-- elementwise sum of two rank-3 tensors -/
def tadd (X D : List (List (List K))) : List (List (List K)) := List.zipWith madd X D

def SameShape3 (X D : List (List (List K))) : Prop :=
  X.length = D.length ∧ ∀ p ∈ X.zip D, SameShape p.1 p.2

/-- **vjp_input**: `grad_input = grad_output.matmul(weight)` is exactly the vector-Jacobian product of
    the layer w.r.t. its input: for every perturbation `D` of the input (copy by copy)
    `⟨g, layer (X + D)⟩ = ⟨g, layer X⟩ + ⟨gradInput g, D⟩`. -/
theorem vjp_input (L : Layer K) (nin : Nat) (hL : L.WF nin) (g X D : List (List (List K)))
    (h : SameShape3 X D) :
    dot3 g (layerOut L (tadd X D)) = dot3 g (layerOut L X) + dot3 (gradInput nin L.W g) D := by
  have := sumL_zip3 (fun G X D => dot2 G ((madd X D).map (affineRow L))) (fun G X => dot2 G (X.map (affineRow L)))
    (fun G D => dot2 (G.map (rowTimesW nin L.W)) D) SameShape
    (fun G X D hx => vjp_input2 L nin hL G X D hx) g X D h.1 h.2
  simp only [dot3, layerOut, tadd, gradInput, List.zipWith_map_right, List.zipWith_map_left,
    zipWith_as_map_zip madd, List.map_map, Function.comp_def] at this ⊢
  exact this


/-! ### weight and bias -/

theorem madd_length (A B : List (List K)) : (madd A B).length = min A.length B.length := by simp [madd]

theorem linPart_madd (x : List K) : ∀ (W dW : List (List K)), SameShape W dW →
    linPart (madd W dW) x = vadd (linPart W x) (linPart dW x)
  | [], [], _ => by simp [linPart, madd, vadd]
  | [], _ :: _, h => by simp [SameShape] at h
  | _ :: _, [], h => by simp [SameShape] at h
  | w :: W, dw :: dW, h => by
    have h' : SameShape W dW := ⟨by simpa using h.1, fun p hp => h.2 p (by simp [hp])⟩
    have hw : w.length = dw.length := h.2 (w, dw) (by simp)
    have ih := linPart_madd x W dW h'
    simp only [linPart, madd, vadd, List.zipWith_cons_cons, List.map_cons] at ih ⊢
    rw [ih]; congr 1
    exact dot_vadd_right x w dw hw

/-- outer product `g ⊗ x` (one row's contribution to `gᵀ x`) -/
def outer (g x : List K) : List (List K) := g.map (fun go => smul go x)

theorem dot2_nil_left (B : List (List K)) : dot2 ([] : List (List K)) B = 0 := by simp [dot2, sumL_nil]
theorem dot2_nil_right (A : List (List K)) : dot2 A ([] : List (List K)) = 0 := by simp [dot2, sumL_nil]
theorem dot2_cons (a b : List K) (A B : List (List K)) : dot2 (a :: A) (b :: B) = dot a b + dot2 A B := by
  simp [dot2, sumL_cons]

theorem dot_linPart_eq_outer (x : List K) : ∀ (g : List K) (dW : List (List K)),
    dot g (linPart dW x) = dot2 (outer g x) dW
  | [], _ => by simp [outer, dot_nil_left, dot2_nil_left]
  | _ :: _, [] => by simp [linPart, dot_nil_right, dot2_nil_right]
  | go :: g, dw :: dW => by
    have ih := dot_linPart_eq_outer x g dW
    simp only [linPart, outer, List.map_cons] at ih ⊢
    rw [dot_cons, dot2_cons, ih, dot_smul_left]

/-- row form of the weight VJP -/
theorem vjp_weight_row (W dW : List (List K)) (b : Option (List K)) (hS : SameShape W dW)
    (hb : ∀ b', b = some b' → b'.length = W.length) (g x : List K) :
    dot g (affineRow ⟨madd W dW, b⟩ x) = dot g (affineRow ⟨W, b⟩ x) + dot2 (outer g x) dW := by
  rw [affineRow_eq, affineRow_eq, ← dot_linPart_eq_outer]
  simp only []
  rw [linPart_madd x W dW hS]
  cases b with
  | none =>
    simp only []
    rw [dot_vadd_right _ _ _ (by simp [linPart_length, hS.1])]
  | some b' =>
    simp only []
    have hbl := hb b' rfl
    rw [dot_vadd_right _ _ _ (by simp [vadd_length, linPart_length, hbl, hS.1]),
      dot_vadd_right _ _ _ (by simp [linPart_length, hS.1]),
      dot_vadd_right _ _ _ (by simp [linPart_length, hbl])]
    ring

/-- a matrix with `r` rows of length `c` -/
def Shape (r c : Nat) (M : List (List K)) : Prop := M.length = r ∧ ∀ row ∈ M, row.length = c

theorem shape_zero (r c : Nat) : Shape r c (List.replicate r (List.replicate c (0 : K))) := by
  refine ⟨by simp, fun row h => ?_⟩
  rw [List.eq_of_mem_replicate h]; simp

theorem sameShape_of_shape {r c : Nat} {A B : List (List K)} (hA : Shape r c A) (hB : Shape r c B) :
    SameShape A B := by
  refine ⟨by rw [hA.1, hB.1], fun p hp => ?_⟩
  have := List.of_mem_zip hp
  rw [hA.2 _ this.1, hB.2 _ this.2]

theorem shape_madd {r c : Nat} {A B : List (List K)} (hA : Shape r c A) (hB : Shape r c B) :
    Shape r c (madd A B) := by
  refine ⟨by rw [madd_length, hA.1, hB.1, Nat.min_self], fun row h => ?_⟩
  simp only [madd, zipWith_as_map_zip, List.mem_map] at h
  obtain ⟨p, hp, rfl⟩ := h
  have := List.of_mem_zip hp
  rw [vadd_length, hA.2 _ this.1, hB.2 _ this.2, Nat.min_self]

theorem shape_outer (g x : List K) : Shape g.length x.length (outer g x) := by
  refine ⟨by simp [outer], fun row h => ?_⟩
  simp only [outer, List.mem_map] at h
  obtain ⟨go, _, rfl⟩ := h
  simp [smul]

theorem dot2_madd_left : ∀ (A B C : List (List K)), SameShape A B →
    dot2 (madd A B) C = dot2 A C + dot2 B C
  | [], [], C, _ => by simp [madd, dot2_nil_left]
  | [], _ :: _, _, h => by simp [SameShape] at h
  | _ :: _, [], _, h => by simp [SameShape] at h
  | a :: A, b :: B, [], _ => by simp [dot2_nil_right]
  | a :: A, b :: B, c :: C, h => by
    have h' : SameShape A B := ⟨by simpa using h.1, fun p hp => h.2 p (by simp [hp])⟩
    have hab : a.length = b.length := h.2 (a, b) (by simp)
    have ih := dot2_madd_left A B C h'
    simp only [madd, List.zipWith_cons_cons] at ih ⊢
    rw [dot2_cons, dot2_cons, dot2_cons, ih, dot_vadd_left a b c hab]; ring

theorem dot2_zero (r c : Nat) : ∀ (C : List (List K)), dot2 (List.replicate r (List.replicate c (0 : K))) C = 0 := by
  induction r with
  | zero => intro C; simp [dot2_nil_left]
  | succ r ih =>
    intro C
    cases C with
    | nil => simp [dot2_nil_right]
    | cons c' C => rw [List.replicate_succ, dot2_cons, ih C, dot_replicate_zero]; ring

/-- summing matrices of one shape commutes with the pairing -/
theorem dot2_foldr_madd (r c : Nat) (C : List (List K)) : ∀ (Ms : List (List (List K))),
    (∀ M ∈ Ms, Shape r c M) →
    Shape r c (Ms.foldr madd (List.replicate r (List.replicate c (0 : K)))) ∧
    dot2 (Ms.foldr madd (List.replicate r (List.replicate c (0 : K)))) C = sumL (Ms.map (fun M => dot2 M C))
  | [], _ => by simp [shape_zero, dot2_zero, sumL_nil]
  | M :: Ms, h => by
    have ih := dot2_foldr_madd r c C Ms (fun M' hM' => h M' (by simp [hM']))
    have hM := h M (by simp)
    refine ⟨shape_madd hM ih.1, ?_⟩
    simp only [List.foldr_cons, List.map_cons, sumL_cons]
    rw [dot2_madd_left _ _ _ (sameShape_of_shape hM ih.1), ih.2]

theorem sumL_zipWith_as_map {α β : Type} (f : α → β → K) (X : List α) (D : List β) :
    sumL (List.zipWith f X D) = sumL ((X.zip D).map (fun p => f p.1 p.2)) := by
  rw [zipWith_as_map_zip]

/-- one copy: `⟨g_c, layer_{W+dW} x⟩ = ⟨g_c, layer_W x⟩ + ⟨g_cᵀ x, dW⟩` -/
theorem vjp_weight2 (nout nin : Nat) (W dW : List (List K)) (b : Option (List K)) (hS : SameShape W dW)
    (hb : ∀ b', b = some b' → b'.length = W.length)
    (gc x : List (List K)) (hg : ∀ gr ∈ gc, gr.length = nout) (hx : ∀ xr ∈ x, xr.length = nin) :
    dot2 gc (x.map (affineRow ⟨madd W dW, b⟩)) =
      dot2 gc (x.map (affineRow ⟨W, b⟩)) + dot2 (gTx nout nin gc x) dW := by
  have hsh : ∀ M ∈ List.zipWith (fun gr xr => gr.map (fun go => smul go xr)) gc x, Shape nout nin M := by
    intro M hM
    simp only [zipWith_as_map_zip, List.mem_map] at hM
    obtain ⟨p, hp, rfl⟩ := hM
    have := List.of_mem_zip hp
    have h1 := shape_outer p.1 p.2
    rw [hg _ this.1, hx _ this.2] at h1
    exact h1
  rw [gTx, (dot2_foldr_madd nout nin dW _ hsh).2]
  simp only [dot2, List.zipWith_map_right, List.map_map, Function.comp_def]
  -- row by row
  have key : ∀ (gc x : List (List K)),
      sumL (List.zipWith (fun a b_1 => dot a (affineRow ⟨madd W dW, b⟩ b_1)) gc x) =
      sumL (List.zipWith (fun a b_1 => dot a (affineRow ⟨W, b⟩ b_1)) gc x) +
      sumL ((List.zipWith (fun gr xr => gr.map (fun go => smul go xr)) gc x).map
        (fun M => sumL (List.zipWith dot M dW))) := by
    intro gc
    induction gc with
    | nil => intro x; simp [sumL_nil]
    | cons gr gc ih =>
      intro x
      cases x with
      | nil => simp [sumL_nil]
      | cons xr x =>
        simp only [List.zipWith_cons_cons, List.map_cons, sumL_cons]
        rw [ih x, vjp_weight_row W dW b hS hb gr xr]
        simp only [dot2, outer]; ring
  exact key gc x

/-- **vjp_weight**: `grad_weight = Σ_copies grad_outputᵀ · input₀` is exactly the vector-Jacobian
    product of the layer (applied to copies of one input `x`) w.r.t. the weight. -/
theorem vjp_weight (nout nin : Nat) (W dW : List (List K)) (b : Option (List K)) (hS : SameShape W dW)
    (hb : ∀ b', b = some b' → b'.length = W.length)
    (g : List (List (List K))) (x : List (List K))
    (hg : ∀ gc ∈ g, ∀ gr ∈ gc, gr.length = nout) (hx : ∀ xr ∈ x, xr.length = nin) :
    dot3 g (layerOut ⟨madd W dW, b⟩ (List.replicate g.length x)) =
      dot3 g (layerOut ⟨W, b⟩ (List.replicate g.length x)) + dot2 (gradWeight nout nin x g) dW := by
  have hsh : ∀ M ∈ g.map (fun gc => gTx nout nin gc x), Shape nout nin M := by
    intro M hM
    obtain ⟨gc, hgc, rfl⟩ := List.mem_map.1 hM
    refine (dot2_foldr_madd nout nin [] _ ?_).1
    intro M hM
    simp only [zipWith_as_map_zip, List.mem_map] at hM
    obtain ⟨p, hp, rfl⟩ := hM
    have := List.of_mem_zip hp
    have h1 := shape_outer p.1 p.2
    rw [hg gc hgc _ this.1, hx _ this.2] at h1
    exact h1
  rw [gradWeight, (dot2_foldr_madd nout nin dW _ hsh).2]
  simp only [dot3, layerOut, List.map_replicate, List.map_map, Function.comp_def]
  have key : ∀ (g : List (List (List K))) (n : Nat), (∀ gc ∈ g, ∀ gr ∈ gc, gr.length = nout) →
      sumL (List.zipWith dot2 g (List.replicate n (x.map (affineRow ⟨madd W dW, b⟩)))) =
      sumL (List.zipWith dot2 g (List.replicate n (x.map (affineRow ⟨W, b⟩)))) +
      sumL (g.take n |>.map (fun gc => dot2 (gTx nout nin gc x) dW)) := by
    intro g
    induction g with
    | nil => intro n _; simp [sumL_nil]
    | cons gc g ih =>
      intro n hg
      cases n with
      | zero => simp [sumL_nil]
      | succ n =>
        simp only [List.replicate_succ, List.zipWith_cons_cons, sumL_cons, List.take_succ_cons, List.map_cons]
        rw [ih n (fun gc' h' => hg gc' (by simp [h'])),
          vjp_weight2 nout nin W dW b hS hb gc x (hg gc (by simp)) hx]
        ring
  have := key g g.length hg
  rw [List.take_length] at this
  exact this

theorem dot_foldr_vadd (n : Nat) (c : List K) : ∀ (Vs : List (List K)), (∀ v ∈ Vs, v.length = n) →
    (Vs.foldr vadd (List.replicate n (0 : K))).length = n ∧
    dot (Vs.foldr vadd (List.replicate n (0 : K))) c = sumL (Vs.map (fun v => dot v c))
  | [], _ => by simp [dot_replicate_zero, sumL_nil]
  | v :: Vs, h => by
    have ih := dot_foldr_vadd n c Vs (fun v' hv' => h v' (by simp [hv']))
    have hv := h v (by simp)
    refine ⟨by simp only [List.foldr_cons]; rw [vadd_length, hv, ih.1, Nat.min_self], ?_⟩
    simp only [List.foldr_cons, List.map_cons, sumL_cons]
    rw [dot_vadd_left _ _ _ (by rw [hv, ih.1]), ih.2]

/-- row form of the bias VJP -/
theorem vjp_bias_row (W : List (List K)) (b db : List K) (hb : b.length = W.length) (hdb : db.length = W.length)
    (g x : List K) :
    dot g (affineRow ⟨W, some (vadd b db)⟩ x) = dot g (affineRow ⟨W, some b⟩ x) + dot g db := by
  rw [affineRow_eq, affineRow_eq]
  simp only []
  rw [dot_vadd_right _ _ _ (by simp [vadd_length, linPart_length, hb, hdb]),
    dot_vadd_right _ _ _ (by rw [hb, hdb]),
    dot_vadd_right _ _ _ (by simp [linPart_length, hb])]
  ring

theorem sumL_append (a b : List K) : sumL (a ++ b) = sumL a + sumL b := by
  induction a with
  | nil => simp [sumL_nil]
  | cons x a ih => simp only [List.cons_append, sumL_cons, ih]; ring

/-- **vjp_bias**: `grad_bias = grad_output.reshape(-1, out).sum(0)` is exactly the vector-Jacobian
    product of the layer w.r.t. the bias. -/
theorem vjp_bias (nout : Nat) (W : List (List K)) (b db : List K) (hW : W.length = nout)
    (hb : b.length = nout) (hdb : db.length = nout)
    (g : List (List (List K))) (x : List (List K))
    (hg : ∀ gc ∈ g, gc.length = x.length ∧ ∀ gr ∈ gc, gr.length = nout) :
    dot3 g (layerOut ⟨W, some (vadd b db)⟩ (List.replicate g.length x)) =
      dot3 g (layerOut ⟨W, some b⟩ (List.replicate g.length x)) + dot (gradBias nout g) db := by
  have hfl : ∀ v ∈ g.flatten, v.length = nout := by
    intro v hv
    obtain ⟨gc, hgc, hv'⟩ := List.mem_flatten.1 hv
    exact (hg gc hgc).2 v hv'
  rw [gradBias, (dot_foldr_vadd nout db _ hfl).2]
  simp only [dot3, layerOut, List.map_replicate]
  have row : ∀ (gc x : List (List K)), gc.length = x.length →
      dot2 gc (x.map (affineRow ⟨W, some (vadd b db)⟩)) =
      dot2 gc (x.map (affineRow ⟨W, some b⟩)) + sumL (gc.map (fun v => dot v db)) := by
    intro gc
    induction gc with
    | nil => intro x _; simp [dot2_nil_left, sumL_nil]
    | cons gr gc ih =>
      intro x hl
      cases x with
      | nil => simp at hl
      | cons xr x =>
        simp only [List.map_cons, dot2_cons, sumL_cons]
        rw [ih x (by simpa using hl), vjp_bias_row W b db (by rw [hb, hW]) (by rw [hdb, hW])]
        ring
  have key : ∀ (g : List (List (List K))) (n : Nat), (∀ gc ∈ g, gc.length = x.length) →
      sumL (List.zipWith dot2 g (List.replicate n (x.map (affineRow ⟨W, some (vadd b db)⟩)))) =
      sumL (List.zipWith dot2 g (List.replicate n (x.map (affineRow ⟨W, some b⟩)))) +
      sumL ((g.take n).flatten.map (fun v => dot v db)) := by
    intro g
    induction g with
    | nil => intro n _; simp [sumL_nil]
    | cons gc g ih =>
      intro n hg
      cases n with
      | zero => simp [sumL_nil]
      | succ n =>
        simp only [List.replicate_succ, List.zipWith_cons_cons, sumL_cons, List.take_succ_cons,
          List.flatten_cons, List.map_append, sumL_append]
        rw [ih n (fun gc' h' => hg gc' (by simp [h'])), row gc x (hg gc (by simp))]
        ring
  have := key g g.length (fun gc h => (hg gc h).1)
  rw [List.take_length] at this
  exact this

/-- on copies of one input the coded weight gradient (first copy only) is the gradient of
    `torch.nn.Linear` (every copy with its own input) -/
theorem gradWeight_eq_plain (nout nin : Nat) (x : List (List K)) (g : List (List (List K))) :
    gradWeight nout nin x g = gradWeightPlain nout nin (List.replicate g.length x) g := by
  simp only [gradWeight, gradWeightPlain]
  congr 1
  exact (zipWith_replicate_right (fun gc xc => gTx nout nin gc xc) x g).symm

theorem sumL_eq_sum (l : List K) : sumL l = l.sum := by
  induction l with
  | nil => rfl
  | cons a l ih => simp [sumL, List.sum_cons] at ih ⊢; rw [← ih]

/-- the vector inner product as an indexed sum -/
theorem dot_eq_sum : ∀ (a b : List K) (h : a.length = b.length),
    dot a b = ∑ k : Fin a.length, a[k] * b[k.1]'(h ▸ k.2)
  | [], b, _ => by simp [dot_nil_left]
  | x :: a, [], h => by simp at h
  | x :: a, y :: b, h => by
    have h' : a.length = b.length := by simpa using h
    rw [dot_cons, dot_eq_sum a b h']
    simp [Fin.sum_univ_succ]

/-- **out_spec** (shared trunk input). -/
theorem out_spec (t0 : List (List (List K))) (br : List (List (List K))) (i j c : Nat)
    (hi : i < br.length) (hj : j < t0.length) (hc : c < t0[j].length) (hc' : c < br[i].length)
    (hk : t0[j][c].length = br[i][c].length) :
    ∃ out, contract [t0] br = .ok out ∧
      ((out[i]?.bind (·[j]?)).bind (·[c]?)) =
        some (∑ k : Fin t0[j][c].length, t0[j][c][k] * br[i][c][k.1]'(by have := k.2; omega)) := by
  refine ⟨_, contract_shared t0 br, ?_⟩
  simp only [List.getElem?_map, List.getElem?_eq_getElem hi, List.getElem?_eq_getElem hj, Option.map_some,
    Option.bind_some, outAt]
  rw [List.getElem?_zipWith, List.getElem?_eq_getElem hc, List.getElem?_eq_getElem hc']
  simp only [Option.some.injEq]
  exact dot_eq_sum _ _ hk

/-! ### second order -/

theorem sumL_zipWith_swap {α β : Type} (F : α → β → K) (F' : β → α → K) (h : ∀ a b, F a b = F' b a) :
    ∀ (A : List α) (B : List β), sumL (List.zipWith F A B) = sumL (List.zipWith F' B A)
  | [], _ => by simp [sumL_nil]
  | _ :: _, [] => by simp [sumL_nil]
  | a :: A, b :: B => by
    simp only [List.zipWith_cons_cons, sumL_cons]
    rw [sumL_zipWith_swap F F' h A B, h a b]

/-- **second order**: the coded `grad_input` is linear in `grad_output` and its adjoint is the
    bias-free plain layer, `⟨v, grad_output · W⟩ = ⟨grad_output, v · Wᵀ⟩`: differentiating the backward
    of the fast layer w.r.t. `grad_output` (what autograd does for second input derivatives) therefore
    yields exactly what it yields for `torch.nn.Linear` — one more plain linear map with the same weight. -/
theorem gradInput_adjoint (nin : Nat) (W : List (List K)) (hW : ∀ w ∈ W, w.length = nin)
    (v g : List (List (List K))) :
    dot3 v (gradInput nin W g) = dot3 g (layerOut ⟨W, none⟩ v) := by
  have row : ∀ (vr gr : List K), dot vr (rowTimesW nin W gr) = dot gr (affineRow ⟨W, none⟩ vr) := by
    intro vr gr
    rw [affineRow_eq]; simp only []
    rw [linPart, adjoint nin vr W gr hW]
  have r2 : ∀ (vc gc : List (List K)),
      dot2 vc (gc.map (rowTimesW nin W)) = dot2 gc (vc.map (affineRow ⟨W, none⟩)) := by
    intro vc gc
    simp only [dot2, List.zipWith_map_right]
    exact sumL_zipWith_swap _ _ row vc gc
  simp only [dot3, gradInput, layerOut, List.zipWith_map_right]
  exact sumL_zipWith_swap _ _ r2 v g

end

/-! ## non-vacuity: concrete, non-trivial data meeting the hypotheses of the theorems above -/

section Examples

private def L1 : Layer Int := ⟨[[1, 2], [0, -1], [3, 1]], some [1, 0, -2]⟩
private def L2 : Layer Int := ⟨[[1, -1, 2], [2, 0, 1]], some [0, 5]⟩
private def x0 : List (List Int) := [[1, 2], [-1, 3]]
private def g0 : List (List (List Int)) := [[[1, 0, 2], [0, 1, -1]], [[2, 1, 0], [1, 1, 1]]]
private def D0 : List (List (List Int)) := [[[1, 0], [0, 1]], [[2, -1], [1, 1]]]
private def dW0 : List (List Int) := [[1, 0], [2, 1], [0, -1]]

private theorem L1_wf : L1.WF 2 := by
  refine ⟨by decide, ?_⟩
  intro b hb
  cases hb
  rfl

/-- `out_spec`, `contract_shared`: 2 functions, 2 locations, 2 components, 2 neurons each -/
example : contract [[[[1, 2], [3, 4]], [[5, 6], [7, 8]]]] [[[1, 0], [0, 1]], [[2, 1], [1, 2]]] =
    (.ok [[[1, 4], [5, 8]], [[4, 11], [16, 23]]] : Except String (List (List (List Int)))) := by decide

/-- `contract_unique`: one trunk batch per function -/
example : contract [[[[1, 2], [3, 4]]], [[[5, 6], [7, 8]]]] [[[1, 0], [0, 1]], [[2, 1], [1, 2]]] =
    (.ok [[[1, 4]], [[16, 23]]] : Except String (List (List (List Int)))) := by decide

/-- `out_batch_independent` instantiated: function 1 alone at location 0 alone -/
example : contract [[[[1, 2], [3, 4]]]] [[[2, 1], [1, 2]]] =
    (.ok [[[4, 11]]] : Except String (List (List (List Int)))) := by decide

/-- `reshapeFeat_rows`, `rechunk_flatten`: the hypotheses are satisfiable and the rows stay apart -/
example : finalizeOk 2 4 = true ∧
    reshapeFeat 2 4 [[1, 2, 3, 4], [5, 6, 7, 8]] =
      (.ok [[[1, 2], [3, 4]], [[5, 6], [7, 8]]] : Except String (List (List (List Nat)))) := by decide

/-- `splitRow_get`, `splitRow_flatten`: 6 neurons, 3 components: entry (1, 1) is feature 1*2+1 = 3 -/
example : ((splitRow 3 6 [10, 11, 12, 13, 14, 15])[1]?.bind (·[1]?)) = some 13 ∧
    (splitRow 3 6 [10, 11, 12, 13, 14, 15]).flatten = [10, 11, 12, 13, 14, 15] := by decide

/-- `branchFlatten_rows`: 2 functions, 2 points, 2 function components -/
example : branchFlatten [[[1, 2], [3, 4]], [[5, 6], [7, 8]]] 4 =
    (.ok [[1, 2, 3, 4], [5, 6, 7, 8]] : Except String (List (List Nat))) := by decide

/-- `meshgrid_eq`, `functionSet_rows`: 2 parameter rows, 3 points -/
example : meshgrid [[1, 2], [3, 4]] [[10], [20], [30]] =
    [[[1, 2, 10], [1, 2, 20], [1, 2, 30]], [[3, 4, 10], [3, 4, 20], [3, 4, 30]]] := by decide

/-- `collection_rows`: two sets with 1 and 2 functions present 3 functions, in this order -/
example : batchOfCollection [((fun v => [v.sum]), [[1]]), ((fun v => [2 * v.sum]), [[2], [3]])] [[10], [20]] =
    [[[11], [21]], [[24], [44]], [[26], [46]]] := by decide

/-- `fastNet_eq_plainNet`, `fastNet_r2`: a two-layer network with a non-linear activation -/
example : fcNet fastLinear [(fun z => z * z)] [L1, L2] (.r3 (List.replicate 2 x0)) =
      .ok (.r3 [[[50, 86], [35, 81]], [[50, 86], [35, 81]]]) ∧
    fcNet plainLinear [(fun z => z * z)] [L1, L2] (.r3 (List.replicate 2 x0)) =
      .ok (.r3 [[[50, 86], [35, 81]], [[50, 86], [35, 81]]]) ∧
    fcNet fastLinear [(fun z => z * z)] [L1, L2] (.r2 x0) = .ok (.r3 [[[50, 86], [35, 81]]]) := by
  refine ⟨rfl, rfl, rfl⟩

/-- `fastNet_eq_plainNet` with two DIFFERENT activations (square after layer 0, `+1` after layer 1) -/
example : fcNet fastLinear [(fun z => z * z), (· + 1)] [L1, L2, ⟨[[1, 1]], none⟩] (.r3 (List.replicate 2 x0)) =
      .ok (.r3 [[[138], [118]], [[138], [118]]]) ∧
    fcNet plainLinear [(fun z => z * z), (· + 1)] [L1, L2, ⟨[[1, 1]], none⟩] (.r3 (List.replicate 2 x0)) =
      .ok (.r3 [[[138], [118]], [[138], [118]]]) := ⟨rfl, rfl⟩

/-- `forward_fast_eq_plain`: a whole DeepONet, 2 functions (different outputs), 2 locations -/
example : forward true [(fun z => z * z)] [(fun z => z * z)] 1 2 [L1, ⟨[[1, 0, 1], [0, 1, 0]], none⟩]
      [⟨[[1, 1]], some [0]⟩, ⟨[[1], [2]], none⟩] 2 (.r3 (List.replicate 2 x0)) [[[1], [2]], [[1], [3]]] =
    .ok [[[477], [522]], [[848], [928]]] := by rfl

/-- `forward_fast_eq_plain_r2`: the same DeepONet on the rank-2 batch of locations; hypotheses satisfiable -/
example : forward true [(fun z => z * z)] [(fun z => z * z)] 1 2 [L1, ⟨[[1, 0, 1], [0, 1, 0]], none⟩]
      [⟨[[1, 1]], some [0]⟩, ⟨[[1], [2]], none⟩] 2 (.r2 x0) [[[1], [2]], [[1], [3]]] =
    .ok [[[477], [522]], [[848], [928]]] ∧ finalizeOk 1 2 = true := ⟨by rfl, by decide⟩

/-- `vjp_input`: the hypotheses hold for concrete data and the gradient term is not zero -/
example : dot3 g0 (layerOut L1 (tadd [x0, x0] D0)) = dot3 g0 (layerOut L1 [x0, x0]) + dot3 (gradInput 2 L1.W g0) D0 ∧
    dot3 (gradInput 2 L1.W g0) D0 = 12 :=
  ⟨vjp_input L1 2 L1_wf g0 [x0, x0] D0 (by
      refine ⟨rfl, ?_⟩
      intro p hp
      simp only [x0, D0, List.zip_cons_cons, List.zip_nil_right, List.mem_cons, List.not_mem_nil, or_false] at hp
      rcases hp with rfl | rfl <;> exact ⟨rfl, by decide⟩), by decide⟩

/-- `vjp_weight`, `gradWeight_eq_plain` -/
example : dot3 g0 (layerOut ⟨madd L1.W dW0, L1.b⟩ (List.replicate g0.length x0)) =
      dot3 g0 (layerOut ⟨L1.W, L1.b⟩ (List.replicate g0.length x0)) + dot2 (gradWeight 3 2 x0 g0) dW0 ∧
    gradWeight 3 2 x0 g0 = [[2, 9], [-1, 8], [2, 4]] ∧ dot2 (gradWeight 3 2 x0 g0) dW0 = 4 :=
  ⟨vjp_weight 3 2 L1.W dW0 L1.b ⟨rfl, by decide⟩ (by intro b hb; cases hb; rfl) g0 x0 (by decide) (by decide),
   by decide, by decide⟩

/-- `vjp_bias` -/
example : dot3 g0 (layerOut ⟨L1.W, some (vadd [1, 0, -2] [1, 2, 3])⟩ (List.replicate g0.length x0)) =
      dot3 g0 (layerOut ⟨L1.W, some [1, 0, -2]⟩ (List.replicate g0.length x0)) + dot (gradBias 3 g0) [1, 2, 3] ∧
    gradBias 3 g0 = [4, 3, 2] :=
  ⟨vjp_bias 3 L1.W [1, 0, -2] [1, 2, 3] rfl rfl rfl g0 x0 (by decide), by decide⟩

/-- `gradInput_adjoint` -/
example : dot3 D0 (gradInput 2 L1.W g0) = dot3 g0 (layerOut ⟨L1.W, none⟩ D0) ∧ dot3 D0 (gradInput 2 L1.W g0) = 12 :=
  ⟨gradInput_adjoint 2 L1.W (by decide) D0 g0, by decide⟩

end Examples

/-! ## histories: the stored branch output always belongs to the functions that are asked for -/

namespace Hist


theorem upd_same {α : Type} (f : Nat → α) (i : Nat) (v : α) : upd f i v i = v := by simp [upd]
theorem upd_other {α : Type} (f : Nat → α) (i j : Nat) (v : α) (h : j ≠ i) : upd f i v j = f j := by simp [upd, h]

/-- **after `_forward_branch(set s, iteration k)` the branch output stored in model `m` belongs to the
    CURRENT parameter batch of set `s`** — whatever the model held before (another set, a fixed input, the
    output of another iteration) and whoever sampled the set in this iteration. -/
theorem fb_holds (σ σ' : St) (m s : Nat) (k : Int) (h : step σ (.fb m s k) = some σ') :
    σ'.holds m = .set s (σ'.draws s) ∧ σ'.iter s = k ∧ 0 < σ'.draws s := by
  simp only [step] at h
  by_cases hk : k ≠ σ.iter s
  · simp only [hk, if_true, ne_eq, not_false_eq_true, Option.some.injEq] at h
    subst h
    simp [upd_same]
  · by_cases hd : σ.draws s = 0
    · simp [hk, hd] at h
    · simp only [hk, if_false, hd, Option.some.injEq] at h
      subst h
      refine ⟨by simp [upd_same], (Decidable.of_not_not hk).symm, Nat.pos_of_ne_zero hd⟩

/-- nothing else changes: other models keep their branch output, other sets their iteration and batches -/
theorem fb_frame (σ σ' : St) (m s : Nat) (k : Int) (h : step σ (.fb m s k) = some σ') :
    (∀ m', m' ≠ m → σ'.holds m' = σ.holds m') ∧ (∀ s', s' ≠ s → σ'.iter s' = σ.iter s' ∧ σ'.draws s' = σ.draws s') := by
  simp only [step] at h
  by_cases hk : k ≠ σ.iter s
  · simp only [hk, if_true, ne_eq, not_false_eq_true, Option.some.injEq] at h
    subst h
    exact ⟨fun m' hm => upd_other _ _ _ _ hm, fun s' hs => ⟨upd_other _ _ _ _ hs, upd_other _ _ _ _ hs⟩⟩
  · by_cases hd : σ.draws s = 0
    · simp [hk, hd] at h
    · simp only [hk, if_false, hd, Option.some.injEq] at h
      subst h
      exact ⟨fun m' hm => upd_other _ _ _ _ hm, fun _ _ => ⟨rfl, rfl⟩⟩

/-- a new iteration number draws new functions, the same iteration number re-uses them -/
theorem fb_draws (σ σ' : St) (m s : Nat) (k : Int) (h : step σ (.fb m s k) = some σ') :
    σ'.draws s = if k ≠ σ.iter s then σ.draws s + 1 else σ.draws s := by
  simp only [step] at h
  by_cases hk : k ≠ σ.iter s
  · simp only [hk, if_true, ne_eq, not_false_eq_true, Option.some.injEq] at h
    subst h
    simp [upd_same, hk]
  · by_cases hd : σ.draws s = 0
    · simp [hk, hd] at h
    · simp only [hk, if_false, hd, Option.some.injEq] at h
      subst h
      simp [hk]

/-- within one iteration the functions are shared: a second model (or the same model again, after
    anything else happened to it) that uses set `s` in the iteration in which it was already sampled gets
    the branch output of exactly the batch the first one used -/
theorem fb_shares_functions (σ σ1 σ2 : St) (m1 m2 s : Nat) (k : Int)
    (h1 : step σ (.fb m1 s k) = some σ1) (h2 : step σ1 (.fb m2 s k) = some σ2) :
    σ2.draws s = σ1.draws s ∧ σ2.holds m2 = .set s (σ1.draws s) := by
  have a := fb_holds σ σ1 m1 s k h1
  have b := fb_holds σ1 σ2 m2 s k h2
  have c := fb_draws σ1 σ2 m2 s k h2
  have hk : ¬ (k ≠ σ1.iter s) := by simp [a.2.1]
  rw [if_neg hk] at c
  exact ⟨c, by rw [b.1, c]⟩

/-- **a directly supplied input is ALWAYS evaluated anew**: after `fix_branch_input` / `forward(x, branch_inputs)`
    the model holds the features of exactly the (object, content, weights) version `tag` that was handed over —
    whatever it held before, in particular also when the very same object was handed over the time before
    (there is no "same object ⇒ skip" in the state machine) -/
theorem fix_holds (σ σ' : St) (m tag : Nat) (h : step σ (.fix m tag) = some σ') :
    σ'.holds m = .fixed tag := by
  simp only [step, Option.some.injEq] at h
  subst h
  simp [upd_same]

/-- … and it touches nothing else: other models, all function sets -/
theorem fix_frame (σ σ' : St) (m tag : Nat) (h : step σ (.fix m tag) = some σ') :
    (∀ m', m' ≠ m → σ'.holds m' = σ.holds m') ∧ σ'.iter = σ.iter ∧ σ'.draws = σ.draws := by
  simp only [step, Option.some.injEq] at h
  subst h
  exact ⟨fun m' hm => upd_other _ _ _ _ hm, rfl, rfl⟩

/-- handing over the same object twice with a change in between: the second call holds the NEW version -/
example : (run step init [.fix 0 0, .fix 0 1]).map (fun σ => σ.holds 0) = some (.fixed 1) := by decide

theorem run_append (stp : St → Op → Option St) : ∀ (h : List Op) (σ : St) (o : Op),
    run stp σ (h ++ [o]) = (run stp σ h).bind (fun σ' => stp σ' o)
  | [], σ, o => by
    simp only [List.nil_append, run, Option.bind_some]
    cases stp σ o <;> rfl
  | a :: h, σ, o => by
    simp only [List.cons_append, run]
    cases stp σ a with
    | none => rfl
    | some σ' => exact run_append stp h σ' o

/-- for EVERY history: if it ends with `_forward_branch(set s, k)` on model `m`, the model then holds the
    branch output of the current batch of set `s` -/
theorem history_last_fb (h : List Op) (σ σ' : St) (m s : Nat) (k : Int)
    (hr : run step σ (h ++ [.fb m s k]) = some σ') : σ'.holds m = .set s (σ'.draws s) := by
  rw [run_append] at hr
  cases hq : run step σ h with
  | none => simp [hq] at hr
  | some σ1 =>
    rw [hq] at hr
    exact (fb_holds σ1 σ' m s k hr).1

/-- NEGATIVE, pinned snapshot: condition on set 0, condition on set 1, condition on set 0 again in the same
    iteration — the model answers the third call with the functions of set 1 -/
theorem stepOld_stale :
    (run stepOld init [.fb 0 0 0, .fb 0 1 0, .fb 0 0 0]).map (fun σ => σ.holds 0) = some (.set 1 1) := by
  decide

/-- NEGATIVE, pinned snapshot: a second model sharing the function set never evaluates its branch net -/
theorem stepOld_second_model_empty :
    (run stepOld init [.fb 0 0 0, .fb 1 0 0]).map (fun σ => σ.holds 1) = some .empty := by
  decide

/-- the repaired code on the same histories -/
example : (run step init [.fb 0 0 0, .fb 0 1 0, .fb 0 0 0]).map (fun σ => (σ.holds 0, σ.draws 0)) = some (.set 0 1, 1) ∧
    (run step init [.fb 0 0 0, .fb 1 0 0]).map (fun σ => (σ.holds 1, σ.draws 0)) = some (.set 0 1, 1) ∧
    (run step init [.fb 0 0 0, .fix 0 7, .fb 0 0 0, .fb 0 0 1]).map (fun σ => (σ.holds 0, σ.draws 0)) = some (.set 0 2, 2) := by
  decide

end Hist

end TPV.DeepONet
