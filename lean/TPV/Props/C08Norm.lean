/-
  C08 ∘ C18 — the normalisation layer built from a domain's bounding box maps every point of the domain into the
  cube: `norm_box` (Props/C08.lean, one coordinate) is the same fact as C18's `normCoord_bounds`; here C18's
  `domain_normalized_into_cube` (bounding box encloses the domain ⇒ each row lands in [-1,1]^d) is lifted to the
  model's `NormalizationLayer` applied to a whole batch.  Nothing is re-proved: the geometry is cited from C18.
-/
import TPV.Props.C08
import TPV.Props.C18
namespace TPV.Net
open TPV.Geom
variable {K : Type} [Field K] [LinearOrder K] [IsStrictOrderedRing K]

/-- **`NormalizationLayer(domain)` sends a batch of points of the domain into `[-1, 1]^d`.**  `box` is the
    domain's bounding box as the code computes it (C18's model `bbox`), `rows` are points of the domain (flattened
    in the order of the domain's variables, presented in the layer's own space `S`). -/
theorem normalizationLayer_into_cube (D : Dom K) (ρs : List (Env K)) (ρ : Env K) (box : List (K × K))
    (S : Space) (sh : List Nat) (rows : List (List K))
    (hw : D.wfVars) (hρ : ρ ∈ ρs) (hb : bbox D ρs ρ = some box) (hne : ∀ b ∈ box, b.1 < b.2)
    (hrows : ∀ p ∈ rows, p.length = sdim S ∧ ∃ pts, Agree D pts ρ ∧ mem D pts ρ ∧ flatPt D.vars pts = some p) :
    ∃ out, (NormalizationLayer S box).apply ⟨S, sh, rows⟩ = some ⟨S, sh, out⟩ ∧
      ∀ y ∈ out, ∀ z ∈ y, -1 ≤ z ∧ z ≤ 1 := by
  have hmap : ∃ out, mapOpt (normRow box) rows = some out ∧ (∀ y ∈ out, y.length = sdim S) ∧
      ∀ y ∈ out, ∀ z ∈ y, -1 ≤ z ∧ z ≤ 1 := by
    induction rows with
    | nil => exact ⟨[], rfl, by simp, by simp⟩
    | cons p ps ih =>
      obtain ⟨out, ho, hl, hc⟩ := ih (fun q hq => hrows q (by simp [hq]))
      obtain ⟨hlen, pts, hag, hm, hp⟩ := hrows p (by simp)
      obtain ⟨y, hy, hyl, hyc⟩ := domain_normalized_into_cube D ρs ρ pts box p hw hρ hag hm hb hp hne
      refine ⟨y :: out, by simp [mapOpt, hy, ho], ?_, ?_⟩
      · intro y' hy'
        rcases List.mem_cons.mp hy' with rfl | h
        · rw [hyl, hlen]
        · exact hl y' h
      · intro y' hy'
        rcases List.mem_cons.mp hy' with rfl | h
        · exact hyc
        · exact hc y' h
  obtain ⟨out, ho, hl, hc⟩ := hmap
  refine ⟨out, ?_, hc⟩
  simp [NormalizationLayer, Model.apply, fixOrder, ho]
  exact hl

end TPV.Net
