/-
  C08 — models are row-wise functions of named variables.
  Theorems about `TPV.Net.Model.apply` (lean/TPV/Model/Net.lean), for every architecture tree, every row
  function (hence all hyper-parameters and weights), every space, batch and batch shape.
-/
import TPV.Model.Net
import Mathlib.Algebra.Order.Field.Rat
import Mathlib.Tactic.Ring
import Mathlib.Tactic.Linarith
import Mathlib.Tactic.FieldSimp
namespace TPV.Net
variable {K : Type}

/-! ## lemmas about `mapOpt` -/

theorem mapOpt_some_id (rows : List (List K)) : mapOpt (fun r => some r) rows = some rows := by
  induction rows with
  | nil => rfl
  | cons r rs ih => simp [mapOpt, ih]

theorem mapOpt_bind {α β γ : Type} (g : α → Option β) (h : β → Option γ) (l : List α) :
    (mapOpt g l).bind (mapOpt h) = mapOpt (fun a => (g a).bind h) l := by
  induction l with
  | nil => rfl
  | cons a as ih =>
    simp only [mapOpt]
    cases ga : g a with
    | none => simp
    | some b =>
      simp only [Option.bind_some]
      rw [← ih]
      cases mapOpt g as with
      | none => simp
      | some bs => simp [mapOpt]

theorem mapOpt_length {α β : Type} (g : α → Option β) : ∀ (l : List α) (l' : List β), mapOpt g l = some l' → l'.length = l.length := by
  intro l
  induction l with
  | nil => intro l' h; simp [mapOpt] at h; subst h; rfl
  | cons a as ih =>
    intro l' h
    simp only [mapOpt] at h
    cases ga : g a with
    | none => simp [ga] at h
    | some b =>
      cases hm : mapOpt g as with
      | none => simp [ga, hm] at h
      | some bs =>
        simp [ga, hm] at h
        subst h
        simp [ih bs hm]

theorem mapOpt_append {α β : Type} (g : α → Option β) (l₁ l₂ : List α) :
    mapOpt g (l₁ ++ l₂) = (mapOpt g l₁).bind fun a => (mapOpt g l₂).map (a ++ ·) := by
  induction l₁ with
  | nil => simp [mapOpt]
  | cons a as ih =>
    simp only [List.cons_append, mapOpt, ih]
    cases g a with
    | none => simp
    | some b =>
      cases mapOpt g as with
      | none => simp
      | some bs => cases mapOpt g l₂ <;> simp

theorem mapOpt_getElem {α β : Type} (g : α → Option β) : ∀ (l : List α) (l' : List β), mapOpt g l = some l' →
    ∀ i (h : i < l.length) (h' : i < l'.length), g l[i] = some l'[i] := by
  intro l
  induction l with
  | nil => intro l' _ i h; simp at h
  | cons a as ih =>
    intro l' h i hi hi'
    simp only [mapOpt] at h
    cases ga : g a with
    | none => simp [ga] at h
    | some b =>
      cases hm : mapOpt g as with
      | none => simp [ga, hm] at h
      | some bs =>
        simp [ga, hm] at h
        subst h
        cases i with
        | zero => simp [ga]
        | succ j => simp; exact ih bs hm j (by simpa using hi) (by simpa using hi')

/-- rows picked by an index list (a sub-batch, a permutation, single rows, repetitions) -/
def gatherRows {α : Type} (rows : List α) (idx : List Nat) : List α := idx.filterMap (rows[·]?)

theorem mapOpt_gather {α β : Type} (g : α → Option β) (l : List α) (l' : List β) (h : mapOpt g l = some l') (idx : List Nat) :
    mapOpt g (gatherRows l idx) = some (gatherRows l' idx) := by
  have hl := mapOpt_length g l l' h
  induction idx with
  | nil => rfl
  | cons i is ih =>
    simp only [gatherRows, List.filterMap_cons] at ih ⊢
    by_cases hi : i < l.length
    · have hi' : i < l'.length := hl ▸ hi
      simp only [List.getElem?_eq_getElem hi, List.getElem?_eq_getElem hi', mapOpt, ih,
        mapOpt_getElem g l l' h i hi hi']
      simp
    · have hi' : ¬ i < l'.length := hl ▸ hi
      simp only [List.getElem?_eq_none (Nat.le_of_not_lt hi), List.getElem?_eq_none (Nat.le_of_not_lt hi'), ih]

/-- `F` answers on input space `S` either never, or row by row: in a fixed space, with the batch shape
    passed through, every row mapped by one function `g` that sees nothing but that row -/
def RowWiseAt (F : Pts K → Option (Pts K)) (S : Space) : Prop :=
  (∀ sh rows, F ⟨S, sh, rows⟩ = none) ∨
  ∃ (So : Space) (g : List K → Option (List K)),
    ∀ sh rows, F ⟨S, sh, rows⟩ = (mapOpt g rows).map (fun out => ⟨So, sh, out⟩)

def RowWise (F : Pts K → Option (Pts K)) : Prop := ∀ S, RowWiseAt F S

theorem rowWise_some : RowWise (fun p : Pts K => some p) := by
  intro S; right
  exact ⟨S, fun r => some r, fun sh rows => by simp [mapOpt_some_id]⟩

theorem rowWise_select (ks : List String) : RowWise (fun p : Pts K => select p ks) := by
  intro S
  unfold select
  cases h1 : selSpace S ks with
  | none => left; intro sh rows; simp [h1]
  | some sp =>
    cases h2 : colIdx S ks with
    | none => left; intro sh rows; simp [h1, h2]
    | some idx => right; exact ⟨sp, gatherCols idx, fun sh rows => by simp [h1, h2]⟩

theorem rowWise_fixOrder (inS : Space) : RowWise (fun p : Pts K => fixOrder inS p) := by
  intro S
  unfold fixOrder
  by_cases h : S = inS
  · right; exact ⟨S, fun r => some r, fun sh rows => by simp [h, mapOpt_some_id]⟩
  · by_cases h2 : sameKeys S inS = true
    · rcases rowWise_select (K := K) (keys inS) S with hn | ⟨So, g, hg⟩
      · left; intro sh rows; simp [h, h2]; exact hn sh rows
      · right; exact ⟨So, g, fun sh rows => by simp [h, h2]; exact hg sh rows⟩
    · left; intro sh rows; simp [h, h2]

theorem rowWise_comp {F G : Pts K → Option (Pts K)} (hF : RowWise F) (hG : RowWise G) :
    RowWise (fun p => (F p).bind G) := by
  intro S
  rcases hF S with hn | ⟨S1, g1, h1⟩
  · left; intro sh rows; simp [hn sh rows]
  · rcases hG S1 with hn | ⟨S2, g2, h2⟩
    · left; intro sh rows
      simp only [h1 sh rows]
      cases mapOpt g1 rows with
      | none => rfl
      | some r1 => simp [hn sh r1]
    · right
      refine ⟨S2, fun r => (g1 r).bind g2, fun sh rows => ?_⟩
      simp only [h1 sh rows, ← mapOpt_bind]
      cases mapOpt g1 rows with
      | none => rfl
      | some r1 => simp [h2 sh r1]

theorem mapOpt_all {α β : Type} (f : α → Option β) (P : β → Bool) (l : List α) :
    ((mapOpt f l).bind fun out => if out.all P then some out else none)
      = mapOpt (fun a => (f a).bind fun y => if P y then some y else none) l := by
  induction l with
  | nil => rfl
  | cons a as ih =>
    simp only [mapOpt]
    rw [← ih]
    cases f a with
    | none => rfl
    | some b =>
      cases mapOpt f as with
      | none => cases P b <;> simp
      | some bs => cases hb : P b <;> cases hbs : bs.all P <;> simp [hb]

theorem rowWise_leafMap (o : Space) (f : List K → Option (List K)) :
    RowWise (fun q : Pts K => (mapOpt f q.rows).bind fun rows =>
      if rows.all (fun r => r.length == sdim o) then some ⟨o, q.shape, rows⟩ else none) := by
  intro S; right
  refine ⟨o, fun r => (f r).bind fun y => if y.length == sdim o then some y else none, fun sh rows => ?_⟩
  rw [← mapOpt_all]
  show ((mapOpt f rows).bind fun out =>
      if out.all (fun r => r.length == sdim o) then some (⟨o, sh, out⟩ : Pts K) else none) = _
  cases mapOpt f rows with
  | none => rfl
  | some out => simp only [Option.bind_some]; split <;> simp


/-! ## Parallel: the join of row-wise parts is row-wise -/

theorem hcat_cons (a b : List K) (ra rb : List (List K)) :
    hcat (a :: ra) (b :: rb) = (hcat ra rb).map ((a ++ b) :: ·) := by
  unfold hcat
  by_cases h : ra.length = rb.length <;> simp [h]

theorem hcat_mapOpt {α : Type} (ga gm : α → Option (List K)) (rows : List α) :
    ((mapOpt ga rows).bind fun ra => (mapOpt gm rows).bind fun rm => hcat ra rm)
      = mapOpt (fun r => (ga r).bind fun a => (gm r).map (a ++ ·)) rows := by
  induction rows with
  | nil => simp [mapOpt, hcat]
  | cons r rs ih =>
    simp only [mapOpt]
    rw [← ih]
    cases ga r with
    | none => simp
    | some a =>
      cases gm r with
      | none => cases mapOpt ga rs <;> simp
      | some b =>
        cases mapOpt ga rs with
        | none => simp
        | some ra =>
          cases mapOpt gm rs with
          | none => simp
          | some rm => simp [hcat_cons]

/-- the loop of `Parallel.forward` + `Points.joined`, started from an accumulated table that is itself
    a row-wise function `ga` of the input rows -/
def parAcc (ms : List (Model K)) (Sa : Space) (ga : List K → Option (List K)) (p : Pts K) : Option (Pts K) :=
  (applyPar ms p).bind fun outs => (mapOpt ga p.rows).bind fun ra => joinLoop p.shape ⟨Sa, p.shape, ra⟩ outs

theorem parAcc_cons (m : Model K) (ms : List (Model K)) (S Sa : Space) (ga : List K → Option (List K))
    (hm : RowWise m.apply) :
    (∀ sh rows, parAcc (m :: ms) Sa ga ⟨S, sh, rows⟩ = none) ∨
    ∃ (Sm : Space) (gm : List K → Option (List K)), ∀ sh rows, parAcc (m :: ms) Sa ga ⟨S, sh, rows⟩ =
      parAcc ms (spaceMul Sa Sm) (fun r => (ga r).bind fun a => (gm r).map (a ++ ·)) ⟨S, sh, rows⟩ := by
  have hF := rowWise_comp (rowWise_select (K := K) (keys m.inS)) hm S
  have hunf : ∀ p : Pts K, applyPar (m :: ms) p =
      ((select p (keys m.inS)).bind m.apply).bind fun o => (applyPar ms p).map (o :: ·) := by
    intro p; simp [applyPar, Option.bind_assoc]
  rcases hF with hn | ⟨Sm, gm, hg⟩
  · left; intro sh rows
    have := hn sh rows
    simp only at this
    simp [parAcc, hunf, this]
  · by_cases hd : disjointKeys Sa Sm = true
    · right
      refine ⟨Sm, gm, fun sh rows => ?_⟩
      have := hg sh rows
      simp only at this
      simp only [parAcc, hunf, this]
      rw [← hcat_mapOpt]
      cases mapOpt gm rows with
      | none =>
        cases applyPar ms ⟨S, sh, rows⟩ with
        | none => simp
        | some outs => cases mapOpt ga rows <;> simp
      | some rm =>
        cases applyPar ms ⟨S, sh, rows⟩ with
        | none => simp
        | some outs =>
          cases mapOpt ga rows with
          | none => simp
          | some ra => simp [joinLoop, hd]
    · left; intro sh rows
      have := hg sh rows
      simp only at this
      simp only [parAcc, hunf, this]
      cases mapOpt gm rows with
      | none => simp
      | some rm =>
        cases applyPar ms ⟨S, sh, rows⟩ with
        | none => simp
        | some outs =>
          cases mapOpt ga rows with
          | none => simp
          | some ra => simp [joinLoop, hd]


theorem zipWith_nil_left : ∀ (rm : List (List K)),
    List.zipWith (fun x1 x2 => x1 ++ x2) (List.replicate rm.length ([] : List K)) rm = rm
  | [] => rfl
  | r :: rs => by
    rw [List.length_cons, List.replicate_succ, List.zipWith_cons_cons, zipWith_nil_left rs]; rfl

theorem hcat_nil_left (rm : List (List K)) : hcat (rm.map fun _ => ([] : List K)) rm = some rm := by
  unfold hcat
  have e : (rm.map fun _ => ([] : List K)) = List.replicate rm.length [] := by
    induction rm with
    | nil => rfl
    | cons r rs ih => rw [List.map_cons, ih, List.length_cons, List.replicate_succ]
  rw [e]
  simp only [List.length_replicate, if_true, zipWith_nil_left]

theorem hcat_replicate_left (rm : List (List K)) : hcat (List.replicate rm.length ([] : List K)) rm = some rm := by
  have := hcat_nil_left rm
  simpa using this

mutual
/-- **Row-wise.** Every model (any architecture tree, any row functions) answers on a given input space
    either never, or row by row with the batch shape passed through. -/
theorem apply_rowWise : (m : Model K) → RowWise m.apply
  | .leaf i o fx f => by
    have h : (Model.leaf i o fx f).apply = fun p =>
        ((fun p => if fx then fixOrder i p else some p) p).bind (fun q : Pts K => (mapOpt f q.rows).bind fun rows =>
          if rows.all (fun r => r.length == sdim o) then some ⟨o, q.shape, rows⟩ else none) := by
      funext p; simp [Model.apply]
    rw [h]
    refine rowWise_comp ?_ (rowWise_leafMap o f)
    cases fx
    · simpa using rowWise_some (K := K)
    · simpa using rowWise_fixOrder (K := K) i
  | .seq m ms => by
    have h : (Model.seq m ms).apply = fun p =>
        ((fun p => fixOrder m.inS p) p).bind (fun q => ((fun q => m.apply q) q).bind (applyChain ms)) := by
      funext p; simp [Model.apply]
    rw [h]
    exact rowWise_comp (rowWise_fixOrder _) (rowWise_comp (apply_rowWise m) (chain_rowWise ms))
  | .par [] => by
    intro S; left; intro sh rows
    simp [Model.apply, applyPar, joined]
  | .par (m :: ms) => by
    intro S
    have hF := rowWise_comp (rowWise_select (K := K) (keys m.inS)) (apply_rowWise m) S
    have hunf : ∀ p : Pts K, applyPar (m :: ms) p =
        ((select p (keys m.inS)).bind m.apply).bind fun o => (applyPar ms p).map (o :: ·) := by
      intro p; simp [applyPar, Option.bind_assoc]
    rcases hF with hn | ⟨Sm, gm, hg⟩
    · left; intro sh rows
      have := hn sh rows
      simp only at this
      simp [Model.apply, hunf, this]
    · have key : ∀ sh rows, (Model.par (m :: ms)).apply ⟨S, sh, rows⟩ = parAcc ms (spaceMul [] Sm) gm ⟨S, sh, rows⟩ := by
        intro sh rows
        have := hg sh rows
        simp only at this
        simp only [Model.apply, hunf, this, parAcc]
        cases mapOpt gm rows with
        | none => cases applyPar ms ⟨S, sh, rows⟩ <;> simp
        | some rm =>
          cases applyPar ms ⟨S, sh, rows⟩ with
          | none => simp
          | some outs => simp [joined, joinLoop, disjointKeys, keys, hcat_replicate_left]
      rcases parAcc_rowWise ms S (spaceMul [] Sm) gm with hn | ⟨So, g, hg2⟩
      · left; intro sh rows; rw [key]; exact hn sh rows
      · right; exact ⟨So, g, fun sh rows => by rw [key]; exact hg2 sh rows⟩
theorem chain_rowWise : (ms : List (Model K)) → RowWise (applyChain ms)
  | [] => by
    have h : applyChain ([] : List (Model K)) = fun p => some p := by funext p; simp [applyChain]
    rw [h]; exact rowWise_some
  | m :: ms => by
    have h : applyChain (m :: ms) = fun p => ((fun q => m.apply q) p).bind (applyChain ms) := by
      funext p; simp [applyChain]
    rw [h]
    exact rowWise_comp (apply_rowWise m) (chain_rowWise ms)
theorem parAcc_rowWise : (ms : List (Model K)) → ∀ (S Sa : Space) (ga : List K → Option (List K)),
    RowWiseAt (parAcc ms Sa ga) S
  | [], S, Sa, ga => by
    right
    refine ⟨Sa, ga, fun sh rows => ?_⟩
    simp only [parAcc, applyPar, Option.bind_some, joinLoop]
    cases mapOpt ga rows <;> simp
  | m :: ms, S, Sa, ga => by
    rcases parAcc_cons m ms S Sa ga (apply_rowWise m) with hn | ⟨Sm, gm, h⟩
    · left; exact hn
    · rcases parAcc_rowWise ms S (spaceMul Sa Sm) (fun r => (ga r).bind fun a => (gm r).map (a ++ ·)) with hn | ⟨So, g, hg⟩
      · left; intro sh rows; rw [h]; exact hn sh rows
      · right; exact ⟨So, g, fun sh rows => by rw [h]; exact hg sh rows⟩
end


/-! ### what row-wise means for batches -/

theorem apply_some_iff (m : Model K) (S : Space) (sh : List Nat) (rows : List (List K)) (o : Pts K)
    (h : m.apply ⟨S, sh, rows⟩ = some o) :
    ∃ (g : List K → Option (List K)), mapOpt g rows = some o.rows ∧ o.shape = sh ∧
      ∀ sh' rows', m.apply ⟨S, sh', rows'⟩ = (mapOpt g rows').map (fun out => ⟨o.space, sh', out⟩) := by
  rcases apply_rowWise m S with hn | ⟨So, g, hg⟩
  · rw [hn] at h; cases h
  · rw [hg] at h
    cases hm : mapOpt g rows with
    | none => rw [hm] at h; cases h
    | some out =>
      rw [hm] at h
      simp at h
      subst h
      exact ⟨g, hm, rfl, hg⟩

/-- **Each row independently of the rest of the batch, and of the arrangement into batch axes.**
    If a batch is accepted, then for every index list `idx` (a sub-batch, a permutation of the rows, a
    single row, repetitions) and every batch shape `sh'` the model accepts the rows picked by `idx` and
    answers with exactly the picked rows of the original answer. -/
theorem apply_gather (m : Model K) (S : Space) (sh : List Nat) (rows : List (List K)) (o : Pts K)
    (h : m.apply ⟨S, sh, rows⟩ = some o) (idx : List Nat) (sh' : List Nat) :
    m.apply ⟨S, sh', gatherRows rows idx⟩ = some ⟨o.space, sh', gatherRows o.rows idx⟩ := by
  obtain ⟨g, hm, _, hg⟩ := apply_some_iff m S sh rows o h
  rw [hg, mapOpt_gather g rows o.rows hm idx]; rfl

/-- the batch shape is passed through and the answer has one row per input row -/
theorem apply_shape_rows (m : Model K) (S : Space) (sh : List Nat) (rows : List (List K)) (o : Pts K)
    (h : m.apply ⟨S, sh, rows⟩ = some o) : o.shape = sh ∧ o.rows.length = rows.length := by
  obtain ⟨g, hm, hs, _⟩ := apply_some_iff m S sh rows o h
  exact ⟨hs, mapOpt_length g rows o.rows hm⟩

/-- row `i` of the answer is the answer to row `i` presented alone -/
theorem apply_single_row (m : Model K) (S : Space) (sh : List Nat) (rows : List (List K)) (o : Pts K)
    (h : m.apply ⟨S, sh, rows⟩ = some o) (i : Nat) (hi : i < rows.length) (hi' : i < o.rows.length) :
    m.apply ⟨S, [1], [rows[i]]⟩ = some ⟨o.space, [1], [o.rows[i]]⟩ := by
  have := apply_gather m S sh rows o h [i] [1]
  simpa [gatherRows, List.getElem?_eq_getElem hi, List.getElem?_eq_getElem hi'] using this

/-- re-arranging the same rows into other batch axes changes nothing but the reported shape -/
theorem apply_reshape (m : Model K) (S : Space) (sh sh' : List Nat) (rows : List (List K)) :
    m.apply ⟨S, sh', rows⟩ = (m.apply ⟨S, sh, rows⟩).map (fun o => { o with shape := sh' }) := by
  rcases apply_rowWise m S with hn | ⟨So, g, hg⟩
  · simp [hn]
  · rw [hg, hg]; cases mapOpt g rows <;> simp

/-- concatenated batches: accepted iff both parts are, and then the answer is the concatenation -/
theorem apply_append (m : Model K) (S : Space) (sh₁ sh₂ sh : List Nat) (r₁ r₂ : List (List K)) :
    m.apply ⟨S, sh, r₁ ++ r₂⟩ =
      (m.apply ⟨S, sh₁, r₁⟩).bind fun o₁ => (m.apply ⟨S, sh₂, r₂⟩).map fun o₂ => ⟨o₁.space, sh, o₁.rows ++ o₂.rows⟩ := by
  rcases apply_rowWise m S with hn | ⟨So, g, hg⟩
  · simp [hn]
  · rw [hg, hg, hg, mapOpt_append]
    cases mapOpt g r₁ <;> cases mapOpt g r₂ <;> simp


/-! ## Named variables: the same data in another variable order -/

/-- the values bound to variable `v` in a row (the slice `_variable_slices[v]`) -/
def coordsRow (S : Space) (row : List K) (v : String) : Option (List K) :=
  match start S v, dimOf S v with
  | some s, some d => some ((row.drop s).take d)
  | _, _ => none

theorem mapOpt_congr {α β : Type} (f g : α → Option β) (l : List α) (h : ∀ a ∈ l, f a = g a) :
    mapOpt f l = mapOpt g l := by
  induction l with
  | nil => rfl
  | cons a as ih =>
    simp only [mapOpt]
    rw [h a (by simp), ih (fun b hb => h b (by simp [hb]))]

theorem mapOpt_congr2 {α α' β : Type} (f : α → Option β) (g : α' → Option β) :
    ∀ (l : List α) (l' : List α'), l.length = l'.length →
      (∀ i (h : i < l.length) (h' : i < l'.length), f l[i] = g l'[i]) → mapOpt f l = mapOpt g l'
  | [], [], _, _ => rfl
  | [], _ :: _, h, _ => by simp at h
  | _ :: _, [], h, _ => by simp at h
  | a :: as, b :: bs, hl, h => by
    simp only [mapOpt]
    have h0 := h 0 (by simp) (by simp)
    simp only [List.getElem_cons_zero] at h0
    rw [h0, mapOpt_congr2 f g as bs (by simpa using hl) (fun i hi hi' => by
      have := h (i + 1) (by simpa using hi) (by simpa using hi')
      simpa using this)]

theorem mapOpt_range' (row : List K) : ∀ (d s : Nat), s + d ≤ row.length →
    mapOpt (fun i => row[i]?) (List.range' s d) = some ((row.drop s).take d)
  | 0, s, _ => by simp [mapOpt]
  | d + 1, s, h => by
    have hs : s < row.length := by omega
    simp only [List.range'_succ, mapOpt, List.getElem?_eq_getElem hs, Option.bind_some]
    rw [mapOpt_range' row d (s + 1) (by omega)]
    simp only [Option.map_some]
    rw [List.drop_eq_getElem_cons hs, List.take_succ_cons]

theorem start_isSome (S : Space) (v : String) : (start S v).isSome = (dimOf S v).isSome := by
  induction S with
  | nil => rfl
  | cons wd S ih =>
    obtain ⟨w, d⟩ := wd
    simp only [start, dimOf]
    by_cases h : w = v
    · simp [h]
    · simp [h, ih]

theorem start_dim_le (S : Space) (v : String) (s d : Nat) (hs : start S v = some s) (hd : dimOf S v = some d) :
    s + d ≤ sdim S := by
  induction S generalizing s with
  | nil => simp [start] at hs
  | cons wd S ih =>
    obtain ⟨w, e⟩ := wd
    simp only [start, dimOf, sdim] at *
    by_cases h : w = v
    · simp [h] at hs hd; omega
    · simp only [h, if_false] at hs hd
      cases hs' : start S v with
      | none => simp [hs'] at hs
      | some s' =>
        simp [hs'] at hs
        have := ih s' hs' hd
        omega

theorem colIdx_isSome (S : Space) (ks : List String) : (colIdx S ks).isSome = (selSpace S ks).isSome := by
  induction ks with
  | nil => rfl
  | cons k ks ih =>
    simp only [colIdx, selSpace, mapOpt] at ih ⊢
    have h1 := start_isSome S k
    cases hs : start S k <;> cases hd : dimOf S k <;> simp [hs, hd] at h1 ⊢
    cases hc : colIdx S ks <;> cases hm : mapOpt (fun k => Option.map (fun d => (k, d)) (dimOf S k)) ks <;>
      simp [hc, hm] at ih ⊢

/-- **Column selection is by name**: what `points[..., names]` picks from a row is the concatenation of the
    values bound to the requested names, in the requested order. -/
theorem gatherCols_colIdx (S : Space) (row : List K) (hrow : row.length = sdim S) :
    ∀ (ks : List String) (idx : List Nat), colIdx S ks = some idx →
      gatherCols idx row = (mapOpt (coordsRow S row) ks).map List.flatten
  | [], idx, h => by
    simp [colIdx] at h; subst h; simp [gatherCols, mapOpt]
  | k :: ks, idx, h => by
    simp only [colIdx] at h
    cases hs : start S k with
    | none => simp [hs] at h
    | some s =>
      cases hd : dimOf S k with
      | none => simp [hs, hd] at h
      | some d =>
        cases hc : colIdx S ks with
        | none => simp [hs, hd, hc] at h
        | some r =>
          simp [hs, hd, hc] at h
          subst h
          have ih := gatherCols_colIdx S row hrow ks r hc
          have hle := start_dim_le S k s d hs hd
          simp only [gatherCols] at ih ⊢
          rw [mapOpt_append, mapOpt_range' row d s (by omega), ih]
          simp only [mapOpt, coordsRow, hs, hd, Option.bind_some]
          cases mapOpt (coordsRow S row) ks <;> simp

theorem coordsRow_cons_ne (w : String) (d : Nat) (S : Space) (row : List K) (v : String) (h : w ≠ v) :
    coordsRow ((w, d) :: S) row v = coordsRow S (row.drop d) v := by
  simp only [coordsRow, start, dimOf, h, if_false]
  cases start S v <;> cases dimOf S v <;> simp [List.drop_drop]

/-- a row is the concatenation of the values of its variables, in the order of its space -/
theorem coords_flatten : ∀ (S : Space) (row : List K), (keys S).Nodup → row.length = sdim S →
    (mapOpt (coordsRow S row) (keys S)).map List.flatten = some row
  | [], row, _, h => by
    simp [sdim] at h; subst h; simp [keys, mapOpt]
  | (w, d) :: S, row, hn, h => by
    simp only [keys, List.map_cons, List.nodup_cons] at hn
    have hw : ∀ v ∈ keys S, w ≠ v := fun v hv hwv => hn.1 (by simpa [keys, hwv] using hv)
    simp only [sdim] at h
    have ih := coords_flatten S (row.drop d) hn.2 (by simp; omega)
    simp only [keys, List.map_cons, mapOpt]
    have h1 : coordsRow ((w, d) :: S) row w = some (row.take d) := by
      simp [coordsRow, start, dimOf]
    have hc := mapOpt_congr _ (coordsRow S (row.drop d)) (keys S) (fun v hv => coordsRow_cons_ne w d S row v (hw v hv))
    simp only [keys] at hc ih
    rw [h1, hc]
    simp only [Option.bind_some]
    cases hm : mapOpt (coordsRow S (List.drop d row)) (List.map (fun x => x.1) S) with
    | none => simp [hm] at ih
    | some parts =>
      simp [hm] at ih
      simp [ih]

theorem dimOf_mem (S : Space) (v : String) (d : Nat) (h : dimOf S v = some d) : (v, d) ∈ S := by
  induction S with
  | nil => simp [dimOf] at h
  | cons wd S ih =>
    obtain ⟨w, e⟩ := wd
    simp only [dimOf] at h
    by_cases hw : w = v
    · simp [hw] at h; simp [hw, h]
    · simp [hw] at h; simp [ih h]

theorem dimOf_of_mem (S : Space) (hn : (keys S).Nodup) (v : String) (d : Nat) (h : (v, d) ∈ S) : dimOf S v = some d := by
  induction S with
  | nil => simp at h
  | cons wd S ih =>
    obtain ⟨w, e⟩ := wd
    simp only [keys, List.map_cons, List.nodup_cons] at hn
    simp only [dimOf]
    rcases List.mem_cons.mp h with h | h
    · cases h; simp
    · have : w ≠ v := fun hwv => hn.1 (by
        simp only [List.mem_map]; exact ⟨(v, d), h, hwv.symm⟩)
      simp [this, ih hn.2 h]

theorem dimOf_perm (A B : Space) (hA : (keys A).Nodup) (hB : (keys B).Nodup) (h : A.Perm B) (v : String) :
    dimOf A v = dimOf B v := by
  cases ha : dimOf A v with
  | some d => exact (dimOf_of_mem B hB v d ((h.mem_iff).mp (dimOf_mem A v d ha))).symm
  | none =>
    cases hb : dimOf B v with
    | none => rfl
    | some d =>
      have := dimOf_of_mem A hA v d ((h.mem_iff).mpr (dimOf_mem B v d hb))
      rw [ha] at this; cases this

/-- two presentations of the same named data: the same variables with the same dimensions in any order,
    the same batch shape, and row by row the same values bound to every variable name -/
structure SameNamed (p q : Pts K) : Prop where
  nodup_p : (keys p.space).Nodup
  nodup_q : (keys q.space).Nodup
  perm : p.space.Perm q.space
  shape : p.shape = q.shape
  len : p.rows.length = q.rows.length
  wf_p : ∀ r ∈ p.rows, r.length = sdim p.space
  wf_q : ∀ r ∈ q.rows, r.length = sdim q.space
  coords : ∀ i (hp : i < p.rows.length) (hq : i < q.rows.length) (v : String),
    coordsRow p.space p.rows[i] v = coordsRow q.space q.rows[i] v

theorem selSpace_perm {p q : Pts K} (h : SameNamed p q) (ks : List String) :
    selSpace p.space ks = selSpace q.space ks := by
  unfold selSpace
  exact mapOpt_congr _ _ _ (fun k _ => by rw [dimOf_perm _ _ h.nodup_p h.nodup_q h.perm k])

/-- **Selection sees only the named values**: picking variables by name from two presentations of the same
    named data gives the same table. -/
theorem select_sameNamed {p q : Pts K} (h : SameNamed p q) (ks : List String) : select p ks = select q ks := by
  unfold select
  rw [← selSpace_perm h ks]
  have c1 := colIdx_isSome p.space ks
  have c2 := colIdx_isSome q.space ks
  rw [← selSpace_perm h ks] at c2
  cases hs : selSpace p.space ks with
  | none => simp
  | some sp =>
    rw [hs] at c1 c2
    cases hi : colIdx p.space ks with
    | none => rw [hi] at c1; simp at c1
    | some ip =>
      cases hj : colIdx q.space ks with
      | none => rw [hj] at c2; simp at c2
      | some iq =>
        simp only [h.shape]
        congr 1
        apply mapOpt_congr2 _ _ _ _ h.len
        intro i hp hq
        rw [gatherCols_colIdx p.space p.rows[i] (h.wf_p _ (List.getElem_mem hp)) ks ip hi,
          gatherCols_colIdx q.space q.rows[i] (h.wf_q _ (List.getElem_mem hq)) ks iq hj]
        congr 1
        exact mapOpt_congr _ _ _ (fun v _ => h.coords i hp hq v)


theorem selSpace_self : ∀ (S : Space), (keys S).Nodup → selSpace S (keys S) = some S
  | [], _ => rfl
  | (w, d) :: S, hn => by
    simp only [keys, List.map_cons, List.nodup_cons] at hn
    have ih := selSpace_self S hn.2
    have hc := mapOpt_congr (fun k => Option.map (fun d' => (k, d')) (dimOf ((w, d) :: S) k))
      (fun k => Option.map (fun d' => (k, d')) (dimOf S k)) (keys S) (fun v hv => by
        have : w ≠ v := fun hwv => hn.1 (by simpa [keys, hwv] using hv)
        simp [dimOf, this])
    have hw : dimOf ((w, d) :: S) w = some d := by simp [dimOf]
    simp only [selSpace] at ih
    simp only [selSpace, keys, List.map_cons, mapOpt, hw, Option.map_some, Option.bind_some]
    simp only [keys] at hc ih
    rw [hc, ih]; rfl

/-- selecting all variables in their own order is the identity -/
theorem select_self (p : Pts K) (hn : (keys p.space).Nodup) (hwf : ∀ r ∈ p.rows, r.length = sdim p.space) :
    select p (keys p.space) = some p := by
  unfold select
  have hs := selSpace_self p.space hn
  have hc := colIdx_isSome p.space (keys p.space)
  rw [hs] at hc
  cases hi : colIdx p.space (keys p.space) with
  | none => rw [hi] at hc; simp at hc
  | some idx =>
    simp only [hs]
    have : mapOpt (gatherCols idx) p.rows = some p.rows := by
      rw [mapOpt_congr (gatherCols idx) (fun r => some r) p.rows (fun r hr => by
        rw [gatherCols_colIdx p.space r (hwf r hr) _ idx hi, coords_flatten p.space r hn (hwf r hr)])]
      exact mapOpt_some_id p.rows
    simp [this]

theorem sameKeys_self (S : Space) : sameKeys S S = true := by
  simp [sameKeys, List.all_eq_true]

theorem sameKeys_perm (A B S : Space) (h : A.Perm B) : sameKeys A S = sameKeys B S := by
  have hk : ∀ k, k ∈ keys A ↔ k ∈ keys B := fun k => (h.map (·.1)).mem_iff
  rw [Bool.eq_iff_iff]
  simp only [sameKeys, Bool.and_eq_true, List.all_eq_true, List.contains_iff_mem]
  constructor
  · rintro ⟨h1, h2⟩; exact ⟨fun k hk' => h1 k ((hk k).mpr hk'), fun k hk' => (hk k).mp (h2 k hk')⟩
  · rintro ⟨h1, h2⟩; exact ⟨fun k hk' => h1 k ((hk k).mp hk'), fun k hk' => (hk k).mpr (h2 k hk')⟩

/-- `_fix_points_order` is "pick the declared variables by name" whenever the variable sets agree -/
theorem fixOrder_eq_select (S : Space) (p : Pts K) (hn : (keys p.space).Nodup)
    (hwf : ∀ r ∈ p.rows, r.length = sdim p.space) :
    fixOrder S p = if sameKeys p.space S then select p (keys S) else none := by
  unfold fixOrder
  by_cases h : p.space = S
  · simp only [h, if_true, sameKeys_self]
    rw [← h, select_self p hn hwf]
  · simp [h]

/-- **Reordering sees only the named values.** -/
theorem fixOrder_sameNamed {p q : Pts K} (h : SameNamed p q) (S : Space) : fixOrder S p = fixOrder S q := by
  rw [fixOrder_eq_select S p h.nodup_p h.wf_p, fixOrder_eq_select S q h.nodup_q h.wf_q,
    sameKeys_perm p.space q.space S h.perm, select_sameNamed h]

/-- does `forward` start by matching the input to the declared variables?  (every class of the library
    after the repair; `Sequential` reorders, `Parallel` selects by name) -/
def Model.entryFixes : Model K → Bool
  | .leaf _ _ fx _ => fx
  | _ => true

theorem applyPar_sameNamed {p q : Pts K} (h : SameNamed p q) : ∀ ms : List (Model K), applyPar ms p = applyPar ms q
  | [] => rfl
  | m :: ms => by simp only [applyPar, select_sameNamed h, applyPar_sameNamed h ms]

/-- **Permutation invariance.** A model's output depends on its input only through the values bound to
    the variable names: two presentations of the same named data give the same answer (or are both
    rejected) — for every architecture tree whose entry matches names, all weights, all batches. -/
theorem perm_invariant (m : Model K) (hm : m.entryFixes = true) {p q : Pts K} (h : SameNamed p q) :
    m.apply p = m.apply q := by
  cases m with
  | leaf i o fx f =>
    simp only [Model.entryFixes] at hm
    simp only [Model.apply, hm, if_true, fixOrder_sameNamed h]
  | seq m ms => simp only [Model.apply, fixOrder_sameNamed h]
  | par ms => simp only [Model.apply, applyPar_sameNamed h]

/-! ## inputs lacking a required variable are rejected -/

theorem fixOrder_missing (S : Space) (p : Pts K) (v : String) (hv : v ∈ keys S) (hp : v ∉ keys p.space) :
    fixOrder S p = none := by
  unfold fixOrder
  have h1 : p.space ≠ S := fun h => hp (h ▸ hv)
  have h2 : sameKeys p.space S = false := by
    rw [Bool.eq_false_iff]
    intro h
    simp only [sameKeys, Bool.and_eq_true, List.all_eq_true, List.contains_iff_mem] at h
    exact hp (h.2 v hv)
  simp [h1, h2]

theorem dimOf_none (S : Space) (v : String) (h : v ∉ keys S) : dimOf S v = none := by
  cases hd : dimOf S v with
  | none => rfl
  | some d => exact absurd (by simpa [keys] using ⟨d, dimOf_mem S v d hd⟩) h

theorem select_missing (p : Pts K) (ks : List String) (v : String) (hv : v ∈ ks) (hp : v ∉ keys p.space) :
    select p ks = none := by
  have : selSpace p.space ks = none := by
    unfold selSpace
    induction ks with
    | nil => simp at hv
    | cons k ks ih =>
      simp only [mapOpt]
      rcases List.mem_cons.mp hv with h | h
      · subst h; simp [dimOf_none p.space v hp]
      · rw [ih h]; cases Option.map (fun d => (k, d)) (dimOf p.space k) <;> simp
  simp [select, this]

theorem keys_spaceMul (A B : Space) (v : String) (h : v ∈ keys (spaceMul A B)) : v ∈ keys A ∨ v ∈ keys B := by
  simp only [spaceMul, keys, List.map_append, List.mem_append, List.mem_map, List.mem_filterMap] at h ⊢
  rcases h with ⟨⟨k, d⟩, ⟨⟨k', d'⟩, hm, hf⟩, rfl⟩ | ⟨⟨k, d⟩, ⟨⟨k', d'⟩, hm, hf⟩, rfl⟩
  · left; refine ⟨(k', d'), hm, ?_⟩
    by_cases hc : d' + cnt B k' > 0
    · simp [hc] at hf; exact hf.1
    · simp [hc] at hf
  · right; refine ⟨(k', d'), hm, ?_⟩
    by_cases hc : (!(List.map (fun x => x.fst) A).contains k' && decide (d' > 0)) = true
    · simp only [hc, if_true, Option.some.injEq, Prod.mk.injEq] at hf; exact hf.1
    · simp only [hc] at hf; cases hf

theorem keys_spaceSub (A B : Space) (v : String) (h : v ∈ keys (spaceSub A B)) : v ∈ keys A := by
  simp only [spaceSub, keys, List.mem_map, List.mem_filterMap] at h ⊢
  obtain ⟨⟨k, d⟩, ⟨⟨k', d'⟩, hm, hf⟩, rfl⟩ := h
  refine ⟨(k', d'), hm, ?_⟩
  by_cases hc : d' - cnt B k' > 0
  · simp [hc] at hf; exact hf.1
  · simp [hc] at hf

theorem keys_parIn (v : String) : ∀ (ms : List (Model K)) (acc : Space), v ∈ keys (parIn acc ms) →
    v ∈ keys acc ∨ ∃ m ∈ ms, v ∈ keys m.inS
  | [], acc, h => by left; simpa [parIn] using h
  | m :: ms, acc, h => by
    simp only [parIn] at h
    rcases keys_parIn v ms _ h with h | ⟨m', hm', h⟩
    · rcases keys_spaceMul _ _ v h with h | h
      · left; exact h
      · right; exact ⟨m, by simp, keys_spaceSub _ _ v h⟩
    · right; exact ⟨m', by simp [hm'], h⟩

theorem applyPar_missing (p : Pts K) (v : String) (hp : v ∉ keys p.space) :
    ∀ ms : List (Model K), (∃ m ∈ ms, v ∈ keys m.inS) → applyPar ms p = none
  | [], h => by obtain ⟨m, hm, _⟩ := h; simp at hm
  | m :: ms, h => by
    simp only [applyPar]
    obtain ⟨m', hm', hv⟩ := h
    rcases List.mem_cons.mp hm' with rfl | hm'
    · simp [select_missing p _ v hv hp]
    · rw [applyPar_missing p v hp ms ⟨m', hm', hv⟩]
      cases select p (keys m.inS) with
      | none => rfl
      | some q => cases m.apply q <;> simp

/-- **Inputs lacking a required variable are rejected**, whatever the rows: by `_fix_points_order`
    (point-wise models, `Sequential`) resp. by the selection of a part's variables (`Parallel`). -/
theorem rejects_missing (m : Model K) (hm : m.entryFixes = true) (p : Pts K) (v : String)
    (hv : v ∈ keys m.inS) (hp : v ∉ keys p.space) : m.apply p = none := by
  cases m with
  | leaf i o fx f =>
    simp only [Model.entryFixes] at hm
    simp only [Model.inS] at hv
    simp [Model.apply, hm, fixOrder_missing i p v hv hp]
  | seq m ms =>
    simp only [Model.inS] at hv
    simp [Model.apply, fixOrder_missing m.inS p v hv hp]
  | par ms =>
    simp only [Model.inS] at hv
    rcases keys_parIn v ms [] hv with h | h
    · simp [keys] at h
    · simp [Model.apply, applyPar_missing p v hp ms h]

/-! ## Sequential = composition, Parallel = join of the parts -/

/-- `Sequential(m, *ms)`: match the input to `m`'s variables, then the parts one after the other, each
    fed with the previous answer -/
theorem seq_comp (m : Model K) (ms : List (Model K)) (p : Pts K) :
    (Model.seq m ms).apply p = (fixOrder m.inS p).bind fun q => (m.apply q).bind (applyChain ms) := by
  simp [Model.apply]

/-- the chain is the (Kleisli) composition of its parts: chaining `as ++ bs` is chaining `as`, then `bs` -/
theorem applyChain_append : ∀ (as bs : List (Model K)) (p : Pts K),
    applyChain (as ++ bs) p = (applyChain as p).bind (applyChain bs)
  | [], bs, p => by simp [applyChain]
  | a :: as, bs, p => by
    simp only [List.cons_append, applyChain]
    cases a.apply p with
    | none => rfl
    | some q => simp [applyChain_append as bs q]

theorem applyChain_two (a b : Model K) (p : Pts K) : applyChain [a, b] p = (a.apply p).bind b.apply := by
  simp only [applyChain]
  cases a.apply p with
  | none => rfl
  | some q => simp only [Option.bind_some]; cases b.apply q <;> rfl

/-- `Parallel(*ms)`: every part is evaluated on its own input variables, picked by name from the input -/
theorem applyPar_eq (ms : List (Model K)) (p : Pts K) :
    applyPar ms p = mapOpt (fun m => (select p (keys m.inS)).bind m.apply) ms := by
  induction ms with
  | nil => rfl
  | cons m ms ih =>
    simp only [applyPar, mapOpt, ih]
    cases select p (keys m.inS) with
    | none => rfl
    | some q => rfl

/-- … and the answers are joined -/
theorem par_join (ms : List (Model K)) (p : Pts K) :
    (Model.par ms).apply p = (mapOpt (fun m => (select p (keys m.inS)).bind m.apply) ms).bind joined := by
  simp [Model.apply, applyPar_eq]


/-! ## The bounding-box normalisation -/

section Norm
variable {F : Type} [Field F] [LinearOrder F] [IsStrictOrderedRing F]

/-- `NormalizationLayer`: with the coefficients computed in `__init__` every coordinate maps the lower
    bound of the bounding box to −1, the upper bound to +1 and the interval between them into [−1, 1]
    (any ordered field; in particular the executable `Rat` instance). -/
theorem norm_box (lo hi : F) (h : lo < hi) :
    normCoord lo hi lo = -1 ∧ normCoord lo hi hi = 1 ∧
      ∀ x, lo ≤ x → x ≤ hi → -1 ≤ normCoord lo hi x ∧ normCoord lo hi x ≤ 1 := by
  have hd : hi - lo ≠ 0 := ne_of_gt (sub_pos.mpr h)
  have key : ∀ x, normCoord lo hi x = 2 * (x - lo) / (hi - lo) - 1 := by
    intro x; simp only [normCoord, normCoeff]; field_simp; ring
  refine ⟨by rw [key]; simp, by rw [key]; field_simp; ring, fun x h1 h2 => ?_⟩
  rw [key]
  have hp := sub_pos.mpr h
  constructor
  · have : 0 ≤ 2 * (x - lo) / (hi - lo) := div_nonneg (by linarith) hp.le
    linarith
  · have : 2 * (x - lo) / (hi - lo) ≤ 2 := by rw [div_le_iff₀ hp]; linarith
    linarith
end Norm

-- the generic theorem is about the very function the driver evaluates in `Rat`
example : normCoord (1 : Rat) 3 3 = 1 := (norm_box (1 : Rat) 3 (by norm_num)).2.1
example : normCoord (1 : Rat) 3 (5/2) = 1/2 := by decide +kernel
example : normRow [((0 : Rat), 2), (1, 3)] [2, 1] = some [1, -1] := by decide +kernel

/-! ## Witnesses: the statements are not vacuous; the old `QRES` violates them -/

def reluQ (x : Rat) : Rat := if 0 ≤ x then x else 0

/-- a `QRES` as at the pinned commit (no `_fix_points_order`), one hidden ReLU neuron reading `x` -/
def witOld : Model Rat :=
  QRESOld [("x", 1), ("t", 1)] [("u", 1)] [(⟨[[1, 0]], [[0, 0]], [0]⟩, reluQ)] ⟨[[1]], [[0]], [0]⟩
/-- the same network after the repair -/
def witNew : Model Rat :=
  QRES [("x", 1), ("t", 1)] [("u", 1)] [(⟨[[1, 0]], [[0, 0]], [0]⟩, reluQ)] ⟨[[1]], [[0]], [0]⟩
/-- x = 1, t = 2 — presented as (x, t) and as (t, x) -/
def witP : Pts Rat := ⟨[("x", 1), ("t", 1)], [1], [[1, 2]]⟩
def witP' : Pts Rat := ⟨[("t", 1), ("x", 1)], [1], [[2, 1]]⟩

theorem wit_sameNamed : SameNamed witP witP' where
  nodup_p := by decide
  nodup_q := by decide
  perm := List.Perm.swap _ _ _
  shape := rfl
  len := rfl
  wf_p := by intro r hr; simp [witP] at hr; subst hr; rfl
  wf_q := by intro r hr; simp [witP'] at hr; subst hr; rfl
  coords := by
    intro i hp hq v
    have hi : i = 0 := by simp [witP] at hp; omega
    subst hi
    by_cases hx : "x" = v
    · subst hx; simp [coordsRow, witP, witP', start, dimOf]
    · by_cases ht : "t" = v
      · subst ht; simp [coordsRow, witP, witP', start, dimOf]
      · simp [coordsRow, witP, witP', start, dimOf, hx, ht]

/-- **The old `QRES` is not a function of the named variables**: x = 1, t = 2 presented as (x, t) gives
    u = 1, presented as (t, x) gives u = 2.  (Reproduced on the library before commit 6a9e829.) -/
theorem qresOld_not_perm_invariant :
    ∃ p q : Pts Rat, SameNamed p q ∧ witOld.apply p ≠ witOld.apply q :=
  ⟨witP, witP', wit_sameNamed, by decide +kernel⟩

/-- … and it accepts inputs that lack its variables (here: variables `a`, `b` instead of `x`, `t`) -/
theorem qresOld_accepts_wrong_names :
    witOld.apply ⟨[("a", 1), ("b", 1)], [1], [[1, 2]]⟩ = some ⟨[("u", 1)], [1], [[1]]⟩ ∧
      "x" ∉ keys [("a", 1), ("b", 1)] := by
  constructor <;> decide +kernel

-- non-vacuity of `perm_invariant` / `rejects_missing`: the repaired network accepts both presentations,
-- answers u = 1 for both, and rejects the input without `x`
example : witNew.apply witP = some ⟨[("u", 1)], [1], [[1]]⟩ := by decide +kernel
example : witNew.apply witP' = some ⟨[("u", 1)], [1], [[1]]⟩ := by decide +kernel
example : witNew.apply witP = witNew.apply witP' := perm_invariant witNew rfl wit_sameNamed
example : witNew.apply ⟨[("a", 1), ("t", 1)], [1], [[1, 2]]⟩ = none :=
  rejects_missing witNew rfl _ "x" (by decide) (by decide)

/-- Parallel of the network and a normalisation of `t`, inside a Sequential — used by the examples below -/
def witTree : Model Rat :=
  .seq (.par [witNew, NormalizationLayer [("t", 1)] [(0, 4)]]) []
def witBatch : Pts Rat := ⟨[("t", 1), ("x", 1)], [3], [[2, 1], [4, -5], [0, 7]]⟩

-- non-vacuity of the row-wise theorems: an accepted batch of three rows, its rows 2 and 0 as a batch of
-- shape (2, 1), a single row, and the Parallel as the join of its parts
example : witTree.apply witBatch = some ⟨[("u", 1), ("t", 1)], [3], [[1, 0], [0, 1], [7, -1]]⟩ := by decide +kernel
example : witTree.apply ⟨witBatch.space, [2, 1], gatherRows witBatch.rows [2, 0]⟩ =
    some ⟨[("u", 1), ("t", 1)], [2, 1], [[7, -1], [1, 0]]⟩ :=
  apply_gather witTree witBatch.space [3] witBatch.rows ⟨[("u", 1), ("t", 1)], [3], [[1, 0], [0, 1], [7, -1]]⟩
    (by decide +kernel) [2, 0] [2, 1]
example : witTree.apply ⟨witBatch.space, [1], [[4, -5]]⟩ = some ⟨[("u", 1), ("t", 1)], [1], [[0, 1]]⟩ := by decide +kernel
example : witTree.valid = true ∧ witTree.inS = [("x", 1), ("t", 1)] ∧ witTree.outS = [("u", 1), ("t", 1)] := by decide

end TPV.Net
