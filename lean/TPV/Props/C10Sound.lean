/-
  C10, second part: the expression-level soundness theorem (one induction incl. measurability), the derivation
  of the `ProdStable` hypothesis of `peval_volume`, expectation of the number of accepted proposals.
-/
import TPV.Props.C10
import Mathlib.MeasureTheory.Measure.Haar.InnerProductSpace
import Mathlib.Probability.ConditionalProbability

namespace TPV.Geom
open MeasureTheory Set Metric
local notation "μL" => MeasureTheory.MeasureSpace.volume

/-! ## 1. expression-level soundness in the plane -/

/-- the closed disc as a subset of `Fin 2 → ℝ` (the space in which parallelograms and triangles live) -/
def discSet (cx cy r : ℝ) : Set (Fin 2 → ℝ) := {p | 0 ≤ r ∧ (p 0 - cx) ^ 2 + (p 1 - cy) ^ 2 ≤ r ^ 2}

theorem discSet_eq_preimage (cx cy r : ℝ) :
    discSet cx cy r = (WithLp.toLp 2 : (Fin 2 → ℝ) → EuclideanSpace ℝ (Fin 2)) ⁻¹' closedBall !₂[cx, cy] r := by
  ext p
  simp only [discSet, mem_ofPred_eq, mem_preimage, mem_closedBall, EuclideanSpace.dist_eq, Fin.sum_univ_two,
    Real.sqrt_le_iff]
  simp [Real.dist_eq, sq_abs]

theorem disc_volume_pi (cx cy r : ℝ) (hr : 0 ≤ r) : μL (discSet cx cy r) = ENNReal.ofReal (circleVol r) := by
  rw [discSet_eq_preimage, (PiLp.volume_preserving_toLp (Fin 2)).measure_preimage
    measurableSet_closedBall.nullMeasurableSet, disc_volume _ _ hr]

theorem discSet_measurable (cx cy r : ℝ) : MeasurableSet (discSet cx cy r) := by
  rw [discSet_eq_preimage]
  exact (PiLp.volume_preserving_toLp (Fin 2)).measurable measurableSet_closedBall

theorem parSet_measurable (o d1 d2 : Fin 2 → ℝ) : MeasurableSet (parSet o d1 d2) := by
  rw [parSet_eq]
  have hc : IsCompact ((fun p => o + p) '' (colMap d1 d2 '' Icc 0 1)) :=
    (isCompact_Icc.image (LinearMap.continuous_of_finiteDimensional _)).image (continuous_const.add continuous_id)
  exact hc.isClosed.measurableSet

theorem stdTri_compact : IsCompact stdTri := by
  apply IsCompact.of_isClosed_subset (isCompact_Icc (a := (0 : Fin 2 → ℝ)) (b := 1))
  · have h1 : IsClosed {q : Fin 2 → ℝ | 0 ≤ q 0} := isClosed_le continuous_const (continuous_apply 0)
    have h2 : IsClosed {q : Fin 2 → ℝ | 0 ≤ q 1} := isClosed_le continuous_const (continuous_apply 1)
    have h3 : IsClosed {q : Fin 2 → ℝ | q 0 + q 1 ≤ 1} :=
      isClosed_le ((continuous_apply 0).add (continuous_apply 1)) continuous_const
    exact h1.inter (h2.inter h3)
  · rintro q ⟨h0, h1, h2⟩
    refine ⟨fun i => ?_, fun i => ?_⟩ <;> fin_cases i <;> simp <;> linarith

theorem triSet_measurable (o d1 d2 : Fin 2 → ℝ) : MeasurableSet (triSet o d1 d2) := by
  rw [triSet_eq]
  have hc : IsCompact ((fun p => o + p) '' (colMap d1 d2 '' stdTri)) :=
    (stdTri_compact.image (LinearMap.continuous_of_finiteDimensional _)).image (continuous_const.add continuous_id)
  exact hc.isClosed.measurableSet

/-! inversion lemmas for `volAux … = ok (x, false)` -/

theorem volAux_par_ok {v : String} {o c1 c2 : PFun ℝ} {ρ : Env ℝ} {x : ℝ} {w : Bool}
    (h : volAux false (.par v o c1 c2) ρ = .ok (x, w)) :
    ∃ ox oy ax ay bx cy, o.f ρ = [ox, oy] ∧ c1.f ρ = [ax, ay] ∧ c2.f ρ = [bx, cy] ∧ x = parVol ox oy ax ay bx cy := by
  simp only [volAux] at h
  split at h
  · next ox oy ax ay bx cy h1 h2 h3 =>
    simp only [Bool.false_eq_true, if_false, Except.ok.injEq, Prod.mk.injEq] at h
    exact ⟨ox, oy, ax, ay, bx, cy, h1, h2, h3, h.1.symm⟩
  · cases h

theorem volAux_tri_ok {v : String} {o c1 c2 : PFun ℝ} {ρ : Env ℝ} {x : ℝ} {w : Bool}
    (h : volAux false (.tri v o c1 c2) ρ = .ok (x, w)) :
    ∃ ox oy ax ay bx cy, o.f ρ = [ox, oy] ∧ c1.f ρ = [ax, ay] ∧ c2.f ρ = [bx, cy] ∧ x = triVol ox oy ax ay bx cy := by
  simp only [volAux] at h
  split at h
  · next ox oy ax ay bx cy h1 h2 h3 =>
    simp only [Bool.false_eq_true, if_false, Except.ok.injEq, Prod.mk.injEq] at h
    exact ⟨ox, oy, ax, ay, bx, cy, h1, h2, h3, h.1.symm⟩
  · cases h

theorem volAux_circle_ok {v : String} {c r : PFun ℝ} {ρ : Env ℝ} {x : ℝ} {w : Bool}
    (h : volAux false (.circle v c r) ρ = .ok (x, w)) : ∃ rr, r.f ρ = [rr] ∧ x = circleVol rr := by
  simp only [volAux] at h
  split at h
  · next rr h1 =>
    simp only [Bool.false_eq_true, if_false, Except.ok.injEq, Prod.mk.injEq] at h
    exact ⟨rr, h1, h.1.symm⟩
  · cases h

theorem volAux_union_ok {onB dj : Bool} {a b : VDom ℝ} {ρ : Env ℝ} {x : ℝ}
    (h : volAux onB (.union dj a b) ρ = .ok (x, false)) :
    dj = true ∧ ∃ va vb, volAux onB a ρ = .ok (va, false) ∧ volAux onB b ρ = .ok (vb, false) ∧ x = va + vb := by
  cases ha : volAux onB a ρ with
  | error e => cases onB <;> simp [volAux, ha, bind, Except.bind] at h
  | ok va =>
    cases hb : volAux onB b ρ with
    | error e => cases onB <;> simp [volAux, ha, hb, bind, Except.bind] at h
    | ok vb =>
      obtain ⟨va, ea⟩ := va; obtain ⟨vb, eb⟩ := vb
      rw [vol_union onB dj a b ρ va vb ea eb ha hb] at h
      simp only [Except.ok.injEq, Prod.mk.injEq, Bool.or_eq_false_iff, Bool.not_eq_eq_eq_not, Bool.not_false] at h
      obtain ⟨hx, ⟨h1, h2⟩, h3⟩ := h
      subst h2 h3
      exact ⟨h1, va, vb, rfl, rfl, hx.symm⟩

theorem volAux_cut_ok {ct : Bool} {a b : VDom ℝ} {ρ : Env ℝ} {x : ℝ}
    (h : volAux false (.cut ct a b) ρ = .ok (x, false)) :
    ct = true ∧ ∃ va vb, volAux false a ρ = .ok (va, false) ∧ volAux false b ρ = .ok (vb, false) ∧ x = va - vb := by
  cases ha : volAux false a ρ with
  | error e => simp [volAux, ha, bind, Except.bind] at h
  | ok va =>
    obtain ⟨va, ea⟩ := va
    cases ct with
    | false => simp [volAux, ha, bind, Except.bind, pure, Except.pure] at h
    | true =>
      cases hb : volAux false b ρ with
      | error e => simp [volAux, ha, hb, bind, Except.bind] at h
      | ok vb =>
        obtain ⟨vb, eb⟩ := vb
        rw [vol_cut_contained a b ρ va vb ea eb ha hb] at h
        simp only [Except.ok.injEq, Prod.mk.injEq, Bool.or_eq_false_iff] at h
        obtain ⟨hx, h2, h3⟩ := h
        subst h2 h3
        exact ⟨rfl, va, vb, rfl, rfl, hx.symm⟩

/-! denotations in `Fin 2 → ℝ` -/

theorem circle_denotation_pi (v : String) (c r : PFun ℝ) (ρ : Env ℝ) (cx cy rr : ℝ)
    (hc : ∀ q, c.f ([(v, q)] ++ ρ) = [cx, cy]) (hr : ∀ q, r.f ([(v, q)] ++ ρ) = [rr]) :
    S2 v (.circle v c r) ρ = discSet cx cy rr := by
  ext p
  simp only [S2, mem, env_get_single, hc, hr, mem_ofPred_eq, discSet]
  constructor
  · rintro ⟨x, y, cx', cy', rr', h1, h2, h3, h4, h5⟩
    simp only [Option.some.injEq, List.cons.injEq, and_true] at h1 h2 h3
    obtain ⟨rfl, rfl⟩ := h1; obtain ⟨rfl, rfl⟩ := h2; subst h3
    exact ⟨h4, h5⟩
  · rintro ⟨h4, h5⟩
    exact ⟨p 0, p 1, cx, cy, rr, rfl, rfl, rfl, h4, h5⟩

theorem translate_denotation (v : String) (e : Dom ℝ) (t : PFun ℝ) (ρ : Env ℝ) (tx ty : ℝ)
    (ht : ∀ q, t.f ([(v, q)] ++ ρ) = [tx, ty]) :
    S2 v (.translate v e t) ρ = (fun q => q + ![tx, ty]) '' S2 v e ρ := by
  ext p
  simp only [S2, mem, env_get_single, ht, mem_ofPred_eq, mem_image]
  constructor
  · rintro (⟨q, x, tx', h1, h2, _⟩ | ⟨q1, q2, x, y, tx', ty', h1, h2, hx, hy, hm⟩ | ⟨q1, q2, q3, x, y, z, tx', ty', tz', h1, h2, _⟩)
    · simp at h1
    · simp only [Option.some.injEq, List.cons.injEq, and_true] at h1 h2
      obtain ⟨rfl, rfl⟩ := h1; obtain ⟨rfl, rfl⟩ := h2
      refine ⟨![q1, q2], by simpa using hm, ?_⟩
      ext i; fin_cases i <;> simp [hx, hy]
    · simp at h1
  · rintro ⟨q, hq, rfl⟩
    right; left
    exact ⟨q 0, q 1, _, _, tx, ty, rfl, rfl, by simp, by simp, by simpa using hq⟩

theorem rotate_denotation (v : String) (e : Dom ℝ) (m c : PFun ℝ) (ρ : Env ℝ) (m00 m01 m10 m11 cx cy : ℝ)
    (hm : ∀ q, m.f ([(v, q)] ++ ρ) = [m00, m01, m10, m11]) (hc : ∀ q, c.f ([(v, q)] ++ ρ) = [cx, cy]) :
    S2 v (.rotate v e m c) ρ = rotMap m00 m01 m10 m11 cx cy '' S2 v e ρ := by
  ext p
  simp only [S2, mem, env_get_single, hm, hc, mem_ofPred_eq, mem_image]
  constructor
  · rintro ⟨q1, q2, x, y, a, b, c', d, cx', cy', h1, h2, h3, hx, hy, hmem⟩
    simp only [Option.some.injEq, List.cons.injEq, and_true] at h1 h2 h3
    obtain ⟨rfl, rfl⟩ := h1; obtain ⟨rfl, rfl, rfl, rfl⟩ := h2; obtain ⟨rfl, rfl⟩ := h3
    refine ⟨![q1, q2], by simpa using hmem, ?_⟩
    ext i; fin_cases i <;> simp [rotMap, hx, hy]
  · rintro ⟨q, hq, rfl⟩
    exact ⟨q 0, q 1, _, _, m00, m01, m10, m11, cx, cy, rfl, rfl, rfl, by simp [rotMap], by simp [rotMap], by simpa using hq⟩

theorem rotMap_continuous (m00 m01 m10 m11 cx cy : ℝ) : Continuous (rotMap m00 m01 m10 m11 cx cy) := by
  apply continuous_pi; intro i
  fin_cases i <;> simp [rotMap] <;> fun_prop

/-- an invertible affine map sends measurable sets to measurable sets -/
theorem rotMap_image_measurable (m00 m01 m10 m11 cx cy : ℝ) (hdet : m00 * m11 - m01 * m10 ≠ 0)
    (A : Set (Fin 2 → ℝ)) (hA : MeasurableSet A) : MeasurableSet (rotMap m00 m01 m10 m11 cx cy '' A) := by
  set d := m00 * m11 - m01 * m10 with hd
  have hinv : Function.LeftInverse (rotMap (m11 / d) (-m01 / d) (-m10 / d) (m00 / d) cx cy) (rotMap m00 m01 m10 m11 cx cy) := by
    intro q; ext i
    fin_cases i <;> simp [rotMap] <;> field_simp <;> ring
  have hinv' : Function.RightInverse (rotMap (m11 / d) (-m01 / d) (-m10 / d) (m00 / d) cx cy) (rotMap m00 m01 m10 m11 cx cy) := by
    intro q; ext i
    fin_cases i <;> simp [rotMap] <;> field_simp <;> ring
  rw [image_eq_preimage_of_inverse hinv hinv']
  exact (rotMap_continuous _ _ _ _ _ _).measurable hA


/-! the expression-level theorem -/

/-- side conditions: every node lives in the variable `v`; parameters do not depend on the point; radii are
    non-negative; translation vectors / rotation matrices / centres are well-formed, the matrices have
    determinant ±1; declared unions ARE disjoint and declared cuts ARE contained (as denoted sets) -/
def Truthful2 (v : String) (ρ : Env ℝ) : VDom ℝ → Prop
  | .par v' o c1 c2 | .tri v' o c1 c2 =>
    v' = v ∧ ∀ q, o.f ([(v, q)] ++ ρ) = o.f ρ ∧ c1.f ([(v, q)] ++ ρ) = c1.f ρ ∧ c2.f ([(v, q)] ++ ρ) = c2.f ρ
  | .circle v' c r =>
    v' = v ∧ (∀ q, c.f ([(v, q)] ++ ρ) = c.f ρ ∧ r.f ([(v, q)] ++ ρ) = r.f ρ) ∧ (∃ cx cy, c.f ρ = [cx, cy]) ∧
      ∀ x, r.f ρ = [x] → 0 ≤ x
  | .union _ a b =>
    Truthful2 v ρ a ∧ Truthful2 v ρ b ∧
      ∀ ea eb, a.erase = some ea → b.erase = some eb → Disjoint (S2 v ea ρ) (S2 v eb ρ)
  | .cut _ a b =>
    Truthful2 v ρ a ∧ Truthful2 v ρ b ∧
      ∀ ea eb, a.erase = some ea → b.erase = some eb → S2 v eb ρ ⊆ S2 v ea ρ
  | .translate v' d t =>
    v' = v ∧ (∀ q, t.f ([(v, q)] ++ ρ) = t.f ρ) ∧ (∃ tx ty, t.f ρ = [tx, ty]) ∧ Truthful2 v ρ d
  | .rotate v' d m c =>
    v' = v ∧ (∀ q, m.f ([(v, q)] ++ ρ) = m.f ρ ∧ c.f ([(v, q)] ++ ρ) = c.f ρ) ∧
      (∃ m00 m01 m10 m11 cx cy, m.f ρ = [m00, m01, m10, m11] ∧ c.f ρ = [cx, cy] ∧ |m00 * m11 - m01 * m10| = 1) ∧
      Truthful2 v ρ d
  | _ => False

/-- **expression-level soundness (2-D)**, one induction over the expression: for every expression built from
    parallelograms, triangles, discs with unions, cuts, translations and rotations that satisfies `Truthful2`,
    a value `volume()` returns WITHOUT warning is the Lebesgue measure of the (measurable) denoted set. -/
theorem volume_sound_2d (v : String) (ρ : Env ℝ) : ∀ (D : VDom ℝ) (e : Dom ℝ) (x : ℝ),
    D.erase = some e → Truthful2 v ρ D → volAux false D ρ = .ok (x, false) →
    MeasurableSet (S2 v e ρ) ∧ μL (S2 v e ρ) = ENNReal.ofReal x ∧ 0 ≤ x := by
  intro D
  induction D with
  | interval | sphere | point | inter | prod | bdry | bdryL | bdryR | userVol => intro e x _ ht; exact ht.elim
  | par v' o c1 c2 =>
    intro e x he ht h
    obtain ⟨rfl, hq⟩ := ht
    simp only [VDom.erase, Option.some.injEq] at he; subst he
    obtain ⟨ox, oy, ax, ay, bx, cy, h0, h1, h2, rfl⟩ := volAux_par_ok h
    have hden := par_denotation v' o c1 c2 ρ ox oy ax ay bx cy (fun q => (hq q).1.trans h0)
      (fun q => (hq q).2.1.trans h1) (fun q => (hq q).2.2.trans h2)
    change S2 v' (.par v' o c1 c2) ρ = _ at hden
    rw [hden]
    refine ⟨parSet_measurable _ _ _, ?_, ?_⟩
    · rw [par_volume, parVol_eq]; simp
    · rw [parVol_eq]; exact abs_nonneg _
  | tri v' o c1 c2 =>
    intro e x he ht h
    obtain ⟨rfl, hq⟩ := ht
    simp only [VDom.erase, Option.some.injEq] at he; subst he
    obtain ⟨ox, oy, ax, ay, bx, cy, h0, h1, h2, rfl⟩ := volAux_tri_ok h
    have hden := tri_denotation v' o c1 c2 ρ ox oy ax ay bx cy (fun q => (hq q).1.trans h0)
      (fun q => (hq q).2.1.trans h1) (fun q => (hq q).2.2.trans h2)
    change S2 v' (.tri v' o c1 c2) ρ = _ at hden
    rw [hden]
    refine ⟨triSet_measurable _ _ _, ?_, ?_⟩
    · rw [tri_volume, triVol_eq]; simp
    · rw [triVol_eq]; exact div_nonneg (abs_nonneg _) (by norm_num)
  | circle v' c r =>
    intro e x he ht h
    obtain ⟨rfl, hq, ⟨cx, cy, hc⟩, hpos⟩ := ht
    simp only [VDom.erase, Option.some.injEq] at he; subst he
    obtain ⟨rr, hr, rfl⟩ := volAux_circle_ok h
    have h0 := hpos rr hr
    rw [circle_denotation_pi v' c r ρ cx cy rr (fun q => (hq q).1.trans hc) (fun q => (hq q).2.trans hr)]
    refine ⟨discSet_measurable _ _ _, disc_volume_pi _ _ _ h0, ?_⟩
    simp only [circleVol, Transc.pi]; positivity
  | union dj a b iha ihb =>
    intro e x he ht h
    obtain ⟨hta, htb, hdis⟩ := ht
    obtain ⟨-, va, vb, ha, hb, rfl⟩ := volAux_union_ok h
    cases hea : a.erase with
    | none => simp [VDom.erase, hea] at he
    | some ea =>
      cases heb : b.erase with
      | none => simp [VDom.erase, hea, heb] at he
      | some eb =>
        simp only [VDom.erase, hea, heb, Option.bind_eq_bind, Option.bind_some, Option.pure_def, Option.some.injEq] at he
        subst he
        obtain ⟨ma, mua, pa⟩ := iha ea va hea hta ha
        obtain ⟨mb, mub, pb⟩ := ihb eb vb heb htb hb
        have hS : S2 v (.union ea eb) ρ = S2 v ea ρ ∪ S2 v eb ρ := by ext p; simp [S2, mem]
        rw [hS]
        exact ⟨ma.union mb, disjoint_union_add _ _ _ mb (hdis ea eb hea heb) va vb pa pb mua mub, add_nonneg pa pb⟩
  | cut ct a b iha ihb =>
    intro e x he ht h
    obtain ⟨hta, htb, hsub⟩ := ht
    obtain ⟨-, va, vb, ha, hb, rfl⟩ := volAux_cut_ok h
    cases hea : a.erase with
    | none => simp [VDom.erase, hea] at he
    | some ea =>
      cases heb : b.erase with
      | none => simp [VDom.erase, hea, heb] at he
      | some eb =>
        simp only [VDom.erase, hea, heb, Option.bind_eq_bind, Option.bind_some, Option.pure_def, Option.some.injEq] at he
        subst he
        obtain ⟨ma, mua, pa⟩ := iha ea va hea hta ha
        obtain ⟨mb, mub, pb⟩ := ihb eb vb heb htb hb
        have hS : S2 v (.cut ea eb) ρ = S2 v ea ρ \ S2 v eb ρ := by ext p; simp [S2, mem]
        rw [hS]
        refine ⟨ma.diff mb, contained_cut_sub _ _ _ mb (hsub ea eb hea heb) va vb pb mua mub, ?_⟩
        have hle : μL (S2 v eb ρ) ≤ μL (S2 v ea ρ) := measure_mono (hsub ea eb hea heb)
        rw [mua, mub, ENNReal.ofReal_le_ofReal_iff pa] at hle
        linarith
  | translate v' d t ih =>
    intro e x he ht h
    obtain ⟨rfl, hq, ⟨tx, ty, htv⟩, htd⟩ := ht
    rw [vol_translate] at h
    cases hed : d.erase with
    | none => simp [VDom.erase, hed] at he
    | some ed =>
      simp only [VDom.erase, hed, Option.bind_eq_bind, Option.bind_some, Option.pure_def, Option.some.injEq] at he
      subst he
      obtain ⟨md, mud, pd⟩ := ih ed x hed htd h
      rw [translate_denotation v' ed t ρ tx ty (fun q => (hq q).trans htv)]
      refine ⟨?_, by rw [translation_invariant, mud], pd⟩
      rw [image_add_right]
      exact (measurable_add_const _) md
  | rotate v' d m c ih =>
    intro e x he ht h
    obtain ⟨rfl, hq, ⟨m00, m01, m10, m11, cx, cy, hm, hc, hdet⟩, htd⟩ := ht
    rw [vol_rotate] at h
    cases hed : d.erase with
    | none => simp [VDom.erase, hed] at he
    | some ed =>
      simp only [VDom.erase, hed, Option.bind_eq_bind, Option.bind_some, Option.pure_def, Option.some.injEq] at he
      subst he
      obtain ⟨md, mud, pd⟩ := ih ed x hed htd h
      rw [rotate_denotation v' ed m c ρ m00 m01 m10 m11 cx cy (fun q => (hq q).1.trans hm) (fun q => (hq q).2.trans hc)]
      have hne : m00 * m11 - m01 * m10 ≠ 0 := by
        intro h0; rw [h0] at hdet; simp at hdet
      exact ⟨rotMap_image_measurable _ _ _ _ _ _ hne _ md, by rw [rotation_invariant _ _ _ _ _ _ hdet, mud], pd⟩


/-! ## 2. `ProdStable` derived -/

theorem mem_dedup_aux (l : List String) : ∀ (acc : List String) (x : String),
    x ∈ l.foldl (fun acc x => if acc.contains x then acc else acc ++ [x]) acc ↔ x ∈ acc ∨ x ∈ l := by
  induction l with
  | nil => intro acc x; simp
  | cons y ys ih =>
    intro acc x
    simp only [List.foldl_cons, ih, List.mem_cons]
    by_cases hy : acc.contains y = true
    · simp only [hy, if_true]
      have : y ∈ acc := by simpa using hy
      constructor
      · rintro (h | h); exact Or.inl h; exact Or.inr (Or.inr h)
      · rintro (h | rfl | h); exact Or.inl h; exact Or.inl this; exact Or.inr h
    · simp only [hy, Bool.false_eq_true, if_false, List.mem_append, List.mem_singleton]
      tauto

/-- `dedup` keeps exactly the members -/
theorem mem_dedup (l : List String) (x : String) : x ∈ dedup l ↔ x ∈ l := by
  unfold dedup
  exact (mem_dedup_aux l [] x).trans (by simp)

section
variable {K : Type}

theorem peval_vars (σ : Env K) (d : VDom K) : (d.peval σ).vars = d.vars := by
  induction d with
  | interval | par | tri | circle | sphere | point => rfl
  | union _ a b iha ihb | cut _ a b iha ihb | inter a b iha ihb => simpa [VDom.peval, VDom.vars] using iha
  | prod a b iha ihb => simp [VDom.peval, VDom.vars, iha, ihb]
  | translate _ d _ ih | rotate _ d _ _ ih | bdry d ih | bdryL d ih | bdryR d ih => simpa [VDom.peval, VDom.vars] using ih
  | userVol d f ih => simpa [VDom.peval, VDom.vars] using ih

theorem mem_pfun_peval_args (σ : Env K) (p : PFun K) (x : String) :
    x ∈ (p.peval σ).args ↔ x ∈ p.args ∧ σ.get x = none := by
  simp [PFun.peval, List.mem_filter, Option.isNone_iff_eq_none]

/-- a variable that `σ` does not bind is needed after partial evaluation iff it was needed before -/
theorem mem_peval_freeVars (σ : Env K) (x : String) (hx : σ.get x = none) (d : VDom K) :
    x ∈ (d.peval σ).freeVars ↔ x ∈ d.freeVars := by
  induction d with
  | interval v lb ub => simp [VDom.peval, VDom.freeVars, mem_dedup, mem_pfun_peval_args, hx]
  | par v o c1 c2 => simp [VDom.peval, VDom.freeVars, mem_dedup, mem_pfun_peval_args, hx]
  | tri v o c1 c2 => simp [VDom.peval, VDom.freeVars, mem_dedup, mem_pfun_peval_args, hx]
  | circle v c r => simp [VDom.peval, VDom.freeVars, mem_dedup, mem_pfun_peval_args, hx]
  | sphere v c r => simp [VDom.peval, VDom.freeVars, mem_dedup, mem_pfun_peval_args, hx]
  | point v p => simp [VDom.peval, VDom.freeVars, mem_dedup, mem_pfun_peval_args, hx]
  | union _ a b iha ihb => simp [VDom.peval, VDom.freeVars, mem_dedup, iha, ihb]
  | cut _ a b iha ihb => simp [VDom.peval, VDom.freeVars, mem_dedup, iha, ihb]
  | inter a b iha ihb => simp [VDom.peval, VDom.freeVars, mem_dedup, iha, ihb]
  | prod a b iha ihb => simp [VDom.peval, VDom.freeVars, mem_dedup, List.mem_filter, iha, ihb, peval_vars]
  | translate _ d t ih => simp [VDom.peval, VDom.freeVars, mem_dedup, mem_pfun_peval_args, hx, ih]
  | rotate _ d m c ih => simp [VDom.peval, VDom.freeVars, mem_dedup, mem_pfun_peval_args, hx, ih]
  | bdry d ih => simpa [VDom.peval, VDom.freeVars] using ih
  | bdryL d ih => simpa [VDom.peval, VDom.freeVars] using ih
  | bdryR d ih => simpa [VDom.peval, VDom.freeVars] using ih
  | userVol d f ih => simpa [VDom.peval, VDom.freeVars] using ih

theorem prodConstant_peval (σ : Env K) (a b : VDom K) (hb : ∀ x ∈ b.vars, σ.get x = none) :
    prodConstant (a.peval σ) (b.peval σ) = prodConstant a b := by
  have key : ∀ l : List String, (∀ x ∈ l, σ.get x = none) →
      l.any (fun x => (a.peval σ).freeVars.contains x) = l.any (fun x => a.freeVars.contains x) := by
    intro l hl
    induction l with
    | nil => rfl
    | cons y ys ih =>
      have hy := mem_peval_freeVars σ y (hl y (by simp)) a
      simp only [List.any_cons]
      rw [ih (fun x hx => hl x (by simp [hx]))]
      congr 1
      exact Bool.eq_iff_iff.2 (by simpa using hy)
  simp only [prodConstant, peval_vars, key b.vars hb]

/-- the coordinate variables of ALL leaves (for unions / cuts the code asserts equal spaces; the expression
    type does not, so both operands are listed) -/
def VDom.allVars : VDom K → List String
  | .interval v _ _ | .par v _ _ _ | .tri v _ _ _ | .circle v _ _ | .sphere v _ _ | .point v _ => [v]
  | .union _ a b | .cut _ a b | .inter a b | .prod a b => a.allVars ++ b.allVars
  | .translate _ d _ | .rotate _ d _ _ | .bdry d | .bdryL d | .bdryR d | .userVol d _ => d.allVars

theorem vars_subset_allVars (d : VDom K) : ∀ x ∈ d.vars, x ∈ d.allVars := by
  induction d with
  | interval | par | tri | circle | sphere | point => intro x hx; exact hx
  | union _ a b iha ihb | cut _ a b iha ihb | inter a b iha ihb =>
    intro x hx; exact List.mem_append_left _ (iha x hx)
  | prod a b iha ihb =>
    intro x hx
    rcases List.mem_append.1 hx with h | h
    · exact List.mem_append_left _ (iha x h)
    · exact List.mem_append_right _ (ihb x h)
  | translate _ d _ ih | rotate _ d _ _ ih | bdry d ih | bdryL d ih | bdryR d ih | userVol d _ ih =>
    intro x hx; exact ih x hx

/-- **`ProdStable` holds whenever `σ` binds no coordinate variable of the expression** (which is how `__call__`
    is used for parameters) -/
theorem prodStable_of_no_coord (σ : Env K) (d : VDom K) (h : ∀ x ∈ d.allVars, σ.get x = none) : ProdStable σ d := by
  induction d with
  | interval | par | tri | circle | sphere | point => trivial
  | union _ a b iha ihb | cut _ a b iha ihb | inter a b iha ihb =>
    exact ⟨iha (fun x hx => h x (List.mem_append_left _ hx)), ihb (fun x hx => h x (List.mem_append_right _ hx))⟩
  | prod a b iha ihb =>
    exact ⟨prodConstant_peval σ a b (fun x hx => h x (List.mem_append_right _ (vars_subset_allVars b x hx))),
      iha (fun x hx => h x (List.mem_append_left _ hx)), ihb (fun x hx => h x (List.mem_append_right _ hx))⟩
  | translate _ d _ ih | rotate _ d _ _ ih | bdry d ih | bdryL d ih | bdryR d ih => exact ih h
  | userVol d f ih => exact ih h

end

section
variable {K : Type} [Add K] [Sub K] [Mul K] [Div K] [Neg K] [LE K] [DecidableLE K]
  [OfNat K 0] [OfNat K 1] [OfNat K 2] [OfNat K 3] [OfNat K 4] [Transc K]

/-- **partial evaluation keeps the volume** — checkable hypothesis only: `σ` binds parameters, not coordinates -/
theorem peval_volume_of_params (σ : Env K) (d : VDom K) (ρ : Env K)
    (h : ∀ x ∈ d.allVars, σ.get x = none) : volume (d.peval σ) ρ = volume d (ρ ++ σ) :=
  peval_volume σ d ρ (prodStable_of_no_coord σ d h)

example :
    let C : VDom ℝ := .prod (.circle "x" (.const [0, 0]) ⟨["t"], fun e => match e.get "t" with | some [t] => [1 + t] | _ => []⟩)
      (.interval "s" (.const [0]) (.const [2]))
    volume (C.peval [("t", [(1:ℝ)])]) [] = volume C ([] ++ [("t", [(1:ℝ)])]) := by
  intro C
  exact peval_volume_of_params _ _ _ (by simp [C, VDom.allVars, Env.get, List.lookup])
end

/-! ## 3. triangle density grid after the repair -/

/-- the repaired triangle density grid never has more than `n = ceil(d·area)` points (the pinned snapshot could:
    `tri_density_grid_can_exceed`) and is an initial piece of the lattice -/
theorem triDensityGrid_length_le (n n1 n2 : ℕ) :
    (triDensityGrid n n1 n2).length ≤ n ∧ (triDensityGrid n n1 n2) <+: triGrid n1 n2 := by
  refine ⟨?_, List.take_prefix _ _⟩
  simp only [triDensityGrid, List.length_take]
  exact Nat.min_le_left _ _

example : (triDensityGrid 5 3 3).length = 5 ∧ (triGrid 3 3).length = 6 := by decide +kernel

/-! ## 4. rejection-based density sampling in expectation (pure measure identities; that the proposals ARE
    uniform and that rejection is conditioning is C11: `rejection_uniform`, `par_law`, …) -/

/-- expected number of accepted proposals: `n` independent proposals with law `ν`, acceptance region `B`:
    `E[#{i | Xᵢ ∈ B}] = n · ν(B)` -/
theorem expected_accepted {Ω : Type*} [MeasurableSpace Ω] (ν : Measure Ω) [IsProbabilityMeasure ν]
    (B : Set Ω) (hB : MeasurableSet B) (n : ℕ) :
    ∫⁻ ω : Fin n → Ω, ∑ i, B.indicator (fun _ => (1 : ENNReal)) (ω i) ∂(Measure.pi fun _ : Fin n => ν) = n * ν B := by
  have hm : Measurable (B.indicator (fun _ => (1 : ENNReal))) := measurable_const.indicator hB
  have hsum := lintegral_finsetSum (μ := Measure.pi fun _ : Fin n => ν) Finset.univ
    (f := fun (i : Fin n) (ω : Fin n → Ω) => B.indicator (fun _ => (1 : ENNReal)) (ω i))
    (fun i _ => hm.comp (measurable_pi_apply i))
  rw [hsum]
  have h1 : ∀ i : Fin n, ∫⁻ ω : Fin n → Ω, B.indicator (fun _ => (1 : ENNReal)) (ω i) ∂(Measure.pi fun _ : Fin n => ν) = ν B := by
    intro i
    rw [(measurePreserving_eval (μ := fun _ : Fin n => ν) i).lintegral_comp hm]
    exact lintegral_indicator_one hB
  simp [h1]

/-- **rejection-based density sampling, in expectation**: `n` proposals uniform on `A` (law `μ[·|A]`, which is
    what C11 proves the primitives' samplers produce), kept when they fall into `B`:
    `E[#kept] = n · μ(A ∩ B)/μ(A)` -/
theorem expected_accepted_uniform {Ω : Type*} [MeasurableSpace Ω] (μ : Measure Ω) (A B : Set Ω)
    (hA : MeasurableSet A) (hB : MeasurableSet B) (h0 : μ A ≠ 0) (hfin : μ A ≠ ⊤) (n : ℕ) :
    ∫⁻ ω : Fin n → Ω, ∑ i, B.indicator (fun _ => (1 : ENNReal)) (ω i)
        ∂(Measure.pi fun _ : Fin n => ProbabilityTheory.cond μ A) = n * ((μ A)⁻¹ * μ (A ∩ B)) := by
  have := ProbabilityTheory.cond_isProbabilityMeasure_of_finite h0 hfin
  rw [expected_accepted _ B hB n, ProbabilityTheory.cond_apply hA]

/-- with `n = ⌈d·|A|⌉` proposals the expected number of kept points is `d·|A ∩ B|` up to the rounding of `n`:
    `d·c ≤ n·c/a ≤ d·c + 1` for `a = |A| > 0`, `0 ≤ c = |A ∩ B| ≤ a` -/
theorem expected_count_density (d a c : ℝ) (n : ℤ) (ha : 0 < a) (hc0 : 0 ≤ c) (hca : c ≤ a)
    (hn1 : d * a ≤ n) (hn2 : (n : ℝ) - 1 < d * a) :
    d * c ≤ n * c / a ∧ n * c / a ≤ d * c + 1 := by
  have hq0 : 0 ≤ c / a := div_nonneg hc0 ha.le
  have hq1 : c / a ≤ 1 := (div_le_one ha).2 hca
  have e : (n : ℝ) * c / a = n * (c / a) := by ring
  have e2 : d * c = d * a * (c / a) := by field_simp
  rw [e, e2]
  constructor
  · exact mul_le_mul_of_nonneg_right hn1 hq0
  · nlinarith

theorem stdTri_subset_square : stdTri ⊆ Icc (0 : Fin 2 → ℝ) 1 := by
  rintro q ⟨h0, h1, h2⟩
  refine ⟨fun i => ?_, fun i => ?_⟩ <;> fin_cases i <;> simp <;> linarith

/-- the triangle's density sampler: `2n` uniform proposals in the unit square of barycentric coordinates, those
    in the (closed) standard triangle are kept — `n` points in expectation, i.e. `ceil(d·area)` -/
theorem tri_expected_count (n : ℕ) :
    ∫⁻ ω : Fin (2 * n) → (Fin 2 → ℝ), ∑ i, stdTri.indicator (fun _ => (1 : ENNReal)) (ω i)
        ∂(Measure.pi fun _ : Fin (2 * n) => ProbabilityTheory.cond μL (Icc (0 : Fin 2 → ℝ) 1)) = n := by
  have hsq : μL (Icc (0 : Fin 2 → ℝ) 1) = 1 := by simp [Real.volume_Icc_pi]
  rw [expected_accepted_uniform μL _ _ measurableSet_Icc stdTri_compact.isClosed.measurableSet (by simp [hsq]) (by simp [hsq]),
    inter_eq_self_of_subset_right stdTri_subset_square, stdTri_volume, hsq]
  simp only [inv_one, one_mul, Nat.cast_mul, Nat.cast_ofNat]
  rw [mul_comm (2 : ENNReal), mul_assoc, show (2 : ENNReal) * ENNReal.ofReal (1 / 2) = 1 by
    rw [show (2 : ENNReal) = ENNReal.ofReal 2 by simp, ← ENNReal.ofReal_mul (by norm_num)]; norm_num]
  simp

example : ∫⁻ ω : Fin 10 → ℝ, ∑ i, (Icc (1:ℝ) 3).indicator (fun _ => (1 : ENNReal)) (ω i)
      ∂(Measure.pi fun _ : Fin 10 => ProbabilityTheory.cond μL (Icc (0:ℝ) 2)) = 10 * ((μL (Icc (0:ℝ) 2))⁻¹ * μL (Icc (0:ℝ) 2 ∩ Icc 1 3)) :=
  expected_accepted_uniform μL _ _ measurableSet_Icc measurableSet_Icc (by simp) (by simp) 10

example : (10 : ℝ) * 0.3 ≤ (12 : ℤ) * 0.3 / 1.15 ∧ ((12 : ℤ) : ℝ) * 0.3 / 1.15 ≤ 10 * 0.3 + 1 :=
  expected_count_density 10 1.15 0.3 12 (by norm_num) (by norm_num) (by norm_num) (by norm_num) (by norm_num)

/-! ## 5. the same induction on the line (intervals) and in space (balls) -/

/-! ### dimension 1 -/

/-- the set a one-variable 1-D expression denotes -/
def S1 (v : String) (e : Dom ℝ) (ρ : Env ℝ) : Set ℝ := {x | mem e [(v, [x])] ρ}

theorem volAux_interval_ok {v : String} {lb ub : PFun ℝ} {ρ : Env ℝ} {x : ℝ} {w : Bool}
    (h : volAux false (.interval v lb ub) ρ = .ok (x, w)) : ∃ l u, lb.f ρ = [l] ∧ ub.f ρ = [u] ∧ x = intervalVol l u := by
  simp only [volAux] at h
  split at h
  · next l u h1 h2 =>
    simp only [Except.ok.injEq, Prod.mk.injEq] at h
    exact ⟨l, u, h1, h2, h.1.symm⟩
  · cases h

theorem translate_denotation_1d (v : String) (e : Dom ℝ) (t : PFun ℝ) (ρ : Env ℝ) (tx : ℝ)
    (ht : ∀ q, t.f ([(v, q)] ++ ρ) = [tx]) :
    S1 v (.translate v e t) ρ = (fun q => q + tx) '' S1 v e ρ := by
  ext p
  simp only [S1, mem, env_get_single, ht, mem_ofPred_eq, mem_image]
  constructor
  · rintro (⟨q, x, tx', h1, h2, hx, hm⟩ | ⟨q1, q2, x, y, tx', ty', h1, h2, _⟩ | ⟨q1, q2, q3, x, y, z, tx', ty', tz', h1, h2, _⟩)
    · simp only [Option.some.injEq, List.cons.injEq, and_true] at h1 h2
      subst h1 h2
      exact ⟨q, by simpa using hm, hx.symm⟩
    · simp at h1
    · simp at h1
  · rintro ⟨q, hq, rfl⟩
    left
    exact ⟨q, _, tx, rfl, rfl, rfl, by simpa using hq⟩

/-- side conditions in dimension 1 (cf. `Truthful2`); intervals are non-empty (`lb ≤ ub`) -/
def Truthful1 (v : String) (ρ : Env ℝ) : VDom ℝ → Prop
  | .interval v' lb ub =>
    v' = v ∧ (∀ q, lb.f ([(v, q)] ++ ρ) = lb.f ρ ∧ ub.f ([(v, q)] ++ ρ) = ub.f ρ) ∧
      ∀ l u, lb.f ρ = [l] → ub.f ρ = [u] → l ≤ u
  | .union _ a b =>
    Truthful1 v ρ a ∧ Truthful1 v ρ b ∧
      ∀ ea eb, a.erase = some ea → b.erase = some eb → Disjoint (S1 v ea ρ) (S1 v eb ρ)
  | .cut _ a b =>
    Truthful1 v ρ a ∧ Truthful1 v ρ b ∧
      ∀ ea eb, a.erase = some ea → b.erase = some eb → S1 v eb ρ ⊆ S1 v ea ρ
  | .translate v' d t =>
    v' = v ∧ (∀ q, t.f ([(v, q)] ++ ρ) = t.f ρ) ∧ (∃ tx, t.f ρ = [tx]) ∧ Truthful1 v ρ d
  | _ => False

/-- **expression-level soundness (1-D)**: intervals with unions, cuts, translations -/
theorem volume_sound_1d (v : String) (ρ : Env ℝ) : ∀ (D : VDom ℝ) (e : Dom ℝ) (x : ℝ),
    D.erase = some e → Truthful1 v ρ D → volAux false D ρ = .ok (x, false) →
    MeasurableSet (S1 v e ρ) ∧ μL (S1 v e ρ) = ENNReal.ofReal x ∧ 0 ≤ x := by
  intro D
  induction D with
  | par | tri | circle | sphere | point | inter | prod | rotate | bdry | bdryL | bdryR | userVol =>
    intro e x _ ht; exact ht.elim
  | interval v' lb ub =>
    intro e x he ht h
    obtain ⟨rfl, hq, hle⟩ := ht
    simp only [VDom.erase, Option.some.injEq] at he; subst he
    obtain ⟨l, u, hl, hu, rfl⟩ := volAux_interval_ok h
    have hden := interval_denotation v' lb ub ρ l u (fun q => (hq q).1.trans hl) (fun q => (hq q).2.trans hu)
    change S1 v' (.interval v' lb ub) ρ = _ at hden
    rw [hden]
    refine ⟨measurableSet_Icc, interval_volume l u, ?_⟩
    simp only [intervalVol]; linarith [hle l u hl hu]
  | union dj a b iha ihb =>
    intro e x he ht h
    obtain ⟨hta, htb, hdis⟩ := ht
    obtain ⟨-, va, vb, ha, hb, rfl⟩ := volAux_union_ok h
    cases hea : a.erase with
    | none => simp [VDom.erase, hea] at he
    | some ea =>
      cases heb : b.erase with
      | none => simp [VDom.erase, hea, heb] at he
      | some eb =>
        simp only [VDom.erase, hea, heb, Option.bind_eq_bind, Option.bind_some, Option.pure_def, Option.some.injEq] at he
        subst he
        obtain ⟨ma, mua, pa⟩ := iha ea va hea hta ha
        obtain ⟨mb, mub, pb⟩ := ihb eb vb heb htb hb
        have hS : S1 v (.union ea eb) ρ = S1 v ea ρ ∪ S1 v eb ρ := by ext p; simp [S1, mem]
        rw [hS]
        exact ⟨ma.union mb, disjoint_union_add _ _ _ mb (hdis ea eb hea heb) va vb pa pb mua mub, add_nonneg pa pb⟩
  | cut ct a b iha ihb =>
    intro e x he ht h
    obtain ⟨hta, htb, hsub⟩ := ht
    obtain ⟨-, va, vb, ha, hb, rfl⟩ := volAux_cut_ok h
    cases hea : a.erase with
    | none => simp [VDom.erase, hea] at he
    | some ea =>
      cases heb : b.erase with
      | none => simp [VDom.erase, hea, heb] at he
      | some eb =>
        simp only [VDom.erase, hea, heb, Option.bind_eq_bind, Option.bind_some, Option.pure_def, Option.some.injEq] at he
        subst he
        obtain ⟨ma, mua, pa⟩ := iha ea va hea hta ha
        obtain ⟨mb, mub, pb⟩ := ihb eb vb heb htb hb
        have hS : S1 v (.cut ea eb) ρ = S1 v ea ρ \ S1 v eb ρ := by ext p; simp [S1, mem]
        rw [hS]
        refine ⟨ma.diff mb, contained_cut_sub _ _ _ mb (hsub ea eb hea heb) va vb pb mua mub, ?_⟩
        have hle : μL (S1 v eb ρ) ≤ μL (S1 v ea ρ) := measure_mono (hsub ea eb hea heb)
        rw [mua, mub, ENNReal.ofReal_le_ofReal_iff pa] at hle
        linarith
  | translate v' d t ih =>
    intro e x he ht h
    obtain ⟨rfl, hq, ⟨tx, htv⟩, htd⟩ := ht
    rw [vol_translate] at h
    cases hed : d.erase with
    | none => simp [VDom.erase, hed] at he
    | some ed =>
      simp only [VDom.erase, hed, Option.bind_eq_bind, Option.bind_some, Option.pure_def, Option.some.injEq] at he
      subst he
      obtain ⟨md, mud, pd⟩ := ih ed x hed htd h
      rw [translate_denotation_1d v' ed t ρ tx (fun q => (hq q).trans htv)]
      refine ⟨?_, ?_, pd⟩
      · rw [image_add_right]; exact (measurable_add_const _) md
      · rw [image_add_right, measure_preimage_add_right, mud]

/-! ### dimension 3 -/

/-- the set a one-variable 3-D expression denotes -/
def S3 (v : String) (e : Dom ℝ) (ρ : Env ℝ) : Set (Fin 3 → ℝ) := {p | mem e [(v, [p 0, p 1, p 2])] ρ}

/-- the closed ball as a subset of `Fin 3 → ℝ` -/
def ballSet (cx cy cz r : ℝ) : Set (Fin 3 → ℝ) :=
  {p | 0 ≤ r ∧ (p 0 - cx) ^ 2 + (p 1 - cy) ^ 2 + (p 2 - cz) ^ 2 ≤ r ^ 2}

theorem ballSet_eq_preimage (cx cy cz r : ℝ) :
    ballSet cx cy cz r = (WithLp.toLp 2 : (Fin 3 → ℝ) → EuclideanSpace ℝ (Fin 3)) ⁻¹' closedBall !₂[cx, cy, cz] r := by
  ext p
  simp only [ballSet, mem_ofPred_eq, mem_preimage, mem_closedBall, EuclideanSpace.dist_eq, Fin.sum_univ_three,
    Real.sqrt_le_iff]
  simp [Real.dist_eq, sq_abs]

theorem ball_volume_pi (cx cy cz r : ℝ) (hr : 0 ≤ r) : μL (ballSet cx cy cz r) = ENNReal.ofReal (sphereVol r) := by
  rw [ballSet_eq_preimage, (PiLp.volume_preserving_toLp (Fin 3)).measure_preimage
    measurableSet_closedBall.nullMeasurableSet, ball_volume _ _ hr]

theorem ballSet_measurable (cx cy cz r : ℝ) : MeasurableSet (ballSet cx cy cz r) := by
  rw [ballSet_eq_preimage]
  exact (PiLp.volume_preserving_toLp (Fin 3)).measurable measurableSet_closedBall

theorem volAux_sphere_ok {v : String} {c r : PFun ℝ} {ρ : Env ℝ} {x : ℝ} {w : Bool}
    (h : volAux false (.sphere v c r) ρ = .ok (x, w)) : ∃ rr, r.f ρ = [rr] ∧ x = sphereVol rr := by
  simp only [volAux] at h
  split at h
  · next rr h1 =>
    simp only [Bool.false_eq_true, if_false, Except.ok.injEq, Prod.mk.injEq] at h
    exact ⟨rr, h1, h.1.symm⟩
  · cases h

theorem sphere_denotation_pi (v : String) (c r : PFun ℝ) (ρ : Env ℝ) (cx cy cz rr : ℝ)
    (hc : ∀ q, c.f ([(v, q)] ++ ρ) = [cx, cy, cz]) (hr : ∀ q, r.f ([(v, q)] ++ ρ) = [rr]) :
    S3 v (.sphere v c r) ρ = ballSet cx cy cz rr := by
  ext p
  simp only [S3, mem, env_get_single, hc, hr, mem_ofPred_eq, ballSet]
  constructor
  · rintro ⟨x, y, z, cx', cy', cz', rr', h1, h2, h3, h4, h5⟩
    simp only [Option.some.injEq, List.cons.injEq, and_true] at h1 h2 h3
    obtain ⟨rfl, rfl, rfl⟩ := h1; obtain ⟨rfl, rfl, rfl⟩ := h2; subst h3
    exact ⟨h4, h5⟩
  · rintro ⟨h4, h5⟩
    exact ⟨p 0, p 1, p 2, cx, cy, cz, rr, rfl, rfl, rfl, h4, h5⟩

theorem translate_denotation_3d (v : String) (e : Dom ℝ) (t : PFun ℝ) (ρ : Env ℝ) (tx ty tz : ℝ)
    (ht : ∀ q, t.f ([(v, q)] ++ ρ) = [tx, ty, tz]) :
    S3 v (.translate v e t) ρ = (fun q => q + ![tx, ty, tz]) '' S3 v e ρ := by
  ext p
  simp only [S3, mem, env_get_single, ht, mem_ofPred_eq, mem_image]
  constructor
  · rintro (⟨q, x, tx', h1, h2, _⟩ | ⟨q1, q2, x, y, tx', ty', h1, h2, _⟩ | ⟨q1, q2, q3, x, y, z, tx', ty', tz', h1, h2, hx, hy, hz, hm⟩)
    · simp at h1
    · simp at h1
    · simp only [Option.some.injEq, List.cons.injEq, and_true] at h1 h2
      obtain ⟨rfl, rfl, rfl⟩ := h1; obtain ⟨rfl, rfl, rfl⟩ := h2
      refine ⟨![q1, q2, q3], by simpa using hm, ?_⟩
      ext i; fin_cases i <;> simp [hx, hy, hz]
  · rintro ⟨q, hq, rfl⟩
    right; right
    exact ⟨q 0, q 1, q 2, _, _, _, tx, ty, tz, rfl, rfl, by simp, by simp, by simp, by simpa using hq⟩

/-- side conditions in dimension 3 (cf. `Truthful2`) -/
def Truthful3 (v : String) (ρ : Env ℝ) : VDom ℝ → Prop
  | .sphere v' c r =>
    v' = v ∧ (∀ q, c.f ([(v, q)] ++ ρ) = c.f ρ ∧ r.f ([(v, q)] ++ ρ) = r.f ρ) ∧ (∃ cx cy cz, c.f ρ = [cx, cy, cz]) ∧
      ∀ x, r.f ρ = [x] → 0 ≤ x
  | .union _ a b =>
    Truthful3 v ρ a ∧ Truthful3 v ρ b ∧
      ∀ ea eb, a.erase = some ea → b.erase = some eb → Disjoint (S3 v ea ρ) (S3 v eb ρ)
  | .cut _ a b =>
    Truthful3 v ρ a ∧ Truthful3 v ρ b ∧
      ∀ ea eb, a.erase = some ea → b.erase = some eb → S3 v eb ρ ⊆ S3 v ea ρ
  | .translate v' d t =>
    v' = v ∧ (∀ q, t.f ([(v, q)] ++ ρ) = t.f ρ) ∧ (∃ tx ty tz, t.f ρ = [tx, ty, tz]) ∧ Truthful3 v ρ d
  | _ => False

/-- **expression-level soundness (3-D)**: balls with unions, cuts, translations -/
theorem volume_sound_3d (v : String) (ρ : Env ℝ) : ∀ (D : VDom ℝ) (e : Dom ℝ) (x : ℝ),
    D.erase = some e → Truthful3 v ρ D → volAux false D ρ = .ok (x, false) →
    MeasurableSet (S3 v e ρ) ∧ μL (S3 v e ρ) = ENNReal.ofReal x ∧ 0 ≤ x := by
  intro D
  induction D with
  | interval | par | tri | circle | point | inter | prod | rotate | bdry | bdryL | bdryR | userVol =>
    intro e x _ ht; exact ht.elim
  | sphere v' c r =>
    intro e x he ht h
    obtain ⟨rfl, hq, ⟨cx, cy, cz, hc⟩, hpos⟩ := ht
    simp only [VDom.erase, Option.some.injEq] at he; subst he
    obtain ⟨rr, hr, rfl⟩ := volAux_sphere_ok h
    have h0 := hpos rr hr
    rw [sphere_denotation_pi v' c r ρ cx cy cz rr (fun q => (hq q).1.trans hc) (fun q => (hq q).2.trans hr)]
    refine ⟨ballSet_measurable _ _ _ _, ball_volume_pi _ _ _ _ h0, ?_⟩
    simp only [sphereVol, Transc.pi]; positivity
  | union dj a b iha ihb =>
    intro e x he ht h
    obtain ⟨hta, htb, hdis⟩ := ht
    obtain ⟨-, va, vb, ha, hb, rfl⟩ := volAux_union_ok h
    cases hea : a.erase with
    | none => simp [VDom.erase, hea] at he
    | some ea =>
      cases heb : b.erase with
      | none => simp [VDom.erase, hea, heb] at he
      | some eb =>
        simp only [VDom.erase, hea, heb, Option.bind_eq_bind, Option.bind_some, Option.pure_def, Option.some.injEq] at he
        subst he
        obtain ⟨ma, mua, pa⟩ := iha ea va hea hta ha
        obtain ⟨mb, mub, pb⟩ := ihb eb vb heb htb hb
        have hS : S3 v (.union ea eb) ρ = S3 v ea ρ ∪ S3 v eb ρ := by ext p; simp [S3, mem]
        rw [hS]
        exact ⟨ma.union mb, disjoint_union_add _ _ _ mb (hdis ea eb hea heb) va vb pa pb mua mub, add_nonneg pa pb⟩
  | cut ct a b iha ihb =>
    intro e x he ht h
    obtain ⟨hta, htb, hsub⟩ := ht
    obtain ⟨-, va, vb, ha, hb, rfl⟩ := volAux_cut_ok h
    cases hea : a.erase with
    | none => simp [VDom.erase, hea] at he
    | some ea =>
      cases heb : b.erase with
      | none => simp [VDom.erase, hea, heb] at he
      | some eb =>
        simp only [VDom.erase, hea, heb, Option.bind_eq_bind, Option.bind_some, Option.pure_def, Option.some.injEq] at he
        subst he
        obtain ⟨ma, mua, pa⟩ := iha ea va hea hta ha
        obtain ⟨mb, mub, pb⟩ := ihb eb vb heb htb hb
        have hS : S3 v (.cut ea eb) ρ = S3 v ea ρ \ S3 v eb ρ := by ext p; simp [S3, mem]
        rw [hS]
        refine ⟨ma.diff mb, contained_cut_sub _ _ _ mb (hsub ea eb hea heb) va vb pb mua mub, ?_⟩
        have hle : μL (S3 v eb ρ) ≤ μL (S3 v ea ρ) := measure_mono (hsub ea eb hea heb)
        rw [mua, mub, ENNReal.ofReal_le_ofReal_iff pa] at hle
        linarith
  | translate v' d t ih =>
    intro e x he ht h
    obtain ⟨rfl, hq, ⟨tx, ty, tz, htv⟩, htd⟩ := ht
    rw [vol_translate] at h
    cases hed : d.erase with
    | none => simp [VDom.erase, hed] at he
    | some ed =>
      simp only [VDom.erase, hed, Option.bind_eq_bind, Option.bind_some, Option.pure_def, Option.some.injEq] at he
      subst he
      obtain ⟨md, mud, pd⟩ := ih ed x hed htd h
      rw [translate_denotation_3d v' ed t ρ tx ty tz (fun q => (hq q).trans htv)]
      refine ⟨?_, by rw [translation_invariant, mud], pd⟩
      rw [image_add_right]
      exact (measurable_add_const _) md

/-! ## 6. rotations in any dimension -/

/-- **rotations in any dimension**: the image of ANY set under `q ↦ L (q − c) + c` has the same Lebesgue measure when
    `|det L| = 1` (what `Rotate` does with an n×n rotation matrix and a centre) -/
theorem affine_det_one_invariant {n : ℕ} (L : (Fin n → ℝ) →ₗ[ℝ] (Fin n → ℝ)) (c : Fin n → ℝ)
    (hdet : |LinearMap.det L| = 1) (A : Set (Fin n → ℝ)) :
    μL ((fun q => L (q - c) + c) '' A) = μL A := by
  have hfun : (fun q => L (q - c) + c) = (fun q => q + c) ∘ L ∘ (fun q => q + (-c)) := by
    funext q; simp [sub_eq_add_neg]
  rw [hfun, image_comp, image_comp, translation_invariant, Measure.addHaar_image_linearMap, hdet,
    translation_invariant]
  simp

/-- 3-D: a 3×3 matrix with determinant ±1 (every rotation matrix `Rotate` is used with) -/
theorem rotation3_invariant (M : Matrix (Fin 3) (Fin 3) ℝ) (c : Fin 3 → ℝ) (hdet : |M.det| = 1) (A : Set (Fin 3 → ℝ)) :
    μL ((fun q => Matrix.toLin' M (q - c) + c) '' A) = μL A :=
  affine_det_one_invariant (Matrix.toLin' M) c (by rw [LinearMap.det_toLin']; exact hdet) A

/-- non-vacuity: the quarter turn about the z-axis through (1,2,3) -/
example (A : Set (Fin 3 → ℝ)) :
    μL ((fun q => Matrix.toLin' (Matrix.of ![![0, -1, 0], ![1, 0, 0], ![0, 0, (1:ℝ)]]) (q - ![1, 2, 3]) + ![1, 2, 3]) '' A) = μL A :=
  rotation3_invariant _ _ (by simp [Matrix.det_fin_three]) A

/-! ## 7. the count over the whole (density, volume) plane -/

/-- `compute_n_from_density` returns `n` exactly when `n − 1 < d·v ≤ n` — for EVERY magnitude of `d·v` -/
theorem densityCount_eq_iff (d v : ℚ) (n : ℤ) : densityCount d v = n ↔ (n : ℚ) - 1 < d * v ∧ d * v ≤ n := by
  rw [densityCount_eq_ceil, Int.ceil_eq_iff]

/-- however small the shape or sparse the density: a positive `d·v ≤ 1` asks for exactly one point (never zero) -/
theorem densityCount_tiny (d v : ℚ) (h0 : 0 < d * v) (h1 : d * v ≤ 1) : densityCount d v = 1 :=
  (densityCount_eq_iff d v 1).2 ⟨by simpa using h0, by simpa using h1⟩

/-- a product just above an integer, by however little, asks for one more point -/
theorem densityCount_just_above (d v : ℚ) (n : ℤ) (h0 : (n : ℚ) < d * v) (h1 : d * v ≤ n + 1) : densityCount d v = n + 1 :=
  (densityCount_eq_iff d v (n + 1)).2 ⟨by push_cast; linarith, by push_cast; linarith⟩

example : densityCount 10 (1 / 1000000) = 1 ∧ densityCount (1 / 100000) 1 = 1 ∧ densityCount 1 (30 + 1 / 32768) = 31 := by
  decide +kernel

/-! ## 8. evaluation histories: evaluation is a function of (expression, values) — a copy made from a parent depends on
    nothing else (not on siblings made before or after it), and evaluating in two stages is supplying both value sets -/

theorem peval_allVars {K : Type} (σ : Env K) (d : VDom K) : (d.peval σ).allVars = d.allVars := by
  induction d with
  | interval | par | tri | circle | sphere | point => rfl
  | union _ a b iha ihb | cut _ a b iha ihb | inter a b iha ihb | prod a b iha ihb =>
    simp [VDom.peval, VDom.allVars, iha, ihb]
  | translate _ d _ ih | rotate _ d _ _ ih | bdry d ih | bdryL d ih | bdryR d ih | userVol d _ ih =>
    simpa [VDom.peval, VDom.allVars] using ih

section
variable {K : Type} [Add K] [Sub K] [Mul K] [Div K] [Neg K] [LE K] [DecidableLE K]
  [OfNat K 0] [OfNat K 1] [OfNat K 2] [OfNat K 3] [OfNat K 4] [Transc K]

/-- **two-stage evaluation** `D(**σ₁)(**σ₂)` has the volume of `D` at `ρ ∪ σ₂ ∪ σ₁` (e.g. `I(t=1)` followed by `(s=2)`) -/
theorem peval_peval_volume (σ₁ σ₂ : Env K) (d : VDom K) (ρ : Env K)
    (h1 : ∀ x ∈ d.allVars, σ₁.get x = none) (h2 : ∀ x ∈ d.allVars, σ₂.get x = none) :
    volume ((d.peval σ₁).peval σ₂) ρ = volume d ((ρ ++ σ₂) ++ σ₁) := by
  rw [peval_volume_of_params σ₂ (d.peval σ₁) ρ (by rwa [peval_allVars]), peval_volume_of_params σ₁ d (ρ ++ σ₂) h1]

/-- **a family of copies** `[D(**σ) | σ ∈ σs]` made from one parent: every member has the volume of the parent at its own
    values — whatever else was evaluated before or after it (in the model evaluation is a pure function; the harness
    checks that the library's copies behave like that: `check_history`) -/
theorem peval_family_volume (σs : List (Env K)) (d : VDom K) (ρ : Env K)
    (h : ∀ σ ∈ σs, ∀ x ∈ d.allVars, σ.get x = none) :
    (σs.map fun σ => volume (d.peval σ) ρ) = σs.map fun σ => volume d (ρ ++ σ) :=
  List.map_congr_left fun σ hσ => peval_volume_of_params σ d ρ (h σ hσ)
end

/-! ## 9. feature crossing: a user-set volume survives the evaluation of ANY object at outer parameters -/

section
variable {K : Type} [Add K] [Sub K] [Mul K] [Div K] [Neg K] [LE K] [DecidableLE K]
  [OfNat K 0] [OfNat K 1] [OfNat K 2] [OfNat K 3] [OfNat K 4] [Transc K]

/-- whatever the object below is — a product with a Point factor (initial-time slab), a moved or Boolean domain, a
    boundary — after `D(**σ)` the volume is the user's function at `ρ ∪ σ` (no side condition on `d` at all) -/
theorem user_override_peval (d : VDom K) (f : PFun K) (σ ρ : Env K) (x : K) (h : f.f (ρ ++ σ) = [x]) :
    volume ((VDom.userVol d f).peval σ) ρ = .ok (x, false) := by
  simp [volume, volAux, VDom.peval, pfun_peval_f, h]

/-- … e.g. `(Circle(r(k)) × Point(T, 0)).set_volume(7)` evaluated at `k = 2` -/
example :
    let P : VDom ℝ := .userVol (.prod (.circle "x" (.const [0, 0]) ⟨["k"], fun e => match e.get "k" with | some [k] => [k] | _ => []⟩)
      (.point "T" (.const [0]))) (.const [7])
    volume (P.peval [("k", [(2 : ℝ)])]) [] = .ok (7, false) := by
  intro P
  exact user_override_peval _ _ _ _ 7 rfl
end

end TPV.Geom
