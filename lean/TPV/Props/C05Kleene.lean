/-
  C05 — soundness of the leaf-by-leaf (Kleene) decision of boundary membership that the harness uses for rows whose
  closeness slack is below the margin (`harness/c05.py: kleene_all`, model `TPV/Model/GeomKleene.lean`).
-/
import TPV.Model.GeomKleene
import TPV.Props.C05

namespace TPV.Geom
set_option linter.unusedSectionVars false
variable {K : Type} [Field K] [LinearOrder K] [IsStrictOrderedRing K]

/-! ### motions commute with the Boolean structure -/

/-- the row the inner domain of a translation sees -/
def moveT (v : String) (t : PFun K) (pts ρ : Env K) : Option (Env K × Env K) :=
  match pts.get v, t.f (pts ++ ρ) with
  | some [x], [tx] => some ([(v, [x - tx])], pts.filter (fun b => b.1 != v) ++ ρ)
  | some [x, y], [tx, ty] => some ([(v, [x - tx, y - ty])], pts.filter (fun b => b.1 != v) ++ ρ)
  | some [x, y, z], [tx, ty, tz] => some ([(v, [x - tx, y - ty, z - tz])], pts.filter (fun b => b.1 != v) ++ ρ)
  | _, _ => none

/-- the row the inner domain of a rotation sees -/
def moveR (v : String) (m c : PFun K) (pts ρ : Env K) : Option (Env K × Env K) :=
  match pts.get v, m.f (pts ++ ρ), c.f (pts ++ ρ) with
  | some [x, y], [m00, m01, m10, m11], [cx, cy] =>
    some ([(v, [(m11 * (x - cx) - m01 * (y - cy)) / (m00 * m11 - m01 * m10) + cx,
                (m00 * (y - cy) - m10 * (x - cx)) / (m00 * m11 - m01 * m10) + cy])],
          pts.filter (fun b => b.1 != v) ++ ρ)
  | _, _, _ => none

theorem containsAux_translate (τ : Tol K) (onB : Bool) (v : String) (d : Dom K) (t : PFun K) (pts ρ : Env K) :
    containsAux τ onB (.translate v d t) pts ρ = (moveT v t pts ρ).bind fun p => containsAux τ onB d p.1 p.2 := by
  simp only [containsAux, moveT]
  split <;> simp_all

theorem containsAux_rotate (τ : Tol K) (onB : Bool) (v : String) (d : Dom K) (m c : PFun K) (pts ρ : Env K) :
    containsAux τ onB (.rotate v d m c) pts ρ = (moveR v m c pts ρ).bind fun p => containsAux τ onB d p.1 p.2 := by
  simp only [containsAux, moveR]
  split <;> simp_all

/-- **a translation distributes over union, cut, intersection and product** (for the interior and the boundary test) -/
theorem wrapT_eq (τ : Tol K) (v : String) (t : PFun K) (d : Dom K) : ∀ (onB : Bool) (pts ρ : Env K),
    containsAux τ onB (wrapT v t d) pts ρ = containsAux τ onB (.translate v d t) pts ρ := by
  induction d with
  | union a b iha ihb | cut a b iha ihb | inter a b iha ihb | prod a b iha ihb =>
    intro onB pts ρ
    rw [containsAux_translate]
    cases onB <;> simp only [wrapT, containsAux] <;> simp only [iha, ihb, containsAux_translate] <;>
      cases moveT v t pts ρ <;> simp
  | _ => intro onB pts ρ; simp only [wrapT]

/-- **a rotation distributes over union, cut, intersection and product** -/
theorem wrapR_eq (τ : Tol K) (v : String) (m c : PFun K) (d : Dom K) : ∀ (onB : Bool) (pts ρ : Env K),
    containsAux τ onB (wrapR v m c d) pts ρ = containsAux τ onB (.rotate v d m c) pts ρ := by
  induction d with
  | union a b iha ihb | cut a b iha ihb | inter a b iha ihb | prod a b iha ihb =>
    intro onB pts ρ
    rw [containsAux_rotate]
    cases onB <;> simp only [wrapR, containsAux] <;> simp only [iha, ihb, containsAux_rotate] <;>
      cases moveR v m c pts ρ <;> simp
  | _ => intro onB pts ρ; simp only [wrapR]

/-- **pushing every motion down to the primitives does not change any membership answer** -/
theorem push_eq (τ : Tol K) (D : Dom K) : ∀ (onB : Bool) (pts ρ : Env K),
    containsAux τ onB D.push pts ρ = containsAux τ onB D pts ρ := by
  induction D with
  | union a b iha ihb | cut a b iha ihb | inter a b iha ihb | prod a b iha ihb =>
    intro onB pts ρ
    cases onB <;> simp only [Dom.push, containsAux, iha, ihb]
  | translate v d t ih =>
    intro onB pts ρ
    simp only [Dom.push, wrapT_eq, containsAux_translate, ih]
  | rotate v d m c ih =>
    intro onB pts ρ
    simp only [Dom.push, wrapR_eq, containsAux_rotate, ih]
  | _ => intro onB pts ρ; simp only [Dom.push]

theorem wrapT_pushed (v : String) (t : PFun K) (d : Dom K) (h : d.pushed = true) : (wrapT v t d).pushed = true := by
  induction d with
  | union a b iha ihb | cut a b iha ihb | inter a b iha ihb | prod a b iha ihb =>
    simp only [Dom.pushed, Bool.and_eq_true] at h
    simp [wrapT, Dom.pushed, iha h.1, ihb h.2]
  | _ => simp_all [wrapT, Dom.pushed, Dom.isLeaf]

theorem wrapR_pushed (v : String) (m c : PFun K) (d : Dom K) (h : d.pushed = true) : (wrapR v m c d).pushed = true := by
  induction d with
  | union a b iha ihb | cut a b iha ihb | inter a b iha ihb | prod a b iha ihb =>
    simp only [Dom.pushed, Bool.and_eq_true] at h
    simp [wrapR, Dom.pushed, iha h.1, ihb h.2]
  | _ => simp_all [wrapR, Dom.pushed, Dom.isLeaf]

/-- pushing the motions of a solid expression leaves Boolean operations over moved primitives -/
theorem push_pushed (D : Dom K) (h : D.solid) : D.push.pushed = true := by
  induction D with
  | union a b iha ihb | cut a b iha ihb | inter a b iha ihb | prod a b iha ihb =>
    simp only [Dom.solid] at h
    simp [Dom.push, Dom.pushed, iha h.1, ihb h.2]
  | translate v d t ih => exact wrapT_pushed v t _ (ih h)
  | rotate v d m c ih => exact wrapR_pushed v m c _ (ih h)
  | bdry d | bdryL d | bdryR d => simp [Dom.solid] at h
  | _ => simp [Dom.push, Dom.pushed, Dom.isLeaf]

/-! ### the coded formulas, abstractly -/

/-- `containsAux` is its own Boolean skeleton applied to the answers of the non-Boolean sub-expressions -/
theorem containsAux_eq_boolAux (τ : Tol K) (pts ρ : Env K) (D : Dom K) : ∀ onB : Bool,
    containsAux τ onB D pts ρ = boolAux (fun ob d => containsAux τ ob d pts ρ) onB D := by
  induction D with
  | union a b iha ihb | cut a b iha ihb | inter a b iha ihb | prod a b iha ihb =>
    intro onB
    cases onB <;> simp only [containsAux, boolAux, iha, ihb]
  | _ => intro onB; cases onB <;> simp only [boolAux]

/-- a three-valued value is consistent with a Boolean one -/
def Cons (k : Option Bool) (b : Bool) : Prop := ∀ v, k = some v → b = v

theorem cons_and {k1 k2 : Option Bool} {b1 b2 : Bool} (h1 : Cons k1 b1) (h2 : Cons k2 b2) : Cons (kAnd k1 k2) (b1 && b2) := by
  rcases k1 with _ | _ | _ <;> rcases k2 with _ | _ | _ <;> cases b1 <;> cases b2 <;> simp_all [Cons, kAnd]

theorem cons_or {k1 k2 : Option Bool} {b1 b2 : Bool} (h1 : Cons k1 b1) (h2 : Cons k2 b2) : Cons (kOr k1 k2) (b1 || b2) := by
  rcases k1 with _ | _ | _ <;> rcases k2 with _ | _ | _ <;> cases b1 <;> cases b2 <;> simp_all [Cons, kOr]

theorem cons_not {k : Option Bool} {b : Bool} (h : Cons k b) : Cons (kNot k) (!b) := by
  rcases k with _ | _ | _ <;> cases b <;> simp_all [Cons, kNot]

/-- **Kleene evaluation is sound.** Let `atomB` be ANY assignment of answers to the moved primitives (the implementation's,
    whatever its rounding) and `atomK` a three-valued assignment that, where it is definite, agrees with `atomB`.  Then for
    every Boolean combination `D` of moved primitives: if the Kleene evaluation of the coded formula is definite, it is the
    value the coded formula takes on `atomB`. -/
theorem kleene_sound (atomK atomB : Bool → Dom K → Option Bool)
    (h : ∀ ob d v, d.isLeaf = true → atomK ob d = some v → atomB ob d = some v) (D : Dom K) (hD : D.pushed = true) :
    ∀ (onB r : Bool), boolAux atomB onB D = some r → Cons (kleeneAux atomK onB D) r := by
  induction D with
  | union a b iha ihb | cut a b iha ihb | inter a b iha ihb | prod a b iha ihb =>
    simp only [Dom.pushed, Bool.and_eq_true] at hD
    intro onB r hb
    cases onB
    · simp only [boolAux, Option.bind_eq_bind, Option.bind_eq_some_iff, Option.pure_def, Option.some.injEq] at hb
      obtain ⟨ia, hia, ib, hib, rfl⟩ := hb
      simp only [kleeneAux]
      first
        | exact cons_or (iha hD.1 _ _ hia) (ihb hD.2 _ _ hib)
        | exact cons_and (iha hD.1 _ _ hia) (cons_not (ihb hD.2 _ _ hib))
        | exact cons_and (iha hD.1 _ _ hia) (ihb hD.2 _ _ hib)
    · simp only [boolAux, Option.bind_eq_bind, Option.bind_eq_some_iff, Option.pure_def, Option.some.injEq] at hb
      obtain ⟨ia, hia, ib, hib, oa, hoa, ob, hob, rfl⟩ := hb
      have cia := iha hD.1 _ _ hia
      have cib := ihb hD.2 _ _ hib
      have coa := iha hD.1 _ _ hoa
      have cob := ihb hD.2 _ _ hob
      simp only [kleeneAux]
      first
        | exact cons_or (cons_and coa (cons_not cib)) (cons_or (cons_and cob (cons_not cia)) (cons_and cob coa))
        | exact cons_or (cons_and coa (cons_not cib)) (cons_and (cons_and cob cia) (cons_not coa))
        | exact cons_or (cons_and coa cib) (cons_and cob cia)
        | exact cons_or (cons_and coa cib) (cons_and cia cob)
  | _ =>
    intro onB r hb v hk
    first
      | (simp [Dom.pushed, Dom.isLeaf] at hD; done)
      | (cases onB <;> simp only [boolAux] at hb <;> simp only [kleeneAux] at hk <;>
          (have := h _ _ v hD hk; rw [hb] at this; exact Option.some.inj this))

/-! ### a leaf's boundary test is monotone in the tolerances; everything else about a leaf does not depend on them -/

theorem isclose_mono {τ τ' : Tol K} (h : Tol.le τ τ') (x y : K) : isclose τ x y = true → isclose τ' x y = true := by
  rw [isclose_iff, isclose_iff]
  intro hh
  have := mul_le_mul_of_nonneg_right h.2.1 (abs_nonneg y)
  linarith [h.1]

theorem bary_le {τ τ' : Tol K} (h : Tol.le τ τ') : Tol.le τ.bary τ'.bary := ⟨h.2.2, h.2.1, h.2.2⟩

theorem normClose_mono {τ τ' : Tol K} (h : Tol.le τ τ') (d2 r : K) : normClose τ d2 r = true → normClose τ' d2 r = true := by
  rw [normClose_iff, normClose_iff]
  have ht : τ.atol + τ.rtol * |r| ≤ τ'.atol + τ'.rtol * |r| := by
    have := mul_le_mul_of_nonneg_right h.2.1 (abs_nonneg r)
    linarith [h.1]
  rintro ⟨⟨h0, h1⟩, h2⟩
  refine ⟨⟨by linarith, le_trans h1 (pow_le_pow_left₀ h0 (by linarith) 2)⟩, ?_⟩
  rcases h2 with h2 | h2
  · left; linarith
  · by_cases hl : r - (τ'.atol + τ'.rtol * |r|) ≤ 0
    · left; exact hl
    · right
      push Not at hl
      exact le_trans (pow_le_pow_left₀ hl.le (by linarith) 2) h2

/-- **a moved primitive accepted as boundary point with some tolerances is accepted with all larger ones** -/
theorem leaf_bdry_mono {τ τ' : Tol K} (h : Tol.le τ τ') (d : Dom K) (hd : d.isLeaf = true) : ∀ (pts ρ : Env K),
    containsAux τ true d pts ρ = some true → containsAux τ' true d pts ρ = some true := by
  have hI := fun x y => isclose_mono (bary_le h) x y
  have hb := h.2.2
  induction d with
  | interval v lb ub =>
    intro pts ρ hh
    simp only [containsAux] at hh ⊢
    split at hh
    · rename_i x l u e1 e2 e3
      try simp only [e1, e2, e3]
      simp only [Option.some.injEq, Bool.or_eq_true] at hh ⊢
      exact hh.imp (isclose_mono h _ _) (isclose_mono h _ _)
    · simp at hh
  | par v o c1 c2 =>
    intro pts ρ hh
    simp only [containsAux] at hh ⊢
    split at hh
    · rename_i x y ox oy ax ay bx cy e1 e2 e3 e4
      try simp only [e1, e2, e3, e4]
      simp only [if_true, Option.some.injEq, Bool.or_eq_true, Bool.and_eq_true, le_iff] at hh ⊢
      exact hh.imp
        (And.imp (Or.imp (hI _ _) (hI _ _)) (And.imp (fun h => by linarith) (fun h => by linarith)))
        (And.imp (Or.imp (hI _ _) (hI _ _)) (And.imp (fun h => by linarith) (fun h => by linarith)))
    · simp at hh
  | tri v o c1 c2 =>
    intro pts ρ hh
    simp only [containsAux] at hh ⊢
    split at hh
    · rename_i x y ox oy ax ay bx cy e1 e2 e3 e4
      try simp only [e1, e2, e3, e4]
      simp only [if_true, Option.some.injEq, Bool.or_eq_true, Bool.and_eq_true, le_iff] at hh ⊢
      exact hh.imp
        (Or.imp (And.imp (hI _ _) (And.imp (fun h => by linarith) (fun h => by linarith)))
                (And.imp (hI _ _) (And.imp (fun h => by linarith) (fun h => by linarith))))
        (And.imp (hI _ _) (And.imp (fun h => by linarith) (fun h => by linarith)))
    · simp at hh
  | circle v c r =>
    intro pts ρ hh
    simp only [containsAux] at hh ⊢
    split at hh
    · rename_i x y cx cy rr e1 e2 e3
      try simp only [e1, e2, e3]
      simp only [if_true, Option.some.injEq] at hh ⊢
      exact normClose_mono h _ _ hh
    · simp at hh
  | sphere v c r =>
    intro pts ρ hh
    simp only [containsAux] at hh ⊢
    split at hh
    · rename_i x y z cx cy cz rr e1 e2 e3
      try simp only [e1, e2, e3]
      simp only [if_true, Option.some.injEq] at hh ⊢
      exact normClose_mono h _ _ hh
    · simp at hh
  | translate v d t ih =>
    intro pts ρ hh
    rw [containsAux_translate] at hh ⊢
    cases hm : moveT v t pts ρ with
    | none => simp [hm] at hh
    | some p => simp only [hm, Option.bind_some] at hh ⊢; exact ih hd _ _ hh
  | rotate v d m c ih =>
    intro pts ρ hh
    rw [containsAux_rotate] at hh ⊢
    cases hm : moveR v m c pts ρ with
    | none => simp [hm] at hh
    | some p => simp only [hm, Option.bind_some] at hh ⊢; exact ih hd _ _ hh
  | _ => simp [Dom.isLeaf] at hd

/-- whether a moved primitive gives an answer at all does not depend on the tolerances, nor on which test is asked -/
theorem leaf_defined (τ τ' : Tol K) (d : Dom K) (hd : d.isLeaf = true) : ∀ (onB onB' : Bool) (pts ρ : Env K),
    (containsAux τ onB d pts ρ).isSome = (containsAux τ' onB' d pts ρ).isSome := by
  induction d with
  | interval v lb ub =>
    intro onB onB' pts ρ
    cases onB <;> cases onB' <;> simp only [containsAux] <;> split <;> simp_all
  | par v o c1 c2 | tri v o c1 c2 | circle v c r | sphere v c r =>
    intro onB onB' pts ρ
    cases onB <;> cases onB' <;> simp only [containsAux] <;> split <;> rfl
  | translate v d t ih =>
    intro onB onB' pts ρ
    rw [containsAux_translate, containsAux_translate]
    cases moveT v t pts ρ with
    | none => rfl
    | some p => exact ih hd _ _ _ _
  | rotate v d m c ih =>
    intro onB onB' pts ρ
    rw [containsAux_rotate, containsAux_rotate]
    cases moveR v m c pts ρ with
    | none => rfl
    | some p => exact ih hd _ _ _ _
  | _ => simp [Dom.isLeaf] at hd

/-- the interior test of a moved primitive does not use the tolerances -/
theorem leaf_interior_indep (τ τ' : Tol K) (d : Dom K) (hd : d.isLeaf = true) : ∀ (pts ρ : Env K),
    containsAux τ false d pts ρ = containsAux τ' false d pts ρ := by
  induction d with
  | interval v lb ub | par v o c1 c2 | tri v o c1 c2 | circle v c r | sphere v c r =>
    intro pts ρ
    simp only [containsAux, Bool.false_eq_true, if_false]
  | translate v d t ih =>
    intro pts ρ
    rw [containsAux_translate, containsAux_translate]
    cases moveT v t pts ρ with
    | none => rfl
    | some p => exact ih hd _ _
  | rotate v d m c ih =>
    intro pts ρ
    rw [containsAux_rotate, containsAux_rotate]
    cases moveR v m c pts ρ with
    | none => rfl
    | some p => exact ih hd _ _
  | _ => simp [Dom.isLeaf] at hd

/-- **a moved primitive rejected as boundary point with some tolerances is rejected with all smaller ones** -/
theorem leaf_bdry_mono_false {τ τ' : Tol K} (h : Tol.le τ τ') (d : Dom K) (hd : d.isLeaf = true) (pts ρ : Env K)
    (hh : containsAux τ' true d pts ρ = some false) : containsAux τ true d pts ρ = some false := by
  have hdef := leaf_defined τ τ' d hd true true pts ρ
  rcases hc : containsAux τ true d pts ρ with _ | b
  · simp [hc, hh] at hdef
  · cases b
    · rfl
    · have := leaf_bdry_mono h d hd pts ρ hc
      rw [hh] at this
      cases this

/-- what the harness takes as decided about a leaf is what the model answers at every tolerance in the sandwich -/
theorem leafAtom_sound (τ lo hi τ' : Tol K) (mg : K) (pts ρ : Env K) (hlo : Tol.le lo τ') (hhi : Tol.le τ' hi)
    (ob : Bool) (d : Dom K) (v : Bool) (hd : d.isLeaf = true)
    (ha : leafAtom τ lo hi mg pts ρ ob d = some v) : containsAux τ' ob d pts ρ = some v := by
  cases ob
  · simp only [leafAtom] at ha
    split at ha
    · split at ha
      · cases ha
      · rw [← ha]; exact (leaf_interior_indep τ τ' d hd pts ρ).symm
    · cases ha
  · simp only [leafAtom] at ha
    split at ha
    · rename_i e1 e2
      cases ha
      exact leaf_bdry_mono hlo d hd pts ρ e1
    · rename_i e1 e2
      cases ha
      exact leaf_bdry_mono_false hhi d hd pts ρ e2
    · cases ha

/-! ### the decision the harness draws -/

/-- **Sandwich theorem.** For a Boolean combination `D` of moved primitives: if the leaf-by-leaf Kleene evaluation (boundary
    tests decided by the LOW / HIGH tolerances, interior tests by the exact answer) gives a definite value, then the coded
    boundary test answers exactly that value at EVERY tolerance `τ'` between LOW and HIGH. -/
theorem kleene_sandwich (τ lo hi τ' : Tol K) (mg : K) (pts ρ : Env K) (D : Dom K) (hlo : Tol.le lo τ') (hhi : Tol.le τ' hi)
    (hD : D.pushed = true) (r v : Bool) (h1 : containsAux τ' true D pts ρ = some r)
    (h2 : kleeneAux (leafAtom τ lo hi mg pts ρ) true D = some v) : r = v := by
  rw [containsAux_eq_boolAux] at h1
  exact kleene_sound (leafAtom τ lo hi mg pts ρ) (fun ob d => containsAux τ' ob d pts ρ)
    (fun ob d v hl ha => leafAtom_sound τ lo hi τ' mg pts ρ hlo hhi ob d v hl ha) D hD true r h1 v h2

/-- **the harness's rule, as it is applied** (`kleene` op of the driver): for every solid domain expression — motions at any
    level — a definite `kleeneBdry` is the answer of `D.boundary._contains` in the model at every tolerance in the sandwich. -/
theorem kleeneBdry_sound (τ lo hi τ' : Tol K) (mg : K) (pts ρ : Env K) (D : Dom K) (hs : D.solid) (hlo : Tol.le lo τ')
    (hhi : Tol.le τ' hi) (r v : Bool) (h1 : bdryContains τ' D pts ρ = some r)
    (h2 : kleeneBdry τ lo hi mg D pts ρ = some v) : r = v := by
  unfold bdryContains at h1
  rw [← push_eq] at h1
  exact kleene_sandwich τ lo hi τ' mg pts ρ D.push hlo hhi (push_pushed D hs) r v h1 h2

/-- **the same with a tolerance of its own for every leaf test**: whatever answers `atomB` an implementation obtains for the
    moved primitives — each boundary test behaving like the exact test at SOME tolerance inside the sandwich (its float error
    moves the band by less than the sandwich allows), each interior test exact — the coded formula evaluated on those answers
    gives the decided value. -/
theorem kleeneBdry_sound_per_leaf (τ lo hi : Tol K) (mg : K) (pts ρ : Env K) (D : Dom K) (hs : D.solid)
    (atomB : Bool → Dom K → Option Bool)
    (hB : ∀ d, d.isLeaf = true → (∃ τd, Tol.le lo τd ∧ Tol.le τd hi ∧ atomB true d = containsAux τd true d pts ρ) ∧
      atomB false d = containsAux τ false d pts ρ)
    (r v : Bool) (h1 : boolAux atomB true D.push = some r) (h2 : kleeneBdry τ lo hi mg D pts ρ = some v) : r = v := by
  refine kleene_sound (leafAtom τ lo hi mg pts ρ) atomB ?_ D.push (push_pushed D hs) true r h1 v h2
  intro ob d v hl ha
  obtain ⟨⟨τd, h1, h2, h3⟩, h4⟩ := hB d hl
  cases ob
  · rw [h4, leaf_interior_indep τ τd d hl]; exact leafAtom_sound τ lo hi τd mg pts ρ h1 h2 false d v hl ha
  · rw [h3]; exact leafAtom_sound τ lo hi τd mg pts ρ h1 h2 true d v hl ha

/-! ### non-vacuity on the executable instance -/

/-- two unit squares sharing the edge `x = 1`, the second one placed by a translation -/
def exSquares : Dom Rat :=
  .union (.par "x" (.const [0, 0]) (.const [1, 0]) (.const [0, 1]))
         (.translate "x" (.par "x" (.const [0, 0]) (.const [1, 0]) (.const [0, 1])) (.const [1, 0]))

def exTol : Tol Rat := ⟨1/100000000, 1/100000, 1/100000⟩
def exLo : Tol Rat := ⟨1/400000000, 1/400000, 1/400000⟩
def exHi : Tol Rat := ⟨4/100000000, 4/100000, 4/100000⟩

/-- a point ON the outer edge `x = 0`: the first square's interior test is undecided (margin 0), its boundary test and the
    second square's interior test are decided, and that is enough -/
example : kleeneBdry exTol exLo exHi (1/2000) exSquares [("x", [0, 1/2])] [] = some true := by decide +kernel

/-- a point inside the rim of the band (between a quarter and four times the tolerance away from the edge): undecided -/
example : kleeneBdry exTol exLo exHi (1/2000) exSquares [("x", [-2/100000, 1/2])] [] = none := by decide +kernel

/-- four tolerances and more away: decided off the boundary -/
example : kleeneBdry exTol exLo exHi (1/2000) exSquares [("x", [-5/100000, 1/2])] [] = some false := by decide +kernel

/-- the hypotheses of `kleeneBdry_sound` are satisfiable and its conclusion is the model's answer -/
example : bdryContains exTol exSquares [("x", [0, 1/2])] [] = some true := by
  have hs : exSquares.solid := by simp [exSquares, Dom.solid]
  have hlo : Tol.le exLo exTol := by simp only [Tol.le, exLo, exTol]; norm_num
  have hhi : Tol.le exTol exHi := by simp only [Tol.le, exHi, exTol]; norm_num
  have hk : kleeneBdry exTol exLo exHi (1/2000) exSquares [("x", [0, 1/2])] [] = some true := by decide +kernel
  rcases h : bdryContains exTol exSquares [("x", [0, 1/2])] [] with _ | r
  · exact absurd h (by decide +kernel)
  · rw [kleeneBdry_sound exTol exLo exHi exTol (1/2000) _ _ exSquares hs hlo hhi r true h hk]

end TPV.Geom
