/-
  C02 — pairing: every point of every returned row was made for (a part of) the row it is joined with.
  Domain nodes (primitive, Boolean, product incl. dependent, translate/rotate), every leaf sampler kind, data,
  products, sums, static samplers and their call histories.  (Append: Props/C02Append.lean.)
-/
import TPV.Props.C02
set_option linter.unusedVariables false
set_option linter.unnecessarySimpa false
namespace TPV.Sampler

theorem cells_joinPt (c : Point) (ρ : Row) : (joinPt c ρ).cells = c ++ ρ.cells := by
  induction c with
  | nil => simp [joinPt]
  | cons p c ih => simpa [joinPt, Row.cells] using ih

theorem sub_iff (g ctx : Row) :
    g.sub ctx = true ↔ (∀ c ∈ g.cells, c ∈ ctx.cells) ∧ (g.base = .nil ∨ g.base = ctx.base) := by
  simp [Row.sub, List.all_eq_true]

/-- a row is a sub-row of itself with cells put in front -/
theorem sub_joinPt (c : Point) (ρ : Row) : ρ.sub (joinPt c ρ) = true := by
  rw [sub_iff, cells_joinPt, base_joinPt]
  exact ⟨fun x hx => List.mem_append_right _ hx, Or.inr rfl⟩

/-- a point made without parameters fits every parameter row -/
theorem sub_nil_mono (g : Row) (c : Point) (ρ : Row) (h : g.sub (joinPt c .nil) = true) :
    g.sub (joinPt c ρ) = true := by
  rw [sub_iff, cells_joinPt, base_joinPt] at h ⊢
  refine ⟨fun x hx => ?_, ?_⟩
  · have := h.1 x hx
    simp [Row.cells] at this
    exact List.mem_append_left _ this
  · rcases h.2 with h2 | h2
    · exact Or.inl h2
    · exact Or.inl (by simpa [Row.base] using h2)

theorem pairedTo_nil_mono (p : Pt) (c : Point) (ρ : Row) (h : p.pairedTo (joinPt c .nil) = true) :
    p.pairedTo (joinPt c ρ) = true := by
  cases p with
  | prim v l j g => simp only [Pt.pairedTo] at h ⊢; exact sub_nil_mono g c ρ h
  | datum v id j => simp [Pt.pairedTo]
  | marker id vs g => simp only [Pt.pairedTo] at h ⊢; exact sub_nil_mono g c ρ h

theorem paired_joinPt_cons (p : Pt) (c : Point) (ρ : Row) :
    (joinPt (p :: c) ρ).paired = (p.pairedTo (joinPt c ρ) && (joinPt c ρ).paired) := by
  simp [joinPt, Row.paired]

/-- a point sampled without parameters (parameter-independent domain) stays paired when it is joined with a row -/
theorem paired_joinPt_nil_mono (c : Point) (ρ : Row) (hρ : ρ.paired = true) (h : (joinPt c .nil).paired = true) :
    (joinPt c ρ).paired = true := by
  induction c with
  | nil => simpa [joinPt] using hρ
  | cons p c ih =>
    rw [paired_joinPt_cons, Bool.and_eq_true] at h ⊢
    exact ⟨pairedTo_nil_mono p c ρ h.1, ih h.2⟩

theorem joinPt_append (a b : Point) (ρ : Row) : joinPt (a ++ b) ρ = joinPt a (joinPt b ρ) := by
  simp [joinPt, List.foldr_append]

theorem paired_nil : Row.nil.paired = true := rfl


/-- point i joined with context row i is paired, for all i (lists of equal length) -/
inductive AllOK : List Point → List Row → Prop
  | nil : AllOK [] []
  | cons {c ρ cs ρs} : (joinPt c ρ).paired = true → AllOK cs ρs → AllOK (c :: cs) (ρ :: ρs)

theorem AllOK.length_eq {pts ctx} (h : AllOK pts ctx) : pts.length = ctx.length := by
  induction h with
  | nil => rfl
  | cons _ _ ih => simp [ih]

theorem AllOK.get {pts ctx} (h : AllOK pts ctx) : ∀ i (h1 : i < pts.length) (h2 : i < ctx.length),
    (joinPt pts[i] ctx[i]).paired = true := by
  induction h with
  | nil => intro i h1; simp at h1
  | cons hp _ ih =>
    intro i h1 h2
    cases i with
    | zero => simpa using hp
    | succ i => simpa using ih i (by simpa using h1) (by simpa using h2)

theorem AllOK.of_get : ∀ (pts : List Point) (ctx : List Row), pts.length = ctx.length →
    (∀ i (h1 : i < pts.length) (h2 : i < ctx.length), (joinPt pts[i] ctx[i]).paired = true) → AllOK pts ctx := by
  intro pts
  induction pts with
  | nil => intro ctx hl _; cases ctx with | nil => exact .nil | cons _ _ => simp at hl
  | cons c cs ih =>
    intro ctx hl h
    cases ctx with
    | nil => simp at hl
    | cons ρ ρs =>
      refine .cons (by have := h 0 (by simp) (by simp); simp only [List.getElem_cons_zero] at this; exact this) (ih ρs (by simpa using hl) ?_)
      intro i h1 h2
      have := h (i + 1) (by simpa using h1) (by simpa using h2)
      simp only [List.getElem_cons_succ] at this; exact this

theorem AllOK.append {a b : List Point} {c d : List Row} (h1 : AllOK a c) (h2 : AllOK b d) : AllOK (a ++ b) (c ++ d) := by
  induction h1 with
  | nil => simpa using h2
  | cons hp _ ih => exact .cons hp ih

theorem AllOK.flatMap {α} (l : List α) (f : α → List Point) (g : α → List Row) (h : ∀ a ∈ l, AllOK (f a) (g a)) :
    AllOK (l.flatMap f) (l.flatMap g) := by
  induction l with
  | nil => exact .nil
  | cons a l ih =>
    simp only [List.flatMap_cons]
    exact (h a (by simp)).append (ih fun b hb => h b (by simp [hb]))

/-- the rows a sample of `n` points per row is joined with -/
def ctxRows (ps : List Row) (n : Nat) : List Row := repeatParams (rowsOr1 ps) n

theorem ctxRows_ne (ps : List Row) (n : Nat) (h : ps ≠ []) : ctxRows ps n = repeatParams ps n := by
  simp [ctxRows, rowsOr1_ne ps h]

theorem ctxRows_nil (n : Nat) : ctxRows [] n = List.replicate n Row.nil := by
  simp [ctxRows, rowsOr1, repeatParams]

theorem repeatParams_one (ps : List Row) : repeatParams ps 1 = ps := by
  induction ps with
  | nil => rfl
  | cons p ps ih => simp only [repeatParams, List.flatMap_cons] at ih ⊢; rw [ih]; rfl

theorem mem_rowsOr1_paired (ps : List Row) (hps : ∀ ρ ∈ ps, ρ.paired = true) : ∀ ρ ∈ rowsOr1 ps, ρ.paired = true := by
  intro ρ hρ
  unfold rowsOr1 at hρ
  split at hρ
  · simp at hρ; subst hρ; rfl
  · exact hps ρ hρ

theorem mem_repeatParams {ps : List Row} {n : Nat} {ρ : Row} (h : ρ ∈ repeatParams ps n) : ρ ∈ ps := by
  simp only [repeatParams, List.mem_flatMap] at h
  obtain ⟨a, ha, hr⟩ := h
  rw [List.eq_of_mem_replicate hr]; exact ha

theorem mem_ctxRows_paired (ps : List Row) (n : Nat) (hps : ∀ ρ ∈ ps, ρ.paired = true) : ∀ ρ ∈ ctxRows ps n, ρ.paired = true :=
  fun ρ hρ => mem_rowsOr1_paired ps hps ρ (mem_repeatParams hρ)

theorem chooseRows_getElem (o : Nat → Bool) (a b : List Point) (i : Nat) (h : i < (chooseRows o a b).length)
    (ha : i < a.length) (hb : i < b.length) : (chooseRows o a b)[i] = if o i then a[i] else b[i] := by
  simp [chooseRows]


theorem allOK_replicate_prim (v : Var) (id n : Nat) (ρ : Row) (hρ : ρ.paired = true) :
    AllOK ((List.range n).map fun j => [Pt.prim v id j ρ]) (List.replicate n ρ) := by
  apply AllOK.of_get
  · simp
  · intro i h1 h2
    simp [joinPt, Row.paired, Pt.pairedTo, sub_refl, hρ]

/-- every domain node: point i of the sample is paired with the row it is joined with
    (`ctxRows ps n` = the parameter rows `repeat_interleave`d, or `n` empty rows) -/
theorem Dom.sample_paired (o : Nat → Bool) (d : Dom) : ∀ (n : Nat) (ps : List Row), 0 < n →
    (∀ ρ ∈ ps, ρ.paired = true) → AllOK (d.sample o n ps) (ctxRows ps n) := by
  induction d with
  | prim v id deps =>
    intro n ps hn hps
    simp only [Dom.sample, ctxRows, repeatParams]
    exact AllOK.flatMap _ _ _ fun ρ hρ => allOK_replicate_prim v id n ρ (mem_rowsOr1_paired ps hps ρ hρ)
  | bool a b iha ihb =>
    intro n ps hn hps
    have ha := iha n ps hn hps
    have hb := ihb n ps hn hps
    simp only [Dom.sample]
    apply AllOK.of_get
    · rw [chooseRows_length, ha.length_eq, hb.length_eq, Nat.min_self]
    · intro i h1 h2
      have hla : i < (a.sample o n ps).length := by rw [ha.length_eq]; exact h2
      have hlb : i < (b.sample o n ps).length := by rw [hb.length_eq]; exact h2
      rw [chooseRows_getElem o _ _ i h1 hla hlb]
      split
      · exact ha.get i hla h2
      · exact hb.get i hlb h2
  | prod a b iha ihb =>
    intro n ps hn hps
    -- the points of b, always aligned with C := ctxRows ps n
    have hC : ∀ ρ ∈ ctxRows ps n, ρ.paired = true := mem_ctxRows_paired ps n hps
    have hlenC : (ctxRows ps n).length = n * max 1 ps.length := by
      simp [ctxRows, repeatParams_length, rowsOr1_length, Nat.mul_comm]
    cases ps with
    | nil =>
      simp only [Dom.sample, List.isEmpty_nil, if_true]
      have hb := ihb n [] hn (by simp)
      rw [ctxRows_nil] at hb ⊢
      have hlb : (b.sample o n []).length = n := by simpa using hb.length_eq
      -- parameter rows of a
      have hapsP : ∀ ρ ∈ (b.sample o n []).map (joinPt · Row.nil), ρ.paired = true := by
        intro ρ hρ
        obtain ⟨c, hc, rfl⟩ := List.mem_map.mp hρ
        obtain ⟨i, hi, rfl⟩ := List.getElem_of_mem hc
        have := hb.get i hi (by simpa [hlb] using hi)
        simpa using this
      have haps_ne : (b.sample o n []).map (joinPt · Row.nil) ≠ [] := by
        intro e; have := congrArg List.length e; simp [hlb] at this; omega
      have ha := iha 1 _ Nat.one_pos hapsP
      rw [ctxRows_ne _ _ haps_ne, repeatParams_one] at ha
      apply AllOK.of_get
      · simp [List.length_zipWith, ha.length_eq, hlb]
      · intro i h1 h2
        simp only [List.length_zipWith] at h1
        have hia : i < (a.sample o 1 ((b.sample o n []).map (joinPt · Row.nil))).length := by omega
        have hib : i < (b.sample o n []).length := by omega
        have := ha.get i hia (by simpa using hib)
        simp only [List.getElem_zipWith, List.getElem_replicate, joinPt_append]
        simpa using this
    | cons p ps =>
      have hne : (p :: ps) ≠ [] := by simp
      simp only [Dom.sample, List.isEmpty_cons, Bool.false_eq_true, if_false]
      rw [ctxRows_ne _ _ hne] at hC hlenC ⊢
      have hreps_ne : repeatParams (p :: ps) n ≠ [] := by
        intro e
        have hl : (repeatParams (p :: ps) n).length = 0 := by rw [e]; rfl
        rw [hlenC] at hl
        have hpos : 0 < n * max 1 (p :: ps).length := Nat.mul_pos hn (by omega)
        omega
      have hb := ihb 1 (repeatParams (p :: ps) n) Nat.one_pos hC
      rw [ctxRows_ne _ _ hreps_ne, repeatParams_one] at hb
      have hapsP : ∀ ρ ∈ List.zipWith joinPt (b.sample o 1 (repeatParams (p :: ps) n)) (repeatParams (p :: ps) n),
          ρ.paired = true := by
        intro ρ hρ
        obtain ⟨i, hi, rfl⟩ := List.getElem_of_mem hρ
        simp only [List.getElem_zipWith]
        simp only [List.length_zipWith] at hi
        exact hb.get i (by omega) (by omega)
      have haps_ne : List.zipWith joinPt (b.sample o 1 (repeatParams (p :: ps) n)) (repeatParams (p :: ps) n) ≠ [] := by
        intro e; have := congrArg List.length e
        simp only [List.length_zipWith, hb.length_eq, Nat.min_self, List.length_nil] at this
        exact hreps_ne (List.eq_nil_of_length_eq_zero this)
      have ha := iha 1 _ Nat.one_pos hapsP
      rw [ctxRows_ne _ _ haps_ne, repeatParams_one] at ha
      apply AllOK.of_get
      · simp [List.length_zipWith, ha.length_eq, hb.length_eq]
      · intro i h1 h2
        simp only [List.length_zipWith] at h1
        have := ha.get i (by omega) (by simp [List.length_zipWith, hb.length_eq]; omega)
        simp only [List.getElem_zipWith, joinPt_append] at this ⊢
        exact this
  | move d id deps ih =>
    intro n ps hn hps
    have hd := ih n ps hn hps
    have hlen : (d.sample o n ps).length = n * max 1 ps.length := Dom.sample_length o d n ps hn
    have hreps : (if ps.isEmpty then List.replicate (d.sample o n ps).length Row.nil
        else repeatParams ps ((d.sample o n ps).length / max ps.length 1)) = ctxRows ps n := by
      cases ps with
      | nil => simp [ctxRows_nil, hlen]
      | cons p ps =>
        have hk : 0 < (p :: ps).length := by simp
        have h1 : max 1 (p :: ps).length = (p :: ps).length := by simp
        have h2 : max (p :: ps).length 1 = (p :: ps).length := by simp
        simp only [List.isEmpty_cons, Bool.false_eq_true, if_false, hlen, h1, h2]
        rw [Nat.mul_div_cancel _ hk, ctxRows_ne _ _ (by simp)]
    simp only [Dom.sample, hreps]
    apply AllOK.of_get
    · simp [List.length_zipWith, hd.length_eq]
    · intro i h1 h2
      simp only [List.length_zipWith] at h1
      have := hd.get i (by omega) h2
      simp only [List.getElem_zipWith, paired_joinPt_cons, Pt.pairedTo, sub_joinPt, this, Bool.and_self]

theorem mem_zipWith_joinPt {pts : List Point} {reps : List Row} {x : Row} (h : x ∈ List.zipWith joinPt pts reps) :
    ∃ i, ∃ (h1 : i < pts.length) (h2 : i < reps.length), x = joinPt pts[i] reps[i] := by
  obtain ⟨i, hi, rfl⟩ := List.getElem_of_mem h
  simp only [List.length_zipWith] at hi
  exact ⟨i, by omega, by omega, by simp⟩

theorem mem_tile {α} {k : Nat} {l : List α} {x : α} (h : x ∈ tile k l) : x ∈ l := by
  simp only [tile, List.mem_flatten, List.mem_replicate] at h
  obtain ⟨l', ⟨_, rfl⟩, hx⟩ := h
  exact hx

theorem single_paired (ρ : Row) (hρ : ρ.paired = true) : ∀ ρ' ∈ single ρ, ρ'.paired = true := by
  intro ρ' h
  unfold single at h
  split at h
  · simp at h
  · simp at h; subst h; exact hρ

theorem ctxRows_single (ρ : Row) (n : Nat) : ctxRows (single ρ) n = List.replicate n ρ := by
  simp [ctxRows, rowsOr1_single, repeatParams]

/-- a per-row call (`_sample_for_ith_param`) on ANY domain node returns only paired rows -/
theorem forRow_paired (o : Oracle) (d : Dom) (n : Nat) (ρ : Row) (hn : 0 < n) (hρ : ρ.paired = true) :
    ∀ x ∈ forRow o d n ρ, x.paired = true := by
  intro x hx
  have hd := Dom.sample_paired o.choose d n (single ρ) hn (single_paired ρ hρ)
  rw [ctxRows_single] at hd
  simp only [forRow, List.mem_map] at hx
  obtain ⟨c, hc, rfl⟩ := hx
  obtain ⟨i, hi, rfl⟩ := List.getElem_of_mem hc
  have := hd.get i hi (by rw [← hd.length_eq]; exact hi)
  simpa using this

theorem scaledN_pos (n got : Nat) (hn : 0 < n) (hle : got ≤ n) : 0 < scaledN n got := by
  unfold scaledN
  split
  · omega
  · rename_i h0
    have : got ≤ n * n := Nat.le_trans hle (Nat.le_mul_of_pos_left n hn)
    exact Nat.div_pos this (by omega)

/-- **every leaf sampler kind on every domain node, with or without filter**: all returned rows are paired,
    for every verdict of the filter / membership test and every choice of the Boolean nodes -/
theorem leafSample_paired (o : Oracle) (kind : LeafKind) (d : Dom) (n : Nat) (filt : Bool) (ps rows : List Row)
    (hn : 0 < n) (hps : ∀ ρ ∈ ps, ρ.paired = true)
    (h : leafSample o kind d n filt ps = .ok rows) : ∀ x ∈ rows, x.paired = true := by
  have hr := mem_rowsOr1_paired ps hps
  have hfor : ∀ m, 0 < m → ∀ ρ ∈ rowsOr1 ps, ∀ x ∈ forRow o d m ρ, x.paired = true :=
    fun m hm ρ hρ => forRow_paired o d m ρ hm (hr ρ hρ)
  have hloop : ∀ ρ ∈ rowsOr1 ps, ∀ r, filterLoopRow o d n ρ = .ok r → ∀ x ∈ r, x.paired = true := by
    intro ρ hρ r hr'
    unfold filterLoopRow at hr'
    split at hr'
    · rename_i out e; cases hr'
      exact accumLoop_all (fun x => x.paired = true) _ _ _ (fun _ => hfor n hn ρ hρ) _ _ _ _ (by simp) e
    · cases hr'
  have hzip : ∀ (pts : List Point) (reps : List Row), (∀ c ∈ pts, (joinPt c .nil).paired = true) →
      (∀ ρ ∈ reps, ρ.paired = true) → ∀ rows, joinRows pts reps = .ok rows → ∀ x ∈ rows, x.paired = true := by
    intro pts reps hp hrp rows hj x hx
    unfold joinRows at hj
    split at hj
    · cases hj
      obtain ⟨c, hc, rfl⟩ := List.mem_map.mp hx
      exact hp c hc
    · split at hj
      · cases hj
        obtain ⟨i, h1, h2, rfl⟩ := mem_zipWith_joinPt hx
        exact paired_joinPt_nil_mono _ _ (hrp _ (List.getElem_mem _)) (hp _ (List.getElem_mem _))
      · cases hj
  unfold leafSample at h
  split at h
  · -- uniform without filter: the zip of the domain sample with the repeated parameters
    have hd := Dom.sample_paired o.choose d n ps hn hps
    intro x hx
    unfold joinRows at h
    split at h
    · rename_i he
      cases h
      have hps0 : ps = [] := by
        cases ps with
        | nil => rfl
        | cons p ps =>
          have hl := repeatParams_length (p :: ps) n
          have he' : repeatParams (p :: ps) n = [] := by simpa using he
          rw [he'] at hl
          have hpos : 0 < (p :: ps).length * n := Nat.mul_pos (by simp) hn
          have hl0 : (p :: ps).length * n = 0 := by simpa using hl.symm
          omega
      subst hps0
      rw [ctxRows_nil] at hd
      obtain ⟨c, hc, rfl⟩ := List.mem_map.mp hx
      obtain ⟨i, hi, rfl⟩ := List.getElem_of_mem hc
      have := hd.get i hi (by rw [← hd.length_eq]; exact hi)
      simpa using this
    · split at h
      · rename_i he hl
        cases h
        have hne : ps ≠ [] := by intro e; subst e; simp [repeatParams] at he
        rw [ctxRows_ne _ _ hne] at hd
        obtain ⟨i, h1, h2, rfl⟩ := mem_zipWith_joinPt hx
        exact hd.get i h1 h2
      · cases h
  · exact perRow_all _ _ _ _ hloop h
  · exact perRow_all _ _ _ _ hloop h
  · cases h
    intro x hx
    obtain ⟨ρ, hρ, hx⟩ := List.mem_flatMap.mp hx
    have hle := filterIdx_length_le (o.acc 0) (forRow o d n ρ)
    rw [forRow_length o d n ρ hn] at hle
    unfold lhsRow at hx
    simp only at hx
    split at hx
    · exact hfor n hn ρ hρ x (filterIdx_mem _ _ _ hx)
    · rcases List.mem_append.mp hx with hx | hx
      · exact hfor n hn ρ hρ x (filterIdx_mem _ _ _ hx)
      · exact hfor _ (by omega) ρ hρ x hx
  · split at h
    · cases h
    · split at h
      · cases h
        intro x hx
        obtain ⟨ρ, hρ, hx⟩ := List.mem_flatMap.mp hx
        exact hfor n hn ρ hρ x hx
      · -- parameter-independent grid: one sample without parameters, copied for every row
        have hd := Dom.sample_paired o.choose d n [] hn (by simp)
        rw [ctxRows_nil] at hd
        refine hzip _ _ ?_ (fun ρ hρ => hps ρ (mem_repeatParams hρ)) rows h
        intro c hc
        obtain ⟨i, hi, rfl⟩ := List.getElem_of_mem (mem_tile hc)
        have := hd.get i hi (by rw [← hd.length_eq]; exact hi)
        simpa using this
  · split at h
    · cases h
    · refine perRow_all _ _ _ _ ?_ h
      intro ρ hρ r hr'
      have hle := filterIdx_length_le (o.acc 0) (forRow o d n ρ)
      rw [forRow_length o d n ρ hn] at hle
      unfold gridFilterRow at hr'
      simp only at hr'
      split at hr'
      · cases hr'; intro x hx; exact hfor n hn ρ hρ x (filterIdx_mem _ _ _ hx)
      · split at hr'
        · cases hr'; intro x hx; exact hfor _ (scaledN_pos n _ hn hle) ρ hρ x (filterIdx_mem _ _ _ hx)
        · split at hr'
          · rename_i out e
            cases hr'
            intro x hx
            rcases List.mem_append.mp (List.mem_of_mem_take hx) with hx | hx
            · exact hfor _ (scaledN_pos n _ hn hle) ρ hρ x (filterIdx_mem _ _ _ hx)
            · exact accumLoop_all (fun x => x.paired = true) _ _ _ (fun _ => hfor n hn ρ hρ) _ _ _ _ (by simp) e x hx
          · cases hr'

theorem dataSample_paired (v : Var) (id m : Nat) (ps rows : List Row) (hps : ∀ ρ ∈ ps, ρ.paired = true)
    (h : dataSample v id m ps = .ok rows) : ∀ x ∈ rows, x.paired = true := by
  intro x hx
  unfold dataSample at h
  simp only at h
  split at h
  · cases h
    obtain ⟨c, hc, rfl⟩ := List.mem_map.mp hx
    obtain ⟨j, _, rfl⟩ := List.mem_map.mp hc
    simp [joinPt, Row.paired, Pt.pairedTo]
  · unfold joinRows at h
    split at h
    · cases h
      obtain ⟨c, hc, rfl⟩ := List.mem_map.mp hx
      obtain ⟨j, _, rfl⟩ := List.mem_map.mp (mem_tile hc)
      simp [joinPt, Row.paired, Pt.pairedTo]
    · split at h
      · cases h
        obtain ⟨i, h1, h2, rfl⟩ := mem_zipWith_joinPt hx
        obtain ⟨j, _, hj⟩ := List.mem_map.mp (mem_tile (List.getElem_mem h1))
        rw [← hj]
        simp [joinPt, Row.paired, Pt.pairedTo, hps _ (mem_repeatParams (List.getElem_mem h2))]
      · cases h

def S.appendFree : S → Bool
  | .leaf _ _ _ _ => true
  | .data _ _ _ => true
  | .prod a b => a.appendFree && b.appendFree
  | .sum a b => a.appendFree && b.appendFree
  | .append _ _ => false
  | .static s => s.appendFree

/-- pairing for every sampler expression built from leaves (any kind, any domain node), data samplers, products
    (each partner row gets a sample of the first factor made FOR THAT ROW), sums and static samplers -/
theorem rows_paired_appendFree (o : Oracle) (s : S) : ∀ (ps rows : List Row), s.pos → s.appendFree = true →
    (∀ ρ ∈ ps, ρ.paired = true) → s.sample o ps = .ok rows → ∀ r ∈ rows, r.paired = true := by
  induction s with
  | leaf k d n f => intro ps rows hp _ hps h; exact leafSample_paired o k d n f ps rows hp hps h
  | data v id m => intro ps rows _ _ hps h; exact dataSample_paired v id m ps rows hps h
  | prod a b iha ihb =>
    intro ps rows hp hs hps h
    simp only [S.appendFree, Bool.and_eq_true] at hs
    rw [prod_rows] at h
    cases hb : b.sample o ps with
    | error e => simp [hb, Except.bind] at h
    | ok rb =>
      simp only [hb, Except.bind] at h
      exact iha rb rows hp.1 hs.1 (ihb ps rb hp.2 hs.2 hps hb) h
  | sum a b iha ihb =>
    intro ps rows hp hs hps h
    simp only [S.appendFree, Bool.and_eq_true] at hs
    cases ha : a.sample o ps with
    | error e => simp [S.sample, ha, bind, Except.bind] at h
    | ok ra =>
      cases hb : b.sample o ps with
      | error e => simp [S.sample, ha, hb, bind, Except.bind] at h
      | ok rb =>
        rw [sum_rows o a b ps ra rb ha hb] at h
        cases h
        intro r hr
        rcases List.mem_append.mp hr with hr | hr
        · exact iha ps ra hp.1 hs.1 hps ha r hr
        · exact ihb ps rb hp.2 hs.2 hps hb r hr
  | append a b _ _ => intro ps rows _ hs; simp [S.appendFree] at hs
  | static s ih => intro ps rows hp hs hps h; exact ih ps rows hp hs hps h

/-- call histories: whatever a static sampler hands out in any call of any history (any resample interval) consists of
    paired rows, if every sample of the wrapped sampler does -/
theorem static_history_paired (interval : Option Nat) (freshs : List (List Row))
    (hf : ∀ f ∈ freshs, ∀ r ∈ f, r.paired = true) :
    ∀ out ∈ staticRun interval (0, none) freshs, ∀ r ∈ out, r.paired = true :=
  static_history interval (fun rows => ∀ r ∈ rows, r.paired = true) freshs hf

/-- non-vacuity: a Translate of a dependent ProductDomain, sampled by a grid-with-filter sampler in a product with a
    data sampler, 2 parameter rows -/
example : (match (S.prod (.leaf .uniform (.move (.prod (.prim "x" 1 ["t", "D"]) (.prim "t" 2 [])) 7 ["D"]) 3 true)
                    (.data "u" 3 2)).sample o0 [.ext 0 ["D"], .ext 1 ["D"]] with
          | .ok rows => rows.length == 12 && rows.all Row.paired | .error _ => false) = true := by
  decide +kernel
end TPV.Sampler
