/-
  C11 — stratified / perimeter / grid sampling: property theorems about the executable sampling
  model (GeomSample.lean, GeomLaw.lean).

  A. Latin hypercube axis (`LHSSampler._create_lhs_in_bounding_box`): every one of the `n` slabs of an
     axis receives exactly one of the `n` points, for every permutation and all shifts in [0,1).
  B. Perimeter walks (`ParallelogramBoundary/TriangleBoundary._transform_interval_to_boundary`): on
     every edge the walk is affine in the perimeter position with parameter (s − start)/len.
  C. `Interval.sample_grid`: closed form of the nodes, even distribution over cells of the interval.

  All statements are over an arbitrary linearly ordered field (so they hold literally for ℚ, the
  executable instance, and for ℝ); the counting statement C.10 is stated over ℚ.
-/
import TPV.Model.GeomLaw
import TPV.Proofs.GeomLemmas
import Mathlib.Algebra.Order.Field.Rat
import Mathlib.Algebra.Order.Field.Basic
import Mathlib.Algebra.Order.Floor.Ring
import Mathlib.Data.Rat.Floor
import Mathlib.Order.Interval.Finset.Nat
import Mathlib.Data.Nat.Count
import Mathlib.Tactic.Ring
import Mathlib.Tactic.Linarith
import Mathlib.Tactic.FieldSimp
import Mathlib.Tactic.NormNum

namespace TPV.Geom
set_option linter.unusedSectionVars false

section basics
variable {K : Type} [Field K] [LinearOrder K] [IsStrictOrderedRing K]

/-- the model's scalar `natK n` is the canonical image of the natural number `n` -/
theorem natK_eq_cast (n : ℕ) : (natK n : K) = (n : K) := by
  induction n with
  | zero => simp [natK]
  | succ k ih => simp [natK, ih]

example : (natK 3 : ℚ) = 3 := by rw [natK_eq_cast]; norm_num

/-- the model's scalar `two` is the number 2 -/
theorem two_eq : (two : K) = 2 := by
  simp only [two]; norm_num

example : (two : ℚ) = 2 := two_eq

/-- `clamp(x, 0, 1) = 0` for `x ≤ 0` -/
theorem clamp01_of_nonpos {x : K} (h : x ≤ 0) : clamp01 x = 0 := by
  simp [clamp01, h]

/-- `clamp(x, 0, 1) = 1` for `1 ≤ x` -/
theorem clamp01_of_one_le {x : K} (h : 1 ≤ x) : clamp01 x = 1 := by
  have h0 : ¬ x ≤ 0 := not_le.mpr (lt_of_lt_of_le one_pos h)
  simp [clamp01, h, h0]

/-- `clamp(x, 0, 1) = x` for `0 ≤ x ≤ 1` -/
theorem clamp01_of_mem {x : K} (h0 : 0 ≤ x) (h1 : x ≤ 1) : clamp01 x = x := by
  unfold clamp01
  by_cases hx0 : x ≤ 0
  · have : x = 0 := le_antisymm hx0 h0
    simp [this]
  · by_cases hx1 : 1 ≤ x
    · have : x = 1 := le_antisymm h1 hx1
      simp [this]
    · simp [hx0, hx1]

example : clamp01 (1 / 2 : ℚ) = 1 / 2 := clamp01_of_mem (by norm_num) (by norm_num)

end basics

/-! ### A. Latin hypercube: one point per slab -/

section lhs
variable {K : Type} [Field K] [LinearOrder K] [IsStrictOrderedRing K]

/-- `x` lies in the `s`-th of the `n` equal slabs of `[lo, hi)`:
    `lo + (hi − lo)·s/n ≤ x < lo + (hi − lo)·(s+1)/n` -/
def inSlab (lo hi : K) (n s : ℕ) (x : K) : Prop :=
  lo + (hi - lo) * ((s : K) / n) ≤ x ∧ x < lo + (hi - lo) * (((s : K) + 1) / n)

/-- closed form of the LHS point: `lo + (hi − lo)·(i + u)/n` -/
theorem lhsAxisPoint_eq (lo hi u : K) (n i : ℕ) :
    lhsAxisPoint lo hi n i u = lo + (hi - lo) * ((i : K) / n) + (hi - lo) / n * u := by
  simp only [lhsAxisPoint, natK_eq_cast]

/-- A.1 the LHS point of stratum `i` with a shift `u ∈ [0,1)` lies in the `i`-th slab of the axis -/
theorem lhs_point_in_slab (lo hi u : K) (n i : ℕ) (h : lo < hi) (hn : 0 < n) (hu0 : 0 ≤ u)
    (hu1 : u < 1) :
    lo + (hi - lo) * ((i : K) / n) ≤ lhsAxisPoint lo hi n i u ∧
      lhsAxisPoint lo hi n i u < lo + (hi - lo) * (((i : K) + 1) / n) := by
  rw [lhsAxisPoint_eq]
  have hnK : (0 : K) < n := by exact_mod_cast hn
  have hd : 0 < (hi - lo) / n := div_pos (sub_pos.mpr h) hnK
  constructor
  · have : 0 ≤ (hi - lo) / n * u := mul_nonneg hd.le hu0
    linarith
  · have h1 : (hi - lo) / n * u < (hi - lo) / n * 1 := mul_lt_mul_of_pos_left hu1 hd
    have h2 : (hi - lo) * (((i : K) + 1) / n) = (hi - lo) * ((i : K) / n) + (hi - lo) / n := by
      field_simp
    rw [h2]; linarith

/-- A.1 in terms of `inSlab` -/
theorem lhs_point_inSlab (lo hi u : K) (n i : ℕ) (h : lo < hi) (hn : 0 < n) (hu0 : 0 ≤ u)
    (hu1 : u < 1) : inSlab lo hi n i (lhsAxisPoint lo hi n i u) :=
  lhs_point_in_slab lo hi u n i h hn hu0 hu1

example : inSlab (0 : ℚ) 3 3 1 (lhsAxisPoint (0 : ℚ) 3 3 1 (1 / 2)) :=
  lhs_point_inSlab 0 3 (1 / 2) 3 1 (by norm_num) (by norm_num) (by norm_num) (by norm_num)

example : lhsAxisPoint (0 : ℚ) 3 3 1 (1 / 2) = 3 / 2 := by
  rw [lhsAxisPoint_eq]; norm_num

/-- A.2 the slabs are pairwise disjoint: a point lies in at most one of them -/
theorem inSlab_unique (lo hi x : K) (n s s' : ℕ) (h : lo < hi) (hn : 0 < n)
    (hs : inSlab lo hi n s x) (hs' : inSlab lo hi n s' x) : s = s' := by
  have hnK : (0 : K) < n := by exact_mod_cast hn
  have hd : 0 < hi - lo := sub_pos.mpr h
  have key : ∀ a b : ℕ, inSlab lo hi n a x → inSlab lo hi n b x → a ≤ b := by
    intro a b ha hb
    have h1 : (hi - lo) * ((a : K) / n) < (hi - lo) * (((b : K) + 1) / n) := by
      have := lt_of_le_of_lt ha.1 hb.2
      linarith
    have h2 : (a : K) / n < ((b : K) + 1) / n := lt_of_mul_lt_mul_left h1 hd.le
    have h3 : (a : K) < (b : K) + 1 := (div_lt_div_iff_of_pos_right hnK).mp h2
    have h4 : a < b + 1 := by exact_mod_cast h3
    omega
  exact le_antisymm (key s s' hs hs') (key s' s hs' hs)

example (x : ℚ) (h0 : inSlab (0 : ℚ) 1 4 2 x) : ¬ inSlab (0 : ℚ) 1 4 3 x := fun h3 =>
  absurd (inSlab_unique 0 1 x 4 2 3 (by norm_num) (by norm_num) h0 h3) (by decide)

/-- `lhsAxis` succeeds as soon as every stratum index of the permutation has a shift; the result is
    the list of the LHS points `lhsAxisPoint lo hi n i us[i]`, `i` running through the permutation -/
theorem lhsAxis_eq_some (lo hi : K) (n : ℕ) (us : List K) (perm : List ℕ)
    (hp : ∀ i ∈ perm, i < us.length) :
    lhsAxis lo hi n us perm = some (perm.map fun i => lhsAxisPoint lo hi n i (us.getD i 0)) := by
  unfold lhsAxis
  induction perm with
  | nil => rfl
  | cons i t ih =>
    have hi : i < us.length := hp i (List.mem_cons_self ..)
    have ht : ∀ k ∈ t, k < us.length := fun k hk => hp k (List.mem_cons_of_mem _ hk)
    rw [List.mapM_cons, ih ht]
    simp [List.getElem?_eq_getElem hi, List.getD_eq_getElem?_getD]

/-- A.3 Latin hypercube property of one axis: for every permutation `perm` of `0 … n−1` (the result
    of `randperm(n)`) and all shifts in `[0,1)` the sampler returns `n` points, output row `j` lies in
    slab `perm[j]`, and every one of the `n` slabs contains exactly one of the `n` points. -/
theorem lhs_one_per_slab (lo hi : K) (n : ℕ) (us : List K) (perm : List ℕ) (h : lo < hi)
    (hn : 0 < n) (hus : us.length = n) (hu : ∀ u ∈ us, 0 ≤ u ∧ u < 1)
    (hperm : perm.Perm (List.range n)) :
    ∃ xs, lhsAxis lo hi n us perm = some xs ∧ xs.length = n ∧
      (∀ j (hj : j < perm.length) (hj' : j < xs.length), inSlab lo hi n perm[j] xs[j]) ∧
      ∀ s, s < n → ∃! j, j < n ∧ ∃ hj : j < xs.length, inSlab lo hi n s xs[j] := by
  have hplen : perm.length = n := by rw [hperm.length_eq, List.length_range]
  have hmem : ∀ i, i ∈ perm ↔ i < n := fun i => by rw [hperm.mem_iff, List.mem_range]
  have hnd : perm.Nodup := hperm.nodup_iff.mpr List.nodup_range
  have hp : ∀ i ∈ perm, i < us.length := fun i hi => by rw [hus]; exact (hmem i).mp hi
  have slab : ∀ k (hk : k < perm.length),
      inSlab lo hi n perm[k] ((perm.map fun i => lhsAxisPoint lo hi n i (us.getD i 0))[k]'(by
        simpa using hk)) := by
    intro k hk
    have hik : perm[k] < us.length := hp _ (List.getElem_mem hk)
    simp only [List.getElem_map]
    have hget : us.getD perm[k] 0 = us[perm[k]] := by
      simp [List.getD_eq_getElem?_getD, List.getElem?_eq_getElem hik]
    rw [hget]
    have := hu _ (List.getElem_mem hik)
    exact lhs_point_inSlab lo hi _ n _ h hn this.1 this.2
  refine ⟨_, lhsAxis_eq_some lo hi n us perm hp, by simp [hplen], ?_, ?_⟩
  · intro j hj hj'
    exact slab j hj
  · intro s hs
    obtain ⟨j, hj, hjs⟩ := List.mem_iff_getElem.mp ((hmem s).mpr hs)
    refine ⟨j, ⟨hplen ▸ hj, by simpa using hj, ?_⟩, ?_⟩
    · have := slab j hj
      rwa [hjs] at this
    · rintro k ⟨hkn, hk, hks⟩
      have hk' : k < perm.length := by simpa using hk
      have h1 := slab k hk'
      have : perm[k] = s := inSlab_unique lo hi _ n _ _ h hn h1 hks
      exact (hnd.getElem_inj_iff).mp (this.trans hjs.symm)

example : lhsAxis (0 : ℚ) 3 3 [1 / 2, 1 / 4, 0] [2, 0, 1] = some [2, 1 / 2, 5 / 4] := by
  rw [lhsAxis_eq_some _ _ _ _ _ (by decide)]
  simp [lhsAxisPoint_eq]
  norm_num

example : ∃ xs, lhsAxis (0 : ℚ) 3 3 [1 / 2, 1 / 4, 0] [2, 0, 1] = some xs ∧ xs.length = 3 ∧
    (∀ j (hj : j < [2, 0, 1].length) (hj' : j < xs.length), inSlab (0 : ℚ) 3 3 [2, 0, 1][j] xs[j]) ∧
    ∀ s, s < 3 → ∃! j, j < 3 ∧ ∃ hj : j < xs.length, inSlab (0 : ℚ) 3 3 s xs[j] :=
  lhs_one_per_slab 0 3 3 [1 / 2, 1 / 4, 0] [2, 0, 1] (by norm_num) (by norm_num) rfl
    (by simp; norm_num) (by decide)

end lhs

/-! ### B. perimeter walks -/

section walk
variable {K : Type} [Field K] [LinearOrder K] [IsStrictOrderedRing K]

/-- B.4 first side of the parallelogram perimeter: position `s ∈ [0, l₁]` is mapped to
    `o + (s/l₁)·dir₁` -/
theorem parBdryWalk_edge1 (ox oy ax ay bx cy l1 l2 s : K) (h1 : 0 < l1) (h2 : 0 < l2)
    (hs0 : 0 ≤ s) (hs1 : s ≤ l1) :
    parBdryWalk ox oy ax ay bx cy l1 l2 s =
      (ox + s / l1 * (ax - ox), oy + s / l1 * (ay - oy)) := by
  have c1 : clamp01 (s / l1) = s / l1 :=
    clamp01_of_mem (div_nonneg hs0 h1.le) ((div_le_one h1).mpr hs1)
  have c2 : clamp01 ((s - l1) / l2) = 0 :=
    clamp01_of_nonpos (div_nonpos_of_nonpos_of_nonneg (by linarith) h2.le)
  have c3 : clamp01 ((s - l1 - l2) / l1) = 0 :=
    clamp01_of_nonpos (div_nonpos_of_nonpos_of_nonneg (by linarith) h1.le)
  have c4 : clamp01 ((s - l1 - l2 - l1) / l2) = 0 :=
    clamp01_of_nonpos (div_nonpos_of_nonpos_of_nonneg (by linarith) h2.le)
  simp only [parBdryWalk, walkStep, c1, c2, c3, c4]
  refine Prod.ext ?_ ?_ <;> simp only [] <;> ring

example : parBdryWalk (0 : ℚ) 0 1 0 0 1 1 1 (1 / 2) = (1 / 2, 0) := by
  rw [parBdryWalk_edge1 _ _ _ _ _ _ _ _ _ (by norm_num) (by norm_num) (by norm_num) (by norm_num)]
  norm_num

/-- B.5 second side of the parallelogram perimeter: position `s ∈ [l₁, l₁+l₂]` is mapped to
    `c₁ + ((s − l₁)/l₂)·dir₂` -/
theorem parBdryWalk_edge2 (ox oy ax ay bx cy l1 l2 s : K) (h1 : 0 < l1) (h2 : 0 < l2)
    (hs0 : l1 ≤ s) (hs1 : s ≤ l1 + l2) :
    parBdryWalk ox oy ax ay bx cy l1 l2 s =
      (ax + (s - l1) / l2 * (bx - ox), ay + (s - l1) / l2 * (cy - oy)) := by
  have c1 : clamp01 (s / l1) = 1 := clamp01_of_one_le ((one_le_div h1).mpr hs0)
  have c2 : clamp01 ((s - l1) / l2) = (s - l1) / l2 :=
    clamp01_of_mem (div_nonneg (by linarith) h2.le) ((div_le_one h2).mpr (by linarith))
  have c3 : clamp01 ((s - l1 - l2) / l1) = 0 :=
    clamp01_of_nonpos (div_nonpos_of_nonpos_of_nonneg (by linarith) h1.le)
  have c4 : clamp01 ((s - l1 - l2 - l1) / l2) = 0 :=
    clamp01_of_nonpos (div_nonpos_of_nonpos_of_nonneg (by linarith) h2.le)
  simp only [parBdryWalk, walkStep, c1, c2, c3, c4]
  refine Prod.ext ?_ ?_ <;> simp only [] <;> ring

example : parBdryWalk (0 : ℚ) 0 1 0 0 1 1 1 (3 / 2) = (1, 1 / 2) := by
  rw [parBdryWalk_edge2 _ _ _ _ _ _ _ _ _ (by norm_num) (by norm_num) (by norm_num) (by norm_num)]
  norm_num

/-- B.6 third side of the parallelogram perimeter: position `s ∈ [l₁+l₂, 2l₁+l₂]` is mapped to
    `c₁ + dir₂ − ((s − l₁ − l₂)/l₁)·dir₁` -/
theorem parBdryWalk_edge3 (ox oy ax ay bx cy l1 l2 s : K) (h1 : 0 < l1) (h2 : 0 < l2)
    (hs0 : l1 + l2 ≤ s) (hs1 : s ≤ 2 * l1 + l2) :
    parBdryWalk ox oy ax ay bx cy l1 l2 s =
      (ax + (bx - ox) - (s - l1 - l2) / l1 * (ax - ox),
       ay + (cy - oy) - (s - l1 - l2) / l1 * (ay - oy)) := by
  have c1 : clamp01 (s / l1) = 1 := clamp01_of_one_le ((one_le_div h1).mpr (by linarith))
  have c2 : clamp01 ((s - l1) / l2) = 1 :=
    clamp01_of_one_le ((one_le_div h2).mpr (by linarith))
  have c3 : clamp01 ((s - l1 - l2) / l1) = (s - l1 - l2) / l1 :=
    clamp01_of_mem (div_nonneg (by linarith) h1.le) ((div_le_one h1).mpr (by linarith))
  have c4 : clamp01 ((s - l1 - l2 - l1) / l2) = 0 :=
    clamp01_of_nonpos (div_nonpos_of_nonpos_of_nonneg (by linarith) h2.le)
  simp only [parBdryWalk, walkStep, c1, c2, c3, c4]
  refine Prod.ext ?_ ?_ <;> simp only [] <;> ring

example : parBdryWalk (0 : ℚ) 0 1 0 0 1 1 1 (5 / 2) = (1 / 2, 1) := by
  rw [parBdryWalk_edge3 _ _ _ _ _ _ _ _ _ (by norm_num) (by norm_num) (by norm_num) (by norm_num)]
  norm_num

/-- B.7 fourth side of the parallelogram perimeter: position `s ∈ [2l₁+l₂, 2(l₁+l₂)]` is mapped to
    `c₂ − ((s − 2l₁ − l₂)/l₂)·dir₂` -/
theorem parBdryWalk_edge4 (ox oy ax ay bx cy l1 l2 s : K) (h1 : 0 < l1) (h2 : 0 < l2)
    (hs0 : 2 * l1 + l2 ≤ s) (hs1 : s ≤ 2 * (l1 + l2)) :
    parBdryWalk ox oy ax ay bx cy l1 l2 s =
      (bx - (s - 2 * l1 - l2) / l2 * (bx - ox), cy - (s - 2 * l1 - l2) / l2 * (cy - oy)) := by
  have c1 : clamp01 (s / l1) = 1 := clamp01_of_one_le ((one_le_div h1).mpr (by linarith))
  have c2 : clamp01 ((s - l1) / l2) = 1 :=
    clamp01_of_one_le ((one_le_div h2).mpr (by linarith))
  have c3 : clamp01 ((s - l1 - l2) / l1) = 1 :=
    clamp01_of_one_le ((one_le_div h1).mpr (by linarith))
  have e : s - l1 - l2 - l1 = s - 2 * l1 - l2 := by ring
  have c4 : clamp01 ((s - l1 - l2 - l1) / l2) = (s - 2 * l1 - l2) / l2 := by
    rw [e]
    exact clamp01_of_mem (div_nonneg (by linarith) h2.le) ((div_le_one h2).mpr (by linarith))
  simp only [parBdryWalk, walkStep, c1, c2, c3, c4]
  refine Prod.ext ?_ ?_ <;> simp only [] <;> ring

example : parBdryWalk (0 : ℚ) 0 1 0 0 1 1 1 (7 / 2) = (0, 1 / 2) := by
  rw [parBdryWalk_edge4 _ _ _ _ _ _ _ _ _ (by norm_num) (by norm_num) (by norm_num) (by norm_num)]
  norm_num

/-- the perimeter walk is closed: the end of the fourth side is the origin again -/
example (ox oy ax ay bx cy l1 l2 : K) (h1 : 0 < l1) (h2 : 0 < l2) :
    parBdryWalk ox oy ax ay bx cy l1 l2 (2 * (l1 + l2)) = (ox, oy) := by
  rw [parBdryWalk_edge4 _ _ _ _ _ _ _ _ _ h1 h2 (by linarith) le_rfl]
  have : (2 * (l1 + l2) - 2 * l1 - l2) / l2 = 1 := by
    rw [div_eq_one_iff_eq h2.ne']; ring
  rw [this]
  refine Prod.ext ?_ ?_ <;> simp only [] <;> ring

/-- B.8a first side of the triangle perimeter: `s ∈ [0, l₁]` is mapped to `o + (s/l₁)·(c₁ − o)` -/
theorem triBdryWalk_edge1 (ox oy ax ay bx cy l1 l2 l3 s : K) (h1 : 0 < l1) (h2 : 0 < l2)
    (h3 : 0 < l3) (hs0 : 0 ≤ s) (hs1 : s ≤ l1) :
    triBdryWalk ox oy ax ay bx cy l1 l2 l3 s =
      (ox + s / l1 * (ax - ox), oy + s / l1 * (ay - oy)) := by
  have c1 : clamp01 (s / l1) = s / l1 :=
    clamp01_of_mem (div_nonneg hs0 h1.le) ((div_le_one h1).mpr hs1)
  have c2 : clamp01 ((s - l1) / l2) = 0 :=
    clamp01_of_nonpos (div_nonpos_of_nonpos_of_nonneg (by linarith) h2.le)
  have c3 : clamp01 ((s - l1 - l2) / l3) = 0 :=
    clamp01_of_nonpos (div_nonpos_of_nonpos_of_nonneg (by linarith) h3.le)
  simp only [triBdryWalk, walkStep, c1, c2, c3]
  refine Prod.ext ?_ ?_ <;> simp only [] <;> ring

example : triBdryWalk (0 : ℚ) 0 3 0 3 4 3 4 5 1 = (1, 0) := by
  rw [triBdryWalk_edge1 _ _ _ _ _ _ _ _ _ _ (by norm_num) (by norm_num) (by norm_num) (by norm_num)
    (by norm_num)]
  norm_num

/-- B.8b second side of the triangle perimeter: `s ∈ [l₁, l₁+l₂]` is mapped to
    `c₁ + ((s − l₁)/l₂)·(c₂ − c₁)` -/
theorem triBdryWalk_edge2 (ox oy ax ay bx cy l1 l2 l3 s : K) (h1 : 0 < l1) (h2 : 0 < l2)
    (h3 : 0 < l3) (hs0 : l1 ≤ s) (hs1 : s ≤ l1 + l2) :
    triBdryWalk ox oy ax ay bx cy l1 l2 l3 s =
      (ax + (s - l1) / l2 * (bx - ax), ay + (s - l1) / l2 * (cy - ay)) := by
  have c1 : clamp01 (s / l1) = 1 := clamp01_of_one_le ((one_le_div h1).mpr hs0)
  have c2 : clamp01 ((s - l1) / l2) = (s - l1) / l2 :=
    clamp01_of_mem (div_nonneg (by linarith) h2.le) ((div_le_one h2).mpr (by linarith))
  have c3 : clamp01 ((s - l1 - l2) / l3) = 0 :=
    clamp01_of_nonpos (div_nonpos_of_nonpos_of_nonneg (by linarith) h3.le)
  simp only [triBdryWalk, walkStep, c1, c2, c3]
  refine Prod.ext ?_ ?_ <;> simp only [] <;> ring

example : triBdryWalk (0 : ℚ) 0 3 0 3 4 3 4 5 5 = (3, 2) := by
  rw [triBdryWalk_edge2 _ _ _ _ _ _ _ _ _ _ (by norm_num) (by norm_num) (by norm_num) (by norm_num)
    (by norm_num)]
  norm_num

/-- B.8c third side of the triangle perimeter: `s ∈ [l₁+l₂, l₁+l₂+l₃]` is mapped to
    `c₂ + ((s − l₁ − l₂)/l₃)·(o − c₂)` -/
theorem triBdryWalk_edge3 (ox oy ax ay bx cy l1 l2 l3 s : K) (h1 : 0 < l1) (h2 : 0 < l2)
    (h3 : 0 < l3) (hs0 : l1 + l2 ≤ s) (hs1 : s ≤ l1 + l2 + l3) :
    triBdryWalk ox oy ax ay bx cy l1 l2 l3 s =
      (bx + (s - l1 - l2) / l3 * (ox - bx), cy + (s - l1 - l2) / l3 * (oy - cy)) := by
  have c1 : clamp01 (s / l1) = 1 := clamp01_of_one_le ((one_le_div h1).mpr (by linarith))
  have c2 : clamp01 ((s - l1) / l2) = 1 :=
    clamp01_of_one_le ((one_le_div h2).mpr (by linarith))
  have c3 : clamp01 ((s - l1 - l2) / l3) = (s - l1 - l2) / l3 :=
    clamp01_of_mem (div_nonneg (by linarith) h3.le) ((div_le_one h3).mpr (by linarith))
  simp only [triBdryWalk, walkStep, c1, c2, c3]
  refine Prod.ext ?_ ?_ <;> simp only [] <;> ring

example : triBdryWalk (0 : ℚ) 0 3 0 3 4 3 4 5 (19 / 2) = (3 / 2, 2) := by
  rw [triBdryWalk_edge3 _ _ _ _ _ _ _ _ _ _ (by norm_num) (by norm_num) (by norm_num) (by norm_num)
    (by norm_num)]
  norm_num

end walk

/-! ### C. `Interval.sample_grid` -/

section grid
variable {K : Type} [Field K] [LinearOrder K] [IsStrictOrderedRing K]

/-- C.9 closed form of the inner `linspace` node: `linspace(0,1,n+2)[1:-1][j] = (j+1)/(n+1)` -/
theorem linInner_eq (n j : ℕ) : (linInner n j : K) = ((j : K) + 1) / ((n : K) + 1) := by
  simp only [linInner, natK_eq_cast]; push_cast; rfl

example : (linInner 3 1 : ℚ) = 1 / 2 := by rw [linInner_eq]; norm_num

/-- C.11 a grid node of `[l, u]` lies in the cell `[l + a(u−l), l + b(u−l))` iff the corresponding node
    of the unit interval lies in `[a, b)` (transfers C.10 to an arbitrary interval) -/
theorem intervalGrid_cell_iff (l u : K) (h : l < u) (n j : ℕ) (a b : K) :
    (l + a * (u - l) ≤ intervalGrid l u n j ∧ intervalGrid l u n j < l + b * (u - l)) ↔
      (a ≤ linInner n j ∧ linInner n j < b) := by
  have hd : 0 < u - l := sub_pos.mpr h
  simp only [intervalGrid]
  constructor
  · rintro ⟨h1, h2⟩
    constructor
    · have : a * (u - l) ≤ linInner n j * (u - l) := by linarith
      exact le_of_mul_le_mul_right this hd
    · have : linInner n j * (u - l) < b * (u - l) := by linarith
      exact lt_of_mul_lt_mul_right this hd.le
  · rintro ⟨h1, h2⟩
    constructor
    · have : a * (u - l) ≤ linInner n j * (u - l) := mul_le_mul_of_nonneg_right h1 hd.le
      linarith
    · have : linInner n j * (u - l) < b * (u - l) := mul_lt_mul_of_pos_right h2 hd
      linarith

example : (2 + (1 / 4 : ℚ) * (6 - 2) ≤ intervalGrid (2 : ℚ) 6 3 1 ∧
    intervalGrid (2 : ℚ) 6 3 1 < 2 + (3 / 4 : ℚ) * (6 - 2)) :=
  (intervalGrid_cell_iff 2 6 (by norm_num) 3 1 (1 / 4) (3 / 4)).mpr
    (by rw [linInner_eq]; norm_num)

/-- exact count behind C.10: the number of grid nodes `(j+1)/(n+1)`, `j < n`, in a cell `[a, b)` of
    the unit interval is `(⌈b(n+1)⌉ − 1) − (⌈a(n+1)⌉ − 1)` (truncated subtractions) -/
theorem interval_grid_count (n : ℕ) (a b : ℚ) (h1 : b ≤ 1) :
    ((List.range n).filter fun j =>
        decide (a ≤ linInner (K := ℚ) n j ∧ linInner (K := ℚ) n j < b)).length =
      (⌈b * ((n : ℚ) + 1)⌉₊ - 1) - (⌈a * ((n : ℚ) + 1)⌉₊ - 1) := by
  have hN : (0 : ℚ) < (n : ℚ) + 1 := by positivity
  have hB : ⌈b * ((n : ℚ) + 1)⌉₊ ≤ n + 1 := by
    rw [Nat.ceil_le]; push_cast; nlinarith
  rw [← List.toFinset_card_of_nodup (List.nodup_range.filter _), ← Nat.card_Ico]
  congr 1
  ext j
  simp only [List.mem_toFinset, List.mem_filter, List.mem_range, decide_eq_true_eq, Finset.mem_Ico,
    linInner_eq]
  have e1 : a ≤ ((j : ℚ) + 1) / ((n : ℚ) + 1) ↔ ⌈a * ((n : ℚ) + 1)⌉₊ ≤ j + 1 := by
    rw [le_div_iff₀ hN, Nat.ceil_le]; push_cast; rfl
  have e2 : ((j : ℚ) + 1) / ((n : ℚ) + 1) < b ↔ j + 1 < ⌈b * ((n : ℚ) + 1)⌉₊ := by
    rw [div_lt_iff₀ hN, Nat.lt_ceil]; push_cast; rfl
  rw [e1, e2]
  omega

/-- C.10 evenness of `Interval.sample_grid(n)`: every cell `[a, b)` of the unit interval receives its
    share `n·(b − a)` of the `n` grid nodes up to a discretisation error of less than 2 nodes -/
theorem interval_grid_even (n : ℕ) (a b : ℚ) (h0 : 0 ≤ a) (hab : a ≤ b) (h1 : b ≤ 1) :
    (n : ℚ) * (b - a) - 2 <
        (((List.range n).filter fun j =>
          decide (a ≤ linInner (K := ℚ) n j ∧ linInner (K := ℚ) n j < b)).length : ℚ) ∧
      (((List.range n).filter fun j =>
          decide (a ≤ linInner (K := ℚ) n j ∧ linInner (K := ℚ) n j < b)).length : ℚ) <
        n * (b - a) + 2 := by
  rw [interval_grid_count n a b h1]
  have hN : (0 : ℚ) < (n : ℚ) + 1 := by positivity
  have ha0 : 0 ≤ a * ((n : ℚ) + 1) := mul_nonneg h0 hN.le
  have hb0 : 0 ≤ b * ((n : ℚ) + 1) := mul_nonneg (h0.trans hab) hN.le
  have hA1 := Nat.le_ceil (a * ((n : ℚ) + 1))
  have hA2 := Nat.ceil_lt_add_one ha0
  have hB1 := Nat.le_ceil (b * ((n : ℚ) + 1))
  have hB2 := Nat.ceil_lt_add_one hb0
  have hAB : ⌈a * ((n : ℚ) + 1)⌉₊ ≤ ⌈b * ((n : ℚ) + 1)⌉₊ :=
    Nat.ceil_mono (mul_le_mul_of_nonneg_right hab hN.le)
  generalize ⌈a * ((n : ℚ) + 1)⌉₊ = A at *
  generalize ⌈b * ((n : ℚ) + 1)⌉₊ = B at *
  have hn0 : (0 : ℚ) ≤ n := Nat.cast_nonneg n
  have hnb : 0 ≤ (n : ℚ) * b := mul_nonneg hn0 (h0.trans hab)
  rcases Nat.eq_zero_or_pos A with hA | hA
  · subst hA
    rcases Nat.eq_zero_or_pos B with hB | hB
    · subst hB
      have e : ((0 - 1 - (0 - 1) : ℕ) : ℚ) = 0 := by norm_num
      rw [e]
      simp only [Nat.cast_zero] at *
      constructor <;> nlinarith
    · have e : ((B - 1 - (0 - 1) : ℕ) : ℚ) = (B : ℚ) - 1 := by
        have : B - 1 - (0 - 1) + 1 = B := by omega
        have := congrArg (Nat.cast (R := ℚ)) this
        push_cast at this; linarith
      rw [e]
      simp only [Nat.cast_zero] at *
      constructor <;> nlinarith
  · have e : ((B - 1 - (A - 1) : ℕ) : ℚ) = (B : ℚ) - A := by
      have : B - 1 - (A - 1) + A = B := by omega
      have := congrArg (Nat.cast (R := ℚ)) this
      push_cast at this; linarith
    rw [e]
    constructor <;> nlinarith

example : ((List.range 9).filter fun j =>
    decide ((1 / 5 : ℚ) ≤ linInner (K := ℚ) 9 j ∧ linInner (K := ℚ) 9 j < 1 / 2)).length = 3 := by
  rw [interval_grid_count 9 (1 / 5) (1 / 2) (by norm_num)]
  norm_num

example : (9 : ℚ) * (1 / 2 - 1 / 5) - 2 < 3 ∧ (3 : ℚ) < 9 * (1 / 2 - 1 / 5) + 2 := by norm_num

example :
    ((9 : ℕ) : ℚ) * (1 / 2 - 1 / 5) - 2 <
        (((List.range 9).filter fun j =>
          decide ((1 / 5 : ℚ) ≤ linInner (K := ℚ) 9 j ∧ linInner (K := ℚ) 9 j < 1 / 2)).length : ℚ) :=
  (interval_grid_even 9 (1 / 5) (1 / 2) (by norm_num) (by norm_num) (by norm_num)).1

/-- C.10 + C.11 for the list `Interval.sample_grid(n)` of an interval `[l, u]`: the cell
    `[l + a(u−l), l + b(u−l))`, `0 ≤ a ≤ b ≤ 1`, contains `n·(b − a)` of the `n` nodes up to an error of
    less than 2 nodes -/
theorem intervalGridList_even (l u : ℚ) (h : l < u) (n : ℕ) (a b : ℚ) (h0 : 0 ≤ a) (hab : a ≤ b)
    (h1 : b ≤ 1) :
    (n : ℚ) * (b - a) - 2 <
        (((intervalGridList l u n).filter fun x =>
          decide (l + a * (u - l) ≤ x ∧ x < l + b * (u - l))).length : ℚ) ∧
      (((intervalGridList l u n).filter fun x =>
          decide (l + a * (u - l) ≤ x ∧ x < l + b * (u - l))).length : ℚ) < n * (b - a) + 2 := by
  have e : ((intervalGridList l u n).filter fun x =>
        decide (l + a * (u - l) ≤ x ∧ x < l + b * (u - l))).length =
      ((List.range n).filter fun j =>
        decide (a ≤ linInner (K := ℚ) n j ∧ linInner (K := ℚ) n j < b)).length := by
    simp only [intervalGridList, List.filter_map, List.length_map]
    congr 1
    apply List.filter_congr
    intro j _
    simp only [Function.comp]
    exact decide_eq_decide.mpr (intervalGrid_cell_iff l u h n j a b)
  rw [e]
  exact interval_grid_even n a b h0 hab h1

example : (intervalGridList (2 : ℚ) 6 3) = [3, 4, 5] := by
  simp [intervalGridList, intervalGrid, linInner_eq, List.range_succ]
  norm_num

example :
    ((3 : ℕ) : ℚ) * (3 / 4 - 1 / 4) - 2 <
        (((intervalGridList (2 : ℚ) 6 3).filter fun x =>
          decide (2 + (1 / 4 : ℚ) * (6 - 2) ≤ x ∧ x < 2 + (3 / 4 : ℚ) * (6 - 2))).length : ℚ) :=
  (intervalGridList_even 2 6 (by norm_num) 3 (1 / 4) (3 / 4) (by norm_num) (by norm_num)
    (by norm_num)).1

end grid

end TPV.Geom
