import TPV.Props.C02
set_option linter.unusedVariables false
set_option linter.unnecessarySimpa false
namespace TPV.Sampler

/-! ## rows of the form `joinPt cells ρ` -/

theorem joinPt_nil (ρ : Row) : joinPt [] ρ = ρ := rfl

theorem joinPt_cons (p : Pt) (c : Point) (ρ : Row) : joinPt (p :: c) ρ = Row.cons p (joinPt c ρ) := rfl

theorem joinPt_app (c₁ c₂ : Point) (ρ : Row) : joinPt (c₁ ++ c₂) ρ = joinPt c₁ (joinPt c₂ ρ) := by
  simp [joinPt, List.foldr_append]

theorem joinPt_cells (c : Point) (ρ : Row) : (joinPt c ρ).cells = c ++ ρ.cells := by
  induction c with
  | nil => rfl
  | cons p c ih => simp [joinPt_cons, Row.cells, ih]

theorem vars_joinPt (c : Point) (ρ : Row) : (joinPt c ρ).vars = c.flatMap Pt.cols ++ ρ.vars := by
  induction c with
  | nil => simp [joinPt_nil]
  | cons p c ih => simp [joinPt_cons, Row.vars, ih]

/-- `g ⊑ ctx` spelled out -/
theorem sub_iff_mem (g ctx : Row) :
    g.sub ctx = true ↔ (∀ c ∈ g.cells, c ∈ ctx.cells) ∧ (g.base = .nil ∨ g.base = ctx.base) := by
  simp [Row.sub, List.all_eq_true]

/-- `g ⊑ ·` is monotone: the context may gain cells as long as it keeps its external row -/
theorem sub_mono (g ctx ctx' : Row) (hc : ∀ c ∈ ctx.cells, c ∈ ctx'.cells) (hb : ctx.base = ctx'.base)
    (h : g.sub ctx = true) : g.sub ctx' = true := by
  rw [sub_iff_mem] at h ⊢
  exact ⟨fun c hm => hc c (h.1 c hm), by rw [← hb]; exact h.2⟩

theorem pairedTo_mono (p : Pt) (ctx ctx' : Row) (hc : ∀ c ∈ ctx.cells, c ∈ ctx'.cells) (hb : ctx.base = ctx'.base)
    (h : p.pairedTo ctx = true) : p.pairedTo ctx' = true := by
  cases p with
  | prim v l j g => simp only [Pt.pairedTo] at h ⊢; exact sub_mono g ctx ctx' hc hb h
  | datum v i j => simp [Pt.pairedTo]
  | marker i vs g => simp only [Pt.pairedTo] at h ⊢; exact sub_mono g ctx ctx' hc hb h

theorem paired_cons (p : Pt) (r : Row) : (Row.cons p r).paired = true ↔ p.pairedTo r = true ∧ r.paired = true := by
  simp [Row.paired]

/-- the parameter row of a paired row is paired -/
theorem paired_of_joinPt (c : Point) (ρ : Row) (h : (joinPt c ρ).paired = true) : ρ.paired = true := by
  induction c with
  | nil => exact h
  | cons p c ih => rw [joinPt_cons, paired_cons] at h; exact ih h.2

/-- more cells in front of the SAME parameter row: the cells of `c₂` slide in between -/
theorem paired_insert (c₁ c₂ : Point) (ρ : Row) (h₁ : (joinPt c₁ ρ).paired = true)
    (h₂ : (joinPt c₂ ρ).paired = true) : (joinPt (c₁ ++ c₂) ρ).paired = true := by
  induction c₁ with
  | nil => simpa using h₂
  | cons p c ih =>
    rw [joinPt_cons, paired_cons] at h₁
    rw [List.cons_append, joinPt_cons, paired_cons]
    refine ⟨pairedTo_mono p _ _ ?_ ?_ h₁.1, ih h₁.2⟩
    · intro x hx
      rw [joinPt_cells] at hx ⊢
      rcases List.mem_append.mp hx with hx | hx
      · exact List.mem_append.mpr (Or.inl (List.mem_append.mpr (Or.inl hx)))
      · exact List.mem_append.mpr (Or.inr hx)
    · rw [base_joinPt, base_joinPt]

/-! ## own cells / rest of `joinPt cells ρ` -/

theorem own_of_pure (pv : List Var) : ∀ r : Row, r.pure pv = true → r.own pv = []
  | .nil, _ => rfl
  | .ext _ _, _ => rfl
  | .cons p r, h => by
    simp only [Row.pure, Bool.and_eq_true, Bool.not_eq_true'] at h
    simp only [Row.own, h.1, Bool.false_eq_true, if_false]
    exact own_of_pure pv r h.2

theorem rest_of_pure (pv : List Var) : ∀ r : Row, r.pure pv = true → r.rest pv = r
  | .nil, _ => rfl
  | .ext _ _, _ => rfl
  | .cons p r, h => by
    simp only [Row.pure, Bool.and_eq_true, Bool.not_eq_true'] at h
    simp only [Row.rest, h.1, Bool.false_eq_true, if_false]
    rw [rest_of_pure pv r h.2]

theorem own_joinPt (pv : List Var) (c : Point) (ρ : Row) (hc : ∀ p ∈ c, p.isOwn pv = true)
    (hρ : ρ.pure pv = true) : (joinPt c ρ).own pv = c := by
  induction c with
  | nil => exact own_of_pure pv ρ hρ
  | cons p c ih =>
    rw [joinPt_cons]
    simp only [Row.own, hc p (by simp), if_true]
    rw [ih (fun q hq => hc q (by simp [hq]))]

theorem rest_joinPt (pv : List Var) (c : Point) (ρ : Row) (hc : ∀ p ∈ c, p.isOwn pv = true)
    (hρ : ρ.pure pv = true) : (joinPt c ρ).rest pv = ρ := by
  induction c with
  | nil => exact rest_of_pure pv ρ hρ
  | cons p c ih =>
    rw [joinPt_cons]
    simp only [Row.rest, hc p (by simp), if_true]
    exact ih (fun q hq => hc q (by simp [hq]))

theorem sorted_of_pure (pv : List Var) : ∀ r : Row, r.pure pv = true → r.sorted pv = true
  | .nil, _ => rfl
  | .ext _ _, _ => rfl
  | .cons p r, h => by
    have h' := h
    simp only [Row.pure, Bool.and_eq_true, Bool.not_eq_true'] at h'
    simp only [Row.sorted, h'.1, Bool.false_eq_true, if_false]
    exact h

theorem sorted_joinPt (pv : List Var) (c : Point) (ρ : Row) (hc : ∀ p ∈ c, p.isOwn pv = true)
    (hρ : ρ.pure pv = true) : (joinPt c ρ).sorted pv = true := by
  induction c with
  | nil => exact sorted_of_pure pv ρ hρ
  | cons p c ih =>
    rw [joinPt_cons]
    simp only [Row.sorted, hc p (by simp), if_true]
    exact ih (fun q hq => hc q (by simp [hq]))

/-- **Lemma A** (one row of `AppendSampler`): two paired rows over the SAME parameter row `ρ`, own cells in front -/
theorem append_row_paired (pv : List Var) (ca cb : Point) (ρ : Row)
    (hca : ∀ p ∈ ca, p.isOwn pv = true) (hcb : ∀ p ∈ cb, p.isOwn pv = true) (hρ : ρ.pure pv = true)
    (ha : (joinPt ca ρ).paired = true) (hb : (joinPt cb ρ).paired = true) :
    (joinPt ca ρ).own pv = ca ∧ (joinPt ca ρ).rest pv = ρ ∧ (joinPt cb ρ).own pv = cb ∧
      joinPt ((joinPt ca ρ).own pv ++ (joinPt cb ρ).own pv) ((joinPt ca ρ).rest pv) = joinPt (ca ++ cb) ρ ∧
      (joinPt (ca ++ cb) ρ).paired = true := by
  refine ⟨own_joinPt pv ca ρ hca hρ, rest_joinPt pv ca ρ hca hρ, own_joinPt pv cb ρ hcb hρ, ?_, paired_insert ca cb ρ ha hb⟩
  rw [own_joinPt pv ca ρ hca hρ, rest_joinPt pv ca ρ hca hρ, own_joinPt pv cb ρ hcb hρ]

/-! ## the cells a domain produces -/

/-- Boolean nodes combine domains of the same space -/
def Dom.wf : Dom → Bool
  | .prim _ _ _ => true
  | .bool a b => a.wf && b.wf && (a.vars == b.vars)
  | .prod a b => a.wf && b.wf
  | .move d _ _ => d.wf

theorem Dom.vars_ne_nil : ∀ d : Dom, d.vars ≠ []
  | .prim _ _ _ => by simp [Dom.vars]
  | .bool a _ => by simpa [Dom.vars] using Dom.vars_ne_nil a
  | .prod a b => by simp [Dom.vars, Dom.vars_ne_nil a]
  | .move d _ _ => by simpa [Dom.vars] using Dom.vars_ne_nil d

/-- the cells of a point over the variables `W`: their columns are exactly `W`, every cell (markers included)
    is tagged with a non-empty set of variables of `W` -/
def okFor (W : List Var) (c : Point) : Prop :=
  c.flatMap Pt.cols = W ∧ ∀ p ∈ c, p.tagVars ≠ [] ∧ ∀ v ∈ p.tagVars, v ∈ W

theorem okFor_append {W₁ W₂ : List Var} {c₁ c₂ : Point} (h₁ : okFor W₁ c₁) (h₂ : okFor W₂ c₂) :
    okFor (W₁ ++ W₂) (c₁ ++ c₂) := by
  refine ⟨by rw [List.flatMap_append, h₁.1, h₂.1], ?_⟩
  intro p hp
  rcases List.mem_append.mp hp with hp | hp
  · exact ⟨(h₁.2 p hp).1, fun v hv => List.mem_append.mpr (Or.inl ((h₁.2 p hp).2 v hv))⟩
  · exact ⟨(h₂.2 p hp).1, fun v hv => List.mem_append.mpr (Or.inr ((h₂.2 p hp).2 v hv))⟩

theorem chooseRows_mem (o : Nat → Bool) (a b : List Point) (x : Point) (h : x ∈ chooseRows o a b) : x ∈ a ∨ x ∈ b := by
  unfold chooseRows at h
  simp only [List.mem_map] at h
  obtain ⟨⟨⟨pa, pb⟩, i⟩, hm, rfl⟩ := h
  have := List.mem_zipIdx hm
  simp only [Nat.zero_le, Nat.zero_add, Nat.sub_zero, true_and] at this
  obtain ⟨hlt, he⟩ := this
  have hz : (pa, pb) ∈ List.zipWith (fun (pa : Point) (pb : Point) => (pa, pb)) a b := by
    rw [he]; exact List.getElem_mem _
  rw [← List.zip_eq_zipWith] at hz
  have h1 := List.of_mem_zip hz
  simp only
  split
  · exact Or.inl h1.1
  · exact Or.inr h1.2

theorem mem_zipWith {α β γ} (f : α → β → γ) : ∀ (la : List α) (lb : List β) (x : γ), x ∈ List.zipWith f la lb →
    ∃ a ∈ la, ∃ b ∈ lb, x = f a b := by
  intro la
  induction la with
  | nil => intro lb x h; simp at h
  | cons a la ih =>
    intro lb x h
    cases lb with
    | nil => simp at h
    | cons b lb =>
      simp only [List.zipWith_cons_cons, List.mem_cons] at h
      rcases h with h | h
      · exact ⟨a, by simp, b, by simp, h⟩
      · obtain ⟨a', ha', b', hb', e⟩ := ih lb x h
        exact ⟨a', by simp [ha'], b', by simp [hb'], e⟩

/-- every point a (well-formed) domain returns occupies exactly the columns of the domain and all its cells
    are tagged with variables of the domain -/
theorem Dom.sample_cells (o : Nat → Bool) (d : Dom) : d.wf = true → ∀ (n : Nat) (ps : List Row),
    ∀ c ∈ d.sample o n ps, okFor d.vars c := by
  induction d with
  | prim v id deps =>
    intro _ n ps c hc
    simp only [Dom.sample, List.mem_flatMap, List.mem_map, List.mem_range] at hc
    obtain ⟨ρ, _, j, _, rfl⟩ := hc
    simp [okFor, Pt.cols, Pt.tagVars, Dom.vars]
  | bool a b iha ihb =>
    intro hw n ps c hc
    simp only [Dom.wf, Bool.and_eq_true, beq_iff_eq] at hw
    simp only [Dom.sample] at hc
    rcases chooseRows_mem _ _ _ _ hc with h | h
    · exact iha hw.1.1 n ps c h
    · simp only [Dom.vars]; rw [hw.2]; exact ihb hw.1.2 n ps c h
  | prod a b iha ihb =>
    intro hw n ps c hc
    simp only [Dom.wf, Bool.and_eq_true] at hw
    simp only [Dom.sample] at hc
    obtain ⟨pa, hpa, pb, hpb, rfl⟩ := mem_zipWith _ _ _ _ hc
    refine okFor_append (iha hw.1 _ _ pa hpa) ?_
    split at hpb
    · exact ihb hw.2 _ _ pb hpb
    · exact ihb hw.2 _ _ pb hpb
  | move d id deps ih =>
    intro hw n ps c hc
    simp only [Dom.wf] at hw
    simp only [Dom.sample] at hc
    obtain ⟨p, hp, ρ, _, rfl⟩ := mem_zipWith _ _ _ _ hc
    have := ih hw n ps p hp
    refine ⟨by simpa [Pt.cols, Dom.vars] using this.1, ?_⟩
    intro q hq
    rcases List.mem_cons.mp hq with rfl | hq
    · simpa [Pt.tagVars, Dom.vars] using Dom.vars_ne_nil d
    · simpa [Dom.vars] using this.2 q hq

/-! ## aligned lists of rows -/

/-- `x` is a point over the variables `W` joined in front of the parameter row `ρ` -/
def madeFor (W : List Var) (ρ x : Row) : Prop := ∃ c : Point, x = joinPt c ρ ∧ okFor W c

/-- position-wise relation between the parameter rows and the returned rows -/
inductive Al (R : Row → Row → Prop) : List Row → List Row → Prop where
  | nil : Al R [] []
  | cons {ρ x l r} : R ρ x → Al R l r → Al R (ρ :: l) (x :: r)

theorem Al.length {R} {l r : List Row} (h : Al R l r) : l.length = r.length := by
  induction h with
  | nil => rfl
  | cons _ _ ih => simp [ih]

theorem Al.append {R} {l₁ r₁ l₂ r₂ : List Row} (h₁ : Al R l₁ r₁) (h₂ : Al R l₂ r₂) : Al R (l₁ ++ l₂) (r₁ ++ r₂) := by
  induction h₁ with
  | nil => simpa using h₂
  | cons hx _ ih => exact Al.cons hx ih

theorem Al.mem {R} {l r : List Row} (h : Al R l r) : ∀ x ∈ r, ∃ ρ ∈ l, R ρ x := by
  induction h with
  | nil => intro x hx; simp at hx
  | cons hx _ ih =>
    intro y hy
    rcases List.mem_cons.mp hy with rfl | hy
    · exact ⟨_, by simp, hx⟩
    · obtain ⟨ρ, hρ, h⟩ := ih y hy
      exact ⟨ρ, by simp [hρ], h⟩

theorem Al.mono {R R' : Row → Row → Prop} {l r : List Row} (h : Al R l r) (hi : ∀ ρ ∈ l, ∀ x, R ρ x → R' ρ x) :
    Al R' l r := by
  induction h with
  | nil => exact Al.nil
  | cons hx _ ih => exact Al.cons (hi _ (by simp) _ hx) (ih (fun ρ hρ => hi ρ (by simp [hρ])))

theorem Al.replicate {R} (ρ : Row) : ∀ (r : List Row) (n : Nat), r.length = n → (∀ x ∈ r, R ρ x) →
    Al R (List.replicate n ρ) r := by
  intro r
  induction r with
  | nil => intro n hl _; subst hl; exact Al.nil
  | cons x r ih =>
    intro n hl hr
    subst hl
    rw [List.length_cons, List.replicate_succ]
    exact Al.cons (hr x (by simp)) (ih _ rfl (fun y hy => hr y (by simp [hy])))

theorem Al.zipWith {W} : ∀ (pts : List Point) (reps : List Row), pts.length = reps.length → (∀ c ∈ pts, okFor W c) →
    Al (madeFor W) reps (List.zipWith joinPt pts reps) := by
  intro pts
  induction pts with
  | nil => intro reps h _; cases reps <;> simp_all; exact Al.nil
  | cons p pts ih =>
    intro reps h hc
    cases reps with
    | nil => simp at h
    | cons ρ reps =>
      rw [List.zipWith_cons_cons]
      exact Al.cons ⟨p, rfl, hc p (by simp)⟩ (ih reps (by simpa using h) (fun c hm => hc c (by simp [hm])))

/-- composition (a product): rows made for rows that were made for parameter rows -/
theorem Al.comp {W₁ W₂} {l m : List Row} (h₁ : Al (madeFor W₂) l m) : ∀ {r}, Al (madeFor W₁) m r →
    Al (madeFor (W₁ ++ W₂)) l r := by
  induction h₁ with
  | nil => intro r h; cases h; exact Al.nil
  | cons hx _ ih =>
    intro r h
    cases h with
    | cons hy ht =>
      obtain ⟨c₂, rfl, ok₂⟩ := hx
      obtain ⟨c₁, rfl, ok₁⟩ := hy
      exact Al.cons ⟨c₁ ++ c₂, (joinPt_app _ _ _).symm, okFor_append ok₁ ok₂⟩ (ih ht)

theorem Al.repeat {R} {l r : List Row} (h : Al R l r) (n : Nat) :
    Al R (repeatParams l n) (repeatParams r n) := by
  induction h with
  | nil => simpa [repeatParams] using Al.nil
  | cons hx _ ih =>
    simp only [repeatParams, List.flatMap_cons] at ih ⊢
    exact Al.append (Al.replicate _ _ _ (by simp) (by intro y hy; rw [(List.mem_replicate.mp hy).2]; exact hx)) ih

theorem repeatParams_mem (ps : List Row) (n : Nat) (ρ : Row) (h : ρ ∈ repeatParams ps n) : ρ ∈ ps := by
  simp only [repeatParams, List.mem_flatMap, List.mem_replicate] at h
  obtain ⟨a, ha, _, rfl⟩ := h
  exact ha

/-- two samples aligned with the SAME list of parameter rows, zipped -/
theorem Al.zip {R₁ R₂ : Row → Row → Prop} (f : Row → Row → Row) {l ra : List Row} (h₁ : Al R₁ l ra) :
    ∀ {rb}, Al R₂ l rb → ∀ x ∈ List.zipWith f ra rb, ∃ ρ ∈ l, ∃ a ∈ ra, ∃ b ∈ rb, R₁ ρ a ∧ R₂ ρ b ∧ x = f a b := by
  induction h₁ with
  | nil => intro rb h x hx; simp at hx
  | cons ha _ ih =>
    intro rb h x hx
    cases h with
    | cons hb ht =>
      simp only [List.zipWith_cons_cons, List.mem_cons] at hx
      rcases hx with rfl | hx
      · exact ⟨_, by simp, _, by simp, _, by simp, ha, hb, rfl⟩
      · obtain ⟨ρ, hρ, a, ham, b, hbm, h1, h2, e⟩ := ih ht x hx
        exact ⟨ρ, by simp [hρ], a, by simp [ham], b, by simp [hbm], h1, h2, e⟩


/-! ## leaf samplers and data: the i-th block of `n` rows is made for the i-th parameter row -/

theorem joinRows_al {W} (pts : List Point) (ps : List Row) (m : Nat) (rows : List Row) (hm : 0 < m)
    (hl : pts.length = (rowsOr1 ps).length * m) (hc : ∀ c ∈ pts, okFor W c)
    (h : joinRows pts (repeatParams ps m) = .ok rows) : Al (madeFor W) (repeatParams (rowsOr1 ps) m) rows := by
  cases ps with
  | nil =>
    simp only [repeatParams, List.flatMap_nil, joinRows, List.isEmpty_nil, if_true] at h
    cases h
    simp only [rowsOr1, List.isEmpty_nil, if_true, repeatParams, List.flatMap_cons, List.flatMap_nil, List.append_nil]
    refine Al.replicate _ _ _ (by simpa [rowsOr1] using hl) ?_
    intro x hx
    obtain ⟨c, hcm, rfl⟩ := List.mem_map.mp hx
    exact ⟨c, rfl, hc c hcm⟩
  | cons p ps =>
    have hne : (repeatParams (p :: ps) m).isEmpty = false := by
      have hl2 := repeatParams_length (p :: ps) m
      cases hr : repeatParams (p :: ps) m with
      | nil =>
        rw [hr] at hl2
        have : 0 < (p :: ps).length * m := Nat.mul_pos (by simp) hm
        simp only [List.length_nil] at hl2; omega
      | cons _ _ => rfl
    simp only [joinRows, hne, Bool.false_eq_true, if_false] at h
    split at h
    · rename_i hl'; cases h
      rw [rowsOr1_ne _ (by simp)]
      exact Al.zipWith _ _ hl' hc
    · cases h

theorem perRow_al {R} (f : Row → Except Err (List Row)) (n : Nat) :
    ∀ (l rows : List Row), (∀ ρ ∈ l, ∀ r, f ρ = .ok r → r.length = n ∧ ∀ x ∈ r, R ρ x) →
      perRow f l = .ok rows → Al R (repeatParams l n) rows := by
  intro l
  induction l with
  | nil => intro rows _ h; simp [perRow] at h; cases h; simpa [repeatParams] using Al.nil
  | cons ρ rs ih =>
    intro rows hf h
    simp only [perRow] at h
    cases h1 : f ρ with
    | error e => simp [h1, bind, Except.bind] at h
    | ok r =>
      cases h2 : perRow f rs with
      | error e => simp [h1, h2, bind, Except.bind] at h
      | ok rest =>
        simp only [h1, h2, bind, Except.bind, pure, Except.pure] at h
        cases h
        have := hf ρ (by simp) r h1
        simp only [repeatParams, List.flatMap_cons]
        exact Al.append (Al.replicate _ _ _ this.1 this.2) (ih rest (fun a ha => hf a (by simp [ha])) h2)

theorem flatMap_al {R} (f : Row → List Row) (n : Nat) :
    ∀ (l : List Row), (∀ ρ ∈ l, (f ρ).length = n ∧ ∀ x ∈ f ρ, R ρ x) → Al R (repeatParams l n) (l.flatMap f) := by
  intro l
  induction l with
  | nil => intro _; simpa [repeatParams] using Al.nil
  | cons ρ rs ih =>
    intro hf
    have := hf ρ (by simp)
    simp only [repeatParams, List.flatMap_cons]
    exact Al.append (Al.replicate _ _ _ this.1 this.2) (ih (fun a ha => hf a (by simp [ha])))

theorem forRow_made (o : Oracle) (d : Dom) (hw : d.wf = true) (n : Nat) (ρ : Row) :
    ∀ x ∈ forRow o d n ρ, madeFor d.vars ρ x := by
  intro x hx
  simp only [forRow, List.mem_map] at hx
  obtain ⟨c, hc, rfl⟩ := hx
  exact ⟨c, rfl, Dom.sample_cells _ d hw _ _ c hc⟩

theorem filterLoopRow_all (P : Row → Prop) (o : Oracle) (d : Dom) (n : Nat) (ρ : Row) (r : List Row)
    (hP : ∀ m, ∀ x ∈ forRow o d m ρ, P x) (h : filterLoopRow o d n ρ = .ok r) : ∀ x ∈ r, P x := by
  unfold filterLoopRow at h
  split at h
  · rename_i out e; cases h
    exact accumLoop_all P _ _ _ (fun _ => hP n) _ _ _ _ (by simp) e
  · cases h

theorem lhsRow_all (P : Row → Prop) (o : Oracle) (d : Dom) (n : Nat) (ρ : Row)
    (hP : ∀ m, ∀ x ∈ forRow o d m ρ, P x) : ∀ x ∈ lhsRow o d n ρ, P x := by
  intro x hx
  unfold lhsRow at hx
  simp only at hx
  split at hx
  · exact hP n x (filterIdx_mem _ _ _ hx)
  · rcases List.mem_append.mp hx with hx | hx
    · exact hP n x (filterIdx_mem _ _ _ hx)
    · exact hP _ x hx

theorem gridFilterRow_all (P : Row → Prop) (o : Oracle) (d : Dom) (n : Nat) (ρ : Row) (r : List Row)
    (hP : ∀ m, ∀ x ∈ forRow o d m ρ, P x) (h : gridFilterRow o d n ρ = .ok r) : ∀ x ∈ r, P x := by
  unfold gridFilterRow at h
  simp only at h
  split at h
  · cases h; intro x hx; exact hP n x (filterIdx_mem _ _ _ hx)
  · split at h
    · cases h; intro x hx; exact hP _ x (filterIdx_mem _ _ _ hx)
    · split at h
      · rename_i out e
        cases h
        intro x hx
        rcases List.mem_append.mp (List.mem_of_mem_take hx) with hx | hx
        · exact hP _ x (filterIdx_mem _ _ _ hx)
        · exact accumLoop_all P _ _ _ (fun _ => hP n) _ _ _ _ (by simp) e x hx
      · cases h

theorem tile_mem {α} (k : Nat) (l : List α) (x : α) (h : x ∈ tile k l) : x ∈ l := by
  simp only [tile, List.mem_flatten, List.mem_replicate] at h
  obtain ⟨l', ⟨_, rfl⟩, hx⟩ := h
  exact hx

/-- every leaf kind, with or without filter, on every well-formed domain: the rows `i*n .. i*n+n-1` are points of
    the domain's space joined in front of parameter row `i` (of `nil` without parameters) -/
theorem leafSample_al (o : Oracle) (kind : LeafKind) (d : Dom) (n : Nat) (filt : Bool) (ps rows : List Row)
    (hw : d.wf = true) (hn : 0 < n) (h : leafSample o kind d n filt ps = .ok rows) :
    Al (madeFor d.vars) (repeatParams (rowsOr1 ps) n) rows := by
  have hfor : ∀ ρ m, ∀ x ∈ forRow o d m ρ, madeFor d.vars ρ x := fun ρ m => forRow_made o d hw m ρ
  unfold leafSample at h
  split at h
  · refine joinRows_al _ ps n rows hn ?_ (Dom.sample_cells _ d hw _ _) h
    rw [Dom.sample_length _ _ _ _ hn, rowsOr1_length, Nat.mul_comm]
  · exact perRow_al _ n _ _ (fun ρ _ r hr => ⟨filterLoopRow_length o d n ρ r hr, filterLoopRow_all _ o d n ρ r (hfor ρ) hr⟩) h
  · exact perRow_al _ n _ _ (fun ρ _ r hr => ⟨filterLoopRow_length o d n ρ r hr, filterLoopRow_all _ o d n ρ r (hfor ρ) hr⟩) h
  · cases h
    exact flatMap_al _ n _ (fun ρ _ => ⟨lhsRow_length o d n ρ hn, lhsRow_all _ o d n ρ (hfor ρ)⟩)
  · split at h
    · cases h
    · split at h
      · cases h
        exact flatMap_al _ n _ (fun ρ _ => ⟨forRow_length o d n ρ hn, hfor ρ n⟩)
      · have hl : (d.sample o.choose n []).length = n := by rw [Dom.sample_length _ _ _ _ hn]; simp
        simp only [hl] at h
        refine joinRows_al _ ps n rows hn ?_ ?_ h
        · rw [tile_length, hl, rowsOr1_length]
        · intro c hc; exact Dom.sample_cells _ d hw _ _ c (tile_mem _ _ _ hc)
  · split at h
    · cases h
    · exact perRow_al _ n _ _ (fun ρ _ r hr => ⟨gridFilterRow_length o d n ρ r hr, gridFilterRow_all _ o d n ρ r (hfor ρ) hr⟩) h

theorem dataSample_al (v : Var) (id m : Nat) (ps rows : List Row) (hm : 0 < m) (h : dataSample v id m ps = .ok rows) :
    Al (madeFor [v]) (repeatParams (rowsOr1 ps) m) rows := by
  have hok : ∀ c ∈ (List.range m).map (fun j => [Pt.datum v id j]), okFor [v] c := by
    intro c hc
    obtain ⟨j, _, rfl⟩ := List.mem_map.mp hc
    simp [okFor, Pt.cols, Pt.tagVars]
  unfold dataSample at h
  simp only at h
  split at h
  · rename_i he; cases h
    have : ps = [] := by simpa using he
    subst this
    simp only [rowsOr1, List.isEmpty_nil, if_true, repeatParams, List.flatMap_cons, List.flatMap_nil, List.append_nil]
    refine Al.replicate _ _ _ (by simp) ?_
    intro x hx
    obtain ⟨c, hcm, rfl⟩ := List.mem_map.mp hx
    exact ⟨c, rfl, hok c hcm⟩
  · rename_i he
    have hne : ps ≠ [] := by simpa using he
    refine joinRows_al _ ps m rows hm ?_ ?_ h
    · rw [tile_length, rowsOr1_ne _ hne]; simp
    · intro c hc; exact hok c (tile_mem _ _ _ hc)


/-! ## well-formed sampler expressions and parameter batches -/

/-- no variable of `W` is a variable of `pv` -/
def disj (W pv : List Var) : Bool := W.all (· ∉ pv)

/-- syntactic well-formedness of a sampler expression that is called with parameters over the variables `pv`:
    Boolean domain nodes combine equal spaces, summands have equal spaces, and no variable a sampler adds is a
    parameter variable — where the first factor of a product sees the variables of the second factor as parameters -/
def S.wf : S → List Var → Bool
  | .leaf _ d _ _, pv => d.wf && disj d.vars pv
  | .data v _ _, pv => decide (v ∉ pv)
  | .prod a b, pv => b.wf pv && a.wf (b.vars ++ pv)
  | .sum a b, pv => a.wf pv && b.wf pv && (a.vars == b.vars)
  | .append a b, pv => a.wf pv && b.wf pv
  | .static s, pv => s.wf pv

/-- the invariant of a parameter batch: all rows are over the same ordered variables, and every cell of a row is
    tagged with one of these variables (`Row.pure`: no cell is foreign to the parameter columns).
    External batches `ext i vs` (same `vs`) have it, the empty batch has it, samples of well-formed samplers
    for such batches have it again (`batch_preserved`). -/
def Batch (ps : List Row) : Prop := ∀ ρ ∈ ps, ρ.vars = paramVars ps ∧ ρ.pure (paramVars ps) = true

instance (ps : List Row) : Decidable (Batch ps) := by unfold Batch; exact inferInstance

theorem batch_ext (vs : List Var) (is : List Nat) : Batch (is.map fun i => Row.ext i vs) := by
  intro ρ hρ
  obtain ⟨i, _, rfl⟩ := List.mem_map.mp hρ
  cases is with
  | nil => simp at hρ
  | cons j js => simp [paramVars, Row.vars, Row.pure]

theorem batch_rowsOr1 (ps : List Row) (hB : Batch ps) :
    ∀ ρ ∈ rowsOr1 ps, ρ.vars = paramVars ps ∧ ρ.pure (paramVars ps) = true := by
  intro ρ hρ
  cases ps with
  | nil => simp [rowsOr1] at hρ; subst hρ; simp [paramVars, Row.vars, Row.pure]
  | cons p ps => rw [rowsOr1_ne _ (by simp)] at hρ; exact hB ρ hρ

theorem S.wf_disj (s : S) : ∀ pv, s.wf pv = true → ∀ v ∈ s.vars, v ∉ pv := by
  induction s with
  | leaf k d n f =>
    intro pv h v hv
    simp only [S.wf, Bool.and_eq_true, disj, List.all_eq_true, decide_eq_true_eq] at h
    exact h.2 v hv
  | data v' id m =>
    intro pv h v hv
    simp only [S.wf, decide_eq_true_eq] at h
    simp only [S.vars, List.mem_singleton] at hv
    subst hv; exact h
  | prod a b iha ihb =>
    intro pv h v hv
    simp only [S.wf, Bool.and_eq_true] at h
    rcases List.mem_append.mp hv with hv | hv
    · intro hm; exact iha _ h.2 v hv (List.mem_append.mpr (Or.inr hm))
    · exact ihb _ h.1 v hv
  | sum a b iha ihb =>
    intro pv h v hv
    simp only [S.wf, Bool.and_eq_true] at h
    exact iha _ h.1.1 v hv
  | append a b iha ihb =>
    intro pv h v hv
    simp only [S.wf, Bool.and_eq_true] at h
    rcases List.mem_append.mp hv with hv | hv
    · exact iha _ h.1 v hv
    · exact ihb _ h.2 v hv
  | static s ih => intro pv h v hv; exact ih _ h v hv

theorem own_of_ok {W pv : List Var} {c : Point} (hc : okFor W c) (hd : ∀ v ∈ W, v ∉ pv) : ∀ p ∈ c, p.isOwn pv = true := by
  intro p hp
  simp only [Pt.isOwn, List.all_eq_true, decide_eq_true_eq]
  exact fun v hv => hd v ((hc.2 p hp).2 v hv)

theorem notOwn_of_ok {W : List Var} (V : List Var) {c : Point} (hc : okFor W c) : ∀ p ∈ c, p.isOwn (W ++ V) = false := by
  intro p hp
  obtain ⟨hne, hsub⟩ := hc.2 p hp
  cases ht : p.tagVars with
  | nil => exact absurd ht hne
  | cons v vs =>
    have hv : v ∈ W := hsub v (by rw [ht]; simp)
    simp [Pt.isOwn, ht, hv]

theorem pure_mono (V V' : List Var) (hs : ∀ v ∈ V, v ∈ V') : ∀ r : Row, r.pure V = true → r.pure V' = true
  | .nil, _ => rfl
  | .ext _ _, _ => rfl
  | .cons p r, h => by
    simp only [Row.pure, Bool.and_eq_true, Bool.not_eq_true'] at h ⊢
    refine ⟨?_, pure_mono V V' hs r h.2⟩
    cases ho : p.isOwn V' with
    | false => rfl
    | true =>
      have : p.isOwn V = true := by
        simp only [Pt.isOwn, List.all_eq_true, decide_eq_true_eq] at ho ⊢
        exact fun v hv hm => ho v hv (hs v hm)
      rw [this] at h; exact absurd h.1 (by simp)

theorem pure_joinPt (V : List Var) (c : Point) (ρ : Row) (hc : ∀ p ∈ c, p.isOwn V = false) (hρ : ρ.pure V = true) :
    (joinPt c ρ).pure V = true := by
  induction c with
  | nil => exact hρ
  | cons p c ih =>
    rw [joinPt_cons]
    simp only [Row.pure, hc p (by simp), Bool.not_false, Bool.true_and]
    exact ih (fun q hq => hc q (by simp [hq]))

/-- rows made of points over `W` in front of the rows of a batch form a batch over `W ++ paramVars ps` -/
theorem made_batch (W : List Var) (ps rows : List Row) (hB : Batch ps)
    (h : ∀ x ∈ rows, ∃ ρ ∈ rowsOr1 ps, madeFor W ρ x) :
    Batch rows ∧ (rows ≠ [] → paramVars rows = W ++ paramVars ps) := by
  have hx : ∀ x ∈ rows, x.vars = W ++ paramVars ps ∧ x.pure (W ++ paramVars ps) = true := by
    intro x hx
    obtain ⟨ρ, hρ, c, rfl, hc⟩ := h x hx
    have := batch_rowsOr1 ps hB ρ hρ
    refine ⟨by rw [vars_joinPt, hc.1, this.1], pure_joinPt _ c ρ (notOwn_of_ok _ hc) ?_⟩
    exact pure_mono _ _ (fun v hv => List.mem_append.mpr (Or.inr hv)) ρ this.2
  have hpv : rows ≠ [] → paramVars rows = W ++ paramVars ps := by
    intro hne
    cases rows with
    | nil => exact absurd rfl hne
    | cons x xs => exact (hx x (by simp)).1
  refine ⟨?_, hpv⟩
  intro x hxm
  rw [hpv (by intro e; rw [e] at hxm; simp at hxm)]
  exact hx x hxm

theorem sample_ne_nil (o : Oracle) (s : S) (ps rows : List Row) (hp : s.pos) (h : s.sample o ps = .ok rows) : rows ≠ [] := by
  intro e
  have hl := rows_n o s ps rows hp h
  rw [e] at hl
  have : 0 < s.len * max 1 ps.length := Nat.mul_pos (S.len_pos s hp) (by omega)
  simp only [List.length_nil] at hl; omega

/-- **shape** (every sampler expression, sums included): every returned row is a point over the variables of the
    sampler joined in front of one of the parameter rows (of `nil` for an empty batch) -/
theorem sample_shape (o : Oracle) (s : S) : ∀ (ps rows : List Row), Batch ps → s.wf (paramVars ps) = true → s.pos →
    s.sample o ps = .ok rows → ∀ x ∈ rows, ∃ ρ ∈ rowsOr1 ps, madeFor s.vars ρ x := by
  induction s with
  | leaf k d n f =>
    intro ps rows _ hw hp h x hx
    simp only [S.wf, Bool.and_eq_true] at hw
    obtain ⟨ρ, hρ, hm⟩ := (leafSample_al o k d n f ps rows hw.1 hp h).mem x hx
    exact ⟨ρ, repeatParams_mem _ _ _ hρ, hm⟩
  | data v id m =>
    intro ps rows _ _ hp h x hx
    obtain ⟨ρ, hρ, hm⟩ := (dataSample_al v id m ps rows hp h).mem x hx
    exact ⟨ρ, repeatParams_mem _ _ _ hρ, hm⟩
  | prod a b iha ihb =>
    intro ps rows hB hw hp h x hx
    simp only [S.wf, Bool.and_eq_true] at hw
    rw [prod_rows] at h
    cases hb : b.sample o ps with
    | error e => simp [hb, Except.bind] at h
    | ok rb =>
      simp only [hb, Except.bind] at h
      have hsb := ihb ps rb hB hw.1 hp.2 hb
      have hrb := sample_ne_nil o b ps rb hp.2 hb
      obtain ⟨hBb, hpv⟩ := made_batch b.vars ps rb hB hsb
      obtain ⟨y, hy, c₁, rfl, ok₁⟩ := iha rb rows hBb (by rw [hpv hrb]; exact hw.2) hp.1 h x hx
      rw [rowsOr1_ne _ hrb] at hy
      obtain ⟨ρ, hρ, c₂, rfl, ok₂⟩ := hsb y hy
      exact ⟨ρ, hρ, c₁ ++ c₂, (joinPt_app _ _ _).symm, okFor_append ok₁ ok₂⟩
  | sum a b iha ihb =>
    intro ps rows hB hw hp h x hx
    simp only [S.wf, Bool.and_eq_true, beq_iff_eq] at hw
    cases ha : a.sample o ps with
    | error e => simp [S.sample, ha, bind, Except.bind] at h
    | ok ra =>
      cases hb : b.sample o ps with
      | error e => simp [S.sample, ha, hb, bind, Except.bind] at h
      | ok rb =>
        rw [sum_rows o a b ps ra rb ha hb] at h
        cases h
        rcases List.mem_append.mp hx with hx | hx
        · exact iha ps ra hB hw.1.1 hp.1 ha x hx
        · simp only [S.vars]; rw [hw.2]; exact ihb ps rb hB hw.1.2 hp.2 hb x hx
  | append a b iha ihb =>
    intro ps rows hB hw hp h x hx
    simp only [S.wf, Bool.and_eq_true] at hw
    cases ha : a.sample o ps with
    | error e => simp [S.sample, ha, bind, Except.bind] at h
    | ok ra =>
      cases hb : b.sample o ps with
      | error e => simp [S.sample, ha, hb, bind, Except.bind] at h
      | ok rb =>
        simp only [S.sample, ha, hb, bind, Except.bind, appendRows] at h
        split at h
        · cases h
          obtain ⟨xa, hxa, xb, hxb, rfl⟩ := mem_zipWith _ _ _ _ hx
          obtain ⟨ρa, hρa, ca, rfl, oka⟩ := iha ps ra hB hw.1 hp.1 ha xa hxa
          obtain ⟨ρb, hρb, cb, rfl, okb⟩ := ihb ps rb hB hw.2 hp.2 hb xb hxb
          have hpa := (batch_rowsOr1 ps hB ρa hρa).2
          have hpb := (batch_rowsOr1 ps hB ρb hρb).2
          have hoa := own_of_ok oka (S.wf_disj a _ hw.1)
          have hob := own_of_ok okb (S.wf_disj b _ hw.2)
          refine ⟨ρa, hρa, ca ++ cb, ?_, okFor_append oka okb⟩
          simp only [own_joinPt _ ca ρa hoa hpa, rest_joinPt _ ca ρa hoa hpa, own_joinPt _ cb ρb hob hpb]
        · cases h
  | static s ih => intro ps rows hB hw hp h; exact ih ps rows hB hw hp h

/-- **the invariant is preserved through a sampler call** (what the induction over products needs): the sample
    of a well-formed sampler for a batch is a batch again, over the sampler's variables followed by the old ones -/
theorem batch_preserved (o : Oracle) (s : S) (ps rows : List Row) (hB : Batch ps) (hw : s.wf (paramVars ps) = true)
    (hp : s.pos) (h : s.sample o ps = .ok rows) : Batch rows ∧ paramVars rows = s.vars ++ paramVars ps := by
  have := made_batch s.vars ps rows hB (sample_shape o s ps rows hB hw hp h)
  exact ⟨this.1, this.2 (sample_ne_nil o s ps rows hp h)⟩

/-- well-formedness of the first factor of a product w.r.t. the variables of the second factor's sample -/
theorem prod_first_wf (o : Oracle) (a b : S) (ps rb : List Row) (hB : Batch ps)
    (hw : (S.prod a b).wf (paramVars ps) = true) (hp : b.pos) (h : b.sample o ps = .ok rb) :
    b.wf (paramVars ps) = true ∧ Batch rb ∧ a.wf (paramVars rb) = true := by
  simp only [S.wf, Bool.and_eq_true] at hw
  have := batch_preserved o b ps rb hB hw.1 hp h
  exact ⟨hw.1, this.1, by rw [this.2]; exact hw.2⟩

/-- every cell the sampler added is an own cell, the row behind them is a pure parameter row: the returned rows
    are `sorted`, `own` gives the point and `rest` the parameter row -/
theorem sample_sorted (o : Oracle) (s : S) (ps rows : List Row) (hB : Batch ps) (hw : s.wf (paramVars ps) = true)
    (hp : s.pos) (h : s.sample o ps = .ok rows) :
    ∀ x ∈ rows, x.sorted (paramVars ps) = true ∧ x.rest (paramVars ps) ∈ rowsOr1 ps ∧ okFor s.vars (x.own (paramVars ps)) ∧
      x = joinPt (x.own (paramVars ps)) (x.rest (paramVars ps)) := by
  intro x hx
  obtain ⟨ρ, hρ, c, rfl, ok⟩ := sample_shape o s ps rows hB hw hp h x hx
  have hpure := (batch_rowsOr1 ps hB ρ hρ).2
  have hown := own_of_ok ok (S.wf_disj s _ hw)
  rw [own_joinPt _ c ρ hown hpure, rest_joinPt _ c ρ hown hpure]
  exact ⟨sorted_joinPt _ c ρ hown hpure, hρ, ok, rfl⟩

/-! ## alignment of sum-free sampler expressions -/

theorem Al.zipAl {R₁ R₂ R : Row → Row → Prop} (f : Row → Row → Row) {l ra : List Row} (h₁ : Al R₁ l ra) :
    ∀ {rb}, Al R₂ l rb → (∀ ρ ∈ l, ∀ a b, R₁ ρ a → R₂ ρ b → R ρ (f a b)) → Al R l (List.zipWith f ra rb) := by
  induction h₁ with
  | nil => intro rb h _; cases h; exact Al.nil
  | cons ha _ ih =>
    intro rb h hf
    cases h with
    | cons hb ht =>
      rw [List.zipWith_cons_cons]
      exact Al.cons (hf _ (by simp) _ _ ha hb) (ih ht (fun ρ hρ => hf ρ (by simp [hρ])))

theorem append_len_eq (o : Oracle) (a b : S) (ps ra rb : List Row) (hpa : a.pos) (hpb : b.pos)
    (ha : a.sample o ps = .ok ra) (hb : b.sample o ps = .ok rb) (hl : ra.length = rb.length) : a.len = b.len := by
  rw [rows_n o a ps ra hpa ha, rows_n o b ps rb hpb hb] at hl
  exact Nat.eq_of_mul_eq_mul_right (by omega) hl

/-- **alignment**: the rows `i*len .. (i+1)*len-1` of a sum-free sampler expression are points over the sampler's
    variables joined in front of parameter row `i` itself (of `nil` without parameters) -/
theorem sample_al (o : Oracle) (s : S) : ∀ (ps rows : List Row), Batch ps → s.wf (paramVars ps) = true → s.pos →
    s.sumFree = true → s.sample o ps = .ok rows → Al (madeFor s.vars) (repeatParams (rowsOr1 ps) s.len) rows := by
  induction s with
  | leaf k d n f =>
    intro ps rows _ hw hp _ h
    simp only [S.wf, Bool.and_eq_true] at hw
    exact leafSample_al o k d n f ps rows hw.1 hp h
  | data v id m => intro ps rows _ _ hp _ h; exact dataSample_al v id m ps rows hp h
  | prod a b iha ihb =>
    intro ps rows hB hw hp hs h
    have hwp := hw
    simp only [S.wf, Bool.and_eq_true] at hw
    simp only [S.sumFree, Bool.and_eq_true] at hs
    rw [prod_rows] at h
    cases hb : b.sample o ps with
    | error e => simp [hb, Except.bind] at h
    | ok rb =>
      simp only [hb, Except.bind] at h
      obtain ⟨_, hBb, hwa⟩ := prod_first_wf o a b ps rb hB hwp hp.2 hb
      have hrb := sample_ne_nil o b ps rb hp.2 hb
      have h₁ := (ihb ps rb hB hw.1 hp.2 hs.2 hb).repeat a.len
      have h₂ := iha rb rows hBb hwa hp.1 hs.1 h
      rw [rowsOr1_ne _ hrb] at h₂
      rw [repeatParams_repeatParams] at h₁
      simp only [S.len, S.vars]
      rw [Nat.mul_comm]
      exact Al.comp h₁ h₂
  | sum a b _ _ => intro ps rows _ _ _ hs; simp [S.sumFree] at hs
  | append a b iha ihb =>
    intro ps rows hB hw hp hs h
    simp only [S.wf, Bool.and_eq_true] at hw
    simp only [S.sumFree, Bool.and_eq_true] at hs
    cases ha : a.sample o ps with
    | error e => simp [S.sample, ha, bind, Except.bind] at h
    | ok ra =>
      cases hb : b.sample o ps with
      | error e => simp [S.sample, ha, hb, bind, Except.bind] at h
      | ok rb =>
        simp only [S.sample, ha, hb, bind, Except.bind, appendRows] at h
        split at h
        · rename_i hl
          cases h
          have h₁ := iha ps ra hB hw.1 hp.1 hs.1 ha
          have h₂ := ihb ps rb hB hw.2 hp.2 hs.2 hb
          rw [← append_len_eq o a b ps ra rb hp.1 hp.2 ha hb hl] at h₂
          simp only [S.len, S.vars]
          refine Al.zipAl _ h₁ h₂ ?_
          intro ρ hρ xa xb ⟨ca, ea, oka⟩ ⟨cb, eb, okb⟩
          subst ea; subst eb
          have hpure := (batch_rowsOr1 ps hB ρ (repeatParams_mem _ _ _ hρ)).2
          have hoa := own_of_ok oka (S.wf_disj a _ hw.1)
          have hob := own_of_ok okb (S.wf_disj b _ hw.2)
          refine ⟨ca ++ cb, ?_, okFor_append oka okb⟩
          simp only [own_joinPt _ ca ρ hoa hpure, rest_joinPt _ ca ρ hoa hpure, own_joinPt _ cb ρ hob hpure]
        · cases h
  | static s ih => intro ps rows hB hw hp hs h; exact ih ps rows hB hw hp hs h

/-- positional form: row `i*len + j` of a sum-free sampler is a point joined in front of parameter row `i` -/
theorem sample_rest (o : Oracle) (s : S) (ps rows : List Row) (hB : Batch ps) (hw : s.wf (paramVars ps) = true)
    (hp : s.pos) (hs : s.sumFree = true) (h : s.sample o ps = .ok rows) :
    rows.map (Row.rest (paramVars ps)) = repeatParams (rowsOr1 ps) s.len := by
  have hal := sample_al o s ps rows hB hw hp hs h
  have hmem : ∀ ρ ∈ repeatParams (rowsOr1 ps) s.len, ρ.pure (paramVars ps) = true :=
    fun ρ hρ => (batch_rowsOr1 ps hB ρ (repeatParams_mem _ _ _ hρ)).2
  have hd := S.wf_disj s _ hw
  clear h
  generalize repeatParams (rowsOr1 ps) s.len = reps at hal hmem
  induction hal with
  | nil => rfl
  | cons hx _ ih =>
    obtain ⟨c, rfl, ok⟩ := hx
    rw [List.map_cons, rest_joinPt _ c _ (own_of_ok ok hd) (hmem _ (by simp)), ih (fun ρ hρ => hmem ρ (by simp [hρ]))]

/-! ## the append case of the pairing theorem -/

/-- **AppendSampler keeps the pairing** when both operands are sum-free: row `i` of both samples was made for the
    same parameter row, so every point of the column-stacked row was made for (a part of) the row it is joined with -/
theorem append_rows_paired (o : Oracle) (a b : S) (ps rows : List Row)
    (hB : Batch ps) (hw : (S.append a b).wf (paramVars ps) = true) (hp : (S.append a b).pos)
    (hs : (S.append a b).sumFree = true)
    (ha : ∀ ra, a.sample o ps = .ok ra → ∀ r ∈ ra, r.paired = true)
    (hb : ∀ rb, b.sample o ps = .ok rb → ∀ r ∈ rb, r.paired = true)
    (h : (S.append a b).sample o ps = .ok rows) : ∀ r ∈ rows, r.paired = true := by
  simp only [S.wf, Bool.and_eq_true] at hw
  simp only [S.sumFree, Bool.and_eq_true] at hs
  cases hsa : a.sample o ps with
  | error e => simp [S.sample, hsa, bind, Except.bind] at h
  | ok ra =>
    cases hsb : b.sample o ps with
    | error e => simp [S.sample, hsa, hsb, bind, Except.bind] at h
    | ok rb =>
      simp only [S.sample, hsa, hsb, bind, Except.bind, appendRows] at h
      split at h
      · rename_i hl
        cases h
        have h₁ := sample_al o a ps ra hB hw.1 hp.1 hs.1 hsa
        have h₂ := sample_al o b ps rb hB hw.2 hp.2 hs.2 hsb
        rw [← append_len_eq o a b ps ra rb hp.1 hp.2 hsa hsb hl] at h₂
        intro r hr
        obtain ⟨ρ, hρ, xa, hxa, xb, hxb, ⟨ca, ea, oka⟩, ⟨cb, eb, okb⟩, rfl⟩ := Al.zip _ h₁ h₂ r hr
        have hpa := ha ra hsa xa hxa
        have hpb := hb rb hsb xb hxb
        subst ea; subst eb
        have hpure := (batch_rowsOr1 ps hB ρ (repeatParams_mem _ _ _ hρ)).2
        have hoa := own_of_ok oka (S.wf_disj a _ hw.1)
        have hob := own_of_ok okb (S.wf_disj b _ hw.2)
        have := append_row_paired _ ca cb ρ hoa hob hpure hpa hpb
        show (joinPt ((joinPt ca ρ).own _ ++ (joinPt cb ρ).own _) ((joinPt ca ρ).rest _)).paired = true
        rw [this.2.2.2.1]
        exact this.2.2.2.2
      · cases h


/-- the same with the hypotheses spelled out per operand -/
theorem append_rows_paired' (o : Oracle) (a b : S) (ps rows : List Row)
    (hB : Batch ps) (hwa : a.wf (paramVars ps) = true) (hwb : b.wf (paramVars ps) = true)
    (hpa : a.pos) (hpb : b.pos) (hsa : a.sumFree = true) (hsb : b.sumFree = true)
    (ha : ∀ ra, a.sample o ps = .ok ra → ∀ r ∈ ra, r.paired = true)
    (hb : ∀ rb, b.sample o ps = .ok rb → ∀ r ∈ rb, r.paired = true)
    (h : (S.append a b).sample o ps = .ok rows) : ∀ r ∈ rows, r.paired = true :=
  append_rows_paired o a b ps rows hB (by simp [S.wf, hwa, hwb]) ⟨hpa, hpb⟩ (by simp [S.sumFree, hsa, hsb]) ha hb h

/-! ## how the pieces fit: pairing of composed samplers reduces to pairing of leaf samplers -/

theorem joinRows_mem (pts : List Point) (reps rows : List Row) (h : joinRows pts reps = .ok rows) :
    ∀ r ∈ rows, ∃ c ∈ pts, ∃ ρ, (ρ = Row.nil ∨ ρ ∈ reps) ∧ r = joinPt c ρ := by
  intro r hr
  unfold joinRows at h
  split at h
  · cases h
    obtain ⟨c, hc, rfl⟩ := List.mem_map.mp hr
    exact ⟨c, hc, .nil, Or.inl rfl, rfl⟩
  · split at h
    · cases h
      obtain ⟨c, hc, ρ, hρ, rfl⟩ := mem_zipWith _ _ _ _ hr
      exact ⟨c, hc, ρ, Or.inr hρ, rfl⟩
    · cases h

/-- DataSampler: stored data are not generated for any row, the rows are paired iff the parameter rows are -/
theorem dataSample_rows_paired (v : Var) (id m : Nat) (ps rows : List Row) (hps : ∀ ρ ∈ ps, ρ.paired = true)
    (h : dataSample v id m ps = .ok rows) : ∀ r ∈ rows, r.paired = true := by
  have hst : ∀ c ∈ (List.range m).map (fun j => [Pt.datum v id j]), ∀ ρ, ρ.paired = true → (joinPt c ρ).paired = true := by
    intro c hc ρ hρ
    obtain ⟨j, _, rfl⟩ := List.mem_map.mp hc
    simp [joinPt, Row.paired, Pt.pairedTo, hρ]
  unfold dataSample at h
  simp only at h
  intro r hr
  split at h
  · cases h
    obtain ⟨c, hc, rfl⟩ := List.mem_map.mp hr
    exact hst c hc .nil rfl
  · obtain ⟨c, hc, ρ, hρ, rfl⟩ := joinRows_mem _ _ _ h r hr
    refine hst c (tile_mem _ _ _ hc) ρ ?_
    rcases hρ with rfl | hρ
    · rfl
    · exact hps ρ (repeatParams_mem _ _ _ hρ)

/-- every `AppendSampler` node has sum-free operands (sums may occur anywhere else) -/
def S.appendsSumFree : S → Bool
  | .leaf _ _ _ _ => true
  | .data _ _ _ => true
  | .prod a b => a.appendsSumFree && b.appendsSumFree
  | .sum a b => a.appendsSumFree && b.appendsSumFree
  | .append a b => a.sumFree && b.sumFree && a.appendsSumFree && b.appendsSumFree
  | .static s => s.appendsSumFree

/-! ## the leaf case for primitive domains, every kind (completes `leafSample_paired_partial`) -/

theorem zipWith_replicate_right' {α β γ} (f : α → β → γ) (b : β) : ∀ (l : List α) (n : Nat), l.length = n →
    List.zipWith f l (List.replicate n b) = l.map (f · b) := by
  intro l
  induction l with
  | nil => intro n _; simp
  | cons a l ih =>
    intro n hl
    subst hl
    rw [List.length_cons, List.replicate_succ, List.zipWith_cons_cons, ih _ rfl, List.map_cons]

/-- the vectorised call: `n` points per parameter row, zipped with `repeat_interleave(params, n)`, block by block -/
theorem zipWith_joinPt_blocks (g : Row → List Point) (n : Nat) (hg : ∀ ρ, (g ρ).length = n) : ∀ ps : List Row,
    List.zipWith joinPt (ps.flatMap g) (repeatParams ps n) = ps.flatMap (fun ρ => (g ρ).map (joinPt · ρ)) := by
  intro ps
  induction ps with
  | nil => simp [repeatParams]
  | cons p ps ih =>
    simp only [repeatParams, List.flatMap_cons] at ih ⊢
    rw [List.zipWith_append (by simp [hg]), ih, zipWith_replicate_right' _ _ _ _ (hg p)]

theorem nil_sub (ctx : Row) : Row.nil.sub ctx = true := by
  simp [Row.sub, Row.cells, Row.base]

/-- every leaf kind on a primitive domain, with or without filter, dependent or not: every returned point was
    made for the row it is joined with (vectorised call: made for that very row; independent grid: made without
    parameters, fits every row) -/
theorem leafSample_prim_paired (o : Oracle) (kind : LeafKind) (v : Var) (id : Nat) (deps : List Var) (n : Nat)
    (filt : Bool) (ps rows : List Row) (hps : ∀ ρ ∈ ps, ρ.paired = true)
    (h : leafSample o kind (.prim v id deps) n filt ps = .ok rows) : ∀ x ∈ rows, x.paired = true := by
  have hr : ∀ ρ ∈ rowsOr1 ps, ρ.paired = true := by
    intro ρ hρ
    unfold rowsOr1 at hρ
    split at hρ
    · simp at hρ; subst hρ; rfl
    · exact hps ρ hρ
  have hfor : ∀ m, ∀ ρ ∈ rowsOr1 ps, ∀ x ∈ forRow o (.prim v id deps) m ρ, x.paired = true :=
    fun m ρ hρ => forRow_prim_paired o v id deps m ρ (hr ρ hρ)
  have hone : ∀ j ρ, ρ.paired = true → (joinPt [Pt.prim v id j ρ] ρ).paired = true := by
    intro j ρ hρ; simp [joinPt, Row.paired, Pt.pairedTo, sub_refl, hρ]
  unfold leafSample at h
  split at h
  · -- the vectorised call
    simp only [Dom.sample] at h
    cases ps with
    | nil =>
      simp only [rowsOr1, List.isEmpty_nil, if_true, List.flatMap_cons, List.flatMap_nil, List.append_nil,
        repeatParams, joinRows] at h
      cases h
      intro x hx
      simp only [List.map_map, List.mem_map, List.mem_range] at hx
      obtain ⟨j, _, rfl⟩ := hx
      exact hone j .nil rfl
    | cons p ps =>
      rw [rowsOr1_ne _ (by simp)] at h
      unfold joinRows at h
      split at h
      · -- no repeated parameters: only for `n = 0`, and then there are no points either
        rename_i he
        cases h
        intro x hx
        obtain ⟨c, hc, rfl⟩ := List.mem_map.mp hx
        simp only [List.mem_flatMap, List.mem_map, List.mem_range] at hc
        obtain ⟨ρ, hρ, j, hj, rfl⟩ := hc
        exfalso
        have hl := repeatParams_length (p :: ps) n
        have he' : repeatParams (p :: ps) n = [] := by simpa using he
        rw [he'] at hl
        simp only [List.length_nil, List.length_cons] at hl
        rcases Nat.mul_eq_zero.mp hl.symm with h0 | h0 <;> omega
      · split at h
        · cases h
          rw [zipWith_joinPt_blocks _ n (by intro ρ; simp)]
          intro x hx
          simp only [List.mem_flatMap, List.mem_map, List.mem_range, List.map_map] at hx
          obtain ⟨ρ, hρ, j, _, rfl⟩ := hx
          exact hone j ρ (hps ρ hρ)
        · cases h
  · exact perRow_all _ _ _ _ (fun ρ hρ r hr' => filterLoopRow_all _ o _ n ρ r (fun m => hfor m ρ hρ) hr') h
  · exact perRow_all _ _ _ _ (fun ρ hρ r hr' => filterLoopRow_all _ o _ n ρ r (fun m => hfor m ρ hρ) hr') h
  · cases h
    intro x hx
    obtain ⟨ρ, hρ, hx⟩ := List.mem_flatMap.mp hx
    exact lhsRow_all _ o _ n ρ (fun m => hfor m ρ hρ) x hx
  · split at h
    · cases h
    · split at h
      · cases h
        intro x hx
        obtain ⟨ρ, hρ, hx⟩ := List.mem_flatMap.mp hx
        exact hfor n ρ hρ x hx
      · -- sampled once without parameters, copied for every row
        intro x hx
        obtain ⟨c, hc, ρ, hρ, rfl⟩ := joinRows_mem _ _ _ h x hx
        have hc := tile_mem _ _ _ hc
        simp only [Dom.sample, rowsOr1, List.isEmpty_nil, if_true, List.flatMap_cons, List.flatMap_nil,
          List.append_nil, List.mem_map, List.mem_range] at hc
        obtain ⟨j, _, rfl⟩ := hc
        have hρp : ρ.paired = true := by
          rcases hρ with rfl | hρ
          · rfl
          · exact hps ρ (repeatParams_mem _ _ _ hρ)
        simp [joinPt, Row.paired, Pt.pairedTo, nil_sub, hρp]
  · split at h
    · cases h
    · exact perRow_all _ _ _ _ (fun ρ hρ r hr' => gridFilterRow_all _ o _ n ρ r (fun m => hfor m ρ hρ) hr') h

/-- all domains of the leaf samplers are primitives -/
def S.primLeaves : S → Bool
  | .leaf _ (.prim _ _ _) _ _ => true
  | .leaf _ _ _ _ => false
  | .data _ _ _ => true
  | .prod a b => a.primLeaves && b.primLeaves
  | .sum a b => a.primLeaves && b.primLeaves
  | .append a b => a.primLeaves && b.primLeaves
  | .static s => s.primLeaves

/-- **the induction over sampler expressions**, with the leaf case as a hypothesis (for the leaf domains in a class
    `D`, e.g. primitives): if every leaf sampler pairs its points with the rows of every batch it is called with, then
    so does every well-formed sampler expression whose `AppendSampler` nodes have sum-free operands.  Product: the sample
    of the second factor is a batch again (`batch_preserved`) of paired rows; sum: concatenation; append:
    `append_rows_paired`. -/
theorem pairing_of_doms (o : Oracle) (D : Dom → Prop)
    (hleaf : ∀ (k : LeafKind) (d : Dom) (n : Nat) (f : Bool) (ps rows : List Row), D d → Batch ps →
      (∀ ρ ∈ ps, ρ.paired = true) → (S.leaf k d n f).wf (paramVars ps) = true → 0 < n →
      leafSample o k d n f ps = .ok rows → ∀ r ∈ rows, r.paired = true)
    (leaves : S → Prop) (hl_leaf : ∀ k d n f, leaves (.leaf k d n f) → D d)
    (hl_prod : ∀ a b, leaves (.prod a b) → leaves a ∧ leaves b) (hl_sum : ∀ a b, leaves (.sum a b) → leaves a ∧ leaves b)
    (hl_app : ∀ a b, leaves (.append a b) → leaves a ∧ leaves b) (hl_static : ∀ s, leaves (.static s) → leaves s)
    (s : S) : ∀ (ps rows : List Row), leaves s → Batch ps → (∀ ρ ∈ ps, ρ.paired = true) → s.wf (paramVars ps) = true →
      s.pos → s.appendsSumFree = true → s.sample o ps = .ok rows → ∀ r ∈ rows, r.paired = true := by
  induction s with
  | leaf k d n f => intro ps rows hL hB hps hw hp _ h; exact hleaf k d n f ps rows (hl_leaf _ _ _ _ hL) hB hps hw hp h
  | data v id m => intro ps rows _ _ hps _ _ _ h; exact dataSample_rows_paired v id m ps rows hps h
  | prod a b iha ihb =>
    intro ps rows hL hB hps hw hp hs h
    simp only [S.appendsSumFree, Bool.and_eq_true] at hs
    rw [prod_rows] at h
    cases hb : b.sample o ps with
    | error e => simp [hb, Except.bind] at h
    | ok rb =>
      simp only [hb, Except.bind] at h
      obtain ⟨hwb, hBb, hwa⟩ := prod_first_wf o a b ps rb hB hw hp.2 hb
      exact iha rb rows (hl_prod _ _ hL).1 hBb (ihb ps rb (hl_prod _ _ hL).2 hB hps hwb hp.2 hs.2 hb) hwa hp.1 hs.1 h
  | sum a b iha ihb =>
    intro ps rows hL hB hps hw hp hs h
    simp only [S.appendsSumFree, Bool.and_eq_true] at hs
    simp only [S.wf, Bool.and_eq_true] at hw
    cases ha : a.sample o ps with
    | error e => simp [S.sample, ha, bind, Except.bind] at h
    | ok ra =>
      cases hb : b.sample o ps with
      | error e => simp [S.sample, ha, hb, bind, Except.bind] at h
      | ok rb =>
        rw [sum_rows o a b ps ra rb ha hb] at h
        cases h
        intro r hr
        rcases List.mem_append.mp hr with hr | hr
        · exact iha ps ra (hl_sum _ _ hL).1 hB hps hw.1.1 hp.1 hs.1 ha r hr
        · exact ihb ps rb (hl_sum _ _ hL).2 hB hps hw.1.2 hp.2 hs.2 hb r hr
  | append a b iha ihb =>
    intro ps rows hL hB hps hw hp hs h
    have hw' := hw
    simp only [S.appendsSumFree, Bool.and_eq_true] at hs
    simp only [S.wf, Bool.and_eq_true] at hw'
    exact append_rows_paired o a b ps rows hB hw hp (by simp [S.sumFree, hs.1.1.1, hs.1.1.2])
      (fun ra hra => iha ps ra (hl_app _ _ hL).1 hB hps hw'.1 hp.1 hs.1.2 hra)
      (fun rb hrb => ihb ps rb (hl_app _ _ hL).2 hB hps hw'.2 hp.2 hs.2 hrb) h
  | static s ih => intro ps rows hL hB hps hw hp hs h; exact ih ps rows (hl_static _ hL) hB hps hw hp hs h

/-- the same without a restriction on the leaf domains -/
theorem pairing_of_leaves (o : Oracle)
    (hleaf : ∀ (k : LeafKind) (d : Dom) (n : Nat) (f : Bool) (ps rows : List Row), Batch ps →
      (∀ ρ ∈ ps, ρ.paired = true) → (S.leaf k d n f).wf (paramVars ps) = true → 0 < n →
      leafSample o k d n f ps = .ok rows → ∀ r ∈ rows, r.paired = true)
    (s : S) (ps rows : List Row) (hB : Batch ps) (hps : ∀ ρ ∈ ps, ρ.paired = true) (hw : s.wf (paramVars ps) = true)
    (hp : s.pos) (hs : s.appendsSumFree = true) (h : s.sample o ps = .ok rows) : ∀ r ∈ rows, r.paired = true :=
  pairing_of_doms o (fun _ => True) (fun k d n f ps rows _ => hleaf k d n f ps rows) (fun _ => True)
    (fun _ _ _ _ _ => trivial) (fun _ _ _ => ⟨trivial, trivial⟩) (fun _ _ _ => ⟨trivial, trivial⟩)
    (fun _ _ _ => ⟨trivial, trivial⟩) (fun _ _ => trivial) s ps rows trivial hB hps hw hp hs h

/-- **pairing theorem for every composition of samplers on primitive domains** (products, sums, appends with sum-free
    operands, static, data; every leaf kind, filter verdict and round budget): every returned point was made for
    (a part of) the row it is joined with -/
theorem pairing_prim (o : Oracle) (s : S) (ps rows : List Row) (hL : s.primLeaves = true) (hB : Batch ps)
    (hps : ∀ ρ ∈ ps, ρ.paired = true) (hw : s.wf (paramVars ps) = true) (hp : s.pos) (hs : s.appendsSumFree = true)
    (h : s.sample o ps = .ok rows) : ∀ r ∈ rows, r.paired = true := by
  refine pairing_of_doms o (fun d => ∃ v id deps, d = .prim v id deps) ?_ (fun s => s.primLeaves = true)
    ?_ ?_ ?_ ?_ ?_ s ps rows hL hB hps hw hp hs h
  · rintro k d n f ps rows ⟨v, id, deps, rfl⟩ _ hps _ _ h
    exact leafSample_prim_paired o k v id deps n f ps rows hps h
  · intro k d n f hl
    cases d with
    | prim v id deps => exact ⟨v, id, deps, rfl⟩
    | bool a b => simp [S.primLeaves] at hl
    | prod a b => simp [S.primLeaves] at hl
    | move d id deps => simp [S.primLeaves] at hl
  · intro a b hl; simpa [S.primLeaves] using hl
  · intro a b hl; simpa [S.primLeaves] using hl
  · intro a b hl; simpa [S.primLeaves] using hl
  · intro s hl; simpa [S.primLeaves] using hl


/-! ## non-vacuity and the negative result for sums -/

theorem paired_of_eval (o : Oracle) (s : S) (ps : List Row)
    (h : (match s.sample o ps with | .ok rows => rows.all Row.paired | .error _ => false) = true) :
    ∀ ra, s.sample o ps = .ok ra → ∀ r ∈ ra, r.paired = true := by
  intro ra hs r hr
  rw [hs] at h
  exact List.all_eq_true.mp h r hr

def pEx : List Row := [.ext 0 ["t"], .ext 1 ["t"]]
/-- a product of a parameter-dependent leaf with a grid leaf (2 * 1 points per parameter row) -/
def aEx : S := .prod (.leaf .uniform (.prim "x" 1 ["t", "s"]) 2 false) (.leaf .grid (.prim "s" 2 []) 1 false)
/-- a moved, parameter-dependent domain sampled by a filter loop (2 points per parameter row) -/
def bEx : S := .leaf .uniform (.move (.prim "y" 3 ["t"]) 7 ["t"]) 2 true

/-- the hypotheses of `append_rows_paired` are satisfiable with two parameter rows, a product operand and a filter
    loop that needs several rounds; the sample has 2 * 2 rows, the conclusion is the theorem's -/
example : Batch pEx ∧ (S.append aEx bEx).wf (paramVars pEx) = true ∧ (S.append aEx bEx).pos ∧
    (S.append aEx bEx).sumFree = true ∧
    ∃ rows, (S.append aEx bEx).sample o0 pEx = .ok rows ∧ rows.length = 4 ∧ ∀ r ∈ rows, r.paired = true := by
  have hB : Batch pEx := by decide +kernel
  have hw : (S.append aEx bEx).wf (paramVars pEx) = true := by decide +kernel
  have hp : (S.append aEx bEx).pos := by simp [S.pos, aEx, bEx]
  have hs : (S.append aEx bEx).sumFree = true := by decide +kernel
  have ha := paired_of_eval o0 aEx pEx (by decide +kernel)
  have hb := paired_of_eval o0 bEx pEx (by decide +kernel)
  refine ⟨hB, hw, hp, hs, ?_⟩
  have hl : ((S.append aEx bEx).sample o0 pEx).toOption.map List.length = some 4 := by decide +kernel
  cases hsm : (S.append aEx bEx).sample o0 pEx with
  | error e => simp [hsm, Except.toOption] at hl
  | ok rows =>
    exact ⟨rows, rfl, by simpa [hsm, Except.toOption] using hl,
      append_rows_paired o0 aEx bEx pEx rows hB hw hp hs ha hb hsm⟩

/-- the batch invariant is carried through the call of `bEx` (as the second factor of a product would do) -/
example : ∃ rb, bEx.sample o0 pEx = .ok rb ∧ Batch rb ∧ paramVars rb = ["y", "t"] := by
  cases hsm : bEx.sample o0 pEx with
  | error e =>
    have : (bEx.sample o0 pEx).toOption.isSome = true := by decide +kernel
    simp [hsm, Except.toOption] at this
  | ok rb =>
    have := batch_preserved o0 bEx pEx rb (by decide +kernel) (by decide +kernel) (by simp [S.pos, bEx]) hsm
    exact ⟨rb, rfl, this.1, this.2⟩

def aSum : S := .sum (.leaf .uniform (.prim "x" 1 ["t"]) 1 false) (.leaf .uniform (.prim "x" 2 ["t"]) 2 false)
def bSum : S := .sum (.leaf .uniform (.prim "y" 3 ["t"]) 2 false) (.leaf .uniform (.prim "y" 4 ["t"]) 1 false)

/-- **without sum-freeness the conclusion fails**: every other hypothesis of `append_rows_paired` holds for the append
    of two sums (1 + 2 and 2 + 1 points per parameter row) called with two parameter rows, both operand samples are
    paired and equally long, but the sums order their rows differently (`[ρ0, ρ1, ρ0, ρ0, ρ1, ρ1]` against
    `[ρ0, ρ0, ρ1, ρ1, ρ0, ρ1]`), so the column stack joins a `y` made for row 0 to an `x` and a parameter row 1 -/
theorem append_of_sums_not_paired :
    Batch pEx ∧ (S.append aSum bSum).wf (paramVars pEx) = true ∧ (S.append aSum bSum).pos ∧
    (∀ ra, aSum.sample o0 pEx = .ok ra → ∀ r ∈ ra, r.paired = true) ∧
    (∀ rb, bSum.sample o0 pEx = .ok rb → ∀ r ∈ rb, r.paired = true) ∧
    ∃ rows, (S.append aSum bSum).sample o0 pEx = .ok rows ∧ rows.length = 6 ∧ ∃ r ∈ rows, r.paired = false := by
  refine ⟨by decide +kernel, by decide +kernel, by simp [S.pos, aSum, bSum],
    paired_of_eval o0 aSum pEx (by decide +kernel), paired_of_eval o0 bSum pEx (by decide +kernel), ?_⟩
  have hl : (match (S.append aSum bSum).sample o0 pEx with
      | .ok rows => decide (rows.length = 6) && rows.any (fun r => !r.paired)
      | .error _ => false) = true := by decide +kernel
  cases hsm : (S.append aSum bSum).sample o0 pEx with
  | error e => simp [hsm] at hl
  | ok rows =>
    rw [hsm] at hl
    simp only [Bool.and_eq_true, decide_eq_true_eq, List.any_eq_true, Bool.not_eq_true'] at hl
    exact ⟨rows, rfl, hl.1, hl.2⟩

/-- the offending row, explicitly: row 1 of the append is `x` (made for row 1), `y` (made for row 0), row 1 -/
theorem append_of_sums_row1 :
    ((S.append aSum bSum).sample o0 pEx).toOption.bind (·[1]?) =
      some (.cons (.prim "x" 1 0 (.ext 1 ["t"])) (.cons (.prim "y" 3 1 (.ext 0 ["t"])) (.ext 1 ["t"]))) := by
  decide +kernel


def sPrim : S := .prod (.append (.leaf .uniform (.prim "x" 1 ["t", "s"]) 2 false) (.leaf .lhs (.prim "y" 3 ["t"]) 2 true))
                       (.sum (.leaf .grid (.prim "s" 2 []) 1 false) (.data "s" 3 2))

/-- the hypotheses of `pairing_prim` are satisfiable: an append inside a product over a sum, two parameter rows;
    2 * (1 + 2) * 2 rows, all paired by the theorem -/
example : ∃ rows, sPrim.sample o0 pEx = .ok rows ∧ rows.length = 12 ∧ ∀ r ∈ rows, r.paired = true := by
  have hl : (sPrim.sample o0 pEx).toOption.map List.length = some 12 := by decide +kernel
  cases hsm : sPrim.sample o0 pEx with
  | error e => simp [hsm, Except.toOption] at hl
  | ok rows =>
    exact ⟨rows, rfl, by simpa [hsm, Except.toOption] using hl,
      pairing_prim o0 sPrim pEx rows (by decide +kernel) (by decide +kernel) (by decide +kernel) (by decide +kernel)
        (by simp [S.pos, sPrim]) (by decide +kernel) hsm⟩

/-
  Glue (not compiled here, this file imports `TPV.Props.C02` only; checked in a scratch copy that also imports
  `TPV.Props.C02Pairing`, whose `leafSample_paired` is the leaf case for every domain node):

  theorem rows_paired (o : Oracle) (s : S) (ps rows : List Row) (hB : Batch ps) (hps : ∀ ρ ∈ ps, ρ.paired = true)
      (hw : s.wf (paramVars ps) = true) (hp : s.pos) (hs : s.appendsSumFree = true) (h : s.sample o ps = .ok rows) :
      ∀ r ∈ rows, r.paired = true :=
    pairing_of_leaves o (fun k d n f ps rows _ hps _ hn h => leafSample_paired o k d n f ps rows hn hps h)
      s ps rows hB hps hw hp hs h
-/

end TPV.Sampler
