/-
  C04 — IntegroPINNCondition and AdaptiveWeightsCondition (model: TPV.Model.ConditionInt).
-/
import TPV.Model.ConditionInt
import TPV.Props.C04

namespace TPV.Cond
open TPV.CondExpr

section routing
variable {K : Type}

/-- the combined point has the variables of the sampled point, in the same order -/
theorem overwrite_keys (xc ic comb : Named K) (h : overwrite xc ic = .ok comb) :
    comb.map (·.1) = xc.map (·.1) := by
  unfold overwrite at h
  split at h
  · simp only [Except.ok.injEq] at h
    subst h
    rw [List.map_map]
    apply List.map_congr_left
    intro p _
    simp only [Function.comp]
    split <;> rfl
  · simp at h

theorem lookup_overwriteMap (ic : Named K) (v : String) : ∀ xc : Named K, (xc.map (·.1)).Nodup →
    (xc.map fun p => match ic.lookup p.1 with
      | some w => (p.1, w)
      | none => p).lookup v = match xc.lookup v with
      | none => none
      | some own => some ((ic.lookup v).getD own)
  | [], _ => rfl
  | (n, w) :: xc, hn => by
    simp only [List.map_cons, List.nodup_cons] at hn
    have ih := lookup_overwriteMap ic v xc hn.2
    by_cases hv : v = n
    · subst hv
      cases hic : ic.lookup v <;> simp [List.lookup, hic]
    · have hb : (v == n) = false := by simpa using hv
      cases hic : ic.lookup n <;> simp [List.lookup, hb, hic] <;> exact ih

/-- OVERWRITE BY NAME: in the point that is paired with an integral row every integral variable holds the
    integral row's block, every other variable the sampled point's own block -/
theorem overwrite_lookup (xc ic comb : Named K) (hn : (xc.map (·.1)).Nodup) (h : overwrite xc ic = .ok comb) (v : String) :
    comb.lookup v = match xc.lookup v with
      | none => none
      | some own => some ((ic.lookup v).getD own) := by
  unfold overwrite at h
  split at h
  · simp only [Except.ok.injEq] at h
    subst h
    exact lookup_overwriteMap ic v xc hn
  · simp at h

/-- the integral variables must be variables of the sampled points, with the same dimension -/
theorem overwrite_ok_iff (xc ic : Named K) :
    (∃ comb, overwrite xc ic = .ok comb) ↔
      ∀ p ∈ ic, ∃ own, xc.lookup p.1 = some own ∧ own.length = p.2.length := by
  constructor
  · rintro ⟨comb, h⟩
    unfold overwrite at h
    split at h
    · next hall =>
      intro p hp
      have := List.all_eq_true.mp hall p hp
      cases hx : xc.lookup p.1 with
      | none => simp [hx] at this
      | some own => exact ⟨own, rfl, by simpa [hx] using this⟩
    · simp at h
  · intro h
    cases ho : overwrite xc ic with
    | ok comb => exact ⟨comb, rfl⟩
    | error e =>
      exfalso
      unfold overwrite at ho
      split at ho
      · simp at ho
      · next hnot =>
        apply hnot
        apply List.all_eq_true.mpr
        intro p hp
        obtain ⟨own, hown, hl⟩ := h p hp
        simp [hown, hl]

theorem zipCat_keys : ∀ (d r : Named K), r.map (·.1) = d.map (·.1) →
    (List.zipWith (fun p q => (p.1, p.2 ++ q.2)) d r).map (·.1) = d.map (·.1)
  | [], _, _ => by simp
  | p :: d, [], h => by simp at h
  | p :: d, q :: r, h => by
    simp only [List.map_cons, List.cons.injEq] at h
    simp [List.zipWith, zipCat_keys d r h.2]

theorem zipCat_lookup (k : String) : ∀ (d r : Named K), r.map (·.1) = d.map (·.1) →
    (List.zipWith (fun p q => (p.1, p.2 ++ q.2)) d r).lookup k =
      match d.lookup k, r.lookup k with
      | some a, some b => some (a ++ b)
      | _, _ => none
  | [], _, _ => by simp
  | p :: d, [], h => by simp at h
  | (n, a) :: d, (qn, b) :: r, h => by
    simp only [List.map_cons, List.cons.injEq] at h
    obtain ⟨h1, h2⟩ := h
    subst h1
    by_cases hv : k = qn
    · subst hv; simp [List.zipWith, List.lookup]
    · have hb : (k == qn) = false := by simpa using hv
      simp only [List.zipWith, List.lookup, hb]
      exact zipCat_lookup k d r h2

theorem catBlocks_keys (keys : List String) : ∀ ds : List (Named K), (∀ d ∈ ds, d.map (·.1) = keys) →
    (catBlocks keys ds).map (·.1) = keys
  | [], _ => by simp [catBlocks, Function.comp_def]
  | d :: ds, h => by
    have ih := catBlocks_keys keys ds (fun e he => h e (List.mem_cons_of_mem _ he))
    have hd := h d (List.mem_cons_self ..)
    simp only [catBlocks]
    rw [zipCat_keys d _ (by rw [ih, hd]), hd]

theorem lookup_emptyBlocks (k : String) : ∀ keys : List String, k ∈ keys →
    (keys.map fun a => (a, ([] : List K))).lookup k = some []
  | [], h => by simp at h
  | a :: keys, h => by
    by_cases hv : k = a
    · subst hv; simp [List.lookup]
    · have hb : (k == a) = false := by simpa using hv
      have hm : k ∈ keys := by
        rcases List.mem_cons.mp h with e | e
        · exact absurd e hv
        · exact e
      simp [List.lookup, hb, lookup_emptyBlocks k keys hm]

/-- `<name>_integral` is the concatenation, over the integral rows in order, of the block stored under `name`
    (the (m, d) table reshaped to one vector of length m·d) -/
theorem catBlocks_lookup (keys : List String) (k : String) (hm : k ∈ keys) :
    ∀ ds : List (Named K), (∀ d ∈ ds, d.map (·.1) = keys) →
      ∃ blocks, List.Forall₂ (fun d b => d.lookup k = some b) ds blocks ∧
        (catBlocks keys ds).lookup k = some blocks.flatten
  | [], _ => ⟨[], .nil, by simp [catBlocks, lookup_emptyBlocks k keys hm]⟩
  | d :: ds, h => by
    obtain ⟨blocks, hb, hl⟩ := catBlocks_lookup keys k hm ds (fun e he => h e (List.mem_cons_of_mem _ he))
    have hkeys := catBlocks_keys keys ds (fun e he => h e (List.mem_cons_of_mem _ he))
    have hd := h d (List.mem_cons_self ..)
    obtain ⟨b, hb0⟩ := lookup_isSome_of_mem_keys d k (hd ▸ hm)
    refine ⟨b :: blocks, .cons hb0 hb, ?_⟩
    simp only [catBlocks]
    rw [zipCat_lookup k d _ (by rw [hkeys, hd]), hb0, hl]
    simp

end routing

set_option linter.unusedSectionVars false
section field
variable {K : Type} [Field K] [LinearOrder K] [IsStrictOrderedRing K]

/-- explicit form of the dict `IntegroPINNCondition.forward` hands to the residual for ONE sampled point:
    the usual row arguments, plus `<output>_integral` = the model outputs at this point paired with every
    integral row (integral variables overwritten), plus `<variable>_integral` = the integral rows themselves -/
theorem intRowArgs_ok (c : IntCond K) (space ispace : SpaceL) (n i : Nat) (row : List K) (irows : List (List K))
    (a : Named K) (h : intRowArgs c space ispace n i row irows = .ok a) :
    ∃ data y ders yint,
      evalDataFns n i (splitRow space row) c.dataFns = .ok data ∧
      c.net.apply (splitRow space row) = .ok (y, ders) ∧
      List.Forall₂ (fun ir yj => intOut c.net ispace (splitRow space row) ir = .ok yj) irows yint ∧
      a = data ++ (c.params ++ (suffix "_integral" (catBlocks (names ispace) (irows.map (splitRow ispace))) ++
            (splitRow space row ++ (suffix "_integral" (catBlocks (names c.net.outSpace) yint) ++ y)))) ++ ders := by
  unfold intRowArgs at h
  simp only [bind, Except.bind, merge] at h
  cases hd : evalDataFns n i (splitRow space row) c.dataFns with
  | error e => simp [hd] at h
  | ok data =>
    cases hy : c.net.apply (splitRow space row) with
    | error e => simp [hd, hy] at h
    | ok yd =>
      obtain ⟨y, ders⟩ := yd
      cases hi : irows.mapM (intOut c.net ispace (splitRow space row)) with
      | error e => simp [hd, hy, hi] at h
      | ok yint =>
        simp only [hd, hy, hi, pure, Except.pure, Except.ok.injEq] at h
        exact ⟨data, y, ders, yint, rfl, rfl, mapM_ok_forall₂ _ _ hi, by simpa using h.symm⟩

/-- every entry of `yint` is the model evaluated on the sampled point with the integral variables replaced -/
theorem intOut_spec (m : Net K) (ispace : SpaceL) (xc : Named K) (ir : List K) (yj : Named K)
    (h : intOut m ispace xc ir = .ok yj) :
    ∃ comb ders, overwrite xc (splitRow ispace ir) = .ok comb ∧ m.apply comb = .ok (yj, ders) := by
  unfold intOut at h
  simp only [bind, Except.bind] at h
  cases ho : overwrite xc (splitRow ispace ir) with
  | error e => simp [ho] at h
  | ok comb =>
    cases hm : m.apply comb with
    | error e => simp [ho, hm] at h
    | ok yd =>
      simp only [ho, hm, pure, Except.pure, Except.ok.injEq] at h
      exact ⟨comb, yd.2, rfl, by rw [hm, ← h]⟩

theorem intResiduals_length (c : IntCond K) (space ispace : SpaceL) (rows irows rs : List (List K))
    (h : intResiduals c space ispace rows irows = .ok rs) : rs.length = rows.length := by
  have := (mapM_ok_forall₂ _ _ h).length_eq
  simpa using this.symm

/-- INTEGRO LOSS: the mean over the sampled points of the squared residual summed over its components, one
    term per sampled point, where the residual of point i is the user's function on `intRowArgs` (see
    `intRowArgs_ok`: `_integral` sets = the integral rows paired with THIS point) -/
theorem integro_loss_spec (c : IntCond K) (space ispace : SpaceL) (rows irows rs : List (List K))
    (he : c.err = .sq) (hr : c.red = .mean) (hne : rows ≠ [])
    (hres : intResiduals c space ispace rows irows = .ok rs) :
    intLoss c space ispace rows irows = .ok ((rs.map fun r => (r.map fun v => v * v).sum).sum / (rows.length : K)) ∧
      rs.length = rows.length ∧
      List.Forall₂ (fun ri r => ∃ a, intRowArgs c space ispace rows.length ri.2 ri.1 irows = .ok a ∧ c.resid.call a = .ok r)
        rows.zipIdx rs := by
  have hl := intResiduals_length c space ispace rows irows rs hres
  refine ⟨?_, hl, ?_⟩
  · have hne' : (rs.map (sqErr (K := K))).isEmpty = false := by
      cases rs with
      | nil => simp at hl; exact absurd (List.length_eq_zero_iff.mp hl.symm) hne
      | cons a r => simp
    have hs : (sqErr : List K → K) = fun r => (r.map fun v => v * v).sum := by
      funext r; rw [sqErr, sumK_eq_sum]
    simp only [intLoss, hres, he, hr, bind, Except.bind, applyErr, applyRed, hne', Bool.false_eq_true, if_false]
    simp only [sumK_eq_sum, List.length_map, hl, hs]
  · have := mapM_ok_forall₂ _ _ hres
    refine this.imp ?_
    intro ri r hri
    simp only [bind, Except.bind] at hri
    cases ha : intRowArgs c space ispace rows.length ri.2 ri.1 irows with
    | error e => simp [ha] at hri
    | ok a => exact ⟨a, rfl, by simpa [ha] using hri⟩

/-- ADAPTIVE WEIGHTS: the loss is the mean over the sampled points of (weight of the point) × (error of the
    point); one weight per point -/
theorem adaptive_loss_spec (c : SMCond K) (weights : List K) (space : SpaceL) (rows rs : List (List K))
    (he : c.err = .sq) (hres : residuals c space rows = .ok rs) (hw : weights.length = rows.length) (hne : rows ≠ []) :
    awLoss c weights space rows =
      .ok ((List.zipWith (fun w r => w * (r.map fun v => v * v).sum) weights rs).sum / (rows.length : K)) := by
  have hl := residuals_length c space rows rs hres
  have hs : (sqErr : List K → K) = fun r => (r.map fun v => v * v).sum := by
    funext r; rw [sqErr, sumK_eq_sum]
  have hz : List.zipWith (fun x1 x2 => x1 * x2) weights (rs.map sqErr) =
      List.zipWith (fun w r => w * (r.map fun v => v * v).sum) weights rs := by
    rw [List.zipWith_map_right, hs]
  have hlen : (List.zipWith (fun x1 x2 => x1 * x2) weights (rs.map (sqErr (K := K)))).length = rows.length := by
    simp [List.length_zipWith, hl, hw]
  have hne' : (List.zipWith (fun x1 x2 => x1 * x2) weights (rs.map (sqErr (K := K)))).isEmpty = false := by
    cases hz' : List.zipWith (fun x1 x2 => x1 * x2) weights (rs.map (sqErr (K := K))) with
    | nil => rw [hz'] at hlen; simp at hlen; exact absurd (List.length_eq_zero_iff.mp hlen.symm) hne
    | cons a r => rfl
  rw [hz] at hne' hlen
  simp only [awLoss, hres, he, bind, Except.bind, applyErr, List.length_map, hl, hw, if_true, applyRed,
    sumK_eq_sum, hz, hne', Bool.false_eq_true, if_false, hlen]

/-- with the initial weights (all 1) the adaptive loss IS the PINN loss -/
theorem adaptive_ones_eq_pinn (c : SMCond K) (space : SpaceL) (rows rs : List (List K))
    (he : c.err = .sq) (hr : c.red = .mean) (hres : residuals c space rows = .ok rs) (hne : rows ≠ []) :
    awLoss c (List.replicate rows.length 1) space rows = smLoss c space rows := by
  have hl := residuals_length c space rows rs hres
  rw [adaptive_loss_spec c _ space rows rs he hres (by simp) hne, (pinn_loss_spec c space rows rs he hr hne hres).1]
  congr 2
  rw [← hl]
  clear hres hl
  induction rs with
  | nil => rfl
  | cons r rs ih => simp [List.replicate_succ, List.zipWith, ih]

end field

/-! ## non-vacuity -/
section examples

/-- u = x·t, points (x, t), integral over t ∈ {1, 2}: residual u − (u_integral₀ + u_integral₁) -/
def exInt : IntCond Rat :=
  { net := peNet [("x", 1), ("t", 1)] [("u", 1)] [.mul (.var "x" 0) (.var "t" 0)],
    resid := peUFun ["u", "u_integral", "t_integral"] []
      [.sub (.var "u" 0) (.add (.var "u_integral" 0) (.var "u_integral" 1))],
    dataFns := [], params := [], err := .sq, red := .mean }

example : (intRowArgs exInt [("x", 1), ("t", 1)] [("t", 1)] 2 0 [1/2, 0] [[1], [2]]).map
    (fun a => (a.lookup "u", a.lookup "u_integral", a.lookup "t_integral", a.lookup "t")) =
    .ok (some [0], some [1/2, 1], some [1, 2], some [0]) := by decide +kernel
example : intResiduals exInt [("x", 1), ("t", 1)] [("t", 1)] [[1/2, 0], [3, 1]] [[1], [2]] = .ok [[-3/2], [-6]] := by
  decide +kernel
example : intLoss exInt [("x", 1), ("t", 1)] [("t", 1)] [[1/2, 0], [3, 1]] [[1], [2]] = .ok (153/8) := by decide +kernel
example : overwrite [("x", [(3 : Rat)]), ("t", [1])] [("t", [2])] = .ok [("x", [3]), ("t", [2])] := by decide +kernel
-- an integral variable the points do not have is rejected
example : overwrite [("x", [(3 : Rat)])] [("t", [2])] = .error .space := by decide +kernel
-- adaptive weights 1/2 and 2 on residuals 5/2 and −3 (exCond of C04): (1/2·25/4 + 2·9)/2
example : awLoss exCond [1/2, 2] exSpace exRows = .ok (169/16) := by decide +kernel
example : awLoss exCond [1, 1] exSpace exRows = smLoss exCond exSpace exRows := by decide +kernel

end examples

end TPV.Cond
