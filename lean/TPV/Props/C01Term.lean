/-
  C01, part 4 — "the sampling call terminates": the rejection loops return as soon as one round is good
  (deterministic, unbounded fuel), and under i.i.d. rounds with positive acceptance probability the set of outcomes
  on which a loop never returns has probability zero (product formula of cylinder events: C11's
  `joint_infinitePi_seqEvent`).
-/
import TPV.Props.C01Sel
import TPV.Props.C11Joint

namespace TPV.Geom
open MeasureTheory Set
set_option linter.unusedSectionVars false

section det
variable {α : Type}

theorem nat_le_floor_toNat (n : Nat) (req : Rat) (h : (n : Rat) ≤ req) : n ≤ req.floor.toNat := by
  have : (n : Int) ≤ req.floor := by
    rw [Rat.le_floor_iff]; exact_mod_cast h
  omega

theorem nextReq_ge (n : Nat) (req : Rat) (v : Nat) (hreq : (n : Rat) ≤ req) (hv : v < n) : (n : Rat) ≤ nextReq req v := by
  have hn0 : (0 : Rat) ≤ (n : Rat) := by exact_mod_cast Nat.zero_le n
  unfold nextReq
  split
  · linarith
  · rename_i hv0
    have hvpos : (0 : Rat) < (v : Rat) := by exact_mod_cast Nat.pos_of_ne_zero hv0
    have hvle : (v : Rat) ≤ req := le_trans (by exact_mod_cast hv.le) hreq
    have : req ≤ req * req / (v : Rat) := by
      rw [le_div_iff₀ hvpos]
      exact mul_le_mul_of_nonneg_left hvle (le_trans hn0 hreq)
    linarith

/-- **progress, unbounded form**: `_random_points_inside` returns as soon as some round delivers at least `n`
    accepted proposals (whatever the coded request-size schedule asked for — the requests never drop below `n`) -/
theorem insideRow_returns (n : Nat) (prop : Nat → Nat → List α) (ok : α → Bool) (good : Nat → Prop)
    (hgood : ∀ r, good r → ∀ m, n ≤ m → n ≤ ((prop r m).filter ok).length) :
    ∀ (fuel rd : Nat) (req : Rat) (reqs : List Nat), (n : Rat) ≤ req → (∃ j, j < fuel ∧ good (rd + j)) →
      (insideRow n prop ok fuel rd req reqs).isSome = true := by
  intro fuel
  induction fuel with
  | zero => intro rd req reqs _ h; obtain ⟨j, hj, _⟩ := h; omega
  | succ f ih =>
    intro rd req reqs hreq h
    simp only [insideRow]
    split
    · rfl
    · rename_i hlt
      obtain ⟨j, hj, hg⟩ := h
      have hm := nat_le_floor_toNat n req hreq
      rcases Nat.eq_zero_or_pos j with rfl | hjpos
      · exact absurd (hgood rd (by simpa using hg) _ hm) hlt
      · refine ih (rd + 1) _ _ (nextReq_ge n req _ hreq (by omega)) ⟨j - 1, by omega, ?_⟩
        have : rd + 1 + (j - 1) = rd + j := by omega
        rw [this]; exact hg

theorem accLoop_done (n : Nat) (prop : Nat → List α) (ok : α → Bool) (giveUp : Nat → Nat → Bool) (fuel rd : Nat) (acc : List α)
    (h : n ≤ acc.length) : (accLoop n prop ok giveUp fuel rd acc).isSome = true := by
  unfold accLoop; simp [h]

/-- the accumulate loop (boundary / Gaussian samplers; no give-up rule) returns as soon as the accepted proposals of
    the rounds so far add up to `n` -/
theorem accLoop_returns (n : Nat) (prop : Nat → List α) (ok : α → Bool) :
    ∀ (fuel rd : Nat) (acc : List α), (∃ j, j < fuel ∧ n ≤ acc.length + ((prop (rd + j)).filter ok).length) →
      (accLoop n prop ok (fun _ _ => false) fuel rd acc).isSome = true := by
  intro fuel
  induction fuel with
  | zero => intro rd acc h; obtain ⟨j, hj, _⟩ := h; omega
  | succ f ih =>
    intro rd acc h
    unfold accLoop
    split
    · rfl
    · simp only [Bool.false_eq_true, if_false]
      obtain ⟨j, hj, hg⟩ := h
      rcases Nat.eq_zero_or_pos j with rfl | hjpos
      · exact accLoop_done n prop ok _ f (rd + 1) _ (by simpa [List.length_append] using hg)
      · refine ih (rd + 1) _ ⟨j - 1, by omega, ?_⟩
        have : rd + 1 + (j - 1) = rd + j := by omega
        rw [this, List.length_append]; omega

theorem n1Loop_done (prop : Nat → List α) (ok : α → Bool) (fuel rd : Nat) (final : List (Option α))
    (h : final.all Option.isSome = true) : (n1Loop prop ok fuel rd final).isSome = true := by
  unfold n1Loop; simp [h]

/-- the `n = 1` loop returns as soon as one round delivers a valid proposal for every parameter row -/
theorem n1Loop_returns (prop : Nat → List α) (ok : α → Bool) (k : Nat) (hlen : ∀ rd, (prop rd).length = k) :
    ∀ (fuel rd : Nat) (final : List (Option α)), final.length = k →
      (∃ j, j < fuel ∧ ∀ p ∈ prop (rd + j), ok p = true) → (n1Loop prop ok fuel rd final).isSome = true := by
  intro fuel
  induction fuel with
  | zero => intro rd final _ h; obtain ⟨j, hj, _⟩ := h; omega
  | succ f ih =>
    intro rd final hf h
    unfold n1Loop
    split
    · rfl
    · simp only [hlen, hf, if_true]
      obtain ⟨j, hj, hg⟩ := h
      rcases Nat.eq_zero_or_pos j with rfl | hjpos
      · apply n1Loop_done
        rw [List.all_eq_true]
        intro o ho
        rw [List.mem_map] at ho
        obtain ⟨⟨old, q⟩, hz, rfl⟩ := ho
        have := hg q (by simpa using (List.of_mem_zip hz).2)
        simp [this]
      · refine ih (rd + 1) _ (by simp [List.length_zip, hlen, hf]) ⟨j - 1, by omega, ?_⟩
        have : rd + 1 + (j - 1) = rd + j := by omega
        rw [this]; exact hg

end det

/-! ### almost-sure termination under i.i.d. rounds -/

section prob
variable {R : Type*} [MeasurableSpace R]

theorem seqEvent_replicate_compl {G : Set R} (m : ℕ) :
    {x : ℕ → R | ∀ r, x r ∉ G} ⊆ seqEvent (List.replicate m Gᶜ) := by
  intro x hx j
  have : (List.replicate m Gᶜ).get j = Gᶜ := by simp
  rw [this]; exact hx j

/-- **i.i.d. rounds with a positive success probability**: the set of round sequences in which *no* round is good
    has probability zero (it lies in the cylinder "the first m rounds are bad" of probability `(1 − ρ G)^m` for
    every m — the product formula is C11's `joint_infinitePi_seqEvent`). -/
theorem no_good_round_null (ρ : Measure R) [IsProbabilityMeasure ρ] {G : Set R} (hG : MeasurableSet G) (h0 : ρ G ≠ 0) :
    Measure.infinitePi (fun _ : ℕ => ρ) {x : ℕ → R | ∀ r, x r ∉ G} = 0 := by
  have hc : ρ Gᶜ < 1 := by
    rw [prob_compl_eq_one_sub hG]
    exact ENNReal.sub_lt_self ENNReal.one_ne_top one_ne_zero h0
  have hb : ∀ m : ℕ, Measure.infinitePi (fun _ : ℕ => ρ) {x : ℕ → R | ∀ r, x r ∉ G} ≤ (ρ Gᶜ) ^ m := by
    intro m
    refine le_trans (measure_mono (seqEvent_replicate_compl m)) ?_
    rw [joint_infinitePi_seqEvent ρ (by intro A hA; rw [List.eq_of_mem_replicate hA]; exact hG.compl)]
    simp [List.map_replicate, List.prod_replicate]
  have hlim := ENNReal.tendsto_pow_atTop_nhds_zero_of_lt_one hc
  exact le_antisymm (ge_of_tendsto' hlim hb) bot_le

end prob

section inst
variable {α : Type} [MeasurableSpace α]

/-- a round (an i.i.d. stream of fresh proposals) whose first `n` proposals are all accepted -/
def goodRound (ok : α → Bool) (n : ℕ) : Set (ℕ → α) := seqEvent (List.replicate n {a | ok a = true})

theorem goodRound_measurable (ok : α → Bool) (hD : MeasurableSet {a | ok a = true}) (n : ℕ) :
    MeasurableSet (goodRound ok n) :=
  joint_seqEvent_measurable (by intro A hA; rw [List.eq_of_mem_replicate hA]; exact hD)

theorem goodRound_prob (ν : Measure α) [IsProbabilityMeasure ν] (ok : α → Bool) (hD : MeasurableSet {a | ok a = true}) (n : ℕ) :
    Measure.infinitePi (fun _ : ℕ => ν) (goodRound ok n) = (ν {a | ok a = true}) ^ n := by
  unfold goodRound
  rw [joint_infinitePi_seqEvent ν (by intro A hA; rw [List.eq_of_mem_replicate hA]; exact hD)]
  simp [List.map_replicate, List.prod_replicate]

theorem goodRound_filter (ok : α → Bool) (n : ℕ) (s : ℕ → α) (hs : s ∈ goodRound ok n) (m : ℕ) (hm : n ≤ m) :
    n ≤ (((List.range m).map s).filter ok).length := by
  have hall : ∀ a ∈ (List.range n).map s, ok a = true := by
    intro a ha
    rw [List.mem_map] at ha
    obtain ⟨i, hi, rfl⟩ := ha
    have hi' : i < (List.replicate n {a : α | ok a = true}).length := by simpa using List.mem_range.1 hi
    have := hs ⟨i, hi'⟩
    simpa using this
  have hsub : List.Sublist (((List.range n).map s).filter ok) (((List.range m).map s).filter ok) :=
    ((List.range_sublist.2 hm).map s).filter ok
  have := hsub.length_le
  rw [List.filter_eq_self.2 hall] at this
  simpa using this

/-- **`_random_points_inside` terminates almost surely.**  Every round draws fresh i.i.d. proposals with law `ν`
    (as many as the coded schedule requests); if the acceptance set has positive probability, the set of outcomes on
    which the loop never returns — for no amount of fuel — has probability zero. -/
theorem insideRow_terminates_ae (ν : Measure α) [IsProbabilityMeasure ν] (ok : α → Bool)
    (hD : MeasurableSet {a | ok a = true}) (h0 : ν {a | ok a = true} ≠ 0) (n : ℕ) :
    Measure.infinitePi (fun _ : ℕ => Measure.infinitePi (fun _ : ℕ => ν))
      {x : ℕ → ℕ → α | ∀ fuel, insideRow n (fun rd m => (List.range m).map (x rd)) ok fuel 0 (n : Rat) [] = none} = 0 := by
  refine measure_mono_null ?_ (no_good_round_null (Measure.infinitePi (fun _ : ℕ => ν)) (goodRound_measurable ok hD n)
    (by rw [goodRound_prob ν ok hD n]; exact pow_ne_zero n h0))
  intro x hx r hr
  have := insideRow_returns n (fun rd m => (List.range m).map (x rd)) ok (fun r => x r ∈ goodRound ok n)
    (fun r hg m hm => goodRound_filter ok n (x r) hg m hm) (r + 1) 0 (n : Rat) [] le_rfl ⟨r, by omega, by simpa using hr⟩
  rw [hx (r + 1)] at this
  simp at this

/-- **the accumulate loop (Gaussian sampler, Boolean boundaries) terminates almost surely**: rounds of `b ≥ n` fresh
    i.i.d. proposals, positive acceptance probability -/
theorem accLoop_terminates_ae (ν : Measure α) [IsProbabilityMeasure ν] (ok : α → Bool)
    (hD : MeasurableSet {a | ok a = true}) (h0 : ν {a | ok a = true} ≠ 0) (n b : ℕ) (hb : n ≤ b) :
    Measure.infinitePi (fun _ : ℕ => Measure.infinitePi (fun _ : ℕ => ν))
      {x : ℕ → ℕ → α | ∀ fuel, accLoop n (fun rd => (List.range b).map (x rd)) ok (fun _ _ => false) fuel 0 [] = none} = 0 := by
  refine measure_mono_null ?_ (no_good_round_null (Measure.infinitePi (fun _ : ℕ => ν)) (goodRound_measurable ok hD n)
    (by rw [goodRound_prob ν ok hD n]; exact pow_ne_zero n h0))
  intro x hx r hr
  have := accLoop_returns n (fun rd => (List.range b).map (x rd)) ok (r + 1) 0 []
    ⟨r, by omega, by simpa using goodRound_filter ok n (x r) hr b hb⟩
  rw [hx (r + 1)] at this
  simp at this

/-- **the `n = 1` rejection loop (`_random_points_if_n_eq_1`) terminates almost surely**: every round draws one
    fresh proposal per parameter row (row `i` with its own law `ν i`), every row has positive acceptance probability -/
theorem n1Loop_terminates_ae (k : ℕ) (ν : Fin k → Measure α) [∀ i, IsProbabilityMeasure (ν i)] (ok : α → Bool)
    (hD : MeasurableSet {a | ok a = true}) (h0 : ∀ i, ν i {a | ok a = true} ≠ 0) :
    Measure.infinitePi (fun _ : ℕ => Measure.pi ν)
      {x : ℕ → Fin k → α | ∀ fuel, n1Loop (fun rd => List.ofFn (x rd)) ok fuel 0 (List.replicate k none) = none} = 0 := by
  have hG : MeasurableSet (Set.pi Set.univ (fun _ : Fin k => {a : α | ok a = true})) :=
    MeasurableSet.univ_pi (fun _ => hD)
  refine measure_mono_null ?_ (no_good_round_null (Measure.pi ν) hG
    (by rw [Measure.pi_pi]; exact Finset.prod_ne_zero_iff.2 (fun i _ => h0 i)))
  intro x hx r hr
  have := n1Loop_returns (fun rd => List.ofFn (x rd)) ok k (fun rd => by simp) (r + 1) 0 (List.replicate k none) (by simp)
    ⟨r, by omega, by
      intro p hp
      simp only [Nat.zero_add, List.mem_ofFn] at hp
      obtain ⟨i, rfl⟩ := hp
      exact hr i (Set.mem_univ i)⟩
  rw [hx (r + 1)] at this
  simp at this

end inst

/-- non-vacuity: proposals uniform on [0,1] (C11's `jointExNu`), accepted on [0, 1/2], n = 3 -/
example : Measure.infinitePi (fun _ : ℕ => Measure.infinitePi (fun _ : ℕ => jointExNu))
    {x : ℕ → ℕ → ℝ | ∀ fuel, insideRow 3 (fun rd m => (List.range m).map (x rd))
      (fun a => @decide (a ∈ Icc (0:ℝ) (1/2)) (Classical.propDecidable _)) fuel 0 (3 : Rat) [] = none} = 0 := by
  have e : {a : ℝ | (@decide (a ∈ Icc (0:ℝ) (1/2)) (Classical.propDecidable _)) = true} = Icc (0:ℝ) (1/2) := by
    ext a; simp
  exact insideRow_terminates_ae jointExNu _ (by rw [e]; exact measurableSet_Icc) (by rw [e]; exact joint_exNu_half_ne_zero) 3

end TPV.Geom
