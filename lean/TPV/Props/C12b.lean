import TPV.Props.C12
import Mathlib.Data.List.Nodup
namespace TPV.Table
variable {α : Type}

/-! ## flat indices of full selections -/

theorem range_mul (s P : Nat) :
    (List.range s).flatMap (fun i => (List.range P).map fun j => i * P + j) = List.range (s * P) := by
  induction s with
  | zero => simp
  | succ s ih =>
    rw [List.range_succ, List.flatMap_append, ih, Nat.succ_mul, List.range_add]
    simp

def fullSel (s : Nat) : AxSel := ⟨s, List.range s, true⟩

/-- **the flat index list of a full selection is `0 ..< prod shape`** -/
theorem flatIdx_full (shape : List Nat) : flatIdx (shape.map fullSel) = List.range (prodL shape) := by
  induction shape with
  | nil => rfl
  | cons s rest ih =>
    simp only [List.map_cons, flatIdx, ih, List.map_map]
    have : rest.map ((fun x : AxSel => x.size) ∘ fullSel) = rest := by
      simp [Function.comp_def, fullSel]
    rw [this]
    exact range_mul s (prodL rest)

theorem flatIdx_length (l : List AxSel) : (flatIdx l).length = prodL (l.map (·.idxs.length)) := by
  induction l with
  | nil => rfl
  | cons a rest ih =>
    simp only [flatIdx, List.map_cons, prodL, List.length_flatMap, List.length_map, ih]
    generalize prodL (rest.map (·.idxs.length)) = P
    induction a.idxs with
    | nil => simp
    | cons i is ih2 => simp only [List.map_cons, List.sum_cons, ih2, List.length_cons]; rw [Nat.succ_mul]; omega

theorem gather_range {β : Type} (d : List β) : gather d (List.range d.length) = some d := by
  have := gather_shift d 0 d.length (by omega)
  simpa using this

theorem mapM_some {β : Type} (l : List β) : l.mapM (fun r => (some r : Option β)) = some l := by
  induction l with
  | nil => rfl
  | cons a r ih => simp [List.mapM_cons, ih]

theorem pySlice_full (s : Nat) : pySlice s none none 1 = List.range s := by
  simp [pySlice, clampPos]

theorem axisSel_full (s : Nat) : axisSel s fullSlice = .ok (fullSel s) := by
  simp [axisSel, fullSlice, fullSel, pySlice_full, bind, Except.bind, pure, Except.pure]

theorem selsOf_full (shape : List Nat) :
    selsOf shape (List.replicate shape.length fullSlice) = .ok (shape.map fullSel) := by
  induction shape with
  | nil => rfl
  | cons s rest ih =>
    simp only [List.length_cons, List.replicate_succ, selsOf, bind, Except.bind, ih, axisSel_full,
      pure, Except.pure, List.map_cons]

theorem keptShape_full (shape : List Nat) : keptShape (shape.map fullSel) = shape := by
  induction shape with
  | nil => rfl
  | cons s rest ih =>
    simp only [keptShape, List.map_cons, fullSel, List.filter_cons] at ih ⊢
    simp [ih]

/-- **`p[...]` is `p`** for every well-formed table -/
theorem getitem_all (p : Points α) (h : p.WF) : p.getitem (.one .ell) = .ok p := by
  obtain ⟨hs, hl, _⟩ := h
  have hsel : p.select (.one .ell) = .ok ⟨p.shape.map fullSel, p.space.vars, none⟩ := by
    simp only [Points.select, splitIndex, keyPart, bind, Except.bind, pure, Except.pure]
    simp only [List.filter_cons, Item.isAdvanced, ne_eq, not_true_eq_false, decide_false,
      List.filter_nil, List.length_nil, Bool.false_eq_true, if_false, Nat.not_lt_zero]
    have h0 : ¬ (True ∧ 0 = p.shape.length + 1) := by omega
    simp only [Option.isNone_none, h0, if_false]
    have he : expandItems p.shape.length [Item.ell] = .ok (List.replicate p.shape.length fullSlice) := by
      simp [expandItems]
      rfl
    simp only [he, selsOf_full]
  have hp : pickCols (α := α) none = fun r => some r := by funext r; rfl
  simp only [Points.getitem, bind, Except.bind, hsel, flatIdx_full, ← hl, gather_range, hp,
    mapM_some, keptShape_full, hs, if_false, pure, Except.pure]


/-! ## boolean masks and repeat -/

theorem flatIdx_single (a : AxSel) : flatIdx [a] = a.idxs := by
  simp [flatIdx, prodL]

theorem gather_cons_succ {β : Type} (a : β) (d : List β) (is : List Nat) :
    gather (a :: d) (is.map Nat.succ) = gather d is := by
  induction is with
  | nil => rfl
  | cons i r ih => simp [gather, ih]

theorem gather_mask {β : Type} (d : List β) (bs : List Bool) (h : bs.length = d.length) :
    gather d ((List.range d.length).filter fun i => bs[i]? == some true) = some (maskRows d bs) := by
  induction d generalizing bs with
  | nil => cases bs <;> simp [gather, maskRows]
  | cons a r ih =>
    cases bs with
    | nil => simp at h
    | cons b bs =>
      have h' : bs.length = r.length := by simpa using h
      have := ih bs h'
      rw [List.length_cons, List.range_succ_eq_map, List.filter_cons, List.filter_map]
      have hf : ((fun i => (b :: bs)[i]? == some true) ∘ Nat.succ) = fun i => bs[i]? == some true := by
        funext i; simp
      rw [hf]
      cases b
      · simp [maskRows, gather_cons_succ, this]
      · simp [maskRows, gather, gather_cons_succ, this]

/-- **boolean masking** (one batch axis): exactly the rows whose mask entry is true, in order, in the
    unchanged space -/
theorem mask_spec (p : Points α) (bs : List Bool) (h : p.WF) (hsh : p.shape = [bs.length]) :
    p.getitem (.one (.mask bs)) = .ok ⟨p.space, [(maskRows p.data bs).length], maskRows p.data bs⟩ := by
  obtain ⟨_, hl, _⟩ := h
  have hl' : p.data.length = bs.length := by rw [hl, hsh]; simp [prodL]
  have hsel : p.select (.one (.mask bs)) =
      .ok ⟨[⟨bs.length, (List.range bs.length).filter (fun i => bs[i]? == some true), true⟩], p.space.vars, none⟩ := by
    have hadv : (List.filter Item.isAdvanced [Item.mask bs]).length = 1 := rfl
    simp only [Points.select, splitIndex, keyPart, bind, Except.bind, pure, Except.pure, hsh]
    simp [expandItems, hadv, selsOf, axisSel, bind, Except.bind, pure, Except.pure]
  have hp : pickCols (α := α) none = fun r => some r := by funext r; rfl
  have hg := gather_mask p.data bs hl'.symm
  rw [hl'] at hg
  have hlen := gather_length hg
  simp only [Points.getitem, bind, Except.bind, hsel, flatIdx_single, hg, hp, mapM_some, keptShape,
    List.filter_cons, List.filter_nil, if_true, List.map_cons, List.map_nil, pure, Except.pure]
  simp [hlen]

theorem gather_replicate {β : Type} (d : List β) (m : Nat) :
    gather d (List.replicate m (List.range d.length)).flatten = some (List.replicate m d).flatten := by
  induction m with
  | zero => rfl
  | succ m ih =>
    simp only [List.replicate_succ, List.flatten_cons]
    exact gather_append d _ _ _ _ (gather_range d) ih

theorem flatMap_flatten' {β γ : Type} (l : List (List β)) (f : β → List γ) :
    l.flatten.flatMap f = (l.map (·.flatMap f)).flatten := by
  induction l with
  | nil => rfl
  | cons a r ih => simp [List.flatMap_append, ih]

theorem rep_snoc (n : Nat) : List.replicate n 1 ++ [1] = 1 :: List.replicate n 1 := by
  induction n with
  | zero => rfl
  | succ n ih => simp [List.replicate_succ, ih]

theorem zip_ones (rest : List Nat) :
    (rest.zip (List.replicate rest.length 1)).map
      (fun (x : Nat × Nat) => (⟨x.1, (List.replicate x.2 (List.range x.1)).flatten, true⟩ : AxSel))
      = rest.map fullSel := by
  induction rest with
  | nil => rfl
  | cons r rs ih => simp [List.replicate_succ, ih, fullSel]

/-- **`p.repeat(m)`**: `m` copies of all rows, block after block; space unchanged, first batch axis
    multiplied by `m` -/
theorem repeat_spec (p q : Points α) (m : Nat) (h : p.WF) (hq : p.repeat [(m : Int)] = .ok q) :
    q.space = p.space ∧ q.data = (List.replicate m p.data).flatten ∧
      ∃ s0 rest, p.shape = s0 :: rest ∧ q.shape = (m * s0) :: rest := by
  obtain ⟨hs, hl, _⟩ := h
  obtain ⟨s0, rest, hsh⟩ := List.exists_cons_of_ne_nil hs
  have hrev : (m :: List.replicate (rest.length + 1) 1).reverse = 1 :: (List.replicate rest.length 1 ++ [m]) := by
    rw [List.reverse_cons, List.reverse_replicate, List.replicate_succ, List.cons_append]
  have hsels : ((s0 :: rest).zip (m :: List.replicate rest.length 1)).map
      (fun (x : Nat × Nat) => (⟨x.1, (List.replicate x.2 (List.range x.1)).flatten, true⟩ : AxSel))
      = ⟨s0, (List.replicate m (List.range s0)).flatten, true⟩ :: rest.map fullSel := by
    simp only [List.zip_cons_cons, List.map_cons]
    congr 1
    exact zip_ones rest
  have hflat : flatIdx (⟨s0, (List.replicate m (List.range s0)).flatten, true⟩ :: rest.map fullSel)
      = (List.replicate m (List.range (s0 * prodL rest))).flatten := by
    simp only [flatIdx, flatIdx_full, List.map_map]
    have : rest.map ((fun x : AxSel => x.size) ∘ fullSel) = rest := by simp [Function.comp_def, fullSel]
    rw [this, flatMap_flatten', List.map_replicate, range_mul]
  have hkept : keptShape (⟨s0, (List.replicate m (List.range s0)).flatten, true⟩ :: rest.map fullSel)
      = (m * s0) :: rest := by
    have := keptShape_full rest
    simp only [keptShape] at this ⊢
    simp [this]
  have hlen : p.data.length = s0 * prodL rest := by rw [hl, hsh]; rfl
  have hcore : p.repeat [(m : Int)] = p.repeatCore (s0 :: rest) (m :: List.replicate (rest.length + 1) 1) := by
    have hneg : ¬ ((m : Int) < 0) := by omega
    simp [Points.repeat, hsh, hneg]
  rw [hcore] at hq
  simp only [Points.repeatCore, hrev, Nat.one_mul, ne_eq, not_true_eq_false, if_false, List.reverse_cons,
    List.reverse_append, List.reverse_replicate, List.reverse_nil, List.nil_append, List.cons_append,
    pure, Except.pure] at hq
  rw [hsels, hflat, ← hlen, gather_replicate] at hq
  simp only [Except.ok.injEq] at hq
  subst hq
  exact ⟨rfl, rfl, s0, rest, hsh, hkept⟩

example : (Points.repeat (⟨⟨[("x", 1)]⟩, [2], [[0], [1]]⟩ : Points Nat) [3]).toOption
    = some ⟨⟨[("x", 1)]⟩, [6], [[0], [1], [0], [1], [0], [1]]⟩ := by decide


/-! ## the other direction of the round trip (transposition) -/

theorem zipWith_eq_left {β γ : Type} (h : β → γ → β) (A : List β) (B : List γ)
    (hh : ∀ a ∈ A, ∀ b, h a b = a) (hl : A.length = B.length) : List.zipWith h A B = A := by
  induction A generalizing B with
  | nil => simp
  | cons a as ih =>
    cases B with
    | nil => simp at hl
    | cons b bs =>
      simp only [List.zipWith_cons_cons]
      rw [hh a (by simp), ih bs (fun x hx => hh x (List.mem_cons_of_mem _ hx)) (by simpa using hl)]

theorem zipWith_eq_right {β γ δ : Type} (h : β → γ → δ) (k : γ → δ) (A : List β) (B : List γ)
    (hh : ∀ a ∈ A, ∀ b, h a b = k b) (hl : A.length = B.length) : List.zipWith h A B = B.map k := by
  induction A generalizing B with
  | nil => cases B <;> simp at hl ⊢
  | cons a as ih =>
    cases B with
    | nil => simp at hl
    | cons b bs =>
      simp only [List.zipWith_cons_cons, List.map_cons]
      rw [hh a (by simp), ih bs (fun x hx => hh x (List.mem_cons_of_mem _ hx)) (by simpa using hl)]

theorem hcat_length (cs : List (List (List α))) (n : Nat) (h : ∀ c ∈ cs, c.length = n) :
    (hcat cs n).length = n := by
  induction cs with
  | nil => simp [hcat]
  | cons c rest ih =>
    simp only [hcat, List.length_zipWith, h c (by simp), ih (fun d hd => h d (List.mem_cons_of_mem _ hd))]
    omega

/-- **transposition**: reading variable `c.name` from the row-wise concatenation of the coordinate
    tensors gives back the rows of `c` -/
theorem hcat_piece (cs : List (Coord α)) (n : Nat) (hn : (cs.map (·.name)).Nodup)
    (hw : ∀ c ∈ cs, c.rows.length = n ∧ ∀ r ∈ c.rows, r.length = c.width) :
    ∀ c ∈ cs, (hcat (cs.map (·.rows)) n).map (piece (cs.map fun d => (d.name, d.width)) c.name) = c.rows := by
  induction cs with
  | nil => intro c hc; cases hc
  | cons c0 rest ih =>
    simp only [List.map_cons, List.nodup_cons] at hn
    have hrest : ∀ c ∈ rest, c.rows.length = n ∧ ∀ r ∈ c.rows, r.length = c.width :=
      fun c hc => hw c (List.mem_cons_of_mem _ hc)
    have hlen : (hcat (rest.map (·.rows)) n).length = n :=
      hcat_length _ n (by
        intro d hd
        obtain ⟨c, hc, rfl⟩ := List.mem_map.1 hd
        exact (hrest c hc).1)
    have h0 := hw c0 (by simp)
    intro c hc
    simp only [List.map_cons, hcat, List.map_zipWith]
    rcases List.mem_cons.1 hc with rfl | hc'
    · apply zipWith_eq_left
      · intro a ha b
        exact piece_cons_eq _ _ _ _ _ (h0.2 a ha)
      · rw [h0.1, hlen]
    · have hne : c0.name ≠ c.name := fun e => hn.1 (e ▸ List.mem_map.2 ⟨c, hc', rfl⟩)
      rw [zipWith_eq_right _ (piece (rest.map fun d => (d.name, d.width)) c.name)]
      · exact ih hn.2 hrest c hc'
      · intro a ha b
        exact piece_cons_ne _ _ _ _ _ _ (h0.2 a ha) hne
      · rw [h0.1, hlen]

/-- **round trip, other direction**: the coordinates of `from_coordinates(c)` are `c` (names, shapes,
    widths and all cells), for distinct names and well-shaped coordinate tensors -/
theorem coords_from (cs : List (Coord α)) (p : Points α) (hn : (cs.map (·.name)).Nodup)
    (hw : ∀ c ∈ cs, c.rows.length = prodL c.shape ∧ ∀ r ∈ c.rows, r.length = c.width)
    (hne : cs ≠ []) (h : Points.fromCoordinates cs = .ok p) : p.coords = cs := by
  obtain ⟨c0, rest, rfl⟩ := List.exists_cons_of_ne_nil hne
  simp only [Points.fromCoordinates] at h
  split at h
  · cases h
  · rename_i hany
    split at h
    · cases h
    · simp only [pure, Except.pure, Except.ok.injEq] at h
      subst h
      have hsh : ∀ c ∈ c0 :: rest, c.shape = c0.shape := by
        intro c hc
        simp only [List.any_eq_true, decide_eq_true_eq, not_exists, not_and, not_not] at hany
        exact hany c hc
      have hw' : ∀ c ∈ c0 :: rest, c.rows.length = prodL c0.shape ∧ ∀ r ∈ c.rows, r.length = c.width := by
        intro c hc; rw [← hsh c hc]; exact hw c hc
      have key := hcat_piece (c0 :: rest) (prodL c0.shape) hn hw'
      simp only [Points.coords, List.map_map]
      conv => rhs; rw [← List.map_id (c0 :: rest)]
      apply List.map_congr_left
      intro c hc
      simp only [Function.comp, id]
      have := key c hc
      rw [this]
      cases c
      simp only [Coord.mk.injEq, true_and, and_true]
      exact (hsh _ hc).symm


/-! ## the column list of a key is duplicate-free and in range -/

theorem mem_colsOf (vs : Vars) (n : String) (c : Nat) :
    c ∈ colsOf vs n ↔ offOf vs n ≤ c ∧ c < offOf vs n + dimOf vs n := by
  simp only [colsOf, List.mem_map, List.mem_range]
  constructor
  · rintro ⟨a, ha, rfl⟩; omega
  · intro h; exact ⟨c - offOf vs n, by omega, by omega⟩

/-- distinct names own disjoint columns -/
theorem colsOf_disjoint (vs : Vars) (n m : String) (hnm : n ≠ m) (c : Nat)
    (hn : c ∈ colsOf vs n) (hm : c ∈ colsOf vs m) : False := by
  rw [mem_colsOf] at hn hm
  induction vs generalizing c with
  | nil => simp [dimOf] at hn; omega
  | cons v r ih =>
    obtain ⟨k, d⟩ := v
    simp only [offOf, dimOf] at hn hm
    by_cases e1 : k = n
    · subst e1
      have e2 : ¬ k = m := hnm
      rw [if_pos rfl, if_pos rfl] at hn; rw [if_neg e2, if_neg e2] at hm; omega
    · by_cases e2 : k = m
      · subst e2; rw [if_neg e1, if_neg e1] at hn; rw [if_pos rfl, if_pos rfl] at hm; omega
      · rw [if_neg e1, if_neg e1] at hn; rw [if_neg e2, if_neg e2] at hm
        exact ih (c - d) (by omega) (by omega)

theorem colsOf_nodup (vs : Vars) (n : String) : (colsOf vs n).Nodup :=
  List.Nodup.map (fun a b h => by simpa using h) List.nodup_range

theorem colsOf_lt (vs : Vars) (n : String) (c : Nat) (h : c ∈ colsOf vs n) : c < vdim vs := by
  rw [mem_colsOf] at h
  by_cases hn : n ∈ keys vs
  · have := off_add_dim_le vs n hn; omega
  · rw [dimOf_eq_zero_of_not_mem hn] at h; omega

/-- **the column list of distinct names is duplicate-free** (and inside the row) -/
theorem cols_nodup (vs : Vars) (ns : List String) (h : ns.Nodup) :
    (ns.flatMap (colsOf vs)).Nodup ∧ ∀ c ∈ ns.flatMap (colsOf vs), c < vdim vs := by
  constructor
  · rw [List.nodup_flatMap]
    refine ⟨fun n _ => colsOf_nodup vs n, ?_⟩
    exact List.Pairwise.imp (fun {a b} hab => by
      intro c hc1 hc2
      exact colsOf_disjoint vs a b hab c hc1 hc2) h
  · intro c hc
    obtain ⟨n, _, hn⟩ := List.mem_flatMap.1 hc
    exact colsOf_lt vs n c hn

/-! ### Python slices select distinct positions inside the sequence -/

theorem clampPos_le (len : Nat) (b : Option Int) (d : Nat) (hd : d ≤ len) : clampPos len b d ≤ len := by
  cases b with
  | none => exact hd
  | some i =>
    simp only [clampPos]
    split
    · omega
    · exact Nat.min_le_right _ _

theorem clampNeg_le (len : Nat) (b : Option Int) (d : Nat) (hd : d ≤ len) : clampNeg len b d ≤ len := by
  cases b with
  | none => exact hd
  | some i =>
    simp only [clampNeg]
    split
    · omega
    · exact Nat.min_le_right _ _

theorem pySlice_lt_nodup (len : Nat) (a b : Option Int) (st : Int) (hst : st ≠ 0) :
    (∀ i ∈ pySlice len a b st, i < len) ∧ (pySlice len a b st).Nodup := by
  simp only [pySlice]
  split
  · rename_i hpos
    have hlo := clampPos_le len a 0 (Nat.zero_le _)
    have hhi := clampPos_le len b len (Nat.le_refl _)
    generalize clampPos len a 0 = lo at *
    generalize clampPos len b len = hi at *
    have hs : 0 < st.toNat := by omega
    generalize st.toNat = s at *
    constructor
    · intro i hi'
      obtain ⟨k, hk, rfl⟩ := List.mem_map.1 hi'
      have hk := List.mem_range.1 hk
      have h1 : (hi - lo + s - 1) / s * s ≤ hi - lo + s - 1 := Nat.div_mul_le_self _ _
      have h2 : (k + 1) * s ≤ (hi - lo + s - 1) / s * s := Nat.mul_le_mul_right s hk
      have h3 : (k + 1) * s = k * s + s := by rw [Nat.add_mul, Nat.one_mul]
      omega
    · refine List.Nodup.map_on ?_ List.nodup_range
      intro x _ y _ e
      have : x * s = y * s := by omega
      exact Nat.eq_of_mul_eq_mul_right hs this
  · rename_i hneg
    have hlo := clampNeg_le len a len (Nat.le_refl _)
    have hhi := clampNeg_le len b 0 (Nat.zero_le _)
    generalize clampNeg len a len = lo at *
    generalize clampNeg len b 0 = hi at *
    have hs : 0 < (-st).toNat := by omega
    generalize (-st).toNat = s at *
    have bound : ∀ k, k < (lo - hi + s - 1) / s → k * s + hi + 1 ≤ lo := by
      intro k hk
      have h1 : (lo - hi + s - 1) / s * s ≤ lo - hi + s - 1 := Nat.div_mul_le_self _ _
      have h2 : (k + 1) * s ≤ (lo - hi + s - 1) / s * s := Nat.mul_le_mul_right s hk
      have h3 : (k + 1) * s = k * s + s := by rw [Nat.add_mul, Nat.one_mul]
      omega
    constructor
    · intro i hi'
      obtain ⟨k, hk, rfl⟩ := List.mem_map.1 hi'
      have := bound k (List.mem_range.1 hk)
      omega
    · refine List.Nodup.map_on ?_ List.nodup_range
      intro x hx y hy e
      have bx := bound x (List.mem_range.1 hx)
      have by' := bound y (List.mem_range.1 hy)
      have : x * s = y * s := by omega
      exact Nat.eq_of_mul_eq_mul_right hs this

theorem mapM_getElem_eq_gather {β : Type} (l : List β) (is : List Nat) :
    is.mapM (fun i => l[i]?) = gather l is := by
  induction is with
  | nil => rfl
  | cons i r ih =>
    simp only [List.mapM_cons, ih, gather]
    cases l[i]? <;> cases gather l r <;> rfl

theorem gather_mem {β : Type} {l : List β} {is : List Nat} {out : List β} (h : gather l is = some out)
    {b : β} (hb : b ∈ out) : ∃ j ∈ is, l[j]? = some b := by
  obtain ⟨k, hk, rfl⟩ := List.mem_iff_getElem.1 hb
  have hlen := gather_length h
  have := (gather_getElem? h k (by omega)).1
  rw [List.getElem?_eq_getElem hk] at this
  exact ⟨is[k]'(by omega), List.getElem_mem _, this.symm⟩

theorem gather_nodup_map {β γ : Type} (f : β → γ) {l : List β} {is : List Nat} {out : List β}
    (h : gather l is = some out) (his : is.Nodup) (hl : (l.map f).Nodup) : (out.map f).Nodup := by
  induction is generalizing out with
  | nil => simp only [gather, Option.some.injEq] at h; subst h; simp
  | cons i r ih =>
    simp only [gather] at h
    split at h
    · rename_i a out' hd hr
      simp only [Option.some.injEq] at h; subst h
      simp only [List.nodup_cons] at his
      simp only [List.map_cons, List.nodup_cons]
      refine ⟨?_, ih hr his.2⟩
      intro hmem
      obtain ⟨b, hb, hfb⟩ := List.mem_map.1 hmem
      obtain ⟨j, hj, hjb⟩ := gather_mem hr hb
      obtain ⟨hi1, hi2⟩ := List.getElem?_eq_some_iff.1 hd
      obtain ⟨hj1, hj2⟩ := List.getElem?_eq_some_iff.1 hjb
      have e : (l.map f)[j]'(by simpa using hj1) = (l.map f)[i]'(by simpa using hi1) := by
        simp [hi2, hj2, hfb]
      have := (List.Nodup.getElem_inj_iff hl).1 e
      exact his.1 (this ▸ hj)
    · cases h

theorem slice_ok (s out : Space) (a b : Option String) (step : Option Int)
    (h : Space.slice s a b step = .ok out) :
    ∃ pos : List Nat, pos.Nodup ∧ gather s.vars pos = some out.vars := by
  simp only [Space.slice, bind, Except.bind] at h
  split at h
  · cases h
  · split at h
    · cases h
    · have fin : ∀ (st : Int) (x y : Option Int), st ≠ 0 →
          (match List.mapM (fun i => s.vars[i]?) (pySlice s.names.length x y st) with
            | some vs => (pure ⟨vs⟩ : Except Err Space)
            | none => throw Err.index) = Except.ok out →
          ∃ pos : List Nat, pos.Nodup ∧ gather s.vars pos = some out.vars := by
        intro st x y h0 h
        split at h
        · rename_i vs' hm
          simp only [pure, Except.pure, Except.ok.injEq] at h; subst h
          rw [mapM_getElem_eq_gather] at hm
          exact ⟨_, (pySlice_lt_nodup _ _ _ _ h0).2, hm⟩
        · cases h
      cases step with
      | none =>
        dsimp only at h
        rw [if_neg (by decide)] at h
        exact fin 1 _ _ (by decide) h
      | some k =>
        dsimp only at h
        by_cases h0 : k = 0
        · rw [if_pos h0] at h; cases h
        · rw [if_neg h0] at h
          exact fin k _ _ h0 h

/-- what a successful column key denotes: a key-distinct list of variables OF THE SPACE with their
    own dimensions, and as columns exactly the columns of these variables, in this order -/
theorem colKey_ok (vs : Vars) (hk : (keys vs).Nodup) (it : Item) (sp : Vars) (cols : List Nat)
    (h : colKey vs it = .ok (sp, cols)) :
    (keys sp).Nodup ∧ (∀ w ∈ sp, w.1 ∈ keys vs ∧ w.2 = dimOf vs w.1) ∧
      cols = (keys sp).flatMap (colsOf vs) := by
  cases it with
  | name v =>
    simp only [colKey] at h
    split at h
    · rename_i hv
      simp only [pure, Except.pure, Except.ok.injEq, Prod.mk.injEq] at h
      obtain ⟨rfl, rfl⟩ := h
      simp only [List.contains_eq_mem, decide_eq_true_eq] at hv
      simp [hv]
    · cases h
  | names ns =>
    simp only [colKey] at h
    split at h
    · cases h
    · rename_i hany
      simp only [pure, Except.pure, Except.ok.injEq, Prod.mk.injEq] at h
      obtain ⟨rfl, rfl⟩ := h
      simp only [Space.sub, List.any_eq_true, List.mem_map, Bool.not_eq_true', List.contains_eq_mem,
        decide_eq_false_iff_not, not_exists, not_and, not_not] at hany
      refine ⟨?_, ?_, ?_⟩
      · simp only [Space.sub, keys, List.map_map, Function.comp_def, List.map_id']
        exact dedup_nodup ns
      · intro w hw
        simp only [Space.sub, List.mem_map] at hw
        obtain ⟨n, hn, rfl⟩ := hw
        exact ⟨hany _ ⟨n, hn, rfl⟩, rfl⟩
      · simp only [keys, List.flatMap_map]
  | slice a b step =>
    simp only [colKey, bind, Except.bind] at h
    split at h
    · cases h
    · rename_i a' ha
      split at h
      · cases h
      · rename_i b' hb
        split at h
        · cases h
        · rename_i out hout
          simp only [pure, Except.pure, Except.ok.injEq, Prod.mk.injEq] at h
          obtain ⟨rfl, rfl⟩ := h
          obtain ⟨pos, hpn, hm⟩ := slice_ok _ _ _ _ _ hout
          refine ⟨?_, ?_, ?_⟩
          · exact gather_nodup_map (fun x : String × Nat => x.1) hm hpn hk
          · intro w hw
            obtain ⟨j, _, hj⟩ := gather_mem hm hw
            have hmem : w ∈ vs := List.mem_of_getElem? hj
            exact ⟨List.mem_map.2 ⟨w, hmem, rfl⟩, (dimOf_of_mem hk (by simpa using hmem)).symm⟩
          · simp only [keys, List.flatMap_map]
  | int i => simp [colKey] at h
  | ell => simp [colKey] at h
  | mask bs => simp [colKey] at h
  | list is => simp [colKey] at h

/-- consequences used by the invariant and by assignment: the columns of any accepted key are
    duplicate-free, inside the row, and as many as the dimension of the key's space -/
theorem colKey_cols (vs : Vars) (hk : (keys vs).Nodup) (it : Item) (sp : Vars) (cols : List Nat)
    (h : colKey vs it = .ok (sp, cols)) :
    cols.Nodup ∧ (∀ c ∈ cols, c < vdim vs) ∧ cols.length = vdim sp := by
  obtain ⟨h1, h2, rfl⟩ := colKey_ok vs hk it sp cols h
  refine ⟨(cols_nodup vs _ h1).1, (cols_nodup vs _ h1).2, ?_⟩
  clear h h1
  induction sp with
  | nil => rfl
  | cons w r ih =>
    simp only [keys_cons, List.flatMap_cons, List.length_append, vdim, List.map_cons, List.sum_cons]
    rw [ih (fun x hx => h2 x (List.mem_cons_of_mem _ hx))]
    simp only [colsOf, List.length_map, List.length_range, vdim, (h2 w (by simp)).2]


/-! ## the constructor invariant is preserved by every operation -/

/-- what `Points.__init__` establishes plus what a dict guarantees for the space -/
def Points.Inv (p : Points α) : Prop := p.WF ∧ p.space.Keyed

theorem select_ok (p : Points α) (ix : Index) (s : Sel) (h : p.select ix = .ok s) :
    ∃ ck its, keyPart p.space.vars ck = .ok (s.space, s.cols) ∧ selsOf p.shape its = .ok s.sels := by
  simp only [Points.select, bind, Except.bind] at h
  split at h
  · cases h
  · split at h
    · cases h
    · rename_i _ v1 _ _ v2 hkp
      split at h
      · cases h
      · split at h
        · cases h
        · split at h
          · cases h
          · split at h
            · cases h
            · rename_i _ its _ _ sels hsels
              simp only [pure, Except.pure, Except.ok.injEq] at h
              subst h
              exact ⟨v1.2, its, hkp, hsels⟩

theorem keyPart_cases (vs : Vars) (ck : Option Item) (sp : Vars) (cols : Option (List Nat))
    (h : keyPart vs ck = .ok (sp, cols)) :
    (cols = none ∧ sp = vs) ∨ ∃ it c, cols = some c ∧ colKey vs it = .ok (sp, c) := by
  cases ck with
  | none =>
    simp only [keyPart, pure, Except.pure, Except.ok.injEq, Prod.mk.injEq] at h
    exact Or.inl ⟨h.2.symm, h.1.symm⟩
  | some it =>
    simp only [keyPart, bind, Except.bind] at h
    split at h
    · cases h
    · rename_i v hv
      simp only [pure, Except.pure, Except.ok.injEq, Prod.mk.injEq] at h
      obtain ⟨rfl, rfl⟩ := h
      exact Or.inr ⟨it, v.2, rfl, hv⟩

theorem axisSel_keep (size : Nat) (it : Item) (a : AxSel) (h : axisSel size it = .ok a)
    (hk : a.keep = false) : a.idxs.length = 1 := by
  cases it with
  | int i =>
    simp only [axisSel, bind, Except.bind] at h
    split at h
    · cases h
    · simp only [pure, Except.pure, Except.ok.injEq] at h; subst h; rfl
  | slice x y st =>
    simp only [axisSel, bind, Except.bind, pure, Except.pure] at h
    repeat' (split at h)
    all_goals (first | (cases h; done) | (cases h; cases hk))
  | ell => simp only [axisSel, pure, Except.pure, Except.ok.injEq] at h; subst h; cases hk
  | mask bs =>
    simp only [axisSel] at h
    split at h
    · cases h
    · simp only [pure, Except.pure, Except.ok.injEq] at h; subst h; cases hk
  | list is =>
    simp only [axisSel, bind, Except.bind] at h
    split at h
    · cases h
    · simp only [pure, Except.pure, Except.ok.injEq] at h; subst h; cases hk
  | name s => cases h
  | names ns => cases h

theorem selsOf_keep (shape : List Nat) (its : List Item) (sels : List AxSel)
    (h : selsOf shape its = .ok sels) : ∀ a ∈ sels, a.keep = false → a.idxs.length = 1 := by
  induction shape generalizing its sels with
  | nil =>
    cases its with
    | nil => simp only [selsOf, pure, Except.pure, Except.ok.injEq] at h; subst h; intro a ha; cases ha
    | cons _ _ => cases h
  | cons s ss ih =>
    cases its with
    | nil => cases h
    | cons it its =>
      simp only [selsOf, bind, Except.bind] at h
      split at h
      · cases h
      · rename_i a ha
        split at h
        · cases h
        · rename_i r hr
          simp only [pure, Except.pure, Except.ok.injEq] at h; subst h
          intro x hx
          rcases List.mem_cons.1 hx with rfl | hx
          · exact axisSel_keep s it _ ha
          · exact ih its r hr x hx

theorem prodL_kept (l : List AxSel) (h : ∀ a ∈ l, a.keep = false → a.idxs.length = 1) :
    prodL (keptShape l) = prodL (l.map (·.idxs.length)) := by
  induction l with
  | nil => rfl
  | cons a r ih =>
    have ih := ih (fun x hx => h x (List.mem_cons_of_mem _ hx))
    simp only [keptShape, List.filter_cons, List.map_cons, prodL] at ih ⊢
    cases hk : a.keep
    · simp only [Bool.false_eq_true, if_false, ih, h a (by simp) hk, Nat.one_mul]
    · simp only [if_true, List.map_cons, prodL, ih]

theorem mapM_opt {β γ : Type} (f : β → Option γ) (l : List β) (out : List γ) (h : l.mapM f = some out) :
    out.length = l.length ∧ ∀ b ∈ out, ∃ a ∈ l, f a = some b := by
  induction l generalizing out with
  | nil => simp only [List.mapM_nil, pure, Option.some.injEq] at h; subst h; simp
  | cons a r ih =>
    rw [List.mapM_cons] at h
    cases hb : f a with
    | none => simp [hb] at h
    | some b =>
      cases ho : r.mapM f with
      | none => simp [hb, ho] at h
      | some out' =>
        simp only [hb, ho, bind, Option.bind, pure, Option.some.injEq] at h; subst h
        obtain ⟨h1, h2⟩ := ih out' ho
        refine ⟨by simp [h1], ?_⟩
        intro x hx
        rcases List.mem_cons.1 hx with rfl | hx
        · exact ⟨a, by simp, hb⟩
        · obtain ⟨y, hy, hf⟩ := h2 x hx
          exact ⟨y, List.mem_cons_of_mem _ hy, hf⟩

theorem prodL_one_or (l : List Nat) : prodL (if l = [] then [1] else l) = prodL l := by
  split
  · rename_i h; subst h; rfl
  · rfl

/-- indexing preserves the invariant -/
theorem getitem_inv (p q : Points α) (ix : Index) (hp : p.Inv) (h : p.getitem ix = .ok q) : q.Inv := by
  obtain ⟨s, rows, hsel, hg, hm, hsp, hsh⟩ := getitem_rows p q ix h
  obtain ⟨ck, its, hkp, hsels⟩ := select_ok p ix s hsel
  obtain ⟨hlen, hmem⟩ := mapM_opt _ _ _ hm
  have hrows : ∀ r ∈ rows, r.length = vdim p.space.vars := by
    intro r hr
    obtain ⟨j, _, hj⟩ := gather_mem hg hr
    exact hp.1.2.2 r (List.mem_of_getElem? hj)
  refine ⟨⟨?_, ?_, ?_⟩, ?_⟩
  · rw [hsh]; split
    · simp
    · assumption
  · rw [hsh, prodL_one_or, prodL_kept _ (selsOf_keep _ _ _ hsels), ← flatIdx_length, hlen,
      gather_length hg]
  · intro b hb
    obtain ⟨r, hr, hf⟩ := hmem b hb
    simp only [Space.dim, hsp]
    rcases keyPart_cases _ _ _ _ hkp with ⟨hc, hs'⟩ | ⟨it, c, hc, hck⟩
    · rw [hc] at hf; simp only [pickCols, Option.some.injEq] at hf
      rw [← hf, hs']; exact hrows r hr
    · rw [hc] at hf; simp only [pickCols] at hf
      rw [gather_length hf]; exact (colKey_cols _ hp.2 it _ _ hck).2.2
  · simp only [Space.Keyed, Space.names, hsp]
    rcases keyPart_cases _ _ _ _ hkp with ⟨_, hs'⟩ | ⟨it, c, _, hck⟩
    · rw [hs']; exact hp.2
    · exact (colKey_ok _ hp.2 it _ _ hck).1

theorem modify_forall {β : Type} (P : β → Prop) (d : List β) (i : Nat) (f : β → β)
    (hd : ∀ r ∈ d, P r) (hf : ∀ r ∈ d, P (f r)) : ∀ r ∈ d.modify i f, P r := by
  intro r hr
  obtain ⟨j, hj⟩ := List.mem_iff_getElem?.1 hr
  rw [List.getElem?_modify] at hj
  cases hdj : d[j]? with
  | none => simp [hdj] at hj
  | some x =>
    have hx : x ∈ d := List.mem_of_getElem? hdj
    rw [hdj] at hj
    have hj' : (if i = j then f x else x) = r := by simpa using hj
    subst hj'
    split
    · exact hf x hx
    · exact hd x hx

theorem writeRows_forall (P : List α → Prop) (cols : Option (List Nat)) (is : List Nat)
    (xs d : List (List α)) (hd : ∀ r ∈ d, P r)
    (hw : ∀ r x, P r → x ∈ xs → P (writeRow cols r x)) : ∀ r ∈ writeRows cols is xs d, P r := by
  induction is generalizing xs d with
  | nil => simpa [writeRows] using hd
  | cons i is ih =>
    cases xs with
    | nil => simpa [writeRows] using hd
    | cons x xs =>
      simp only [writeRows]
      apply ih
      · exact modify_forall P d i _ hd (fun r hr => hw r x (hd r hr) (by simp))
      · intro r y hr hy; exact hw r y hr (List.mem_cons_of_mem _ hy)

theorem writeRows_length (cols : Option (List Nat)) (is : List Nat) (xs d : List (List α)) :
    (writeRows cols is xs d).length = d.length := by
  induction is generalizing xs d with
  | nil => simp [writeRows]
  | cons i is ih =>
    cases xs with
    | nil => simp [writeRows]
    | cons x xs => simp [writeRows, ih]

theorem bcastRows_mem (t : List Nat) (n : Nat) (rshape : List Nat) (rows out : List (List α))
    (h : bcastRows t n rshape rows = .ok out) : ∀ x ∈ out, x ∈ rows := by
  simp only [bcastRows] at h
  split at h
  · simp only [pure, Except.pure, Except.ok.injEq] at h; subst h; exact fun x hx => hx
  · split at h
    · cases h
    · split at h
      · cases h
      · split at h
        · split at h
          · simp only [pure, Except.pure, Except.ok.injEq] at h; subst h
            intro x hx
            rw [List.eq_of_mem_replicate hx]; simp
          · cases h
        · split at h
          · rename_i out' hg
            simp only [pure, Except.pure, Except.ok.injEq] at h; subst h
            intro x hx
            obtain ⟨j, _, hj⟩ := gather_mem hg hx
            exact List.mem_of_getElem? hj
          · cases h

/-- assignment preserves the invariant -/
theorem setitem_inv (p rhs p' : Points α) (ix : Index) (hp : p.Inv) (hr : rhs.WF)
    (h : p.setitem ix rhs = .ok p') : p'.Inv := by
  obtain ⟨hsp, hsh, s, rows, hsel, hss, _, hb, hdata, _⟩ := setitem_frame p rhs p' ix h
  obtain ⟨ck, its, hkp, _⟩ := select_ok p ix s hsel
  refine ⟨⟨by rw [hsh]; exact hp.1.1, ?_, ?_⟩, by rw [hsp]; exact hp.2⟩
  · rw [hdata, writeRows_length, hsh]; exact hp.1.2.1
  · rw [hdata, hsp]
    apply writeRows_forall (fun r => r.length = p.space.dim) _ _ _ _ hp.1.2.2
    intro r x hr' hx
    have hxm : x ∈ rhs.data := bcastRows_mem _ _ _ _ _ hb x hx
    have hxl := hr.2.2 x hxm
    rcases keyPart_cases _ _ _ _ hkp with ⟨hc, hs'⟩ | ⟨it, c, hc, _⟩
    · rw [hc]; simp only [writeRow]
      rw [hxl]; simp only [Space.dim, ← hss, hs']
    · rw [hc]; simp only [writeRow, writeCols_length]; exact hr'

/-- join preserves the invariant -/
theorem join_inv (p q r : Points α) (hp : p.Inv) (hq : q.Inv) (h : p.join q = .ok r) : r.Inv := by
  simp only [Points.join] at h
  split at h
  · simp only [pure, Except.pure, Except.ok.injEq] at h; subst h; exact hq
  · split at h
    · simp only [pure, Except.pure, Except.ok.injEq] at h; subst h; exact hp
    · split at h
      · cases h
      · split at h
        · cases h
        · rename_i hsh
          simp only [ne_eq, not_not] at hsh
          simp only [pure, Except.pure, Except.ok.injEq] at h; subst h
          refine ⟨⟨hp.1.1, ?_, ?_⟩, mul_keyed _ _ hp.2 hq.2⟩
          · simp only [List.length_zipWith, hp.1.2.1, hq.1.2.1, hsh]; omega
          · intro x hx
            simp only [List.mem_iff_getElem, List.length_zipWith, List.getElem_zipWith] at hx
            obtain ⟨i, hi, rfl⟩ := hx
            rw [List.length_append, mul_dim _ _ hp.2 hq.2,
              hp.1.2.2 _ (List.getElem_mem _), hq.1.2.2 _ (List.getElem_mem _)]

/-- row concatenation preserves the invariant -/
theorem cat_inv (p q r : Points α) (hp : p.Inv) (hq : q.Inv) (h : p.cat q = .ok r) : r.Inv := by
  simp only [Points.cat] at h
  split at h
  · simp only [pure, Except.pure, Except.ok.injEq] at h; subst h; exact hq
  · split at h
    · simp only [pure, Except.pure, Except.ok.injEq] at h; subst h; exact hp
    · split at h
      · cases h
      · rename_i hs
        simp only [ne_eq, not_not] at hs
        split at h
        · rename_i a ra b rb hpa hqb
          split at h
          · rename_i hra
            simp only [pure, Except.pure, Except.ok.injEq] at h; subst h
            refine ⟨⟨by simp, ?_, ?_⟩, hp.2⟩
            · have h1 := hp.1.2.1; have h2 := hq.1.2.1
              rw [hpa] at h1; rw [hqb, ← hra] at h2
              simp only [prodL, List.length_append, h1, h2, Nat.add_mul]
            · intro x hx
              rcases List.mem_append.1 hx with hx | hx
              · exact hp.1.2.2 x hx
              · rw [← hs]; exact hq.1.2.2 x hx
          · cases h
        · cases h

/-- unsqueeze preserves the invariant -/
theorem unsqueeze_inv (p r : Points α) (d : Int) (hp : p.Inv) (h : p.unsqueeze d = .ok r) : r.Inv := by
  obtain ⟨hs, hd, hpr, hl⟩ := unsqueeze_spec p r d h
  refine ⟨⟨?_, ?_, ?_⟩, by rw [hs]; exact hp.2⟩
  · intro e; rw [e] at hl; simp at hl
  · rw [hd, hpr]; exact hp.1.2.1
  · rw [hd, hs]; exact hp.1.2.2

theorem sameOrBcast_ok (a b : List Nat) (h : sameOrBcast a b = .ok ()) : a = b := by
  simp only [sameOrBcast] at h
  split at h
  · assumption
  · split at h <;> cases h

/-- arithmetic preserves the invariant -/
theorem arith_inv (f : α → α → α) (p q r : Points α) (hp : p.Inv) (hq : q.Inv)
    (h : p.arith f q = .ok r) : r.Inv := by
  obtain ⟨hs, hsh, hqs, hd⟩ := arith_spec f p q r h
  have hshape : p.shape = q.shape := by
    simp only [Points.arith, bind, Except.bind] at h
    split at h
    · cases h
    · split at h
      · cases h
      · rename_i u hu; cases u; exact sameOrBcast_ok _ _ hu
  refine ⟨⟨by rw [hsh]; exact hp.1.1, ?_, ?_⟩, by rw [hs]; exact hp.2⟩
  · rw [hd, hsh, List.length_zipWith, hp.1.2.1, hq.1.2.1, hshape]; omega
  · intro x hx
    rw [hd] at hx
    simp only [List.mem_iff_getElem, List.length_zipWith, List.getElem_zipWith] at hx
    obtain ⟨i, hi, rfl⟩ := hx
    rw [List.length_zipWith, hs, hp.1.2.2 _ (List.getElem_mem _), hq.1.2.2 _ (List.getElem_mem _), hqs]
    omega


theorem repeatCore_inv (p r : Points α) (shape reps : List Nat) (hp : p.Inv) (hs : shape ≠ [])
    (hr : 2 ≤ reps.length) (h : p.repeatCore shape reps = .ok r) : r.Inv := by
  simp only [Points.repeatCore] at h
  split at h
  · cases h
  · rename_i rc brev hrev
    split at h
    · cases h
    · split at h
      · cases h
      · rename_i rows hg
        simp only [pure, Except.pure, Except.ok.injEq] at h; subst h
        have hbl : 1 ≤ brev.reverse.length := by
          have := congrArg List.length hrev
          simp only [List.length_reverse, List.length_cons] at this
          simp only [List.length_reverse]; omega
        have hkeep : ∀ a ∈ (shape.zip brev.reverse).map (fun (x : Nat × Nat) =>
            (⟨x.1, (List.replicate x.2 (List.range x.1)).flatten, true⟩ : AxSel)), a.keep = false → a.idxs.length = 1 := by
          intro a ha hk
          obtain ⟨x, _, rfl⟩ := List.mem_map.1 ha
          cases hk
        refine ⟨⟨?_, ?_, ?_⟩, hp.2⟩
        · obtain ⟨s0, srest, rfl⟩ := List.exists_cons_of_ne_nil hs
          cases hb : brev.reverse with
          | nil => rw [hb] at hbl; simp at hbl
          | cons b0 brest => simp [keptShape]
        · rw [prodL_kept _ hkeep, ← flatIdx_length, gather_length hg]
        · intro x hx
          obtain ⟨j, _, hj⟩ := gather_mem hg hx
          exact hp.1.2.2 x (List.mem_of_getElem? hj)

/-- repeat preserves the invariant -/
theorem repeat_inv (p r : Points α) (ns : List Int) (hp : p.Inv) (h : p.repeat ns = .ok r) : r.Inv := by
  have hk : 1 ≤ p.shape.length := by
    cases hsh : p.shape with
    | nil => exact absurd hsh hp.1.1
    | cons a b => simp
  simp only [Points.repeat, bind, Except.bind] at h
  split at h
  · cases h
  · split at h
    · rename_i hle
      refine repeatCore_inv p r _ _ hp hp.1.1 ?_ h
      simp only [List.length_append, List.length_replicate, List.length_map] at hle ⊢
      omega
    · rename_i hgt
      refine repeatCore_inv p r _ _ hp (by simp [hp.1.1]) ?_ h
      simp only [List.length_map] at hgt ⊢
      omega

/-! ## histories -/

/-- the operations of a history; the other operand of a binary operation is part of the operation -/
inductive Op (α : Type) where
  | get (ix : Index)
  | set (ix : Index) (rhs : Points α)
  | join (q : Points α)
  | joinTo (q : Points α)            -- `q.join(p)`
  | cat (q : Points α)
  | rep (ns : List Int)
  | unsq (d : Int)
  | arith (f : α → α → α) (q : Points α)

def Op.operandOk : Op α → Prop
  | .set _ q | .join q | .joinTo q | .cat q | .arith _ q => q.Inv
  | _ => True

def Points.apply (p : Points α) : Op α → Except Err (Points α)
  | .get ix => p.getitem ix
  | .set ix rhs => p.setitem ix rhs
  | .join q => p.join q
  | .joinTo q => q.join p
  | .cat q => p.cat q
  | .rep ns => p.repeat ns
  | .unsq d => p.unsqueeze d
  | .arith f q => p.arith f q

/-- run a sequence of operations; the first rejected operation ends the history -/
def Points.run (p : Points α) : List (Op α) → Except Err (Points α)
  | [] => pure p
  | o :: os => do let q ← p.apply o; q.run os

theorem apply_inv (p r : Points α) (o : Op α) (hp : p.Inv) (ho : o.operandOk) (h : p.apply o = .ok r) :
    r.Inv := by
  cases o with
  | get ix => exact getitem_inv p r ix hp h
  | set ix rhs => exact setitem_inv p rhs r ix hp ho.1 h
  | join q => exact join_inv p q r hp ho h
  | joinTo q => exact join_inv q p r ho hp h
  | cat q => exact cat_inv p q r hp ho h
  | rep ns => exact repeat_inv p r ns hp h
  | unsq d => exact unsqueeze_inv p r d hp h
  | arith f q => exact arith_inv f p q r hp ho h

/-- **histories**: starting from a well-formed table, every sequence of accepted operations
    (indexing with any index expression, assignment, join on either side, row concatenation, repeat,
    unsqueeze, arithmetic; operands well-formed) ends in a well-formed table: as many rows as the
    batch shape says, every row as long as the dimension of the space, distinct variable names -/
theorem history_inv (p r : Points α) (ops : List (Op α)) (hp : p.Inv) (ho : ∀ o ∈ ops, o.operandOk)
    (h : p.run ops = .ok r) : r.Inv := by
  induction ops generalizing p with
  | nil => simp only [Points.run, pure, Except.pure, Except.ok.injEq] at h; subst h; exact hp
  | cons o os ih =>
    simp only [Points.run, bind, Except.bind] at h
    split at h
    · cases h
    · rename_i q hq
      exact ih q (apply_inv p q o hp (ho o (by simp)) hq) (fun o' ho' => ho o' (List.mem_cons_of_mem _ ho')) h

example : ((⟨⟨[("x", 1), ("t", 2)]⟩, [3], [[0, 1, 2], [3, 4, 5], [6, 7, 8]]⟩ : Points Nat).run
    [.get (.tup [.list [2, 0], .names ["t", "x"]]), .rep [2], .unsq 0,
     .get (.tup [.int 0, .slice (.int 1) .none none, .name "t"])]).toOption
    = some ⟨⟨[("t", 2)]⟩, [3], [[1, 2], [7, 8], [1, 2]]⟩ := by decide

/-! ## assignment through a key, with no hypothesis on the column list -/

/-- **assignment by key** on a table satisfying the invariant: in the k-th addressed row the columns
    of the key hold, in key order, the cells of the k-th (broadcast) row of the right-hand side, and
    every column outside the key keeps its cell — for every kind of key and every order of names -/
theorem setitem_key_cells (p rhs p' : Points α) (ix : Index) (hp : p.Inv) (hr : rhs.WF)
    (h : p.setitem ix rhs = .ok p') :
    ∃ s rows, p.select ix = .ok s ∧ p'.data = writeRows s.cols (flatIdx s.sels) rows p.data ∧
      ∀ cols, s.cols = some cols → cols.Nodup ∧
        ∀ k (hk : k < (flatIdx s.sels).length), ∀ r x, p.data[(flatIdx s.sels)[k]]? = some r →
          rows[k]? = some x →
          ∃ r', p'.data[(flatIdx s.sels)[k]]? = some r' ∧ gather r' cols = some x ∧
            ∀ c, c ∉ cols → r'[c]? = r[c]? := by
  obtain ⟨_, _, s, rows, hsel, hss, hnd, hb, hdata, _⟩ := setitem_frame p rhs p' ix h
  obtain ⟨ck, its, hkp, _⟩ := select_ok p ix s hsel
  refine ⟨s, rows, hsel, hdata, ?_⟩
  intro cols hc
  rcases keyPart_cases _ _ _ _ hkp with ⟨hc', _⟩ | ⟨it, c, hc', hck⟩
  · rw [hc] at hc'; cases hc'
  · rw [hc] at hc'; cases hc'
    obtain ⟨hcn, hcl, hclen⟩ := colKey_cols _ hp.2 it _ _ hck
    refine ⟨hcn, ?_⟩
    intro k hk r x hrk hxk
    have hrows_len : rows.length = (flatIdx s.sels).length ∨ True := Or.inr trivial
    have hx_mem : x ∈ rhs.data := bcastRows_mem _ _ _ _ _ hb x (List.mem_of_getElem? hxk)
    have hxl : x.length = cols.length := by
      rw [hr.2.2 x hx_mem, hclen]; simp only [Space.dim, hss]
    have hrl : r.length = vdim p.space.vars := hp.1.2.2 r (List.mem_of_getElem? hrk)
    -- the k-th addressed row after the assignment
    have key : ∀ (is : List Nat) (xs d : List (List α)), is.Nodup → ∀ k (hk : k < is.length),
        d[is[k]]? = some r → xs[k]? = some x →
        (writeRows (some cols) is xs d)[is[k]]? = some (writeCols cols r x) := by
      intro is
      induction is with
      | nil => intro xs d _ k hk; cases hk
      | cons j js ih =>
        intro xs d hn k hk hd hx
        simp only [List.nodup_cons] at hn
        cases xs with
        | nil => simp at hx
        | cons y ys =>
          simp only [writeRows]
          cases k with
          | zero =>
            simp only [List.getElem_cons_zero, List.getElem?_cons_zero, Option.some.injEq] at hd hx ⊢
            subst hx
            rw [writeRows_get_not_mem _ _ _ _ _ hn.1, List.getElem?_modify, hd]
            simp [writeRow]
          | succ k =>
            simp only [List.getElem_cons_succ, List.getElem?_cons_succ] at hd hx ⊢
            have hk' : k < js.length := by simpa using hk
            apply ih ys _ hn.2 k hk' _ hx
            rw [List.getElem?_modify, hd]
            have : j ≠ js[k] := fun e => hn.1 (e ▸ List.getElem_mem hk')
            simp [this]
    refine ⟨writeCols cols r x, ?_, ?_, ?_⟩
    · rw [hdata, hc]; exact key _ _ _ hnd k hk hrk hxk
    · exact writeCols_gather cols r x hcn (fun c hcm => by rw [hrl]; exact hcl c hcm) hxl
    · intro c hcn'; exact writeCols_get_not_mem cols r x c hcn'

/-! ## the five statements that were open after the first phase -/

theorem C12_mask_spec : C12_full_mask_spec := fun _ p bs h hsh => mask_spec p bs h hsh

theorem C12_repeat_spec : C12_full_repeat_spec := fun _ p m q h hq =>
  ⟨(repeat_spec p q m h hq).1, (repeat_spec p q m h hq).2.1⟩

theorem C12_getitem_all : C12_full_getitem_all := fun _ p h => getitem_all p h

theorem C12_coords_from : C12_full_coords_from := fun _ cs p hn hw h hne => by
  rw [coords_from cs p hn hw hne h]

end TPV.Table
