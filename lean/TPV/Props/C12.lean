/-
  C12 — Points and Space behave as a table with named column groups.
  Property theorems about TPV.Model.Space / TPV.Model.Points (the definitions the driver executes),
  each with a non-vacuity example; helper lemmas are listed as aux_lemmas in obligations/C12.json.
-/
import TPV.Model.Space
import TPV.Model.Points
namespace TPV.Table

/-! ## Space -/

/-- **equality of spaces is order-sensitive**: the same items in a different order are a different space -/
theorem space_eq_order_sensitive (a b : Space) (h : a.vars ≠ b.vars) : a ≠ b := by
  intro e; exact h (by rw [e])

example : (⟨[("x", 1), ("t", 2)]⟩ : Space) ≠ ⟨[("t", 2), ("x", 1)]⟩ :=
  space_eq_order_sensitive _ _ (by decide)

@[simp] theorem keys_nil : keys ([] : Vars) = [] := rfl
@[simp] theorem keys_cons (v : String × Nat) (r : Vars) : keys (v :: r) = v.1 :: keys r := rfl

theorem dimOf_eq_zero_of_not_mem {l : Vars} {n : String} (h : n ∉ keys l) : dimOf l n = 0 := by
  induction l with
  | nil => rfl
  | cons v r ih =>
    obtain ⟨m, d⟩ := v
    simp only [keys_cons, List.mem_cons, not_or] at h
    simp only [dimOf]
    rw [if_neg (fun e => h.1 e.symm)]
    exact ih h.2

theorem dimOf_append (l1 l2 : Vars) (n : String) :
    dimOf (l1 ++ l2) n = if n ∈ keys l1 then dimOf l1 n else dimOf l2 n := by
  induction l1 with
  | nil => simp
  | cons v r ih =>
    obtain ⟨m, d⟩ := v
    simp only [List.cons_append, dimOf, keys_cons, List.mem_cons]
    by_cases e : m = n
    · subst e; simp
    · have e' : ¬ n = m := fun h => e h.symm
      simp only [e, e', if_false, false_or]
      exact ih

theorem dimOf_filter_none (l : Vars) (g : String × Nat → Bool) (n : String)
    (h : ∀ v ∈ l, v.1 = n → g v = false) : dimOf (l.filter g) n = 0 := by
  apply dimOf_eq_zero_of_not_mem
  simp only [keys, List.mem_map, List.mem_filter, not_exists, not_and]
  intro v ⟨hv, hg⟩ e
  rw [h v hv e] at hg; exact absurd hg (by simp)

theorem dimOf_mulLeft (l b : Vars) (n : String) (hl : (keys l).Nodup) :
    dimOf ((l.map fun v => (v.1, v.2 + dimOf b v.1)).filter (fun v => 0 < v.2)) n
      = if n ∈ keys l then dimOf l n + dimOf b n else 0 := by
  induction l with
  | nil => simp [dimOf]
  | cons v r ih =>
    obtain ⟨m, d⟩ := v
    simp only [keys_cons, List.nodup_cons] at hl
    have ih := ih hl.2
    simp only [List.map_cons, List.filter_cons, keys_cons, List.mem_cons]
    by_cases e : m = n
    · subst e
      have hz : dimOf r m = 0 := dimOf_eq_zero_of_not_mem hl.1
      by_cases p : 0 < d + dimOf b m
      · simp [p, dimOf]
      · simp only [decide_eq_true_eq, p, if_false, true_or, if_true, dimOf]
        rw [ih, if_neg hl.1]; omega
    · have e' : ¬ n = m := fun h => e h.symm
      by_cases p : 0 < d + dimOf b m
      · simp only [decide_eq_true_eq, p, if_true, dimOf, e, if_false, e', false_or]
        exact ih
      · simp only [decide_eq_true_eq, p, if_false, dimOf, e, e', false_or]
        exact ih

theorem mem_keys_mulLeft (l b : Vars) (n : String) :
    n ∈ keys ((l.map fun v => (v.1, v.2 + dimOf b v.1)).filter (fun v => 0 < v.2)) → n ∈ keys l := by
  simp only [keys, List.mem_map, List.mem_filter]
  rintro ⟨v, ⟨⟨w, hw, rfl⟩, _⟩, rfl⟩
  exact ⟨w, hw, rfl⟩

theorem dimOf_mulRight (a b : Vars) (n : String) (hb : (keys b).Nodup) (hn : n ∉ keys a) :
    dimOf (b.filter (fun v => !(keys a).contains v.1 && decide (0 < v.2))) n = dimOf b n := by
  induction b with
  | nil => rfl
  | cons v r ih =>
    obtain ⟨m, d⟩ := v
    simp only [keys_cons, List.nodup_cons] at hb
    have ih := ih hb.2
    simp only [List.filter_cons]
    by_cases e : m = n
    · subst e
      have hz : dimOf r m = 0 := dimOf_eq_zero_of_not_mem hb.1
      have hc : (keys a).contains m = false := by simpa using hn
      by_cases p : 0 < d
      · simp [hn, p, dimOf]
      · simp only [hc, Bool.not_false, Bool.true_and, decide_eq_true_eq, p, if_false, dimOf, if_true]
        rw [ih, hz]; omega
    · split
      · simp only [dimOf, e, if_false]; exact ih
      · simp only [dimOf, e, if_false]; exact ih

/-- the dimension of every name in a product is the sum of its dimensions in the factors
    (a name that is missing counts 0) -/
theorem dimOf_mul (a b : Space) (ha : a.Keyed) (hb : b.Keyed) (n : String) :
    dimOf (a.mul b).vars n = dimOf a.vars n + dimOf b.vars n := by
  simp only [Space.mul, dimOf_append]
  by_cases hn : n ∈ keys a.vars
  · split
    · rw [dimOf_mulLeft _ _ _ ha, if_pos hn]
    · rename_i h
      rw [dimOf_filter_none]
      · -- the left entry vanished, so the sum is 0
        have := dimOf_mulLeft a.vars b.vars n ha
        rw [if_pos hn, dimOf_eq_zero_of_not_mem h] at this
        omega
      · intro v _ e
        have hv : v.1 ∈ keys a.vars := e ▸ hn
        simp [hv]
  · have h : n ∉ keys ((a.vars.map fun v => (v.1, v.2 + dimOf b.vars v.1)).filter (fun v => 0 < v.2)) :=
      fun h => hn (mem_keys_mulLeft _ _ _ h)
    rw [if_neg h, dimOf_mulRight _ _ _ hb hn, dimOf_eq_zero_of_not_mem hn]; omega


theorem vdim_append (l1 l2 : Vars) : vdim (l1 ++ l2) = vdim l1 + vdim l2 := by
  simp [vdim, List.sum_append]

theorem vdim_filter_pos (l : Vars) : vdim (l.filter (fun v => 0 < v.2)) = vdim l := by
  induction l with
  | nil => rfl
  | cons v r ih =>
    simp only [List.filter_cons]
    split
    · simp only [vdim, List.map_cons, List.sum_cons] at ih ⊢; omega
    · rename_i h
      have : v.2 = 0 := by simpa using h
      simp only [vdim, List.map_cons, List.sum_cons] at ih ⊢; omega

def sumDimOf (a b : Vars) : Nat := (a.map fun v => dimOf b v.1).sum

theorem sumDimOf_cons (a r : Vars) (m : String) (d : Nat) (ha : (keys a).Nodup) (hm : m ∉ keys r) :
    sumDimOf a ((m, d) :: r) = (if m ∈ keys a then d else 0) + sumDimOf a r := by
  induction a with
  | nil => simp [sumDimOf]
  | cons v a' ih =>
    obtain ⟨k, e⟩ := v
    simp only [keys_cons, List.nodup_cons] at ha
    have ih := ih ha.2
    simp only [sumDimOf, List.map_cons, List.sum_cons, dimOf, keys_cons, List.mem_cons] at ih ⊢
    by_cases h : m = k
    · subst h
      have hz : dimOf r m = 0 := dimOf_eq_zero_of_not_mem hm
      rw [ih, if_neg ha.1]; simp [hz]
    · simp only [h, if_false, false_or]; rw [ih]; omega

theorem vdim_map_add (a b : Vars) :
    vdim (a.map fun v => (v.1, v.2 + dimOf b v.1)) = vdim a + sumDimOf a b := by
  induction a with
  | nil => rfl
  | cons v r ih =>
    simp only [vdim, sumDimOf, List.map_cons, List.sum_cons] at ih ⊢; omega

theorem vdim_mulRight (a b : Vars) (ha : (keys a).Nodup) (hb : (keys b).Nodup) :
    sumDimOf a b + vdim (b.filter (fun v => !(keys a).contains v.1 && decide (0 < v.2))) = vdim b := by
  induction b with
  | nil =>
    have : sumDimOf a [] = 0 := by
      induction a with
      | nil => rfl
      | cons v r ih =>
        simp only [keys_cons, List.nodup_cons] at ha
        simp only [sumDimOf, List.map_cons, List.sum_cons, dimOf] at ih ⊢
        simpa using ih ha.2
    simp [this, vdim]
  | cons v r ih =>
    obtain ⟨m, d⟩ := v
    simp only [keys_cons, List.nodup_cons] at hb
    have ih := ih hb.2
    rw [sumDimOf_cons a r m d ha hb.1]
    simp only [List.filter_cons]
    by_cases hm : m ∈ keys a
    · simp only [hm, if_true, List.contains_eq_mem, decide_true, Bool.not_true, Bool.false_and,
        Bool.false_eq_true, if_false]
      simp only [List.contains_eq_mem] at ih
      simp only [vdim, List.map_cons, List.sum_cons] at ih ⊢; omega
    · by_cases p : 0 < d
      · simp only [hm, if_false, List.contains_eq_mem, decide_false, Bool.not_false, Bool.true_and,
          decide_eq_true_eq, p, if_true]
        simp only [List.contains_eq_mem] at ih
        simp only [vdim, List.map_cons, List.sum_cons] at ih ⊢; omega
      · simp only [hm, if_false, List.contains_eq_mem, decide_false, Bool.not_false, Bool.true_and,
          p, Bool.false_eq_true]
        simp only [List.contains_eq_mem] at ih
        simp only [vdim, List.map_cons, List.sum_cons] at ih ⊢; omega

/-- **Space products add dimensions**: `(a * b).dim = a.dim + b.dim`, also when names are shared
    (their dimensions are merged) and when 0-dimensional entries vanish -/
theorem mul_dim (a b : Space) (ha : a.Keyed) (hb : b.Keyed) : (a.mul b).dim = a.dim + b.dim := by
  simp only [Space.dim, Space.mul, vdim_append, vdim_filter_pos, vdim_map_add]
  have := vdim_mulRight a.vars b.vars ha hb
  omega

example : (Space.mul ⟨[("x", 2), ("t", 1)]⟩ ⟨[("u", 1), ("x", 1)]⟩) = ⟨[("x", 3), ("t", 1), ("u", 1)]⟩ := by decide


theorem dimOf_of_mem {l : Vars} (hl : (keys l).Nodup) {n : String} {d : Nat} (h : (n, d) ∈ l) :
    dimOf l n = d := by
  induction l with
  | nil => cases h
  | cons v r ih =>
    obtain ⟨m, e⟩ := v
    simp only [keys_cons, List.nodup_cons] at hl
    simp only [dimOf]
    rcases List.mem_cons.1 h with h | h
    · cases h; simp
    · have : m ≠ n := by
        intro e'; subst e'
        exact hl.1 (List.mem_map.2 ⟨(m, d), h, rfl⟩)
      rw [if_neg this]; exact ih hl.2 h

theorem mem_of_dimOf_pos {l : Vars} {n : String} (h : 0 < dimOf l n) : (n, dimOf l n) ∈ l := by
  induction l with
  | nil => simp [dimOf] at h
  | cons v r ih =>
    obtain ⟨m, e⟩ := v
    simp only [dimOf] at h ⊢
    by_cases c : m = n
    · subst c; simp
    · rw [if_neg c] at h ⊢; exact List.mem_cons_of_mem _ (ih h)

theorem mem_interVars {big small : Vars} {v : String × Nat} :
    v ∈ interVars big small ↔ ∃ w ∈ big, v = (w.1, min w.2 (dimOf small w.1)) ∧ 0 < v.2 := by
  simp only [interVars, List.mem_filter, List.mem_map, decide_eq_true_eq]
  constructor
  · rintro ⟨⟨w, hw, rfl⟩, hp⟩; exact ⟨w, hw, rfl, hp⟩
  · rintro ⟨w, hw, rfl, hp⟩; exact ⟨⟨w, hw, rfl⟩, hp⟩

/-- **the sub-space test is consistent with the dimensions**: for spaces as the library builds them,
    `small in big` holds exactly when every variable of `small` has at most the dimension it has in
    `big` (a missing variable has dimension 0) — independent of the order of the variables -/
theorem has_iff (big small : Space) (hb : big.Keyed) (hs : small.WF) :
    big.has small = true ↔ ∀ v ∈ small.vars, v.2 ≤ dimOf big.vars v.1 := by
  simp only [Space.has, Bool.and_eq_true, List.all_eq_true, List.contains_iff_mem]
  constructor
  · rintro ⟨_, h2⟩ v hv
    obtain ⟨w, hw, e, _⟩ := mem_interVars.1 (h2 v hv)
    have : dimOf big.vars w.1 = w.2 := dimOf_of_mem hb (by simpa using hw)
    rw [e]; simp only; rw [this]; exact Nat.min_le_left _ _
  · intro h
    constructor
    · intro v hv
      obtain ⟨w, hw, e, hp⟩ := mem_interVars.1 hv
      rw [e] at hp ⊢; simp only at hp ⊢
      have hpos : 0 < dimOf small.vars w.1 := by omega
      have hm := mem_of_dimOf_pos hpos
      have hle := h _ hm
      have : dimOf big.vars w.1 = w.2 := dimOf_of_mem hb (by simpa using hw)
      simp only at hle
      rw [this] at hle
      rw [Nat.min_eq_right hle]; exact hm
    · intro v hv
      have hle := h v hv
      have hpos := hs.2 v hv
      have hd : dimOf small.vars v.1 = v.2 := dimOf_of_mem hs.1 (by simpa using hv)
      have hm : (v.1, dimOf big.vars v.1) ∈ big.vars := mem_of_dimOf_pos (by omega)
      refine mem_interVars.2 ⟨_, hm, ?_, hpos⟩
      simp only [hd, Nat.min_eq_right hle]

theorem keys_sublist_mulLeft (l b : Vars) :
    (keys ((l.map fun v => (v.1, v.2 + dimOf b v.1)).filter (fun v => 0 < v.2))).Sublist (keys l) := by
  have h1 : keys (l.map fun v => (v.1, v.2 + dimOf b v.1)) = keys l := by
    simp [keys, List.map_map, Function.comp_def]
  rw [← h1]
  exact List.Sublist.map _ List.filter_sublist

/-- a product of dicts is a dict again -/
theorem mul_keyed (a b : Space) (ha : a.Keyed) (hb : b.Keyed) : (a.mul b).Keyed := by
  simp only [Space.Keyed, Space.names, Space.mul, keys, List.map_append]
  rw [List.nodup_append]
  refine ⟨(keys_sublist_mulLeft a.vars b.vars).nodup ha, (List.Sublist.map _ List.filter_sublist).nodup hb, ?_⟩
  intro x hx y hy e
  subst e
  have hx' : x ∈ keys a.vars := mem_keys_mulLeft a.vars b.vars x hx
  simp only [List.mem_map, List.mem_filter, Bool.and_eq_true, Bool.not_eq_true', decide_eq_true_eq] at hy
  obtain ⟨v, ⟨_, hv, _⟩, rfl⟩ := hy
  have : (List.map (fun x => x.fst) a.vars).contains v.1 = true := by simpa [keys] using hx'
  rw [this] at hv; cases hv

/-- both factors are sub-spaces of the product -/
theorem has_mul_left (a b : Space) (ha : a.WF) (hb : b.Keyed) : (a.mul b).has a = true := by
  rw [has_iff _ _ (mul_keyed a b ha.1 hb) ha]
  intro v hv
  rw [dimOf_mul a b ha.1 hb, dimOf_of_mem ha.1 (by simpa using hv)]; omega

theorem has_mul_right (a b : Space) (ha : a.Keyed) (hb : b.WF) : (a.mul b).has b = true := by
  rw [has_iff _ _ (mul_keyed a b ha hb.1) hb]
  intro v hv
  rw [dimOf_mul a b ha hb.1, dimOf_of_mem hb.1 (by simpa using hv)]; omega

/-- the names of a product: the left names in order, then the new right names in order -/
theorem mul_names (a b : Space) (ha : a.WF) (hb : b.WF) :
    (a.mul b).names = a.names ++ b.names.filter (fun n => !a.names.contains n) := by
  simp only [Space.names, Space.mul, keys, List.map_append]
  congr 1
  · rw [List.filter_eq_self.2]
    · simp [List.map_map, Function.comp_def]
    · intro v hv
      obtain ⟨w, hw, rfl⟩ := List.mem_map.1 hv
      have := ha.2 w hw
      simp only [decide_eq_true_eq]; omega
  · rw [List.filter_map]
    congr 1
    apply List.filter_congr
    intro v hv
    have := hb.2 v hv
    simp [this]

/-- **equality is sensitive to the variable order**: the product of two non-empty spaces without
    common names does not commute -/
theorem mul_not_comm (a b : Space) (ha : a.WF) (hb : b.WF) (hane : a.vars ≠ []) (hbne : b.vars ≠ [])
    (hd : ∀ n ∈ a.names, n ∉ b.names) : a.mul b ≠ b.mul a := by
  intro e
  have h := congrArg Space.names e
  rw [mul_names a b ha hb, mul_names b a hb ha] at h
  obtain ⟨va, ra, ea⟩ := List.exists_cons_of_ne_nil hane
  obtain ⟨vb, rb, eb⟩ := List.exists_cons_of_ne_nil hbne
  simp only [Space.names, ea, eb, keys_cons, List.cons_append] at h hd
  have := (List.cons.inj h).1
  exact hd va.1 (by simp) (by rw [this]; simp)

example : Space.mul ⟨[("x", 1)]⟩ ⟨[("t", 2)]⟩ ≠ Space.mul ⟨[("t", 2)]⟩ ⟨[("x", 1)]⟩ := by decide
example : (Space.mul ⟨[("x", 1)]⟩ ⟨[("t", 2)]⟩).has ⟨[("t", 1)]⟩ = true := by decide
example : (Space.mul ⟨[("x", 1)]⟩ ⟨[("t", 2)]⟩).has ⟨[("t", 3)]⟩ = false := by decide


variable {α : Type}

/-! ## Points: rows -/

theorem gather_map {β γ : Type} (f : β → γ) (d : List β) (is : List Nat) :
    gather (d.map f) is = (gather d is).map (List.map f) := by
  induction is with
  | nil => rfl
  | cons i r ih =>
    simp only [gather, List.getElem?_map, ih]
    cases d[i]? <;> cases gather d r <;> rfl

theorem gather_length {β : Type} {d : List β} {is : List Nat} {out : List β}
    (h : gather d is = some out) : out.length = is.length := by
  induction is generalizing out with
  | nil => simp only [gather, Option.some.injEq] at h; subst h; rfl
  | cons i r ih =>
    simp only [gather] at h
    split at h
    · rename_i a r' hd hr
      simp only [Option.some.injEq] at h; subst h
      simp [ih hr]
    · cases h

/-- every element of a gather is the element at the corresponding index -/
theorem gather_getElem? {β : Type} {d : List β} {is : List Nat} {out : List β}
    (h : gather d is = some out) (k : Nat) (hk : k < is.length) :
    out[k]? = d[is[k]]? ∧ is[k] < d.length := by
  induction is generalizing out k with
  | nil => cases hk
  | cons i r ih =>
    simp only [gather] at h
    split at h
    · rename_i a r' hd hr
      simp only [Option.some.injEq] at h; subst h
      cases k with
      | zero =>
        simp only [List.getElem?_cons_zero, List.getElem_cons_zero]
        exact ⟨hd.symm, (List.getElem?_eq_some_iff.1 hd).1⟩
      | succ k =>
        simp only [List.getElem?_cons_succ, List.getElem_cons_succ]
        exact ih hr k (by simpa using hk)
    · cases h

/-- **row integrity of indexing** (the code after the two index fixes): whatever index expression is
    accepted, the result consists of whole rows of `p`, taken at flat positions that depend on the
    batch shape and the index only, each restricted to the columns of the key (all columns without a
    key), in the space of the key -/
theorem getitem_rows (p q : Points α) (ix : Index) (h : p.getitem ix = .ok q) :
    ∃ s rows, p.select ix = .ok s ∧ gather p.data (flatIdx s.sels) = some rows ∧
      rows.mapM (pickCols s.cols) = some q.data ∧ q.space.vars = s.space ∧
      q.shape = (if keptShape s.sels = [] then [1] else keptShape s.sels) := by
  simp only [Points.getitem, bind, Except.bind] at h
  cases hs : p.select ix with
  | error e => simp [hs] at h
  | ok s =>
    simp only [hs] at h
    cases hg : gather p.data (flatIdx s.sels) with
    | none => simp [hg] at h
    | some rows =>
      simp only [hg] at h
      cases hm : rows.mapM (pickCols s.cols) with
      | none => simp [hm] at h
      | some rows' =>
        simp only [hm, pure, Except.pure, Except.ok.injEq] at h
        subst h
        exact ⟨s, rows, rfl, hg, hm, rfl, rfl⟩

/-- **slicing commutes with selection**: gathering rows and then restricting every row to a column
    set is the same as restricting first and gathering then (for any cell-wise row function `f`) -/
theorem rows_select_comm (f : List α → List α) (d : List (List α)) (is : List Nat) :
    (gather d is).map (List.map f) = gather (d.map f) is := (gather_map f d is).symm

/-! ## negative results about the code before the fixes -/

/-- **before fix B the property was false**: with rows `[0,1,2]` and the key `('t','x')` on a table with
    variables x (1 column) and t (2 columns) the old code returned ONE row made of cells of three
    different rows; it is not the selection of any row of the table -/
theorem paired_index_old_mixes_rows :
    let p : Points Nat := ⟨⟨[("x", 1), ("t", 2)]⟩, [3], [[0, 1, 2], [3, 4, 5], [6, 7, 8]]⟩
    p.getitemPairedOld [0, 1, 2] [1, 2, 0] = some [[1, 5, 6]] ∧
    (∀ r ∈ p.data, gather r [1, 2, 0] ≠ some [1, 5, 6]) ∧
    (p.getitem (.tup [.list [0, 1, 2], .names ["t", "x"]])).toOption.map (·.data)
      = some [[1, 2, 0], [4, 5, 3], [7, 8, 6]] := by
  decide

/-- **before fix A the property was false**: `points[0, 1]` on batch shape (2, 3) was read as the
    index list `[0, 1]` on the first axis and returned all six rows; the point (0, 1) is row 1 -/
theorem int_tuple_old_wrong_rows :
    let p : Points Nat := ⟨⟨[("x", 1)]⟩, [2, 3], [[0], [1], [2], [3], [4], [5]]⟩
    (p.getitemIntTupleOld [0, 1]).toOption.map (fun q => (q.shape, q.data))
      = some ([2, 3], [[0], [1], [2], [3], [4], [5]]) ∧
    (p.getitem (.tup [.int 0, .int 1])).toOption.map (fun q => (q.shape, q.data)) = some ([1], [[1]]) := by
  decide


/-! ## Points: columns by name -/

theorem off_add_dim_le (vs : Vars) (n : String) (h : n ∈ keys vs) :
    offOf vs n + dimOf vs n ≤ vdim vs := by
  induction vs with
  | nil => cases h
  | cons v r ih =>
    obtain ⟨m, d⟩ := v
    simp only [offOf, dimOf, vdim, List.map_cons, List.sum_cons]
    by_cases e : m = n
    · simp [e]
    · simp only [e, if_false]
      have : n ∈ keys r := by
        rcases List.mem_cons.1 h with h | h
        · exact absurd h.symm e
        · exact h
      have := ih this
      simp only [vdim] at this; omega

theorem piece_length (vs : Vars) (n : String) (r : List α) (h : n ∈ keys vs) (hr : r.length = vdim vs) :
    (piece vs n r).length = dimOf vs n := by
  have := off_add_dim_le vs n h
  simp only [piece, List.length_take, List.length_drop]; omega

theorem gather_shift {β : Type} (d : List β) (o k : Nat) (h : o + k ≤ d.length) :
    gather d ((List.range k).map (· + o)) = some ((d.drop o).take k) := by
  induction k generalizing o d with
  | zero => simp [gather]
  | succ k ih =>
    rw [List.range_succ_eq_map]
    simp only [List.map_cons, List.map_map, gather, Nat.zero_add]
    have ho : o < d.length := by omega
    have h1 : gather d (List.map ((fun x => x + o) ∘ Nat.succ) (List.range k))
        = some ((d.drop (o + 1)).take k) := by
      have := ih d (o + 1) (by omega)
      rw [← this]; congr 1
      apply List.map_congr_left; intro x _; simp only [Function.comp]; omega
    rw [h1, List.getElem?_eq_getElem ho]
    simp only
    congr 1
    rw [List.drop_eq_getElem_cons ho, List.take_succ_cons]

/-- the column numbers `rng[slc[v]]` pick exactly the cells `r[slc[v]]` of variable `v` -/
theorem gather_colsOf (vs : Vars) (n : String) (r : List α) (h : n ∈ keys vs) (hr : r.length = vdim vs) :
    gather r (colsOf vs n) = some (piece vs n r) := by
  have := off_add_dim_le vs n h
  exact gather_shift r (offOf vs n) (dimOf vs n) (by omega)

theorem gather_append {β : Type} (d : List β) (a b : List Nat) (x y : List β)
    (ha : gather d a = some x) (hb : gather d b = some y) : gather d (a ++ b) = some (x ++ y) := by
  induction a generalizing x with
  | nil => simp only [gather, Option.some.injEq] at ha; subst ha; simpa using hb
  | cons i r ih =>
    simp only [gather] at ha
    split at ha
    · rename_i a' r' hd hr
      simp only [Option.some.injEq] at ha; subst ha
      simp only [List.cons_append, gather, hd, ih r' hr]
    · cases ha

theorem gather_flatMap_colsOf (vs : Vars) (ns : List String) (r : List α)
    (h : ∀ n ∈ ns, n ∈ keys vs) (hr : r.length = vdim vs) :
    gather r (ns.flatMap (colsOf vs)) = some (ns.flatMap fun n => piece vs n r) := by
  induction ns with
  | nil => rfl
  | cons n rest ih =>
    simp only [List.flatMap_cons]
    exact gather_append r _ _ _ _ (gather_colsOf vs n r (h n (by simp)) hr)
      (ih fun m hm => h m (List.mem_cons_of_mem _ hm))

theorem dedup_mem {ns : List String} {n : String} : n ∈ dedup ns ↔ n ∈ ns := by
  induction ns with
  | nil => simp [dedup]
  | cons m r ih =>
    simp only [dedup, List.mem_cons, List.mem_filter, ih, decide_eq_true_eq]
    constructor
    · rintro (h | ⟨h, _⟩)
      · exact Or.inl h
      · exact Or.inr h
    · intro h
      by_cases e : n = m
      · exact Or.inl e
      · rcases h with h | h
        · exact absurd h e
        · exact Or.inr ⟨h, e⟩

theorem dedup_nodup (ns : List String) : (dedup ns).Nodup := by
  induction ns with
  | nil => simp [dedup]
  | cons m r ih =>
    simp only [dedup]
    exact List.nodup_cons.2 ⟨by simp [List.mem_filter], ih.filter _⟩

theorem dedup_of_nodup {ns : List String} (h : ns.Nodup) : dedup ns = ns := by
  induction ns with
  | nil => rfl
  | cons m r ih =>
    simp only [List.nodup_cons] at h
    simp only [dedup, ih h.2]
    congr 1
    rw [List.filter_eq_self]
    intro a ha; simp only [decide_eq_true_eq]; intro e; subst e; exact h.1 ha

/-- **selecting variables by name**: for names of the space, the key `(n₁, n₂, …)` yields the space
    `n₁, n₂, …` (requested order, repeated names once, dimensions as in the space) and column
    numbers that pick, from every row, exactly the cells of `n₁`, then those of `n₂`, … -/
theorem colKey_names (vs : Vars) (ns : List String) (h : ∀ n ∈ ns, n ∈ keys vs) :
    ∃ cols, colKey vs (.names ns) = .ok ((dedup ns).map (fun n => (n, dimOf vs n)), cols) ∧
      ∀ r : List α, r.length = vdim vs →
        gather r cols = some ((dedup ns).flatMap fun n => piece vs n r) := by
  refine ⟨((dedup ns).map fun n => (n, dimOf vs n)).flatMap (fun w => colsOf vs w.1), ?_, ?_⟩
  · have hk : ((Space.sub ⟨vs⟩ ns).vars.any fun w => !(keys vs).contains w.1) = false := by
      simp only [Space.sub, List.any_eq_false, List.mem_map, Bool.not_eq_true, Bool.not_eq_false',
        List.contains_eq_mem, decide_eq_true_eq]
      rintro w ⟨n, hn, rfl⟩
      exact h n (dedup_mem.1 hn)
    simp only [colKey, hk]
    rfl
  · intro r hr
    rw [List.flatMap_map]
    exact gather_flatMap_colsOf vs (dedup ns) r (fun n hn => h n (dedup_mem.1 hn)) hr

theorem colKey_name (vs : Vars) (n : String) (h : n ∈ keys vs) :
    colKey vs (.name n) = .ok ([(n, dimOf vs n)], colsOf vs n) := by
  simp only [colKey]
  rw [if_pos (by simpa using h)]
  rfl

theorem piece_cons_eq (m : String) (d : Nat) (vs' : Vars) (x y : List α) (hx : x.length = d) :
    piece ((m, d) :: vs') m (x ++ y) = x := by
  simp only [piece, offOf, dimOf, if_true, List.drop_zero]
  rw [List.take_append_of_le_length (by omega), List.take_of_length_le (by omega)]

theorem piece_cons_ne (m n : String) (d : Nat) (vs' : Vars) (x y : List α) (hx : x.length = d)
    (e : m ≠ n) : piece ((m, d) :: vs') n (x ++ y) = piece vs' n y := by
  simp only [piece, offOf, dimOf, e, if_false]
  rw [← List.drop_drop, ← hx, List.drop_left]

/-- in the selected row the cells stand under their names: reading variable `n` (by the offsets of
    the NEW space) from the selected row gives the cells of `n` in the original row -/
theorem piece_select (vs : Vars) (ns : List String) (r : List α) (n : String)
    (hns : ns.Nodup) (h : ∀ m ∈ ns, m ∈ keys vs) (hr : r.length = vdim vs) (hn : n ∈ ns) :
    piece (ns.map fun m => (m, dimOf vs m)) n (ns.flatMap fun m => piece vs m r) = piece vs n r := by
  induction ns with
  | nil => cases hn
  | cons m rest ih =>
    simp only [List.nodup_cons] at hns
    simp only [List.map_cons, List.flatMap_cons]
    have hlen : (piece vs m r).length = dimOf vs m := piece_length vs m r (h m (by simp)) hr
    by_cases e : m = n
    · subst e; exact piece_cons_eq _ _ _ _ _ hlen
    · have hn' : n ∈ rest := by
        rcases List.mem_cons.1 hn with h' | h'
        · exact absurd h'.symm e
        · exact h'
      rw [piece_cons_ne _ _ _ _ _ _ hlen e]
      exact ih hns.2 (fun k hk => h k (List.mem_cons_of_mem _ hk)) hn'

example : (Points.getitem (⟨⟨[("x", 1), ("t", 2)]⟩, [2], [[0, 1, 2], [3, 4, 5]]⟩ : Points Nat)
    (.tup [.slice .none .none none, .names ["t", "x"]])).toOption
    = some ⟨⟨[("t", 2), ("x", 1)]⟩, [2], [[1, 2, 0], [4, 5, 3]]⟩ := by decide


/-! ## round trip coordinates ↔ Points -/

theorem hcat_map {γ : Type} (cs : List γ) (g : γ → List α → List α) (data : List (List α)) :
    hcat (cs.map fun c => data.map (g c)) data.length
      = data.map fun r => (cs.map fun c => g c r).flatten := by
  induction cs with
  | nil => simp [hcat, List.map_const']
  | cons c rest ih =>
    simp only [List.map_cons, hcat, ih, List.flatten_cons]
    rw [List.zipWith_map, List.zipWith_self]

/-- the pieces of a row, in the order of the space, concatenate to the row -/
theorem pieces_flatten (vs : Vars) (hk : (keys vs).Nodup) (r : List α) (hr : r.length = vdim vs) :
    (vs.map fun v => piece vs v.1 r).flatten = r := by
  induction vs generalizing r with
  | nil =>
    simp only [vdim, List.map_nil, List.sum_nil] at hr
    simp [List.length_eq_zero_iff.1 hr]
  | cons v rest ih =>
    obtain ⟨m, d⟩ := v
    simp only [keys_cons, List.nodup_cons] at hk
    simp only [vdim, List.map_cons, List.sum_cons] at hr
    simp only [List.map_cons, List.flatten_cons]
    have h1 : piece ((m, d) :: rest) m r = r.take d := by
      simp [piece, offOf, dimOf]
    have h2 : (rest.map fun v => piece ((m, d) :: rest) v.1 r) = rest.map fun v => piece rest v.1 (r.drop d) := by
      apply List.map_congr_left
      intro v hv
      have e : m ≠ v.1 := fun e => hk.1 (e ▸ List.mem_map.2 ⟨v, hv, rfl⟩)
      simp only [piece, offOf, dimOf, e, if_false, List.drop_drop]
    rw [h1, h2, ih hk.2 (r.drop d) (by simp [vdim, List.length_drop]; omega)]
    exact List.take_append_drop d r

/-- **round trip**: reading the coordinates of a Points object and building Points from them gives
    the object back (space with its order, batch shape, every cell) -/
theorem from_coordinates_coords (p : Points α) (h : p.WF) (hk : p.space.Keyed) (hne : p.space.vars ≠ []) :
    Points.fromCoordinates p.coords = .ok p := by
  obtain ⟨v, rest, e⟩ := List.exists_cons_of_ne_nil hne
  obtain ⟨hs, hl, hrow⟩ := h
  have hany : (p.coords.any fun d => decide (d.shape ≠ p.shape)) = false := by
    simp [Points.coords]
  simp only [Points.fromCoordinates]
  have hc : p.coords = ⟨v.1, p.shape, v.2, p.data.map (piece p.space.vars v.1)⟩ ::
      (rest.map fun w => ⟨w.1, p.shape, w.2, p.data.map (piece p.space.vars w.1)⟩) := by
    simp [Points.coords, e]
  rw [hc] at hany ⊢
  simp only [hany, hs, if_false, Bool.false_eq_true]
  rw [← hc]
  have hsp : (p.coords.map fun d => (d.name, d.width)) = p.space.vars := by
    simp [Points.coords, List.map_map, Function.comp_def]
  have hdata : hcat (p.coords.map (·.rows)) (prodL p.shape) = p.data := by
    have : p.coords.map (·.rows) = p.space.vars.map fun w => p.data.map (piece p.space.vars w.1) := by
      simp [Points.coords, List.map_map, Function.comp_def]
    rw [this, ← hl, hcat_map p.space.vars (fun w => piece p.space.vars w.1) p.data]
    conv => rhs; rw [← List.map_id p.data]
    apply List.map_congr_left
    intro r hr
    exact pieces_flatten p.space.vars hk r (hrow r hr)
  rw [hsp, hdata]
  rfl

example : Points.fromCoordinates
    (Points.coords (⟨⟨[("x", 1), ("t", 2)]⟩, [2], [[0, 1, 2], [3, 4, 5]]⟩ : Points Nat))
    = .ok ⟨⟨[("x", 1), ("t", 2)]⟩, [2], [[0, 1, 2], [3, 4, 5]]⟩ :=
  from_coordinates_coords _ ⟨by decide, by decide, by decide⟩ (by simp [Space.Keyed, Space.names, keys]) (by decide)

/-! ## join -/

theorem piece_append_left (v1 v2 : Vars) (n : String) (x y : List α) (hn : n ∈ keys v1)
    (hx : x.length = vdim v1) : piece (v1 ++ v2) n (x ++ y) = piece v1 n x := by
  induction v1 generalizing x with
  | nil => cases hn
  | cons v rest ih =>
    obtain ⟨m, d⟩ := v
    simp only [vdim, List.map_cons, List.sum_cons] at hx
    have hxs : x = x.take d ++ x.drop d := (List.take_append_drop d x).symm
    have hl : (x.take d).length = d := by simp [List.length_take]; omega
    by_cases e : m = n
    · subst e
      simp only [piece, List.cons_append, offOf, dimOf, if_true, List.drop_zero]
      rw [List.take_append_of_le_length (by omega)]
    · have hn' : n ∈ keys rest := by
        rcases List.mem_cons.1 hn with h' | h'
        · exact absurd h'.symm e
        · exact h'
      rw [List.cons_append, hxs, List.append_assoc, piece_cons_ne _ _ _ _ _ _ hl e,
        piece_cons_ne _ _ _ _ _ _ hl e]
      exact ih (x.drop d) hn' (by simp [vdim, List.length_drop]; omega)

theorem piece_append_right (v1 v2 : Vars) (n : String) (x y : List α) (hn : n ∉ keys v1)
    (hx : x.length = vdim v1) : piece (v1 ++ v2) n (x ++ y) = piece v2 n y := by
  induction v1 generalizing x with
  | nil =>
    simp only [vdim, List.map_nil, List.sum_nil] at hx
    simp [List.length_eq_zero_iff.1 hx]
  | cons v rest ih =>
    obtain ⟨m, d⟩ := v
    simp only [vdim, List.map_cons, List.sum_cons] at hx
    simp only [keys_cons, List.mem_cons, not_or] at hn
    have hxs : x = x.take d ++ x.drop d := (List.take_append_drop d x).symm
    have hl : (x.take d).length = d := by simp [List.length_take]; omega
    rw [List.cons_append, hxs, List.append_assoc, piece_cons_ne _ _ _ _ _ _ hl (fun e => hn.1 e.symm)]
    exact ih (x.drop d) hn.2 (by simp [vdim, List.length_drop]; omega)

/-- the product of library-built spaces without common names is the concatenation of their items -/
theorem mul_disjoint (a b : Space) (ha : a.WF) (hb : b.WF) (hd : disjointKeys a b = true) :
    (a.mul b).vars = a.vars ++ b.vars := by
  simp only [Space.mul]
  congr 1
  · have : (a.vars.map fun v => (v.1, v.2 + dimOf b.vars v.1)) = a.vars := by
      conv => rhs; rw [← List.map_id a.vars]
      apply List.map_congr_left
      intro v hv
      simp only [disjointKeys, List.all_eq_true, Bool.not_eq_true', List.contains_eq_mem,
        decide_eq_false_iff_not] at hd
      have : v.1 ∉ keys b.vars := hd v.1 (List.mem_map.2 ⟨v, hv, rfl⟩)
      simp [dimOf_eq_zero_of_not_mem this]
    rw [this, List.filter_eq_self]
    intro v hv; simpa using ha.2 v hv
  · rw [List.filter_eq_self]
    intro v hv
    simp only [disjointKeys, List.all_eq_true, Bool.not_eq_true', List.contains_eq_mem,
      decide_eq_false_iff_not] at hd
    have h1 : v.1 ∉ keys a.vars := fun h => hd v.1 h (List.mem_map.2 ⟨v, hv, rfl⟩)
    simp [h1, hb.2 v hv]

/-- **join keeps rows, columns and names together**: for non-empty tables with the same batch shape
    and no common names, `p.join(q)` has the items of `p` then those of `q`, the batch shape of
    both, and row `i` is row `i` of `p` followed by row `i` of `q`; read by name, every variable of
    the joined row holds the cells it had in `p` resp. `q` -/
theorem join_spec (p q : Points α) (hp : p.WF) (hps : p.space.WF) (hqs : q.space.WF)
    (hpe : p.isempty = false) (hqe : q.isempty = false)
    (hd : disjointKeys p.space q.space = true) (hsh : p.shape = q.shape) :
    ∃ j, p.join q = .ok j ∧ j.space.vars = p.space.vars ++ q.space.vars ∧ j.shape = p.shape ∧
      j.data = List.zipWith (· ++ ·) p.data q.data ∧
      ∀ x ∈ p.data, ∀ y ∈ q.data,
        (∀ n ∈ p.space.names, piece j.space.vars n (x ++ y) = piece p.space.vars n x) ∧
        (∀ n ∈ q.space.names, piece j.space.vars n (x ++ y) = piece q.space.vars n y) := by
  refine ⟨⟨p.space.mul q.space, p.shape, List.zipWith (· ++ ·) p.data q.data⟩, ?_,
    mul_disjoint _ _ hps hqs hd, rfl, rfl, ?_⟩
  · simp [Points.join, hpe, hqe, hd, hsh]; rfl
  · intro x hx y hy
    simp only [mul_disjoint _ _ hps hqs hd]
    constructor
    · intro n hn
      exact piece_append_left _ _ n x y hn (hp.2.2 x hx)
    · intro n hn
      have : n ∉ keys p.space.vars := by
        intro h
        simp only [disjointKeys, List.all_eq_true, Bool.not_eq_true', List.contains_eq_mem,
          decide_eq_false_iff_not] at hd
        exact hd n h hn
      exact piece_append_right _ _ n x y this (hp.2.2 x hx)

example : (Points.join (⟨⟨[("x", 1)]⟩, [2], [[0], [1]]⟩ : Points Nat) ⟨⟨[("t", 2)]⟩, [2], [[5, 6], [7, 8]]⟩).toOption
    = some ⟨⟨[("x", 1), ("t", 2)]⟩, [2], [[0, 5, 6], [1, 7, 8]]⟩ := by decide

/-- **join is associative** on the rows: `(p ⋈ q) ⋈ r` and `p ⋈ (q ⋈ r)` have the same cells -/
theorem join_rows_assoc (a b c : List (List α)) :
    List.zipWith (· ++ ·) (List.zipWith (· ++ ·) a b) c = List.zipWith (· ++ ·) a (List.zipWith (· ++ ·) b c) := by
  induction a generalizing b c with
  | nil => simp
  | cons x xs ih =>
    cases b with
    | nil => simp
    | cons y ys =>
      cases c with
      | nil => simp
      | cons z zs => simp [ih, List.append_assoc]


/-! ## assignment -/

theorem writeCols_length (cs : List Nat) (r xs : List α) : (writeCols cs r xs).length = r.length := by
  induction cs generalizing r xs with
  | nil => simp [writeCols]
  | cons c cs ih =>
    cases xs with
    | nil => simp [writeCols]
    | cons x xs => simp [writeCols, ih]

/-- cells outside the addressed columns keep their value -/
theorem writeCols_get_not_mem (cs : List Nat) (r xs : List α) (c : Nat) (h : c ∉ cs) :
    (writeCols cs r xs)[c]? = r[c]? := by
  induction cs generalizing r xs with
  | nil => simp [writeCols]
  | cons c' cs ih =>
    simp only [List.mem_cons, not_or] at h
    cases xs with
    | nil => simp [writeCols]
    | cons x xs =>
      simp only [writeCols]
      rw [ih _ _ h.2, List.getElem?_set_ne (fun e => h.1 e.symm)]

/-- the addressed columns hold, in the order of the key, the assigned cells -/
theorem writeCols_gather (cs : List Nat) (r xs : List α) (hn : cs.Nodup) (hb : ∀ c ∈ cs, c < r.length)
    (hl : xs.length = cs.length) : gather (writeCols cs r xs) cs = some xs := by
  induction cs generalizing r xs with
  | nil =>
    have : xs = [] := List.length_eq_zero_iff.1 (by simpa using hl)
    subst this; rfl
  | cons c cs ih =>
    cases xs with
    | nil => simp at hl
    | cons x xs =>
      simp only [List.nodup_cons] at hn
      simp only [writeCols, gather]
      have h1 : (writeCols cs (r.set c x) xs)[c]? = some x := by
        rw [writeCols_get_not_mem _ _ _ _ hn.1]
        have : c < r.length := hb c (by simp)
        simp [List.getElem?_set_self this]
      have h2 := ih (r.set c x) xs hn.2 (fun c' hc' => by simpa using hb c' (List.mem_cons_of_mem _ hc'))
        (by simpa using hl)
      simp [h1, h2]

/-- rows that are not addressed keep all their cells -/
theorem writeRows_get_not_mem (cols : Option (List Nat)) (is : List Nat) (xs d : List (List α)) (i : Nat)
    (h : i ∉ is) : (writeRows cols is xs d)[i]? = d[i]? := by
  induction is generalizing xs d with
  | nil => simp [writeRows]
  | cons j is ih =>
    simp only [List.mem_cons, not_or] at h
    cases xs with
    | nil => simp [writeRows]
    | cons x xs =>
      simp only [writeRows]
      rw [ih _ _ h.2, List.getElem?_modify]
      have hji : ¬ j = i := fun e => h.1 e.symm
      simp [hji]

/-- an addressed row is the old row with the assigned cells written to the addressed columns -/
theorem writeRows_get_mem (cols : Option (List Nat)) (is : List Nat) (xs d : List (List α))
    (hn : is.Nodup) (hl : xs.length = is.length) (k : Nat) (hk : k < is.length) :
    (writeRows cols is xs d)[is[k]]? = (d[is[k]]?).bind fun r => (xs[k]?).map fun x => writeRow cols r x := by
  induction is generalizing xs d k with
  | nil => cases hk
  | cons j is ih =>
    cases xs with
    | nil => simp at hl
    | cons x xs =>
      simp only [List.nodup_cons] at hn
      simp only [writeRows]
      cases k with
      | zero =>
        simp only [List.getElem_cons_zero, List.getElem?_cons_zero]
        rw [writeRows_get_not_mem _ _ _ _ _ hn.1, List.getElem?_modify]
        cases d[j]? <;> simp
      | succ k =>
        simp only [List.getElem_cons_succ, List.getElem?_cons_succ]
        have hk' : k < is.length := by simpa using hk
        rw [ih _ _ hn.2 (by simpa using hl) k hk', List.getElem?_modify]
        have : j ≠ is[k] := fun e => hn.1 (e ▸ List.getElem_mem hk')
        simp [this]

/-- **assignment changes only the addressed cells**: `points[ix] = rhs` keeps space and shape; the
    new rows are the old rows with, for the k-th addressed row, the k-th (broadcast) row of `rhs`
    written to the columns of the key; every other row is untouched -/
theorem setitem_frame (p rhs p' : Points α) (ix : Index) (h : p.setitem ix rhs = .ok p') :
    p'.space = p.space ∧ p'.shape = p.shape ∧
    ∃ s rows, p.select ix = .ok s ∧ s.space = rhs.space.vars ∧ (flatIdx s.sels).Nodup ∧
      bcastRows (keptShape s.sels) (flatIdx s.sels).length rhs.shape rhs.data = .ok rows ∧
      p'.data = writeRows s.cols (flatIdx s.sels) rows p.data ∧
      ∀ i, i ∉ flatIdx s.sels → p'.data[i]? = p.data[i]? := by
  simp only [Points.setitem, bind, Except.bind] at h
  cases hs : p.select ix with
  | error e => simp [hs] at h
  | ok s =>
    simp only [hs] at h
    by_cases hsp : s.space = rhs.space.vars
    · simp only [hsp, ne_eq, not_true_eq_false, if_false] at h
      cases hb : bcastRows (keptShape s.sels) (flatIdx s.sels).length rhs.shape rhs.data with
      | error e => simp [hb] at h
      | ok rows =>
        simp only [hb, pure, Except.pure] at h
        by_cases hnd : (flatIdx s.sels).Nodup
        · simp only [hnd, not_true_eq_false, if_false, Except.ok.injEq] at h
          subst h
          exact ⟨rfl, rfl, s, rows, rfl, hsp, hnd, hb, rfl,
            fun i hi => writeRows_get_not_mem _ _ _ _ i hi⟩
        · simp [hnd] at h
    · simp [hsp] at h

example : (Points.setitem (⟨⟨[("x", 1), ("t", 2)]⟩, [3], [[0, 1, 2], [3, 4, 5], [6, 7, 8]]⟩ : Points Nat)
    (.tup [.list [2, 0], .names ["t"]]) ⟨⟨[("t", 2)]⟩, [2], [[10, 11], [20, 21]]⟩).toOption
    = some ⟨⟨[("x", 1), ("t", 2)]⟩, [3], [[0, 20, 21], [3, 4, 5], [6, 10, 11]]⟩ := by decide

/-! ## row concatenation, unsqueeze, arithmetic, equality -/

/-- **`p | q`**: same space, the rows of `p` followed by the rows of `q`, first batch axis added up -/
theorem cat_spec (p q : Points α) (a b : Nat) (rest : List Nat) (hp : p.shape = a :: rest)
    (hq : q.shape = b :: rest) (hs : q.space = p.space) (hpe : p.isempty = false) (hqe : q.isempty = false) :
    p.cat q = .ok ⟨p.space, (a + b) :: rest, p.data ++ q.data⟩ := by
  simp [Points.cat, hpe, hqe, hs, hp, hq]; rfl

/-- **`unsqueeze`** inserts a batch axis of length 1 and leaves space and rows alone -/
theorem unsqueeze_spec (p q : Points α) (d : Int) (h : p.unsqueeze d = .ok q) :
    q.space = p.space ∧ q.data = p.data ∧ prodL q.shape = prodL p.shape ∧
      q.shape.length = p.shape.length + 1 := by
  simp only [Points.unsqueeze] at h
  split at h
  · cases h
  · split at h
    · cases h
    · simp only [pure, Except.pure, Except.ok.injEq] at h
      subst h
      refine ⟨rfl, rfl, ?_, ?_⟩
      · generalize (if d < 0 then (d + ↑p.shape.length + 1).toNat else d.toNat) = pos
        have key : ∀ (l : List Nat) (k : Nat), prodL (l.take k ++ 1 :: l.drop k) = prodL l := by
          intro l
          induction l with
          | nil => intro k; simp [prodL]
          | cons a l ih =>
            intro k
            cases k with
            | zero => simp [prodL]
            | succ k => simp [prodL, ih k]
        exact key _ _
      · simp only [List.length_append, List.length_take, List.length_cons, List.length_drop]
        omega

/-- **arithmetic is cell-wise and keeps the names**: same space and shape, and under every name the
    cells are `f` of the cells under that name -/
theorem arith_spec (f : α → α → α) (p q r : Points α) (h : p.arith f q = .ok r) :
    r.space = p.space ∧ r.shape = p.shape ∧ q.space = p.space ∧
      r.data = List.zipWith (List.zipWith f) p.data q.data := by
  simp only [Points.arith, bind, Except.bind] at h
  by_cases hs : q.space = p.space
  · simp only [hs, ne_eq, not_true_eq_false, if_false] at h
    cases hb : sameOrBcast p.shape q.shape with
    | error e => simp [hb] at h
    | ok u =>
      simp only [hb, pure, Except.pure, Except.ok.injEq] at h
      subst h; exact ⟨rfl, rfl, hs, rfl⟩
  · simp [hs] at h

theorem piece_zipWith (f : α → α → α) (vs : Vars) (n : String) (x y : List α) :
    piece vs n (List.zipWith f x y) = List.zipWith f (piece vs n x) (piece vs n y) := by
  simp [piece, List.take_zipWith, List.drop_zipWith]

/-- **equality of Points is sensitive to the variable order** (and to shape and every cell) -/
theorem beq_iff [DecidableEq α] (p q : Points α) : p.beq q = true ↔ p = q := by
  cases p; cases q
  rename_i s1 sh1 d1 s2 sh2 d2
  cases s1; cases s2
  simp [Points.beq, and_assoc]

example : Points.beq (⟨⟨[("x", 1), ("t", 1)]⟩, [1], [[5, 5]]⟩ : Points Nat) ⟨⟨[("t", 1), ("x", 1)]⟩, [1], [[5, 5]]⟩ = false := by
  decide


/-! ## full-strength statements that were open after the first phase; all are proved in
    TPV.Props.C12b (`C12_mask_spec`, `C12_repeat_spec`, `C12_getitem_all`, `C12_coords_from`) -/

/-- the rows of `d` whose mask entry is true, in order -/
def maskRows {β : Type} : List β → List Bool → List β
  | a :: as, true :: bs => a :: maskRows as bs
  | _ :: as, false :: bs => maskRows as bs
  | _, _ => []

/-- boolean masking (one batch axis): exactly the rows with a true entry, in order, space unchanged -/
def C12_full_mask_spec : Prop :=
  ∀ (α : Type) (p : Points α) (bs : List Bool), p.WF → p.shape = [bs.length] →
    p.getitem (.one (.mask bs)) = .ok ⟨p.space, [(maskRows p.data bs).length], maskRows p.data bs⟩

example : (Points.getitem (⟨⟨[("x", 1)]⟩, [3], [[0], [1], [2]]⟩ : Points Nat) (.one (.mask [true, false, true]))).toOption
    = some ⟨⟨[("x", 1)]⟩, [(maskRows [[0], [1], [2]] [true, false, true]).length], maskRows [[0], [1], [2]] [true, false, true]⟩ := by
  decide

/-- `p.repeat(m)`: `m` copies of all rows, block after block, space unchanged -/
def C12_full_repeat_spec : Prop :=
  ∀ (α : Type) (p : Points α) (m : Nat) (q : Points α), p.WF → p.repeat [(m : Int)] = .ok q →
    q.space = p.space ∧ q.data = (List.replicate m p.data).flatten

example : (Points.repeat (⟨⟨[("x", 1)]⟩, [2, 1], [[0], [1]]⟩ : Points Nat) [2]).toOption.map (·.data)
    = some (List.replicate 2 [[0], [1]]).flatten := by decide

/-- `p[...]` is `p` -/
def C12_full_getitem_all : Prop :=
  ∀ (α : Type) (p : Points α), p.WF → p.getitem (.one .ell) = .ok p

example : (Points.getitem (⟨⟨[("x", 1)]⟩, [2, 1], [[0], [1]]⟩ : Points Nat) (.one .ell)).toOption
    = some ⟨⟨[("x", 1)]⟩, [2, 1], [[0], [1]]⟩ := by decide

/-- the other direction of the round trip: the coordinates of `from_coordinates(c)` are `c` -/
def C12_full_coords_from : Prop :=
  ∀ (α : Type) (cs : List (Coord α)) (p : Points α), (cs.map (·.name)).Nodup →
    (∀ c ∈ cs, c.rows.length = prodL c.shape ∧ ∀ r ∈ c.rows, r.length = c.width) →
    Points.fromCoordinates cs = .ok p → cs ≠ [] →
    p.coords.map (fun c => (c.name, c.shape, c.width, c.rows)) = cs.map (fun c => (c.name, c.shape, c.width, c.rows))

/- The invariant statement lives in TPV.Props.C12b (`history_inv`): it is stated over sequences of
   operations and needs, besides `Points.WF`, that the variable names are distinct (what a dict
   guarantees) — without that hypothesis it is false of the model and of the code's logic
   (a name-slice key addresses columns by name). -/

end TPV.Table
