/-
  C12 — Points and Space behave as a table with named column groups.
-/
import TPV.Model.Space
import TPV.Model.Points

namespace TPV.Table

/-- equality of spaces is order-sensitive: two spaces with the same items in a different order differ -/
theorem space_eq_order_sensitive (a b : Space) (h : a.vars ≠ b.vars) : a ≠ b := by
  intro e; exact h (by rw [e])

end TPV.Table
