/-
  C10 — volume() is the true measure of the domain (theorems; see design_notes/C10.md).
-/
import TPV.Model.GeomVol
import Mathlib.Algebra.Order.Field.Basic
import Mathlib.Tactic.Ring
import Mathlib.Tactic.Linarith

namespace TPV.Geom

/-- a user-set volume overrides whatever is below it -/
theorem user_override {K : Type} [Add K] [Sub K] [Mul K] [Div K] [Neg K] [LE K] [DecidableLE K]
    [OfNat K 0] [OfNat K 1] [OfNat K 2] [OfNat K 3] [OfNat K 4] [Transc K]
    (d : VDom K) (f : PFun K) (ρ : Env K) (x : K) (h : f.f ρ = [x]) :
    volume (.userVol d f) ρ = .ok (x, false) := by
  simp [volume, volAux, h]

end TPV.Geom
