/-
  C10 — volume() is the true measure of the domain.

  Model: TPV/Model/GeomVol.lean (`volume`, closed forms, `densityCount`, grids).  This file proves
    1. the closed forms are the Lebesgue measure (Mathlib) of the sets the primitives DENOTE (`mem` of
       Proofs/GeomSpec.lean, which Props/C05.lean proves to be what `_contains` decides): interval, disc,
       ball, parallelogram, triangle; positivity for both vertex orientations; the formulas of the pinned
       snapshot (3/4·π·r³, signed determinants) are refuted;
    2. the composition rules: the model's equations for union / cut / product / translation / rotation
       and the corresponding facts about arbitrary measurable sets (additivity for disjoint sets,
       subtractivity for contained ones, product measure, invariance under translations and under linear
       maps of determinant ±1); a value without warning only comes from fully declared expressions;
    3. user override; partial evaluation keeps the volume (and the pinned snapshot did not);
    4. counting: `densityCount = ⌈d·v⌉`, grid sizes.
-/
import TPV.Model.GeomVol
import TPV.Proofs.GeomSpec
import TPV.Props.C05
import Mathlib.MeasureTheory.Measure.Lebesgue.VolumeOfBalls
import Mathlib.MeasureTheory.Measure.Lebesgue.EqHaar
import Mathlib.MeasureTheory.Measure.Prod
import Mathlib.MeasureTheory.Constructions.Pi
import Mathlib.MeasureTheory.Integral.IntervalIntegral.FundThmCalculus
import Mathlib.Analysis.SpecialFunctions.Integrals.Basic
import Mathlib.Analysis.SpecialFunctions.Sqrt
import Mathlib.Analysis.SpecialFunctions.Trigonometric.Basic
import Mathlib.Analysis.InnerProductSpace.PiL2
import Mathlib.LinearAlgebra.Matrix.Determinant.Basic
import Mathlib.Algebra.Order.Floor.Ring
import Mathlib.Data.Rat.Floor

namespace TPV.Geom
open MeasureTheory Set Metric

/-- Lebesgue measure (`TPV.Geom.volume` is the model function) -/
local notation "μL" => MeasureTheory.MeasureSpace.volume

/-- the real instance of the transcendental operations the model is generic in -/
noncomputable instance (priority := high) instTranscRealC10 : Transc ℝ :=
  ⟨Real.sqrt, Real.cos, Real.sin, Real.arccos, fun x => x ^ ((1 : ℝ) / 3), Real.pi⟩

/-! ## 1. closed forms = Lebesgue measure -/

theorem interval_volume (l u : ℝ) : μL (Icc l u) = ENNReal.ofReal (intervalVol l u) := by
  simp [intervalVol, Real.volume_Icc]

/-- Lebesgue measure of the closed disc of radius `r` is the model's `π r²` -/
theorem disc_volume (c : EuclideanSpace ℝ (Fin 2)) (r : ℝ) (hr : 0 ≤ r) :
    μL (closedBall c r) = ENNReal.ofReal (circleVol r) := by
  rw [EuclideanSpace.volume_closedBall_fin_two]
  simp only [circleVol, Transc.pi]
  rw [← ENNReal.ofReal_pow hr, ← ENNReal.ofReal_mul (by positivity)]
  congr 1; ring

/-- Lebesgue measure of the closed ball of radius `r` in ℝ³ is the model's `4/3 π r³` -/
theorem ball_volume (c : EuclideanSpace ℝ (Fin 3)) (r : ℝ) (hr : 0 ≤ r) :
    μL (closedBall c r) = ENNReal.ofReal (sphereVol r) := by
  rw [EuclideanSpace.volume_closedBall_fin_three]
  simp only [sphereVol, Transc.pi]
  rw [← ENNReal.ofReal_pow hr, ← ENNReal.ofReal_mul (by positivity)]
  congr 1; ring

/-- the constant of the pinned snapshot (3/4) is NOT the volume of the unit ball -/
theorem ball_volume_old_wrong :
    μL (closedBall (0 : EuclideanSpace ℝ (Fin 3)) 1) ≠ ENNReal.ofReal (sphereVolOld 1) := by
  rw [ball_volume _ _ zero_le_one]
  intro h
  have hpos : (0:ℝ) < sphereVol 1 := by simp only [sphereVol, Transc.pi]; positivity
  have := (ENNReal.ofReal_eq_ofReal_iff hpos.le (by simp only [sphereVolOld, Transc.pi]; positivity)).1 h
  simp only [sphereVol, sphereVolOld, Transc.pi] at this
  nlinarith [Real.pi_pos]

/-- the linear map with columns `d1`, `d2` -/
noncomputable def colMap (d1 d2 : Fin 2 → ℝ) : (Fin 2 → ℝ) →ₗ[ℝ] (Fin 2 → ℝ) :=
  Matrix.toLin' (Matrix.of ![![d1 0, d2 0], ![d1 1, d2 1]])

/-- aux: the map is `q ↦ q₀ d₁ + q₁ d₂` -/
theorem colMap_apply (d1 d2 q : Fin 2 → ℝ) : colMap d1 d2 q = q 0 • d1 + q 1 • d2 := by
  ext i; fin_cases i <;> simp [colMap, Matrix.toLin'_apply, Matrix.mulVec, dotProduct, Fin.sum_univ_two] <;> ring

/-- aux: its determinant -/
theorem colMap_det (d1 d2 : Fin 2 → ℝ) : LinearMap.det (colMap d1 d2) = d1 0 * d2 1 - d1 1 * d2 0 := by
  simp [colMap, LinearMap.det_toLin', Matrix.det_fin_two]; ring

/-- the parallelogram with corner `o` spanned by `d1`, `d2`: `{o + s•d1 + t•d2 | s, t ∈ [0,1]}` -/
def parSet (o d1 d2 : Fin 2 → ℝ) : Set (Fin 2 → ℝ) :=
  {p | ∃ s t : ℝ, 0 ≤ s ∧ s ≤ 1 ∧ 0 ≤ t ∧ t ≤ 1 ∧ p = o + s • d1 + t • d2}

/-- the triangle with corners `o`, `o + d1`, `o + d2` -/
def triSet (o d1 d2 : Fin 2 → ℝ) : Set (Fin 2 → ℝ) :=
  {p | ∃ s t : ℝ, 0 ≤ s ∧ 0 ≤ t ∧ s + t ≤ 1 ∧ p = o + s • d1 + t • d2}

/-- the standard triangle -/
def stdTri : Set (Fin 2 → ℝ) := {q | 0 ≤ q 0 ∧ 0 ≤ q 1 ∧ q 0 + q 1 ≤ 1}

/-- aux: the parallelogram is the translated linear image of the unit square -/
theorem parSet_eq (o d1 d2 : Fin 2 → ℝ) : parSet o d1 d2 = (fun p => o + p) '' (colMap d1 d2 '' Icc 0 1) := by
  ext p
  simp only [parSet, mem_ofPred_eq, mem_image, mem_Icc, exists_exists_and_eq_and, colMap_apply]
  constructor
  · rintro ⟨s, t, hs0, hs1, ht0, ht1, rfl⟩
    refine ⟨![s, t], ⟨?_, ?_⟩, ?_⟩
    · intro i; fin_cases i <;> simp [hs0, ht0]
    · intro i; fin_cases i <;> simp [hs1, ht1]
    · simp [add_assoc]
  · rintro ⟨q, ⟨h0, h1⟩, rfl⟩
    exact ⟨q 0, q 1, h0 0, h1 0, h0 1, h1 1, by simp [add_assoc]⟩

/-- aux: the triangle is the translated linear image of the standard triangle -/
theorem triSet_eq (o d1 d2 : Fin 2 → ℝ) : triSet o d1 d2 = (fun p => o + p) '' (colMap d1 d2 '' stdTri) := by
  ext p
  simp only [triSet, stdTri, mem_ofPred_eq, mem_image, exists_exists_and_eq_and, colMap_apply]
  constructor
  · rintro ⟨s, t, hs0, ht0, hst, rfl⟩
    exact ⟨![s, t], by simpa using ⟨hs0, ht0, hst⟩, by simp [add_assoc]⟩
  · rintro ⟨q, ⟨h0, h1, h2⟩, rfl⟩
    exact ⟨q 0, q 1, h0, h1, h2, by simp [add_assoc]⟩

/-- aux: Lebesgue measure is translation invariant -/
theorem volume_image_add_left (o : Fin 2 → ℝ) (s : Set (Fin 2 → ℝ)) : μL ((fun p => o + p) '' s) = μL s := by
  rw [image_add_left, measure_preimage_add]

/-- area of the parallelogram `{o + s d₁ + t d₂ | s,t ∈ [0,1]}` is `|det(d₁,d₂)|` — for either orientation -/
theorem par_volume (o d1 d2 : Fin 2 → ℝ) :
    μL (parSet o d1 d2) = ENNReal.ofReal |d1 0 * d2 1 - d1 1 * d2 0| := by
  rw [parSet_eq, volume_image_add_left, Measure.addHaar_image_linearMap, colMap_det, Real.volume_Icc_pi]
  simp

/-- area of the standard triangle, by slicing -/
theorem stdTri_volume : μL stdTri = ENNReal.ofReal (1 / 2) := by
  have hmp := (volume_preserving_finTwoArrow ℝ)
  have hpre : stdTri = (MeasurableEquiv.finTwoArrow (α := ℝ)) ⁻¹' {p : ℝ × ℝ | 0 ≤ p.1 ∧ 0 ≤ p.2 ∧ p.1 + p.2 ≤ 1} := by
    ext q; simp [stdTri, MeasurableEquiv.finTwoArrow]
  have hmeas : MeasurableSet {p : ℝ × ℝ | 0 ≤ p.1 ∧ 0 ≤ p.2 ∧ p.1 + p.2 ≤ 1} := by
    apply IsClosed.measurableSet
    have h1 : IsClosed {p : ℝ × ℝ | 0 ≤ p.1} := isClosed_le continuous_const continuous_fst
    have h2 : IsClosed {p : ℝ × ℝ | 0 ≤ p.2} := isClosed_le continuous_const continuous_snd
    have h3 : IsClosed {p : ℝ × ℝ | p.1 + p.2 ≤ 1} := isClosed_le (continuous_fst.add continuous_snd) continuous_const
    exact h1.inter (h2.inter h3)
  rw [hpre, hmp.measure_preimage hmeas.nullMeasurableSet, Measure.volume_eq_prod, Measure.prod_apply hmeas]
  have hslice : ∀ x : ℝ, μL (Prod.mk x ⁻¹' {p : ℝ × ℝ | 0 ≤ p.1 ∧ 0 ≤ p.2 ∧ p.1 + p.2 ≤ 1})
      = (Icc (0:ℝ) 1).indicator (fun x => ENNReal.ofReal (1 - x)) x := by
    intro x
    by_cases hx : x ∈ Icc (0:ℝ) 1
    · have : Prod.mk x ⁻¹' {p : ℝ × ℝ | 0 ≤ p.1 ∧ 0 ≤ p.2 ∧ p.1 + p.2 ≤ 1} = Icc 0 (1 - x) := by
        ext y; simp only [mem_preimage, mem_ofPred_eq, mem_Icc]
        constructor
        · rintro ⟨_, h2, h3⟩; exact ⟨h2, by linarith⟩
        · rintro ⟨h2, h3⟩; exact ⟨hx.1, h2, by linarith⟩
      rw [this, indicator_of_mem hx, Real.volume_Icc]; simp
    · have : Prod.mk x ⁻¹' {p : ℝ × ℝ | 0 ≤ p.1 ∧ 0 ≤ p.2 ∧ p.1 + p.2 ≤ 1} = ∅ := by
        ext y; simp only [mem_preimage, mem_ofPred_eq, mem_empty_iff_false, iff_false]
        rintro ⟨h1, h2, h3⟩; exact hx ⟨h1, by linarith⟩
      rw [this, indicator_of_notMem hx]; simp
  simp_rw [hslice]
  rw [lintegral_indicator measurableSet_Icc]
  rw [← ofReal_integral_eq_lintegral_ofReal]
  · congr 1
    rw [integral_Icc_eq_integral_Ioc, ← intervalIntegral.integral_of_le zero_le_one]
    rw [intervalIntegral.integral_sub (by simp) (by simp)]
    simp [integral_id]
    norm_num
  · exact (continuous_const.sub continuous_id).integrableOn_Icc
  · exact (ae_restrict_iff' measurableSet_Icc).2 (Filter.Eventually.of_forall fun x hx => by simp only [Pi.zero_apply]; linarith [hx.2])

/-- area of the triangle `{o + s d₁ + t d₂ | s,t ≥ 0, s+t ≤ 1}` is `|det(d₁,d₂)|/2` — for either orientation -/
theorem tri_volume (o d1 d2 : Fin 2 → ℝ) :
    μL (triSet o d1 d2) = ENNReal.ofReal (|d1 0 * d2 1 - d1 1 * d2 0| / 2) := by
  rw [triSet_eq, volume_image_add_left, Measure.addHaar_image_linearMap, colMap_det, stdTri_volume,
    ← ENNReal.ofReal_mul (abs_nonneg _)]
  congr 1; ring

/-! ### the sets the primitives denote (`mem`) -/

theorem env_get_single (v : String) (l : List ℝ) : Env.get [(v, l)] v = some l := by
  simp [Env.get, List.lookup]

/-- the set `mem` assigns to a `Circle` (parameters independent of the point) is the closed Euclidean disc -/
theorem circle_denotation (v : String) (c r : PFun ℝ) (ρ : Env ℝ) (cx cy rr : ℝ)
    (hc : ∀ q, c.f ([(v, q)] ++ ρ) = [cx, cy]) (hr : ∀ q, r.f ([(v, q)] ++ ρ) = [rr]) :
    {p : EuclideanSpace ℝ (Fin 2) | mem (.circle v c r) [(v, [p 0, p 1])] ρ} = closedBall !₂[cx, cy] rr := by
  ext p
  simp only [mem, env_get_single, hc, hr, mem_ofPred_eq, mem_closedBall, EuclideanSpace.dist_eq, Fin.sum_univ_two,
    Real.sqrt_le_iff]
  constructor
  · rintro ⟨x, y, cx', cy', rr', h1, h2, h3, h4, h5⟩
    simp only [Option.some.injEq, List.cons.injEq, and_true] at h1 h2 h3
    obtain ⟨rfl, rfl⟩ := h1; obtain ⟨rfl, rfl⟩ := h2; subst h3
    refine ⟨h4, ?_⟩
    simpa [Real.dist_eq, sq_abs] using h5
  · rintro ⟨h4, h5⟩
    refine ⟨p 0, p 1, cx, cy, rr, rfl, rfl, rfl, h4, ?_⟩
    simpa [Real.dist_eq, sq_abs] using h5


/-- the set `mem` assigns to an `Interval` is `[l,u]` -/
theorem interval_denotation (v : String) (lb ub : PFun ℝ) (ρ : Env ℝ) (l u : ℝ)
    (hl : ∀ q, lb.f ([(v, q)] ++ ρ) = [l]) (hu : ∀ q, ub.f ([(v, q)] ++ ρ) = [u]) :
    {x : ℝ | mem (.interval v lb ub) [(v, [x])] ρ} = Icc l u := by
  ext x
  simp only [mem, env_get_single, hl, hu, mem_ofPred_eq, mem_Icc]
  constructor
  · rintro ⟨x', l', u', h1, h2, h3, h4, h5⟩
    simp only [Option.some.injEq, List.cons.injEq, and_true] at h1 h2 h3
    subst h1 h2 h3; exact ⟨h4, h5⟩
  · rintro ⟨h4, h5⟩; exact ⟨x, l, u, rfl, rfl, rfl, h4, h5⟩

/-- the set `mem` assigns to a `Parallelogram` is `parSet` -/
theorem par_denotation (v : String) (o c1 c2 : PFun ℝ) (ρ : Env ℝ) (ox oy ax ay bx cy : ℝ)
    (ho : ∀ q, o.f ([(v, q)] ++ ρ) = [ox, oy]) (h1 : ∀ q, c1.f ([(v, q)] ++ ρ) = [ax, ay])
    (h2 : ∀ q, c2.f ([(v, q)] ++ ρ) = [bx, cy]) :
    {p : Fin 2 → ℝ | mem (.par v o c1 c2) [(v, [p 0, p 1])] ρ}
      = parSet ![ox, oy] ![ax - ox, ay - oy] ![bx - ox, cy - oy] := by
  ext p
  simp only [mem, env_get_single, ho, h1, h2, mem_ofPred_eq, parSet]
  constructor
  · rintro ⟨x, y, ox', oy', ax', ay', bx', cy', s, t, e1, e2, e3, e4, hs0, hs1, ht0, ht1, hx, hy⟩
    simp only [Option.some.injEq, List.cons.injEq, and_true] at e1 e2 e3 e4
    obtain ⟨rfl, rfl⟩ := e1; obtain ⟨rfl, rfl⟩ := e2; obtain ⟨rfl, rfl⟩ := e3; obtain ⟨rfl, rfl⟩ := e4
    refine ⟨s, t, hs0, hs1, ht0, ht1, ?_⟩
    ext i; fin_cases i <;> simp [hx, hy]
  · rintro ⟨s, t, hs0, hs1, ht0, ht1, hp⟩
    refine ⟨p 0, p 1, ox, oy, ax, ay, bx, cy, s, t, rfl, rfl, rfl, rfl, hs0, hs1, ht0, ht1, ?_, ?_⟩
    · simpa using congrFun hp 0
    · simpa using congrFun hp 1

/-- the set `mem` assigns to a `Triangle` is `triSet` -/
theorem tri_denotation (v : String) (o c1 c2 : PFun ℝ) (ρ : Env ℝ) (ox oy ax ay bx cy : ℝ)
    (ho : ∀ q, o.f ([(v, q)] ++ ρ) = [ox, oy]) (h1 : ∀ q, c1.f ([(v, q)] ++ ρ) = [ax, ay])
    (h2 : ∀ q, c2.f ([(v, q)] ++ ρ) = [bx, cy]) :
    {p : Fin 2 → ℝ | mem (.tri v o c1 c2) [(v, [p 0, p 1])] ρ}
      = triSet ![ox, oy] ![ax - ox, ay - oy] ![bx - ox, cy - oy] := by
  ext p
  simp only [mem, env_get_single, ho, h1, h2, mem_ofPred_eq, triSet]
  constructor
  · rintro ⟨x, y, ox', oy', ax', ay', bx', cy', s, t, e1, e2, e3, e4, hs0, ht0, hst, hx, hy⟩
    simp only [Option.some.injEq, List.cons.injEq, and_true] at e1 e2 e3 e4
    obtain ⟨rfl, rfl⟩ := e1; obtain ⟨rfl, rfl⟩ := e2; obtain ⟨rfl, rfl⟩ := e3; obtain ⟨rfl, rfl⟩ := e4
    refine ⟨s, t, hs0, ht0, hst, ?_⟩
    ext i; fin_cases i <;> simp [hx, hy]
  · rintro ⟨s, t, hs0, ht0, hst, hp⟩
    refine ⟨p 0, p 1, ox, oy, ax, ay, bx, cy, s, t, rfl, rfl, rfl, rfl, hs0, ht0, hst, ?_, ?_⟩
    · simpa using congrFun hp 0
    · simpa using congrFun hp 1

/-- the set `mem` assigns to a `Sphere` is the closed Euclidean ball -/
theorem sphere_denotation (v : String) (c r : PFun ℝ) (ρ : Env ℝ) (cx cy cz rr : ℝ)
    (hc : ∀ q, c.f ([(v, q)] ++ ρ) = [cx, cy, cz]) (hr : ∀ q, r.f ([(v, q)] ++ ρ) = [rr]) :
    {p : EuclideanSpace ℝ (Fin 3) | mem (.sphere v c r) [(v, [p 0, p 1, p 2])] ρ} = closedBall !₂[cx, cy, cz] rr := by
  ext p
  simp only [mem, env_get_single, hc, hr, mem_ofPred_eq, mem_closedBall, EuclideanSpace.dist_eq, Fin.sum_univ_three,
    Real.sqrt_le_iff]
  constructor
  · rintro ⟨x, y, z, cx', cy', cz', rr', h1, h2, h3, h4, h5⟩
    simp only [Option.some.injEq, List.cons.injEq, and_true] at h1 h2 h3
    obtain ⟨rfl, rfl, rfl⟩ := h1; obtain ⟨rfl, rfl, rfl⟩ := h2; subst h3
    refine ⟨h4, ?_⟩
    simpa [Real.dist_eq, sq_abs] using h5
  · rintro ⟨h4, h5⟩
    refine ⟨p 0, p 1, p 2, cx, cy, cz, rr, rfl, rfl, rfl, h4, ?_⟩
    simpa [Real.dist_eq, sq_abs] using h5

/-- the model's parallelogram volume over ℝ is `|det|` -/
theorem parVol_eq (ox oy ax ay bx cy : ℝ) :
    parVol ox oy ax ay bx cy = |(ax - ox) * (cy - oy) - (ay - oy) * (bx - ox)| := by
  simp [parVol, det2, absK_eq]

/-- the model's triangle volume over ℝ is `|det|/2` -/
theorem triVol_eq (ox oy ax ay bx cy : ℝ) :
    triVol ox oy ax ay bx cy = |(ax - ox) * (cy - oy) - (ay - oy) * (bx - ox)| / 2 := by
  simp [triVol, det2, absK_eq]


/-! ### the model's `volume` of a primitive is the Lebesgue measure of the set it denotes -/

section sound
variable (v : String) (ρ : Env ℝ)

/-- Interval: `volume()` = Lebesgue measure of `{x | lb ≤ x ≤ ub}` (parameters evaluated at the row `ρ`) -/
theorem interval_volume_sound (lb ub : PFun ℝ) (l u : ℝ)
    (hl0 : lb.f ρ = [l]) (hu0 : ub.f ρ = [u])
    (hl : ∀ q, lb.f ([(v, q)] ++ ρ) = [l]) (hu : ∀ q, ub.f ([(v, q)] ++ ρ) = [u]) :
    volume (.interval v lb ub) ρ = .ok (intervalVol l u, false) ∧
    μL {x : ℝ | mem (.interval v lb ub) [(v, [x])] ρ} = ENNReal.ofReal (intervalVol l u) := by
  refine ⟨?_, ?_⟩
  · simp [volume, volAux, hl0, hu0]
  · rw [interval_denotation v lb ub ρ l u hl hu, interval_volume]

/-- Parallelogram: `volume()` = |det| = Lebesgue measure of the denoted set, for BOTH orientations -/
theorem par_volume_sound (o c1 c2 : PFun ℝ) (ox oy ax ay bx cy : ℝ)
    (e0 : o.f ρ = [ox, oy]) (e1 : c1.f ρ = [ax, ay]) (e2 : c2.f ρ = [bx, cy])
    (ho : ∀ q, o.f ([(v, q)] ++ ρ) = [ox, oy]) (h1 : ∀ q, c1.f ([(v, q)] ++ ρ) = [ax, ay])
    (h2 : ∀ q, c2.f ([(v, q)] ++ ρ) = [bx, cy]) :
    volume (.par v o c1 c2) ρ = .ok (parVol ox oy ax ay bx cy, false) ∧
    μL {p : Fin 2 → ℝ | mem (.par v o c1 c2) [(v, [p 0, p 1])] ρ} = ENNReal.ofReal (parVol ox oy ax ay bx cy) := by
  refine ⟨?_, ?_⟩
  · simp [volume, volAux, e0, e1, e2]
  · rw [par_denotation v o c1 c2 ρ ox oy ax ay bx cy ho h1 h2, par_volume, parVol_eq]
    simp

/-- Triangle: `volume()` = |det|/2 = Lebesgue measure of the denoted set, for BOTH orientations -/
theorem tri_volume_sound (o c1 c2 : PFun ℝ) (ox oy ax ay bx cy : ℝ)
    (e0 : o.f ρ = [ox, oy]) (e1 : c1.f ρ = [ax, ay]) (e2 : c2.f ρ = [bx, cy])
    (ho : ∀ q, o.f ([(v, q)] ++ ρ) = [ox, oy]) (h1 : ∀ q, c1.f ([(v, q)] ++ ρ) = [ax, ay])
    (h2 : ∀ q, c2.f ([(v, q)] ++ ρ) = [bx, cy]) :
    volume (.tri v o c1 c2) ρ = .ok (triVol ox oy ax ay bx cy, false) ∧
    μL {p : Fin 2 → ℝ | mem (.tri v o c1 c2) [(v, [p 0, p 1])] ρ} = ENNReal.ofReal (triVol ox oy ax ay bx cy) := by
  refine ⟨?_, ?_⟩
  · simp [volume, volAux, e0, e1, e2]
  · rw [tri_denotation v o c1 c2 ρ ox oy ax ay bx cy ho h1 h2, tri_volume, triVol_eq]
    simp

/-- Disc: `volume()` = π r² = Lebesgue measure of the denoted closed disc -/
theorem circle_volume_sound (c r : PFun ℝ) (cx cy rr : ℝ) (h0 : 0 ≤ rr) (e : r.f ρ = [rr])
    (hc : ∀ q, c.f ([(v, q)] ++ ρ) = [cx, cy]) (hr : ∀ q, r.f ([(v, q)] ++ ρ) = [rr]) :
    volume (.circle v c r) ρ = .ok (circleVol rr, false) ∧
    μL {p : EuclideanSpace ℝ (Fin 2) | mem (.circle v c r) [(v, [p 0, p 1])] ρ} = ENNReal.ofReal (circleVol rr) := by
  refine ⟨?_, ?_⟩
  · simp [volume, volAux, e]
  · rw [circle_denotation v c r ρ cx cy rr hc hr, disc_volume _ _ h0]

/-- Ball: `volume()` = 4/3 π r³ = Lebesgue measure of the denoted closed ball -/
theorem sphere_volume_sound (c r : PFun ℝ) (cx cy cz rr : ℝ) (h0 : 0 ≤ rr) (e : r.f ρ = [rr])
    (hc : ∀ q, c.f ([(v, q)] ++ ρ) = [cx, cy, cz]) (hr : ∀ q, r.f ([(v, q)] ++ ρ) = [rr]) :
    volume (.sphere v c r) ρ = .ok (sphereVol rr, false) ∧
    μL {p : EuclideanSpace ℝ (Fin 3) | mem (.sphere v c r) [(v, [p 0, p 1, p 2])] ρ} = ENNReal.ofReal (sphereVol rr) := by
  refine ⟨?_, ?_⟩
  · simp [volume, volAux, e]
  · rw [sphere_denotation v c r ρ cx cy cz rr hc hr, ball_volume _ _ h0]

end sound


/-! ### orientation, positivity -/

section field
variable {K : Type} [Field K] [LinearOrder K] [IsStrictOrderedRing K]

/-- positive for BOTH vertex orientations (only degenerate shapes have measure 0) -/
theorem parVol_pos [Transc K] (ox oy ax ay bx cy : K) (hdet : (ax - ox) * (cy - oy) - (ay - oy) * (bx - ox) ≠ 0) :
    0 < parVol ox oy ax ay bx cy := by
  simp only [parVol, det2, absK_eq]; exact abs_pos.2 hdet

/-- same for the triangle -/
theorem triVol_pos [Transc K] (ox oy ax ay bx cy : K) (hdet : (ax - ox) * (cy - oy) - (ay - oy) * (bx - ox) ≠ 0) :
    0 < triVol ox oy ax ay bx cy := by
  simp only [triVol, det2, absK_eq]; exact div_pos (abs_pos.2 hdet) (by norm_num)

/-- exchanging the two corners (the other orientation) does not change the volume -/
theorem parVol_swap [Transc K] (ox oy ax ay bx cy : K) : parVol ox oy bx cy ax ay = parVol ox oy ax ay bx cy := by
  simp only [parVol, det2, absK_eq]
  rw [← abs_neg]; congr 1; ring

/-- same for the triangle -/
theorem triVol_swap [Transc K] (ox oy ax ay bx cy : K) : triVol ox oy bx cy ax ay = triVol ox oy ax ay bx cy := by
  simp only [triVol, det2, absK_eq]
  rw [← abs_neg]; congr 2; ring

omit [LinearOrder K] [IsStrictOrderedRing K] in
/-- the formula of the pinned snapshot is the SIGNED area: negative for clockwise corners -/
theorem parVolOld_clockwise_negative [Transc K] : parVolOld (0:K) 0 0 1 1 0 = -1 ∧ triVolOld (0:K) 0 0 1 1 0 = -1/2 := by
  constructor <;> simp [parVolOld, triVolOld, det2]

/-- the repaired formulas are the absolute values of the old ones (so they agree on counter-clockwise shapes) -/
theorem parVolOld_eq [Transc K] (ox oy ax ay bx cy : K) :
    parVol ox oy ax ay bx cy = |parVolOld ox oy ax ay bx cy| ∧ triVol ox oy ax ay bx cy = |triVolOld ox oy ax ay bx cy| := by
  constructor
  · simp [parVol, parVolOld, absK_eq]
  · simp only [triVol, triVolOld, det2, absK_eq, abs_div, abs_two]
    congr 2; ring
end field

/-- surface measures over ℝ are positive -/
theorem bdry_vols_pos (r : ℝ) (hr : 0 < r) : 0 < circleBdryVol r ∧ 0 < sphereBdryVol r ∧ 0 < circleVol r ∧ 0 < sphereVol r := by
  simp only [circleBdryVol, sphereBdryVol, circleVol, sphereVol, Transc.pi]
  have := Real.pi_pos
  refine ⟨by positivity, by positivity, by positivity, by positivity⟩

/-- perimeter of the parallelogram: twice the sum of the Euclidean side lengths -/
theorem parBdryVol_eq (ox oy ax ay bx cy : ℝ) :
    parBdryVol ox oy ax ay bx cy = 2 * (√((ax - ox) ^ 2 + (ay - oy) ^ 2) + √((bx - ox) ^ 2 + (cy - oy) ^ 2)) := by
  simp [parBdryVol, norm2, Transc.sqrt, pow_two]

/-- perimeter of the triangle: sum of the three Euclidean side lengths -/
theorem triBdryVol_eq (ox oy ax ay bx cy : ℝ) :
    triBdryVol ox oy ax ay bx cy = √((ax - ox) ^ 2 + (ay - oy) ^ 2) + √((bx - ax) ^ 2 + (cy - ay) ^ 2)
      + √((ox - bx) ^ 2 + (oy - cy) ^ 2) := by
  simp [triBdryVol, norm2, Transc.sqrt, pow_two]

/-! ## 2. composition rules -/

section model_rules
variable {K : Type} [Add K] [Sub K] [Mul K] [Div K] [Neg K] [LE K] [DecidableLE K]
  [OfNat K 0] [OfNat K 1] [OfNat K 2] [OfNat K 3] [OfNat K 4] [Transc K]

/-- union (solid or boundary): `|a| + |b|`; a warning unless declared disjoint (children's warnings propagate) -/
theorem vol_union (onB dj : Bool) (a b : VDom K) (ρ : Env K) (va vb : K) (ea eb : Bool)
    (ha : volAux onB a ρ = .ok (va, ea)) (hb : volAux onB b ρ = .ok (vb, eb)) :
    volAux onB (.union dj a b) ρ = .ok (va + vb, !dj || ea || eb) := by
  cases onB <;> simp [volAux, ha, hb, bind, Except.bind, pure, Except.pure]

/-- cut declared contained: `|a| − |b|`, no warning of its own -/
theorem vol_cut_contained (a b : VDom K) (ρ : Env K) (va vb : K) (ea eb : Bool)
    (ha : volAux false a ρ = .ok (va, ea)) (hb : volAux false b ρ = .ok (vb, eb)) :
    volAux false (.cut true a b) ρ = .ok (va - vb, ea || eb) := by
  simp [volAux, ha, hb, bind, Except.bind, pure, Except.pure]

/-- cut not declared: the estimate `|a|` with a warning; `b` is not evaluated -/
theorem vol_cut_estimate (a b : VDom K) (ρ : Env K) (va : K) (ea : Bool)
    (ha : volAux false a ρ = .ok (va, ea)) :
    volAux false (.cut false a b) ρ = .ok (va, true) := by
  simp [volAux, ha, bind, Except.bind, pure, Except.pure]

/-- intersection: always the estimate `|a|` with a warning -/
theorem vol_inter_estimate (a b : VDom K) (ρ : Env K) (va : K) (ea : Bool)
    (ha : volAux false a ρ = .ok (va, ea)) :
    volAux false (.inter a b) ρ = .ok (va, true) := by
  simp [volAux, ha, bind, Except.bind, pure, Except.pure]

/-- product of independent factors: `|a| · |b|` -/
theorem vol_prod (a b : VDom K) (ρ : Env K) (va vb : K) (ea eb : Bool) (hc : prodConstant a b = true)
    (ha : volAux false a ρ = .ok (va, ea)) (hb : volAux false b ρ = .ok (vb, eb)) :
    volAux false (.prod a b) ρ = .ok (va * vb, ea || eb) := by
  simp [volAux, hc, ha, hb, bind, Except.bind, pure, Except.pure]

/-- translation: the volume of the inner domain, unchanged -/
theorem vol_translate (onB : Bool) (v : String) (d : VDom K) (t : PFun K) (ρ : Env K) :
    volAux onB (.translate v d t) ρ = volAux onB d ρ := by
  cases onB <;> simp [volAux]

/-- rotation: the volume of the inner domain, unchanged -/
theorem vol_rotate (onB : Bool) (v : String) (d : VDom K) (m c : PFun K) (ρ : Env K) :
    volAux onB (.rotate v d m c) ρ = volAux onB d ρ := by
  cases onB <;> simp [volAux]

/-- which nodes make `volume()` an estimate -/
def Declared : Bool → VDom K → Prop
  | _, .interval .. | _, .par .. | _, .tri .. | _, .circle .. | _, .sphere .. | _, .point .. => True
  | onB, .union dj a b => dj = true ∧ Declared onB a ∧ Declared onB b
  | false, .cut ct a b => ct = true ∧ Declared false a ∧ Declared false b
  | true, .cut ct a b => ct = true ∧ Declared true a ∧ Declared true b
  | _, .inter _ _ => False
  | false, .prod a b => Declared false a ∧ Declared false b
  | true, .prod _ _ => False
  | onB, .translate _ d _ | onB, .rotate _ d _ _ => Declared onB d
  | false, .bdry d => Declared true d
  | true, .bdry _ => True
  | _, .bdryL _ | _, .bdryR _ => True
  | false, .userVol _ _ => True
  | true, .userVol d _ => Declared true d

/-- no silent estimates: a value without warning comes from an expression in which every union is
    declared disjoint, every cut contained, and there is no intersection (below the user overrides) -/
theorem exact_only_if_declared (d : VDom K) : ∀ (onB : Bool) (ρ : Env K) (x : K),
    volAux onB d ρ = .ok (x, false) → Declared onB d := by
  induction d with
  | interval | par | tri | circle | sphere | point => intros; trivial
  | union dj a b iha ihb =>
    intro onB ρ x h
    cases ha : volAux onB a ρ with
    | error e => cases onB <;> simp [volAux, ha, bind, Except.bind] at h
    | ok va =>
      cases hb : volAux onB b ρ with
      | error e => cases onB <;> simp [volAux, ha, hb, bind, Except.bind] at h
      | ok vb =>
        obtain ⟨va, ea⟩ := va; obtain ⟨vb, eb⟩ := vb
        rw [vol_union onB dj a b ρ va vb ea eb ha hb] at h
        simp only [Except.ok.injEq, Prod.mk.injEq, Bool.or_eq_false_iff, Bool.not_eq_eq_eq_not, Bool.not_false] at h
        obtain ⟨_, ⟨h1, h2⟩, h3⟩ := h
        subst h2 h3
        exact ⟨h1, iha onB ρ va ha, ihb onB ρ vb hb⟩
  | cut ct a b iha ihb =>
    intro onB ρ x h
    cases onB with
    | false =>
      cases ha : volAux false a ρ with
      | error e => simp [volAux, ha, bind, Except.bind] at h
      | ok va =>
        obtain ⟨va, ea⟩ := va
        cases ct with
        | false => simp [volAux, ha, bind, Except.bind, pure, Except.pure] at h
        | true =>
          cases hb : volAux false b ρ with
          | error e => simp [volAux, ha, hb, bind, Except.bind] at h
          | ok vb =>
            obtain ⟨vb, eb⟩ := vb
            rw [vol_cut_contained a b ρ va vb ea eb ha hb] at h
            simp only [Except.ok.injEq, Prod.mk.injEq, Bool.or_eq_false_iff] at h
            obtain ⟨_, h2, h3⟩ := h
            subst h2 h3
            exact ⟨rfl, iha false ρ va ha, ihb false ρ vb hb⟩
    | true =>
      cases ha : volAux true a ρ with
      | error e => simp [volAux, ha, bind, Except.bind] at h
      | ok va =>
        cases hb : volAux true b ρ with
        | error e => simp [volAux, ha, hb, bind, Except.bind] at h
        | ok vb =>
          obtain ⟨va, ea⟩ := va; obtain ⟨vb, eb⟩ := vb
          simp only [volAux, ha, hb, bind, Except.bind, pure, Except.pure, Except.ok.injEq, Prod.mk.injEq,
            Bool.or_eq_false_iff, Bool.not_eq_eq_eq_not, Bool.not_false] at h
          obtain ⟨_, ⟨h1, h2⟩, h3⟩ := h
          subst h2 h3
          exact ⟨h1, iha true ρ va ha, ihb true ρ vb hb⟩
  | inter a b iha ihb =>
    intro onB ρ x h
    cases onB with
    | false =>
      cases ha : volAux false a ρ with
      | error e => simp [volAux, ha, bind, Except.bind] at h
      | ok va => simp [volAux, ha, bind, Except.bind, pure, Except.pure] at h
    | true =>
      cases ha : volAux true a ρ with
      | error e => simp [volAux, ha, bind, Except.bind] at h
      | ok va =>
        cases hb : volAux true b ρ with
        | error e => simp [volAux, ha, hb, bind, Except.bind] at h
        | ok vb => simp [volAux, ha, hb, bind, Except.bind, pure, Except.pure] at h
  | prod a b iha ihb =>
    intro onB ρ x h
    cases onB with
    | false =>
      by_cases hc : prodConstant a b = true
      · cases ha : volAux false a ρ with
        | error e => simp [volAux, hc, ha, bind, Except.bind] at h
        | ok va =>
          cases hb : volAux false b ρ with
          | error e => simp [volAux, hc, ha, hb, bind, Except.bind] at h
          | ok vb =>
            obtain ⟨va, ea⟩ := va; obtain ⟨vb, eb⟩ := vb
            rw [vol_prod a b ρ va vb ea eb hc ha hb] at h
            simp only [Except.ok.injEq, Prod.mk.injEq, Bool.or_eq_false_iff] at h
            obtain ⟨_, h2, h3⟩ := h
            subst h2 h3
            exact ⟨iha false ρ va ha, ihb false ρ vb hb⟩
      · simp [volAux, hc] at h
    | true =>
      by_cases hc : prodConstant a b = true
      · simp only [volAux, hc, if_true] at h
        cases h1 : volAux true a ρ with
        | error e => simp [h1, bind, Except.bind] at h
        | ok oa =>
          cases h2 : volAux false b ρ with
          | error e => simp [h1, h2, bind, Except.bind] at h
          | ok vb =>
            cases h3 : volAux false a ρ with
            | error e => simp [h1, h2, h3, bind, Except.bind] at h
            | ok va =>
              cases h4 : volAux true b ρ with
              | error e => simp [h1, h2, h3, h4, bind, Except.bind] at h
              | ok ob => simp [h1, h2, h3, h4, bind, Except.bind, pure, Except.pure] at h
      · simp [volAux, hc] at h
  | translate v d t ih => intro onB ρ x h; rw [vol_translate] at h; exact ih onB ρ x h
  | rotate v d m c ih => intro onB ρ x h; rw [vol_rotate] at h; exact ih onB ρ x h
  | bdry d ih =>
    intro onB ρ x h
    cases onB with
    | false => exact ih true ρ x (by simpa [volAux] using h)
    | true => trivial
  | bdryL d ih => intros; trivial
  | bdryR d ih => intros; trivial
  | userVol d f ih =>
    intro onB ρ x h
    cases onB with
    | false => trivial
    | true => exact ih true ρ x (by simpa [volAux] using h)

end model_rules

/-! ### … about arbitrary measurable sets -/

theorem disjoint_union_add {α : Type} [MeasurableSpace α] (μ : Measure α) (A B : Set α)
    (hB : MeasurableSet B) (hd : Disjoint A B) (va vb : ℝ) (h0a : 0 ≤ va) (h0b : 0 ≤ vb)
    (hA : μ A = ENNReal.ofReal va) (hB' : μ B = ENNReal.ofReal vb) :
    μ (A ∪ B) = ENNReal.ofReal (va + vb) := by
  rw [measure_union hd hB, hA, hB', ENNReal.ofReal_add h0a h0b]

/-- measure fact behind `vol_cut_contained`: subtractivity for a contained measurable set of finite measure -/
theorem contained_cut_sub {α : Type} [MeasurableSpace α] (μ : Measure α) (A B : Set α)
    (hB : MeasurableSet B) (hsub : B ⊆ A) (va vb : ℝ) (h0b : 0 ≤ vb)
    (hA : μ A = ENNReal.ofReal va) (hB' : μ B = ENNReal.ofReal vb) :
    μ (A \ B) = ENNReal.ofReal (va - vb) := by
  rw [measure_sdiff hsub hB.nullMeasurableSet (by rw [hB']; exact ENNReal.ofReal_ne_top), hA, hB',
    ENNReal.ofReal_sub _ h0b]

/-- measure fact behind `vol_prod`: the product measure of a rectangle is the product of the measures -/
theorem product_mul {α β : Type} [MeasurableSpace α] [MeasurableSpace β] (μ : Measure α) (ν : Measure β)
    [SigmaFinite ν] (A : Set α) (B : Set β) (va vb : ℝ) (h0a : 0 ≤ va)
    (hA : μ A = ENNReal.ofReal va) (hB : ν B = ENNReal.ofReal vb) :
    (μ.prod ν) (A ×ˢ B) = ENNReal.ofReal (va * vb) := by
  rw [Measure.prod_prod, hA, hB, ENNReal.ofReal_mul h0a]

/-- measure fact behind `vol_translate`: Lebesgue measure of a translated set (any dimension) -/
theorem translation_invariant {n : ℕ} (t : Fin n → ℝ) (A : Set (Fin n → ℝ)) :
    μL ((fun q => q + t) '' A) = μL A := by
  rw [image_add_right, measure_preimage_add_right]

/-- the map `q ↦ M (q − c) + c` of `Rotate` -/
noncomputable def rotMap (m00 m01 m10 m11 cx cy : ℝ) (q : Fin 2 → ℝ) : Fin 2 → ℝ :=
  ![m00 * (q 0 - cx) + m01 * (q 1 - cy) + cx, m10 * (q 0 - cx) + m11 * (q 1 - cy) + cy]

/-- aux: the 2×2 matrix applied to a vector -/
theorem rotLin_apply (m00 m01 m10 m11 : ℝ) (q : Fin 2 → ℝ) :
    Matrix.toLin' (Matrix.of ![![m00, m01], ![m10, m11]]) q = ![m00 * q 0 + m01 * q 1, m10 * q 0 + m11 * q 1] := by
  ext i; fin_cases i <;> simp [Matrix.toLin'_apply, Matrix.mulVec, dotProduct, Fin.sum_univ_two]

/-- measure fact behind `vol_rotate`: the image of ANY set under `q ↦ M(q − c) + c` has the same Lebesgue measure when `|det M| = 1` (rotations, reflections) -/
theorem rotation_invariant (m00 m01 m10 m11 cx cy : ℝ) (hdet : |m00 * m11 - m01 * m10| = 1)
    (A : Set (Fin 2 → ℝ)) :
    μL (rotMap m00 m01 m10 m11 cx cy '' A) = μL A := by
  have hfun : rotMap m00 m01 m10 m11 cx cy = (fun q => q + ![cx, cy]) ∘
      (Matrix.toLin' (Matrix.of ![![m00, m01], ![m10, m11]])) ∘ (fun q => q + ![-cx, -cy]) := by
    funext q; ext i
    simp only [Function.comp_apply, rotLin_apply]
    fin_cases i <;> simp [rotMap] <;> ring
  have hdetL : LinearMap.det (Matrix.toLin' (Matrix.of ![![m00, m01], ![m10, m11]])) = m00 * m11 - m01 * m10 := by
    simp [LinearMap.det_toLin', Matrix.det_fin_two]
  rw [hfun, image_comp, image_comp, translation_invariant, Measure.addHaar_image_linearMap, hdetL, hdet,
    translation_invariant]
  simp


/-! ## 3. user override, partial evaluation -/

/-- **user override**: a volume set with `set_volume` replaces whatever is below it, without warning -/
theorem user_override {K : Type} [Add K] [Sub K] [Mul K] [Div K] [Neg K] [LE K] [DecidableLE K]
    [OfNat K 0] [OfNat K 1] [OfNat K 2] [OfNat K 3] [OfNat K 4] [Transc K]
    (d : VDom K) (f : PFun K) (ρ : Env K) (x : K) (h : f.f ρ = [x]) :
    volume (.userVol d f) ρ = .ok (x, false) := by
  simp [volume, volAux, h]

/-- … also through a translation / rotation (`Translate.set_volume` hands the value to the inner domain) -/
theorem user_override_motion {K : Type} [Add K] [Sub K] [Mul K] [Div K] [Neg K] [LE K] [DecidableLE K]
    [OfNat K 0] [OfNat K 1] [OfNat K 2] [OfNat K 3] [OfNat K 4] [Transc K]
    (v : String) (d : VDom K) (f t m c : PFun K) (ρ : Env K) (x : K) (h : f.f ρ = [x]) :
    volume (.translate v (.userVol d f) t) ρ = .ok (x, false) ∧ volume (.rotate v (.userVol d f) m c) ρ = .ok (x, false) := by
  simp [volume, volAux, h]

/-- non-vacuity: `Circle(r = 2).set_volume(5)` -/
example : volume (VDom.userVol (.circle "x" (.const [0, 0]) (.const [2])) (.const [5])) ([] : Env ℝ) = .ok (5, false) :=
  user_override _ _ _ 5 rfl


section peval
variable {K : Type} [Add K] [Sub K] [Mul K] [Div K] [Neg K] [LE K] [DecidableLE K]
  [OfNat K 0] [OfNat K 1] [OfNat K 2] [OfNat K 3] [OfNat K 4] [Transc K]

/-- binding `σ` does not change which products are "constant" (true whenever `σ` binds no coordinate
    variable of the expression: `prodConstant` only looks at coordinate variables of the second factor) -/
def ProdStable (σ : Env K) : VDom K → Prop
  | .interval .. | .par .. | .tri .. | .circle .. | .sphere .. | .point .. => True
  | .prod a b => prodConstant (a.peval σ) (b.peval σ) = prodConstant a b ∧ ProdStable σ a ∧ ProdStable σ b
  | .union _ a b | .cut _ a b | .inter a b => ProdStable σ a ∧ ProdStable σ b
  | .translate _ d _ | .rotate _ d _ _ | .bdry d | .bdryL d | .bdryR d => ProdStable σ d
  | .userVol d _ => ProdStable σ d

omit [Add K] [Sub K] [Mul K] [Div K] [Neg K] [LE K] [DecidableLE K] [OfNat K 0] [OfNat K 1] [OfNat K 2] [OfNat K 3] [OfNat K 4] [Transc K] in
/-- aux: a partially evaluated parameter sees the bound values -/
theorem pfun_peval_f (p : PFun K) (σ e : Env K) : (p.peval σ).f e = p.f (e ++ σ) := rfl

/-- **partial evaluation keeps the volume**: `D(**σ).volume(ρ) = D.volume(ρ ∪ σ)`, value and warning — for every
    expression, user overrides included -/
theorem peval_volAux (σ : Env K) (d : VDom K) : ∀ (onB : Bool) (ρ : Env K), ProdStable σ d →
    volAux onB (d.peval σ) ρ = volAux onB d (ρ ++ σ) := by
  induction d with
  | interval v lb ub => intro onB ρ _; cases onB <;> simp [VDom.peval, volAux, pfun_peval_f]
  | par v o c1 c2 => intro onB ρ _; simp [VDom.peval, volAux, pfun_peval_f]
  | tri v o c1 c2 => intro onB ρ _; simp [VDom.peval, volAux, pfun_peval_f]
  | circle v c r => intro onB ρ _; simp [VDom.peval, volAux, pfun_peval_f]
  | sphere v c r => intro onB ρ _; simp [VDom.peval, volAux, pfun_peval_f]
  | point v p => intro onB ρ _; cases onB <;> simp [VDom.peval, volAux]
  | union dj a b iha ihb =>
    intro onB ρ hp
    cases onB <;> simp [VDom.peval, volAux, iha _ ρ hp.1, ihb _ ρ hp.2]
  | cut ct a b iha ihb =>
    intro onB ρ hp
    cases onB <;> simp [VDom.peval, volAux, iha _ ρ hp.1, ihb _ ρ hp.2]
  | inter a b iha ihb =>
    intro onB ρ hp
    cases onB <;> simp [VDom.peval, volAux, iha _ ρ hp.1, ihb _ ρ hp.2]
  | prod a b iha ihb =>
    intro onB ρ hp
    cases onB <;> simp [VDom.peval, volAux, hp.1, iha _ ρ hp.2.1, ihb _ ρ hp.2.2]
  | translate v d t ih => intro onB ρ hp; cases onB <;> simp [VDom.peval, volAux, ih _ ρ hp]
  | rotate v d m c ih => intro onB ρ hp; cases onB <;> simp [VDom.peval, volAux, ih _ ρ hp]
  | bdry d ih => intro onB ρ hp; cases onB <;> simp [VDom.peval, volAux, ih _ ρ hp]
  | bdryL d ih =>
    intro onB ρ hp
    cases d <;> cases onB <;> simp [VDom.peval, volAux]
  | bdryR d ih =>
    intro onB ρ hp
    cases d <;> cases onB <;> simp [VDom.peval, volAux]
  | userVol d f ih =>
    intro onB ρ hp
    cases onB <;> simp [VDom.peval, volAux, pfun_peval_f, ih _ ρ hp]

/-- the same for `volume` -/
theorem peval_volume (σ : Env K) (d : VDom K) (ρ : Env K) (hp : ProdStable σ d) :
    volume (d.peval σ) ρ = volume d (ρ ++ σ) := peval_volAux σ d false ρ hp
end peval

/-- the pinned snapshot forgot the `contained` declaration in `__call__`: `[0, 2+t] \ [0,1]` evaluated at
    `t = 1/2` had volume 5/2 instead of 3/2 -/
theorem pevalOld_changes_volume :
    let A : VDom ℝ := .interval "y" (.const [0]) ⟨["t"], fun e => match e.get "t" with | some [t] => [2 + t] | _ => []⟩
    let B : VDom ℝ := .interval "y" (.const [0]) (.const [1])
    let σ : Env ℝ := [("t", [1/2])]
    volume (VDom.cut true A B) σ = .ok (3/2, false) ∧
    volume ((VDom.cut true A B).peval σ) [] = .ok (3/2, false) ∧
    volume ((VDom.cut true A B).pevalOld σ) [] = .ok (5/2, true) := by
  refine ⟨?_, ?_, ?_⟩ <;>
    simp [volume, volAux, VDom.peval, VDom.pevalOld, PFun.peval, PFun.const, Env.get, List.lookup, intervalVol, bind,
      Except.bind, pure, Except.pure] <;> norm_num

/-! ## induction steps at the level of the denoted sets (the full induction is in Props/C10Sound.lean) -/

/-- the set a one-variable 2-D expression denotes -/
def S2 (v : String) (e : Dom ℝ) (ρ : Env ℝ) : Set (Fin 2 → ℝ) := {p | mem e [(v, [p 0, p 1])] ρ}

/-- induction step for unions, at the level of the denoted sets -/
theorem union_step (v : String) (ea eb : Dom ℝ) (ρ : Env ℝ) (va vb : ℝ) (h0a : 0 ≤ va) (h0b : 0 ≤ vb)
    (hm : MeasurableSet (S2 v eb ρ)) (hd : Disjoint (S2 v ea ρ) (S2 v eb ρ))
    (ha : μL (S2 v ea ρ) = ENNReal.ofReal va) (hb : μL (S2 v eb ρ) = ENNReal.ofReal vb) :
    μL (S2 v (.union ea eb) ρ) = ENNReal.ofReal (va + vb) := by
  have : S2 v (.union ea eb) ρ = S2 v ea ρ ∪ S2 v eb ρ := by ext p; simp [S2, mem]
  rw [this]; exact disjoint_union_add _ _ _ hm hd va vb h0a h0b ha hb

/-- induction step for cuts -/
theorem cut_step (v : String) (ea eb : Dom ℝ) (ρ : Env ℝ) (va vb : ℝ) (h0b : 0 ≤ vb)
    (hm : MeasurableSet (S2 v eb ρ)) (hsub : S2 v eb ρ ⊆ S2 v ea ρ)
    (ha : μL (S2 v ea ρ) = ENNReal.ofReal va) (hb : μL (S2 v eb ρ) = ENNReal.ofReal vb) :
    μL (S2 v (.cut ea eb) ρ) = ENNReal.ofReal (va - vb) := by
  have : S2 v (.cut ea eb) ρ = S2 v ea ρ \ S2 v eb ρ := by ext p; simp [S2, mem]
  rw [this]; exact contained_cut_sub _ _ _ hm hsub va vb h0b ha hb

/-- induction step for translations by a vector that does not depend on the point -/
theorem translate_step (v : String) (e : Dom ℝ) (t : PFun ℝ) (ρ : Env ℝ) (tx ty : ℝ)
    (ht : ∀ q, t.f ([(v, q)] ++ ρ) = [tx, ty]) :
    μL (S2 v (.translate v e t) ρ) = μL (S2 v e ρ) := by
  have : S2 v (.translate v e t) ρ = (fun q => q + ![tx, ty]) '' S2 v e ρ := by
    ext p
    simp only [S2, mem, env_get_single, ht, mem_ofPred_eq, mem_image]
    constructor
    · rintro (⟨q, x, tx', h1, h2, _⟩ | ⟨q1, q2, x, y, tx', ty', h1, h2, hx, hy, hm⟩ | ⟨q1, q2, q3, x, y, z, tx', ty', tz', h1, h2, _⟩)
      · simp at h1
      · simp only [Option.some.injEq, List.cons.injEq, and_true] at h1 h2
        obtain ⟨rfl, rfl⟩ := h1; obtain ⟨rfl, rfl⟩ := h2
        refine ⟨![q1, q2], by simpa using hm, ?_⟩
        ext i; fin_cases i <;> simp [hx, hy]
      · simp at h1
    · rintro ⟨q, hq, rfl⟩
      right; left
      exact ⟨q 0, q 1, _, _, tx, ty, rfl, rfl, by simp, by simp, by simpa using hq⟩
  rw [this, translation_invariant]


/-! ## 4. counting -/


theorem densityCount_eq_ceil (d v : ℚ) : densityCount d v = ⌈d * v⌉ := by
  apply eq_of_forall_ge_iff
  intro z
  rw [densityCount, Rat.ceil_le_iff, Int.ceil_le]

/-- … i.e. the unique integer with `n − 1 < d·v ≤ n` -/
theorem densityCount_spec (d v : ℚ) :
    d * v ≤ densityCount d v ∧ ((densityCount d v : ℤ) : ℚ) - 1 < d * v := by
  rw [densityCount_eq_ceil]
  refine ⟨Int.le_ceil _, ?_⟩
  have := Int.ceil_lt_add_one (d * v)
  linarith

/-- a positive density on a domain of positive measure asks for at least one point -/
theorem densityCount_pos (d v : ℚ) (h : 0 < d * v) : 1 ≤ densityCount d v := by
  rw [densityCount_eq_ceil]; exact Int.one_le_ceil_iff.2 h

/-- the product domain truncates instead: `⌊d·v⌋` -/
theorem densityCountProd_eq_floor (d v : ℚ) : densityCountProd d v = ⌊d * v⌋ := by
  apply eq_of_forall_le_iff
  intro z
  rw [densityCountProd, Rat.le_floor_iff, Int.le_floor]

/-- parallelogram grid: `n₁·n₂ ≤ n` -/
theorem gridDims_le (n s1 s2 : ℝ) (hn : 0 ≤ n) (h1 : 0 < s1) (h2 : 0 < s2) :
    (((gridDims (fun x : ℝ => ⌊x⌋₊) n s1 s2).1 * (gridDims (fun x : ℝ => ⌊x⌋₊) n s1 s2).2 : ℕ) : ℝ) ≤ n := by
  simp only [gridDims, Transc.sqrt, Nat.cast_mul]
  have ha : 0 ≤ n * s1 / s2 := by positivity
  have hb : 0 ≤ n * s2 / s1 := by positivity
  calc ((⌊√(n * s1 / s2)⌋₊ : ℝ)) * (⌊√(n * s2 / s1)⌋₊ : ℝ)
      ≤ √(n * s1 / s2) * √(n * s2 / s1) :=
        mul_le_mul (Nat.floor_le (Real.sqrt_nonneg _)) (Nat.floor_le (Real.sqrt_nonneg _)) (Nat.cast_nonneg _) (Real.sqrt_nonneg _)
    _ = √((n * s1 / s2) * (n * s2 / s1)) := (Real.sqrt_mul ha _).symm
    _ = √(n ^ 2) := by congr 1; field_simp
    _ = n := Real.sqrt_sq hn

/-- the barycentric grid is the complete `n₁ × n₂` product lattice -/
theorem baryLattice_length (n1 n2 : ℕ) : (baryLattice n1 n2).length = n1 * n2 := by
  simp [baryLattice, List.length_flatMap, Nat.mul_comm]

/-- the triangle grid is a sub-lattice of the parallelogram grid -/
theorem triGrid_length_le (n1 n2 : ℕ) : (triGrid n1 n2).length ≤ n1 * n2 := by
  rw [← baryLattice_length]; exact List.length_filter_le _ _

/-- the interval grid has exactly `n` points -/
theorem intervalLattice_length (l u : ℚ) (n : ℕ) : (intervalLattice l u n).length = n := by
  simp [intervalLattice]

/-- the lattice of the triangle for `n = 5` (`2n = 10` proposals, equal legs): `3 × 3`, of which 6 > 5 are kept -/
theorem tri_density_grid_can_exceed :
    gridDims (fun x : ℝ => ⌊x⌋₊) 10 1 1 = (3, 3) ∧ (triGrid 3 3).length = 6 ∧ 5 < (triGrid 3 3).length := by
  have h3 : ⌊√(10:ℝ)⌋₊ = 3 := by
    rw [Nat.floor_eq_iff (Real.sqrt_nonneg _)]
    constructor
    · rw [show ((3:ℕ):ℝ) = √(3^2) by rw [Real.sqrt_sq (by norm_num)]; norm_num]
      exact Real.sqrt_le_sqrt (by norm_num)
    · rw [show ((3:ℕ):ℝ) + 1 = √(4^2) by rw [Real.sqrt_sq (by norm_num)]; norm_num]
      exact Real.sqrt_lt_sqrt (by norm_num) (by norm_num)
  refine ⟨?_, by decide +kernel, by decide +kernel⟩
  simp [gridDims, Transc.sqrt, h3]
/-! ### examples (non-vacuity) -/

/-- a parameter-dependent CLOCKWISE parallelogram (corners `[0,0]`, `[0,1+t]`, `[2,0]`) at `t = 1`:
    all hypotheses of `par_volume_sound` hold and the volume is `+4` -/
example : volume (K := ℝ) (VDom.par "x" (.const [0, 0]) ⟨["t"], fun e => match e.get "t" with | some [t] => [0, 1 + t] | _ => []⟩
      (.const [2, 0])) [("t", [(1:ℝ)])] = .ok (parVol 0 0 0 2 2 0, false) ∧ parVol (0:ℝ) 0 0 2 2 0 = 4 := by
  refine ⟨(par_volume_sound "x" [("t", [(1:ℝ)])] (.const [0, 0])
    ⟨["t"], fun e => match e.get "t" with | some [t] => [0, 1 + t] | _ => []⟩ (.const [2, 0]) 0 0 0 2 2 0
    rfl (by simp [Env.get, List.lookup]; norm_num) rfl (fun _ => rfl)
    (fun q => by simp [Env.get, List.lookup]; norm_num) (fun _ => rfl)).1, ?_⟩
  rw [parVol_eq]; norm_num

example : volume (VDom.sphere "z" (.const [0, 0, 0]) (.const [2])) ([] : Env ℝ) = .ok (sphereVol 2, false) :=
  (sphere_volume_sound "z" [] (.const [0, 0, 0]) (.const [2]) 0 0 0 2 (by norm_num) rfl (fun _ => rfl) (fun _ => rfl)).1

example : volume (VDom.circle "x" (.const [0, 0]) (.const [2])) ([] : Env ℝ) = .ok (circleVol 2, false) :=
  (circle_volume_sound "x" [] (.const [0, 0]) (.const [2]) 0 0 2 (by norm_num) rfl (fun _ => rfl) (fun _ => rfl)).1

example : volume (VDom.tri "x" (.const [0, 0]) (.const [0, 1]) (.const [1, 0])) ([] : Env ℝ) = .ok (triVol 0 0 0 1 1 0, false)
    ∧ triVol (0:ℝ) 0 0 1 1 0 = 1 / 2 := by
  refine ⟨(tri_volume_sound "x" [] (.const [0, 0]) (.const [0, 1]) (.const [1, 0]) 0 0 0 1 1 0 rfl rfl rfl
    (fun _ => rfl) (fun _ => rfl) (fun _ => rfl)).1, ?_⟩
  rw [triVol_eq]; norm_num

example : volume (VDom.interval "y" (.const [1]) (.const [3])) ([] : Env ℝ) = .ok (intervalVol 1 3, false) :=
  (interval_volume_sound "y" [] (.const [1]) (.const [3]) 1 3 rfl rfl (fun _ => rfl) (fun _ => rfl)).1

/-- a declared union of a declared cut and a translated disc: exact (no warning) and `Declared` -/
example : Declared (K := ℝ) false (.union true (.cut true (.circle "x" (.const [0,0]) (.const [2])) (.circle "x" (.const [0,0]) (.const [1])))
    (.translate "x" (.circle "x" (.const [0,0]) (.const [1])) (.const [8, 0]))) := by
  simp [Declared]

example : densityCount 10 (1/3) = 4 ∧ densityCountProd 10 (1/3) = 3 := by decide +kernel
example : (baryLattice 2 3).length = 6 ∧ (triGrid 2 2).length = 3 ∧ (triGridStrict 2 2).length = 1 := by decide +kernel
/-- the unit square turned by the rational rotation (3/5, 4/5) about (1,2) still has area 1 -/
example : μL (rotMap (3/5) (-4/5) (4/5) (3/5) 1 2 '' parSet ![0,0] ![1,0] ![0,1]) = ENNReal.ofReal 1 := by
  rw [rotation_invariant _ _ _ _ _ _ (by norm_num), par_volume]; norm_num
example : ProdStable (K := ℝ) [("t", [1])] (.prod (.circle "x" (.const [0,0]) (⟨["t"], fun _ => [1]⟩ : PFun ℝ)) (.interval "s" (.const [0]) (.const [1]))) := by
  simp [ProdStable, prodConstant, VDom.peval, VDom.vars, VDom.freeVars, PFun.peval, PFun.const, dedup, Env.get, List.lookup]

end TPV.Geom
