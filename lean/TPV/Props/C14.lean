/-
  C14 — conditions are isolated from each other and repeatable.
  Theorems about the world model `TPV.Model.CondWorld` (histories of construct / evaluate operations over
  shared user dicts).  `…New` = the code after the repair, `…Old` = the code before it.
-/
import TPV.Model.CondWorld
import TPV.Props.C04
import Mathlib.Algebra.Order.Field.Rat
import Mathlib.Tactic.Ring

namespace TPV.Cond
open TPV.CondExpr

set_option linter.unusedSectionVars false
section isolation
variable {K : Type} [Add K] [Sub K] [Mul K] [Neg K] [Div K] [OfNat K 0] [NatCast K] [LT K] [DecidableLT K]

/-- FRAME: no operation of the repaired code changes any user dict -/
theorem stepNew_dicts (w : World K) (op : Op K) : (stepNew w op).1.dicts = w.dicts := rfl

theorem runNew_dicts : ∀ (ops : List (Op K)) (w : World K), (runNew w ops).1.dicts = w.dicts
  | [], _ => rfl
  | op :: ops, w => by
    show (runWith stepNew (stepNew w op).1 ops).1.dicts = w.dicts
    exact (runNew_dicts ops (stepNew w op).1).trans (stepNew_dicts w op)

/-- an operation of ANOTHER condition leaves this condition's state alone -/
theorem stepNew_other (w : World K) (op : Op K) (cid : Nat) (h : op.cid ≠ cid) :
    (stepNew w op).1.conds cid = w.conds cid := by
  simp only [stepNew, setConds]
  rw [if_neg (Ne.symm h)]

/-- an operation of THIS condition is a function of the user dicts and this condition's state only -/
theorem stepNew_own (w₁ w₂ : World K) (op : Op K) (hd : w₁.dicts = w₂.dicts)
    (hc : w₁.conds op.cid = w₂.conds op.cid) :
    (stepNew w₁ op).2 = (stepNew w₂ op).2 ∧ (stepNew w₁ op).1.conds op.cid = (stepNew w₂ op).1.conds op.cid := by
  simp only [stepNew, setConds, if_true, hd, hc, and_self]

/-- ISOLATION, all histories: from two worlds that agree on the user dicts and on condition `cid`, running
    ANY history in company and running only `cid`'s own operations produce the same outputs for `cid` and
    leave `cid` in the same state -/
theorem isolation_aux (cid : Nat) : ∀ (ops : List (Op K)) (w₁ w₂ : World K), w₁.dicts = w₂.dicts →
    w₁.conds cid = w₂.conds cid →
    outsOf cid (runNew w₁ ops).2 = outsOf cid (runNew w₂ (alone cid ops)).2 ∧
      (runNew w₁ ops).1.conds cid = (runNew w₂ (alone cid ops)).1.conds cid
  | [], _, _, _, hc => ⟨rfl, hc⟩
  | op :: ops, w₁, w₂, hd, hc => by
    by_cases h : op.cid = cid
    · have hfil : alone cid (op :: ops) = op :: alone cid ops := by
        simp [alone, h]
      rw [hfil]
      have hown := stepNew_own w₁ w₂ op hd (h ▸ hc)
      have ih := isolation_aux cid ops (stepNew w₁ op).1 (stepNew w₂ op).1
        (by rw [stepNew_dicts, stepNew_dicts, hd]) (h ▸ hown.2)
      refine ⟨?_, ih.2⟩
      show outsOf cid ((op.cid, (stepNew w₁ op).2) :: (runNew (stepNew w₁ op).1 ops).2) =
        outsOf cid ((op.cid, (stepNew w₂ op).2) :: (runNew (stepNew w₂ op).1 (alone cid ops)).2)
      simp only [outsOf, List.filter_cons, h, beq_self_eq_true, if_true, List.map_cons, hown.1]
      have := ih.1
      simp only [outsOf] at this
      rw [this]
    · have hfil : alone cid (op :: ops) = alone cid ops := by
        simp [alone, h]
      rw [hfil]
      have ih := isolation_aux cid ops (stepNew w₁ op).1 w₂
        (by rw [stepNew_dicts, hd]) (by rw [stepNew_other w₁ op cid h, hc])
      refine ⟨?_, ih.2⟩
      show outsOf cid ((op.cid, (stepNew w₁ op).2) :: (runNew (stepNew w₁ op).1 ops).2) = _
      have hb : (op.cid == cid) = false := by simpa using h
      simp only [outsOf, List.filter_cons, hb, Bool.false_eq_true, if_false]
      exact ih.1

/-- ISOLATION (the property): for every world, every history of constructions and evaluations — any number
    of conditions, any sharing of user dicts, any order — every condition returns exactly the losses it
    returns when it is constructed and evaluated ALONE, and every user dict is left as it was -/
theorem isolation (w : World K) (ops : List (Op K)) (cid : Nat) :
    outsOf cid (runNew w ops).2 = outsOf cid (runNew w (alone cid ops)).2 ∧ (runNew w ops).1.dicts = w.dicts :=
  ⟨(isolation_aux cid ops w w rfl rfl).1, runNew_dicts ops w⟩

/-- REPEATABILITY: a condition with a static sampler evaluated twice in a row (no optimisation step in
    between, whatever other conditions do in between, whatever its sampler would draw) returns the same
    loss -/
theorem static_repeatable (dicts : List (UDict K)) (c : CondState K) (hs : c.static = true)
    (fresh₁ fresh₂ : List (List K)) (cid : Nat) :
    let r₁ := stepCondNew dicts (some c) (.eval cid fresh₁)
    (stepCondNew dicts r₁.1 (.eval cid fresh₂)).2 = r₁.2 := by
  simp only [stepCondNew, drawPoints, hs, if_true]
  cases hc : c.cache with
  | some pts =>
    simp only
    cases hl : smLoss c.spec c.space pts <;> simp [hl]
  | none =>
    simp only
    cases hl : smLoss c.spec c.space fresh₁ <;> simp [hl]

/-- the USER may change a dict of theirs at any time (add, remove, replace entries): an evaluation of a condition that
    was constructed before does not look at the user's dicts at all — it keeps behaving as constructed -/
theorem eval_ignores_user_dicts (dicts dicts' : List (UDict K)) (st : Option (CondState K)) (cid : Nat)
    (fresh : List (List K)) :
    stepCondNew dicts st (.eval cid fresh) = stepCondNew dicts' st (.eval cid fresh) := rfl

end isolation

/-! ## the code before the repair violated the property -/

section negative

/-- u = x,  residual = u − f,  shared data function f(x) = 3x -/
def c14Net : Net Rat := peNet [("x", 1)] [("u", 1)] [.var "x" 0]
def c14Spec : SMCond Rat :=
  { net := some c14Net, resid := peUFun ["u", "f"] [] [.sub (.var "u" 0) (.var "f" 0)],
    dataFns := [], params := [], err := .sq, red := .mean }
def c14Dict : UDict Rat := [("f", .raw (peUFun ["x"] [] [.mul (.const 3) (.var "x" 0)]))]
/-- two conditions with static samplers constructed from ONE dict, then the second one is evaluated -/
def c14History : List (Op Rat) :=
  [.construct 1 0 c14Spec [("x", 1)] true [[1], [2]],
   .construct 2 0 c14Spec [("x", 1)] true [[10], [20]],
   .eval 2 [[7], [8]]]

def lossesOf (outs : List (Out Rat)) : List (Option Rat) :=
  outs.map fun o => match o with
    | .loss l => some l
    | _ => none

def dictTags (w : World Rat) : List (List (String × String)) := w.dicts.map fun d => d.map fun p => (p.1, p.2.tag)

/-- BEFORE the repair: the second condition, in company, computes its loss from the tensor the FIRST
    condition pre-evaluated on its own points (u − f = 10 − 3, 20 − 6: loss 245/2) instead of its own data
    (10 − 30, 20 − 60: loss 1000, which is what it returns alone); and the user's dict now holds a tensor.
    AFTER the repair the same history returns the alone value and leaves the dict as it was. -/
theorem isolation_old_false :
    lossesOf (outsOf 2 (runOld (World.init [c14Dict]) c14History).2) = [none, some (245 / 2)] ∧
    lossesOf (outsOf 2 (runOld (World.init [c14Dict]) (alone 2 c14History)).2) = [none, some 1000] ∧
    dictTags (runOld (World.init [c14Dict]) c14History).1 = [[("f", "tensor")]] ∧
    lossesOf (outsOf 2 (runNew (World.init [c14Dict]) c14History).2) = [none, some 1000] ∧
    dictTags (runNew (World.init [c14Dict]) c14History).1 = [[("f", "raw")]] := by
  decide +kernel

theorem setupEntries_static_pre (space : SpaceL) (pts : List (List Rat)) (d : UDict Rat)
    (left : List (String × DataFn Rat)) (h : setupEntries space true pts d = .ok left) :
    ∀ q ∈ left, ∃ rows, q.2 = DataFn.pre rows := by
  have hf := mapM_ok_forall₂ _ _ h
  clear h
  induction hf with
  | nil => intro q hq; simp at hq
  | @cons p q' d left hpq _ ih =>
    intro q hq
    rcases List.mem_cons.mp hq with rfl | hq'
    · obtain ⟨n, e⟩ := p
      cases e with
      | tensor rows =>
        simp only [pure, Except.pure, Except.ok.injEq] at hpq
        exact ⟨rows, by rw [← hpq]⟩
      | raw u =>
        simp only [if_true, bind, Except.bind] at hpq
        split at hpq
        · simp at hpq
        · simp only [pure, Except.pure, Except.ok.injEq] at hpq
          exact ⟨_, by rw [← hpq]⟩
      | wrapped u =>
        simp only [if_true, bind, Except.bind] at hpq
        split at hpq
        · simp at hpq
        · simp only [pure, Except.pure, Except.ok.injEq] at hpq
          exact ⟨_, by rw [← hpq]⟩
    · exact ih q hq'

/-- BEFORE the repair a periodic condition with a static sampler set up its left and its right data from
    the SAME dict one after the other: the second pass finds the tensors the first pass wrote and keeps
    them — the "right" data ARE the left data, whatever the right points are (for every dict, all points) -/
theorem periodic_old_right_is_left (space : SpaceL) (ptsL ptsR : List (List Rat)) (d : UDict Rat)
    (left : List (String × DataFn Rat)) (hl : setupEntries space true ptsL d = .ok left) :
    setupEntries space true ptsR (toEntries left) = .ok left := by
  have hpre := setupEntries_static_pre space ptsL d left hl
  clear hl
  unfold setupEntries toEntries
  induction left with
  | nil => rfl
  | cons p left ih =>
    obtain ⟨rows, hp⟩ := hpre p (List.mem_cons_self ..)
    have ih' := ih (fun q hq => hpre q (List.mem_cons_of_mem _ hq))
    obtain ⟨n, f⟩ := p
    simp only at hp
    subst hp
    simp only [List.map_cons, List.mapM_cons, bind, Except.bind, pure, Except.pure] at ih' ⊢
    rw [ih']

/-- AFTER the repair the right data are the functions evaluated on the RIGHT points: witness with
    f(x) = 3x, left point 0, right point 1 -/
theorem periodic_new_sides :
    (setupEntries [("x", 1)] true [[(0 : Rat)]] c14Dict).toOption.map (·.map fun p => (p.1, match p.2 with
        | DataFn.pre rows => rows
        | _ => [])) = some [("f", [[0]])] ∧
    (setupEntries [("x", 1)] true [[(1 : Rat)]] c14Dict).toOption.map (·.map fun p => (p.1, match p.2 with
        | DataFn.pre rows => rows
        | _ => [])) = some [("f", [[3]])] := by
  decide +kernel

/-! ## non-vacuity -/

-- a static condition evaluated twice with different would-be draws returns the same loss; a non-static one does not
example : lossesOf (outsOf 2 (runNew (World.init [c14Dict]) (c14History ++ [.eval 2 [[0], [0]]])).2) =
    [none, some 1000, some 1000] := by decide +kernel
example : lossesOf (outsOf 3 (runNew (World.init [c14Dict])
    [.construct 3 0 c14Spec [("x", 1)] false [], .eval 3 [[1], [2]], .eval 1 [[5]], .eval 3 [[1], [3]]]).2) =
    [none, some 10, some 20] := by decide +kernel
-- two conditions sharing one dict, interleaved with a third: each computes what it computes alone
example : lossesOf (outsOf 1 (runNew (World.init [c14Dict]) (c14History ++ [.eval 1 [[0], [0]]])).2) = [none, some 10] ∧
    lossesOf (outsOf 1 (runNew (World.init [c14Dict]) (alone 1 (c14History ++ [.eval 1 [[0], [0]]]))).2) = [none, some 10] := by
  decide +kernel

end negative

end TPV.Cond
