/-
  C05 — membership tests agree with the set the domain expression denotes.
  Property theorems (helper lemmas: TPV/Proofs/GeomLemmas.lean; specification: TPV/Proofs/GeomSpec.lean).
-/
import TPV.Proofs.GeomLemmas
import Mathlib.Analysis.SpecialFunctions.Sqrt
import Mathlib.Algebra.Order.Field.Rat
import Mathlib.Tactic.NormNum

namespace TPV.Geom
set_option linter.unusedSectionVars false
variable {K : Type} [Field K] [LinearOrder K] [IsStrictOrderedRing K]

/-- **Main theorem.** For every solid domain expression (any nesting of union / cut / intersection /
    product / translation / rotation over interval, parallelogram, triangle, disc, ball), every point
    and every parameter row at which the expression is non-degenerate: whenever the coded membership
    algorithm returns an answer, that answer is `true` exactly if the point belongs to the denoted set —
    union is or, intersection is and, cut is and-not, a product is the conjunction of its factors, a
    translated / rotated domain is the image under the motion (tested through the inverse motion), and
    parameter-dependent shapes are evaluated with the point's own parameter row `ρ`.
    Over any linearly ordered field, hence for exact rational inputs and for real numbers. -/
theorem contains_iff_mem (τ : Tol K) (D : Dom K) : ∀ (pts ρ : Env K) (b : Bool), D.solid → NonDeg D pts ρ →
    contains τ D pts ρ = some b → (b = true ↔ mem D pts ρ) := by
  induction D with
  | interval v lb ub =>
    intro pts ρ b _ _ h
    simp only [contains, containsAux] at h
    split at h
    · rename_i x l u hx hl hu
      simp only [Option.some.injEq] at h
      subst h
      simp only [mem, Bool.and_eq_true, le_iff]
      constructor
      · rintro ⟨h1, h2⟩; exact ⟨x, l, u, hx, hl, hu, h1, h2⟩
      · rintro ⟨x', l', u', hx', hl', hu', h1, h2⟩
        rw [hx] at hx'; rw [hl] at hl'; rw [hu] at hu'
        simp only [Option.some.injEq, List.cons.injEq, and_true] at hx' hl' hu'
        subst hx' hl' hu'; exact ⟨h1, h2⟩
    · simp at h
  | par v o c1 c2 =>
    intro pts ρ b _ hnd h
    simp only [contains, containsAux] at h
    split at h
    · rename_i x y ox oy ax ay bx cy hp ho h1 h2
      simp only [Bool.false_eq_true, if_false, Option.some.injEq] at h
      subst h
      have hdet := hnd ox oy ax ay bx cy ho h1 h2
      obtain ⟨e1, e2⟩ := solveLgs_spec (x - ox) (y - oy) (ax - ox) (ay - oy) (bx - ox) (cy - oy) hdet
      simp only [mem, Bool.and_eq_true, le_iff]
      constructor
      · rintro ⟨⟨h1', h2'⟩, h3', h4'⟩
        exact ⟨x, y, ox, oy, ax, ay, bx, cy, _, _, hp, ho, h1, h2, h1', h2', h3', h4', by linarith, by linarith⟩
      · rintro ⟨x', y', ox', oy', ax', ay', bx', cy', s, t, hp', ho', h1', h2', hs0, hs1, ht0, ht1, ex, ey⟩
        rw [hp] at hp'; rw [ho] at ho'; rw [h1] at h1'; rw [h2] at h2'
        simp only [Option.some.injEq, List.cons.injEq, and_true] at hp' ho' h1' h2'
        obtain ⟨rfl, rfl⟩ := hp'; obtain ⟨rfl, rfl⟩ := ho'; obtain ⟨rfl, rfl⟩ := h1'; obtain ⟨rfl, rfl⟩ := h2'
        rw [solveLgs_fst (x - ox) (y - oy) (ax - ox) (ay - oy) (bx - ox) (cy - oy) s t hdet (by linarith) (by linarith)]
        exact ⟨⟨hs0, hs1⟩, ht0, ht1⟩
    · simp at h
  | tri v o c1 c2 =>
    intro pts ρ b _ hnd h
    simp only [contains, containsAux] at h
    split at h
    · rename_i x y ox oy ax ay bx cy hp ho h1 h2
      simp only [Bool.false_eq_true, if_false, Option.some.injEq] at h
      subst h
      have hdet := hnd ox oy ax ay bx cy ho h1 h2
      obtain ⟨e1, e2⟩ := solveLgs_spec (x - ox) (y - oy) (ax - ox) (ay - oy) (bx - ox) (cy - oy) hdet
      simp only [mem, Bool.and_eq_true, le_iff]
      constructor
      · rintro ⟨⟨h1', h2'⟩, h3'⟩
        exact ⟨x, y, ox, oy, ax, ay, bx, cy, _, _, hp, ho, h1, h2, h1', h2', by linarith, by linarith, by linarith⟩
      · rintro ⟨x', y', ox', oy', ax', ay', bx', cy', s, t, hp', ho', h1', h2', hs0, ht0, hst, ex, ey⟩
        rw [hp] at hp'; rw [ho] at ho'; rw [h1] at h1'; rw [h2] at h2'
        simp only [Option.some.injEq, List.cons.injEq, and_true] at hp' ho' h1' h2'
        obtain ⟨rfl, rfl⟩ := hp'; obtain ⟨rfl, rfl⟩ := ho'; obtain ⟨rfl, rfl⟩ := h1'; obtain ⟨rfl, rfl⟩ := h2'
        rw [solveLgs_fst (x - ox) (y - oy) (ax - ox) (ay - oy) (bx - ox) (cy - oy) s t hdet (by linarith) (by linarith)]
        exact ⟨⟨hs0, ht0⟩, by linarith⟩
    · simp at h
  | circle v c r =>
    intro pts ρ b _ _ h
    simp only [contains, containsAux] at h
    split at h
    · rename_i x y cx cy rr hp hc hr
      simp only [Bool.false_eq_true, if_false, Option.some.injEq] at h
      subst h
      rw [normLe_iff]
      simp only [mem]
      constructor
      · rintro ⟨h1, h2⟩; exact ⟨x, y, cx, cy, rr, hp, hc, hr, h1, by nlinarith [h2]⟩
      · rintro ⟨x', y', cx', cy', rr', hp', hc', hr', h1, h2⟩
        rw [hp] at hp'; rw [hc] at hc'; rw [hr] at hr'
        simp only [Option.some.injEq, List.cons.injEq, and_true] at hp' hc' hr'
        obtain ⟨rfl, rfl⟩ := hp'; obtain ⟨rfl, rfl⟩ := hc'; subst hr'
        exact ⟨h1, by nlinarith [h2]⟩
    · simp at h
  | sphere v c r =>
    intro pts ρ b _ _ h
    simp only [contains, containsAux] at h
    split at h
    · rename_i x y z cx cy cz rr hp hc hr
      simp only [Bool.false_eq_true, if_false, Option.some.injEq] at h
      subst h
      rw [normLe_iff]
      simp only [mem]
      constructor
      · rintro ⟨h1, h2⟩; exact ⟨x, y, z, cx, cy, cz, rr, hp, hc, hr, h1, by nlinarith [h2]⟩
      · rintro ⟨x', y', z', cx', cy', cz', rr', hp', hc', hr', h1, h2⟩
        rw [hp] at hp'; rw [hc] at hc'; rw [hr] at hr'
        simp only [Option.some.injEq, List.cons.injEq, and_true] at hp' hc' hr'
        obtain ⟨rfl, rfl, rfl⟩ := hp'; obtain ⟨rfl, rfl, rfl⟩ := hc'; subst hr'
        exact ⟨h1, by nlinarith [h2]⟩
    · simp at h
  | union a b iha ihb =>
    intro pts ρ r hs hnd h
    simp only [contains, containsAux, Option.bind_eq_bind, Option.pure_def] at h
    cases ha : containsAux τ false a pts ρ with
    | none => simp [ha] at h
    | some ia =>
      cases hb : containsAux τ false b pts ρ with
      | none => simp [ha, hb] at h
      | some ib =>
        simp only [ha, hb, Option.bind_some, Option.some.injEq] at h
        subst h
        have A := iha pts ρ ia hs.1 hnd.1 ha
        have B := ihb pts ρ ib hs.2 hnd.2 hb
        simp only [mem, Bool.or_eq_true, A, B]
  | cut a b iha ihb =>
    intro pts ρ r hs hnd h
    simp only [contains, containsAux, Option.bind_eq_bind, Option.pure_def] at h
    cases ha : containsAux τ false a pts ρ with
    | none => simp [ha] at h
    | some ia =>
      cases hb : containsAux τ false b pts ρ with
      | none => simp [ha, hb] at h
      | some ib =>
        simp only [ha, hb, Option.bind_some, Option.some.injEq] at h
        subst h
        have A := iha pts ρ ia hs.1 hnd.1 ha
        have B := ihb pts ρ ib hs.2 hnd.2 hb
        cases ia <;> cases ib <;> simp_all [mem]
  | inter a b iha ihb =>
    intro pts ρ r hs hnd h
    simp only [contains, containsAux, Option.bind_eq_bind, Option.pure_def] at h
    cases ha : containsAux τ false a pts ρ with
    | none => simp [ha] at h
    | some ia =>
      cases hb : containsAux τ false b pts ρ with
      | none => simp [ha, hb] at h
      | some ib =>
        simp only [ha, hb, Option.bind_some, Option.some.injEq] at h
        subst h
        have A := iha pts ρ ia hs.1 hnd.1 ha
        have B := ihb pts ρ ib hs.2 hnd.2 hb
        simp only [mem, Bool.and_eq_true, A, B]
  | prod a b iha ihb =>
    intro pts ρ r hs hnd h
    simp only [contains, containsAux, Option.bind_eq_bind, Option.pure_def] at h
    cases ha : containsAux τ false a pts ρ with
    | none => simp [ha] at h
    | some ia =>
      cases hb : containsAux τ false b pts ρ with
      | none => simp [ha, hb] at h
      | some ib =>
        simp only [ha, hb, Option.bind_some, Option.some.injEq] at h
        subst h
        have A := iha pts ρ ia hs.1 hnd.1 ha
        have B := ihb pts ρ ib hs.2 hnd.2 hb
        simp only [mem, Bool.and_eq_true, A, B]
  | translate v d t ih =>
    intro pts ρ r hs hnd h
    simp only [contains, containsAux] at h
    split at h
    · rename_i x tx hp ht
      have := ih _ _ r hs (hnd.1 x tx hp ht) h
      rw [this]; simp only [mem]
      constructor
      · intro hm; exact Or.inl ⟨x - tx, x, tx, hp, ht, by ring, hm⟩
      · rintro (⟨q, x', tx', hp', ht', e, hm⟩ | ⟨_, _, _, _, _, _, hp', _⟩ | ⟨_, _, _, _, _, _, _, _, _, hp', _⟩)
        · rw [hp] at hp'; rw [ht] at ht'
          simp only [Option.some.injEq, List.cons.injEq, and_true] at hp' ht'
          subst hp' ht'
          have : x - tx = q := by rw [e]; ring
          rw [this]; exact hm
        · rw [hp] at hp'; simp at hp'
        · rw [hp] at hp'; simp at hp'
    · rename_i x y tx ty hp ht
      have := ih _ _ r hs (hnd.2.1 x y tx ty hp ht) h
      rw [this]; simp only [mem]
      constructor
      · intro hm; exact Or.inr (Or.inl ⟨x - tx, y - ty, x, y, tx, ty, hp, ht, by ring, by ring, hm⟩)
      · rintro (⟨_, _, _, hp', _⟩ | ⟨q1, q2, x', y', tx', ty', hp', ht', e1, e2, hm⟩ | ⟨_, _, _, _, _, _, _, _, _, hp', _⟩)
        · rw [hp] at hp'; simp at hp'
        · rw [hp] at hp'; rw [ht] at ht'
          simp only [Option.some.injEq, List.cons.injEq, and_true] at hp' ht'
          obtain ⟨rfl, rfl⟩ := hp'; obtain ⟨rfl, rfl⟩ := ht'
          have a1 : x - tx = q1 := by rw [e1]; ring
          have a2 : y - ty = q2 := by rw [e2]; ring
          rw [a1, a2]; exact hm
        · rw [hp] at hp'; simp at hp'
    · rename_i x y z tx ty tz hp ht
      have := ih _ _ r hs (hnd.2.2 x y z tx ty tz hp ht) h
      rw [this]; simp only [mem]
      constructor
      · intro hm; exact Or.inr (Or.inr ⟨x - tx, y - ty, z - tz, x, y, z, tx, ty, tz, hp, ht, by ring, by ring, by ring, hm⟩)
      · rintro (⟨_, _, _, hp', _⟩ | ⟨_, _, _, _, _, _, hp', _⟩ | ⟨q1, q2, q3, x', y', z', tx', ty', tz', hp', ht', e1, e2, e3, hm⟩)
        · rw [hp] at hp'; simp at hp'
        · rw [hp] at hp'; simp at hp'
        · rw [hp] at hp'; rw [ht] at ht'
          simp only [Option.some.injEq, List.cons.injEq, and_true] at hp' ht'
          obtain ⟨rfl, rfl, rfl⟩ := hp'; obtain ⟨rfl, rfl, rfl⟩ := ht'
          have a1 : x - tx = q1 := by rw [e1]; ring
          have a2 : y - ty = q2 := by rw [e2]; ring
          have a3 : z - tz = q3 := by rw [e3]; ring
          rw [a1, a2, a3]; exact hm
    · simp at h
  | rotate v d m c ih =>
    intro pts ρ r hs hnd h
    simp only [contains, containsAux] at h
    split at h
    · rename_i x y m00 m01 m10 m11 cx cy hp hm hc
      obtain ⟨hdet, hnd'⟩ := hnd x y m00 m01 m10 m11 cx cy hp hm hc
      have := ih _ _ r hs hnd' h
      rw [this]; simp only [mem]
      constructor
      · intro hmem
        have hsx := div_mul_cancel₀ (m11 * (x - cx) - m01 * (y - cy)) hdet
        have hsy := div_mul_cancel₀ (m00 * (y - cy) - m10 * (x - cx)) hdet
        refine ⟨_, _, x, y, m00, m01, m10, m11, cx, cy, hp, hm, hc, ?_, ?_, hmem⟩
        · apply mul_right_cancel₀ hdet; linear_combination (-m00) * hsx + (-m01) * hsy
        · apply mul_right_cancel₀ hdet; linear_combination (-m10) * hsx + (-m11) * hsy
      · rintro ⟨q1, q2, x', y', a00, a01, a10, a11, cx', cy', hp', hm', hc', e1, e2, hmem⟩
        rw [hp] at hp'; rw [hm] at hm'; rw [hc] at hc'
        simp only [Option.some.injEq, List.cons.injEq, and_true] at hp' hm' hc'
        obtain ⟨rfl, rfl⟩ := hp'; obtain ⟨rfl, rfl, rfl, rfl⟩ := hm'; obtain ⟨rfl, rfl⟩ := hc'
        have a1 : (m11 * (x - cx) - m01 * (y - cy)) / (m00 * m11 - m01 * m10) + cx = q1 := by
          rw [div_add' _ _ _ hdet, div_eq_iff hdet, e1, e2]; ring
        have a2 : (m00 * (y - cy) - m10 * (x - cx)) / (m00 * m11 - m01 * m10) + cy = q2 := by
          rw [div_add' _ _ _ hdet, div_eq_iff hdet, e1, e2]; ring
        rw [a1, a2]; exact hmem
    · simp at h
  | bdry d _ => intro _ _ _ hs; exact absurd hs (by simp [Dom.solid])
  | bdryL d _ => intro _ _ _ hs; exact absurd hs (by simp [Dom.solid])
  | bdryR d _ => intro _ _ _ hs; exact absurd hs (by simp [Dom.solid])


/-- non-vacuity on the executable instance: a slanted parallelogram minus a disc that moves with the
    parameter `t`, queried at the row t = 1/2 -/
def exDom : Dom Rat :=
  .cut (.par "x" (.const [0, 0]) (.const [2, 1]) (.const [-1, 3]))
       (.circle "x" ⟨["t"], fun e => match e.get "t" with | some [t] => [t, 1] | _ => []⟩ (.const [1/2]))

example : mem exDom [("x", [1, 3])] [("t", [1/2])] := by
  refine (contains_iff_mem ⟨1/100000000, 1/100000, 1/100000⟩ exDom _ _ true ?_ ?_ ?_).1 rfl
  · simp [exDom, Dom.solid]
  · simp only [exDom, NonDeg, PFun.const]
    refine ⟨?_, trivial⟩
    intro ox oy ax ay bx cy h1 h2 h3
    simp only [List.cons.injEq, and_true] at h1 h2 h3
    obtain ⟨rfl, rfl⟩ := h1; obtain ⟨rfl, rfl⟩ := h2; obtain ⟨rfl, rfl⟩ := h3
    norm_num
  · decide +kernel

theorem absK_eq (a : K) : absK a = |a| := by
  unfold absK; split
  · exact (abs_of_nonneg ‹_›).symm
  · exact (abs_of_neg (lt_of_not_ge ‹_›)).symm

theorem isclose_iff (τ : Tol K) (x y : K) : isclose τ x y = true ↔ |x - y| ≤ τ.atol + τ.rtol * |y| := by
  simp [isclose, absK_eq]

/-- tolerances are non-negative (torch defaults 1e-8, 1e-5; BARY_ATOL 1e-5) -/
def Tol.ok (τ : Tol K) : Prop := 0 ≤ τ.atol ∧ 0 ≤ τ.rtol ∧ 0 ≤ τ.batol

theorem isclose_self (τ : Tol K) (h : τ.ok) (x : K) : isclose τ x x = true := by
  rw [isclose_iff]; simp
  have := mul_nonneg h.2.1 (abs_nonneg x); linarith [h.1]

theorem isclose_self_bary (τ : Tol K) (h : τ.ok) (x : K) : isclose τ.bary x x = true :=
  isclose_self τ.bary ⟨h.2.2, h.2.1, h.2.2⟩ x

/-- one truth value per input row, each computed from that row's own point and parameter row -/
def containsBatch (τ : Tol K) (D : Dom K) (rows : List (Env K × Env K)) : List (Option Bool) :=
  rows.map fun r => contains τ D r.1 r.2

theorem contains_rows (τ : Tol K) (D : Dom K) (rows : List (Env K × Env K)) :
    (containsBatch τ D rows).length = rows.length ∧
    ∀ i (h : i < rows.length), (containsBatch τ D rows)[i]? = some (contains τ D rows[i].1 rows[i].2) := by
  refine ⟨by simp [containsBatch], fun i h => ?_⟩
  simp [containsBatch, List.getElem?_map, List.getElem?_eq_getElem h]

/-! ### boundary membership of the primitives: accepts the boundary, rejects beyond the tolerance -/

/-- interval boundary: the end points are accepted -/
theorem bdry_interval_accepts (τ : Tol K) (hτ : τ.ok) (v : String) (lb ub : PFun K) (pts ρ : Env K) (x l u : K)
    (hx : pts.get v = some [x]) (hl : lb.f (pts ++ ρ) = [l]) (hu : ub.f (pts ++ ρ) = [u]) (h : x = l ∨ x = u) :
    bdryContains τ (.interval v lb ub) pts ρ = some true := by
  simp only [bdryContains, containsAux, hx, hl, hu]
  rcases h with rfl | rfl <;> simp [isclose_self τ hτ]

/-- interval boundary: an accepted point is within the `isclose` tolerance of an end point -/
theorem bdry_interval_rejects (τ : Tol K) (v : String) (lb ub : PFun K) (pts ρ : Env K) (x l u : K)
    (hx : pts.get v = some [x]) (hl : lb.f (pts ++ ρ) = [l]) (hu : ub.f (pts ++ ρ) = [u])
    (h : bdryContains τ (.interval v lb ub) pts ρ = some true) :
    |x - l| ≤ τ.atol + τ.rtol * |l| ∨ |x - u| ≤ τ.atol + τ.rtol * |u| := by
  simp only [bdryContains, containsAux, hx, hl, hu, Option.some.injEq, Bool.or_eq_true, isclose_iff] at h
  exact h

/-- parallelogram boundary: every point `o + s·d₁ + t·d₂` with `s ∈ {0,1}, t ∈ [0,1]` or
    `t ∈ {0,1}, s ∈ [0,1]` (the four closed edges) is accepted -/
theorem bdry_par_accepts (τ : Tol K) (hτ : τ.ok) (v : String) (o c1 c2 : PFun K) (pts ρ : Env K)
    (ox oy ax ay bx cy s t : K)
    (ho : o.f (pts ++ ρ) = [ox, oy]) (h1 : c1.f (pts ++ ρ) = [ax, ay]) (h2 : c2.f (pts ++ ρ) = [bx, cy])
    (hdet : (ax - ox) * (cy - oy) - (ay - oy) * (bx - ox) ≠ 0)
    (hp : pts.get v = some [ox + s * (ax - ox) + t * (bx - ox), oy + s * (ay - oy) + t * (cy - oy)])
    (hedge : ((s = 0 ∨ s = 1) ∧ 0 ≤ t ∧ t ≤ 1) ∨ ((t = 0 ∨ t = 1) ∧ 0 ≤ s ∧ s ≤ 1)) :
    bdryContains τ (.par v o c1 c2) pts ρ = some true := by
  simp only [bdryContains, containsAux, hp, ho, h1, h2, if_true]
  rw [solveLgs_fst _ _ _ _ _ _ s t hdet (by ring) (by ring)]
  simp only [Option.some.injEq, Bool.or_eq_true, Bool.and_eq_true, le_iff]
  have hb := hτ.2.2
  rcases hedge with ⟨hs, ht0, ht1⟩ | ⟨ht, hs0, hs1⟩
  · left
    refine ⟨?_, by linarith, by linarith⟩
    rcases hs with rfl | rfl
    · right; exact isclose_self_bary τ hτ 0
    · left; exact isclose_self_bary τ hτ 1
  · right
    refine ⟨?_, by linarith, by linarith⟩
    rcases ht with rfl | rfl
    · right; exact isclose_self_bary τ hτ 0
    · left; exact isclose_self_bary τ hτ 1

/-- parallelogram boundary: an accepted point has one barycentric coordinate within the tolerance of 0 or 1
    and the other one within the tolerance of the range [0, 1] (the edge with its corners) -/
theorem bdry_par_rejects (τ : Tol K) (v : String) (o c1 c2 : PFun K) (pts ρ : Env K)
    (x y ox oy ax ay bx cy : K) (hp : pts.get v = some [x, y])
    (ho : o.f (pts ++ ρ) = [ox, oy]) (h1 : c1.f (pts ++ ρ) = [ax, ay]) (h2 : c2.f (pts ++ ρ) = [bx, cy])
    (h : bdryContains τ (.par v o c1 c2) pts ρ = some true) :
    let b := solveLgs (x - ox) (y - oy) (ax - ox) (ay - oy) (bx - ox) (cy - oy)
    ((|b.1 - 1| ≤ τ.batol + τ.rtol ∨ |b.1| ≤ τ.batol) ∧ -τ.batol ≤ b.2 ∧ b.2 ≤ 1 + τ.batol) ∨
    ((|b.2 - 1| ≤ τ.batol + τ.rtol ∨ |b.2| ≤ τ.batol) ∧ -τ.batol ≤ b.1 ∧ b.1 ≤ 1 + τ.batol) := by
  simp only [bdryContains, containsAux, hp, ho, h1, h2, if_true, Option.some.injEq, Bool.or_eq_true,
    Bool.and_eq_true, isclose_iff, Tol.bary, le_iff] at h
  simp only [abs_one, mul_one, abs_zero, mul_zero, add_zero, sub_zero] at h
  exact h

/-- triangle boundary: the three closed edges are accepted -/
theorem bdry_tri_accepts (τ : Tol K) (hτ : τ.ok) (v : String) (o c1 c2 : PFun K) (pts ρ : Env K)
    (ox oy ax ay bx cy s t : K)
    (ho : o.f (pts ++ ρ) = [ox, oy]) (h1 : c1.f (pts ++ ρ) = [ax, ay]) (h2 : c2.f (pts ++ ρ) = [bx, cy])
    (hdet : (ax - ox) * (cy - oy) - (ay - oy) * (bx - ox) ≠ 0)
    (hp : pts.get v = some [ox + s * (ax - ox) + t * (bx - ox), oy + s * (ay - oy) + t * (cy - oy)])
    (hedge : (s = 0 ∧ 0 ≤ t ∧ t ≤ 1) ∨ (t = 0 ∧ 0 ≤ s ∧ s ≤ 1) ∨ (s + t = 1 ∧ 0 ≤ s ∧ 0 ≤ t)) :
    bdryContains τ (.tri v o c1 c2) pts ρ = some true := by
  simp only [bdryContains, containsAux, hp, ho, h1, h2, if_true]
  rw [solveLgs_fst _ _ _ _ _ _ s t hdet (by ring) (by ring)]
  simp only [Option.some.injEq, Bool.or_eq_true, Bool.and_eq_true, le_iff]
  rcases hedge with ⟨rfl, ht0, ht1⟩ | ⟨rfl, hs0, hs1⟩ | ⟨hst, hs0, ht0⟩
  · left; left; exact ⟨isclose_self_bary τ hτ 0, by linarith [hτ.2.2], by linarith [hτ.2.2]⟩
  · left; right; exact ⟨isclose_self_bary τ hτ 0, by linarith [hτ.2.2], by linarith [hτ.2.2]⟩
  · right
    refine ⟨by rw [hst]; exact isclose_self_bary τ hτ 1, ?_, ?_⟩ <;> linarith [hτ.2.2]

/-- triangle boundary: an accepted point has `s`, `t` within the tolerance of 0, or `s + t − 1` within the
    tolerance of 0 **and** lies between the corners of the third edge (`s, t ≥ −tolerance`): the rest of the
    line through corner_1 and corner_2 is rejected -/
theorem bdry_tri_rejects (τ : Tol K) (v : String) (o c1 c2 : PFun K) (pts ρ : Env K)
    (x y ox oy ax ay bx cy : K) (hp : pts.get v = some [x, y])
    (ho : o.f (pts ++ ρ) = [ox, oy]) (h1 : c1.f (pts ++ ρ) = [ax, ay]) (h2 : c2.f (pts ++ ρ) = [bx, cy])
    (h : bdryContains τ (.tri v o c1 c2) pts ρ = some true) :
    let b := solveLgs (x - ox) (y - oy) (ax - ox) (ay - oy) (bx - ox) (cy - oy)
    (|b.1| ≤ τ.batol ∧ -τ.batol ≤ b.2 ∧ b.2 ≤ 1 + τ.batol) ∨ (|b.2| ≤ τ.batol ∧ -τ.batol ≤ b.1 ∧ b.1 ≤ 1 + τ.batol) ∨
      (|b.1 + b.2 - 1| ≤ τ.batol + τ.rtol ∧ -τ.batol ≤ b.1 ∧ -τ.batol ≤ b.2) := by
  simp only [bdryContains, containsAux, hp, ho, h1, h2, if_true, Option.some.injEq, Bool.or_eq_true,
    Bool.and_eq_true, isclose_iff, Tol.bary, le_iff] at h
  simp only [abs_one, mul_one, abs_zero, mul_zero, add_zero, sub_zero] at h
  rcases h with (⟨h, h'⟩ | ⟨h, h'⟩) | ⟨h, h'⟩
  · exact Or.inl ⟨h, h'⟩
  · exact Or.inr (Or.inl ⟨h, h'⟩)
  · exact Or.inr (Or.inr ⟨h, h'⟩)

theorem normClose_iff (τ : Tol K) (d2 r : K) :
    normClose τ d2 r = true ↔
      (0 ≤ r + (τ.atol + τ.rtol * |r|) ∧ d2 ≤ (r + (τ.atol + τ.rtol * |r|)) ^ 2) ∧
      (r - (τ.atol + τ.rtol * |r|) ≤ 0 ∨ (r - (τ.atol + τ.rtol * |r|)) ^ 2 ≤ d2) := by
  simp [normClose, absK_eq, pow_two]

/-- circle line: points at distance exactly `r ≥ 0` from the centre are accepted -/
theorem bdry_circle_accepts (τ : Tol K) (hτ : τ.ok) (v : String) (c r : PFun K) (pts ρ : Env K)
    (x y cx cy rr : K) (hp : pts.get v = some [x, y]) (hc : c.f (pts ++ ρ) = [cx, cy]) (hr : r.f (pts ++ ρ) = [rr])
    (h0 : 0 ≤ rr) (hon : (x - cx) ^ 2 + (y - cy) ^ 2 = rr ^ 2) :
    bdryContains τ (.circle v c r) pts ρ = some true := by
  simp only [bdryContains, containsAux, hp, hc, hr, if_true, Option.some.injEq]
  rw [normClose_iff]
  have ht : 0 ≤ τ.atol + τ.rtol * |rr| := by
    have := mul_nonneg hτ.2.1 (abs_nonneg rr); linarith [hτ.1]
  have e : (x - cx) * (x - cx) + (y - cy) * (y - cy) = rr ^ 2 := by rw [← hon]; ring
  rw [e]
  refine ⟨⟨by linarith, by nlinarith⟩, ?_⟩
  by_cases hle : rr - (τ.atol + τ.rtol * |rr|) ≤ 0
  · exact Or.inl hle
  · right; have hle' := lt_of_not_ge hle; nlinarith

/-- circle line: an accepted point satisfies `(r − τ)² ≤ ‖p − c‖² ≤ (r + τ)²` (or `r ≤ τ`), τ = atol + rtol·|r| -/
theorem bdry_circle_rejects (τ : Tol K) (v : String) (c r : PFun K) (pts ρ : Env K)
    (x y cx cy rr : K) (hp : pts.get v = some [x, y]) (hc : c.f (pts ++ ρ) = [cx, cy]) (hr : r.f (pts ++ ρ) = [rr])
    (h : bdryContains τ (.circle v c r) pts ρ = some true) :
    (x - cx) ^ 2 + (y - cy) ^ 2 ≤ (rr + (τ.atol + τ.rtol * |rr|)) ^ 2 ∧
    (rr - (τ.atol + τ.rtol * |rr|) ≤ 0 ∨ (rr - (τ.atol + τ.rtol * |rr|)) ^ 2 ≤ (x - cx) ^ 2 + (y - cy) ^ 2) := by
  simp only [bdryContains, containsAux, hp, hc, hr, if_true, Option.some.injEq] at h
  rw [normClose_iff] at h
  have e : (x - cx) * (x - cx) + (y - cy) * (y - cy) = (x - cx) ^ 2 + (y - cy) ^ 2 := by ring
  rw [e] at h
  exact ⟨h.1.2, h.2⟩

/-- sphere surface: points at distance exactly `r ≥ 0` from the centre are accepted -/
theorem bdry_sphere_accepts (τ : Tol K) (hτ : τ.ok) (v : String) (c r : PFun K) (pts ρ : Env K)
    (x y z cx cy cz rr : K) (hp : pts.get v = some [x, y, z]) (hc : c.f (pts ++ ρ) = [cx, cy, cz])
    (hr : r.f (pts ++ ρ) = [rr]) (h0 : 0 ≤ rr) (hon : (x - cx) ^ 2 + (y - cy) ^ 2 + (z - cz) ^ 2 = rr ^ 2) :
    bdryContains τ (.sphere v c r) pts ρ = some true := by
  simp only [bdryContains, containsAux, hp, hc, hr, if_true, Option.some.injEq]
  rw [normClose_iff]
  have ht : 0 ≤ τ.atol + τ.rtol * |rr| := by
    have := mul_nonneg hτ.2.1 (abs_nonneg rr); linarith [hτ.1]
  have e : (x - cx) * (x - cx) + (y - cy) * (y - cy) + (z - cz) * (z - cz) = rr ^ 2 := by rw [← hon]; ring
  rw [e]
  refine ⟨⟨by linarith, by nlinarith⟩, ?_⟩
  by_cases hle : rr - (τ.atol + τ.rtol * |rr|) ≤ 0
  · exact Or.inl hle
  · right; have hle' := lt_of_not_ge hle; nlinarith

/-- boundary of a union / cut / intersection: every accepted point is accepted by the boundary test
    of one of the operands (the code never invents boundary points) -/
theorem bdry_bool_sub (τ : Tol K) (a b : Dom K) (pts ρ : Env K) :
    (bdryContains τ (.union a b) pts ρ = some true ∨ bdryContains τ (.cut a b) pts ρ = some true ∨
      bdryContains τ (.inter a b) pts ρ = some true) →
    bdryContains τ a pts ρ = some true ∨ bdryContains τ b pts ρ = some true := by
  simp only [bdryContains, containsAux, Option.bind_eq_bind, Option.pure_def]
  cases containsAux τ false a pts ρ <;> cases containsAux τ false b pts ρ <;>
    cases containsAux τ true a pts ρ <;> cases containsAux τ true b pts ρ <;> simp
  all_goals (rename_i ia ib oa ob; cases ia <;> cases ib <;> cases oa <;> cases ob <;> simp)

/-- link between the root-free comparison of the model and the coded `‖p − c‖ ≤ r` over the reals -/
theorem norm_le_iff_sq (d2 r : ℝ) (hd : 0 ≤ d2) : Real.sqrt d2 ≤ r ↔ 0 ≤ r ∧ d2 ≤ r ^ 2 := by
  constructor
  · intro h
    have hr : 0 ≤ r := le_trans (Real.sqrt_nonneg _) h
    exact ⟨hr, by rw [← Real.sq_sqrt hd]; exact pow_le_pow_left₀ (Real.sqrt_nonneg _) h 2⟩
  · rintro ⟨hr, h⟩
    rw [← Real.sqrt_sq hr]; exact Real.sqrt_le_sqrt h


end TPV.Geom
