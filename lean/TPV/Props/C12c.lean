/-
  C12 — element types: promotion is a join (commutative, associative, idempotent), float32 values are
  float64 values, and the typed operations never touch the cells (they are the untyped operations of
  TPV.Model.Points plus the type rule).
-/
import TPV.Model.DType
namespace TPV.Table
variable {α : Type}

theorem promote_comm (a b : DType) : promote a b = promote b a := by cases a <;> cases b <;> rfl
theorem promote_assoc (a b c : DType) : promote (promote a b) c = promote a (promote b c) := by
  cases a <;> cases b <;> cases c <;> rfl
theorem promote_self (a : DType) : promote a a = a := by cases a <;> rfl

/-- promotion never narrows: every float32 value is a float64 value -/
theorem fits_f32_f64 (r : Rat) (h : fits .f32 r = true) : fits .f64 r = true := by
  simp only [fits, Bool.and_eq_true, decide_eq_true_eq] at h ⊢
  exact ⟨h.1, by omega⟩

/-- **join with mixed element types keeps every cell**: the table is the untyped join (whose cells
    are the operands' cells, `join_spec`), only the tag is promoted -/
theorem tjoin_spec (p q r : TPoints α) (hp : p.pts.isempty = false) (hq : q.pts.isempty = false)
    (h : p.join q = .ok r) : p.pts.join q.pts = .ok r.pts ∧ r.dtype = promote p.dtype q.dtype := by
  simp only [TPoints.join, hp, hq, Bool.false_eq_true, if_false, bind, Except.bind] at h
  split at h
  · cases h
  · rename_i v hv
    simp only [pure, Except.pure, Except.ok.injEq] at h; subst h
    exact ⟨hv, rfl⟩

/-- the same for `p | q` -/
theorem tcat_spec (p q r : TPoints α) (hp : p.pts.isempty = false) (hq : q.pts.isempty = false)
    (h : p.cat q = .ok r) : p.pts.cat q.pts = .ok r.pts ∧ r.dtype = promote p.dtype q.dtype := by
  simp only [TPoints.cat, hp, hq, Bool.false_eq_true, if_false, bind, Except.bind] at h
  split at h
  · cases h
  · rename_i v hv
    simp only [pure, Except.pure, Except.ok.injEq] at h; subst h
    exact ⟨hv, rfl⟩

/-- assignment keeps the element type of the target and is the untyped assignment on the cells -/
theorem tsetitem_spec (p q r : TPoints α) (ix : Index) (h : p.setitem ix q = .ok r) :
    p.pts.setitem ix q.pts = .ok r.pts ∧ r.dtype = p.dtype := by
  simp only [TPoints.setitem, bind, Except.bind] at h
  split at h
  · cases h
  · rename_i v hv
    split at h
    · cases h
    · simp only [pure, Except.pure, Except.ok.injEq] at h; subst h
      exact ⟨hv, rfl⟩

/-- arithmetic on tensors: promoted type, untyped cell-wise result -/
theorem tarith_spec (f : α → α → α) (p q r : TPoints α) (h : p.arith f q = .ok r) :
    p.pts.arith f q.pts = .ok r.pts ∧ r.dtype = promote p.dtype q.dtype := by
  simp only [TPoints.arith, bind, Except.bind] at h
  split at h
  · cases h
  · rename_i v hv
    simp only [pure, Except.pure, Except.ok.injEq] at h; subst h
    exact ⟨hv, rfl⟩

example : fits .f32 (1 / 2) = true ∧ fits .f32 16777217 = false ∧ fits .f64 16777217 = true ∧
    fits .i64 (1 / 2) = false ∧ fits .f32 (mkRat 13421773 134217728) = true := by decide +kernel

end TPV.Table
