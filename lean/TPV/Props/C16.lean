/-
  C16 — data loaders deliver every datum with intact input/target pairing.
  Property theorems only (helper lemmas are local `private`/`theorem`s above their use).
-/
import TPV.Model.DataLoader
import Mathlib.Algebra.Order.Field.Rat
import Mathlib.Tactic.Ring
import Mathlib.Tactic.Linarith
import Mathlib.Data.Nat.ModEq
import Mathlib.Data.Int.GCD

namespace TPV.DataLoader

/-! ## PointsDataset -/

theorem ptsBatch_length_le (n bs idx : Nat) : (ptsBatch n bs idx).length ≤ bs := by
  simp only [ptsBatch, List.length_map, List.length_range]
  have : (idx + 1) * bs = idx * bs + bs := by rw [Nat.add_mul, Nat.one_mul]
  omega

theorem ptsBatch_eq (n bs idx : Nat) (h : (idx + 1) * bs ≤ n) :
    ptsBatch n bs idx = (List.range bs).map (· + idx * bs) := by
  have e : (idx + 1) * bs = idx * bs + bs := by rw [Nat.add_mul, Nat.one_mul]
  simp only [ptsBatch]
  congr 2; omega

private theorem range_split (a b : Nat) :
    List.range (a + b) = List.range a ++ (List.range b).map (· + a) := by
  rw [List.range_add]
  congr 1
  apply List.map_congr_left; intro x _; omega

/-- the first `m` full batches enumerate `0 ..< m*bs` in order -/
theorem full_batches (n bs : Nat) : ∀ m, m * bs ≤ n →
    ((List.range m).map (ptsBatch n bs)).flatten = List.range (m * bs)
  | 0, _ => by simp
  | m+1, h => by
    have e : (m + 1) * bs = m * bs + bs := by rw [Nat.add_mul, Nat.one_mul]
    have hm : m * bs ≤ n := by omega
    rw [List.range_succ, List.map_append, List.flatten_append, full_batches n bs m hm]
    simp only [List.map_cons, List.map_nil, List.flatten_cons, List.flatten_nil, List.append_nil]
    rw [ptsBatch_eq n bs m h, e, range_split]

/-- with `drop_last` one pass presents exactly rows `0 ..< (n / bs) * bs`, each once, in order -/
theorem pts_drop (n bs : Nat) : (ptsPass n bs true).flatten = List.range (n / bs * bs) := by
  simp only [ptsPass, ptsLen, if_true]
  exact full_batches n bs (n / bs) (Nat.div_mul_le_self n bs)

/-- without `drop_last` one pass presents every row `0 ..< n` exactly once, in order -/
theorem pts_partition (n bs : Nat) (hbs : 0 < bs) : (ptsPass n bs false).flatten = List.range n := by
  simp only [ptsPass, ptsLen]
  by_cases hd : n % bs = 0
  · have hq : (n + bs - 1) / bs = n / bs := by
      have h0 := Nat.div_add_mod n bs
      have hc : bs * (n / bs) = n / bs * bs := Nat.mul_comm _ _
      have e : (n / bs + 1) * bs = n / bs * bs + bs := by rw [Nat.add_mul, Nat.one_mul]
      exact Nat.div_eq_of_lt_le (by omega) (by omega)
    simp only [Bool.false_eq_true, if_false, hq]
    rw [full_batches n bs (n / bs) (Nat.div_mul_le_self n bs)]
    congr 1
    have := Nat.div_add_mod n bs
    rw [Nat.mul_comm]; omega
  · have hr : 0 < n % bs := Nat.pos_of_ne_zero hd
    have hlt := Nat.mod_lt n hbs
    have hq : (n + bs - 1) / bs = n / bs + 1 := by
      have h0 := Nat.div_add_mod n bs
      have hc : bs * (n / bs) = n / bs * bs := Nat.mul_comm _ _
      have e : (n / bs + 1) * bs = n / bs * bs + bs := by rw [Nat.add_mul, Nat.one_mul]
      have e2 : (n / bs + 1 + 1) * bs = n / bs * bs + bs + bs := by rw [Nat.add_mul, Nat.one_mul, e]
      exact Nat.div_eq_of_lt_le (by omega) (by omega)
    simp only [Bool.false_eq_true, if_false, hq]
    rw [List.range_succ, List.map_append, List.flatten_append,
      full_batches n bs (n / bs) (Nat.div_mul_le_self n bs)]
    simp only [List.map_cons, List.map_nil, List.flatten_cons, List.flatten_nil, List.append_nil]
    have hn : n = n / bs * bs + n % bs := by
      have := Nat.div_add_mod n bs; rw [Nat.mul_comm]; omega
    have hlast : ptsBatch n bs (n / bs) = (List.range (n % bs)).map (· + n / bs * bs) := by
      simp only [ptsBatch]
      have e : (n / bs + 1) * bs = n / bs * bs + bs := by rw [Nat.add_mul, Nat.one_mul]
      congr 2; omega
    rw [hlast]
    conv => rhs; rw [hn]
    rw [range_split]

theorem pts_batch_le (n bs : Nat) (drop : Bool) : ∀ b ∈ ptsPass n bs drop, b.length ≤ bs := by
  intro b hb
  simp only [ptsPass, List.mem_map] at hb
  obtain ⟨i, _, rfl⟩ := hb
  exact ptsBatch_length_le n bs i

/-- pairing: indexing inputs and targets with the same index list (a batch slice, or the one
    permutation drawn at construction when shuffling) keeps row i of the inputs with row i of the
    targets -/
theorem gather_zip {α β} (xs : List α) (ys : List β) (h : xs.length = ys.length) (idxs : List Nat) :
    (gather xs idxs).zip (gather ys idxs) = gather (xs.zip ys) idxs := by
  induction idxs with
  | nil => simp [gather]
  | cons i is ih =>
    simp only [gather, List.filterMap_cons] at ih ⊢
    by_cases hi : i < xs.length
    · have hy : i < ys.length := h ▸ hi
      have hz : i < (xs.zip ys).length := by simp [List.length_zip]; omega
      simp [List.getElem?_eq_getElem hi, List.getElem?_eq_getElem hy, List.getElem?_eq_getElem hz, ih]
    · have hy : ¬ i < ys.length := h ▸ hi
      have hz : ¬ i < (xs.zip ys).length := by simp [List.length_zip]; omega
      simp [List.getElem?_eq_none (Nat.le_of_not_lt hi), List.getElem?_eq_none (Nat.le_of_not_lt hy),
        List.getElem?_eq_none (Nat.le_of_not_lt hz), ih]


/-! ## DeepONet loaders: the wrap-around slice -/

theorem wrapSlice_lt (n bs idx : Nat) (hn : 0 < n) : ∀ i ∈ wrapSlice n bs idx, i < n := by
  intro i hi
  have ha := Nat.mod_lt (idx * bs) hn
  have hb := Nat.mod_lt ((idx + 1) * bs) hn
  simp only [wrapSlice] at hi
  split at hi
  · simp only [List.mem_map, List.mem_range] at hi
    obtain ⟨j, hj, rfl⟩ := hi; omega
  · simp only [List.mem_append, List.mem_map, List.mem_range] at hi
    rcases hi with ⟨j, hj, rfl⟩ | hi <;> omega

/-- a DeepONet batch never presents more than the requested number of functions / locations -/
theorem wrapSlice_length_le (n bs idx : Nat) (hn : 0 < n) (hbs : 0 < bs) :
    (wrapSlice n bs idx).length ≤ bs := by
  have e : (idx + 1) * bs = idx * bs + bs := by rw [Nat.add_mul, Nat.one_mul]
  have h1 := Nat.div_add_mod (idx * bs) n
  have h2 := Nat.div_add_mod ((idx + 1) * bs) n
  have ha := Nat.mod_lt (idx * bs) hn
  have hb := Nat.mod_lt ((idx + 1) * bs) hn
  have hq : (idx * bs) / n ≤ ((idx + 1) * bs) / n := Nat.div_le_div_right (by omega)
  have hm : n * ((idx * bs) / n) ≤ n * (((idx + 1) * bs) / n) := Nat.mul_le_mul_left n hq
  simp only [wrapSlice]
  split
  · simp only [List.length_map, List.length_range]; omega
  · simp only [List.length_append, List.length_map, List.length_range]
    rcases Nat.lt_or_ge ((idx * bs) / n) (((idx + 1) * bs) / n) with hlt | hge
    · have : n * ((idx * bs) / n + 1) ≤ n * (((idx + 1) * bs) / n) := Nat.mul_le_mul_left n hlt
      rw [Nat.mul_add, Nat.mul_one] at this
      omega
    · have : n * (((idx + 1) * bs) / n) ≤ n * ((idx * bs) / n) := Nat.mul_le_mul_left n hge
      omega

/-- with a batch size not exceeding the data size, datum `i` is in batch number `i / bs` -/
theorem wrapSlice_mem (n bs i : Nat) (hbs : 0 < bs) (hle : bs ≤ n) (hi : i < n) :
    i ∈ wrapSlice n bs (i / bs) := by
  have e : (i / bs + 1) * bs = i / bs * bs + bs := by rw [Nat.add_mul, Nat.one_mul]
  have h0 := Nat.div_add_mod i bs
  have hc : bs * (i / bs) = i / bs * bs := Nat.mul_comm _ _
  have hr := Nat.mod_lt i hbs
  have ha : (i / bs * bs) % n = i / bs * bs := Nat.mod_eq_of_lt (by omega)
  simp only [wrapSlice, ha]
  by_cases hlt : (i / bs + 1) * bs < n
  · have hb : ((i / bs + 1) * bs) % n = (i / bs + 1) * bs := Nat.mod_eq_of_lt hlt
    rw [hb, if_pos (by omega)]
    simp only [List.mem_map, List.mem_range]
    exact ⟨i - i / bs * bs, by omega, by omega⟩
  · have hb : ((i / bs + 1) * bs) % n = (i / bs + 1) * bs - n := by
      rw [Nat.mod_eq_sub_mod (by omega)]; exact Nat.mod_eq_of_lt (by omega)
    rw [hb, if_neg (by omega)]
    simp only [List.mem_append, List.mem_map, List.mem_range]
    exact Or.inl ⟨i - i / bs * bs, by omega, by omega⟩

theorem div_lt_ceilDiv (n bs i : Nat) (hbs : 0 < bs) (hi : i < n) : i / bs < ceilDiv n bs := by
  unfold ceilDiv
  have h0 := Nat.div_add_mod i bs
  have hr := Nat.mod_lt i hbs
  have hc : bs * (i / bs) = i / bs * bs := Nat.mul_comm _ _
  have e : (i / bs + 1) * bs = i / bs * bs + bs := by rw [Nat.add_mul, Nat.one_mul]
  have : (i / bs + 1) * bs ≤ n + bs - 1 := by omega
  exact (Nat.le_div_iff_mul_le hbs).2 this

/-! ## per-function trunk layout (`DeepONetDataset_Unique`) -/

/-- the index split enumerates every (branch batch, trunk batch) block exactly once:
    it is inverted by `(i, j) ↦ i * Tl + j` on `range Bl × range Tl` -/
theorem unique_split_bij (Bl Tl : Nat) (hT : 0 < Tl) :
    (∀ idx, idx < Bl * Tl → (uniqueSplit Bl Tl idx).1 < Bl ∧ (uniqueSplit Bl Tl idx).2 < Tl ∧
        (uniqueSplit Bl Tl idx).1 * Tl + (uniqueSplit Bl Tl idx).2 = idx) ∧
    (∀ i j, i < Bl → j < Tl → i * Tl + j < Bl * Tl ∧ uniqueSplit Bl Tl (i * Tl + j) = (i, j)) := by
  constructor
  · intro idx h
    simp only [uniqueSplit]
    refine ⟨(Nat.div_lt_iff_lt_mul hT).2 h, Nat.mod_lt _ hT, ?_⟩
    have := Nat.div_add_mod idx Tl; rw [Nat.mul_comm] at this; exact this
  · intro i j hi hj
    constructor
    · have : (i + 1) * Tl ≤ Bl * Tl := Nat.mul_le_mul_right Tl hi
      rw [Nat.add_mul, Nat.one_mul] at this; omega
    · simp only [uniqueSplit]
      rw [Nat.mul_comm i Tl, Nat.mul_add_div hT, Nat.mul_add_mod, Nat.div_eq_of_lt hj, Nat.mod_eq_of_lt hj]
      simp

theorem effBatch_le (n : Nat) (req : Int) : effBatch n req ≤ n := by
  unfold effBatch; split <;> omega

theorem effBatch_pos (n : Nat) (req : Int) (hn : 0 < n) (hreq : req ≠ 0) : 0 < effBatch n req := by
  unfold effBatch; split <;> omega

/-- one pass over the per-function loader presents every (function, location) pair, for every
    data-set size and every requested batch size (negative = everything, oversized = clamped) -/
theorem unique_cover (nB nT : Nat) (rB rT : Int) (hrB : rB ≠ 0) (hrT : rT ≠ 0)
    (f x : Nat) (hf : f < nB) (hx : x < nT) :
    ∃ idx, idx < uniqueLen nB (effBatch nB rB) nT (effBatch nT rT) ∧
      f ∈ (uniqueBatch nB (effBatch nB rB) nT (effBatch nT rT) idx).1 ∧
      x ∈ (uniqueBatch nB (effBatch nB rB) nT (effBatch nT rT) idx).2 := by
  have hbB := effBatch_pos nB rB (by omega) hrB
  have hbT := effBatch_pos nT rT (by omega) hrT
  have hB := effBatch_le nB rB
  have hT := effBatch_le nT rT
  generalize effBatch nB rB = bB at *
  generalize effBatch nT rT = bT at *
  have hi := div_lt_ceilDiv nB bB f hbB hf
  have hj := div_lt_ceilDiv nT bT x hbT hx
  have hTl : 0 < ceilDiv nT bT := Nat.lt_of_le_of_lt (Nat.zero_le _) hj
  obtain ⟨hlt, hs⟩ := (unique_split_bij (ceilDiv nB bB) (ceilDiv nT bT) hTl).2 _ _ hi hj
  refine ⟨f / bB * ceilDiv nT bT + x / bT, hlt, ?_, ?_⟩
  · simp only [uniqueBatch, uniqueBatchWith, hs]; exact wrapSlice_mem nB bB f hbB hB hf
  · simp only [uniqueBatch, uniqueBatchWith, hs]; exact wrapSlice_mem nT bT x hbT hT hx

/-! ### the per-function layout under any window policy that presents row `i` in window `i / bs` -/

/-- a window policy is adequate if row `i` is presented by window `i / bs` -/
def WinOk (win : Nat → Nat → Nat → List Nat) : Prop :=
  ∀ n bs i, 0 < bs → bs ≤ n → i < n → i ∈ win n bs (i / bs)

theorem wrapSlice_ok : WinOk wrapSlice := fun n bs i hbs hle hi => wrapSlice_mem n bs i hbs hle hi

theorem lastSlice_mem (n bs i : Nat) (hbs : 0 < bs) (hle : bs ≤ n) (hi : i < n) : i ∈ lastSlice n bs (i / bs) := by
  have h1 : i / bs * bs ≤ i := Nat.div_mul_le_self i bs
  have h2 : i < (i / bs + 1) * bs := by
    have := Nat.lt_div_mul_add (a := i) hbs
    rw [Nat.add_mul, Nat.one_mul]; omega
  simp only [lastSlice, List.mem_map, List.mem_range]
  refine ⟨i - (min ((i / bs + 1) * bs) n - bs), ?_, ?_⟩
  · have e : (i / bs + 1) * bs = i / bs * bs + bs := by rw [Nat.add_mul, Nat.one_mul]
    omega
  · have e : (i / bs + 1) * bs = i / bs * bs + bs := by rw [Nat.add_mul, Nat.one_mul]
    omega

theorem lastSlice_ok : WinOk lastSlice := fun n bs i hbs hle hi => lastSlice_mem n bs i hbs hle hi

/-- every row of a last-rows window exists and the window is never larger than requested -/
theorem lastSlice_lt (n bs idx : Nat) : ∀ i ∈ lastSlice n bs idx, i < n := by
  intro i hi
  simp only [lastSlice, List.mem_map, List.mem_range] at hi
  obtain ⟨a, ha, rfl⟩ := hi
  omega

theorem lastSlice_length_le (n bs idx : Nat) : (lastSlice n bs idx).length ≤ bs := by
  simp only [lastSlice, List.length_map, List.length_range]
  omega

/-- **coverage for every adequate window policy**: one pass over the per-function loader presents every
    (function, location) pair, for every data-set size and every requested batch size -/
theorem unique_cover_win (win : Nat → Nat → Nat → List Nat) (hw : WinOk win) (nB nT : Nat) (rB rT : Int)
    (hrB : rB ≠ 0) (hrT : rT ≠ 0) (f x : Nat) (hf : f < nB) (hx : x < nT) :
    ∃ idx, idx < uniqueLen nB (effBatch nB rB) nT (effBatch nT rT) ∧
      f ∈ (uniqueBatchWin win nB (effBatch nB rB) nT (effBatch nT rT) idx).1 ∧
      x ∈ (uniqueBatchWin win nB (effBatch nB rB) nT (effBatch nT rT) idx).2 := by
  have hbB := effBatch_pos nB rB (by omega) hrB
  have hbT := effBatch_pos nT rT (by omega) hrT
  have hB := effBatch_le nB rB
  have hT := effBatch_le nT rT
  generalize effBatch nB rB = bB at *
  generalize effBatch nT rT = bT at *
  have hi := div_lt_ceilDiv nB bB f hbB hf
  have hj := div_lt_ceilDiv nT bT x hbT hx
  have hTl : 0 < ceilDiv nT bT := Nat.lt_of_le_of_lt (Nat.zero_le _) hj
  obtain ⟨hlt, hs⟩ := (unique_split_bij (ceilDiv nB bB) (ceilDiv nT bT) hTl).2 _ _ hi hj
  refine ⟨f / bB * ceilDiv nT bT + x / bT, hlt, ?_, ?_⟩
  · simp only [uniqueBatchWin, hs]; exact hw nB bB f hbB hB hf
  · simp only [uniqueBatchWin, hs]; exact hw nT bT x hbT hT hx

/-- the policy "last window = last `bs` rows" covers every pair too -/
theorem unique_cover_last (nB nT : Nat) (rB rT : Int) (hrB : rB ≠ 0) (hrT : rT ≠ 0)
    (f x : Nat) (hf : f < nB) (hx : x < nT) :
    ∃ idx, idx < uniqueLen nB (effBatch nB rB) nT (effBatch nT rT) ∧
      f ∈ (uniqueBatchWin lastSlice nB (effBatch nB rB) nT (effBatch nT rT) idx).1 ∧
      x ∈ (uniqueBatchWin lastSlice nB (effBatch nB rB) nT (effBatch nT rT) idx).2 :=
  unique_cover_win lastSlice lastSlice_ok nB nT rB rT hrB hrT f x hf hx

/-- the coded policy is the instance `wrapSlice` of the same statement -/
theorem uniqueBatchWin_wrap (nB bB nT bT idx : Nat) : uniqueBatchWin wrapSlice nB bB nT bT idx = uniqueBatch nB bB nT bT idx := rfl

example : lastSlice 5 2 2 = [3, 4] ∧ wrapSlice 5 2 2 = [4, 0] := by decide

/-- non-vacuity: 5 functions in batches of 2 (wrap-around), 7 locations with an oversized request -/
example : ∃ idx, idx < uniqueLen 5 (effBatch 5 2) 7 (effBatch 7 9) ∧
    4 ∈ (uniqueBatch 5 (effBatch 5 2) 7 (effBatch 7 9) idx).1 ∧ 6 ∈ (uniqueBatch 5 (effBatch 5 2) 7 (effBatch 7 9) idx).2 :=
  unique_cover 5 7 2 9 (by decide) (by decide) 4 6 (by decide) (by decide)

/-- the split of the pinned snapshot (`idx / branch_batch_len`) does not cover: 4 functions,
    6 locations, batch sizes 2 and 2 -/
theorem uniqueOld_not_cover_4_2_6_2 : uniqueCoversWith uniqueSplitOld 4 2 6 2 = false := by decide +kernel

/-! ## shared trunk layout (`DeepONetDataset`) -/

/-- the unconditional coverage statement is false of the code: 4 functions, 4 locations, batch
    sizes 2 and 2 — the joint index only ever pairs the k-th function batch with the k-th location
    batch (a recorded finding, see known_findings.json) -/
theorem shared_not_cover_4_2_4_2 : sharedCovers 4 2 4 2 = false := by decide +kernel

/-- membership in the wrap-around slice: offsets `t < bs` from the start, modulo the data size -/
theorem wrapSlice_mem_of_offset (n bs idx t : Nat) (hn : 0 < n) (hle : bs ≤ n) (ht : t < bs) :
    (idx * bs + t) % n ∈ wrapSlice n bs idx := by
  have e : (idx + 1) * bs = idx * bs + bs := by rw [Nat.add_mul, Nat.one_mul]
  have ha := Nat.mod_lt (idx * bs) hn
  have h1 : (idx * bs + t) % n = ((idx * bs) % n + t) % n := by rw [Nat.add_mod, Nat.mod_eq_of_lt (a := t) (by omega)]
  have h2 : ((idx + 1) * bs) % n = ((idx * bs) % n + bs) % n := by
    rw [e, Nat.add_mod]; by_cases hb : bs = n
    · subst hb; simp
    · rw [Nat.mod_eq_of_lt (a := bs) (by omega)]
  rw [h1]; simp only [wrapSlice, h2]
  generalize (idx * bs) % n = a at *
  by_cases hw : a + bs < n
  · rw [Nat.mod_eq_of_lt hw, if_pos (by omega), Nat.mod_eq_of_lt (by omega)]
    simp only [List.mem_map, List.mem_range]; exact ⟨t, by omega, by omega⟩
  · have hb : (a + bs) % n = a + bs - n := by
      rw [Nat.mod_eq_sub_mod (by omega)]; exact Nat.mod_eq_of_lt (by omega)
    rw [hb, if_neg (by omega)]
    simp only [List.mem_append, List.mem_map, List.mem_range]
    by_cases hx : a + t < n
    · rw [Nat.mod_eq_of_lt hx]; exact Or.inl ⟨t, by omega, by omega⟩
    · have : (a + t) % n = a + t - n := by
        rw [Nat.mod_eq_sub_mod (by omega)]; exact Nat.mod_eq_of_lt (by omega)
      rw [this]; exact Or.inr (by omega)

theorem lcm_div_right (n b : Nat) (hb : 0 < b) : Nat.lcm n b / b = n / Nat.gcd n b := by
  have hg : 0 < Nat.gcd n b := Nat.gcd_pos_of_pos_right n hb
  obtain ⟨k, hk⟩ := Nat.gcd_dvd_left n b
  have h := Nat.gcd_mul_lcm n b
  have hl : Nat.lcm n b = k * b := by
    apply Nat.eq_of_mul_eq_mul_left hg
    rw [h]; conv => lhs; rw [hk]
    ring
  rw [hl, Nat.mul_div_cancel _ hb]
  exact (Nat.div_eq_of_eq_mul_right hg hk).symm

/-- the starts `idx·b mod n` reach every multiple of `g = gcd n b` below `n` -/
theorem exists_start (n b s : Nat) (hn : 0 < n) (hb : 0 < b) (hs : s < n) (hdiv : Nat.gcd n b ∣ s) :
    ∃ i, (i * b) % n = s := by
  by_cases hg : Nat.gcd b n < n
  · obtain ⟨m, -, hm⟩ := Nat.exists_mul_mod_eq_gcd hg
    obtain ⟨q, hq⟩ := hdiv
    refine ⟨m * q, ?_⟩
    rw [Nat.gcd_comm] at hm
    have : m * q * b = (b * m) * q := by ring
    rw [this, Nat.mul_mod, hm, Nat.mul_mod_mod, ← hq]
    exact Nat.mod_eq_of_lt hs
  · have : Nat.gcd b n = n := le_antisymm (Nat.gcd_le_right b hn) (Nat.le_of_not_lt hg)
    rw [Nat.gcd_comm] at this
    rw [this] at hdiv
    have hs0 : s = 0 := Nat.eq_zero_of_dvd_of_lt hdiv hs
    exact ⟨0, by simp [hs0]⟩

/-- **coverage of the shared layout under the coprimality side condition**: if the two periods
    `nB / gcd(nB,bB)` and `nT / gcd(nT,bT)` are coprime, one pass (`sharedLen` batches) presents every
    (function, location) pair. -/
theorem shared_cover (nB bB nT bT : Nat) (hbB : 0 < bB) (hB : bB ≤ nB) (hbT : 0 < bT) (hT : bT ≤ nT)
    (hco : Nat.Coprime (nB / Nat.gcd nB bB) (nT / Nat.gcd nT bT))
    (f x : Nat) (hf : f < nB) (hx : x < nT) :
    ∃ idx, idx < sharedLen nB bB nT bT ∧
      f ∈ (sharedBatch nB bB nT bT idx).1 ∧ x ∈ (sharedBatch nB bB nT bT idx).2 := by
  have hnB : 0 < nB := by omega
  have hnT : 0 < nT := by omega
  -- per axis: an index class whose window contains the datum
  have axis : ∀ (n b i : Nat), 0 < b → b ≤ n → i < n →
      ∃ i0, ∀ idx, idx ≡ i0 [MOD n / Nat.gcd n b] → i ∈ wrapSlice n b idx := by
    intro n b i hb hle hi
    have hn : 0 < n := by omega
    set g := Nat.gcd n b with hgdef
    have hg : 0 < g := Nat.gcd_pos_of_pos_right n hb
    have hgb : g ≤ b := Nat.le_of_dvd hb (Nat.gcd_dvd_right n b)
    obtain ⟨i0, hi0⟩ := exists_start n b (i / g * g) hn hb
      (lt_of_le_of_lt (Nat.div_mul_le_self i g) hi) (Dvd.intro_left _ rfl)
    refine ⟨i0, fun idx hmod => ?_⟩
    -- the start only depends on idx mod n/g
    have hstart : (idx * b) % n = (i0 * b) % n := by
      have h1 : idx * b ≡ i0 * b [MOD (n / g) * b] := Nat.ModEq.mul_right' b hmod
      have hdvd : n ∣ (n / g) * b := by
        obtain ⟨k, hk⟩ := Nat.gcd_dvd_right n b
        have : n / g * b = n / g * g * k := by rw [Nat.mul_assoc, ← hk]
        rw [this, Nat.div_mul_cancel (Nat.gcd_dvd_left n b)]
        exact Dvd.intro _ rfl
      exact (Nat.ModEq.of_dvd hdvd h1)
    have hmem := wrapSlice_mem_of_offset n b idx (i - i / g * g) hn hle (by
      have := Nat.mod_lt i hg
      have h2 := Nat.div_add_mod i g
      have h3 : g * (i / g) = i / g * g := Nat.mul_comm _ _
      omega)
    have hval : (idx * b + (i - i / g * g)) % n = i := by
      have hle' := Nat.div_mul_le_self i g
      rw [Nat.add_mod, hstart, hi0, Nat.mod_eq_of_lt (a := i - i / g * g) (by omega),
        Nat.add_sub_cancel' hle']
      exact Nat.mod_eq_of_lt hi
    rw [hval] at hmem; exact hmem
  obtain ⟨iB, hiB⟩ := axis nB bB f hbB hB hf
  obtain ⟨iT, hiT⟩ := axis nT bT x hbT hT hx
  have hpB : nB / Nat.gcd nB bB ≠ 0 := by
    have := Nat.div_pos (Nat.le_of_dvd hnB (Nat.gcd_dvd_left nB bB)) (Nat.gcd_pos_of_pos_right nB hbB)
    omega
  have hpT : nT / Nat.gcd nT bT ≠ 0 := by
    have := Nat.div_pos (Nat.le_of_dvd hnT (Nat.gcd_dvd_left nT bT)) (Nat.gcd_pos_of_pos_right nT hbT)
    omega
  let k := Nat.chineseRemainder hco iB iT
  refine ⟨k.1, ?_, hiB _ k.2.1, hiT _ k.2.2⟩
  have hlt := Nat.chineseRemainder_lt_mul hco iB iT hpB hpT
  simp only [sharedLen, lcm_div_right nB bB hbB, lcm_div_right nT bT hbT, hco.lcm_eq_mul]
  exact hlt

/-- non-vacuity: 6 functions in batches of 4 (period 3), 4 locations in batches of 2 (period 2) -/
example : ∃ idx, idx < sharedLen 6 4 4 2 ∧ 5 ∈ (sharedBatch 6 4 4 2 idx).1 ∧ 3 ∈ (sharedBatch 6 4 4 2 idx).2 :=
  shared_cover 6 4 4 2 (by decide) (by decide) (by decide) (by decide) (by decide) 5 3 (by decide) (by decide)


/-- the same for every requested batch size (negative = everything, oversized = clamped) -/
theorem shared_cover_eff (nB nT : Nat) (rB rT : Int) (hrB : rB ≠ 0) (hrT : rT ≠ 0)
    (hco : Nat.Coprime (nB / Nat.gcd nB (effBatch nB rB)) (nT / Nat.gcd nT (effBatch nT rT)))
    (f x : Nat) (hf : f < nB) (hx : x < nT) :
    ∃ idx, idx < sharedLen nB (effBatch nB rB) nT (effBatch nT rT) ∧
      f ∈ (sharedBatch nB (effBatch nB rB) nT (effBatch nT rT) idx).1 ∧
      x ∈ (sharedBatch nB (effBatch nB rB) nT (effBatch nT rT) idx).2 :=
  shared_cover nB _ nT _ (effBatch_pos nB rB (by omega) hrB) (effBatch_le nB rB)
    (effBatch_pos nT rT (by omega) hrT) (effBatch_le nT rT) hco f x hf hx

/-- pairing inside a DeepONet batch: entry (i, j) of the output block belongs to the i-th branch
    row and the j-th trunk row of the same batch -/
theorem outBlock_get {α} (out : Nat → Nat → α) (b : List Nat × List Nat) (i j : Nat)
    (hi : i < b.1.length) (hj : j < b.2.length) :
    ((outBlock out b)[i]?.bind (·[j]?)) = some (out b.1[i] b.2[j]) := by
  simp [outBlock, List.getElem?_map, List.getElem?_eq_getElem hi, List.getElem?_eq_getElem hj]


/-! ## full-data-set fold of `DataCondition.forward` -/

theorem foldMean_aux (c : Rat) (bs : List (List Rat)) (a : Rat) :
    bs.foldl (fun l b => l + mean b / c) a = a + (bs.map mean).sum / c := by
  induction bs generalizing a with
  | nil => simp
  | cons b bs ih => simp only [List.foldl_cons, ih, List.map_cons, List.sum_cons]; ring

/-- full-data-set evaluation, p-norms: every batch contributes its mean exactly once, divided by the
    number of batches — the mean of the per-batch means -/
theorem fold_mean (bs : List (List Rat)) : foldMean bs = (bs.map mean).sum / bs.length := by
  simp only [foldMean, foldMean_aux]; simp

theorem maxAbs_aux (xs : List Rat) (m : Rat) (hm : 0 ≤ m) :
    xs.foldl (fun m x => max m (if x < 0 then -x else x)) m = max m (maxAbs xs) := by
  induction xs generalizing m with
  | nil => simp [maxAbs, hm]
  | cons x xs ih =>
    have hx : (0:Rat) ≤ (if x < 0 then -x else x) := by split <;> [linarith; exact le_of_not_gt ‹_›]
    simp only [maxAbs, List.foldl_cons]
    rw [ih _ (le_max_of_le_left hm), ih (max 0 _) (le_max_left _ _)]
    simp only [maxAbs]
    rw [max_eq_right hx, max_assoc]

theorem maxAbs_nonneg (xs : List Rat) : 0 ≤ maxAbs xs := by
  have := maxAbs_aux xs 0 le_rfl
  simp only [maxAbs] at this ⊢
  rw [this]; exact le_max_left _ _

theorem maxAbs_append (xs ys : List Rat) : maxAbs (xs ++ ys) = max (maxAbs xs) (maxAbs ys) := by
  simp only [maxAbs, List.foldl_append]
  exact maxAbs_aux ys _ (maxAbs_nonneg xs)

theorem fold_inf_aux (bs : List (List Rat)) (l : Rat) (hl : 0 ≤ l) :
    bs.foldl (fun l b => max l (maxAbs b)) l = max l (maxAbs bs.flatten) := by
  induction bs generalizing l with
  | nil => simp [maxAbs, hl]
  | cons b bs ih =>
    simp only [List.foldl_cons, List.flatten_cons]
    rw [ih _ (le_max_of_le_left hl), maxAbs_append, max_assoc]

/-- full-data-set evaluation, inf-norm: the running maximum over batches is the maximum over all data -/
theorem fold_inf (bs : List (List Rat)) : foldInf bs = maxAbs bs.flatten := by
  simp only [foldInf]; rw [fold_inf_aux bs 0 le_rfl, max_eq_right (maxAbs_nonneg _)]

end TPV.DataLoader
