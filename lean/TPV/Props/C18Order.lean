/-
  C18 (consequence clause) — the normalisation layer built from the bounding box maps the points of the domain into
  [-1, 1]^d in whatever order the incoming Points object stores its variables.  Combines C18's enclosure
  (`domain_normalized_into_cube`, lifted to batches in Props/C08Norm.lean) with C08's `perm_invariant`
  (`_fix_points_order` = selection of the columns by name, `Points[..., [names]]` in the REQUESTED order).
-/
import TPV.Props.C08Norm
namespace TPV.Net
open TPV.Geom
variable {K : Type} [Field K] [LinearOrder K] [IsStrictOrderedRing K]

/-- **Order invariance of the consequence clause.**  The normalisation layer built from the domain's bounding
    box sends a batch of points of the domain into `[-1, 1]^d` in WHATEVER order the incoming `Points` object
    stores its variables: `q` is any presentation of the same named data as the presentation `⟨S, sh, rows⟩`
    in the layer's own space (e.g. the output of `sampler_t * sampler_x` for a domain `D_x × D_t`); the layer
    matches centre and half-width to the columns BY NAME (`_fix_points_order`) and returns exactly what it
    returns for the ordered presentation. -/
theorem normalizationLayer_into_cube_any_order (D : Dom K) (ρs : List (Env K)) (ρ : Env K) (box : List (K × K))
    (S : Space) (sh : List Nat) (rows : List (List K)) (q : Pts K)
    (hq : SameNamed q ⟨S, sh, rows⟩)
    (hw : D.wfVars) (hρ : ρ ∈ ρs) (hb : bbox D ρs ρ = some box) (hne : ∀ b ∈ box, b.1 < b.2)
    (hrows : ∀ p ∈ rows, p.length = sdim S ∧ ∃ pts, Agree D pts ρ ∧ mem D pts ρ ∧ flatPt D.vars pts = some p) :
    ∃ out, (NormalizationLayer S box).apply q = some ⟨S, sh, out⟩ ∧ ∀ y ∈ out, ∀ z ∈ y, -1 ≤ z ∧ z ≤ 1 := by
  obtain ⟨out, h1, h2⟩ := normalizationLayer_into_cube D ρs ρ box S sh rows hw hρ hb hne hrows
  exact ⟨out, by rw [perm_invariant (NormalizationLayer S box) rfl hq]; exact h1, h2⟩

/-- non-vacuity / executable instance: layer space (x ∈ ℝ², t), box x ∈ [0,2]×[0,4], t ∈ [1,3]; the point
    x = (1, 3), t = 2 presented as (t, x) is normalised exactly as when presented as (x, t) — had the columns
    not been matched by name, `t = 2` would have been scaled with the first x-axis -/
example : (NormalizationLayer [("x", 2), ("t", 1)] [((0 : Rat), 2), (0, 4), (1, 3)]).apply ⟨[("t", 1), ("x", 2)], [1], [[2, 1, 3]]⟩
    = some ⟨[("x", 2), ("t", 1)], [1], [[0, 1/2, 0]]⟩ := by decide +kernel
example : (NormalizationLayer [("x", 2), ("t", 1)] [((0 : Rat), 2), (0, 4), (1, 3)]).apply ⟨[("x", 2), ("t", 1)], [1], [[1, 3, 2]]⟩
    = some ⟨[("x", 2), ("t", 1)], [1], [[0, 1/2, 0]]⟩ := by decide +kernel

end TPV.Net
