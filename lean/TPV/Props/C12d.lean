import TPV.Props.C12b
import TPV.Props.C12c
namespace TPV.Table
variable {α : Type}

/-! ## read accessors are functions of the current table -/

theorem mapM_pick_cols (data : List (List α)) (cols : List Nat) (f : List α → List α)
    (h : ∀ r ∈ data, gather r cols = some (f r)) :
    data.mapM (pickCols (some cols)) = some (data.map f) := by
  induction data with
  | nil => rfl
  | cons r rest ih =>
    rw [List.mapM_cons]
    simp only [pickCols, h r (by simp), ih (fun x hx => h x (List.mem_cons_of_mem _ hx)), bind,
      Option.bind, pure, List.map_cons]

/-- **selection by name and `coordinates` agree**: on a well-formed table `p[..., v]` is the space
    `{v}` with exactly the cells that `p.coordinates[v]` shows (both are the column block of `v`) -/
theorem getitem_name_coords (p : Points α) (h : p.Inv) (v : String) (hv : v ∈ keys p.space.vars) :
    p.getitem (.tup [.ell, .name v]) =
      .ok ⟨⟨[(v, dimOf p.space.vars v)]⟩, p.shape, p.data.map (piece p.space.vars v)⟩ := by
  obtain ⟨⟨hs, hl, hrow⟩, _⟩ := h
  have hk : 1 ≤ p.shape.length := by
    cases hsh : p.shape with
    | nil => exact absurd hsh hs
    | cons a b => simp
  have hsel : p.select (.tup [.ell, .name v]) =
      .ok ⟨p.shape.map fullSel, [(v, dimOf p.space.vars v)], some (colsOf p.space.vars v)⟩ := by
    have hsplit : splitIndex (p.shape.length + 1) (.tup [.ell, .name v]) = .ok ([.ell], some (.name v)) := by
      simp [splitIndex]
      rfl
    have he : expandItems p.shape.length [Item.ell] = .ok (List.replicate p.shape.length fullSlice) := by
      simp [expandItems]
      rfl
    simp only [Points.select, hsplit, keyPart, colKey_name _ _ hv, bind, Except.bind, pure, Except.pure]
    simp only [List.filter_cons, Item.isAdvanced, ne_eq, not_true_eq_false, decide_false,
      List.filter_nil, List.length_nil, Bool.false_eq_true, if_false, Nat.not_lt_zero]
    have h0 : ¬ ((some (Item.name v)).isNone = true ∧ 0 = p.shape.length + 1) := by simp
    simp only [h0, if_false, he, selsOf_full]
  have hcols : p.data.mapM (pickCols (some (colsOf p.space.vars v))) = some (p.data.map (piece p.space.vars v)) :=
    mapM_pick_cols _ _ _ (fun r hr => gather_colsOf _ v r hv (hrow r hr))
  simp only [Points.getitem, bind, Except.bind, hsel, flatIdx_full, ← hl, gather_range, hcols,
    keptShape_full, hs, if_false, pure, Except.pure]

/-- `coordinates` is a function of the current state: per variable the element type, the
    `requires_grad` flag and the column block of the CURRENT table -/
theorem coordinates_of_state (o : Obj α) :
    o.coordinates = o.t.pts.space.names.map fun v =>
      (v, o.t.dtype, o.grad, o.t.pts.data.map (piece o.t.pts.space.vars v)) := by
  simp [Obj.coordinates, Points.coordinates, List.map_map, Function.comp_def]

/-- `p[..., v]` read from an object shows what `coordinates[v]` shows -/
theorem byName_of_state (o : Obj α) (h : o.t.pts.Inv) (v : String) (hv : v ∈ keys o.t.pts.space.vars) :
    o.byName v = .ok ⟨o.t.dtype, ⟨[(v, dimOf o.t.pts.space.vars v)]⟩, o.t.pts.shape,
      o.t.pts.data.map (piece o.t.pts.space.vars v)⟩ := by
  simp only [Obj.byName, TPoints.getitem, getitem_name_coords _ h v hv, bind, Except.bind, pure, Except.pure]

/-- `p.to(dtype)` changes the element type and nothing else: every accessor afterwards shows the same
    cells with the new type -/
theorem to_state (o o' : Obj α) (d : DType) (h : o.step (.to d) = .ok o') :
    o'.t.pts = o.t.pts ∧ o'.t.dtype = d ∧
      o'.coordinates = o.coordinates.map (fun c => (c.1, d, o'.grad, c.2.2.2)) := by
  simp only [Obj.step, pure, Except.pure, Except.ok.injEq] at h; subst h
  refine ⟨rfl, rfl, ?_⟩
  simp [Obj.coordinates, List.map_map, Function.comp_def]

/-- the `requires_grad` setter changes the flag and nothing else -/
theorem setGrad_state (o o' : Obj α) (b : Bool) (h : o.step (.setGrad b) = .ok o') :
    o'.t = o.t ∧ o'.requiresGrad = b := by
  simp only [Obj.step] at h
  split at h
  · cases h
  · simp only [pure, Except.pure, Except.ok.injEq] at h; subst h; exact ⟨rfl, rfl⟩

def Mut.operandOk : Mut α → Prop
  | .set _ q => q.pts.WF
  | _ => True

/-- **object histories**: whatever sequence of assignments, type conversions and `requires_grad`
    changes an object goes through, its table stays well-formed — so after every history all read
    accessors are the functions above of ONE well-formed table -/
theorem obj_run_inv (o o' : Obj α) (ms : List (Mut α)) (h : o.t.pts.Inv) (hm : ∀ m ∈ ms, m.operandOk)
    (hr : o.run ms = .ok o') : o'.t.pts.Inv := by
  induction ms generalizing o with
  | nil => simp only [Obj.run, pure, Except.pure, Except.ok.injEq] at hr; subst hr; exact h
  | cons m rest ih =>
    simp only [Obj.run, bind, Except.bind] at hr
    split at hr
    · cases hr
    · rename_i o1 ho1
      refine ih o1 ?_ (fun x hx => hm x (List.mem_cons_of_mem _ hx)) hr
      cases m with
      | set ix q =>
        simp only [Obj.step] at ho1
        split at ho1
        · cases ho1
        · simp only [bind, Except.bind] at ho1
          split at ho1
          · cases ho1
          · rename_i t ht
            simp only [pure, Except.pure, Except.ok.injEq] at ho1; subst ho1
            exact setitem_inv _ _ _ ix h (hm (.set ix q) (by simp)) (tsetitem_spec _ _ _ ix ht).1
      | «to» d => simp only [Obj.step, pure, Except.pure, Except.ok.injEq] at ho1; subst ho1; exact h
      | setGrad b =>
        simp only [Obj.step] at ho1
        split at ho1
        · cases ho1
        · simp only [pure, Except.pure, Except.ok.injEq] at ho1; subst ho1; exact h

end TPV.Table
