/-
  C04 — a condition's loss is reduce(error(residual)) on exactly its sampled points.
  Property theorems about `TPV.Model.Condition` (the executable model the driver runs); helper lemmas are
  listed as aux lemmas in lean/obligations/C04.json.
-/
import TPV.Model.Condition
import Mathlib.Data.List.Perm.Basic
import Mathlib.Data.List.Nodup
import Mathlib.Algebra.Order.Field.Basic
import Mathlib.Algebra.Order.Field.Rat
import Mathlib.Algebra.Order.BigOperators.Ring.List
import Mathlib.Algebra.BigOperators.Group.List.Basic
import Mathlib.Analysis.Calculus.Deriv.Mul
import Mathlib.Analysis.Calculus.Deriv.Add
import Mathlib.Tactic.Ring
import Mathlib.Tactic.Linarith

namespace TPV.Cond
open TPV.CondExpr

section routing
variable {K : Type}



/-! ## tables: coordinates split per variable and re-joined -/

theorem dimOf_cons (v : String) (d : Nat) (s : SpaceL) : dimOf ((v, d) :: s) = d + dimOf s := by
  simp [dimOf]

/-- re-joining the per-variable blocks of a row gives the row back (row long enough for the space) -/
theorem joinRow_splitRow : ∀ (s : SpaceL) (row : List K), row.length = dimOf s → joinRow (splitRow s row) = row
  | [], row, h => by
    have : row = [] := List.length_eq_zero_iff.mp (by simpa [dimOf] using h)
    simp [splitRow, joinRow, this]
  | (v, d) :: s, row, h => by
    have hl : (row.drop d).length = dimOf s := by
      rw [List.length_drop, h, dimOf_cons]; omega
    have ih := joinRow_splitRow s (row.drop d) hl
    simp only [joinRow] at ih ⊢
    simp [splitRow, ih]

/-- the blocks have the dimensions of the space, in the order of the space -/
theorem spaceOf_splitRow : ∀ (s : SpaceL) (row : List K), row.length = dimOf s → spaceOf (splitRow s row) = s
  | [], _, _ => by simp [splitRow, spaceOf]
  | (v, d) :: s, row, h => by
    have hl : (row.drop d).length = dimOf s := by
      rw [List.length_drop, h, dimOf_cons]; omega
    have ih := spaceOf_splitRow s (row.drop d) hl
    simp only [spaceOf] at ih ⊢
    have hd : d ≤ row.length := by rw [h, dimOf_cons]; omega
    simp [splitRow, ih, List.length_take, hd]

/-- `Points.from_coordinates(points.coordinates)` is the identity on dicts: splitting the re-joined
    row by the dict's own space gives the dict back (any dict, any order) -/
theorem splitRow_joinRow : ∀ d : Named K, splitRow (spaceOf d) (joinRow d) = d
  | [] => by simp [splitRow, spaceOf, joinRow]
  | (n, v) :: d => by
    have ih := splitRow_joinRow d
    simp only [spaceOf, joinRow] at ih ⊢
    simp [splitRow, ih]

theorem names_spaceOf_splitRow : ∀ (s : SpaceL) (row : List K), (splitRow s row).map (·.1) = names s
  | [], _ => by simp [splitRow, names]
  | (v, d) :: s, row => by
    have ih := names_spaceOf_splitRow s (row.drop d)
    simp only [names] at ih ⊢
    simp [splitRow, ih]



theorem lookup_eq_none_of_not_mem (d : Named K) (k : String) (h : k ∉ d.map (·.1)) : d.lookup k = none := by
  induction d with
  | nil => rfl
  | cons p d ih =>
    obtain ⟨n, v⟩ := p
    simp only [List.map_cons, List.mem_cons, not_or] at h
    have hne : (k == n) = false := by simpa using h.1
    simp [List.lookup, hne, ih h.2]

theorem lookup_of_mem_nodup (d : Named K) (hn : (d.map (·.1)).Nodup) (k : String) (v : List K)
    (h : (k, v) ∈ d) : d.lookup k = some v := by
  induction d with
  | nil => simp at h
  | cons p d ih =>
    obtain ⟨n, w⟩ := p
    simp only [List.map_cons, List.nodup_cons] at hn
    rcases List.mem_cons.mp h with h | h
    · cases h; simp [List.lookup]
    · have hk : k ∈ d.map (·.1) := List.mem_map.mpr ⟨(k, v), h, rfl⟩
      have hne : (k == n) = false := by
        have : k ≠ n := fun e => hn.1 (e ▸ hk)
        simpa using this
      simp [List.lookup, hne, ih hn.2 h]

/-- a dict with distinct keys is determined, for lookup, by its set of entries: ORDER does not matter -/
theorem lookup_perm {d d' : Named K} (hp : d.Perm d') (hn : (d.map (·.1)).Nodup) (k : String) :
    d.lookup k = d'.lookup k := by
  have hn' : (d'.map (·.1)).Nodup := (hp.map (·.1)).nodup_iff.mp hn
  by_cases hk : k ∈ d.map (·.1)
  · obtain ⟨⟨k', v⟩, hm, rfl⟩ := List.mem_map.mp hk
    rw [lookup_of_mem_nodup d hn k' v hm, lookup_of_mem_nodup d' hn' k' v (hp.subset hm)]
  · have hk' : k ∉ d'.map (·.1) := fun h => hk ((hp.map (·.1)).symm.subset h)
    rw [lookup_eq_none_of_not_mem d k hk, lookup_eq_none_of_not_mem d' k hk']

theorem selectVars_congr {x x' : Named K} (vs : List String) (h : ∀ v ∈ vs, x.lookup v = x'.lookup v) :
    selectVars x vs = selectVars x' vs := by
  induction vs with
  | nil => rfl
  | cons v vs ih =>
    have h1 := h v (List.mem_cons_self ..)
    have h2 := ih (fun w hw => h w (List.mem_cons_of_mem _ hw))
    simp [selectVars, h1, h2]

theorem selectVars_self : ∀ (x : Named K), (x.map (·.1)).Nodup →
    ∀ y : Named K, (∀ p ∈ y, x.lookup p.1 = some p.2) → selectVars x (y.map (·.1)) = some (y.map (·.2))
  | x, _, [], _ => rfl
  | x, hn, p :: y, h => by
    have h1 := h p (List.mem_cons_self ..)
    have ih := selectVars_self x hn y (fun q hq => h q (List.mem_cons_of_mem _ hq))
    simp [selectVars, h1, ih]

theorem sameKeys_refl (a : List String) : sameKeys a a = true := by
  simp [sameKeys]

/-- `_fix_points_order` only reads the dict BY NAME: with distinct variable names the model input is, block
    by block, the coordinate stored under the model's own variable names (or a ValueError when the name
    sets differ) — whatever the order of the variables in the sampled points -/
theorem fixOrder_by_name (inSpace : SpaceL) (x : Named K) (hn : (x.map (·.1)).Nodup) :
    fixOrder inSpace x =
      if sameKeys (x.map (·.1)) (names inSpace) then
        match selectVars x (names inSpace) with
        | some vs => .ok vs.flatten
        | none => .error .space
      else .error .space := by
  unfold fixOrder
  by_cases hs : spaceOf x = inSpace
  · have hnames : names inSpace = x.map (·.1) := by
      rw [← hs]; simp [names, spaceOf]
    have hsel : selectVars x (x.map (·.1)) = some (x.map (·.2)) :=
      selectVars_self x hn x (fun p hp => lookup_of_mem_nodup x hn p.1 p.2 hp)
    simp [hs, hnames, sameKeys_refl, hsel, joinRow]
  · rw [if_neg hs]
    split <;> rfl

theorem sameKeys_perm {a a' : List String} (hp : a.Perm a') (b : List String) : sameKeys a b = sameKeys a' b := by
  unfold sameKeys
  have h1 : a.all (b.contains ·) = a'.all (b.contains ·) := by
    rw [Bool.eq_iff_iff]; simp only [List.all_eq_true]
    exact ⟨fun h x hx => h x (hp.symm.subset hx), fun h x hx => h x (hp.subset hx)⟩
  have h2 : b.all (a.contains ·) = b.all (a'.contains ·) := by
    rw [Bool.eq_iff_iff]; simp only [List.all_eq_true, List.contains_iff_mem]
    exact ⟨fun h x hx => hp.subset (h x hx), fun h x hx => hp.symm.subset (h x hx)⟩
  rw [h1, h2]

/-- ORDER INVARIANCE of the model input: permuting the variables of the sampled points (any order of the
    sampler's space) does not change what the model is evaluated on -/
theorem fixOrder_perm (inSpace : SpaceL) {x x' : Named K} (hp : x.Perm x') (hn : (x.map (·.1)).Nodup) :
    fixOrder inSpace x = fixOrder inSpace x' := by
  have hn' : (x'.map (·.1)).Nodup := (hp.map (·.1)).nodup_iff.mp hn
  rw [fixOrder_by_name inSpace x hn, fixOrder_by_name inSpace x' hn', sameKeys_perm (hp.map (·.1)),
    selectVars_congr (names inSpace) (fun v _ => lookup_perm hp hn v)]



theorem mapM_congr_except {α β ε : Type} {f g : α → Except ε β} : ∀ (l : List α), (∀ a ∈ l, f a = g a) →
    l.mapM f = l.mapM g
  | [], _ => rfl
  | a :: l, h => by
    simp only [List.mapM_cons]
    rw [h a (List.mem_cons_self ..), mapM_congr_except l (fun b hb => h b (List.mem_cons_of_mem _ hb))]

theorem mapM_ok_forall₂ {α β ε : Type} {f : α → Except ε β} : ∀ (l : List α) (r : List β),
    l.mapM f = .ok r → List.Forall₂ (fun a b => f a = .ok b) l r
  | [], r, h => by
    simp only [List.mapM_nil, pure, Except.pure, Except.ok.injEq] at h
    subst h; exact .nil
  | a :: l, r, h => by
    simp only [List.mapM_cons, bind, Except.bind] at h
    cases hfa : f a with
    | error e => simp [hfa] at h
    | ok b =>
      cases hl : l.mapM f with
      | error e => simp [hfa, hl] at h
      | ok bs =>
        simp only [hfa, hl, pure, Except.pure, Except.ok.injEq] at h
        subst h
        exact .cons hfa (mapM_ok_forall₂ l bs hl)

theorem bindArg_congr (defaults : Named K) {args args' : Named K} (p : String)
    (h : args.lookup p = args'.lookup p) : bindArg defaults args p = bindArg defaults args' p := by
  simp [bindArg, h]

/-- BY-NAME SELECTION: what a user function computes depends only on the values stored under ITS OWN
    parameter names — not on the order of the dict, nor on any other entry -/
theorem call_congr (u : UFun K) {args args' : Named K} (h : ∀ p ∈ u.params, args.lookup p = args'.lookup p) :
    u.call args = u.call args' := by
  unfold UFun.call
  rw [mapM_congr_except u.params (fun p hp => bindArg_congr u.defaults p (h p hp))]

/-- every parameter receives the value stored under its name (defaults only where the dict has no entry) -/
theorem bindArg_spec (defaults args : Named K) (p : String) :
    bindArg defaults args p =
      match (args.lookup p).orElse (fun _ => defaults.lookup p) with
      | some v => .ok v
      | none => .error (.missingArg p) := by
  unfold bindArg
  cases args.lookup p <;> simp [Option.orElse] <;> cases defaults.lookup p <;> rfl

theorem call_ok_iff (u : UFun K) (args : Named K) (r : List K) :
    u.call args = .ok r ↔ ∃ bound, u.params.mapM (bindArg u.defaults args) = .ok bound ∧ u.f bound = .ok r := by
  unfold UFun.call
  cases h : u.params.mapM (bindArg u.defaults args) with
  | error e => simp [bind, Except.bind]
  | ok b => simp [bind, Except.bind]

theorem lookup_merge (a b : Named K) (k : String) :
    (merge a b).lookup k = (b.lookup k).or (a.lookup k) := by
  simp [merge, List.lookup_append]

/-! ## assembly of the residual's arguments -/

/-- the data dict has the user's keys, and under each key the value of THAT function on THIS row's
    coordinates (`xc`) — for a callable: `f` called by name on `xc`; for a pre-evaluated tensor: its row `i` -/
theorem evalDataFns_spec (n i : Nat) (xc : Named K) : ∀ (fs : List (String × DataFn K)) (data : Named K),
    evalDataFns n i xc fs = .ok data →
      List.Forall₂ (fun p q => q.1 = p.1 ∧ evalData n i xc p.2 = .ok q.2) fs data := by
  intro fs data h
  have := mapM_ok_forall₂ fs data h
  refine this.imp ?_
  intro p q hpq
  cases he : evalData n i xc p.2 with
  | error e => simp [he, bind, Except.bind] at hpq
  | ok v =>
    simp only [he, bind, Except.bind, pure, Except.pure, Except.ok.injEq] at hpq
    subst hpq; exact ⟨rfl, rfl⟩

theorem forall₂_keys {fs : List (String × DataFn K)} {data : Named K} {R : DataFn K → List K → Prop}
    (h : List.Forall₂ (fun p q => q.1 = p.1 ∧ R p.2 q.2) fs data) : data.map (·.1) = fs.map (·.1) := by
  induction h with
  | nil => rfl
  | cons hpq _ ih => simp [hpq.1, ih]

theorem forall₂_lookup {fs : List (String × DataFn K)} {data : Named K} {R : DataFn K → List K → Prop}
    (h : List.Forall₂ (fun p q => q.1 = p.1 ∧ R p.2 q.2) fs data) (hn : (fs.map (·.1)).Nodup)
    (f : String) (fn : DataFn K) (hm : (f, fn) ∈ fs) : ∃ v, data.lookup f = some v ∧ R fn v := by
  induction h with
  | nil => simp at hm
  | @cons p q fs data hpq _ ih =>
    obtain ⟨pn, pf⟩ := p; obtain ⟨qn, qv⟩ := q
    simp only at hpq
    simp only [List.map_cons, List.nodup_cons] at hn
    rcases List.mem_cons.mp hm with e | hm'
    · cases e
      exact ⟨qv, by simp [List.lookup, hpq.1], hpq.2⟩
    · have hne : (f == qn) = false := by
        have hk : f ∈ fs.map (·.1) := List.mem_map.mpr ⟨(f, fn), hm', rfl⟩
        have : f ≠ pn := fun e => hn.1 (e ▸ hk)
        rw [hpq.1]; simpa using this
      obtain ⟨v, hv, hr⟩ := ih hn.2 hm'
      exact ⟨v, by simp [List.lookup, hne, hv], hr⟩

theorem lookup_isSome_of_mem_keys (d : Named K) (k : String) (h : k ∈ d.map (·.1)) : ∃ w, d.lookup k = some w := by
  obtain ⟨⟨k', w⟩, hm, rfl⟩ := List.mem_map.mp h
  cases hl : d.lookup k' with
  | some w' => exact ⟨w', rfl⟩
  | none =>
    exfalso
    have := List.lookup_eq_none_iff.mp hl (k', w) hm
    simp at this

/-- explicit form of the dict `SingleModuleCondition.forward` hands to the residual for one row -/
theorem rowArgs_ok (c : SMCond K) (space : SpaceL) (n i : Nat) (row : List K) (a : Named K)
    (h : rowArgs c space n i row = .ok a) :
    ∃ data, evalDataFns n i (splitRow space row) c.dataFns = .ok data ∧
      match c.net with
      | some m => ∃ y ders, m.apply (splitRow space row) = .ok (y, ders) ∧
          a = data ++ (c.params ++ (splitRow space row ++ y)) ++ ders
      | none => a = data ++ (c.params ++ splitRow space row) := by
  unfold rowArgs at h
  simp only [splitRow_joinRow] at h
  cases hd : evalDataFns n i (splitRow space row) c.dataFns with
  | error e => simp [hd, bind, Except.bind] at h
  | ok data =>
    refine ⟨data, rfl, ?_⟩
    cases hnet : c.net with
    | none =>
      simp only [hd, hnet, bind, Except.bind, pure, Except.pure, Except.ok.injEq, merge] at h
      simpa using h.symm
    | some m =>
      simp only [hd, hnet, bind, Except.bind] at h
      cases hm : m.apply (splitRow space row) with
      | error e => simp [hm] at h
      | ok yd =>
        obtain ⟨y, ders⟩ := yd
        simp only [hm, pure, Except.pure, Except.ok.injEq, merge] at h
        exact ⟨y, ders, hm, by simpa using h.symm⟩

theorem Net.apply_keys (m : Net K) (x : Named K) (y ders : Named K) (h : m.apply x = .ok (y, ders)) :
    y.map (·.1) = names m.outSpace ∧ ∃ xin, fixOrder m.inSpace x = .ok xin ∧ y = splitRow m.outSpace (m.f xin) := by
  unfold Net.apply at h
  cases hx : fixOrder m.inSpace x with
  | error e => simp [hx, bind, Except.bind] at h
  | ok xin =>
    simp only [hx, bind, Except.bind] at h
    split at h
    · simp only [pure, Except.pure, Except.ok.injEq, Prod.mk.injEq] at h
      exact ⟨by rw [← h.1, names_spaceOf_splitRow], xin, rfl, h.1.symm⟩
    · simp at h

/-- ASSEMBLY BY NAME (PINN / mean / Deep-Ritz / custom single-module conditions): if the names of the data
    functions, the learnable parameters, the sampled variables and the model outputs are pairwise
    distinct, the dict handed to the residual for a row holds
      • under every sampled variable: that variable's block of THIS row,
      • under every model output variable: the model output at THIS row (model input selected by name),
      • under every parameter name: the learnable parameter,
      • under every data function's key: that function evaluated on THIS row's coordinates -/
theorem assemble_by_name (c : SMCond K) (m : Net K) (hnet : c.net = some m) (space : SpaceL) (n i : Nat)
    (row : List K) (a : Named K) (h : rowArgs c space n i row = .ok a)
    (hdist : ((c.dataFns.map (·.1)) ++ (c.params.map (·.1)) ++ names space ++ names m.outSpace).Nodup) :
    (∀ v ∈ names space, a.lookup v = (splitRow space row).lookup v) ∧
    (∃ xin, fixOrder m.inSpace (splitRow space row) = .ok xin ∧
        ∀ o ∈ names m.outSpace, a.lookup o = (splitRow m.outSpace (m.f xin)).lookup o) ∧
    (∀ p ∈ c.params.map (·.1), a.lookup p = c.params.lookup p) ∧
    (∀ f fn, (f, fn) ∈ c.dataFns → ∃ v, a.lookup f = some v ∧ evalData n i (splitRow space row) fn = .ok v) := by
  obtain ⟨data, hdata, hrest⟩ := rowArgs_ok c space n i row a h
  rw [hnet] at hrest
  obtain ⟨y, ders, hy, ha⟩ := hrest
  have hspec := evalDataFns_spec n i _ _ _ hdata
  have hdk : data.map (·.1) = c.dataFns.map (·.1) := forall₂_keys (R := fun fn v => evalData n i (splitRow space row) fn = .ok v) hspec
  obtain ⟨hyk, xin, hxin, hyeq⟩ := Net.apply_keys m _ y ders hy
  have hxk : (splitRow space row).map (·.1) = names space := names_spaceOf_splitRow space row
  -- disjointness facts
  rw [List.nodup_append] at hdist
  obtain ⟨h123, _, h123_4⟩ := hdist
  rw [List.nodup_append] at h123
  obtain ⟨h12, _, h12_3⟩ := h123
  rw [List.nodup_append] at h12
  obtain ⟨h1, _, h1_2⟩ := h12
  have nd : ∀ k, k ∈ c.params.map (·.1) ∨ k ∈ names space ∨ k ∈ names m.outSpace → data.lookup k = none := by
    intro k hk
    apply lookup_eq_none_of_not_mem; rw [hdk]; intro hkd
    rcases hk with hk | hk | hk
    · exact h1_2 k hkd k hk rfl
    · exact h12_3 k (List.mem_append_left _ hkd) k hk rfl
    · exact h123_4 k (List.mem_append_left _ (List.mem_append_left _ hkd)) k hk rfl
  have np : ∀ k, k ∈ names space ∨ k ∈ names m.outSpace → c.params.lookup k = none := by
    intro k hk
    apply lookup_eq_none_of_not_mem; intro hkp
    rcases hk with hk | hk
    · exact h12_3 k (List.mem_append_right _ hkp) k hk rfl
    · exact h123_4 k (List.mem_append_left _ (List.mem_append_right _ hkp)) k hk rfl
  have nx : ∀ k, k ∈ names m.outSpace → (splitRow space row).lookup k = none := by
    intro k hk
    apply lookup_eq_none_of_not_mem; rw [hxk]; intro hkx
    exact h123_4 k (List.mem_append_right _ hkx) k hk rfl
  subst ha
  refine ⟨?_, ⟨xin, hxin, ?_⟩, ?_, ?_⟩
  · intro v hv
    obtain ⟨w, hw⟩ := lookup_isSome_of_mem_keys _ v (hxk ▸ hv)
    simp [List.lookup_append, nd v (Or.inr (Or.inl hv)), np v (Or.inl hv), hw]
  · intro o ho
    obtain ⟨w, hw⟩ := lookup_isSome_of_mem_keys y o (hyk ▸ ho)
    rw [← hyeq]
    simp [List.lookup_append, nd o (Or.inr (Or.inr ho)), np o (Or.inr ho), nx o ho, hw]
  · intro p hp
    obtain ⟨w, hw⟩ := lookup_isSome_of_mem_keys c.params p hp
    simp [List.lookup_append, nd p (Or.inl hp), hw]
  · intro f fn hm
    obtain ⟨v, hv, hr⟩ := forall₂_lookup (R := fun fn v => evalData n i (splitRow space row) fn = .ok v) hspec h1 f fn hm
    exact ⟨v, by simp [List.lookup_append, hv], hr⟩



/-- PERIODIC CONDITION, each side on its own rows: the dict handed to the residual consists of the LEFT data
    (functions evaluated on the left end point joined with the non-periodic row) under `<name>_left`, the
    RIGHT data (evaluated on the right end point and the same non-periodic row) under `<name>_right`, the
    parameters, the non-periodic coordinates, the suffixed end points and the model outputs at the left
    resp. right input -/
theorem per_sides [Add K] [Sub K] [Mul K] [Neg K] [Div K] [OfNat K 0] [NatCast K] [LT K] [DecidableLT K]
    (c : PerCond K) (bspace : SpaceL) (n i : Nat) (xl xr xb : List K) (a : Named K)
    (h : perRowArgs c bspace n i xl xr xb = .ok a) :
    ∃ dl dr inl inr yl yr dsl dsr,
      evalDataFns n i (splitRow bspace xb ++ splitRow c.perSpace xl) c.leftData = .ok dl ∧
      evalDataFns n i (splitRow bspace xb ++ splitRow c.perSpace xr) c.rightData = .ok dr ∧
      joinNamed (splitRow c.perSpace xl) (splitRow bspace xb) = .ok inl ∧
      joinNamed (splitRow c.perSpace xr) (splitRow bspace xb) = .ok inr ∧
      c.net.apply inl = .ok (yl, dsl) ∧ c.net.apply inr = .ok (yr, dsr) ∧
      a = suffix "_left" dl ++ (suffix "_right" dr ++ (c.params ++ (splitRow bspace xb ++
            (suffix "_right" (splitRow c.perSpace xr) ++ (suffix "_left" (splitRow c.perSpace xl) ++
              (suffix "_right" yr ++ suffix "_left" yl)))))) := by
  unfold perRowArgs at h
  simp only [merge, bind, Except.bind] at h
  cases hdl : evalDataFns n i (splitRow bspace xb ++ splitRow c.perSpace xl) c.leftData with
  | error e => simp [hdl] at h
  | ok dl =>
    cases hdr : evalDataFns n i (splitRow bspace xb ++ splitRow c.perSpace xr) c.rightData with
    | error e => simp [hdl, hdr] at h
    | ok dr =>
      cases hjl : joinNamed (splitRow c.perSpace xl) (splitRow bspace xb) with
      | error e => simp [hdl, hdr, hjl] at h
      | ok inl =>
        cases hyl : c.net.apply inl with
        | error e => simp [hdl, hdr, hjl, hyl] at h
        | ok yl =>
          cases hjr : joinNamed (splitRow c.perSpace xr) (splitRow bspace xb) with
          | error e => simp [hdl, hdr, hjl, hyl, hjr] at h
          | ok inr =>
            cases hyr : c.net.apply inr with
            | error e => simp [hdl, hdr, hjl, hyl, hjr, hyr] at h
            | ok yr =>
              simp only [hdl, hdr, hjl, hyl, hjr, hyr, pure, Except.pure, Except.ok.injEq] at h
              exact ⟨dl, dr, inl, inr, yl.1, yr.1, yl.2, yr.2, rfl, rfl, rfl, rfl, hyl, hyr, by simpa using h.symm⟩

/-- the k-th and the (k + #batches)-th call of a per-batch DataCondition use the same batch: every batch is
    used once per pass, in order -/
theorem dataForward_cycle [Add K] [Sub K] [Mul K] [Neg K] [Div K] [OfNat K 0] [NatCast K] [LT K] [DecidableLT K]
    (c : DataCond K) (xspace : SpaceL) (batches : List (List (List K × List K))) (k : Nat) :
    dataForward c xspace batches (k + batches.length) = dataForward c xspace batches k := by
  simp [dataForward, Nat.add_mod_right]


end routing
set_option linter.unusedSectionVars false
section field
variable {K : Type} [Field K] [LinearOrder K] [IsStrictOrderedRing K]

theorem sumK_eq_sum (l : List K) : sumK l = l.sum := by
  induction l with
  | nil => rfl
  | cons a l ih => simp [sumK, List.foldr] at ih ⊢; rw [ih]

theorem residuals_length (c : SMCond K) (space : SpaceL) (rows rs : List (List K))
    (h : residuals c space rows = .ok rs) : rs.length = rows.length := by
  have := (mapM_ok_forall₂ _ _ h).length_eq
  simpa using this.symm

/-- PINN-type loss: the MEAN OVER THE SAMPLED POINTS of the squared residual SUMMED OVER ITS COMPONENTS —
    exactly one term per sampled row -/
theorem pinn_loss_spec (c : SMCond K) (space : SpaceL) (rows rs : List (List K))
    (he : c.err = .sq) (hr : c.red = .mean) (hne : rows ≠ [])
    (hres : residuals c space rows = .ok rs) :
    smLoss c space rows = .ok ((rs.map fun r => (r.map fun v => v * v).sum).sum / (rows.length : K)) ∧
      rs.length = rows.length := by
  have hl := residuals_length c space rows rs hres
  refine ⟨?_, hl⟩
  have hne' : (rs.map (sqErr (K := K))).isEmpty = false := by
    cases rs with
    | nil => simp at hl; exact absurd (List.length_eq_zero_iff.mp hl.symm) hne
    | cons a r => simp
  simp only [smLoss, hres, he, hr, bind, Except.bind, applyErr, applyRed, hne', Bool.false_eq_true, if_false]
  have hs : (sqErr : List K → K) = fun r => (r.map fun v => v * v).sum := by
    funext r; rw [sqErr, sumK_eq_sum]
  simp only [sumK_eq_sum, List.length_map, hl, hs]

/-- mean / Deep-Ritz loss: the plain mean over all entries of the residual table -/
theorem mean_loss_spec (c : SMCond K) (space : SpaceL) (rows rs : List (List K))
    (he : c.err = .ident) (hr : c.red = .mean) (hne : rs.flatten ≠ [])
    (hres : residuals c space rows = .ok rs) :
    smLoss c space rows = .ok (rs.flatten.sum / (rs.flatten.length : K)) := by
  have hne' : rs.flatten.isEmpty = false := by
    cases h : rs.flatten with
    | nil => exact absurd h hne
    | cons a r => rfl
  simp only [smLoss, hres, he, hr, bind, Except.bind, applyErr, applyRed, hne', Bool.false_eq_true, if_false,
    sumK_eq_sum]

theorem sqErr_nonneg (r : List K) : 0 ≤ sqErr r := by
  rw [sqErr, sumK_eq_sum]
  apply List.sum_nonneg
  intro x hx
  obtain ⟨v, _, rfl⟩ := List.mem_map.mp hx
  exact mul_self_nonneg v

theorem sqErr_eq_zero_iff (r : List K) : sqErr r = 0 ↔ ∀ v ∈ r, v = 0 := by
  induction r with
  | nil => simp [sqErr, sumK]
  | cons a r ih =>
    have h1 : sqErr (a :: r) = a * a + sqErr r := by simp [sqErr, sumK]
    rw [h1]
    constructor
    · intro h
      have ha := mul_self_nonneg a
      have hr := sqErr_nonneg r
      have ha0 : a * a = 0 := by linarith
      have hr0 : sqErr r = 0 := by linarith
      intro v hv
      rcases List.mem_cons.mp hv with rfl | hv
      · exact mul_self_eq_zero.mp ha0
      · exact ih.mp hr0 v hv
    · intro h
      have ha : a = 0 := h a (List.mem_cons_self ..)
      have hr : sqErr r = 0 := ih.mpr (fun v hv => h v (List.mem_cons_of_mem _ hv))
      rw [ha, hr]; ring

/-- a PINN loss vanishes exactly when the residual vanishes, in every component, on every sampled point -/
theorem pinn_loss_eq_zero_iff (c : SMCond K) (space : SpaceL) (rows rs : List (List K)) (l : K)
    (he : c.err = .sq) (hr : c.red = .mean) (hne : rows ≠ [])
    (hres : residuals c space rows = .ok rs) (hl : smLoss c space rows = .ok l) :
    l = 0 ↔ ∀ r ∈ rs, ∀ v ∈ r, v = 0 := by
  obtain ⟨hspec, _⟩ := pinn_loss_spec c space rows rs he hr hne hres
  rw [hspec] at hl
  simp only [Except.ok.injEq] at hl
  have hpos : (0 : K) < (rows.length : K) := by
    have : 0 < rows.length := List.length_pos_iff.mpr hne
    exact_mod_cast this
  have hsum : ∀ t : List (List K), (t.map fun r => (r.map fun v => v * v).sum).sum = 0 ↔ ∀ r ∈ t, ∀ v ∈ r, v = 0 := by
    intro t
    induction t with
    | nil => simp
    | cons a t ih =>
      have ha : (a.map fun v => v * v).sum = sqErr a := by rw [sqErr, sumK_eq_sum]
      have hnn : 0 ≤ (t.map fun r => (r.map fun v => v * v).sum).sum := by
        apply List.sum_nonneg
        intro x hx
        obtain ⟨r, _, rfl⟩ := List.mem_map.mp hx
        have : (r.map fun v => v * v).sum = sqErr r := by rw [sqErr, sumK_eq_sum]
        rw [this]; exact sqErr_nonneg r
      simp only [List.map_cons, List.sum_cons, List.forall_mem_cons]
      rw [ha]
      constructor
      · intro h
        have h1 := sqErr_nonneg a
        exact ⟨(sqErr_eq_zero_iff a).mp (by linarith), ih.mp (by linarith)⟩
      · intro h
        rw [(sqErr_eq_zero_iff a).mpr h.1, ih.mpr h.2]; ring
  rw [← hl, div_eq_zero_iff]
  constructor
  · intro h
    rcases h with h | h
    · exact (hsum rs).mp h
    · exact absurd h (ne_of_gt hpos)
  · intro h; exact Or.inl ((hsum rs).mpr h)

/-! ## DeepONet: sum over the LOCATION axis vs the COMPONENT axis -/

theorem colSq_cons (r : List K) (rs : List (List K)) (h : rs ≠ []) :
    colSq (r :: rs) = List.zipWith (fun v s => v * v + s) r (colSq rs) := by
  cases rs with
  | nil => exact absurd rfl h
  | cons a t => rfl

/-- for a rectangular block (every row has `C` components) both ways of squaring-and-summing add up the
    same total: the sum of all squared entries -/
theorem sum_colSq (C : Nat) : ∀ blk : List (List K), blk ≠ [] → (∀ r ∈ blk, r.length = C) →
    (colSq blk).sum = (blk.map sqErr).sum ∧ (colSq blk).length = C
  | [], h, _ => absurd rfl h
  | [r], _, hC => by
    simp [colSq, sqErr, sumK_eq_sum, hC r (List.mem_singleton_self r)]
  | r :: a :: t, _, hC => by
    have ih := sum_colSq C (a :: t) (by simp) (fun x hx => hC x (List.mem_cons_of_mem _ hx))
    have hr : r.length = C := hC r (List.mem_cons_self ..)
    rw [colSq_cons r (a :: t) (by simp)]
    have key : ∀ (u w : List K), u.length = w.length →
        (List.zipWith (fun v s => v * v + s) u w).sum = (u.map fun v => v * v).sum + w.sum := by
      intro u
      induction u with
      | nil => intro w hw; have : w = [] := List.length_eq_zero_iff.mp hw.symm; simp [this]
      | cons x u ihu =>
        intro w hw
        cases w with
        | nil => simp at hw
        | cons y w =>
          simp only [List.length_cons, Nat.add_right_cancel_iff] at hw
          simp only [List.zipWith_cons_cons, List.sum_cons, List.map_cons, ihu w hw]; ring
    constructor
    · rw [key r (colSq (a :: t)) (by rw [hr, ih.2]), ih.1]
      simp [sqErr, sumK_eq_sum]
    · simp [List.length_zipWith, hr, ih.2]


/-- DeepONet, any number of functions, locations and components: the old reduction (sum over the location
    axis) and the documented one (sum over the component axis) add up the SAME total of squared residuals but
    divide it by (functions × components) resp. (functions × locations) entries — the old loss was
    locations/components times the documented one -/
theorem don_unreduced_total (n C : Nat) (hn0 : 0 < n) (cOld cNew : DONCond K)
    (hold : cOld.sumOverLocations = true) (hnew : cNew.sumOverLocations = false) :
    ∀ res : List (List (List K)), (∀ blk ∈ res, blk.length = n) → (∀ blk ∈ res, ∀ r ∈ blk, r.length = C) →
      (donUnreduced cOld res).sum = (donUnreduced cNew res).sum ∧
      (donUnreduced cOld res).length = res.length * C ∧ (donUnreduced cNew res).length = res.length * n
  | [], _, _ => by simp [donUnreduced, hold, hnew]
  | blk :: res, hn, hC => by
    have ih := don_unreduced_total n C hn0 cOld cNew hold hnew res
      (fun b hb => hn b (List.mem_cons_of_mem _ hb)) (fun b hb => hC b (List.mem_cons_of_mem _ hb))
    have hb : blk ≠ [] := by
      intro e; have := hn blk (List.mem_cons_self ..); rw [e] at this; simp at this; omega
    have hs := sum_colSq C blk hb (hC blk (List.mem_cons_self ..))
    simp only [donUnreduced, hold, hnew, if_true, Bool.false_eq_true, if_false, List.map_cons, List.flatten_cons,
      List.sum_append, List.length_append, List.length_map] at ih ⊢
    refine ⟨by rw [hs.1, ih.1], ?_, ?_⟩
    · rw [hs.2, ih.2.1, List.length_cons]; ring
    · rw [hn blk (List.mem_cons_self ..), ih.2.2, List.length_cons]; ring

/-- PIDeepONetCondition (after the repair): the mean over input functions × locations of the squared residual
    summed over the components -/
theorem don_loss_spec (c : DONCond K) (hnew : c.sumOverLocations = false) (pspace xspace : SpaceL)
    (prows xrows : List (List K)) (res : List (List (List K)))
    (hres : donResiduals c pspace xspace prows xrows = .ok res) (hne : (res.map fun blk => blk.map sqErr).flatten ≠ []) :
    donLoss c pspace xspace prows xrows =
      .ok (((res.map fun blk => blk.map fun r => (r.map fun v => v * v).sum).flatten).sum /
            (((res.map fun blk => blk.map sqErr).flatten).length : K)) := by
  have hne' : ((res.map fun blk => blk.map (sqErr (K := K))).flatten).isEmpty = false := by
    cases h : (res.map fun blk => blk.map (sqErr (K := K))).flatten with
    | nil => exact absurd h hne
    | cons a r => rfl
  have hs : (sqErr : List K → K) = fun r => (r.map fun v => v * v).sum := by
    funext r; rw [sqErr, sumK_eq_sum]
  simp only [donLoss, hres, bind, Except.bind, donUnreduced, hnew, Bool.false_eq_true, if_false, applyRed, hne',
    sumK_eq_sum]
  rw [hs]

end field

/-- the code before the repair (sum over dim=1 of a (functions, locations, components) residual) did NOT
    compute the documented mean over functions and locations: 1 function, 3 locations, 1 component with
    residuals 1, 2, 3 gives 14 instead of 14/3 -/
theorem don_old_not_documented :
    let res : List (List (List Rat)) := [[[1], [2], [3]]]
    let old : DONCond Rat := { net := ⟨[], [], id, fun _ => []⟩, fsOut := none, resid := ⟨[], [], fun _ => .ok []⟩,
                               dataFns := [], params := [], sumOverLocations := true }
    let new : DONCond Rat := { old with sumOverLocations := false }
    applyRed .mean (donUnreduced old res) = .ok 14 ∧ applyRed .mean (donUnreduced new res) = .ok (14 / 3) := by
  decide +kernel



/-! ## derivatives of the outputs w.r.t. the named coordinates -/

/-- the environment in which the scalar variable `x[j]` has the value `t` -/
noncomputable def updEnv (ρ : String → Nat → ℝ) (x : String) (j : Nat) (t : ℝ) : String → Nat → ℝ :=
  fun n i => if n = x ∧ i = j then t else ρ n i

/-- the symbolic derivative the model hands to the residual under `d.<out>.<in>` IS the partial derivative
    of the output program with respect to the named coordinate component (all other inputs fixed) -/
theorem D_correct (x : String) (j : Nat) (ρ : String → Nat → ℝ) (e : PE ℝ) :
    HasDerivAt (fun t => PE.eval (updEnv ρ x j t) e) (PE.eval ρ (PE.D x j e)) (ρ x j) := by
  have hself : ∀ e : PE ℝ, PE.eval (updEnv ρ x j (ρ x j)) e = PE.eval ρ e := by
    intro e
    have : updEnv ρ x j (ρ x j) = ρ := by
      funext n i; unfold updEnv; split
      · next h => rw [h.1, h.2]
      · rfl
    rw [this]
  induction e with
  | const c => simp only [PE.eval, PE.D]; exact hasDerivAt_const _ _
  | var n i =>
    by_cases h : n = x ∧ i = j
    · simp only [PE.eval, PE.D, updEnv, h, and_self, if_true]
      exact hasDerivAt_id' _
    · simp only [PE.eval, PE.D, updEnv, h, if_false]
      exact hasDerivAt_const _ _
  | add a b iha ihb => simp only [PE.eval, PE.D]; exact iha.add ihb
  | sub a b iha ihb => simp only [PE.eval, PE.D]; exact iha.sub ihb
  | mul a b iha ihb =>
    simp only [PE.eval, PE.D]
    have := iha.mul ihb
    simp only [hself] at this
    exact this
  | neg a iha => simp only [PE.eval, PE.D]; exact iha.neg

/-- second derivatives (`dd.<out>.<in>.<in'>`): the derivative of the first derivative -/
theorem D_correct₂ (x : String) (j : Nat) (y : String) (k : Nat) (ρ : String → Nat → ℝ) (e : PE ℝ) :
    HasDerivAt (fun t => PE.eval (updEnv ρ y k t) (PE.D x j e)) (PE.eval ρ (PE.D y k (PE.D x j e))) (ρ y k) :=
  D_correct y k ρ (PE.D x j e)


/-! ## non-vacuity: concrete non-trivial instances of the hypotheses used above -/

section examples

/-- model `u = x·t` with inputs listed as (t, x); sampler space (x, t); data function f(x) = 3x; parameter D -/
def exNet : Net Rat := peNet [("t", 1), ("x", 1)] [("u", 1)] [.mul (.var "x" 0) (.var "t" 0)]
def exCond : SMCond Rat :=
  { net := some exNet,
    resid := peUFun ["f", "u", "D"] [] [.sub (.mul (.var "D" 0) (.var "u" 0)) (.var "f" 0)],
    dataFns := [("f", .fn (peUFun ["x"] [] [.mul (.const 3) (.var "x" 0)]))],
    params := [("D", [2])], err := .sq, red := .mean }
def exSpace : SpaceL := [("x", 1), ("t", 1)]
def exRows : List (List Rat) := [[1/2, 4], [3, 1]]

-- hypotheses of `assemble_by_name`: the dict exists and the names are distinct
example : rowArgs exCond exSpace 2 0 [1/2, 4] =
    .ok ([("f", [3/2]), ("D", [2]), ("x", [1/2]), ("t", [4]), ("u", [2])] ++ exNet.ders [4, 1/2]) := by
  decide +kernel
example : ((exCond.dataFns.map (·.1)) ++ (exCond.params.map (·.1)) ++ names exSpace ++ names exNet.outSpace).Nodup := by
  decide
-- hypotheses of `pinn_loss_spec` / `pinn_loss_eq_zero_iff`: residuals D·u − f = 2·2 − 3/2 and 2·3 − 9
example : residuals exCond exSpace exRows = .ok [[5/2], [-3]] := by decide +kernel
example : smLoss exCond exSpace exRows = .ok (61/8) := by decide +kernel
-- `fixOrder_perm` / `lookup_perm`: the same row with the variables in the other order
example : fixOrder exNet.inSpace [("x", [(1/2 : Rat)]), ("t", [4])] = .ok [4, 1/2] ∧
    fixOrder exNet.inSpace [("t", [(4 : Rat)]), ("x", [1/2])] = .ok [4, 1/2] := by decide +kernel
example : ([("x", [(1/2 : Rat)]), ("t", [4])] : Named Rat).Perm [("t", [4]), ("x", [1/2])] :=
  List.Perm.swap ..
-- a missing necessary argument is rejected, never defaulted
example : (peUFun (K := Rat) ["u", "q"] [] [.var "u" 0]).call [("u", [1])] = .error (.missingArg "q") := by
  decide +kernel
-- `per_sides`: periodic in x on [0, 1], non-periodic y; data g(x, y) = x + 10 y; model u = 2x + y
def exPer : PerCond Rat :=
  { net := peNet [("x", 1), ("y", 1)] [("u", 1)] [.add (.mul (.const 2) (.var "x" 0)) (.var "y" 0)],
    resid := peUFun ["u_left", "u_right", "g_left", "g_right"] []
      [.sub (.var "u_left" 0) (.var "u_right" 0), .sub (.var "g_left" 0) (.var "g_right" 0)],
    perSpace := [("x", 1)],
    leftData := [("g", .fn (peUFun ["x", "y"] [] [.add (.var "x" 0) (.mul (.const 10) (.var "y" 0))]))],
    rightData := [("g", .fn (peUFun ["x", "y"] [] [.add (.var "x" 0) (.mul (.const 10) (.var "y" 0))]))],
    params := [], err := .sq, red := .mean }
example : (perRowArgs exPer [("y", 1)] 1 0 [0] [1] [1/5]).map (fun a => (a.lookup "g_left", a.lookup "g_right")) =
    .ok (some [2], some [3]) := by decide +kernel
example : perLoss exPer [("y", 1)] [([0], [1], [1/5]), ([0], [1], [2/5])] = .ok 5 := by decide +kernel
-- `don_unreduced_total`: 2 functions × 3 locations × 1 component
example : let res : List (List (List Rat)) := [[[1], [2], [3]], [[0], [1], [1]]]
    (∀ blk ∈ res, blk.length = 3) ∧ (∀ blk ∈ res, ∀ r ∈ blk, r.length = 1) := by decide
-- `D_correct`: ∂(x·t)/∂x = 1·t + x·0
example : (PE.D "x" 0 (.mul (.var "x" 0) (.var "t" 0)) : PE Rat).eval (fun n _ => if n = "x" then 1/2 else 4) = 4 := by
  decide +kernel

end examples

end TPV.Cond
