/-
  C13 — user functions receive their arguments by name.
  Property theorems about TPV.Model.UserFun (the executable model the driver runs).
-/
import TPV.Model.UserFun
import Mathlib.Data.List.Basic
import Mathlib.Data.List.Nodup
import Mathlib.Data.List.Perm.Basic

namespace TPV.UserFun

/-! ## dictionaries -/

theorem lookup_cons_ite (k' a : String) (b : Val) (t : Dict) :
    List.lookup k' ((a, b) :: t) = if k' = a then some b else List.lookup k' t := by
  by_cases h : k' = a
  · subst h; simp [List.lookup]
  · have : (k' == a) = false := by simpa using h
    simp [List.lookup, this, h]

theorem lookup_dset (d : Dict) (k : String) (v : Val) (k' : String) :
    (dset d k v).lookup k' = if k' = k then some v else d.lookup k' := by
  induction d with
  | nil => simp [dset, lookup_cons_ite]
  | cons h t ih =>
    obtain ⟨a, b⟩ := h
    simp only [dset]
    split
    · subst_vars
      simp only [lookup_cons_ite]
      by_cases hk : k' = a <;> simp [hk]
    · rename_i hne
      simp only [lookup_cons_ite, ih]
      by_cases hk : k' = a
      · subst hk; simp [hne]
      · simp [hk]

theorem keys_cons (a : String) (b : Val) (t : Dict) : keys ((a, b) :: t) = a :: keys t := rfl

theorem mem_keys_iff (d : Dict) (k : String) : k ∈ keys d ↔ (d.lookup k).isSome := by
  induction d with
  | nil => simp [keys]
  | cons h t ih =>
    obtain ⟨a, b⟩ := h
    rw [keys_cons, lookup_cons_ite]
    by_cases hk : k = a
    · simp [hk]
    · simp [hk, ih]

theorem lookup_eq_none_iff (d : Dict) (k : String) : d.lookup k = none ↔ k ∉ keys d := by
  rw [mem_keys_iff]; cases d.lookup k <;> simp

theorem keys_dset (d : Dict) (k : String) (v : Val) :
    keys (dset d k v) = if k ∈ keys d then keys d else keys d ++ [k] := by
  induction d with
  | nil => simp [dset, keys]
  | cons h t ih =>
    obtain ⟨a, b⟩ := h
    simp only [dset]
    split
    · subst_vars; simp [keys_cons]
    · rename_i hne
      rw [keys_cons, keys_cons, ih]
      have : k ≠ a := fun e => hne e.symm
      by_cases hm : k ∈ keys t <;> simp [hm, this]

theorem dset_of_not_mem (d : Dict) (k : String) (v : Val) (h : k ∉ keys d) : dset d k v = d ++ [(k, v)] := by
  induction d with
  | nil => rfl
  | cons hd t ih =>
    obtain ⟨a, b⟩ := hd
    rw [keys_cons] at h
    simp only [List.mem_cons, not_or] at h
    have : ¬ a = k := fun e => h.1 e.symm
    simp [dset, this, ih h.2]

/-- without key clashes `update` appends -/
theorem dupdate_append (d l : Dict) (h : (keys (d ++ l)).Nodup) : dupdate d l = d ++ l := by
  induction l generalizing d with
  | nil => simp [dupdate]
  | cons kv t ih =>
    obtain ⟨k, v⟩ := kv
    have hk : k ∉ keys d := by
      simp only [keys, List.map_append, List.map_cons] at h
      rw [List.nodup_append] at h
      intro hm
      exact h.2.2 k hm k (by simp) rfl
    have e : dupdate d ((k, v) :: t) = dupdate (dset d k v) t := rfl
    rw [e, dset_of_not_mem d k v hk, ih]
    · simp
    · simpa using h

theorem dictOf_nodup (l : Dict) (h : (keys l).Nodup) : dictOf l = l := by
  have := dupdate_append [] l (by simpa using h)
  simpa [dictOf] using this

theorem lookup_append (a b : Dict) (k : String) : (a ++ b).lookup k = (a.lookup k).or (b.lookup k) := by
  induction a with
  | nil => simp
  | cons h t ih =>
    obtain ⟨x, y⟩ := h
    simp only [List.cons_append, lookup_cons_ite, ih]
    by_cases hk : k = x <;> simp [hk]

/-- `d.update(σ)`: σ wins -/
theorem lookup_dupdate (d σ : Dict) (k : String) (h : (keys σ).Nodup) :
    (dupdate d σ).lookup k = (σ.lookup k).or (d.lookup k) := by
  induction σ generalizing d with
  | nil => simp [dupdate]
  | cons kv t ih =>
    obtain ⟨a, v⟩ := kv
    have e : dupdate d ((a, v) :: t) = dupdate (dset d a v) t := rfl
    rw [keys_cons, List.nodup_cons] at h
    rw [e, ih _ h.2, lookup_dset, lookup_cons_ite]
    by_cases hk : k = a
    · subst hk
      have : t.lookup k = none := (lookup_eq_none_iff t k).2 h.1
      simp [this]
    · simp [hk]


/-- the association list of a partial function on a list of names -/
def graph (l : List String) (g : String → Option Val) : Dict := l.filterMap fun p => (g p).map (p, ·)

theorem graph_cons (a : String) (t : List String) (g : String → Option Val) :
    graph (a :: t) g = match g a with | some v => (a, v) :: graph t g | none => graph t g := by
  simp only [graph, List.filterMap_cons]
  cases g a <;> simp

theorem keys_graph (l : List String) (g : String → Option Val) :
    keys (graph l g) = l.filter fun p => (g p).isSome := by
  induction l with
  | nil => rfl
  | cons a t ih =>
    rw [graph_cons]
    cases h : g a <;> simp [List.filter_cons, h, keys_cons, ih]

theorem lookup_graph (l : List String) (g : String → Option Val) (k : String) :
    (graph l g).lookup k = if k ∈ l then g k else none := by
  induction l with
  | nil => simp [graph]
  | cons a t ih =>
    rw [graph_cons]
    cases h : g a with
    | none =>
      simp only [ih, List.mem_cons]
      by_cases hk : k = a
      · subst hk; simp [h]
      · simp [hk]
    | some v =>
      simp only [lookup_cons_ite, ih, List.mem_cons]
      by_cases hk : k = a
      · subst hk; simp [h]
      · simp [hk]

theorem allSome_graph (l : List String) (g : String → Option Val) (h : ∀ p ∈ l, (g p).isSome) :
    allSome (l.map fun p => (g p).map (p, ·)) = some (graph l g) := by
  induction l with
  | nil => rfl
  | cons a t ih =>
    have ha := h a (by simp)
    have iht := ih (fun p hp => h p (by simp [hp]))
    rw [graph_cons]
    cases hg : g a with
    | none => simp [hg] at ha
    | some v => simp [allSome, hg, iht]

theorem allSome_none {α} (l : List (Option α)) (h : none ∈ l) : allSome l = none := by
  induction l with
  | nil => simp at h
  | cons a t ih =>
    cases a with
    | none => rfl
    | some x =>
      have : none ∈ t := by simpa using h
      simp [allSome, ih this]

/-- the property in one formula: bindings in declaration order, supplied value first, else default -/
def callSpec (params : List String) (d env : Dict) : Except Err (List (String × Option Val)) :=
  if ∀ p ∈ params, p ∈ keys d ∨ p ∈ keys env then
    .ok (params.map fun p => (p, (env.lookup p).or (d.lookup p)))
  else .error .missingArg

theorem necessary_all_iff (params : List String) (d env : Dict) :
    ((necessary params d).all fun k => (keys env).contains k) = true ↔ ∀ p ∈ params, p ∈ keys d ∨ p ∈ keys env := by
  simp only [necessary, List.all_eq_true, List.mem_filter, List.contains_iff_mem, Bool.not_eq_true',
    decide_eq_false_iff_not, and_imp]
  constructor
  · intro h p hp
    by_cases hd : p ∈ keys d
    · exact Or.inl hd
    · exact Or.inr (h p hp (by simpa using hd))
  · intro h p hp hd
    rcases h p hp with h1 | h1
    · simp_all
    · exact h1

/-- the literal keyword dictionary of a successful assembly -/
theorem assemble_eq (params : List String) (d env : Dict) (hn : params.Nodup)
    (hc : ∀ p ∈ params, p ∈ keys d ∨ p ∈ keys env) :
    assemble params d env = .ok (graph params (fun p => env.lookup p) ++
      graph (params.filter fun p => !(keys env).contains p) (fun p => d.lookup p)) := by
  have hrest : ∀ p ∈ params.filter (fun p => !(keys env).contains p), (d.lookup p).isSome := by
    intro p hp
    simp only [List.mem_filter, List.contains_iff_mem, Bool.not_eq_true', decide_eq_false_iff_not] at hp
    rcases hc p hp.1 with h | h
    · exact (mem_keys_iff d p).1 h
    · exact absurd h (by simpa using hp.2)
  have hk1 : (keys (graph params fun p => env.lookup p)).Nodup := by
    rw [keys_graph]; exact hn.filter _
  have hk2 : (keys (graph (params.filter fun p => !(keys env).contains p) fun p => d.lookup p)).Nodup := by
    rw [keys_graph]; exact (hn.filter _).filter _
  have hdis : (keys (graph params (fun p => env.lookup p) ++
      graph (params.filter fun p => !(keys env).contains p) (fun p => d.lookup p))).Nodup := by
    simp only [keys, List.map_append] at hk1 hk2 ⊢
    rw [List.nodup_append]
    refine ⟨hk1, hk2, ?_⟩
    intro a ha b hb hab
    subst hab
    have ha' : a ∈ keys (graph params fun p => env.lookup p) := ha
    have hb' : a ∈ keys (graph (params.filter fun p => !(keys env).contains p) fun p => d.lookup p) := hb
    rw [keys_graph] at ha' hb'
    simp only [List.mem_filter, List.contains_iff_mem, Bool.not_eq_true', decide_eq_false_iff_not] at ha' hb'
    have hne : a ∉ keys env := by simpa using hb'.1.2
    exact hne ((mem_keys_iff env a).2 ha'.2)
  simp only [assemble, graph] at *
  rw [allSome_graph _ _ hrest]
  simp only [graph]
  rw [dictOf_nodup _ hk1, dictOf_nodup _ hk2, dupdate_append _ _ hdis]


/-! ## calling -/

theorem call_eq_assemble (params : List String) (d env : Dict) :
    call params d env =
      if ∀ p ∈ params, p ∈ keys d ∨ p ∈ keys env then assemble params d env else .error .missingArg := by
  unfold call
  by_cases h : ∀ p ∈ params, p ∈ keys d ∨ p ∈ keys env
  · rw [if_pos ((necessary_all_iff params d env).2 h), if_pos h]
  · rw [if_neg (fun hc => h ((necessary_all_iff params d env).1 hc)), if_neg h]

theorem lookup_assembled (params : List String) (d env : Dict) (p : String) (hp : p ∈ params) :
    (graph params (fun p => env.lookup p) ++
      graph (params.filter fun p => !(keys env).contains p) (fun p => d.lookup p)).lookup p
      = (env.lookup p).or (d.lookup p) := by
  rw [lookup_append, lookup_graph, lookup_graph, if_pos hp]
  cases he : env.lookup p with
  | some v => simp
  | none =>
    have : p ∉ keys env := (lookup_eq_none_iff env p).1 he
    have hm : p ∈ params.filter fun p => !(keys env).contains p := by
      simp [List.mem_filter, hp, this]
    rw [if_pos hm]

/-- **call = specification** (all signatures, all environments, all current defaults): a call is
    rejected with `missingArg` exactly when a parameter is neither supplied nor has a default;
    otherwise the user's function observes, in declaration order, every declared parameter bound to the
    value stored under *its name* in the environment, and to the wrapper's default when the environment
    has no such name. -/
theorem call_eq_spec (params : List String) (d env : Dict) (hn : params.Nodup) :
    (call params d env).map (canon params) = callSpec params d env := by
  rw [call_eq_assemble]
  unfold callSpec
  by_cases h : ∀ p ∈ params, p ∈ keys d ∨ p ∈ keys env
  · rw [if_pos h, if_pos h, assemble_eq params d env hn h]
    simp only [Except.map, canon]
    congr 1
    apply List.map_congr_left
    intro p hp
    rw [lookup_assembled params d env p hp]
  · rw [if_neg h, if_neg h]; rfl

example : call ["a", "b", "c", "e"] [("c", 1), ("e", 2)] [("e", 9), ("b", 8), ("zz", 7), ("a", 6)]
    = .ok [("a", 6), ("b", 8), ("e", 9), ("c", 1)] := by decide

/-- **exactly the declared parameters, by name**: the keyword dictionary handed to the user's function has
    exactly the declared parameter names as keys (each once), a supplied name carries the supplied value,
    an absent one the wrapper's default (which exists). -/
theorem call_binds (params : List String) (d env kw : Dict) (hn : params.Nodup)
    (h : call params d env = .ok kw) :
    (keys kw).Perm params ∧
    (∀ p ∈ params, p ∈ keys env → kw.lookup p = env.lookup p) ∧
    (∀ p ∈ params, p ∉ keys env → p ∈ keys d ∧ kw.lookup p = d.lookup p) := by
  rw [call_eq_assemble] at h
  by_cases hc : ∀ p ∈ params, p ∈ keys d ∨ p ∈ keys env
  · rw [if_pos hc, assemble_eq params d env hn hc] at h
    injection h with h
    subst h
    refine ⟨?_, ?_, ?_⟩
    · have e1 : keys (graph params fun p => env.lookup p) = params.filter fun p => (keys env).contains p := by
        rw [keys_graph]
        apply List.filter_congr
        intro p _
        by_cases hm : p ∈ keys env
        · simp [hm, (mem_keys_iff env p).1 hm]
        · have : env.lookup p = none := (lookup_eq_none_iff env p).2 hm
          simp [hm, this]
      have e2 : keys (graph (params.filter fun p => !(keys env).contains p) fun p => d.lookup p)
          = params.filter fun p => !(keys env).contains p := by
        rw [keys_graph]
        apply List.filter_eq_self.2
        intro p hp
        simp only [List.mem_filter, Bool.not_eq_true'] at hp
        rcases hc p hp.1 with h1 | h1
        · exact (mem_keys_iff d p).1 h1
        · exact absurd h1 (by simpa using hp.2)
      have : keys (graph params (fun p => env.lookup p) ++
          graph (params.filter fun p => !(keys env).contains p) fun p => d.lookup p)
          = (params.filter fun p => (keys env).contains p) ++ params.filter fun p => !(keys env).contains p := by
        simp only [keys, List.map_append] at e1 e2 ⊢
        rw [e1, e2]
      rw [this]
      exact List.filter_append_perm _ params
    · intro p hp hm
      rw [lookup_assembled params d env p hp]
      have := (mem_keys_iff env p).1 hm
      cases he : env.lookup p with
      | none => simp [he] at this
      | some v => simp
    · intro p hp hm
      have hd : p ∈ keys d := by
        rcases hc p hp with h1 | h1
        · exact h1
        · exact absurd h1 hm
      refine ⟨hd, ?_⟩
      rw [lookup_assembled params d env p hp, (lookup_eq_none_iff env p).2 hm]
      simp
  · rw [if_neg hc] at h; cases h

/-- **a missing required name is rejected, and nothing else is**: the call fails exactly when some
    parameter without a default is absent from the environment; it never fails in any other way. -/
theorem call_rejects (params : List String) (d env : Dict) (hn : params.Nodup) :
    (call params d env = .error .missingArg ↔ ∃ p ∈ necessary params d, p ∉ keys env) ∧
    ((∃ kw, call params d env = .ok kw) ↔ ∀ p ∈ necessary params d, p ∈ keys env) := by
  have hnec : (∀ p ∈ necessary params d, p ∈ keys env) ↔ ∀ p ∈ params, p ∈ keys d ∨ p ∈ keys env := by
    simp only [necessary, List.mem_filter, Bool.not_eq_true', and_imp]
    constructor
    · intro h p hp
      by_cases hd : p ∈ keys d
      · exact Or.inl hd
      · exact Or.inr (h p hp (by simpa using hd))
    · intro h p hp hd
      rcases h p hp with h1 | h1
      · simp_all
      · exact h1
  rw [call_eq_assemble]
  by_cases hc : ∀ p ∈ params, p ∈ keys d ∨ p ∈ keys env
  · rw [if_pos hc, assemble_eq params d env hn hc]
    constructor
    · constructor
      · intro h; cases h
      · rintro ⟨p, hp, hne⟩
        exact absurd (hnec.2 hc p hp) hne
    · constructor
      · intro _; exact hnec.2 hc
      · intro _; exact ⟨_, rfl⟩
  · rw [if_neg hc]
    constructor
    · constructor
      · intro _
        by_contra hcon
        apply hc
        apply hnec.1
        intro p hp
        by_contra hne
        exact hcon ⟨p, hp, hne⟩
      · intro _; rfl
    · constructor
      · rintro ⟨kw, h⟩; cases h
      · intro h; exact absurd (hnec.1 h) hc

example : call ["a", "b"] [("b", 1)] [("b", 5), ("zz", 3)] = .error .missingArg := by decide

/-- **only the values stored under the declared names matter**: two environments that store the same
    value under every declared parameter name give the same call — whatever else they contain
    (argument supersets) and in whatever order (argument orders). -/
theorem call_env_ext (params : List String) (d env env' : Dict)
    (h : ∀ p ∈ params, env.lookup p = env'.lookup p) :
    call params d env = call params d env' := by
  have hk : ∀ p ∈ params, (keys env).contains p = (keys env').contains p := by
    intro p hp
    have h1 := mem_keys_iff env p
    have h2 := mem_keys_iff env' p
    rw [h p hp] at h1
    by_cases hm : p ∈ keys env'
    · have : p ∈ keys env := h1.2 (h2.1 hm)
      simp [hm, this]
    · have : p ∉ keys env := fun hc => hm (h2.2 (h1.1 hc))
      simp [hm, this]
  unfold call assemble
  have e1 : (params.filterMap fun p => (env.lookup p).map (p, ·)) = params.filterMap fun p => (env'.lookup p).map (p, ·) := by
    apply List.filterMap_congr
    intro p hp; rw [h p hp]
  have e2 : (params.filter fun p => !(keys env).contains p) = params.filter fun p => !(keys env').contains p := by
    apply List.filter_congr
    intro p hp; rw [hk p hp]
  have e3 : ((necessary params d).all fun k => (keys env).contains k) = (necessary params d).all fun k => (keys env').contains k := by
    rw [Bool.eq_iff_iff]
    simp only [List.all_eq_true]
    constructor
    · intro hh p hp; rw [← hk p (List.mem_of_mem_filter hp)]; exact hh p hp
    · intro hh p hp; rw [hk p (List.mem_of_mem_filter hp)]; exact hh p hp
  rw [e1, e2, e3]

theorem perm_lookup (env env' : Dict) (hp : env.Perm env') (hn : (keys env).Nodup) (k : String) :
    env.lookup k = env'.lookup k := by
  induction hp with
  | nil => rfl
  | cons x _ ih =>
    obtain ⟨a, b⟩ := x
    rw [keys_cons, List.nodup_cons] at hn
    simp only [lookup_cons_ite, ih hn.2]
  | swap x y l =>
    obtain ⟨a, b⟩ := x
    obtain ⟨c, e⟩ := y
    simp only [keys_cons, List.nodup_cons, List.mem_cons, not_or] at hn
    simp only [lookup_cons_ite]
    by_cases h1 : k = a
    · by_cases h2 : k = c
      · exact absurd (h2.symm.trans h1) hn.1.1
      · have : a ≠ c := fun e => hn.1.1 e.symm
        simp [h1, this]
    · simp [h1]
  | @trans l1 l2 l3 h1 _ ih1 ih2 =>
    have hn2 : (keys l2).Nodup := by
      unfold keys at hn ⊢
      exact (h1.map _).nodup_iff.1 hn
    rw [ih1 hn, ih2 hn2]

/-- **all argument orders**: the order in which the mapping lists its entries is irrelevant -/
theorem call_perm (params : List String) (d env env' : Dict) (hp : env.Perm env') (hn : (keys env).Nodup) :
    call params d env = call params d env' :=
  call_env_ext params d env env' fun p _ => perm_lookup env env' hp hn p

/-- **all argument supersets**: names that are not parameters are ignored -/
theorem call_ignores_extra (params : List String) (d env : Dict) :
    call params d (env.filter fun kv => params.contains kv.1) = call params d env := by
  apply call_env_ext
  intro p hp
  induction env with
  | nil => rfl
  | cons x t ih =>
    obtain ⟨a, b⟩ := x
    by_cases ha : a ∈ params
    · have : params.contains a = true := by simpa using ha
      simp only [List.filter_cons, this, if_true, lookup_cons_ite, ih]
    · have hpa : p ≠ a := fun e => ha (e ▸ hp)
      simp only [List.contains_eq_mem] at ih ⊢
      simp [List.filter_cons, ha, lookup_cons_ite, ih, hpa]

example : call ["a", "b"] [("b", 1)] [("zz", 3), ("a", 5)] = call ["a", "b"] [("b", 1)] [("a", 5)] := by decide

/-! ## any mapping: `key in m` before `m[key]` -/

theorem getitem_of_contains (m : Mapping) (k : String) (h : m.contains k = true) :
    ∃ v, m.stored.lookup k = some v ∧ m.getitem k = (some v, m) := by
  have hk : k ∈ keys m.stored := by simpa [Mapping.contains] using h
  have := (mem_keys_iff m.stored k).1 hk
  cases hl : m.stored.lookup k with
  | none => simp [hl] at this
  | some v => exact ⟨v, rfl, by simp [Mapping.getitem, hl]⟩

theorem pickM_eq (m : Mapping) (l : List String) :
    pickM m l = (.ok (l.filterMap fun p => (m.stored.lookup p).map (p, ·)), m) := by
  induction l with
  | nil => rfl
  | cons k t ih =>
    unfold pickM
    by_cases hc : m.contains k = true
    · obtain ⟨v, hl, hg⟩ := getitem_of_contains m k hc
      simp only [hc, if_true, hg, ih, List.filterMap_cons, hl, Option.map_some]
    · have hk : k ∉ keys m.stored := by simpa [Mapping.contains] using hc
      have hl : m.stored.lookup k = none := (lookup_eq_none_iff m.stored k).2 hk
      simp only [hc, ih, List.filterMap_cons, hl, Option.map_none]
      rfl

/-- **called with any mapping**: whatever the mapping answers for absent keys (KeyError, a
    `__missing__`/default-factory value) and whether or not such a look-up stores the key, the call as coded
    — `key in args` first, `args[key]` only for contained keys — gives exactly the call on the entries the
    mapping really stores (so every theorem about `call` applies: absent optional names get the wrapper's
    defaults, never the mapping's fallback), and **the user's mapping is left exactly as it was**. -/
theorem callM_eq (params : List String) (d : Dict) (m : Mapping) :
    callM params d m = (call params d m.stored, m) := by
  unfold callM call assemble
  simp only [pickM_eq, Mapping.contains]
  split
  · split <;> rfl
  · rfl

example : callM ["a", "b"] [("b", 1)] ⟨[("a", 5)], some 0, true⟩ = (.ok [("a", 5), ("b", 1)], ⟨[("a", 5)], some 0, true⟩) := by
  decide

/-- **"ask the mapping first" is wrong**: with `try: args[key] except KeyError: defaults[key]` a defaultdict
    that does not store the optional name `b` makes the function receive the factory value 0 instead of the
    default 1, and the look-up writes `b` into the user's container … -/
theorem eafp_breaks_defaultdict :
    callEafp ["a", "b"] [("b", 1)] ⟨[("a", 5)], some 0, true⟩
      = (.ok [("a", 5), ("b", 0)], ⟨[("a", 5), ("b", 0)], some 0, true⟩) := by decide

/-- … and a dict subclass with `__missing__` (no insertion) still binds the fallback. -/
theorem eafp_breaks_missing :
    callEafp ["a", "b"] [("b", 1)] ⟨[("a", 5)], some 9, false⟩
      = (.ok [("a", 5), ("b", 9)], ⟨[("a", 5)], some 9, false⟩) := by decide

/-! ## wrapping: defaults align at the tail of the parameter list -/

theorem allSome_map_some {α} (l : List α) : allSome (l.map some) = some l := by
  induction l with
  | nil => rfl
  | cons a t ih => simp [allSome, ih]

theorem align_list (names : List String) (dflts : List Val) (hl : dflts.length ≤ names.length) :
    alignList names dflts = ((names.drop (names.length - dflts.length)).zip dflts).map some := by
  unfold alignList
  apply List.ext_getElem
  · simp; omega
  · intro i h1 h2
    simp only [List.length_map, List.length_reverse, List.length_range] at h1
    simp only [List.getElem_map, List.getElem_reverse, List.getElem_range, List.length_range, List.getElem_zip, List.getElem_drop]
    have e1 : dflts.length - 1 - i + 1 ≤ names.length := by omega
    rw [if_pos e1]
    have i1 : names.length - (dflts.length - 1 - i + 1) < names.length := by omega
    have i2 : dflts.length - (dflts.length - 1 - i + 1) < dflts.length := by omega
    rw [List.getElem?_eq_getElem i1, List.getElem?_eq_getElem i2]
    simp only
    congr 2
    · congr 1; omega
    · congr 1; omega

theorem keys_zip (l : List String) (vs : List Val) (h : l.length = vs.length) : keys (l.zip vs) = l := by
  induction l generalizing vs with
  | nil => rfl
  | cons a t ih =>
    cases vs with
    | nil => simp at h
    | cons v vt =>
      simp only [List.zip_cons_cons, keys_cons]
      rw [ih vt (by simpa using h)]

/-- **defaults belong to the last parameters**: for every signature Python accepts (`m ≤ n` defaults,
    distinct names) the index arithmetic `args[-i] ↦ f_defaults[-i]` pairs the j-th default with the
    parameter at position `n - m + j` — the `inspect` contract "defaults correspond to the last m
    parameters" — for every count and order of names. -/
theorem align_tail (names : List String) (dflts : List Val) (hl : dflts.length ≤ names.length)
    (hn : names.Nodup) :
    alignDefaults names dflts = some ((names.drop (names.length - dflts.length)).zip dflts) := by
  unfold alignDefaults
  rw [align_list names dflts hl, allSome_map_some]
  simp only [Option.map_some]
  congr 1
  apply dictOf_nodup
  rw [keys_zip _ _ (by simp; omega)]
  exact hn.sublist (List.drop_sublist _ _)

example : alignDefaults ["a", "b", "c", "e"] [1, 2] = some [("c", 1), ("e", 2)] := by decide

/-- more defaults than parameters (impossible for a Python function) is an IndexError, not a guess -/
theorem align_error (names : List String) (dflts : List Val) (hl : names.length < dflts.length) :
    alignDefaults names dflts = none := by
  unfold alignDefaults alignList
  rw [allSome_none]
  · rfl
  · simp only [List.mem_map, List.mem_reverse, List.mem_range]
    refine ⟨dflts.length - 1, by omega, ?_⟩
    rw [if_neg (by omega)]

/-- **required = the parameters without default, optional = those with one**, in declaration order -/
theorem wrap_required (names : List String) (dflts : List Val) (hl : dflts.length ≤ names.length)
    (hn : names.Nodup) :
    necessary names ((names.drop (names.length - dflts.length)).zip dflts) = names.take (names.length - dflts.length) ∧
    optional names ((names.drop (names.length - dflts.length)).zip dflts) = names.drop (names.length - dflts.length) := by
  have hk : keys ((names.drop (names.length - dflts.length)).zip dflts) = names.drop (names.length - dflts.length) :=
    keys_zip _ _ (by simp; omega)
  unfold necessary optional
  rw [hk]
  generalize names.length - dflts.length = k
  have hsplit : names = names.take k ++ names.drop k := (List.take_append_drop k names).symm
  have hdis : ∀ x ∈ names.take k, x ∉ names.drop k := by
    intro x h1 h2
    rw [hsplit] at hn
    exact (List.nodup_append.1 hn).2.2 x h1 x h2 rfl
  have hfs : ∀ f : String → Bool, names.filter f = (names.take k).filter f ++ (names.drop k).filter f := by
    intro f; rw [← List.filter_append, List.take_append_drop]
  constructor
  · have a1 : (names.take k).filter (fun p => !(names.drop k).contains p) = names.take k := by
      apply List.filter_eq_self.2
      intro x hx; simpa using hdis x hx
    have a2 : (names.drop k).filter (fun p => !(names.drop k).contains p) = [] := by
      apply List.filter_eq_nil_iff.2
      intro x hx; simpa using hx
    rw [hfs, a1, a2, List.append_nil]
  · have a1 : (names.take k).filter (fun p => (names.drop k).contains p) = [] := by
      apply List.filter_eq_nil_iff.2
      intro x hx; simpa using hdis x hx
    have a2 : (names.drop k).filter (fun p => (names.drop k).contains p) = names.drop k := by
      apply List.filter_eq_self.2
      intro x hx; simpa using hx
    rw [hfs, a1, a2, List.nil_append]

/-- wrapping a callable is independent of everything that happened before (after the repair): whatever
    the heap, the new wrapper has the declared names and its own, new defaults dict -/
theorem wrapFun_fresh (h : Heap) (fn : Nat) (names : List String) (dflts : List Val)
    (hl : dflts.length ≤ names.length) (hn : names.Nodup) :
    step h (.wrapFun fn names dflts) =
      (⟨h.dicts ++ [(names.drop (names.length - dflts.length)).zip dflts],
        h.ws ++ [⟨fn, true, names, h.dicts.length⟩]⟩, .wrapper h.ws.length) := by
  simp only [step, align_tail names dflts hl hn, Heap.addFresh]

/-- **keyword-only parameters** (`def f(a, b=1, *, c, d=2)`): the wrapper's parameters are the
    positional-or-keyword names followed by the keyword-only names; the positional defaults belong to the
    LAST positional names (not to the last names overall), every keyword-only default to its own name. -/
theorem wrapFunKw_spec (h : Heap) (fn : Nat) (names : List String) (dflts : List Val) (kwnames : List String)
    (kwd : Dict) (hl : dflts.length ≤ names.length) (hn : names.Nodup) (hk : (keys kwd).Nodup) :
    ∃ d, step h (.wrapFunKw fn names dflts kwnames kwd) = h.addFresh fn true (names ++ kwnames) d ∧
      ∀ p, d.lookup p = (kwd.lookup p).or (((names.drop (names.length - dflts.length)).zip dflts).lookup p) := by
  refine ⟨dupdate ((names.drop (names.length - dflts.length)).zip dflts) kwd, ?_, ?_⟩
  · simp only [step, align_tail names dflts hl hn]
  · intro p; exact lookup_dupdate _ _ _ hk

example : (run Heap.empty [.wrapFunKw 0 ["x", "y"] [1] ["z", "w"] [("z", 3)], .call 0 [("w", 7), ("x", 5)]]).2 =
    [.wrapper 0, .value 0 [("x", 5), ("w", 7), ("y", 1), ("z", 3)]] := by decide

/-! ## partial evaluation -/

/-- **all required names bound ⇒ the function value**: `partially_evaluate(**σ)` then is exactly the
    call with σ — same bindings (absent optional parameters take their defaults), heap untouched. -/
theorem partial_total (h : Heap) (r : Nat) (u : UF) (d σ : Dict) (hl : h.look r = some (u, d))
    (hc : u.callable = true) (hb : ∀ p ∈ necessary u.params d, p ∈ keys σ) :
    step h (.partialEval r σ) = step h (.call r σ) ∧ (step h (.call r σ)).1 = h := by
  have hall : ((necessary u.params d).all fun k => (keys σ).contains k) = true := by
    simp only [List.all_eq_true, List.contains_iff_mem]; simpa using hb
  constructor
  · simp only [step, hl, hc, if_true, hall, call]
  · simp only [step, hl]
    cases call u.params d σ <;> rfl

theorem keys_filter_params (params : List String) (σ : Dict) :
    keys (σ.filter fun kv => params.contains kv.1) = (keys σ).filter fun k => params.contains k := by
  induction σ with
  | nil => rfl
  | cons x t ih =>
    obtain ⟨a, b⟩ := x
    simp only [List.filter_cons, keys_cons]
    split
    · rw [keys_cons, ih]
    · exact ih

theorem lookup_filter_params (params : List String) (σ : Dict) (k : String) :
    (σ.filter fun kv => params.contains kv.1).lookup k = if k ∈ params then σ.lookup k else none := by
  induction σ with
  | nil => simp
  | cons x t ih =>
    obtain ⟨a, b⟩ := x
    simp only [List.filter_cons, lookup_cons_ite]
    split
    · rename_i ha
      have ha' : a ∈ params := by simpa using ha
      simp only [lookup_cons_ite, ih]
      by_cases hk : k = a
      · subst hk; simp [ha']
      · simp [hk]
    · rename_i ha
      have ha' : a ∉ params := by simpa using ha
      rw [ih]
      by_cases hk : k = a
      · subst hk; simp [ha']
      · simp [hk]

/-- what `set_default(**σ)` does to a defaults dict: declared names in σ are overwritten/added, nothing else -/
theorem lookup_setDefaults (params : List String) (d σ : Dict) (hσ : (keys σ).Nodup) (k : String) :
    (setDefaults params d σ).lookup k = if k ∈ params then (σ.lookup k).or (d.lookup k) else d.lookup k := by
  have hf : (keys (σ.filter fun kv => params.contains kv.1)).Nodup := by
    rw [keys_filter_params]; exact hσ.filter _
  unfold setDefaults
  rw [dictOf_nodup _ hf, lookup_dupdate _ _ _ hf, lookup_filter_params]
  by_cases hk : k ∈ params <;> simp [hk]

theorem mem_keys_setDefaults (params : List String) (d σ : Dict) (hσ : (keys σ).Nodup) (k : String) :
    k ∈ keys (setDefaults params d σ) ↔ (k ∈ params ∧ k ∈ keys σ) ∨ k ∈ keys d := by
  rw [mem_keys_iff, lookup_setDefaults params d σ hσ, mem_keys_iff, mem_keys_iff]
  by_cases hk : k ∈ params
  · simp only [hk, if_true, true_and]
    cases σ.lookup k <;> cases d.lookup k <;> simp
  · simp [hk]

/-- **wrapper + remaining names = one full evaluation**: calling the partially evaluated wrapper (its
    defaults are `set_default(**σ)` applied to a copy) with ρ gives the user's function exactly what one
    call of the original wrapper with `ρ` and `σ` together gives it (ρ wins on a clash, as in
    `{**σ, **ρ}`), and is rejected in exactly the same cases. -/
theorem partial_then_call (params : List String) (d σ ρ : Dict) (hn : params.Nodup) (hσ : (keys σ).Nodup) :
    (call params (setDefaults params d σ) ρ).map (canon params)
      = (call params d (ρ ++ σ)).map (canon params) := by
  rw [call_eq_spec _ _ _ hn, call_eq_spec _ _ _ hn]
  unfold callSpec
  have hcond : (∀ p ∈ params, p ∈ keys (setDefaults params d σ) ∨ p ∈ keys ρ) ↔
      (∀ p ∈ params, p ∈ keys d ∨ p ∈ keys (ρ ++ σ)) := by
    have happ : ∀ p, p ∈ keys (ρ ++ σ) ↔ p ∈ keys ρ ∨ p ∈ keys σ := by
      intro p; simp [keys]
    constructor
    · intro hh p hp
      rcases hh p hp with h1 | h1
      · rcases (mem_keys_setDefaults params d σ hσ p).1 h1 with h2 | h2
        · exact Or.inr ((happ p).2 (Or.inr h2.2))
        · exact Or.inl h2
      · exact Or.inr ((happ p).2 (Or.inl h1))
    · intro hh p hp
      rcases hh p hp with h1 | h1
      · exact Or.inl ((mem_keys_setDefaults params d σ hσ p).2 (Or.inr h1))
      · rcases (happ p).1 h1 with h2 | h2
        · exact Or.inr h2
        · exact Or.inl ((mem_keys_setDefaults params d σ hσ p).2 (Or.inl ⟨hp, h2⟩))
  by_cases hc : ∀ p ∈ params, p ∈ keys d ∨ p ∈ keys (ρ ++ σ)
  · rw [if_pos hc, if_pos (hcond.2 hc)]
    congr 1
    apply List.map_congr_left
    intro p hp
    rw [lookup_setDefaults params d σ hσ, if_pos hp, lookup_append]
    cases ρ.lookup p <;> cases σ.lookup p <;> simp
  · rw [if_neg hc, if_neg (fun h => hc (hcond.1 h))]

/-- **a supplied value wins over a value the wrapper already had**: a declared name bound by an (incomplete)
    partial evaluation — also one that already had a default or was bound by an earlier partial evaluation —
    reaches the user's function with the NEW value in every later call that does not supply it itself. -/
theorem partial_override (params : List String) (d σ ρ kw : Dict) (hn : params.Nodup) (hσ : (keys σ).Nodup)
    (h : call params (setDefaults params d σ) ρ = .ok kw)
    (p : String) (hp : p ∈ params) (hρ : p ∉ keys ρ) (v : Val) (hv : σ.lookup p = some v) :
    kw.lookup p = some v := by
  obtain ⟨_, _, h3⟩ := call_binds params (setDefaults params d σ) ρ kw hn h
  rw [(h3 p hp hρ).2, lookup_setDefaults params d σ hσ, if_pos hp, hv]
  rfl

example : (run Heap.empty [.wrapFun 0 ["x", "y", "scale"] [2], .partialEval 0 [("x", 3), ("scale", 4)],
    .call 1 [("y", 5)]]).2.getLast? = some (.value 0 [("y", 5), ("x", 3), ("scale", 4)]) := by decide

/-- **values are not inspected**: a `set_default` that skips `None` (identifier −1) breaks "wrapper + remaining
    names = one full evaluation": `f(a, b, c=7)`, `partially_evaluate(a=None, c=None)`, then `b`: the wrapper
    still asks for `a` (rejected) where one full evaluation binds `a = None, c = None` … -/
theorem skipNone_breaks_partial :
    call ["a", "b", "c"] (setDefaultsSkip (-1) ["a", "b", "c"] [("c", 7)] [("a", -1), ("c", -1)]) [("b", 1)]
      = .error .missingArg ∧
    call ["a", "b", "c"] (setDefaults ["a", "b", "c"] [("c", 7)] [("a", -1), ("c", -1)]) [("b", 1)]
      = .ok [("b", 1), ("a", -1), ("c", -1)] ∧
    call ["a", "b", "c"] [("c", 7)] ([("b", 1)] ++ [("a", -1), ("c", -1)]) = .ok [("a", -1), ("b", 1), ("c", -1)] := by
  decide

/-- … and an optional name bound to `None` keeps its old default. -/
theorem skipNone_keeps_old_default :
    call ["a", "c"] (setDefaultsSkip (-1) ["a", "c"] [("c", 7)] [("c", -1)]) [("a", 1)] = .ok [("a", 1), ("c", 7)] ∧
    call ["a", "c"] (setDefaults ["a", "c"] [("c", 7)] [("c", -1)]) [("a", 1)] = .ok [("a", 1), ("c", -1)] := by
  decide

/-- **the truth value of the argument container must not be consulted**: a Points object with the columns
    `x, t` and ZERO rows is falsy in Python; `args = args or {}` turns it into "no names given": the required
    `x` is reported missing although it is there, and with `x` optional the stored (empty) column is silently
    replaced by the default. -/
theorem truthy_container_breaks :
    callTruthy ["x", "t"] [] ⟨[("t", 1), ("x", 2)], 0⟩ = .error .missingArg ∧
    call ["x", "t"] [] [("t", 1), ("x", 2)] = .ok [("x", 2), ("t", 1)] ∧
    callTruthy ["x"] [("x", 9)] ⟨[("x", 2)], 0⟩ = .ok [("x", 9)] ∧
    call ["x"] [("x", 9)] [("x", 2)] = .ok [("x", 2)] := by decide

/-- the step-level form: when σ does not bind every required name, `partially_evaluate` returns a NEW
    wrapper (same function, same parameters) whose defaults live in a NEW dict `set_default(σ)` of a copy;
    every existing dict and wrapper stays as it was. -/
theorem partial_wrapper (h : Heap) (r : Nat) (u : UF) (d σ : Dict) (hl : h.look r = some (u, d))
    (hc : u.callable = true) (hb : ¬ ∀ p ∈ necessary u.params d, p ∈ keys σ) :
    step h (.partialEval r σ) =
      (⟨h.dicts ++ [setDefaults u.params d σ], h.ws ++ [⟨u.fn, true, u.params, h.dicts.length⟩]⟩,
        .wrapper h.ws.length) := by
  have hall : ¬ ((necessary u.params d).all fun k => (keys σ).contains k) = true := by
    simp only [List.all_eq_true, List.contains_iff_mem]; simpa using hb
  simp only [step, hl, hc, if_true, hall, Heap.addFresh]
  simp

example : (run Heap.empty [.wrapFun 0 ["a", "b", "c"] [7], .partialEval 0 [("b", 4)], .call 1 [("a", 3)],
      .call 0 [("a", 3), ("b", 4)]]).2 =
    [.wrapper 0, .wrapper 1, .value 0 [("a", 3), ("b", 4), ("c", 7)], .value 0 [("a", 3), ("b", 4), ("c", 7)]] := by
  decide

/-! ## frames: what an operation leaves unchanged -/

/-- `set_default` / `remove_default` are the mutators (by contract); everything else is not -/
def Op.mutates : Op → Bool
  | .setDefault _ _ => true
  | .removeDefault _ _ => true
  | _ => false

/-- `h'` extends `h`: every dict and every wrapper of `h` is still there, at its place, unchanged
    (new objects are only ever appended) -/
def Heap.Extends (h h' : Heap) : Prop := h.dicts <+: h'.dicts ∧ h.ws <+: h'.ws

theorem Heap.Extends.refl (h : Heap) : h.Extends h := ⟨List.prefix_rfl, List.prefix_rfl⟩

theorem Heap.Extends.trans {a b c : Heap} (h1 : a.Extends b) (h2 : b.Extends c) : a.Extends c :=
  ⟨h1.1.trans h2.1, h1.2.trans h2.2⟩

theorem extends_addFresh (h : Heap) (fn : Nat) (cb : Bool) (ps : List String) (d : Dict) :
    h.Extends (h.addFresh fn cb ps d).1 := ⟨List.prefix_append _ _, List.prefix_append _ _⟩

theorem extends_addWrapper (h : Heap) (u : UF) : h.Extends (h.addWrapper u).1 :=
  ⟨List.prefix_rfl, List.prefix_append _ _⟩

/-- **wrapping, re-wrapping, calling, partially evaluating and deep-copying change nothing that
    existed before** (one operation). -/
theorem frame_step (h : Heap) (op : Op) (hm : op.mutates = false) : h.Extends (step h op).1 := by
  cases op with
  | newDict d => exact ⟨List.prefix_append _ _, List.prefix_rfl⟩
  | wrapFun fn names dflts =>
    simp only [step]
    split
    · exact extends_addFresh _ _ _ _ _
    · exact Heap.Extends.refl h
  | wrapFunKw fn names dflts kwnames kwdflts =>
    simp only [step]
    split
    · exact extends_addFresh _ _ _ _ _
    · exact Heap.Extends.refl h
  | wrapConst fn => exact extends_addFresh _ _ _ _ _
  | wrapExplicit fn params dc =>
    cases dc with
    | none => exact extends_addFresh _ _ _ _ _
    | some c =>
      simp only [step]
      split
      · exact extends_addWrapper _ _
      · exact Heap.Extends.refl h
  | rewrap r =>
    simp only [step]
    split
    · exact extends_addWrapper _ _
    · exact Heap.Extends.refl h
  | shallowCopy r =>
    simp only [step]
    split
    · exact extends_addWrapper _ _
    · exact Heap.Extends.refl h
  | call r env =>
    simp only [step]
    split
    · split <;> exact Heap.Extends.refl h
    · exact Heap.Extends.refl h
  | callVec r env lens =>
    simp only [step]
    split
    · split
      · split
        · split <;> exact Heap.Extends.refl h
        · exact Heap.Extends.refl h
      · exact Heap.Extends.refl h
    · exact Heap.Extends.refl h
  | partialEval r σ =>
    simp only [step]
    split
    · split
      · split
        · split <;> exact Heap.Extends.refl h
        · exact extends_addFresh _ _ _ _ _
      · exact Heap.Extends.refl h
    · exact Heap.Extends.refl h
  | setDefault r σ => simp [Op.mutates] at hm
  | removeDefault r ks => simp [Op.mutates] at hm
  | deepcopy r =>
    simp only [step]
    split
    · exact extends_addFresh _ _ _ _ _
    · exact Heap.Extends.refl h

theorem run_cons (h : Heap) (op : Op) (ops : List Op) :
    run h (op :: ops) = ((run (step h op).1 ops).1, (step h op).2 :: (run (step h op).1 ops).2) := rfl

/-- **… for all histories**: any sequence of wrap / re-wrap / call / partially_evaluate / deepcopy
    operations, of any length and in any order, leaves every pre-existing wrapper and dict unchanged. -/
theorem frame_run (h : Heap) (ops : List Op) (hm : ∀ op ∈ ops, op.mutates = false) :
    h.Extends (run h ops).1 := by
  induction ops generalizing h with
  | nil => exact Heap.Extends.refl h
  | cons op ops ih =>
    rw [run_cons]
    exact (frame_step h op (hm op (by simp))).trans (ih _ (fun o ho => hm o (by simp [ho])))

theorem getElem?_of_prefix {α} {l l' : List α} (hp : l <+: l') {i : Nat} {a : α} (h : l[i]? = some a) :
    l'[i]? = some a := by
  obtain ⟨t, rfl⟩ := hp
  have hi : i < l.length := by
    by_contra hc
    rw [List.getElem?_eq_none (by omega)] at h
    cases h
  rw [List.getElem?_append_left hi]; exact h

/-- what can be observed of a pre-existing wrapper (its function, parameters, defaults) is unchanged -/
theorem look_of_extends {h h' : Heap} (he : h.Extends h') {r : Nat} {x : UF × Dict}
    (hl : h.look r = some x) : h'.look r = some x := by
  unfold Heap.look at hl ⊢
  cases hw : h.ws[r]? with
  | none => simp [hw] at hl
  | some u =>
    rw [hw] at hl
    rw [getElem?_of_prefix he.2 hw]
    cases hd : h.dicts[u.cell]? with
    | none => simp [hd] at hl
    | some d =>
      simp only [getElem?_of_prefix he.1 hd]
      simpa [hd] using hl

/-- a call is a function of what `look` shows -/
theorem call_of_look {h h' : Heap} {r : Nat} (hl : h'.look r = h.look r) (env : Dict) :
    (step h' (.call r env)).2 = (step h (.call r env)).2 := by
  simp only [step, hl]
  cases h.look r with
  | none => rfl
  | some x =>
    obtain ⟨u, d⟩ := x
    simp only
    cases call u.params d env <;> rfl

/-- **the original wrapper behaves as before**: after any history of non-mutating operations every call
    of a pre-existing wrapper gives exactly what it gave before the history. -/
theorem frame_call (h : Heap) (ops : List Op) (hm : ∀ op ∈ ops, op.mutates = false)
    (r : Nat) (x : UF × Dict) (hl : h.look r = some x) (env : Dict) :
    (step (run h ops).1 (.call r env)).2 = (step h (.call r env)).2 :=
  call_of_look (by rw [hl, look_of_extends (frame_run h ops hm) hl]) env

/-- **a wrapper's function and parameter list never change**, whatever is done (mutators included):
    the list of wrappers is append-only for every operation … -/
theorem ws_step (h : Heap) (op : Op) : h.ws <+: (step h op).1.ws := by
  cases hm : op.mutates with
  | false => exact (frame_step h op hm).2
  | true =>
    cases op with
    | setDefault r σ =>
      simp only [step]; split <;> exact List.prefix_rfl
    | removeDefault r ks =>
      simp only [step]; split <;> exact List.prefix_rfl
    | _ => simp [Op.mutates] at hm

/-- … and for every history. -/
theorem ws_run (h : Heap) (ops : List Op) : h.ws <+: (run h ops).1.ws := by
  induction ops generalizing h with
  | nil => exact List.prefix_rfl
  | cons op ops ih => rw [run_cons]; exact (ws_step h op).trans (ih _)

/-! ## aliasing: whom `set_default` reaches -/

/-- every wrapper refers to an existing dict -/
def Heap.WF (h : Heap) : Prop := ∀ u ∈ h.ws, u.cell < h.dicts.length

theorem look_some_cell {h : Heap} {r : Nat} {u : UF} {d : Dict} (hl : h.look r = some (u, d)) :
    h.ws[r]? = some u ∧ h.dicts[u.cell]? = some d := by
  unfold Heap.look at hl
  cases hw : h.ws[r]? with
  | none => simp [hw] at hl
  | some u' =>
    rw [hw] at hl
    cases hd : h.dicts[u'.cell]? with
    | none => simp [hd] at hl
    | some d' =>
      simp only [hd, Option.map_some, Option.some.injEq, Prod.mk.injEq] at hl
      obtain ⟨rfl, rfl⟩ := hl
      exact ⟨rfl, hd⟩

/-- **`set_default` reaches exactly the wrappers that share the dict** (stated, not hidden): after
    `set_default(**σ)` on wrapper `r`, a wrapper whose `defaults` is the same dict object sees the new
    defaults, every other wrapper is unchanged. -/
theorem setDefault_reach (h : Heap) (r : Nat) (u : UF) (d σ : Dict) (hl : h.look r = some (u, d))
    (r2 : Nat) (u2 : UF) (d2 : Dict) (hl2 : h.look r2 = some (u2, d2)) :
    (step h (.setDefault r σ)).1.look r2 =
      some (u2, if u2.cell = u.cell then setDefaults u.params d σ else d2) := by
  obtain ⟨hw, hd⟩ := look_some_cell hl
  obtain ⟨hw2, hd2⟩ := look_some_cell hl2
  have hlt : u.cell < h.dicts.length := by
    by_contra hc
    rw [List.getElem?_eq_none (by omega)] at hd; cases hd
  have hs : step h (.setDefault r σ) = (⟨h.dicts.set u.cell (setDefaults u.params d σ), h.ws⟩, .unit) := by
    simp only [step, hl]
  rw [hs]
  simp only [Heap.look, hw2]
  by_cases hc : u2.cell = u.cell
  · rw [if_pos hc, hc, List.getElem?_set_self hlt]; rfl
  · rw [if_neg hc, List.getElem?_set_ne (fun e => hc e.symm), hd2]; rfl

/-- re-wrapping (`UserFunction(u)`, also `copy.copy(u)`) creates a wrapper with the SAME defaults dict … -/
theorem rewrap_shares (h : Heap) (r : Nat) (u : UF) (hw : h.ws[r]? = some u) :
    step h (.rewrap r) = (⟨h.dicts, h.ws ++ [u]⟩, .wrapper h.ws.length) := by
  simp only [step, hw, Heap.addWrapper]

/-- … so `set_default` on the re-wrapped one changes the original (witness on the model; the same
    history is part of the correspondence corpus) -/
theorem rewrap_setDefault_reaches_original :
    (run Heap.empty [.wrapFun 0 ["x", "y"] [1], .rewrap 0, .setDefault 1 [("x", 2)], .call 0 []]).2.getLast?
      = some (.value 0 [("x", 2), ("y", 1)]) := by decide

/-- `copy.deepcopy` gives the copy its own dict -/
theorem deepcopy_fresh (h : Heap) (r : Nat) (u : UF) (d : Dict) (hl : h.look r = some (u, d)) :
    step h (.deepcopy r) =
      (⟨h.dicts ++ [d], h.ws ++ [⟨u.fn, u.callable, u.params, h.dicts.length⟩]⟩, .wrapper h.ws.length) := by
  simp only [step, hl, Heap.addFresh]

theorem look_addFresh_new (h : Heap) (fn : Nat) (cb : Bool) (ps : List String) (d : Dict) :
    (h.addFresh fn cb ps d).1.look h.ws.length = some (⟨fn, cb, ps, h.dicts.length⟩, d) := by
  simp [Heap.look, Heap.addFresh]

/-- **a deep copy and a partial-evaluation result are independent of their source**: in a well-formed
    heap, `set_default` on the new wrapper (own new dict) leaves every pre-existing wrapper unchanged, and
    `set_default` on any pre-existing wrapper leaves the new one unchanged. -/
theorem fresh_independent (h : Heap) (hwf : h.WF) (fn : Nat) (cb : Bool) (ps : List String) (d0 σ : Dict) :
    let h1 := (h.addFresh fn cb ps d0).1
    (∀ r x, h.look r = some x → (step h1 (.setDefault h.ws.length σ)).1.look r = some x) ∧
    (∀ r x, h.look r = some x →
      (step h1 (.setDefault r σ)).1.look h.ws.length = some (⟨fn, cb, ps, h.dicts.length⟩, d0)) := by
  intro h1
  have hnew : h1.look h.ws.length = some (⟨fn, cb, ps, h.dicts.length⟩, d0) := look_addFresh_new h fn cb ps d0
  constructor
  · intro r x hl
    obtain ⟨u, d⟩ := x
    have hl1 : h1.look r = some (u, d) := look_of_extends (extends_addFresh h fn cb ps d0) hl
    rw [setDefault_reach h1 _ _ _ σ hnew r u d hl1]
    have hu : u ∈ h.ws := List.mem_of_getElem? (look_some_cell hl).1
    have : u.cell ≠ h.dicts.length := Nat.ne_of_lt (hwf u hu)
    simp [this]
  · intro r x hl
    obtain ⟨u, d⟩ := x
    have hl1 : h1.look r = some (u, d) := look_of_extends (extends_addFresh h fn cb ps d0) hl
    rw [setDefault_reach h1 r u d σ hl1 _ _ _ hnew]
    have hu : u ∈ h.ws := List.mem_of_getElem? (look_some_cell hl).1
    have : h.dicts.length ≠ u.cell := Nat.ne_of_gt (hwf u hu)
    simp [this]

theorem wf_addFresh (h : Heap) (hwf : h.WF) (fn : Nat) (cb : Bool) (ps : List String) (d : Dict) :
    (h.addFresh fn cb ps d).1.WF := by
  intro u hu
  simp only [Heap.addFresh, List.mem_append, List.mem_singleton, List.length_append, List.length_cons,
    List.length_nil] at hu ⊢
  rcases hu with hu | rfl
  · have := hwf u hu; omega
  · simp

theorem wf_addWrapper (h : Heap) (hwf : h.WF) (u : UF) (hu : u.cell < h.dicts.length) :
    (h.addWrapper u).1.WF := by
  intro v hv
  simp only [Heap.addWrapper, List.mem_append, List.mem_singleton] at hv ⊢
  rcases hv with hv | rfl
  · exact hwf v hv
  · exact hu

/-- well-formedness is an invariant of every operation … -/
theorem wf_step (h : Heap) (hwf : h.WF) (op : Op) : (step h op).1.WF := by
  cases op with
  | newDict d =>
    intro u hu
    have := hwf u hu
    simp only [step, List.length_append, List.length_cons, List.length_nil]; omega
  | wrapFun fn names dflts =>
    simp only [step]
    split
    · exact wf_addFresh _ hwf _ _ _ _
    · exact hwf
  | wrapFunKw fn names dflts kwnames kwdflts =>
    simp only [step]
    split
    · exact wf_addFresh _ hwf _ _ _ _
    · exact hwf
  | wrapConst fn => exact wf_addFresh _ hwf _ _ _ _
  | wrapExplicit fn params dc =>
    cases dc with
    | none => exact wf_addFresh _ hwf _ _ _ _
    | some c =>
      simp only [step]
      split
      · rename_i hc; exact wf_addWrapper _ hwf _ hc
      · exact hwf
  | rewrap r =>
    simp only [step]
    split
    · rename_i u hu; exact wf_addWrapper _ hwf _ (hwf u (List.mem_of_getElem? hu))
    · exact hwf
  | shallowCopy r =>
    simp only [step]
    split
    · rename_i u hu; exact wf_addWrapper _ hwf _ (hwf u (List.mem_of_getElem? hu))
    · exact hwf
  | call r env =>
    simp only [step]
    split
    · split <;> exact hwf
    · exact hwf
  | callVec r env lens =>
    simp only [step]
    split
    · split
      · split
        · split <;> exact hwf
        · exact hwf
      · exact hwf
    · exact hwf
  | partialEval r σ =>
    simp only [step]
    split
    · split
      · split
        · split <;> exact hwf
        · exact wf_addFresh _ hwf _ _ _ _
      · exact hwf
    · exact hwf
  | setDefault r σ =>
    simp only [step]
    split
    · intro u hu; simpa using hwf u hu
    · exact hwf
  | removeDefault r ks =>
    simp only [step]
    split
    · intro u hu; simpa using hwf u hu
    · exact hwf
  | deepcopy r =>
    simp only [step]
    split
    · exact wf_addFresh _ hwf _ _ _ _
    · exact hwf

/-- … hence of every history from the empty heap. -/
theorem wf_run (h : Heap) (hwf : h.WF) (ops : List Op) : (run h ops).1.WF := by
  induction ops generalizing h with
  | nil => exact hwf
  | cons op ops ih => rw [run_cons]; exact ih _ (wf_step h hwf op)

theorem wf_empty : Heap.empty.WF := by intro u hu; simp [Heap.empty] at hu

/-! ## the callable that is inspected is the callable that is invoked -/

theorem graph_map_some (l : List String) (g : String → Option Val) (h : ∀ p ∈ l, (g p).isSome) :
    (graph l g).map (fun b => (b.1, some b.2)) = l.map fun p => (p, g p) := by
  induction l with
  | nil => rfl
  | cons a t ih =>
    have ha := h a (by simp)
    rw [graph_cons]
    cases hg : g a with
    | none => simp [hg] at ha
    | some v => simp [ih (fun p hp => h p (by simp [hp])), hg]

/-- **what the wrapper assembles is what the user's function observes**: the keyword dictionary of a
    successful call binds against the signature that was inspected without any TypeError (no unknown
    keyword, no missing parameter) and without the function's own defaults ever being used — the function
    sees exactly `canon`.  This is why the signature that is read must be the one of the callable that is
    invoked. -/
theorem pyBind_of_call (names : List String) (own d env kw : Dict) (hn : names.Nodup)
    (h : call names d env = .ok kw) :
    ∃ bs, pyBind names own kw = .ok bs ∧ bs.map (fun b => (b.1, some b.2)) = canon names kw := by
  obtain ⟨hperm, _, _⟩ := call_binds names d env kw hn h
  have hmem : ∀ k, k ∈ keys kw ↔ k ∈ names := fun k => hperm.mem_iff
  have hany : (kw.any fun kv => !names.contains kv.1) = false := by
    rw [List.any_eq_false]
    intro kv hkv
    have : kv.1 ∈ keys kw := List.mem_map_of_mem hkv
    simp [(hmem kv.1).1 this]
  have hsome : ∀ p ∈ names, ((kw.lookup p).or (own.lookup p)).isSome := by
    intro p hp
    have := (mem_keys_iff kw p).1 ((hmem p).2 hp)
    cases hk : kw.lookup p with
    | none => simp [hk] at this
    | some v => simp
  refine ⟨graph names fun p => (kw.lookup p).or (own.lookup p), ?_, ?_⟩
  · unfold pyBind
    rw [hany]
    simp only [Bool.false_eq_true, if_false]
    rw [allSome_graph names _ hsome]
  · rw [graph_map_some names _ hsome]
    unfold canon
    apply List.map_congr_left
    intro p hp
    have := (mem_keys_iff kw p).1 ((hmem p).2 hp)
    cases hk : kw.lookup p with
    | none => simp [hk] at this
    | some v => simp

/-- **reading the signature of `__wrapped__` instead is wrong**: `g(x, t, scale=3)` decorating `f(x, t)`
    with `functools.wraps`.  Inspecting `f` makes the wrapper drop the `scale` the environment stores, and
    Python silently fills in `g`'s own default: the function observes `scale = 3` although `scale = 1` is
    stored under that name … -/
theorem unwrap_inspection_breaks :
    let c : Callable := { fn := 0, names := ["x", "t", "scale"], dflts := [3], wrapped := some (["x", "t"], []) }
    let env : Dict := [("scale", 1), ("t", 2), ("x", 4)]
    (call c.inspectedUnwrapped.1 [] env).bind (pyBind c.names [("scale", 3)])
      = .ok [("x", 4), ("t", 2), ("scale", 3)] ∧
    (call c.inspected.1 [("scale", 3)] env).bind (pyBind c.names [("scale", 3)])
      = .ok [("x", 4), ("t", 2), ("scale", 1)] := by decide

/-- … and when the decorator's wrapper declares fewer names (`g(x)` around `f(x, t)`) the superset
    environment makes the wrapper pass `t=` to `g`: TypeError, while inspecting `g` itself ignores `t`. -/
theorem unwrap_inspection_typeerror :
    let c : Callable := { fn := 0, names := ["x"], dflts := [], wrapped := some (["x", "t"], []) }
    let env : Dict := [("t", 2), ("x", 4)]
    (call c.inspectedUnwrapped.1 [] env).bind (pyBind c.names []) = .error .typeError ∧
    (call c.inspected.1 [] env).bind (pyBind c.names []) = .ok [("x", 4)] := by decide

/-! ## a dict changes only through a mutator applied to a wrapper that owns it -/

/-- the wrapper a mutator is applied to -/
def Op.target : Op → Option Nat
  | .setDefault r _ => some r
  | .removeDefault r _ => some r
  | _ => none

theorem cell_step (h : Heap) (op : Op) (c : Nat) (hc : c < h.dicts.length)
    (hno : ∀ r u, op.target = some r → h.ws[r]? = some u → u.cell ≠ c) :
    (step h op).1.dicts[c]? = h.dicts[c]? := by
  cases hm : op.mutates with
  | false =>
    have hx : h.dicts[c]? = some h.dicts[c] := List.getElem?_eq_getElem hc
    rw [hx]
    exact getElem?_of_prefix (frame_step h op hm).1 hx
  | true =>
    cases op with
    | setDefault r σ =>
      simp only [step]
      split
      · rename_i u d hl
        have hw := (look_some_cell hl).1
        exact List.getElem?_set_ne (hno r u rfl hw)
      · rfl
    | removeDefault r ks =>
      simp only [step]
      split
      · rename_i u d hl
        have hw := (look_some_cell hl).1
        exact List.getElem?_set_ne (hno r u rfl hw)
      · rfl
    | _ => simp [Op.mutates] at hm

/-- **user-supplied containers and every other dict, over all histories**: whatever sequence of
    operations is run — mutators included — a dict keeps its content unless `set_default` /
    `remove_default` is applied to a wrapper whose `defaults` IS that dict.  (A dict the user never handed
    to a constructor as `defaults=` is owned by no wrapper and therefore never changes; the mapping passed
    to a call is not even part of the heap.) -/
theorem cell_run (h : Heap) (ops : List Op) (c : Nat) (hc : c < h.dicts.length)
    (hno : ∀ op ∈ ops, ∀ r u, op.target = some r → (run h ops).1.ws[r]? = some u → u.cell ≠ c) :
    (run h ops).1.dicts[c]? = h.dicts[c]? := by
  induction ops generalizing h with
  | nil => rfl
  | cons op ops ih =>
    rw [run_cons] at hno ⊢
    have h1 : (step h op).1.dicts[c]? = h.dicts[c]? := by
      apply cell_step h op c hc
      intro r u ht hw
      apply hno op (by simp) r u ht
      exact getElem?_of_prefix ((ws_step h op).trans (ws_run _ ops)) hw
    have hc1 : c < (step h op).1.dicts.length := by
      by_contra hcon
      rw [List.getElem?_eq_none (by omega), List.getElem?_eq_getElem hc] at h1
      cases h1
    rw [ih (step h op).1 hc1 (fun o ho => hno o (by simp [ho])), h1]

example : (run Heap.empty [.newDict [("b", 1)], .wrapFun 0 ["a", "b"] [], .setDefault 0 [("b", 5)],
    .wrapExplicit 1 ["a", "b"] (some 0), .partialEval 1 [("q", 3)], .setDefault 2 [("a", 4)]]).1.dicts[0]?
    = some [("b", 1)] := by decide

/-! ## both container policies of the constructor

  Everything above is about `step` (re-wrapping and an explicit `defaults=` ALIAS the dict).  The constructor
  may just as well copy these containers (`stepCopy`): the statement promises nothing about `set_default`
  reaching, or not reaching, a re-wrap.  `stepCopy` differs from `step` in exactly two operations, so every
  theorem about the other operations (wrapping a function, calling, partial evaluation, deep copy, set_default,
  …) holds for it literally (`stepCopy_eq`); the frame / invariant theorems for all histories are proved for
  both policies (`…P`). -/

theorem stepCopy_eq (h : Heap) (op : Op) (h1 : ∀ r, op ≠ .rewrap r)
    (h2 : ∀ fn ps c, op ≠ .wrapExplicit fn ps (some c)) : stepCopy h op = step h op := by
  cases op with
  | rewrap r => exact absurd rfl (h1 r)
  | wrapExplicit fn ps dc =>
    cases dc with
    | none => rfl
    | some c => exact absurd rfl (h2 fn ps c)
  | _ => rfl

theorem frame_stepCopy (h : Heap) (op : Op) (hm : op.mutates = false) : h.Extends (stepCopy h op).1 := by
  cases op with
  | rewrap r =>
    simp only [stepCopy]; split
    · exact extends_addFresh _ _ _ _ _
    · exact Heap.Extends.refl h
  | wrapExplicit fn ps dc =>
    cases dc with
    | none => exact frame_step h _ hm
    | some c =>
      simp only [stepCopy]; split
      · exact extends_addFresh _ _ _ _ _
      · exact Heap.Extends.refl h
  | newDict d => exact frame_step h _ hm
  | wrapFun fn names dflts => exact frame_step h _ hm
  | wrapFunKw fn names dflts kw kd => exact frame_step h _ hm
  | wrapConst fn => exact frame_step h _ hm
  | shallowCopy r => exact frame_step h _ hm
  | call r env => exact frame_step h _ hm
  | callVec r env lens => exact frame_step h _ hm
  | partialEval r σ => exact frame_step h _ hm
  | setDefault r σ => exact frame_step h _ hm
  | removeDefault r ks => exact frame_step h _ hm
  | deepcopy r => exact frame_step h _ hm

theorem wf_stepCopy (h : Heap) (hwf : h.WF) (op : Op) : (stepCopy h op).1.WF := by
  cases op with
  | rewrap r =>
    simp only [stepCopy]; split
    · exact wf_addFresh _ hwf _ _ _ _
    · exact hwf
  | wrapExplicit fn ps dc =>
    cases dc with
    | none => exact wf_step h hwf _
    | some c =>
      simp only [stepCopy]; split
      · exact wf_addFresh _ hwf _ _ _ _
      · exact hwf
  | newDict d => exact wf_step h hwf _
  | wrapFun fn names dflts => exact wf_step h hwf _
  | wrapFunKw fn names dflts kw kd => exact wf_step h hwf _
  | wrapConst fn => exact wf_step h hwf _
  | shallowCopy r => exact wf_step h hwf _
  | call r env => exact wf_step h hwf _
  | callVec r env lens => exact wf_step h hwf _
  | partialEval r σ => exact wf_step h hwf _
  | setDefault r σ => exact wf_step h hwf _
  | removeDefault r ks => exact wf_step h hwf _
  | deepcopy r => exact wf_step h hwf _

theorem stepCopy_mutator (h : Heap) (op : Op) (hm : op.mutates = true) : stepCopy h op = step h op := by
  cases op with
  | setDefault r σ => rfl
  | removeDefault r ks => rfl
  | _ => simp [Op.mutates] at hm

/-- one operation, either policy: nothing that existed is changed by a non-mutating operation -/
theorem frame_stepP (pol : Policy) (h : Heap) (op : Op) (hm : op.mutates = false) :
    h.Extends (stepP pol h op).1 := by
  cases pol with
  | share => exact frame_step h op hm
  | copy => exact frame_stepCopy h op hm

theorem ws_stepP (pol : Policy) (h : Heap) (op : Op) : h.ws <+: (stepP pol h op).1.ws := by
  cases pol with
  | share => exact ws_step h op
  | copy =>
    cases hm : op.mutates with
    | false => exact (frame_stepCopy h op hm).2
    | true => simp only [stepP, stepCopy_mutator h op hm]; exact ws_step h op

theorem wf_stepP (pol : Policy) (h : Heap) (hwf : h.WF) (op : Op) : (stepP pol h op).1.WF := by
  cases pol with
  | share => exact wf_step h hwf op
  | copy => exact wf_stepCopy h hwf op

theorem cell_stepP (pol : Policy) (h : Heap) (op : Op) (c : Nat) (hc : c < h.dicts.length)
    (hno : ∀ r u, op.target = some r → h.ws[r]? = some u → u.cell ≠ c) :
    (stepP pol h op).1.dicts[c]? = h.dicts[c]? := by
  cases pol with
  | share => exact cell_step h op c hc hno
  | copy =>
    cases hm : op.mutates with
    | false =>
      have hx : h.dicts[c]? = some h.dicts[c] := List.getElem?_eq_getElem hc
      rw [hx]
      exact getElem?_of_prefix (frame_stepCopy h op hm).1 hx
    | true => simp only [stepP, stepCopy_mutator h op hm]; exact cell_step h op c hc hno

theorem runP_cons (pol : Policy) (h : Heap) (op : Op) (ops : List Op) :
    runP pol h (op :: ops) = ((runP pol (stepP pol h op).1 ops).1, (stepP pol h op).2 :: (runP pol (stepP pol h op).1 ops).2) := rfl

/-- **for all histories, under either policy**: wrap / re-wrap / copy / call / partially_evaluate / deepcopy
    leave every pre-existing wrapper and dict unchanged -/
theorem frame_runP (pol : Policy) (h : Heap) (ops : List Op) (hm : ∀ op ∈ ops, op.mutates = false) :
    h.Extends (runP pol h ops).1 := by
  induction ops generalizing h with
  | nil => exact Heap.Extends.refl h
  | cons op ops ih =>
    rw [runP_cons]
    exact (frame_stepP pol h op (hm op (by simp))).trans (ih _ (fun o ho => hm o (by simp [ho])))

/-- … and every call of a pre-existing wrapper answers as before -/
theorem frame_callP (pol : Policy) (h : Heap) (ops : List Op) (hm : ∀ op ∈ ops, op.mutates = false)
    (r : Nat) (x : UF × Dict) (hl : h.look r = some x) (env : Dict) :
    (step (runP pol h ops).1 (.call r env)).2 = (step h (.call r env)).2 :=
  call_of_look (by rw [hl, look_of_extends (frame_runP pol h ops hm) hl]) env

/-- a wrapper's function and parameter list never change, under either policy, whatever is done -/
theorem ws_runP (pol : Policy) (h : Heap) (ops : List Op) : h.ws <+: (runP pol h ops).1.ws := by
  induction ops generalizing h with
  | nil => exact List.prefix_rfl
  | cons op ops ih => rw [runP_cons]; exact (ws_stepP pol h op).trans (ih _)

theorem wf_runP (pol : Policy) (h : Heap) (hwf : h.WF) (ops : List Op) : (runP pol h ops).1.WF := by
  induction ops generalizing h with
  | nil => exact hwf
  | cons op ops ih => rw [runP_cons]; exact ih _ (wf_stepP pol h hwf op)

/-- a dict (e.g. a user-supplied one) changes only through a mutator on a wrapper that owns it — either policy -/
theorem cell_runP (pol : Policy) (h : Heap) (ops : List Op) (c : Nat) (hc : c < h.dicts.length)
    (hno : ∀ op ∈ ops, ∀ r u, op.target = some r → (runP pol h ops).1.ws[r]? = some u → u.cell ≠ c) :
    (runP pol h ops).1.dicts[c]? = h.dicts[c]? := by
  induction ops generalizing h with
  | nil => rfl
  | cons op ops ih =>
    rw [runP_cons] at hno ⊢
    have h1 : (stepP pol h op).1.dicts[c]? = h.dicts[c]? := by
      apply cell_stepP pol h op c hc
      intro r u ht hw
      apply hno op (by simp) r u ht
      exact getElem?_of_prefix ((ws_stepP pol h op).trans (ws_runP pol _ ops)) hw
    have hc1 : c < (stepP pol h op).1.dicts.length := by
      by_contra hcon
      rw [List.getElem?_eq_none (by omega), List.getElem?_eq_getElem hc] at h1
      cases h1
    rw [ih (stepP pol h op).1 hc1 (fun o ho => hno o (by simp [ho])), h1]

/-- under the copying policy a re-wrap has its own dict: it and all older wrappers do not reach each other
    (`fresh_independent` applies); under the sharing policy `set_default` reaches both (`setDefault_reach`) -/
theorem rewrapCopy_fresh (h : Heap) (r : Nat) (u : UF) (d : Dict) (hl : h.look r = some (u, d)) :
    stepCopy h (.rewrap r) = h.addFresh u.fn u.callable u.params d := by
  simp only [stepCopy, hl]

/-- under the copying policy an explicit `defaults=` dict of the user is never written to by any history:
    no wrapper owns it -/
theorem explicitCopy_fresh (h : Heap) (fn : Nat) (ps : List String) (c : Nat) (d : Dict) (hd : h.dicts[c]? = some d) :
    stepCopy h (.wrapExplicit fn ps (some c)) = h.addFresh fn true ps d := by
  simp only [stepCopy, hd]

example : (runP .copy Heap.empty [.wrapFun 0 ["x", "y"] [1], .rewrap 0, .setDefault 1 [("x", 2)], .call 0 []]).2.getLast?
    = some (.err .missingArg) := by decide

example : (runP .share Heap.empty [.wrapFun 0 ["x", "y"] [1], .rewrap 0, .setDefault 1 [("x", 2)], .call 0 []]).2.getLast?
    = some (.value 0 [("x", 2), ("y", 1)]) := by decide

/-! ## vectorize=True: one invocation per row -/

theorem allSome_eq_some {α} (l : List (Option α)) (ys : List α) (h : allSome l = some ys) : l = ys.map some := by
  induction l generalizing ys with
  | nil => simp [allSome] at h; subst h; rfl
  | cons a t ih =>
    cases a with
    | none => simp [allSome] at h
    | some x =>
      simp only [allSome, Option.map_eq_some_iff] at h
      obtain ⟨zs, hz, rfl⟩ := h
      rw [ih zs hz]; rfl

theorem allSome_of_forall {α} (l : List (Option α)) (h : ∀ x ∈ l, x.isSome) : ∃ ys, allSome l = some ys := by
  induction l with
  | nil => exact ⟨[], rfl⟩
  | cons a t ih =>
    obtain ⟨ys, hy⟩ := ih (fun x hx => h x (by simp [hx]))
    cases a with
    | none => have := h none (by simp); simp at this
    | some x => exact ⟨x :: ys, by simp [allSome, hy]⟩

/-- what invocation `i` must receive for one entry of the assembled dictionary: the same name, and row `i`
    of a value that has the batch length, the whole value otherwise -/
def RowOf (bs i : Nat) (kv : String × BVal) (ka : String × Arg) : Prop :=
  ka.1 = kv.1 ∧ ((kv.2.length = bs ∧ ∃ v, kv.2[i]? = some v ∧ ka.2 = .row v) ∨ (kv.2.length ≠ bs ∧ ka.2 = .whole kv.2))

/-- **row `i` goes to invocation `i`, under the same names**: for every `i` below the batch size the
    invocation exists and each argument is related to its entry by `RowOf` (no name is added, dropped,
    renamed or re-ordered; no row of another index is used). -/
theorem rowArgs_ok (inp : List (String × BVal)) (bs i : Nat) (hi : i < bs) :
    ∃ args, rowArgs inp bs i = some args ∧ List.Forall₂ (RowOf bs i) inp args := by
  induction inp with
  | nil => exact ⟨[], rfl, List.Forall₂.nil⟩
  | cons kv t ih =>
    obtain ⟨args, ha, hf⟩ := ih
    unfold rowArgs at ha ⊢
    by_cases hl : kv.2.length = bs
    · have hlt : i < kv.2.length := by omega
      refine ⟨(kv.1, .row kv.2[i]) :: args, ?_, ?_⟩
      · simp [allSome, hl, List.getElem?_eq_getElem hlt, ha]
      · exact List.Forall₂.cons ⟨rfl, Or.inl ⟨hl, kv.2[i], List.getElem?_eq_getElem hlt, rfl⟩⟩ hf
    · refine ⟨(kv.1, .whole kv.2) :: args, ?_, ?_⟩
      · simp [allSome, hl, ha]
      · exact List.Forall₂.cons ⟨rfl, Or.inr ⟨hl, rfl⟩⟩ hf

theorem foldl_max_spec (t : List (String × BVal)) (m0 : Nat) :
    m0 ≤ t.foldl (fun m kv => max m kv.2.length) m0 ∧
    (∀ kv ∈ t, kv.2.length ≤ t.foldl (fun m kv => max m kv.2.length) m0) ∧
    (t.foldl (fun m kv => max m kv.2.length) m0 = m0 ∨ ∃ kv ∈ t, kv.2.length = t.foldl (fun m kv => max m kv.2.length) m0) := by
  induction t generalizing m0 with
  | nil => simp
  | cons a t ih =>
    simp only [List.foldl_cons]
    obtain ⟨h1, h2, h3⟩ := ih (max m0 a.2.length)
    refine ⟨by omega, ?_, ?_⟩
    · intro kv hkv
      simp only [List.mem_cons] at hkv
      rcases hkv with rfl | hkv
      · omega
      · exact h2 kv hkv
    · rcases h3 with h3 | ⟨kv, hkv, he⟩
      · by_cases hm : a.2.length ≤ m0
        · left; rw [h3]; omega
        · right; exact ⟨a, by simp, by rw [h3]; omega⟩
      · right; exact ⟨kv, by simp [hkv], he⟩

/-- **the batch size is the largest number of rows** and is attained -/
theorem batchSize_spec (inp : List (String × BVal)) (bs : Nat) (h : batchSize inp = some bs) :
    (∀ kv ∈ inp, kv.2.length ≤ bs) ∧ ∃ kv ∈ inp, kv.2.length = bs := by
  cases inp with
  | nil => simp [batchSize] at h
  | cons a t =>
    simp only [batchSize, Option.some.injEq] at h
    obtain ⟨h1, h2, h3⟩ := foldl_max_spec t a.2.length
    rw [h] at h1 h2 h3
    constructor
    · intro kv hkv
      simp only [List.mem_cons] at hkv
      rcases hkv with rfl | hkv
      · exact h1
      · exact h2 kv hkv
    · rcases h3 with h3 | ⟨kv, hkv, he⟩
      · exact ⟨a, by simp, h3.symm⟩
      · exact ⟨kv, by simp [hkv], he⟩

/-- **one invocation per row, in row order**: a non-empty argument dictionary is evaluated exactly
    `batch size` times, invocation `i` being `rowArgs … i`; an empty one is a ValueError (as in the code). -/
theorem applyToBatch_spec (inp : List (String × BVal)) :
    (inp = [] → applyToBatch inp = .error .valueError) ∧
    (∀ bs, batchSize inp = some bs → ∃ rows, applyToBatch inp = .ok rows ∧ rows.length = bs ∧
      ∀ i, i < bs → (rows[i]?).map some = some (rowArgs inp bs i)) := by
  constructor
  · intro h; subst h; rfl
  · intro bs hbs
    have hall : ∀ x ∈ (List.range bs).map (rowArgs inp bs), x.isSome := by
      intro x hx
      simp only [List.mem_map, List.mem_range] at hx
      obtain ⟨i, hi, rfl⟩ := hx
      obtain ⟨args, ha, _⟩ := rowArgs_ok inp bs i hi
      simp [ha]
    obtain ⟨rows, hr⟩ := allSome_of_forall _ hall
    have he := allSome_eq_some _ _ hr
    have hlen : rows.length = bs := by
      have := congrArg List.length he
      simpa using this.symm
    refine ⟨rows, ?_, hlen, ?_⟩
    · simp only [applyToBatch, hbs, hr]
    · intro i hi
      have h1 : ((List.range bs).map (rowArgs inp bs))[i]? = some (rowArgs inp bs i) := by
        simp [hi]
      rw [he] at h1
      simpa using h1

example : applyToBatch [("a", [10, 11, 12]), ("b", [20]), ("c", [30, 31, 32])] =
    .ok [[("a", .row 10), ("b", .whole [20]), ("c", .row 30)], [("a", .row 11), ("b", .whole [20]), ("c", .row 31)],
         [("a", .row 12), ("b", .whole [20]), ("c", .row 32)]] := by decide

/-! ## the pinned snapshot: one `defaults={}` object shared by all constructions -/

/-- **the statement is false of the code before the repair.** History: a wrapper with explicit `args`
    (its `defaults` is the constructor's shared default object), `set_default(x=1)` on it, then a fresh
    `UserFunction(g)` for `def g(y)`: the signature of `g` is not inspected (`self.defaults == {}` is
    false), so the call with `{y: 2}` passes NO argument to `g` (Python: TypeError) … -/
theorem shared_default_old_breaks :
    (runOld Heap.initOld [.wrapExplicit 0 ["x"] none, .setDefault 0 [("x", 1)], .wrapFun 1 ["y"] [],
        .call 1 [("y", 2)]]).2.getLast? = some (.value 1 []) := by decide

/-- … while the repaired constructor binds `y` by name in the same history. -/
theorem shared_default_repaired :
    (run Heap.empty [.wrapExplicit 0 ["x"] none, .setDefault 0 [("x", 1)], .wrapFun 1 ["y"] [],
        .call 1 [("y", 2)]]).2.getLast? = some (.value 1 [("y", 2)]) := by decide

end TPV.UserFun
