/-
  C02 — adaptive rejection samplers: every call of every history returns the row structure of a fresh sample.
-/
import TPV.Props.C02Full
set_option linter.unusedVariables false
set_option linter.unnecessarySimpa false

namespace TPV.Sampler

theorem adaptiveStep_length (mask : Nat → Bool) (last fresh : List Row) :
    (adaptiveStep mask last fresh).length = min last.length fresh.length := by
  simp [adaptiveStep]

theorem adaptiveStep_getElem (mask : Nat → Bool) (last fresh : List Row) (i : Nat)
    (h : i < (adaptiveStep mask last fresh).length) (hl : i < last.length) (hf : i < fresh.length) :
    (adaptiveStep mask last fresh)[i] = if mask i then fresh[i] else last[i] := by
  simp [adaptiveStep]

/-- a row-wise function that agrees on the last and the fresh point set (e.g. the carried parameter row `Row.base`)
    has the same values on the result: row i stays a row of parameter row i -/
theorem adaptiveStep_map {β} (g : Row → β) (mask : Nat → Bool) (last fresh : List Row)
    (h : last.map g = fresh.map g) : (adaptiveStep mask last fresh).map g = fresh.map g := by
  have hl : last.length = fresh.length := by simpa using congrArg List.length h
  apply List.ext_getElem
  · simp [adaptiveStep_length, hl]
  · intro i h1 h2
    simp only [List.length_map, adaptiveStep_length] at h1 h2
    have hil : i < last.length := by omega
    simp only [List.getElem_map]
    rw [adaptiveStep_getElem mask last fresh i (by simp [adaptiveStep_length]; omega) hil h2]
    split
    · rfl
    · have := congrArg (fun l => l[i]?) h
      simp only [List.getElem?_map, List.getElem?_eq_getElem hil, List.getElem?_eq_getElem h2, Option.map_some] at this
      exact Option.some.inj this

/-- every row of the result is a row of the last or of the fresh point set -/
theorem adaptiveStep_mem (mask : Nat → Bool) (last fresh : List Row) (r : Row)
    (h : r ∈ adaptiveStep mask last fresh) : r ∈ last ∨ r ∈ fresh := by
  obtain ⟨i, hi, rfl⟩ := List.getElem_of_mem h
  have hi' := hi
  rw [adaptiveStep_length] at hi'
  rw [adaptiveStep_getElem mask last fresh i hi (by omega) (by omega)]
  split
  · exact Or.inr (List.getElem_mem _)
  · exact Or.inl (List.getElem_mem _)

/-- invariant of a history: every output has the length, the carried parameter rows and the pairing of the fresh samples -/
theorem adaptiveRun_inv (L : Nat) (C : List Row) :
    ∀ (calls : List (Option (Nat → Bool) × List Row)) (st : Option (List Row)),
      (∀ c ∈ calls, c.2.length = L ∧ c.2.map Row.base = C ∧ ∀ r ∈ c.2, r.paired = true) →
      (∀ l, st = some l → l.length = L ∧ l.map Row.base = C ∧ ∀ r ∈ l, r.paired = true) →
      ∀ out ∈ adaptiveRun st calls, out.length = L ∧ out.map Row.base = C ∧ ∀ r ∈ out, r.paired = true := by
  intro calls
  induction calls with
  | nil => intro st _ _ out h; cases st <;> simp [adaptiveRun] at h
  | cons c rest ih =>
    intro st hc hst out h
    obtain ⟨m, f⟩ := c
    have hf := hc (m, f) (by simp)
    have hrest : ∀ c ∈ rest, c.2.length = L ∧ c.2.map Row.base = C ∧ ∀ r ∈ c.2, r.paired = true :=
      fun c hcm => hc c (by simp [hcm])
    cases st with
    | none =>
      simp only [adaptiveRun, List.mem_cons] at h
      rcases h with h | h
      · subst h; exact hf
      · exact ih (some f) hrest (by intro l hl; cases hl; exact hf) out h
    | some last =>
      have hl := hst last rfl
      cases m with
      | none =>
        simp only [adaptiveRun, List.mem_cons] at h
        rcases h with h | h
        · subst h; exact hf
        · exact ih (some f) hrest (by intro l hl; cases hl; exact hf) out h
      | some m =>
        have hstep : (adaptiveStep m last f).length = L ∧ (adaptiveStep m last f).map Row.base = C ∧
            ∀ r ∈ adaptiveStep m last f, r.paired = true := by
          refine ⟨by rw [adaptiveStep_length, hl.1, hf.1, Nat.min_self], ?_, ?_⟩
          · rw [adaptiveStep_map Row.base m last f (by rw [hl.2.1, hf.2.1]), hf.2.1]
          · intro r hr
            rcases adaptiveStep_mem m last f r hr with hr | hr
            · exact hl.2.2 r hr
            · exact hf.2.2 r hr
        simp only [adaptiveRun, List.mem_cons] at h
        rcases h with h | h
        · subst h; exact hstep
        · exact ih (some (adaptiveStep m last f)) hrest (by intro l hl'; cases hl'; exact hstep) out h

/-- **adaptive rejection samplers over a history of calls** (any losses, i.e. any replacement masks, any number of calls,
    with or without filter, any domain node): every call returns `n * k` rows, rows `i*n .. (i+1)*n-1` carry parameter
    row `i`, every point was made for the row it is joined with -/
theorem adaptive_history (o : Oracle) (d : Dom) (n : Nat) (filt : Bool) (ps : List Row) (hn : 0 < n) (hk : ps ≠ [])
    (hps : ∀ ρ ∈ ps, ρ.paired = true) (calls : List (Option (Nat → Bool) × List Row))
    (hfresh : ∀ c ∈ calls, leafSample o .uniform d n filt ps = .ok c.2) :
    ∀ out ∈ adaptiveRun none calls,
      out.length = n * ps.length ∧ out.map Row.base = repeatParams (ps.map Row.base) n ∧ ∀ r ∈ out, r.paired = true := by
  apply adaptiveRun_inv (n * ps.length) (repeatParams (ps.map Row.base) n) calls none
  · intro c hc
    have h := hfresh c hc
    refine ⟨?_, leafSample_carry o .uniform d n filt ps c.2 hn hk h, leafSample_paired o .uniform d n filt ps c.2 hn hps h⟩
    rw [leafSample_length o .uniform d n filt ps c.2 hn h]
    have : 0 < ps.length := List.length_pos_iff.mpr hk
    congr 1; omega
  · intro l hl; cases hl

/-- the out-of-place variant of round d (kept rows first, replaced rows behind): same rows as a set, but block i no
    longer carries parameter row i — 2 points for each of 2 rows, the loss marks row 0 -/
theorem adaptiveOutOfPlace_breaks_blocks :
    (adaptiveStepOutOfPlace (fun i => i == 0)
        [.ext 0 ["t"], .ext 0 ["t"], .ext 1 ["t"], .ext 1 ["t"]]
        [.ext 0 ["t"], .ext 0 ["t"], .ext 1 ["t"], .ext 1 ["t"]]).map Row.base
      = [.ext 0 ["t"], .ext 1 ["t"], .ext 1 ["t"], .ext 0 ["t"]] := by
  decide +kernel

example : adaptiveRun none [(none, [.ext 0 [], .ext 1 []]), (some (fun i => i == 1), [.ext 2 [], .ext 3 []])]
    = [[.ext 0 [], .ext 1 []], [.ext 0 [], .ext 3 []]] := by decide +kernel

end TPV.Sampler
