/-
  C14 — conditions that SHARE one sampler object (`TPV.Model.CondWorldShared`).
-/
import TPV.Model.CondWorldShared
import TPV.Props.C14
import TPV.Props.C15

namespace TPV.Cond
open TPV.CondExpr

set_option linter.unusedSectionVars false

/-! ## one `sample_points()` call of a sampler object -/

section draw
variable {K : Type}

theorem draw_def (s : SamplerSt K) (f : List (List K)) :
    s.draw f =
      if s.static then
        match s.cache with
        | some pts =>
          if !pts.isEmpty && ltIv (s.counter + 1) s.interval then (pts, false, { s with counter := s.counter + 1 })
          else (f, true, { s with counter := 0, cache := some f })
        | none => (f, true, { s with counter := 0, cache := some f })
      else (f, true, s) := rfl

theorem draw_static (s : SamplerSt K) (f : List (List K)) : (s.draw f).2.2.static = s.static := by
  rw [draw_def]
  split
  · split
    · split <;> rfl
    · rfl
  · rfl

theorem draw_interval (s : SamplerSt K) (f : List (List K)) : (s.draw f).2.2.interval = s.interval := by
  rw [draw_def]
  split
  · split
    · split <;> rfl
    · rfl
  · rfl

/-- a never-resampling static sampler with a non-empty cached set returns that set and keeps it -/
theorem draw_keep (s : SamplerSt K) (f p : List (List K)) (hst : s.static = true) (hiv : s.interval = none)
    (hc : s.cache = some p) (hp : p.isEmpty = false) :
    s.draw f = (p, false, { s with counter := s.counter + 1 }) := by
  simp [SamplerSt.draw, hst, hiv, hc, hp, ltIv]

/-- a static sampler with nothing cached asks the underlying sampler and caches what it gets -/
theorem draw_first (s : SamplerSt K) (f : List (List K)) (hst : s.static = true) (hc : s.cache = none) :
    s.draw f = (f, true, { s with counter := 0, cache := some f }) := by
  simp [SamplerSt.draw, hst, hc]

/-- after any call a static sampler holds the set it returned -/
theorem draw_static_cache (s : SamplerSt K) (f : List (List K)) (hst : s.static = true) :
    (s.draw f).2.2.cache = some (s.draw f).1 := by
  rw [draw_def]
  rw [if_pos hst]
  split
  · rename_i pts hc
    split
    · exact hc
    · rfl
  · rfl

/-- cached sets stay non-empty when all drawn sets are non-empty -/
theorem draw_cache_ne (s : SamplerSt K) (f : List (List K)) (hf : f.isEmpty = false)
    (hc : ∀ p, s.cache = some p → p.isEmpty = false) :
    ∀ p, (s.draw f).2.2.cache = some p → p.isEmpty = false := by
  rw [draw_def]
  split
  · split
    · rename_i pts hc'
      split
      · intro p hp; exact hc p (hc'.symm ▸ hp)
      · intro p hp; simp only [Option.some.injEq] at hp; exact hp ▸ hf
    · intro p hp; simp only [Option.some.injEq] at hp; exact hp ▸ hf
  · exact hc

end draw

section shared
variable {K : Type} [Add K] [Sub K] [Mul K] [Neg K] [Div K] [OfNat K 0] [NatCast K] [LT K] [DecidableLT K]

/-! ## what one operation does to the samplers, the conditions, the dicts -/

/-- the set the underlying sampler would draw during this operation -/
def OpS.fresh? : OpS K → Option (List (List K))
  | .mkSampler .. => none
  | .construct _ _ _ _ _ f => some f
  | .eval _ f => some f

/-- the sampler object an operation acts on, in world `w` (a construction names it; an evaluation uses
    the sampler its condition was constructed with) -/
def opSid (w : WorldS K) : OpS K → Option Nat
  | .mkSampler .. => none
  | .construct _ _ _ _ sid _ => some sid
  | .eval cid _ => (w.conds cid).map (·.sid)

theorem stepS_dicts (w : WorldS K) (op : OpS K) : (stepS w op).1.dicts = w.dicts := by
  cases op with
  | mkSampler sid st iv => rfl
  | construct cid dictRef spec space sid fresh =>
    simp only [stepS]
    split
    · split
      · split <;> rfl
      · split <;> rfl
    · rfl
  | eval cid fresh =>
    simp only [stepS]
    split
    · rfl
    · split
      · rfl
      · split <;> rfl

/-- FRAME: no operation changes any user dict -/
theorem runS_dicts : ∀ (ops : List (OpS K)) (w : WorldS K), (runS w ops).1.dicts = w.dicts
  | [], _ => rfl
  | op :: ops, w => by
    show (runS (stepS w op).1 ops).1.dicts = w.dicts
    exact (runS_dicts ops (stepS w op).1).trans (stepS_dicts w op)

theorem stepS_rec_cid (w : WorldS K) (op : OpS K) : (stepS w op).2.cid = op.cid? := by
  cases op with
  | mkSampler sid st iv => rfl
  | construct cid dictRef spec space sid fresh =>
    simp only [stepS]
    split
    · split
      · split <;> rfl
      · split <;> rfl
    · rfl
  | eval cid fresh =>
    simp only [stepS]
    split
    · rfl
    · split
      · rfl
      · split <;> rfl

/-- an operation of another condition (or a sampler creation) leaves this condition's record alone -/
theorem stepS_conds_other (w : WorldS K) (op : OpS K) (cid : Nat) (h : op.cid? ≠ some cid) :
    (stepS w op).1.conds cid = w.conds cid := by
  cases op with
  | mkSampler sid st iv => rfl
  | construct c dictRef spec space sid fresh =>
    have hc : ¬ cid = c := fun e => h (by simp [OpS.cid?, e])
    simp only [stepS]
    split
    · split
      · split
        · rfl
        · simp [setCondS, setSampler, hc]
      · split
        · rfl
        · simp [setCondS, hc]
    · rfl
  | eval c fresh =>
    simp only [stepS]
    split
    · rfl
    · split
      · rfl
      · split <;> rfl

/-- every operation is a sampler creation, or leaves all samplers alone and records no points, or is ONE
    `sample_points()` call on the sampler it acts on and records the set that call returned -/
theorem stepS_cases (w : WorldS K) (op : OpS K) :
    (∃ sid st iv, op = .mkSampler sid st iv) ∨
    ((stepS w op).1.samplers = w.samplers ∧ (stepS w op).2.used = none) ∨
    (∃ sid s f, opSid w op = some sid ∧ op.fresh? = some f ∧ w.samplers sid = some s ∧
      (stepS w op).1.samplers = (fun j => if j = sid then some (s.draw f).2.2 else w.samplers j) ∧
      (stepS w op).2.used = some (s.draw f).1) := by
  cases op with
  | mkSampler sid st iv => exact Or.inl ⟨sid, st, iv, rfl⟩
  | construct cid dictRef spec space sid fresh =>
    right
    simp only [stepS]
    split
    · rename_i d s hd hs
      split
      · split
        · exact Or.inr ⟨sid, s, fresh, rfl, rfl, hs, rfl, rfl⟩
        · exact Or.inr ⟨sid, s, fresh, rfl, rfl, hs, rfl, rfl⟩
      · split
        · exact Or.inl ⟨rfl, rfl⟩
        · exact Or.inl ⟨rfl, rfl⟩
    · exact Or.inl ⟨rfl, rfl⟩
  | eval cid fresh =>
    right
    simp only [stepS]
    split
    · exact Or.inl ⟨rfl, rfl⟩
    · rename_i c hc
      split
      · exact Or.inl ⟨rfl, rfl⟩
      · rename_i s hs
        right
        refine ⟨c.sid, s, fresh, by simp [opSid, hc], rfl, hs, ?_, ?_⟩
        · split <;> rfl
        · split <;> rfl

/-! ## (A) all conditions on one never-resampling static sampler see the same points -/

/-- WELL-FORMEDNESS used for (A): `mkSampler sid …` does not occur in the history (the sampler object
    `sid` exists already and is not replaced by a new object with the same id) -/
def noMk (sid : Nat) (ops : List (OpS K)) : Bool :=
  ops.all fun op => match op with
    | .mkSampler j _ _ => j != sid
    | _ => true

/-- every set the underlying samplers would draw is non-empty (`StaticSampler` treats an empty cached set
    as "nothing cached") -/
def freshNonempty (ops : List (OpS K)) : Bool :=
  ops.all fun op => match op.fresh? with
    | some f => !f.isEmpty
    | none => true

/-- the point sets recorded as `used` by the operations that act on sampler object `sid`, in order
    (operations of ANY condition; which sampler an evaluation acts on is read off the world at that moment) -/
def usedOn (sid : Nat) : WorldS K → List (OpS K) → List (List (List K))
  | _, [] => []
  | w, op :: ops =>
    let rest := usedOn sid (stepS w op).1 ops
    if opSid w op = some sid then
      match (stepS w op).2.used with
      | some p => p :: rest
      | none => rest
    else rest

theorem noMk_cons (sid : Nat) (op : OpS K) (ops : List (OpS K)) (h : noMk sid (op :: ops) = true) :
    (∀ j st iv, op = .mkSampler j st iv → j ≠ sid) ∧ noMk sid ops = true := by
  simp only [noMk, List.all_cons, Bool.and_eq_true] at h
  refine ⟨?_, h.2⟩
  intro j st iv e
  subst e
  simpa using h.1

theorem freshNonempty_cons (op : OpS K) (ops : List (OpS K)) (h : freshNonempty (op :: ops) = true) :
    (∀ f, op.fresh? = some f → f.isEmpty = false) ∧ freshNonempty ops = true := by
  simp only [freshNonempty, List.all_cons, Bool.and_eq_true] at h
  refine ⟨?_, h.2⟩
  intro f e
  rw [e] at h
  simpa using h.1

/-- ONE step: a never-resampling static sampler `sid` that holds a non-empty set `p` hands `p` to every
    operation that acts on it and still holds `p` afterwards; other operations do not touch it -/
theorem stepS_static_cached (w : WorldS K) (op : OpS K) (sid : Nat) (s : SamplerSt K) (p : List (List K))
    (hs : w.samplers sid = some s) (hst : s.static = true) (hiv : s.interval = none)
    (hc : s.cache = some p) (hp : p.isEmpty = false) (hno : ∀ j st iv, op = .mkSampler j st iv → j ≠ sid) :
    (opSid w op = some sid → ∀ q, (stepS w op).2.used = some q → q = p) ∧
    ∃ s', (stepS w op).1.samplers sid = some s' ∧ s'.static = true ∧ s'.interval = none ∧ s'.cache = some p := by
  rcases stepS_cases w op with ⟨j, st, iv, rfl⟩ | ⟨hsam, hu⟩ | ⟨sid', s₁, f, hsid, _, hs₁, hsam, hu⟩
  · refine ⟨fun h => (by simp [opSid] at h), s, ?_, hst, hiv, hc⟩
    have := hno j st iv rfl
    simp [stepS, setSampler, Ne.symm this, hs]
  · exact ⟨fun _ q hq => (by rw [hu] at hq; cases hq), s, (by rw [hsam]; exact hs), hst, hiv, hc⟩
  · by_cases e : sid' = sid
    · subst e
      rw [hs] at hs₁
      cases hs₁
      rw [draw_keep s f p hst hiv hc hp] at hsam hu
      refine ⟨fun _ q hq => (by rw [hu] at hq; cases hq; rfl), { s with counter := s.counter + 1 },
        (by rw [hsam]; simp), hst, hiv, hc⟩
    · refine ⟨fun h => absurd (Option.some.inj (hsid.symm.trans h)) e, s, ?_, hst, hiv, hc⟩
      rw [hsam]
      simp [Ne.symm e, hs]

/-- (A), cached case: from a world in which the never-resampling static sampler `sid` holds the non-empty set
    `p`, over EVERY history that does not re-create `sid`, every operation of every condition on that
    sampler uses `p`, and the sampler still holds `p` at the end -/
theorem shared_static_cached (sid : Nat) (p : List (List K)) (hp : p.isEmpty = false) :
    ∀ (ops : List (OpS K)) (w : WorldS K) (s : SamplerSt K), w.samplers sid = some s → s.static = true →
      s.interval = none → s.cache = some p → noMk sid ops = true →
      (∀ q ∈ usedOn sid w ops, q = p) ∧
      ∃ s', (runS w ops).1.samplers sid = some s' ∧ s'.static = true ∧ s'.interval = none ∧ s'.cache = some p
  | [], w, s, hs, hst, hiv, hc, _ => ⟨fun q hq => by simp [usedOn] at hq, s, hs, hst, hiv, hc⟩
  | op :: ops, w, s, hs, hst, hiv, hc, hno => by
    obtain ⟨hno₁, hno₂⟩ := noMk_cons sid op ops hno
    obtain ⟨hused, s', hs', hst', hiv', hc'⟩ := stepS_static_cached w op sid s p hs hst hiv hc hp hno₁
    obtain ⟨ih₁, ih₂⟩ := shared_static_cached sid p hp ops (stepS w op).1 s' hs' hst' hiv' hc' hno₂
    refine ⟨?_, ih₂⟩
    intro q hq
    simp only [usedOn] at hq
    split at hq
    · rename_i hsid
      split at hq
      · rename_i q' hq'
        rcases List.mem_cons.mp hq with rfl | hq
        · exact hused hsid _ hq'
        · exact ih₁ q hq
      · exact ih₁ q hq
    · exact ih₁ q hq

/-- **(A) shared static sampler, same points.**  `sid` is a static sampler object that never resamples
    (`interval = none`), whatever it has cached is non-empty, all sets the underlying samplers would draw in
    the history are non-empty (`freshNonempty`), and the history does not create a new sampler object under
    the id `sid` (`noMk`, a decidable well-formedness predicate on histories).  Then over the whole history
    every point set recorded as `used` by an operation of ANY condition on that sampler is ONE set: the
    sampler's cached set if it has one at the start, else the first set used on it. -/
theorem shared_static_same_points : ∀ (ops : List (OpS K)) (w : WorldS K) (sid : Nat) (s : SamplerSt K),
    w.samplers sid = some s → s.static = true → s.interval = none →
    (∀ p, s.cache = some p → p.isEmpty = false) → noMk sid ops = true → freshNonempty ops = true →
    ∀ q ∈ usedOn sid w ops, some q = s.cache.or (usedOn sid w ops).head?
  | [], w, sid, s, _, _, _, _, _, _ => fun q hq => by simp [usedOn] at hq
  | op :: ops, w, sid, s, hs, hst, hiv, hne, hno, hf => by
    cases hc : s.cache with
    | some p =>
      intro q hq
      rw [(shared_static_cached sid p (hne p hc) (op :: ops) w s hs hst hiv hc hno).1 q hq]
      rfl
    | none =>
      obtain ⟨hno₁, hno₂⟩ := noMk_cons sid op ops hno
      obtain ⟨hf₁, hf₂⟩ := freshNonempty_cons op ops hf
      have keep : (stepS w op).1.samplers sid = some s → (opSid w op = some sid → (stepS w op).2.used = none) →
          ∀ q ∈ usedOn sid w (op :: ops), some q = (none : Option (List (List K))).or (usedOn sid w (op :: ops)).head? := by
        intro h1 h2
        have e : usedOn sid w (op :: ops) = usedOn sid (stepS w op).1 ops := by
          simp only [usedOn]
          split
          · rename_i h; rw [h2 h]
          · rfl
        rw [e]
        have := shared_static_same_points ops (stepS w op).1 sid s h1 hst hiv hne hno₂ hf₂
        rw [hc] at this
        exact this
      rcases stepS_cases w op with ⟨j, st, iv, rfl⟩ | ⟨hsam, hu⟩ | ⟨sid', s₁, f, hsid, hfr, hs₁, hsam, hu⟩
      · apply keep
        · have := hno₁ j st iv rfl
          simp [stepS, setSampler, Ne.symm this, hs]
        · intro h; simp [opSid] at h
      · exact keep (by rw [hsam]; exact hs) (fun _ => hu)
      · by_cases e : sid' = sid
        · subst e
          rw [hs] at hs₁
          cases hs₁
          rw [draw_first s f hst hc] at hsam hu
          have hfne := hf₁ f hfr
          have hs' : (stepS w op).1.samplers sid' = some { s with counter := 0, cache := some f } := by
            rw [hsam]; simp
          have ih := (shared_static_cached sid' f hfne ops (stepS w op).1 _ hs' hst hiv rfl hno₂).1
          have e : usedOn sid' w (op :: ops) = f :: usedOn sid' (stepS w op).1 ops := by
            simp only [usedOn]
            rw [if_pos hsid, hu]
          rw [e]
          intro q hq
          rcases List.mem_cons.mp hq with rfl | hq
          · rfl
          · rw [ih q hq]; rfl
        · apply keep
          · rw [hsam]; simp [Ne.symm e, hs]
          · intro h; exact absurd (Option.some.inj (hsid.symm.trans h)) e

/-! ## (B) isolation GIVEN the points -/

/-- WELL-FORMED history relative to the sampler ids that exist already (`ex`): a sampler object is created
    (`mkSampler`) only under an id that does not exist yet, hence at most once, and every construction names
    a sampler that exists at that moment.  Decidable. -/
def wfS (ex : Nat → Bool) : List (OpS K) → Bool
  | [] => true
  | .mkSampler sid _ _ :: ops => !ex sid && wfS (fun j => j == sid || ex j) ops
  | .construct _ _ _ _ sid _ :: ops => ex sid && wfS ex ops
  | .eval .. :: ops => wfS ex ops

theorem shouldPreEval_true {st : Bool} {iv : Option Nat} (h : shouldPreEval st iv = true) : st = true ∧ iv = none := by
  cases st <;> cases iv <;> simp [shouldPreEval] at h ⊢

/-- without pre-evaluation the entries are only wrapped: the points do not matter -/
theorem setupEntries_false (space : SpaceL) (pts : List (List K)) (d : UDict K) :
    setupEntries space false pts d = setupEntries space false [] d := by
  simp [setupEntries]

/-- invariants of the shared world along a well-formed history: `so` knows every existing sampler's kind,
    cached sets are non-empty -/
structure Good (so : Nat → Option (Bool × Option Nat)) (w : WorldS K) : Prop where
  decl : ∀ sid s, w.samplers sid = some s → so sid = some (s.static, s.interval)
  ne : ∀ sid s p, w.samplers sid = some s → s.cache = some p → p.isEmpty = false

theorem good_step (so : Nat → Option (Bool × Option Nat)) (w : WorldS K) (op : OpS K) (hg : Good so w)
    (hmk : ∀ j st iv, op = .mkSampler j st iv → so j = some (st, iv))
    (hf : ∀ f, op.fresh? = some f → f.isEmpty = false) : Good so (stepS w op).1 := by
  rcases stepS_cases w op with ⟨j, st, iv, rfl⟩ | ⟨hsam, _⟩ | ⟨sid', s₁, f, _, hfr, hs₁, hsam, _⟩
  · constructor
    · intro sid s hs
      simp only [stepS, setSampler] at hs
      split at hs
      · rename_i e; cases hs; rw [e]; exact hmk j st iv rfl
      · exact hg.decl sid s hs
    · intro sid s p hs hc
      simp only [stepS, setSampler] at hs
      split at hs
      · cases hs; cases hc
      · exact hg.ne sid s p hs hc
  · constructor
    · intro sid s hs; rw [hsam] at hs; exact hg.decl sid s hs
    · intro sid s p hs hc; rw [hsam] at hs; exact hg.ne sid s p hs hc
  · constructor
    · intro sid s hs
      rw [hsam] at hs
      simp only at hs
      split at hs
      · rename_i e; cases hs; rw [draw_static, draw_interval, e]; exact hg.decl sid' s₁ hs₁
      · exact hg.decl sid s hs
    · intro sid s p hs hc
      rw [hsam] at hs
      simp only at hs
      split at hs
      · cases hs
        exact draw_cache_ne s₁ f (hf f hfr) (fun p hp => hg.ne sid' s₁ p hs₁ hp) p hc
      · exact hg.ne sid s p hs hc

theorem stepS_isSome (w : WorldS K) (op : OpS K) (h : ∀ j st iv, op ≠ .mkSampler j st iv) (j : Nat) :
    ((stepS w op).1.samplers j).isSome = (w.samplers j).isSome := by
  rcases stepS_cases w op with ⟨j, st, iv, rfl⟩ | ⟨hsam, _⟩ | ⟨sid', s₁, f, _, _, hs₁, hsam, _⟩
  · exact absurd rfl (h j st iv)
  · rw [hsam]
  · rw [hsam]
    simp only
    split
    · rename_i e; rw [e, hs₁]; rfl
    · rfl

/-- the simulation relation between condition `cid` in the shared world and its state `vc` in the
    private-sampler world: same condition (own data functions, space); the private sampler is static exactly
    when the shared one pre-evaluates; what the private static sampler has cached is what the shared one holds -/
def RelC (w : WorldS K) (cid : Nat) (vc : Option (CondState K)) : Prop :=
  (w.conds cid = none ∧ vc = none) ∨
  ∃ c c' s, w.conds cid = some c ∧ vc = some c' ∧ c'.spec = c.spec ∧ c'.space = c.space ∧
    w.samplers c.sid = some s ∧ c'.static = shouldPreEval s.static s.interval ∧
    (c'.static = true → ∀ p, c'.cache = some p → s.cache = some p)

/-- a `sample_points()` call on any sampler object keeps the relation: a pre-evaluating sampler keeps its set -/
theorem relC_draw (so : Nat → Option (Bool × Option Nat)) (w : WorldS K) (cid sid : Nat) (s : SamplerSt K)
    (f : List (List K)) (vc : Option (CondState K)) (hg : Good so w) (hrel : RelC w cid vc)
    (hs₁ : w.samplers sid = some s) : RelC (setSampler w sid (s.draw f).2.2) cid vc := by
  rcases hrel with ⟨h1, h2⟩ | ⟨c, c', s₀, hwc, hvc, hspec, hspace, hs, hstat, hcache⟩
  · exact Or.inl ⟨h1, h2⟩
  · right
    by_cases e : c.sid = sid
    · rw [← e, hs] at hs₁
      cases hs₁
      refine ⟨c, c', (s.draw f).2.2, hwc, hvc, hspec, hspace, by simp [setSampler, e], ?_, ?_⟩
      · rw [draw_static, draw_interval]; exact hstat
      · intro hst p hp
        have hsp := hcache hst p hp
        obtain ⟨a, b⟩ := shouldPreEval_true (hstat ▸ hst)
        rw [draw_keep s f p a b hsp (hg.ne c.sid s p hs hsp)]
        exact hsp
    · exact ⟨c, c', s₀, hwc, hvc, hspec, hspace, by simp [setSampler, e, hs], hstat, hcache⟩

/-- operations of OTHER conditions (and sampler creations under new ids) keep the relation: they may call
    the shared sampler, but a pre-evaluating sampler keeps its set -/
theorem relC_other (so : Nat → Option (Bool × Option Nat)) (w : WorldS K) (op : OpS K) (cid : Nat)
    (vc : Option (CondState K)) (hg : Good so w) (hrel : RelC w cid vc) (hc : op.cid? ≠ some cid)
    (hmk : ∀ j st iv, op = .mkSampler j st iv → w.samplers j = none) : RelC (stepS w op).1 cid vc := by
  rcases hrel with ⟨h1, h2⟩ | ⟨c, c', s, hwc, hvc, hspec, hspace, hs, hstat, hcache⟩
  · exact Or.inl ⟨by rw [stepS_conds_other w op cid hc]; exact h1, h2⟩
  · right
    have hwc' : (stepS w op).1.conds cid = some c := by rw [stepS_conds_other w op cid hc]; exact hwc
    rcases stepS_cases w op with ⟨j, st, iv, rfl⟩ | ⟨hsam, _⟩ | ⟨sid', s₁, f, _, _, hs₁, hsam, _⟩
    · have hj : c.sid ≠ j := by
        intro e
        have := hmk j st iv rfl
        rw [← e, hs] at this
        cases this
      exact ⟨c, c', s, hwc', hvc, hspec, hspace, by simp [stepS, setSampler, hj, hs], hstat, hcache⟩
    · exact ⟨c, c', s, hwc', hvc, hspec, hspace, by rw [hsam]; exact hs, hstat, hcache⟩
    · by_cases e : c.sid = sid'
      · rw [← e, hs] at hs₁
        cases hs₁
        refine ⟨c, c', (s.draw f).2.2, hwc', hvc, hspec, hspace, by rw [hsam]; simp [e], ?_, ?_⟩
        · rw [draw_static, draw_interval]; exact hstat
        · intro hst p hp
          have hsp := hcache hst p hp
          obtain ⟨a, b⟩ := shouldPreEval_true (hstat ▸ hst)
          rw [draw_keep s f p a b hsp (hg.ne c.sid s p hs hsp)]
          exact hsp
      · exact ⟨c, c', s, hwc', hvc, hspec, hspace, by rw [hsam]; simp [e, hs], hstat, hcache⟩

/-- an EVALUATION of `cid`: the private sampler, handed the set used in company, makes the condition
    compute on exactly that set -/
theorem sim_eval (so : Nat → Option (Bool × Option Nat)) (w : WorldS K) (cid : Nat) (fresh : List (List K))
    (vc : Option (CondState K)) (hg : Good so w) (hrel : RelC w cid vc) :
    (stepCondNew w.dicts vc (.eval cid ((stepS w (.eval cid fresh)).2.used.getD fresh))).2 =
        (stepS w (.eval cid fresh)).2.out ∧
      RelC (stepS w (.eval cid fresh)).1 cid
        (stepCondNew w.dicts vc (.eval cid ((stepS w (.eval cid fresh)).2.used.getD fresh))).1 := by
  rcases hrel with ⟨h1, h2⟩ | ⟨c, c', s, hwc, hvc, hspec, hspace, hs, hstat, hcache⟩
  · subst h2
    simp only [stepS, h1, stepCondNew]
    exact ⟨trivial, Or.inl ⟨h1, rfl⟩⟩
  · subst hvc
    -- what the private sampler hands out
    have hdraw : ∃ cache'', drawPoints c'.static c'.cache (s.draw fresh).1 = ((s.draw fresh).1, cache'') ∧
        (c'.static = true → ∀ p, cache'' = some p → (s.draw fresh).2.2.cache = some p) := by
      cases hst : c'.static with
      | false => exact ⟨none, by simp [drawPoints], fun h => by cases h⟩
      | true =>
        obtain ⟨a, b⟩ := shouldPreEval_true (hstat ▸ hst)
        cases hcc : c'.cache with
        | none =>
          refine ⟨some (s.draw fresh).1, by simp [drawPoints], ?_⟩
          intro _ p hp
          rw [draw_static_cache s fresh a, ← hp]
        | some p =>
          have hsp := hcache hst p hcc
          have hk := draw_keep s fresh p a b hsp (hg.ne c.sid s p hs hsp)
          refine ⟨some p, by simp [drawPoints, hk], ?_⟩
          intro _ q hq
          rw [hk, ← hq]; exact hsp
    obtain ⟨cache'', hdp, hcache''⟩ := hdraw
    have hrel' : ∀ (w' : WorldS K) (c'' : CondState K), w'.conds cid = some c →
        w'.samplers c.sid = some (s.draw fresh).2.2 → c''.spec = c.spec → c''.space = c.space →
        c''.static = c'.static → c''.cache = cache'' → RelC w' cid (some c'') := by
      intro w' c'' h1 h2 h3 h4 h5 h6
      refine Or.inr ⟨c, c'', _, h1, rfl, h3, h4, h2, ?_, ?_⟩
      · rw [draw_static, draw_interval, h5]; exact hstat
      · rw [h5, h6]; exact hcache''
    cases hl : smLoss c.spec c.space (s.draw fresh).1 with
    | ok l =>
      have e : stepS w (.eval cid fresh) =
          (setSampler w c.sid (s.draw fresh).2.2, ⟨some cid, .loss l, some (s.draw fresh).1⟩) := by
        simp only [stepS, hwc, hs, hl]
      rw [e]
      simp only [Option.getD_some, stepCondNew, hdp, hspec, hspace, hl]
      exact ⟨trivial, hrel' (setSampler w c.sid (s.draw fresh).2.2) _ hwc (by simp [setSampler]) rfl rfl rfl rfl⟩
    | error err =>
      have e : stepS w (.eval cid fresh) =
          (setSampler w c.sid (s.draw fresh).2.2, ⟨some cid, .failed err, some (s.draw fresh).1⟩) := by
        simp only [stepS, hwc, hs, hl]
      rw [e]
      simp only [Option.getD_some, stepCondNew, hdp, hspec, hspace, hl]
      exact ⟨trivial, hrel' (setSampler w c.sid (s.draw fresh).2.2) _ hwc (by simp [setSampler]) rfl rfl rfl rfl⟩

theorem relC_setCondS (w : WorldS K) (cid : Nat) (c : CondS K) (c' : CondState K) (s : SamplerSt K)
    (hspec : c'.spec = c.spec) (hspace : c'.space = c.space) (hs : w.samplers c.sid = some s)
    (hstat : c'.static = shouldPreEval s.static s.interval)
    (hcache : c'.static = true → ∀ p, c'.cache = some p → s.cache = some p) :
    RelC (setCondS w cid c) cid (some c') :=
  Or.inr ⟨c, c', s, by simp [setCondS], rfl, hspec, hspace, hs, hstat, hcache⟩

/-- a CONSTRUCTION of `cid` on the existing sampler `sid`: the private construction with a static sampler
    exactly when the shared one pre-evaluates, handed the set used in company, builds the same condition -/
theorem sim_construct (so : Nat → Option (Bool × Option Nat)) (w : WorldS K) (cid dictRef : Nat) (spec : SMCond K)
    (space : SpaceL) (sid : Nat) (fresh : List (List K)) (s : SamplerSt K) (vc : Option (CondState K))
    (hg : Good so w) (hrel : RelC w cid vc) (hs : w.samplers sid = some s) :
    (stepCondNew w.dicts vc (.construct cid dictRef spec space (shouldPreEval s.static s.interval)
        ((stepS w (.construct cid dictRef spec space sid fresh)).2.used.getD fresh))).2 =
      (stepS w (.construct cid dictRef spec space sid fresh)).2.out ∧
    RelC (stepS w (.construct cid dictRef spec space sid fresh)).1 cid
      (stepCondNew w.dicts vc (.construct cid dictRef spec space (shouldPreEval s.static s.interval)
        ((stepS w (.construct cid dictRef spec space sid fresh)).2.used.getD fresh))).1 := by
  cases hd : w.dicts[dictRef]? with
  | none =>
    have e : stepS w (.construct cid dictRef spec space sid fresh) = (w, ⟨some cid, .failed .user, none⟩) := by
      simp only [stepS, hd]
    rw [e]
    simp only [stepCondNew, hd]
    exact ⟨trivial, hrel⟩
  | some d =>
    cases hpre : shouldPreEval s.static s.interval with
    | false =>
      cases hse : setupEntries space false [] d with
      | error err =>
        have e : stepS w (.construct cid dictRef spec space sid fresh) = (w, ⟨some cid, .failed err, none⟩) := by
          simp [stepS, hd, hs, hpre, hse]
        rw [e]
        simp only [stepCondNew, hd, Option.getD_none, setupEntries_false space fresh d, hse]
        exact ⟨trivial, hrel⟩
      | ok own =>
        have e : stepS w (.construct cid dictRef spec space sid fresh) =
            (setCondS w cid ⟨{ spec with dataFns := own }, dictRef, space, sid⟩, ⟨some cid, .constructed, none⟩) := by
          simp [stepS, hd, hs, hpre, hse]
        rw [e]
        simp only [stepCondNew, hd, Option.getD_none, setupEntries_false space fresh d, hse]
        refine ⟨trivial, relC_setCondS w cid _ _ s rfl rfl hs (by simp [hpre]) (fun h => by simp at h)⟩
    | true =>
      obtain ⟨hst, _⟩ := shouldPreEval_true hpre
      cases hde : d.isEmpty with
      | true =>
        have hnil : d = [] := by simpa using hde
        subst hnil
        have e : stepS w (.construct cid dictRef spec space sid fresh) =
            (setCondS w cid ⟨{ spec with dataFns := [] }, dictRef, space, sid⟩, ⟨some cid, .constructed, none⟩) := by
          simp [stepS, hd, hs, hpre, setupEntries, pure, Except.pure]
        rw [e]
        simp only [stepCondNew, hd, Option.getD_none, setupEntries, List.mapM_nil, pure, Except.pure,
          List.isEmpty_nil, Bool.not_true, Bool.and_false, Bool.false_eq_true, if_false]
        refine ⟨trivial, relC_setCondS w cid _ _ s rfl rfl hs (by simp [hpre]) (fun _ p hp => by simp at hp)⟩
      | false =>
        cases hse : setupEntries space true (s.draw fresh).1 d with
        | error err =>
          have e : stepS w (.construct cid dictRef spec space sid fresh) =
              (setSampler w sid (s.draw fresh).2.2, ⟨some cid, .failed err, some (s.draw fresh).1⟩) := by
            simp [stepS, hd, hs, hpre, hde, hse]
          rw [e]
          simp only [stepCondNew, hd, Option.getD_some, hse]
          exact ⟨trivial, relC_draw so w cid sid s fresh vc hg hrel hs⟩
        | ok own =>
          have e : stepS w (.construct cid dictRef spec space sid fresh) =
              (setCondS (setSampler w sid (s.draw fresh).2.2) cid ⟨{ spec with dataFns := own }, dictRef, space, sid⟩,
                ⟨some cid, .constructed, some (s.draw fresh).1⟩) := by
            simp [stepS, hd, hs, hpre, hde, hse]
          rw [e]
          simp only [stepCondNew, hd, Option.getD_some, hse, hde, Bool.not_false, Bool.and_true, if_true]
          refine ⟨trivial, relC_setCondS _ cid _ _ (s.draw fresh).2.2 rfl rfl (by simp [setSampler])
            (by rw [draw_static, draw_interval, hpre]) (fun _ p hp => ?_)⟩
          simp only [Option.some.injEq] at hp
          rw [draw_static_cache s fresh hst, hp]

theorem outsOfS_cons (cid : Nat) (r : Rec K) (recs : List (Rec K)) :
    outsOfS cid (r :: recs) = if r.cid = some cid then r.out :: outsOfS cid recs else outsOfS cid recs := by
  simp only [outsOfS, List.filter_cons, beq_iff_eq]
  split <;> rfl

theorem outsOf_cons (cid c : Nat) (o : Out K) (rest : List (Nat × Out K)) :
    outsOf cid ((c, o) :: rest) = if c = cid then o :: outsOf cid rest else outsOf cid rest := by
  simp only [outsOf, List.filter_cons, beq_iff_eq]
  split <;> rfl

theorem runS_cons (w : WorldS K) (op : OpS K) (ops : List (OpS K)) :
    runS w (op :: ops) = ((runS (stepS w op).1 ops).1, (stepS w op).2 :: (runS (stepS w op).1 ops).2) := rfl

theorem runNew_cons (v : World K) (op : Op K) (ops : List (Op K)) :
    runNew v (op :: ops) =
      ((runNew (stepNew v op).1 ops).1, (op.cid, (stepNew v op).2) :: (runNew (stepNew v op).1 ops).2) := rfl

/-- an own operation in the private world: outputs and the condition's new state are those of `stepCondNew` -/
theorem stepNew_own_eq (v : World K) (op : Op K) :
    (stepNew v op).2 = (stepCondNew v.dicts (v.conds op.cid) op).2 ∧
    (stepNew v op).1.conds op.cid = (stepCondNew v.dicts (v.conds op.cid) op).1 ∧
    (stepNew v op).1.dicts = v.dicts := by
  simp [stepNew, setConds]

/-- the simulation over a whole history, from related worlds -/
theorem sim_run (cid : Nat) (so : Nat → Option (Bool × Option Nat)) :
    ∀ (ops : List (OpS K)) (w : WorldS K) (v : World K) (ex : Nat → Bool),
    v.dicts = w.dicts → (∀ j, ex j = (w.samplers j).isSome) → wfS ex ops = true →
    (∀ j st iv, OpS.mkSampler j st iv ∈ ops → so j = some (st, iv)) → freshNonempty ops = true →
    Good so w → RelC w cid (v.conds cid) →
    outsOfS cid (runS w ops).2 = outsOf cid (runNew v (replay cid so ops (runS w ops).2)).2
  | [], _, _, _, _, _, _, _, _, _, _ => rfl
  | op :: ops, w, v, ex, hd, hex, hwf, hdecl, hf, hg, hrel => by
    obtain ⟨hf₁, hf₂⟩ := freshNonempty_cons op ops hf
    have hg' : Good so (stepS w op).1 :=
      good_step so w op hg (fun j st iv e => hdecl j st iv (e ▸ List.mem_cons_self ..)) hf₁
    have hdecl' : ∀ j st iv, OpS.mkSampler j st iv ∈ ops → so j = some (st, iv) :=
      fun j st iv h => hdecl j st iv (List.mem_cons_of_mem _ h)
    have hd' : v.dicts = (stepS w op).1.dicts := hd.trans (stepS_dicts w op).symm
    rw [runS_cons]
    dsimp only
    -- an operation that is not `cid`'s
    have other : op.cid? ≠ some cid → (∀ j st iv, op = .mkSampler j st iv → w.samplers j = none) →
        (∀ ex', (∀ j, ex' j = ((stepS w op).1.samplers j).isSome) → wfS ex' ops = true →
          replay cid so (op :: ops) ((stepS w op).2 :: (runS (stepS w op).1 ops).2) =
            replay cid so ops (runS (stepS w op).1 ops).2 →
          outsOfS cid ((stepS w op).2 :: (runS (stepS w op).1 ops).2) =
            outsOf cid (runNew v (replay cid so (op :: ops) ((stepS w op).2 :: (runS (stepS w op).1 ops).2))).2) := by
      intro hc hmk ex' hex' hwf' hrep
      have hrel' := relC_other so w op cid _ hg hrel hc hmk
      have ih := sim_run cid so ops (stepS w op).1 v ex' hd' hex' hwf' hdecl' hf₂ hg' hrel'
      rw [hrep, outsOfS_cons, stepS_rec_cid, if_neg hc]
      exact ih
    cases op with
    | mkSampler sid st iv =>
      simp only [wfS, Bool.and_eq_true, Bool.not_eq_true'] at hwf
      have hnone : w.samplers sid = none := by
        have := hex sid
        rw [hwf.1] at this
        simpa using this.symm
      refine other (by simp [OpS.cid?]) (fun j st' iv' e => by cases e; exact hnone) _ ?_ hwf.2 (by simp only [replay])
      intro j
      simp only [stepS, setSampler]
      by_cases e : j = sid
      · simp [e]
      · simp [e, hex j]
    | construct c dictRef spec space sid fresh =>
      simp only [wfS, Bool.and_eq_true] at hwf
      by_cases hc : c = cid
      · subst hc
        obtain ⟨s, hs⟩ : ∃ s, w.samplers sid = some s := by
          have := hex sid
          rw [hwf.1] at this
          exact Option.isSome_iff_exists.mp this.symm
        have hso := hg.decl sid s hs
        obtain ⟨h1, h2⟩ := sim_construct so w c dictRef spec space sid fresh s (v.conds c) hg hrel hs
        have hrep : replay c so (.construct c dictRef spec space sid fresh :: ops)
            ((stepS w (.construct c dictRef spec space sid fresh)).2 ::
              (runS (stepS w (.construct c dictRef spec space sid fresh)).1 ops).2) =
            Op.construct c dictRef spec space (shouldPreEval s.static s.interval)
              ((stepS w (.construct c dictRef spec space sid fresh)).2.used.getD fresh) ::
            replay c so ops (runS (stepS w (.construct c dictRef spec space sid fresh)).1 ops).2 := by
          simp only [replay, if_true, hso]
        rw [hrep, runNew_cons, outsOfS_cons, stepS_rec_cid, outsOf_cons]
        simp only [OpS.cid?, Op.cid, if_true]
        obtain ⟨e1, e2, e3⟩ := stepNew_own_eq v (Op.construct c dictRef spec space (shouldPreEval s.static s.interval)
              ((stepS w (.construct c dictRef spec space sid fresh)).2.used.getD fresh))
        simp only [Op.cid] at e1 e2
        rw [hd] at e1 e2
        rw [e1, h1]
        congr 1
        refine sim_run c so ops _ _ ex (e3.trans hd') ?_ hwf.2 hdecl' hf₂ hg' (by rw [e2]; exact h2)
        intro j
        rw [stepS_isSome w _ (by intro j st iv h; cases h) j]
        exact hex j
      · refine other (by simp [OpS.cid?, hc]) (fun j st' iv' e => by cases e) ex ?_ hwf.2
          (by simp only [replay, if_neg hc])
        intro j
        rw [stepS_isSome w _ (by intro j st iv h; cases h) j]
        exact hex j
    | eval c fresh =>
      simp only [wfS] at hwf
      by_cases hc : c = cid
      · subst hc
        obtain ⟨h1, h2⟩ := sim_eval so w c fresh (v.conds c) hg hrel
        have hrep : replay c so (.eval c fresh :: ops)
            ((stepS w (.eval c fresh)).2 :: (runS (stepS w (.eval c fresh)).1 ops).2) =
            Op.eval c ((stepS w (.eval c fresh)).2.used.getD fresh) ::
            replay c so ops (runS (stepS w (.eval c fresh)).1 ops).2 := by
          simp only [replay, if_true]
        rw [hrep, runNew_cons, outsOfS_cons, stepS_rec_cid, outsOf_cons]
        simp only [OpS.cid?, Op.cid, if_true]
        obtain ⟨e1, e2, e3⟩ := stepNew_own_eq v (Op.eval c ((stepS w (.eval c fresh)).2.used.getD fresh))
        simp only [Op.cid] at e1 e2
        rw [hd] at e1 e2
        rw [e1, h1]
        congr 1
        refine sim_run c so ops _ _ ex (e3.trans hd') ?_ hwf hdecl' hf₂ hg' (by rw [e2]; exact h2)
        intro j
        rw [stepS_isSome w _ (by intro j st iv h; cases h) j]
        exact hex j
      · refine other (by simp [OpS.cid?, hc]) (fun j st' iv' e => by cases e) ex ?_ hwf
          (by simp only [replay, if_neg hc])
        intro j
        rw [stepS_isSome w _ (by intro j st iv h; cases h) j]
        exact hex j

theorem wfS_mk_notex : ∀ (ops : List (OpS K)) (ex : Nat → Bool), wfS ex ops = true →
    ∀ j st iv, OpS.mkSampler j st iv ∈ ops → ex j = false
  | [], _, _, _, _, _, h => by simp at h
  | .mkSampler sid st' iv' :: ops, ex, hwf, j, st, iv, h => by
    simp only [wfS, Bool.and_eq_true, Bool.not_eq_true'] at hwf
    rcases List.mem_cons.mp h with e | h
    · cases e; exact hwf.1
    · have := wfS_mk_notex ops _ hwf.2 j st iv h
      simp only [Bool.or_eq_false_iff] at this
      exact this.2
  | .construct .. :: ops, ex, hwf, j, st, iv, h => by
    simp only [wfS, Bool.and_eq_true] at hwf
    rcases List.mem_cons.mp h with e | h
    · cases e
    · exact wfS_mk_notex ops ex hwf.2 j st iv h
  | .eval .. :: ops, ex, hwf, j, st, iv, h => by
    simp only [wfS] at hwf
    rcases List.mem_cons.mp h with e | h
    · cases e
    · exact wfS_mk_notex ops ex hwf j st iv h

/-- in a well-formed history `samplerDecl` is the kind every sampler object is created with -/
theorem wfS_decl : ∀ (ops : List (OpS K)) (ex : Nat → Bool), wfS ex ops = true →
    ∀ j st iv, OpS.mkSampler j st iv ∈ ops → samplerDecl ops j = some (st, iv)
  | [], _, _, _, _, _, h => by simp at h
  | .mkSampler sid st' iv' :: ops, ex, hwf, j, st, iv, h => by
    simp only [wfS, Bool.and_eq_true, Bool.not_eq_true'] at hwf
    rcases List.mem_cons.mp h with e | h
    · cases e; simp [samplerDecl]
    · have hne := wfS_mk_notex ops _ hwf.2 j st iv h
      simp only [Bool.or_eq_false_iff, beq_eq_false_iff_ne] at hne
      simp only [samplerDecl, if_neg hne.1]
      exact wfS_decl ops _ hwf.2 j st iv h
  | .construct .. :: ops, ex, hwf, j, st, iv, h => by
    simp only [wfS, Bool.and_eq_true] at hwf
    rcases List.mem_cons.mp h with e | h
    · cases e
    · simp only [samplerDecl]; exact wfS_decl ops ex hwf.2 j st iv h
  | .eval .. :: ops, ex, hwf, j, st, iv, h => by
    simp only [wfS] at hwf
    rcases List.mem_cons.mp h with e | h
    · cases e
    · simp only [samplerDecl]; exact wfS_decl ops ex hwf j st iv h

/-- **(B) ISOLATION GIVEN THE POINTS, all histories.**  `w` is any world without sampler objects and
    without conditions (e.g. `WorldS.init dicts`).  For EVERY history `ops` — any number of sampler objects of
    all three kinds (plain, static with a finite resample interval, static never resampling), any number of
    conditions on each of them, any sharing of user dicts, any order, conditions may be constructed again —
    and every condition `cid`: the outputs of `cid` in company are exactly the outputs of `cid` when ONLY
    its own operations are run in the private-sampler world of `CondWorld.lean` (`runNew`), its private
    sampler (static exactly when the shared one pre-evaluates) being handed the point sets `cid` was given
    in company (`replay`); and no user dict is changed.
    Hypotheses (all decidable predicates on the history):
    * `wfS (fun _ => false) ops` — every sampler object is created by `mkSampler` before it is named by a
      construction, and no id is created twice;
    * `freshNonempty ops` — the underlying samplers never draw an empty set. -/
theorem isolation_shared (w : WorldS K) (hws : ∀ j, w.samplers j = none) (hwc : ∀ j, w.conds j = none)
    (ops : List (OpS K)) (cid : Nat) (hwf : wfS (fun _ => false) ops = true) (hf : freshNonempty ops = true) :
    outsOfS cid (runS w ops).2 =
      outsOf cid (runNew (⟨w.dicts, fun _ => none⟩ : World K) (replay cid (samplerDecl ops) ops (runS w ops).2)).2 ∧
    (runS w ops).1.dicts = w.dicts := by
  refine ⟨?_, runS_dicts ops w⟩
  refine sim_run cid (samplerDecl ops) ops w ⟨w.dicts, fun _ => none⟩ (fun _ => false) rfl
    (fun j => by rw [hws j]; rfl) hwf (wfS_decl ops _ hwf) hf ⟨?_, ?_⟩ (Or.inl ⟨hwc cid, rfl⟩)
  · intro sid s hs; rw [hws sid] at hs; cases hs
  · intro sid s p hs; rw [hws sid] at hs; cases hs

/-- (B) from the initial world -/
theorem isolation_shared_init (dicts : List (UDict K)) (ops : List (OpS K)) (cid : Nat)
    (hwf : wfS (fun _ => false) ops = true) (hf : freshNonempty ops = true) :
    outsOfS cid (runS (WorldS.init dicts) ops).2 =
      outsOf cid (runNew (World.init dicts) (replay cid (samplerDecl ops) ops (runS (WorldS.init dicts) ops).2)).2 ∧
    (runS (WorldS.init dicts) ops).1.dicts = dicts :=
  isolation_shared (WorldS.init dicts) (fun _ => rfl) (fun _ => rfl) ops cid hwf hf

/-- (A) for a sampler object created in the history: after `mkSampler sid true none` (static, never
    resampling) every operation of every condition on `sid` uses the FIRST set used on it -/
theorem shared_static_same_points_new (w : WorldS K) (sid : Nat) (ops : List (OpS K))
    (hno : noMk sid ops = true) (hf : freshNonempty ops = true) :
    ∀ q ∈ usedOn sid w (.mkSampler sid true none :: ops),
      some q = (usedOn sid w (.mkSampler sid true none :: ops)).head? := by
  have e : usedOn sid w (.mkSampler sid true none :: ops) =
      usedOn sid (stepS w (.mkSampler sid true none)).1 ops := by
    simp [usedOn, opSid]
  rw [e]
  have := shared_static_same_points ops (stepS w (.mkSampler sid true none)).1 sid
    ⟨true, none, 0, none⟩ (by simp [stepS, setSampler]) rfl rfl (fun p h => by cases h) hno hf
  simpa using this

end shared

/-! ## (C) composition with C15: a shared static sampler with `resample_interval = k` -/

section c15
open TPV.SamplerState (sample run ids static0 sample_draw sample_cached static_trace run_sample_cons)
variable {K : Type}

theorem ltIv_eq (c : Nat) (iv : Option Nat) : ltIv c iv = SamplerState.ltInterval c iv := by
  cases iv <;> rfl

/-- a sampler object of this model and a state of C15's static-sampler machine correspond: same counter,
    same interval, something cached on both sides or on neither, all point sets non-empty -/
def Corr (s : SamplerSt K) (w : SamplerState.World) : Prop :=
  s.static = true ∧ w.nonempty = true ∧ (∀ p, s.cache = some p → p.isEmpty = false) ∧
  ∃ st, w.static = some st ∧ st.counter = s.counter ∧ st.interval = s.interval ∧
    st.cached.isSome = s.cache.isSome

/-- SIMULATION, one call: from corresponding states a `sample_points()` call asks the underlying sampler
    exactly when C15's machine draws, and the states correspond again -/
theorem draw_sim (s : SamplerSt K) (w : SamplerState.World) (f : List (List K)) (d : Nat) (h : Corr s w)
    (hf : f.isEmpty = false) :
    (s.draw f).2.1 = (sample d w).2.drawn ∧ Corr (s.draw f).2.2 (sample d w).1 := by
  obtain ⟨hst, hne, hcne, st, hw, hcnt, hiv, hsome⟩ := h
  cases hc : s.cache with
  | none =>
    have hcc : st.cached = none := by
      rw [hc] at hsome; simpa using hsome
    rw [draw_first s f hst hc, sample_draw d hw (Or.inl hcc)]
    refine ⟨rfl, hst, hne, ?_, ⟨0, some w.fresh, st.interval⟩, rfl, rfl, hiv, rfl⟩
    intro p hp; simp only [Option.some.injEq] at hp; exact hp ▸ hf
  | some p =>
    obtain ⟨q, hcc⟩ : ∃ q, st.cached = some q := by
      rw [hc] at hsome; exact Option.isSome_iff_exists.mp hsome
    have hp := hcne p hc
    cases hb : ltIv (s.counter + 1) s.interval with
    | true =>
      have e1 : s.draw f = (p, false, { s with counter := s.counter + 1 }) := by
        simp [draw_def, hst, hc, hp, hb]
      have e2 := sample_cached (w := w) (s := st) (p := q) d hw hcc
        (by rw [hne, hcnt, hiv, ← ltIv_eq, hb]; rfl)
      rw [e1, e2]
      exact ⟨rfl, hst, hne, hcne, ⟨st.counter + 1, some q, st.interval⟩, rfl, by simp [hcnt], hiv, by simp [hc]⟩
    | false =>
      have e1 : s.draw f = (f, true, { s with counter := 0, cache := some f }) := by
        simp [draw_def, hst, hc, hp, hb]
      have e2 := sample_draw (w := w) (s := st) d hw
        (Or.inr (by rw [hne, hcnt, hiv, ← ltIv_eq, hb]; rfl))
      rw [e1, e2]
      refine ⟨rfl, hst, hne, ?_, ⟨0, some w.fresh, st.interval⟩, rfl, rfl, hiv, rfl⟩
      intro p hp; simp only [Option.some.injEq] at hp; exact hp ▸ hf

/-- successive `sample_points()` calls on one sampler object: (set returned, underlying sampler asked?) -/
def draws (s : SamplerSt K) : List (List (List K)) → List (List (List K) × Bool)
  | [] => []
  | f :: fs => ((s.draw f).1, (s.draw f).2.1) :: draws (s.draw f).2.2 fs

theorem draws_length : ∀ (fs : List (List (List K))) (s : SamplerSt K), (draws s fs).length = fs.length
  | [], _ => rfl
  | f :: fs, s => by simp [draws, draws_length fs]

def upd (g : Nat → List (List K)) (a : Nat) (v : List (List K)) : Nat → List (List K) :=
  fun x => if x = a then v else g x

/-- correspondence that also names C15's draw numbers by point sets: the cached set is the set named by the
    cached draw number, which is an old draw -/
def CorrG (g : Nat → List (List K)) (s : SamplerSt K) (w : SamplerState.World) : Prop :=
  s.static = true ∧ w.nonempty = true ∧ (∀ p, s.cache = some p → p.isEmpty = false) ∧
  ∃ st, w.static = some st ∧ st.counter = s.counter ∧ st.interval = s.interval ∧
    s.cache = st.cached.map g ∧ ∀ q, st.cached = some q → q < w.fresh

theorem CorrG.corr {g : Nat → List (List K)} {s : SamplerSt K} {w : SamplerState.World} (h : CorrG g s w) :
    Corr s w := by
  obtain ⟨a, b, c, st, d, e, f, hg, _⟩ := h
  exact ⟨a, b, c, st, d, e, f, by rw [hg]; simp⟩

/-- SIMULATION with points, one call: a call that draws returns its `fresh` set, which becomes the name of
    C15's new draw number; a call that does not draw returns the set named by the (old) number C15 returns -/
theorem draw_simG (g : Nat → List (List K)) (s : SamplerSt K) (w : SamplerState.World) (f : List (List K))
    (d : Nat) (h : CorrG g s w) (hf : f.isEmpty = false) :
    ((sample d w).2.drawn = true ∧ (sample d w).2.id = w.fresh ∧ (s.draw f).1 = f ∧
        (sample d w).1.fresh = w.fresh + 1 ∧ CorrG (upd g w.fresh f) (s.draw f).2.2 (sample d w).1) ∨
    ((sample d w).2.drawn = false ∧ (sample d w).2.id < w.fresh ∧ (s.draw f).1 = g (sample d w).2.id ∧
        (sample d w).1.fresh = w.fresh ∧ CorrG g (s.draw f).2.2 (sample d w).1) := by
  obtain ⟨hst, hne, hcne, st, hw, hcnt, hiv, hsg, hlt⟩ := h
  have drawCase : st.cached = none ∨ (w.nonempty && SamplerState.ltInterval (st.counter + 1) st.interval) = false →
      s.draw f = (f, true, { s with counter := 0, cache := some f }) →
      ((sample d w).2.drawn = true ∧ (sample d w).2.id = w.fresh ∧ (s.draw f).1 = f ∧
        (sample d w).1.fresh = w.fresh + 1 ∧ CorrG (upd g w.fresh f) (s.draw f).2.2 (sample d w).1) := by
    intro h1 e1
    rw [e1, sample_draw d hw h1]
    refine ⟨rfl, rfl, rfl, rfl, hst, hne, ?_, ⟨0, some w.fresh, st.interval⟩, rfl, rfl, hiv, by simp [upd], ?_⟩
    · intro p hp; simp only [Option.some.injEq] at hp; exact hp ▸ hf
    · intro q hq
      simp only [Option.some.injEq] at hq
      show q < w.fresh + 1
      omega
  cases hcc : st.cached with
  | none =>
    have hc : s.cache = none := by rw [hsg, hcc]; rfl
    exact Or.inl (drawCase (Or.inl hcc) (draw_first s f hst hc))
  | some q =>
    have hc : s.cache = some (g q) := by rw [hsg, hcc]; rfl
    have hp := hcne _ hc
    cases hb : ltIv (s.counter + 1) s.interval with
    | true =>
      right
      have e1 : s.draw f = (g q, false, { s with counter := s.counter + 1 }) := by
        simp [draw_def, hst, hc, hp, hb]
      have e2 := sample_cached (w := w) (s := st) (p := q) d hw hcc
        (by rw [hne, hcnt, hiv, ← ltIv_eq, hb]; rfl)
      rw [e1, e2]
      refine ⟨rfl, hlt q hcc, rfl, rfl, hst, hne, hcne, ⟨st.counter + 1, some q, st.interval⟩, rfl,
        by simp [hcnt], hiv, hc, ?_⟩
      intro q' hq'; simp only [Option.some.injEq] at hq'; exact hq' ▸ hlt q hcc
    | false =>
      exact Or.inl (drawCase (Or.inr (by rw [hne, hcnt, hiv, ← ltIv_eq, hb]; rfl))
        (by simp [draw_def, hst, hc, hp, hb]))

/-- SIMULATION over any number of calls: the sets a sampler object returns are C15's returned draw numbers,
    renamed by ONE naming `g'` of draw numbers (the set the underlying sampler delivered in that draw);
    the underlying sampler is asked exactly when C15's machine draws -/
theorem draws_simG : ∀ (fs : List (List (List K))) (s : SamplerSt K) (w : SamplerState.World)
    (g : Nat → List (List K)), CorrG g s w → (∀ f ∈ fs, f.isEmpty = false) →
    ∃ g' : Nat → List (List K), (∀ q, q < w.fresh → g' q = g q) ∧
      (draws s fs).map (·.1) = (ids (run w (fs.map fun _ => SamplerState.Op.sample 0))).map g' ∧
      (draws s fs).map (·.2) = (run w (fs.map fun _ => SamplerState.Op.sample 0)).map (·.drawn)
  | [], s, w, g, _, _ => ⟨g, fun _ _ => rfl, rfl, rfl⟩
  | f :: fs, s, w, g, h, hne => by
    have hf := hne f (List.mem_cons_self ..)
    have hne' : ∀ f' ∈ fs, f'.isEmpty = false := fun f' hf' => hne f' (List.mem_cons_of_mem _ hf')
    simp only [List.map_cons, run_sample_cons, draws, ids]
    rcases draw_simG g s w f 0 h hf with ⟨hd, hid, hpts, hfr, hcorr⟩ | ⟨hd, hid, hpts, hfr, hcorr⟩
    · obtain ⟨g', hag0, h1, h2⟩ := draws_simG fs _ _ _ hcorr hne'
      have hag : ∀ q, q < w.fresh + 1 → g' q = upd g w.fresh f q :=
        fun q hq => hag0 q (by rw [hfr]; exact hq)
      refine ⟨g', ?_, ?_, ?_⟩
      · intro q hq
        rw [hag q (by omega)]
        simp [upd, Nat.ne_of_lt hq]
      · rw [h1, hpts, hid, hag w.fresh (by omega)]
        simp [upd, ids]
      · rw [h2, (draw_sim s w f 0 h.corr hf).1]
    · obtain ⟨g', hag0, h1, h2⟩ := draws_simG fs _ _ _ hcorr hne'
      have hag : ∀ q, q < w.fresh → g' q = g q :=
        fun q hq => hag0 q (by rw [hfr]; exact hq)
      refine ⟨g', hag, ?_, ?_⟩
      · rw [h1, hpts, hag _ hid]
        simp [ids]
      · rw [h2, (draw_sim s w f 0 h.corr hf).1]

/-- **Static sampler object with `resample_interval = k ≥ 1`, starting fresh** (by C15 `static_trace`):
    there is one family of sets `g 0, g 1, …` such that call `j` returns `g (j / k)` — block after block -/
theorem static_interval_trace (k : Nat) (hk : 0 < k) (fs : List (List (List K)))
    (hne : ∀ f ∈ fs, f.isEmpty = false) :
    ∃ g : Nat → List (List K),
      (draws (⟨true, some k, 0, none⟩ : SamplerSt K) fs).map (·.1) = (List.range fs.length).map fun j => g (j / k) := by
  have hcorr : CorrG (fun _ => ([] : List (List K))) (⟨true, some k, 0, none⟩ : SamplerSt K) (static0 (some k)) :=
    ⟨rfl, rfl, fun p h => (by cases h), ⟨0, none, some k⟩, rfl, rfl, rfl, rfl, fun q h => (by cases h)⟩
  obtain ⟨g, _, h1, _⟩ := draws_simG fs _ _ _ hcorr hne
  refine ⟨g, ?_⟩
  have e : (fs.map fun _ => SamplerState.Op.sample 0) = (fs.map fun _ => 0).map SamplerState.Op.sample := by
    rw [List.map_map]; rfl
  rw [h1, e, static_trace k hk, List.length_map, List.map_map]
  rfl

/-- calls `j`, `j'` in the same block (`j / k = j' / k`) return the SAME point set -/
theorem static_interval_same_block (k : Nat) (hk : 0 < k) (fs : List (List (List K)))
    (hne : ∀ f ∈ fs, f.isEmpty = false) (j j' : Nat) (hj : j < fs.length) (hj' : j' < fs.length)
    (hb : j / k = j' / k) :
    ∃ p a a', (draws (⟨true, some k, 0, none⟩ : SamplerSt K) fs)[j]? = some (p, a) ∧
      (draws (⟨true, some k, 0, none⟩ : SamplerSt K) fs)[j']? = some (p, a') := by
  obtain ⟨g, hg⟩ := static_interval_trace k hk fs hne
  have h1 := congrArg (·[j]?) hg
  have h2 := congrArg (·[j']?) hg
  simp only [List.getElem?_map, List.getElem?_range hj, List.getElem?_range hj', Option.map_some] at h1 h2
  have l1 : j < (draws (⟨true, some k, 0, none⟩ : SamplerSt K) fs).length := by rw [draws_length]; exact hj
  have l2 : j' < (draws (⟨true, some k, 0, none⟩ : SamplerSt K) fs).length := by rw [draws_length]; exact hj'
  rw [List.getElem?_eq_getElem l1] at h1 ⊢
  rw [List.getElem?_eq_getElem l2] at h2 ⊢
  simp only [Option.map_some, Option.some.injEq] at h1 h2
  refine ⟨g (j / k), (draws (⟨true, some k, 0, none⟩ : SamplerSt K) fs)[j].2,
    (draws (⟨true, some k, 0, none⟩ : SamplerSt K) fs)[j'].2, ?_, ?_⟩
  · rw [← h1]
  · rw [hb, ← h2]

end c15

/-! ### which set a block uses: the `fresh` argument of the block's first call -/

section blockstart
open TPV.SamplerState (sample run ids static0 static_trace run_sample_cons Inv Inv_sample sample_cases sample_static0)
variable {K : Type}

/-- C15 side: under C15's invariant a call draws exactly when it returns a set different from the last one -/
theorem drawn_iff_new {f0 : Nat} {w : SamplerState.World} {h : List Nat} {last : Nat} (d : Nat)
    (hi : Inv f0 w h) (hl : h.getLast? = some last) :
    (sample d w).2.drawn = (last != (sample d w).2.id) := by
  obtain ⟨hne, st, hs, hm⟩ := hi
  rw [hl] at hm
  obtain ⟨hc, hf, _⟩ := hm
  rcases (sample_cases w d).2 with ⟨a, b, _⟩ | ⟨a, _, st', hs', hc'⟩
  · rw [a, b, hf]; simp
  · rw [hs] at hs'; cases hs'; rw [hc] at hc'; cases hc'; rw [a]; simp

theorem flags_of_ids (f0 : Nat) : ∀ (devs : List Nat) (w : SamplerState.World) (h : List Nat) (last : Nat),
    Inv f0 w h → h.getLast? = some last →
    (run w (devs.map SamplerState.Op.sample)).map (·.drawn) =
      List.zipWith (· != ·) (last :: ids (run w (devs.map SamplerState.Op.sample)))
        (ids (run w (devs.map SamplerState.Op.sample)))
  | [], _, _, _, _, _ => by simp [run, ids]
  | d :: devs, w, h, last, hi, hl => by
    have ih := flags_of_ids f0 devs (sample d w).1 (h ++ [(sample d w).2.id]) (sample d w).2.id
      (Inv_sample d hi).2.1 (by simp)
    rw [List.map_cons, run_sample_cons]
    simp only [ids, List.map_cons, List.zipWith_cons_cons] at ih ⊢
    rw [drawn_iff_new d hi hl, ih]

/-- C15 side (`static_trace` + `Inv_sample` + `sample_cases`): the first call of every block draws -/
theorem block_start_drawn (k : Nat) (hk : 0 < k) (devs : List Nat) (q : Nat) (hq : q * k < devs.length) :
    ((run (static0 (some k)) (devs.map SamplerState.Op.sample)).map (·.drawn))[q * k]? = some true := by
  cases devs with
  | nil => simp at hq
  | cons d devs =>
    have hi0 : Inv 0 (static0 (some k)) [] := ⟨rfl, ⟨0, none, some k⟩, rfl, by simp [static0]⟩
    have hi1 := (Inv_sample d hi0).2.1
    have htr := static_trace k hk (d :: devs)
    rw [List.map_cons, run_sample_cons] at htr ⊢
    have hfl := flags_of_ids 0 devs _ _ (sample d (static0 (some k))).2.id hi1 (by simp)
    have e0 : sample d (static0 (some k)) = (⟨1, true, some ⟨0, some 0, some k⟩⟩, ⟨0, d, true⟩) :=
      sample_static0 (some k) 0 d true
    cases q with
    | zero => simp [e0]
    | succ q' =>
      obtain ⟨i, hi⟩ : ∃ i, (q' + 1) * k = i + 1 := ⟨(q' + 1) * k - 1, by
        have : 0 < (q' + 1) * k := Nat.mul_pos (Nat.succ_pos _) hk
        omega⟩
      have hdiv1 : i / k = q' := Nat.div_eq_of_lt_le (by rw [Nat.succ_mul] at hi; omega) (by omega)
      have hdiv2 : (i + 1) / k = q' + 1 := by rw [← hi]; exact Nat.mul_div_cancel _ hk
      rw [hi] at hq ⊢
      simp only [List.length_cons] at hq htr
      have h1 := congrArg (·[i]?) htr
      have h2 := congrArg (·[i + 1]?) htr
      simp only [ids, List.map_cons, List.getElem?_map, List.getElem?_range (show i < devs.length + 1 by omega),
        List.getElem?_range hq, Option.map_some, List.getElem?_cons_succ] at h1 h2
      simp only [List.map_cons, List.getElem?_cons_succ]
      rw [hfl, List.getElem?_zipWith]
      simp only [ids]
      rw [h1, List.getElem?_map, h2, hdiv1, hdiv2]
      simp

/-- a call that asks the underlying sampler returns what it delivers -/
theorem draw_asked (s : SamplerSt K) (f : List (List K)) (h : (s.draw f).2.1 = true) : (s.draw f).1 = f := by
  by_cases hst : s.static = true
  · cases hc : s.cache with
    | none => rw [draw_first s f hst hc]
    | some pts =>
      cases hb : (!pts.isEmpty && ltIv (s.counter + 1) s.interval) with
      | true =>
        have e : s.draw f = (pts, false, { s with counter := s.counter + 1 }) := by
          simp only [draw_def, hst, hc, hb, if_true]
        rw [e] at h
        cases h
      | false =>
        have e : s.draw f = (f, true, { s with counter := 0, cache := some f }) := by
          simp only [draw_def, hst, hc, hb, if_true, Bool.false_eq_true, if_false]
        rw [e]
  · simp [draw_def, hst]

theorem draws_asked : ∀ (fs : List (List (List K))) (s : SamplerSt K) (j : Nat) (p : List (List K)),
    (draws s fs)[j]? = some (p, true) → fs[j]? = some p
  | [], _, _, _, h => by simp [draws] at h
  | f :: fs, s, 0, p, h => by
    simp only [draws, List.getElem?_cons_zero, Option.some.injEq, Prod.mk.injEq] at h ⊢
    rw [← h.1, draw_asked s f h.2]
  | f :: fs, s, j + 1, p, h => by
    simp only [draws, List.getElem?_cons_succ] at h ⊢
    exact draws_asked fs _ j p h

/-- **Static sampler object with `resample_interval = k ≥ 1`, starting fresh: call `j` returns the set the
    underlying sampler delivered at the FIRST call of `j`'s block, call `(j / k) * k`.**
    (C15 `static_trace` for the blocks, C15 `Inv_sample`/`sample_cases` for "the block's first call draws".) -/
theorem static_interval_points (k : Nat) (hk : 0 < k) (fs : List (List (List K)))
    (hne : ∀ f ∈ fs, f.isEmpty = false) (j : Nat) (hj : j < fs.length) :
    ((draws (⟨true, some k, 0, none⟩ : SamplerSt K) fs).map (·.1))[j]? = fs[j / k * k]? := by
  have hcorr : CorrG (fun _ => ([] : List (List K))) (⟨true, some k, 0, none⟩ : SamplerSt K) (static0 (some k)) :=
    ⟨rfl, rfl, fun p h => (by cases h), ⟨0, none, some k⟩, rfl, rfl, rfl, rfl, fun q h => (by cases h)⟩
  obtain ⟨g, _, _, hflags⟩ := draws_simG fs _ _ _ hcorr hne
  have e : (fs.map fun _ => SamplerState.Op.sample 0) = (fs.map fun _ => 0).map SamplerState.Op.sample := by
    rw [List.map_map]; rfl
  have hle : j / k * k ≤ j := Nat.div_mul_le_self j k
  have hj0 : j / k * k < fs.length := by omega
  -- the block's first call draws …
  have hstart := block_start_drawn k hk (fs.map fun _ => 0) (j / k) (by rw [List.length_map]; exact hj0)
  rw [← e, ← hflags] at hstart
  -- … hence returns its own `fresh`; and `j` returns the same set as the block's first call
  obtain ⟨p, a, a', h1, h2⟩ := static_interval_same_block k hk fs hne j (j / k * k) hj hj0
    (by rw [Nat.mul_div_cancel _ hk])
  rw [List.getElem?_map, h2] at hstart
  simp only [Option.map_some, Option.some.injEq] at hstart
  subst hstart
  rw [List.getElem?_map, h1, draws_asked fs _ _ p h2]
  rfl

end blockstart

section repeatable
variable {K : Type} [Add K] [Sub K] [Mul K] [Neg K] [Div K] [OfNat K 0] [NatCast K] [LT K] [DecidableLT K]

def outOfLoss : Except Err K → Out K
  | .ok l => .loss l
  | .error e => .failed e

/-- what an evaluation of `cid` on the point set `pts` returns in world `w` -/
def evalOut (w : WorldS K) (cid : Nat) (pts : List (List K)) : Out K :=
  match w.conds cid with
  | some c => outOfLoss (smLoss c.spec c.space pts)
  | none => .noSuchCondition

theorem stepS_eval_eq (w : WorldS K) (cid : Nat) (f : List (List K)) (c : CondS K) (s : SamplerSt K)
    (hc : w.conds cid = some c) (hs : w.samplers c.sid = some s) :
    stepS w (.eval cid f) =
      (setSampler w c.sid (s.draw f).2.2, ⟨some cid, evalOut w cid (s.draw f).1, some (s.draw f).1⟩) := by
  simp only [stepS, hc, hs, evalOut]
  cases smLoss c.spec c.space (s.draw f).1 <;> rfl

/-- a history of evaluations of conditions that all sit on the sampler object `sid`: the records are the
    successive `sample_points()` calls of that ONE object (`draws`), each condition's loss on the set it got -/
theorem runS_evals (sid : Nat) : ∀ (evs : List (Nat × List (List K))) (w : WorldS K) (s : SamplerSt K),
    w.samplers sid = some s → (∀ e ∈ evs, ∃ c, w.conds e.1 = some c ∧ c.sid = sid) →
    (runS w (evs.map fun e => OpS.eval e.1 e.2)).2 =
      List.zipWith (fun e d => (⟨some e.1, evalOut w e.1 d.1, some d.1⟩ : Rec K)) evs (draws s (evs.map (·.2)))
  | [], _, _, _, _ => rfl
  | e :: evs, w, s, hs, hsid => by
    obtain ⟨c, hc, hcs⟩ := hsid e (List.mem_cons_self ..)
    subst hcs
    have ih := runS_evals c.sid evs (setSampler w c.sid (s.draw e.2).2.2) (s.draw e.2).2.2
      (by simp [setSampler]) (fun e' he' => hsid e' (List.mem_cons_of_mem _ he'))
    simp only [List.map_cons, runS_cons, stepS_eval_eq w e.1 e.2 c s hc hs, draws, List.zipWith_cons_cons]
    rw [ih]
    rfl

/-- **(C) REPEATABILITY BETWEEN RESAMPLES** (`resample_interval = k ≥ 1`).  `sid` is a static sampler object
    with interval `k` that has not been called yet (as `mkSampler sid true (some k)` leaves it; constructions
    on it do not call it, because nothing is pre-evaluated for a resampling sampler).  Any number of
    conditions sit on it and are evaluated in any order (`evs`: condition, set the underlying sampler would
    draw; no construction in between).  Then two evaluations of the same condition at sampler calls `j`, `j'`
    of the same block (`j / k = j' / k`) got the SAME point set and returned the SAME loss.
    Composition: `draws_simG` ties the object to C15's state machine, C15 `static_trace` gives the blocks. -/
theorem static_interval_repeatable (w : WorldS K) (sid k : Nat) (hk : 0 < k)
    (hs : w.samplers sid = some ⟨true, some k, 0, none⟩) (evs : List (Nat × List (List K)))
    (hsid : ∀ e ∈ evs, ∃ c, w.conds e.1 = some c ∧ c.sid = sid) (hne : ∀ e ∈ evs, e.2.isEmpty = false)
    (j j' : Nat) (hj : j < evs.length) (hj' : j' < evs.length) (hb : j / k = j' / k)
    (hcid : evs[j].1 = evs[j'].1) :
    ∃ r r' : Rec K, (runS w (evs.map fun e => OpS.eval e.1 e.2)).2[j]? = some r ∧
      (runS w (evs.map fun e => OpS.eval e.1 e.2)).2[j']? = some r' ∧
      r.cid = some evs[j].1 ∧ r'.cid = some evs[j].1 ∧ r.used = r'.used ∧ r.out = r'.out := by
  rw [runS_evals sid evs w _ hs hsid]
  obtain ⟨p, a, a', h1, h2⟩ := static_interval_same_block k hk (evs.map (·.2))
    (by intro f hf; obtain ⟨e, he, rfl⟩ := List.mem_map.mp hf; exact hne e he) j j'
    (by rw [List.length_map]; exact hj) (by rw [List.length_map]; exact hj') hb
  refine ⟨⟨some evs[j].1, evalOut w evs[j].1 p, some p⟩, ⟨some evs[j'].1, evalOut w evs[j'].1 p, some p⟩,
    ?_, ?_, rfl, by rw [hcid], rfl, by rw [hcid]⟩
  · simp [List.getElem?_zipWith, h1, List.getElem?_eq_getElem hj]
  · simp [List.getElem?_zipWith, h2, List.getElem?_eq_getElem hj']

end repeatable

/-! ## non-vacuity: three sampler objects of the three kinds, four conditions from ONE user dict -/

section examples

/-- sampler 0: static, never resampling (conditions 1 and 2); sampler 1: static, resampling every 2nd call
    (condition 3); sampler 2: plain (condition 4) -/
def shHistory : List (OpS Rat) :=
  [.mkSampler 0 true none, .mkSampler 1 true (some 2), .mkSampler 2 false none,
   .construct 1 0 c14Spec [("x", 1)] 0 [[1], [2]],
   .construct 2 0 c14Spec [("x", 1)] 0 [[10], [20]],
   .construct 3 0 c14Spec [("x", 1)] 1 [[5]],
   .construct 4 0 c14Spec [("x", 1)] 2 [[6]],
   .eval 2 [[7], [8]], .eval 1 [[9]], .eval 3 [[1], [3]], .eval 4 [[1], [3]],
   .eval 3 [[4]], .eval 3 [[5]], .eval 4 [[2]], .eval 2 [[0]]]

def shWorld : WorldS Rat := WorldS.init [c14Dict]

-- the hypotheses of (A) and (B) hold for this history
example : wfS (fun _ => false) shHistory = true ∧ freshNonempty shHistory = true ∧
    noMk 0 (shHistory.drop 1) = true := by decide +kernel

-- (A): everything conditions 1 and 2 ever get from sampler 0 is the first set drawn, [[1], [2]]
example : usedOn 0 shWorld shHistory = [[[1], [2]], [[1], [2]], [[1], [2]], [[1], [2]], [[1], [2]]] := by
  decide +kernel
-- sampler 1 (interval 2) hands out each set twice, sampler 2 (plain) a new one every time
example : usedOn 1 shWorld shHistory = [[[1], [3]], [[1], [3]], [[5]]] ∧
    usedOn 2 shWorld shHistory = [[[1], [3]], [[2]]] := by decide +kernel

-- (B): both sides of `isolation_shared`, for every condition of the history
example : lossesOf (outsOfS 2 (runS shWorld shHistory).2) = [none, some 10, some 10] ∧
    lossesOf (outsOf 2 (runNew (World.init [c14Dict])
      (replay 2 (samplerDecl shHistory) shHistory (runS shWorld shHistory).2)).2) = [none, some 10, some 10] := by
  decide +kernel
example : lossesOf (outsOfS 3 (runS shWorld shHistory).2) = [none, some 20, some 20, some 100] ∧
    lossesOf (outsOf 3 (runNew (World.init [c14Dict])
      (replay 3 (samplerDecl shHistory) shHistory (runS shWorld shHistory).2)).2) = [none, some 20, some 20, some 100] := by
  decide +kernel
example : lossesOf (outsOfS 4 (runS shWorld shHistory).2) = [none, some 20, some 16] ∧
    lossesOf (outsOf 4 (runNew (World.init [c14Dict])
      (replay 4 (samplerDecl shHistory) shHistory (runS shWorld shHistory).2)).2) = [none, some 20, some 16] := by
  decide +kernel

-- (C): conditions 3 and 5 share the static sampler 1 (interval 2); calls 0,1 form a block, calls 2,3 the next
def shWorldC : WorldS Rat :=
  (runS shWorld [.mkSampler 1 true (some 2), .construct 3 0 c14Spec [("x", 1)] 1 [[5]],
    .construct 5 0 c14Spec [("x", 1)] 1 [[6]]]).1
def shEvs : List (Nat × List (List Rat)) := [(3, [[1], [3]]), (5, [[2]]), (3, [[4]]), (3, [[7]]), (5, [[8]])]

example : (match shWorldC.samplers 1 with
    | some s => s.static && s.interval == some 2 && s.counter == 0 && s.cache.isNone
    | none => false) = true := by decide +kernel
example : (shEvs.all fun e => ((shWorldC.conds e.1).map (·.sid) == some 1) && !e.2.isEmpty) = true := by
  decide +kernel
example : (draws (⟨true, some 2, 0, none⟩ : SamplerSt Rat) (shEvs.map (·.2))) =
    [([[1], [3]], true), ([[1], [3]], false), ([[4]], true), ([[4]], false), ([[8]], true)] := by decide +kernel
example : lossesOf (outsOfS 3 (runS shWorldC (shEvs.map fun e => OpS.eval e.1 e.2)).2) = [some 20, some 64, some 64] ∧
    lossesOf (outsOfS 5 (runS shWorldC (shEvs.map fun e => OpS.eval e.1 e.2)).2) = [some 20, some 256] := by
  decide +kernel

/-- a construction that FAILS in pre-evaluation on the shared sampler's cached set: condition 1 (a dict holding
    only a tensor) makes the static sampler cache the malformed set `[[]]`; the construction of condition 2
    pre-evaluates on that cached set and fails; the failure is recorded with the set it failed on, so the
    replay alone fails in the same way (and the later evaluation finds no condition, in company and alone) -/
def badHistory : List (OpS Rat) :=
  [.mkSampler 0 true none,
   .construct 1 0 c14Spec [("x", 1)] 0 [[]],
   .construct 2 1 c14Spec [("x", 1)] 0 [[10], [20]],
   .eval 2 [[7]]]
def badWorld : WorldS Rat := WorldS.init [[("f", .tensor [[3]])], c14Dict]

def outTag : Out Rat → String
  | .constructed => "constructed"
  | .loss _ => "loss"
  | .failed _ => "failed"
  | .noSuchCondition => "noSuchCondition"

example :
    wfS (fun _ => false) badHistory = true ∧ freshNonempty badHistory = true ∧
    usedOn 0 badWorld badHistory = [[[]], [[]]] ∧
    (outsOfS 2 (runS badWorld badHistory).2).map outTag = ["failed", "noSuchCondition"] ∧
    (outsOf 2 (runNew (World.init badWorld.dicts)
      (replay 2 (samplerDecl badHistory) badHistory (runS badWorld badHistory).2)).2).map outTag =
      ["failed", "noSuchCondition"] := by
  decide +kernel

end examples

end TPV.Cond
