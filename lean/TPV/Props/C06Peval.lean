/-
  C06 — normals of partially evaluated boundary objects: `B(**σ).normal(points, ρ) = B.normal(points, ρ ∪ σ)`.
  (`Dom.peval` and the membership part `peval_containsAux` are C17's: TPV/Props/C17.lean.)
-/
import TPV.Model.GeomNormal
import TPV.Props.C17

namespace TPV.Geom
set_option linter.unusedSectionVars false

section
variable {K : Type} [Add K] [Sub K] [Mul K] [Div K] [Neg K] [LE K] [DecidableLE K] [OfNat K 0] [OfNat K 1] [HasSqrt K]

/-- **Partial evaluation commutes with `normal`** for every expression, every set of fixed values `σ`, every point and
    remaining parameter row `ρ` (core-class generic: holds verbatim for the `Float` instance the driver runs): the operand
    selection uses `peval_containsAux`, the shape parameters see `pts ++ (ρ ++ σ)`. -/
theorem peval_normalAux (o : Bool) (τ : Tol K) (σ : Env K) (D : Dom K) : ∀ (pts ρ : Env K),
    normalAux o τ (D.peval σ) pts ρ = normalAux o τ D pts (ρ ++ σ) := by
  induction D with
  | interval v lb ub => intro pts ρ; simp only [Dom.peval, normalAux, pfun_peval_f]
  | par v o' c1 c2 => intro pts ρ; simp only [Dom.peval, normalAux, pfun_peval_f]
  | tri v o' c1 c2 => intro pts ρ; simp only [Dom.peval, normalAux, pfun_peval_f]
  | circle v c r => intro pts ρ; simp only [Dom.peval, normalAux, pfun_peval_f]
  | sphere v c r => intro pts ρ; simp only [Dom.peval, normalAux, pfun_peval_f]
  | union a b iha ihb => intro pts ρ; simp only [Dom.peval, normalAux, peval_containsAux, iha, ihb]
  | inter a b iha ihb => intro pts ρ; simp only [Dom.peval, normalAux, peval_containsAux, iha, ihb]
  | cut a b iha ihb => intro pts ρ; simp only [Dom.peval, normalAux, peval_containsAux, iha, ihb]
  | prod a b _ _ => intro pts ρ; simp only [Dom.peval, normalAux]
  | translate v d t _ => intro pts ρ; simp only [Dom.peval, normalAux]
  | rotate v d m c _ => intro pts ρ; simp only [Dom.peval, normalAux]
  | bdry d _ => intro pts ρ; simp only [Dom.peval, normalAux]
  | bdryL d _ => intro pts ρ; simp only [Dom.peval, normalAux]
  | bdryR d _ => intro pts ρ; simp only [Dom.peval, normalAux]

/-- the same for boundary objects: `.boundary`, `Interval.boundary_left`, `Interval.boundary_right` — the evaluated single
    boundary point keeps its side (−1 left, +1 right) -/
theorem peval_normal (o : Bool) (τ : Tol K) (σ : Env K) (B : Dom K) (pts ρ : Env K) :
    normal o τ (B.peval σ) pts ρ = normal o τ B pts (ρ ++ σ) := by
  cases B with
  | bdry d => simp only [Dom.peval, normal, peval_normalAux]
  | bdryL d => cases d <;> simp only [Dom.peval, normal]
  | bdryR d => cases d <;> simp only [Dom.peval, normal]
  | _ => simp only [Dom.peval, normal]

/-- evaluation in several steps: `B(**σ₁)(**σ₂)` -/
theorem peval_peval_normal (o : Bool) (τ : Tol K) (σ₁ σ₂ : Env K) (B : Dom K) (pts ρ : Env K) :
    normal o τ ((B.peval σ₁).peval σ₂) pts ρ = normal o τ B pts ((ρ ++ σ₂) ++ σ₁) := by
  rw [peval_normal, peval_normal]
end

section exampleSec
local instance ratNoSqrtP : HasSqrt Rat := ⟨fun x => x⟩

/-- `Interval(Y, 0, 1 + t).boundary_right` -/
def exRight : Dom Rat :=
  .bdryR (.interval "y" (.const [0]) ⟨["t"], fun e => match e.get "t" with | some [t] => [1 + t] | _ => []⟩)

/-- non-vacuity: the right end point of `[0, 1 + t]` evaluated at `t = 1/2` still has the normal +1 -/
example : normal true (⟨1 / 100000000, 1 / 100000, 1 / 100000⟩ : Tol Rat) (exRight.peval [("t", [1 / 2])]) [("y", [3 / 2])] [] =
    some [1] := by
  rw [peval_normal]; rfl
end exampleSec

end TPV.Geom
