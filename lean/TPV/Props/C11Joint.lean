/-
  C11 (joint law) — the JOINT law of the `n` points returned by a rejection loop.

  Setting: the proposals are i.i.d. with law `ν` (a probability measure on `Ω`), a proposal is
  accepted iff it lies in the acceptance region `D`.  `C11Meas.first_accepted_law` only gives a
  formula for one accepted proposal; here the independence structure is derived from genuine
  product measures of the proposal sequence:

  * `Measure.pi (fun _ : Fin m => ν)`      — the law of the first `m` proposals, and
  * `Measure.infinitePi (fun _ : ℕ => ν)`  — the law of the whole proposal sequence `ℕ → Ω`.

  A *pattern* is a list `ks : List ℕ` (`k_i` = number of rejected proposals between the
  `(i-1)`-th and the `i`-th accepted one) together with target sets `Ss : List (Set Ω)` of the
  same length `n`.  Its proposal string has length `m = ∑ (k_i + 1)`; position by position it
  demands `k_1` times `Dᶜ`, then `S_1 ∩ D`, then `k_2` times `Dᶜ`, then `S_2 ∩ D`, …
  (`patternSets`).  The event "the first `m` proposals realise the pattern" is a measurable
  rectangle, in `Fin m → Ω` (`listRect`) or as a cylinder in `ℕ → Ω` (`seqEvent`).

  Results (all for arbitrary `n`):
  1. `pattern_prob`, `seq_pattern_prob`: the product measure of a pattern rectangle is
     `∏ (1 - ν D)^{k_i} · ν (S_i ∩ D)`.
  2. `joint_accepted_law`: summing the `Measure.pi` rectangle probabilities over all rejection
     count vectors `ks : Fin n → ℕ` gives `∏ ν[S_i | D]`.
     (`sumPatterns_eq_prod_cond`, `sumPatterns_eq_tsum_pi` are the two halves.)
  3. `pattern_events_disjoint`: in the sequence space the events of different count vectors are
     disjoint, hence (`joint_accepted_law_seq`) the `infinitePi` probability of the single event
     "for every `i ≤ n` the `i`-th accepted proposal lies in `S_i`" (the union over all count
     vectors) is `∏ ν[S_i | D]`; with all `S_i = univ` it is `1` (`joint_total_mass`,
     `joint_total_mass_seq`): almost surely `n` proposals are accepted.
  So on measurable rectangles the joint law of the first `n` accepted proposals is that of `n`
  independent draws from `ν[· | D]`; rectangles generate the product σ-algebra, hence the `n`
  returned points are i.i.d. with law `ProbabilityTheory.cond ν D`.
-/
import TPV.Props.C11Meas
import Mathlib.MeasureTheory.Constructions.Pi
import Mathlib.Probability.ConditionalProbability
import Mathlib.Probability.ProductMeasure
import Mathlib.Algebra.BigOperators.Fin
import Mathlib.Data.Fin.Tuple.Basic

namespace TPV.Geom
open MeasureTheory Set

/-! ### 0. patterns, rectangles, cylinder events (pure set theory) -/

section Sets
variable {Ω : Type*}

/-- Per-position sets of a rejection pattern: `k₁` copies of `Dᶜ` (rejected proposals), then
    `S₁ ∩ D` (an accepted proposal lying in `S₁`), then `k₂` copies of `Dᶜ`, then `S₂ ∩ D`, …
    The list has length `∑ (k_i + 1)`. -/
def patternSets (D : Set Ω) : List ℕ → List (Set Ω) → List (Set Ω)
  | k :: ks, S :: Ss => List.replicate k Dᶜ ++ (S ∩ D) :: patternSets D ks Ss
  | _, _ => []

/-- The rectangle in `Fin L.length → Ω` whose `j`-th side is the `j`-th entry of `L`. -/
def listRect (L : List (Set Ω)) : Set (Fin L.length → Ω) :=
  Set.pi Set.univ fun j : Fin L.length => L.get j

/-- The cylinder event in the sequence space `ℕ → Ω`: the first `L.length` coordinates of the
    sequence lie in the corresponding entries of `L` (the later coordinates are free). -/
def seqEvent (L : List (Set Ω)) : Set (ℕ → Ω) :=
  {x | ∀ j : Fin L.length, x j ∈ L.get j}

example : patternSets (Icc (0:ℝ) (1/2)) [1, 0] [Icc 0 (1/4), Set.univ] =
    [(Icc (0:ℝ) (1/2))ᶜ, Icc 0 (1/4) ∩ Icc 0 (1/2), Set.univ ∩ Icc 0 (1/2)] := rfl

/-- the proposal string of a pattern has length `∑ (k_i + 1)` -/
theorem joint_patternSets_length (D : Set Ω) (ks : List ℕ) (Ss : List (Set Ω)) :
    (patternSets D ks Ss).length = (List.zipWith (fun k _ => k + 1) ks Ss).sum := by
  induction ks generalizing Ss with
  | nil => simp [patternSets]
  | cons k ks ih =>
    cases Ss with
    | nil => simp [patternSets]
    | cons S Ss => simp [patternSets, ih Ss]; omega

example : (patternSets (Icc (0:ℝ) (1/2)) [1, 0] [Icc 0 (1/4), Set.univ]).length = 3 := rfl

theorem joint_getD (L : List (Set Ω)) (d : Set Ω) {j : ℕ} (h : j < L.length) :
    L.getD j d = L[j] := by
  simp [List.getD, h]

theorem joint_seqEvent_eq_pi (L : List (Set Ω)) :
    seqEvent L = Set.pi (↑(Finset.range L.length)) (fun j => L.getD j Set.univ) := by
  ext x
  simp only [seqEvent, Set.mem_ofPred_eq, Set.mem_pi, Finset.coe_range, Set.mem_Iio]
  constructor
  · intro h j hj
    rw [joint_getD L _ hj]
    exact h ⟨j, hj⟩
  · intro h j
    have := h j j.2
    rw [joint_getD L _ j.2] at this
    exact this

/-- the cylinder event is the preimage of the finite rectangle under the restriction to the
    first `L.length` coordinates -/
theorem joint_seqEvent_eq_preimage (L : List (Set Ω)) :
    seqEvent L = (fun (x : ℕ → Ω) (j : Fin L.length) => x j) ⁻¹' listRect L := by
  ext x; simp [seqEvent, listRect]

theorem joint_seqEvent_cons (A : Set Ω) (L : List (Set Ω)) (x : ℕ → Ω) :
    x ∈ seqEvent (A :: L) ↔ x 0 ∈ A ∧ (fun j => x (j + 1)) ∈ seqEvent L := by
  simp only [seqEvent, Set.mem_ofPred_eq]
  constructor
  · intro h
    exact ⟨h ⟨0, by simp⟩, fun j => h ⟨j.1 + 1, by simp⟩⟩
  · rintro ⟨h0, h1⟩ ⟨j, hj⟩
    cases j with
    | zero => exact h0
    | succ j => exact h1 ⟨j, by simpa using hj⟩

/-- the number of rejections before the first acceptance is determined by the sequence -/
theorem joint_first_accept_unique {D S S' : Set Ω} {R R' : List (Set Ω)} :
    ∀ (k k' : ℕ) (x : ℕ → Ω), x ∈ seqEvent (List.replicate k Dᶜ ++ (S ∩ D) :: R) →
      x ∈ seqEvent (List.replicate k' Dᶜ ++ (S' ∩ D) :: R') →
      k = k' ∧ ∃ y : ℕ → Ω, y ∈ seqEvent R ∧ y ∈ seqEvent R' := by
  intro k
  induction k with
  | zero =>
    intro k' x h h'
    cases k' with
    | zero =>
      simp only [List.replicate_zero, List.nil_append, joint_seqEvent_cons] at h h'
      exact ⟨rfl, _, h.2, h'.2⟩
    | succ k' =>
      simp only [List.replicate_zero, List.nil_append, List.replicate_succ, List.cons_append,
        joint_seqEvent_cons] at h h'
      exact absurd h.1.2 h'.1
  | succ k ih =>
    intro k' x h h'
    cases k' with
    | zero =>
      simp only [List.replicate_zero, List.nil_append, List.replicate_succ, List.cons_append,
        joint_seqEvent_cons] at h h'
      exact absurd h'.1.2 h.1
    | succ k' =>
      simp only [List.replicate_succ, List.cons_append, joint_seqEvent_cons] at h h'
      obtain ⟨hk, y, hy⟩ := ih k' _ h.2 h'.2
      exact ⟨by rw [hk], y, hy⟩

/-- A proposal sequence determines its rejection counts: if one sequence realises two patterns
    with the same number `n` of accepted points (whatever the target sets), the two vectors of
    rejection counts coincide. -/
theorem joint_pattern_unique {D : Set Ω} :
    ∀ (ks ks' : List ℕ) (Ss Ss' : List (Set Ω)) (x : ℕ → Ω),
      ks.length = Ss.length → ks'.length = Ss'.length → ks.length = ks'.length →
      x ∈ seqEvent (patternSets D ks Ss) → x ∈ seqEvent (patternSets D ks' Ss') → ks = ks' := by
  intro ks
  induction ks with
  | nil =>
    intro ks' Ss Ss' x _ _ h3 _ _
    exact (List.length_eq_zero_iff.1 (by simpa using h3.symm)).symm
  | cons k ks ih =>
    intro ks' Ss Ss' x h1 h2 h3 hx hx'
    cases ks' with
    | nil => simp at h3
    | cons k' ks' =>
      cases Ss with
      | nil => simp at h1
      | cons S Ss =>
        cases Ss' with
        | nil => simp at h2
        | cons S' Ss' =>
          simp only [patternSets] at hx hx'
          obtain ⟨hk, y, hy, hy'⟩ := joint_first_accept_unique k k' x hx hx'
          have := ih ks' Ss Ss' y (by simpa using h1) (by simpa using h2) (by simpa using h3)
            hy hy'
          rw [hk, this]

example : ∀ x : ℕ → ℝ,
    x ∈ seqEvent (patternSets (Icc (0:ℝ) (1/2)) [1, 0] [Icc 0 (1/4), Set.univ]) →
    x ∈ seqEvent (patternSets (Icc (0:ℝ) (1/2)) [0, 1] [Icc 0 (1/4), Set.univ]) → False :=
  fun x h h' => by
    have := joint_pattern_unique [1, 0] [0, 1] _ _ x rfl rfl rfl h h'
    simp at this

/-- In the sequence space the events of two different vectors of rejection counts are disjoint
    (so their probabilities add up). -/
theorem pattern_events_disjoint (D : Set Ω) (Ss : List (Set Ω)) :
    Pairwise (Function.onFun Disjoint
      fun ks : Fin Ss.length → ℕ => seqEvent (patternSets D (List.ofFn ks) Ss)) := by
  intro ks ks' hne
  rw [Function.onFun, Set.disjoint_left]
  intro x hx hx'
  apply hne
  apply List.ofFn_injective
  exact joint_pattern_unique _ _ Ss Ss x (by simp) (by simp) (by simp) hx hx'

example : Pairwise (Function.onFun Disjoint
    fun ks : Fin [Icc (0:ℝ) (1/4), Set.univ].length → ℕ =>
      seqEvent (patternSets (Icc (0:ℝ) (1/2)) (List.ofFn ks) [Icc 0 (1/4), Set.univ])) :=
  pattern_events_disjoint _ _

end Sets

/-! ### 1. probability of one pattern under the product measure -/

variable {Ω : Type*} [MeasurableSpace Ω]

/-- the weight `∏ (1 - ν D)^{k_i} · ν (S_i ∩ D)` of a pattern -/
noncomputable def patternWeight (ν : Measure Ω) (D : Set Ω) (ks : List ℕ) (Ss : List (Set Ω)) :
    ENNReal :=
  (List.zipWith (fun k S => (1 - ν D) ^ k * ν (S ∩ D)) ks Ss).prod

theorem joint_pi_listRect (ν : Measure Ω) [SigmaFinite ν] (L : List (Set Ω)) :
    (Measure.pi fun _ : Fin L.length => ν) (listRect L) = (L.map ν).prod := by
  unfold listRect
  rw [Measure.pi_pi]
  simp

theorem joint_patternSets_prod (ν : Measure Ω) [IsProbabilityMeasure ν] {D : Set Ω}
    (hD : MeasurableSet D) (ks : List ℕ) (Ss : List (Set Ω)) :
    ((patternSets D ks Ss).map ν).prod = patternWeight ν D ks Ss := by
  induction ks generalizing Ss with
  | nil => simp [patternSets, patternWeight]
  | cons k ks ih =>
    cases Ss with
    | nil => simp [patternSets, patternWeight]
    | cons S Ss =>
      have := ih Ss
      unfold patternWeight at this ⊢
      simp only [patternSets, List.map_append, List.map_replicate, List.prod_append,
        List.prod_replicate, List.map_cons, List.prod_cons, List.zipWith_cons_cons, this,
        prob_compl_eq_one_sub hD, mul_assoc]

/-- Probability of one pattern: under the product measure `ν^m` of the first `m = ∑ (k_i + 1)`
    i.i.d. proposals, the rectangle "`k₁` rejections, an accepted point in `S₁`, `k₂` rejections,
    an accepted point in `S₂`, …" has probability `∏ (1 − ν D)^{k_i} · ν (S_i ∩ D)`. -/
theorem pattern_prob (ν : Measure Ω) [IsProbabilityMeasure ν] {D : Set Ω}
    (hD : MeasurableSet D) (ks : List ℕ) (Ss : List (Set Ω)) :
    (Measure.pi fun _ : Fin (patternSets D ks Ss).length => ν)
        (Set.pi Set.univ fun j => (patternSets D ks Ss).get j) =
      (List.zipWith (fun k S => (1 - ν D) ^ k * ν (S ∩ D)) ks Ss).prod :=
  (joint_pi_listRect ν _).trans (joint_patternSets_prod ν hD ks Ss)

/-- the proposal law of the examples: the uniform law on `[0,1]` -/
noncomputable abbrev jointExNu : Measure ℝ := ProbabilityTheory.cond volume (Icc (0:ℝ) 1)

instance joint_exNu_isProb : IsProbabilityMeasure jointExNu :=
  ProbabilityTheory.cond_isProbabilityMeasure_of_finite (by simp) (by simp)

/-- under the uniform law on `[0,1]` the interval `[0,b]` (`0 ≤ b ≤ 1`) has probability `b` -/
theorem joint_exNu_Icc {b : ℝ} (hb1 : b ≤ 1) :
    jointExNu (Icc 0 b) = ENNReal.ofReal b := by
  rw [ProbabilityTheory.cond_apply measurableSet_Icc, Set.Icc_inter_Icc]
  simp [hb1]

example :
    (Measure.pi fun _ : Fin
        (patternSets (Icc (0:ℝ) (1/2)) [1, 0] [Icc 0 (1/4), Set.univ]).length => jointExNu)
      (Set.pi Set.univ fun j =>
        (patternSets (Icc (0:ℝ) (1/2)) [1, 0] [Icc 0 (1/4), Set.univ]).get j) =
    (List.zipWith (fun k S => (1 - jointExNu (Icc (0:ℝ) (1/2))) ^ k *
      jointExNu (S ∩ Icc (0:ℝ) (1/2))) [1, 0] [Icc 0 (1/4), Set.univ]).prod :=
  pattern_prob jointExNu measurableSet_Icc _ _

/-! ### 2. summing over all rejection-count vectors -/

/-- Recursive form of the sum of the pattern weights over all rejection-count vectors: the
    outermost sum runs over the number of rejections before the first accepted proposal. -/
noncomputable def sumPatterns (ν : Measure Ω) (D : Set Ω) : List (Set Ω) → ENNReal
  | [] => 1
  | S :: Ss => ∑' k : ℕ, (1 - ν D) ^ k * ν (S ∩ D) * sumPatterns ν D Ss

/-- The iterated geometric sums factorise: the total weight of all patterns with targets
    `S₁, …, S_n` is the product `∏ ν[S_i | D]` of the conditional laws. -/
theorem sumPatterns_eq_prod_cond (ν : Measure Ω) [IsProbabilityMeasure ν] {D : Set Ω}
    (hD : MeasurableSet D) (Ss : List (Set Ω)) :
    sumPatterns ν D Ss = (Ss.map fun S => ProbabilityTheory.cond ν D S).prod := by
  induction Ss with
  | nil => simp [sumPatterns]
  | cons S Ss ih =>
    simp only [sumPatterns, List.map_cons, List.prod_cons]
    rw [ENNReal.tsum_mul_right, first_accepted_law ν hD, ih]

example : sumPatterns jointExNu (Icc (0:ℝ) (1/2)) [Icc 0 (1/4), Set.univ] =
    ([Icc (0:ℝ) (1/4), Set.univ].map fun S =>
      ProbabilityTheory.cond jointExNu (Icc (0:ℝ) (1/2)) S).prod :=
  sumPatterns_eq_prod_cond jointExNu measurableSet_Icc _

theorem joint_sumPatterns_eq_tsum_weight (ν : Measure Ω) (D : Set Ω) (Ss : List (Set Ω)) :
    sumPatterns ν D Ss =
      ∑' ks : Fin Ss.length → ℕ, patternWeight ν D (List.ofFn ks) Ss := by
  induction Ss with
  | nil =>
    simp [sumPatterns, patternWeight]
  | cons S Ss ih =>
    show _ = ∑' ks : Fin (Ss.length + 1) → ℕ, patternWeight ν D (List.ofFn ks) (S :: Ss)
    rw [← (Fin.consEquiv fun _ : Fin (Ss.length + 1) => ℕ).tsum_eq]
    rw [ENNReal.tsum_prod']
    simp only [sumPatterns, ih]
    congr 1; funext k
    rw [← ENNReal.tsum_mul_left]
    congr 1; funext ks
    simp [patternWeight, Fin.consEquiv, List.ofFn_succ]

/-- The recursive sum really is the sum, over all vectors `ks : Fin n → ℕ` of rejection counts,
    of the product-measure probabilities of the pattern rectangles of `pattern_prob`. -/
theorem sumPatterns_eq_tsum_pi (ν : Measure Ω) [IsProbabilityMeasure ν] {D : Set Ω}
    (hD : MeasurableSet D) (Ss : List (Set Ω)) :
    sumPatterns ν D Ss =
      ∑' ks : Fin Ss.length → ℕ,
        (Measure.pi fun _ : Fin (patternSets D (List.ofFn ks) Ss).length => ν)
          (Set.pi Set.univ fun j => (patternSets D (List.ofFn ks) Ss).get j) := by
  rw [joint_sumPatterns_eq_tsum_weight]
  exact tsum_congr fun ks => (pattern_prob ν hD _ Ss).symm

example : sumPatterns jointExNu (Icc (0:ℝ) (1/2)) [Icc 0 (1/4), Set.univ] =
    ∑' ks : Fin [Icc (0:ℝ) (1/4), Set.univ].length → ℕ,
      (Measure.pi fun _ : Fin (patternSets (Icc (0:ℝ) (1/2)) (List.ofFn ks)
          [Icc 0 (1/4), Set.univ]).length => jointExNu)
        (Set.pi Set.univ fun j => (patternSets (Icc (0:ℝ) (1/2)) (List.ofFn ks)
          [Icc 0 (1/4), Set.univ]).get j) :=
  sumPatterns_eq_tsum_pi jointExNu measurableSet_Icc _

/-- JOINT LAW of the accepted proposals (finite product measures): for targets `S₁, …, S_n`, the
    probabilities — under the product measure of the i.i.d. proposals — of the rectangles
    "`k₁` rejections, accepted point in `S₁`, …, `k_n` rejections, accepted point in `S_n`",
    summed over all rejection-count vectors `(k₁, …, k_n)`, give `∏ ν[S_i | D]`: the law of `n`
    independent draws from the conditional law `ν[· | D]`, evaluated on the rectangle `∏ S_i`. -/
theorem joint_accepted_law (ν : Measure Ω) [IsProbabilityMeasure ν] {D : Set Ω}
    (hD : MeasurableSet D) (Ss : List (Set Ω)) :
    ∑' ks : Fin Ss.length → ℕ,
        (Measure.pi fun _ : Fin (patternSets D (List.ofFn ks) Ss).length => ν)
          (Set.pi Set.univ fun j => (patternSets D (List.ofFn ks) Ss).get j) =
      (Ss.map fun S => ProbabilityTheory.cond ν D S).prod := by
  rw [← sumPatterns_eq_tsum_pi ν hD, sumPatterns_eq_prod_cond ν hD]

example :
    ∑' ks : Fin [Icc (0:ℝ) (1/4), Set.univ].length → ℕ,
      (Measure.pi fun _ : Fin (patternSets (Icc (0:ℝ) (1/2)) (List.ofFn ks)
          [Icc 0 (1/4), Set.univ]).length => jointExNu)
        (Set.pi Set.univ fun j => (patternSets (Icc (0:ℝ) (1/2)) (List.ofFn ks)
          [Icc 0 (1/4), Set.univ]).get j) =
    ([Icc (0:ℝ) (1/4), Set.univ].map fun S =>
      ProbabilityTheory.cond jointExNu (Icc (0:ℝ) (1/2)) S).prod :=
  joint_accepted_law jointExNu measurableSet_Icc _

/-- the case `n = 2` written with two explicit sums over the rejection counts -/
theorem joint_accepted_law_two (ν : Measure Ω) [IsProbabilityMeasure ν] {D : Set Ω}
    (hD : MeasurableSet D) (S₁ S₂ : Set Ω) :
    ∑' (k₁ : ℕ) (k₂ : ℕ),
        (Measure.pi fun _ : Fin (patternSets D [k₁, k₂] [S₁, S₂]).length => ν)
          (Set.pi Set.univ fun j => (patternSets D [k₁, k₂] [S₁, S₂]).get j) =
      ProbabilityTheory.cond ν D S₁ * ProbabilityTheory.cond ν D S₂ := by
  simp only [pattern_prob ν hD, List.zipWith_cons_cons, List.zipWith_nil_right, List.prod_cons,
    List.prod_nil, mul_one]
  simp only [ENNReal.tsum_mul_left, ENNReal.tsum_mul_right, first_accepted_law ν hD]

example :
    ∑' (k₁ : ℕ) (k₂ : ℕ),
      (Measure.pi fun _ : Fin (patternSets (Icc (0:ℝ) (1/2)) [k₁, k₂]
          [Icc 0 (1/4), Set.univ]).length => jointExNu)
        (Set.pi Set.univ fun j => (patternSets (Icc (0:ℝ) (1/2)) [k₁, k₂]
          [Icc 0 (1/4), Set.univ]).get j) =
      ProbabilityTheory.cond jointExNu (Icc (0:ℝ) (1/2)) (Icc 0 (1/4)) *
        ProbabilityTheory.cond jointExNu (Icc (0:ℝ) (1/2)) Set.univ :=
  joint_accepted_law_two jointExNu measurableSet_Icc _ _

theorem joint_cond_univ (ν : Measure Ω) [IsProbabilityMeasure ν] {D : Set Ω}
    (hD0 : ν D ≠ 0) : ProbabilityTheory.cond ν D Set.univ = 1 := by
  have := ProbabilityTheory.cond_isProbabilityMeasure (μ := ν) hD0
  exact measure_univ

/-- Total mass: if the acceptance region is not `ν`-null, the pattern rectangles with all targets
    `univ` have total probability `1` — with probability one the loop collects `n` accepted
    proposals after finitely many draws, and the pattern events exhaust the probability. -/
theorem joint_total_mass (ν : Measure Ω) [IsProbabilityMeasure ν] {D : Set Ω}
    (hD : MeasurableSet D) (hD0 : ν D ≠ 0) (n : ℕ) :
    ∑' ks : Fin (List.replicate n (Set.univ : Set Ω)).length → ℕ,
        (Measure.pi fun _ : Fin (patternSets D (List.ofFn ks)
            (List.replicate n Set.univ)).length => ν)
          (Set.pi Set.univ fun j =>
            (patternSets D (List.ofFn ks) (List.replicate n Set.univ)).get j) = 1 := by
  rw [joint_accepted_law ν hD, List.map_replicate, List.prod_replicate, joint_cond_univ ν hD0,
    one_pow]

theorem joint_exNu_half_ne_zero : jointExNu (Icc (0:ℝ) (1/2)) ≠ 0 := by
  rw [joint_exNu_Icc (by norm_num)]; simp

example :
    ∑' ks : Fin (List.replicate 3 (Set.univ : Set ℝ)).length → ℕ,
        (Measure.pi fun _ : Fin (patternSets (Icc (0:ℝ) (1/2)) (List.ofFn ks)
            (List.replicate 3 Set.univ)).length => jointExNu)
          (Set.pi Set.univ fun j =>
            (patternSets (Icc (0:ℝ) (1/2)) (List.ofFn ks)
              (List.replicate 3 Set.univ)).get j) = 1 :=
  joint_total_mass jointExNu measurableSet_Icc joint_exNu_half_ne_zero 3

/-! ### 3. the whole proposal sequence: `Measure.infinitePi` on `ℕ → Ω` -/

theorem joint_seqEvent_measurable {L : List (Set Ω)} (hL : ∀ A ∈ L, MeasurableSet A) :
    MeasurableSet (seqEvent L) := by
  rw [joint_seqEvent_eq_pi]
  refine MeasurableSet.pi (Finset.countable_toSet _) ?_
  intro j hj
  have hj' : j < L.length := by simpa using hj
  rw [joint_getD L _ hj']
  exact hL _ (List.getElem_mem hj')

theorem joint_infinitePi_seqEvent (ν : Measure Ω) [IsProbabilityMeasure ν] {L : List (Set Ω)}
    (hL : ∀ A ∈ L, MeasurableSet A) :
    Measure.infinitePi (fun _ : ℕ => ν) (seqEvent L) = (L.map ν).prod := by
  rw [joint_seqEvent_eq_pi, Measure.infinitePi_pi, Finset.prod_range,
    ← Fin.prod_univ_fun_getElem]
  · refine Finset.prod_congr rfl fun j _ => ?_
    rw [joint_getD L _ j.2]
  · intro j hj
    have hj' : j < L.length := by simpa using hj
    rw [joint_getD L _ hj']
    exact hL _ (List.getElem_mem hj')

theorem joint_patternSets_measurable {D : Set Ω} (hD : MeasurableSet D) (ks : List ℕ)
    {Ss : List (Set Ω)} (hS : ∀ S ∈ Ss, MeasurableSet S) :
    ∀ A ∈ patternSets D ks Ss, MeasurableSet A := by
  induction ks generalizing Ss with
  | nil => simp [patternSets]
  | cons k ks ih =>
    cases Ss with
    | nil => simp [patternSets]
    | cons S Ss =>
      intro A hA
      simp only [patternSets, List.mem_append, List.mem_replicate, List.mem_cons] at hA
      rcases hA with ⟨_, rfl⟩ | rfl | hA
      · exact hD.compl
      · exact (hS S (by simp)).inter hD
      · exact ih (fun S' hS' => hS S' (by simp [hS'])) A hA

/-- Probability of one pattern in the sequence space: under the law `ν^ℕ` of the infinite i.i.d.
    proposal sequence, the cylinder event "the sequence starts with `k₁` rejections, an accepted
    point in `S₁`, `k₂` rejections, an accepted point in `S₂`, …" has probability
    `∏ (1 − ν D)^{k_i} · ν (S_i ∩ D)`. -/
theorem seq_pattern_prob (ν : Measure Ω) [IsProbabilityMeasure ν] {D : Set Ω}
    (hD : MeasurableSet D) (ks : List ℕ) {Ss : List (Set Ω)} (hS : ∀ S ∈ Ss, MeasurableSet S) :
    Measure.infinitePi (fun _ : ℕ => ν) (seqEvent (patternSets D ks Ss)) =
      (List.zipWith (fun k S => (1 - ν D) ^ k * ν (S ∩ D)) ks Ss).prod :=
  (joint_infinitePi_seqEvent ν (joint_patternSets_measurable hD ks hS)).trans
    (joint_patternSets_prod ν hD ks Ss)

theorem joint_ex_meas : ∀ S ∈ [Icc (0:ℝ) (1/4), Set.univ], MeasurableSet S := by
  intro S hS
  simp only [List.mem_cons, List.not_mem_nil, or_false] at hS
  rcases hS with rfl | rfl
  · exact measurableSet_Icc
  · exact MeasurableSet.univ

example :
    Measure.infinitePi (fun _ : ℕ => jointExNu)
      (seqEvent (patternSets (Icc (0:ℝ) (1/2)) [1, 0] [Icc 0 (1/4), Set.univ])) =
    (List.zipWith (fun k S => (1 - jointExNu (Icc (0:ℝ) (1/2))) ^ k *
      jointExNu (S ∩ Icc (0:ℝ) (1/2))) [1, 0] [Icc 0 (1/4), Set.univ]).prod :=
  seq_pattern_prob jointExNu measurableSet_Icc _ joint_ex_meas

/-- JOINT LAW of the accepted proposals (sequence space): under the law `ν^ℕ` of the infinite
    i.i.d. proposal sequence, the event "for some rejection counts `k₁, …, k_n` the sequence
    starts with `k₁` rejections, an accepted point in `S₁`, …, `k_n` rejections, an accepted
    point in `S_n`" — i.e. "at least `n` proposals get accepted and, for every `i ≤ n`, the
    `i`-th accepted proposal lies in `S_i`" — has probability `∏ ν[S_i | D]`.  Hence the first
    `n` accepted proposals are independent, each with the conditional law `ν[· | D]`. -/
theorem joint_accepted_law_seq (ν : Measure Ω) [IsProbabilityMeasure ν] {D : Set Ω}
    (hD : MeasurableSet D) {Ss : List (Set Ω)} (hS : ∀ S ∈ Ss, MeasurableSet S) :
    Measure.infinitePi (fun _ : ℕ => ν)
        (⋃ ks : Fin Ss.length → ℕ, seqEvent (patternSets D (List.ofFn ks) Ss)) =
      (Ss.map fun S => ProbabilityTheory.cond ν D S).prod := by
  rw [measure_iUnion (pattern_events_disjoint D Ss)
    (fun ks => joint_seqEvent_measurable (joint_patternSets_measurable hD _ hS))]
  rw [← sumPatterns_eq_prod_cond ν hD, joint_sumPatterns_eq_tsum_weight]
  exact tsum_congr fun ks => seq_pattern_prob ν hD _ hS

example :
    Measure.infinitePi (fun _ : ℕ => jointExNu)
      (⋃ ks : Fin [Icc (0:ℝ) (1/4), Set.univ].length → ℕ,
        seqEvent (patternSets (Icc (0:ℝ) (1/2)) (List.ofFn ks) [Icc 0 (1/4), Set.univ])) =
    ([Icc (0:ℝ) (1/4), Set.univ].map fun S =>
      ProbabilityTheory.cond jointExNu (Icc (0:ℝ) (1/2)) S).prod :=
  joint_accepted_law_seq jointExNu measurableSet_Icc joint_ex_meas

/-- With probability one (under `ν^ℕ`) the proposal sequence contains at least `n` accepted
    proposals, provided the acceptance region is not `ν`-null: the rejection loop terminates
    almost surely. -/
theorem joint_total_mass_seq (ν : Measure Ω) [IsProbabilityMeasure ν] {D : Set Ω}
    (hD : MeasurableSet D) (hD0 : ν D ≠ 0) (n : ℕ) :
    Measure.infinitePi (fun _ : ℕ => ν)
        (⋃ ks : Fin (List.replicate n (Set.univ : Set Ω)).length → ℕ,
          seqEvent (patternSets D (List.ofFn ks) (List.replicate n Set.univ))) = 1 := by
  rw [joint_accepted_law_seq ν hD (by intro S hS; rw [List.eq_of_mem_replicate hS]; exact .univ),
    List.map_replicate, List.prod_replicate, joint_cond_univ ν hD0, one_pow]

example :
    Measure.infinitePi (fun _ : ℕ => jointExNu)
      (⋃ ks : Fin (List.replicate 3 (Set.univ : Set ℝ)).length → ℕ,
        seqEvent (patternSets (Icc (0:ℝ) (1/2)) (List.ofFn ks) (List.replicate 3 Set.univ))) = 1 :=
  joint_total_mass_seq jointExNu measurableSet_Icc joint_exNu_half_ne_zero 3


theorem joint_one_sub_half : (1 : ENNReal) - ENNReal.ofReal (1/2) = ENNReal.ofReal (1/2) := by
  rw [← ENNReal.ofReal_one, ← ENNReal.ofReal_sub _ (by norm_num)]; norm_num

/-- Concrete value (non-vacuity of `pattern_prob`): for uniform proposals on `[0,1]`, acceptance
    region `[0,1/2]`, pattern "one rejection, accepted point in `[0,1/4]`, no rejection, any accepted
    point" the product-measure probability is `1/2 · 1/4 · 1/2 = 1/16`. -/
theorem joint_ex_pattern_value :
    (Measure.pi fun _ : Fin
        (patternSets (Icc (0:ℝ) (1/2)) [1, 0] [Icc 0 (1/4), Set.univ]).length => jointExNu)
      (Set.pi Set.univ fun j =>
        (patternSets (Icc (0:ℝ) (1/2)) [1, 0] [Icc 0 (1/4), Set.univ]).get j) =
    ENNReal.ofReal (1/16) := by
  rw [pattern_prob jointExNu measurableSet_Icc]
  have h1 : Icc (0:ℝ) (1/4) ∩ Icc 0 (1/2) = Icc 0 (1/4) := by
    rw [Set.Icc_inter_Icc]; norm_num
  simp only [List.zipWith_cons_cons, List.zipWith_nil_right, List.prod_cons, List.prod_nil,
    Set.univ_inter, h1, joint_exNu_Icc (show (1/2:ℝ) ≤ 1 by norm_num),
    joint_exNu_Icc (show (1/4:ℝ) ≤ 1 by norm_num), joint_one_sub_half, pow_one, pow_zero,
    one_mul, mul_one]
  rw [← ENNReal.ofReal_mul (by norm_num), ← ENNReal.ofReal_mul (by norm_num)]
  norm_num

/-- Concrete value (non-vacuity of `joint_accepted_law`): in the same setting the probability
    that the first accepted point lies in `[0,1/4]` (and the second anywhere) is `1/2`. -/
theorem joint_ex_law_value :
    ∑' ks : Fin [Icc (0:ℝ) (1/4), Set.univ].length → ℕ,
      (Measure.pi fun _ : Fin (patternSets (Icc (0:ℝ) (1/2)) (List.ofFn ks)
          [Icc 0 (1/4), Set.univ]).length => jointExNu)
        (Set.pi Set.univ fun j => (patternSets (Icc (0:ℝ) (1/2)) (List.ofFn ks)
          [Icc 0 (1/4), Set.univ]).get j) = ENNReal.ofReal (1/2) := by
  rw [joint_accepted_law jointExNu measurableSet_Icc]
  have h1 : Icc (0:ℝ) (1/2) ∩ Icc 0 (1/4) = Icc 0 (1/4) := by
    rw [Set.Icc_inter_Icc]; norm_num
  simp only [List.map_cons, List.map_nil, List.prod_cons, List.prod_nil, mul_one,
    joint_cond_univ jointExNu joint_exNu_half_ne_zero]
  rw [ProbabilityTheory.cond_apply measurableSet_Icc, h1,
    joint_exNu_Icc (show (1/2:ℝ) ≤ 1 by norm_num), joint_exNu_Icc (show (1/4:ℝ) ≤ 1 by norm_num),
    ← ENNReal.ofReal_inv_of_pos (by norm_num), ← ENNReal.ofReal_mul (by norm_num)]
  norm_num

end TPV.Geom

#print axioms TPV.Geom.joint_patternSets_length
#print axioms TPV.Geom.joint_getD
#print axioms TPV.Geom.joint_seqEvent_eq_pi
#print axioms TPV.Geom.joint_seqEvent_eq_preimage
#print axioms TPV.Geom.joint_seqEvent_cons
#print axioms TPV.Geom.joint_first_accept_unique
#print axioms TPV.Geom.joint_pattern_unique
#print axioms TPV.Geom.pattern_events_disjoint
#print axioms TPV.Geom.joint_pi_listRect
#print axioms TPV.Geom.joint_patternSets_prod
#print axioms TPV.Geom.pattern_prob
#print axioms TPV.Geom.joint_exNu_isProb
#print axioms TPV.Geom.joint_exNu_Icc
#print axioms TPV.Geom.sumPatterns_eq_prod_cond
#print axioms TPV.Geom.joint_sumPatterns_eq_tsum_weight
#print axioms TPV.Geom.sumPatterns_eq_tsum_pi
#print axioms TPV.Geom.joint_accepted_law
#print axioms TPV.Geom.joint_accepted_law_two
#print axioms TPV.Geom.joint_cond_univ
#print axioms TPV.Geom.joint_total_mass
#print axioms TPV.Geom.joint_exNu_half_ne_zero
#print axioms TPV.Geom.joint_seqEvent_measurable
#print axioms TPV.Geom.joint_infinitePi_seqEvent
#print axioms TPV.Geom.joint_patternSets_measurable
#print axioms TPV.Geom.seq_pattern_prob
#print axioms TPV.Geom.joint_ex_meas
#print axioms TPV.Geom.joint_accepted_law_seq
#print axioms TPV.Geom.joint_total_mass_seq
#print axioms TPV.Geom.joint_one_sub_half
#print axioms TPV.Geom.joint_ex_pattern_value
#print axioms TPV.Geom.joint_ex_law_value
