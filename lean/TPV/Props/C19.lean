/-
  C19 — checkpoints and saved weights restore training exactly.
  Theorems about the checkpoint / resume part and the weight-save callback of lean/TPV/Model/Train.lean.
-/
import TPV.Props.C07

namespace TPV.Train

section Generic
variable {K σ : Type}

/-- "sampling is deterministic" in the sense the checkpoint needs: what a training condition
    contributes at a step does not depend on how often that condition OBJECT has been called before
    (its sampler / data-iterator position is not part of the checkpoint).  Dependence on the iteration
    argument is allowed. -/
def CallInvariant (cfg : Cfg K σ) : Prop :=
  ∀ c ∈ cfg.train, ∀ (it : Option Nat) (n m : Nat) (θ : List K), c.grad it n θ = c.grad it m θ

/-- … and for the Solver as it was before the repair (counter restarts at 0): no dependence on the
    iteration argument either -/
def IterInvariant (cfg : Cfg K σ) : Prop :=
  ∀ c ∈ cfg.train, ∀ (it it' : Option Nat) (n : Nat) (θ : List K), c.grad it n θ = c.grad it' n θ

theorem zipWith_indep {α β γ : Type} (f : α → β → γ) (b0 : β) : ∀ (l : List α) (bs : List β),
    (∀ a ∈ l, ∀ b b', f a b = f a b') → bs.length = l.length →
    List.zipWith f l bs = l.map (fun a => f a b0)
  | [], _, _, _ => by simp
  | a :: l, [], _, h => by simp at h
  | a :: l, b :: bs, hf, h => by
    simp only [List.zipWith_cons_cons, List.map_cons]
    rw [hf a (by simp) b b0, zipWith_indep f b0 l bs (fun a ha => hf a (by simp [ha])) (by simpa using h)]

variable [Add K] [Mul K] [OfNat K 0]

/-- the loop invariant without the call-count hypothesis: for call-invariant conditions the loop from
    ANY state whose iteration counter equals the global step follows the reference loop -/
theorem loop_ref_callinv (cfg : Cfg K σ) (hc : CallInvariant cfg) (sched : Nat → Bool) : ∀ (n : Nat) (s : St K σ),
    s.nIter = s.gstep → s.calls.length = cfg.train.length →
    ((loop cfg sched n s).θ, (loop cfg sched n s).opt) = refLoopFrom cfg s.gstep n (s.θ, s.opt) := by
  intro n
  induction n with
  | zero => intro s _ _; simp [loop, refLoopFrom]
  | succ n ih =>
    intro s h1 h2
    have hg : totalGrad cfg.dim cfg.train s.calls (some s.gstep) s.θ =
        (cfg.train.map (fun c => smul c.weight (c.grad (some s.gstep) s.gstep s.θ))).foldl vadd
          (List.replicate cfg.dim none) := by
      simp only [totalGrad]
      rw [zipWith_indep (fun c n => smul c.weight (c.grad (some s.gstep) n s.θ)) s.gstep cfg.train s.calls
        (fun c hcm b b' => by rw [hc c hcm (some s.gstep) b b' s.θ]) h2]
    have key : ∀ t : St K σ, (t = trainStep cfg s ∨ t = valPass cfg (trainStep cfg s)) →
        t.nIter = t.gstep ∧ t.calls.length = cfg.train.length ∧ t.gstep = s.gstep + 1 ∧
        (t.θ, t.opt) = refStep cfg (s.θ, s.opt) s.gstep := by
      intro t ht
      rcases ht with rfl | rfl <;>
        simp only [trainStep, valPass, validationStep, refStep, hg, h1, h2, List.length_map, and_self]
    simp only [loop]
    split
    · obtain ⟨k1, k2, k3, k4⟩ := key _ (Or.inr rfl)
      have := ih _ k1 k2
      rw [k3, k4] at this
      simpa only [refLoopFrom] using this
    · obtain ⟨k1, k2, k3, k4⟩ := key _ (Or.inl rfl)
      have := ih _ k1 k2
      rw [k3, k4] at this
      simpa only [refLoopFrom] using this

theorem resume_aux (cfg : Cfg K σ) (hc : CallInvariant cfg) (sched sched' : Nat → Bool) (N : Nat) (S : St K σ)
    (hn : S.nIter = S.gstep) (hcalls : S.calls = cfg.train.map (fun _ => S.gstep)) :
    ((resume cfg sched' N (save S)).θ, (resume cfg sched' N (save S)).opt)
      = ((loop cfg sched (N - S.gstep) S).θ, (loop cfg sched (N - S.gstep) S).opt) := by
  have a := loop_ref_callinv cfg hc sched' (N - S.gstep) (onTrainStart (restore cfg (save S))) rfl
    (by simp [onTrainStart, restore, fresh])
  have b := (loop_ref cfg sched (N - S.gstep) S hn hcalls).1
  rw [b]
  exact a

/-- **C19, core.** For every step `k ≤ N` (in particular every step at which
    `TrainerStateCheckpoint` writes): building the objects afresh, restoring the checkpoint of step `k`
    and training on to step `N` — under any validation schedule — gives the learnable state and the
    optimizer state of the uninterrupted `N`-step run, provided the training conditions are
    call-invariant (deterministic sampling that does not depend on the position of a sampler or data
    iterator inside the condition object, which no checkpoint contains). -/
theorem resume_eq (cfg : Cfg K σ) (hc : CallInvariant cfg) (sched sched' : Nat → Bool) (sanity : Bool)
    (k N : Nat) (hk : k ≤ N) (θ : List K) (o : σ) :
    (resume cfg sched' N (save (solverRun cfg sched sanity k (fresh cfg θ o)))).θ
      = (solverRun cfg sched sanity N (fresh cfg θ o)).θ ∧
    (resume cfg sched' N (save (solverRun cfg sched sanity k (fresh cfg θ o)))).opt
      = (solverRun cfg sched sanity N (fresh cfg θ o)).opt := by
  obtain ⟨hrun, -⟩ := iteration_index cfg sched sanity k N hk θ o
  obtain ⟨-, hit, hkg, hcalls⟩ := solver_eq_ref cfg sched sanity k θ o
  have h := resume_aux cfg hc sched sched' N (solverRun cfg sched sanity k (fresh cfg θ o))
    (by rw [hit, hkg]) (by rw [hcalls, hkg])
  rw [hkg, ← hrun] at h
  exact ⟨congrArg Prod.fst h, congrArg Prod.snd h⟩

/-- the same for the Solver before the repair (`n_training_step = 0` at every start): it additionally
    needs conditions that ignore the iteration argument -/
theorem loop_ref_inv (cfg : Cfg K σ) (hc : CallInvariant cfg) (hi : IterInvariant cfg) (sched : Nat → Bool) :
    ∀ (n : Nat) (s : St K σ), s.calls.length = cfg.train.length →
    ((loop cfg sched n s).θ, (loop cfg sched n s).opt) = refLoopFrom cfg s.gstep n (s.θ, s.opt) := by
  intro n
  induction n with
  | zero => intro s _; simp [loop, refLoopFrom]
  | succ n ih =>
    intro s h2
    have hg : totalGrad cfg.dim cfg.train s.calls (some s.nIter) s.θ =
        (cfg.train.map (fun c => smul c.weight (c.grad (some s.gstep) s.gstep s.θ))).foldl vadd
          (List.replicate cfg.dim none) := by
      simp only [totalGrad]
      rw [zipWith_indep (fun c n => smul c.weight (c.grad (some s.nIter) n s.θ)) s.gstep cfg.train s.calls
        (fun c hcm b b' => by rw [hc c hcm (some s.nIter) b b' s.θ]) h2]
      congr 1
      apply List.map_congr_left
      intro c hcm
      rw [hi c hcm (some s.nIter) (some s.gstep)]
    have key : ∀ t : St K σ, (t = trainStep cfg s ∨ t = valPass cfg (trainStep cfg s)) →
        t.calls.length = cfg.train.length ∧ t.gstep = s.gstep + 1 ∧
        (t.θ, t.opt) = refStep cfg (s.θ, s.opt) s.gstep := by
      intro t ht
      rcases ht with rfl | rfl <;>
        simp only [trainStep, valPass, validationStep, refStep, hg, h2, List.length_map, and_self]
    simp only [loop]
    split
    · obtain ⟨k2, k3, k4⟩ := key _ (Or.inr rfl)
      have := ih _ k2
      rw [k3, k4] at this
      simpa only [refLoopFrom] using this
    · obtain ⟨k2, k3, k4⟩ := key _ (Or.inl rfl)
      have := ih _ k2
      rw [k3, k4] at this
      simpa only [refLoopFrom] using this

/-- resume with the unrepaired Solver is exact only for conditions that ignore the iteration argument -/
theorem resumeOld_eq (cfg : Cfg K σ) (hc : CallInvariant cfg) (hi : IterInvariant cfg) (sched sched' : Nat → Bool)
    (sanity : Bool) (k N : Nat) (hk : k ≤ N) (θ : List K) (o : σ) :
    (resumeOld cfg sched' N (save (solverRun cfg sched sanity k (fresh cfg θ o)))).θ
      = (solverRun cfg sched sanity N (fresh cfg θ o)).θ ∧
    (resumeOld cfg sched' N (save (solverRun cfg sched sanity k (fresh cfg θ o)))).opt
      = (solverRun cfg sched sanity N (fresh cfg θ o)).opt := by
  obtain ⟨hrun, -⟩ := iteration_index cfg sched sanity k N hk θ o
  obtain ⟨-, hit, hkg, hcalls⟩ := solver_eq_ref cfg sched sanity k θ o
  have a := loop_ref_inv cfg hc hi sched' (N - k)
    (onTrainStartOld (restore cfg (save (solverRun cfg sched sanity k (fresh cfg θ o)))))
    (by simp [onTrainStartOld, restore, fresh])
  have b := (loop_ref cfg sched (N - k) (solverRun cfg sched sanity k (fresh cfg θ o))
    (by rw [hit, hkg]) (by rw [hcalls, hkg])).1
  have g : (onTrainStartOld (restore cfg (save (solverRun cfg sched sanity k (fresh cfg θ o))))).gstep = k := hkg
  rw [g] at a
  rw [hkg, ← hrun] at b
  have e : resumeOld cfg sched' N (save (solverRun cfg sched sanity k (fresh cfg θ o)))
      = loop cfg sched' (N - k) (onTrainStartOld (restore cfg (save (solverRun cfg sched sanity k (fresh cfg θ o))))) := by
    simp only [resumeOld, solverRunOld]
    have : (restore cfg (save (solverRun cfg sched sanity k (fresh cfg θ o)))).gstep = k := hkg
    rw [this]
    rfl
  rw [e]
  have := a.trans b.symm
  exact ⟨congrArg Prod.fst this, congrArg Prod.snd this⟩

/-- **resume with the SAME objects.**  Interrupt after `k` steps, then `trainer.fit(solver, ckpt_path=…)`
    with the very Solver / condition objects that wrote the checkpoint of step `k`, on to step `N`: the whole
    state — learnable tensors, optimizer and scheduler, counters, sampler positions — is that of the
    uninterrupted `N`-step run.  No hypothesis on the conditions is needed (their positions are still there),
    and nothing but `global_step` decides how many batches remain. -/
theorem resume_same_objects (cfg : Cfg K σ) (sched : Nat → Bool) (sanity : Bool) (k N : Nat) (hk : k ≤ N)
    (θ : List K) (o : σ) :
    loop cfg sched (N - k)
        (onTrainStart (restoreInto (solverRun cfg sched sanity k (fresh cfg θ o))
                                   (save (solverRun cfg sched sanity k (fresh cfg θ o)))))
      = solverRun cfg sched sanity N (fresh cfg θ o) := by
  obtain ⟨hrun, hit⟩ := iteration_index cfg sched sanity k N hk θ o
  obtain ⟨-, -, hkg, -⟩ := solver_eq_ref cfg sched sanity k θ o
  have e : onTrainStart (restoreInto (solverRun cfg sched sanity k (fresh cfg θ o))
      (save (solverRun cfg sched sanity k (fresh cfg θ o)))) = solverRun cfg sched sanity k (fresh cfg θ o) := by
    generalize solverRun cfg sched sanity k (fresh cfg θ o) = S at hit hkg
    cases S
    simp only [onTrainStart, restoreInto, save] at *
    rw [hit, hkg]
  rw [e, ← hrun]

/-! ### the weight-save callback -/

theorem loop_gstep (cfg : Cfg K σ) (sched : Nat → Bool) : ∀ (n : Nat) (s : St K σ),
    (loop cfg sched n s).gstep = s.gstep + n := by
  intro n
  induction n with
  | zero => intro s; rfl
  | succ n ih =>
    intro s
    simp only [loop]
    rw [ih]
    split <;> simp [valPass, validationStep, trainStep] <;> omega

theorem loop_succ (cfg : Cfg K σ) (sched : Nat → Bool) (hs : ∀ b, sched b = false) (n : Nat) (s : St K σ) :
    loop cfg sched (n + 1) s = trainStep cfg (loop cfg sched n s) := by
  rw [loop_add cfg sched n 1 s]
  simp [loop, hs]

variable [LT K] [DecidableLT K]

omit [Add K] [Mul K] [OfNat K 0] in
theorem wsBatchStart_cases (interval b : Nat) (lg : Option K) (θ : List K) (w : WS K) :
    wsBatchStart interval b lg θ w = w ∨
    ((0 < interval ∧ 0 < b ∧ (b - 1) % interval = 0) ∧
      ∃ l, wsBatchStart interval b lg θ w = { w with cur := some l, min := some (b, θ) }) := by
  unfold wsBatchStart
  by_cases hc : 0 < interval ∧ 0 < b ∧ (b - 1) % interval = 0
  · rw [if_pos hc]
    cases lg with
    | none => exact Or.inl rfl
    | some l =>
      cases hcur : w.cur with
      | none => right; exact ⟨hc, l, by simp⟩
      | some c =>
        by_cases hl : l < c
        · right; exact ⟨hc, l, by simp [hl]⟩
        · left; simp [hl]
  · rw [if_neg hc]; exact Or.inl rfl

/-- training with the callback attached is training (the callback only reads) -/
theorem wsLoop_fst (cfg : Cfg K σ) (interval : Nat) : ∀ (n : Nat) (s : St K σ) (w : WS K),
    (wsLoop cfg interval n (s, w)).1 = loop cfg (fun _ => false) n s := by
  intro n
  induction n with
  | zero => intro s w; rfl
  | succ n ih => intro s w; simp only [wsLoop, loop]; rw [ih]; simp

theorem wsLoop_init_final (cfg : Cfg K σ) (interval : Nat) : ∀ (n : Nat) (s : St K σ) (w : WS K),
    (wsLoop cfg interval n (s, w)).2.init = w.init ∧ (wsLoop cfg interval n (s, w)).2.final = w.final := by
  intro n
  induction n with
  | zero => intro s w; exact ⟨rfl, rfl⟩
  | succ n ih =>
    intro s w
    simp only [wsLoop]
    obtain ⟨a, b⟩ := ih (trainStep cfg s) (wsBatchStart interval s.gstep s.logged s.θ w)
    rw [a, b]
    rcases wsBatchStart_cases interval s.gstep s.logged s.θ w with h | ⟨-, l, h⟩ <;> rw [h] <;> exact ⟨rfl, rfl⟩

/-- **the initial and the final file reproduce the model before and after training** -/
theorem ws_init_final (cfg : Cfg K σ) (interval N : Nat) (θ : List K) (o : σ) :
    (wsRun cfg interval true true N (fresh cfg θ o)).2.init = some θ ∧
    (wsRun cfg interval true true N (fresh cfg θ o)).2.final
      = some (solverRun cfg (fun _ => false) false N (fresh cfg θ o)).θ ∧
    (wsRun cfg interval true true N (fresh cfg θ o)).1 = solverRun cfg (fun _ => false) false N (fresh cfg θ o) := by
  simp only [wsRun, solverRun]
  refine ⟨?_, ?_, ?_⟩
  · rw [(wsLoop_init_final cfg interval _ _ _).1]; rfl
  · rw [wsLoop_fst]; rfl
  · rw [wsLoop_fst]; rfl

/-- invariant: the minimal-loss file always holds the state at the start of one of the checked
    batches seen so far -/
theorem wsLoop_min (cfg : Cfg K σ) (interval : Nat) (s0 : St K σ) (h0 : s0.gstep = 0) :
    ∀ (n j : Nat) (w : WS K),
    (∀ b θ, w.min = some (b, θ) → 0 < b ∧ b < j ∧ (b - 1) % interval = 0 ∧ 0 < interval ∧
        θ = (loop cfg (fun _ => false) b s0).θ) →
    ∀ b θ, (wsLoop cfg interval n (loop cfg (fun _ => false) j s0, w)).2.min = some (b, θ) →
      0 < b ∧ b < j + n ∧ (b - 1) % interval = 0 ∧ 0 < interval ∧ θ = (loop cfg (fun _ => false) b s0).θ := by
  intro n
  induction n with
  | zero => intro j w hw b θ h; simpa [wsLoop] using hw b θ h
  | succ n ih =>
    intro j w hw b θ h
    simp only [wsLoop] at h
    rw [← loop_succ cfg (fun _ => false) (fun _ => rfl)] at h
    have hg : (loop cfg (fun _ => false) j s0).gstep = j := by rw [loop_gstep, h0]; omega
    rw [hg] at h
    have := ih (j + 1) _ ?_ b θ h
    · obtain ⟨a1, a2, a3, a4, a5⟩ := this
      exact ⟨a1, by omega, a3, a4, a5⟩
    · intro b' θ' h'
      rcases wsBatchStart_cases interval j (loop cfg (fun _ => false) j s0).logged
        (loop cfg (fun _ => false) j s0).θ w with hcase | ⟨hc, l, hcase⟩
      · rw [hcase] at h'
        obtain ⟨x1, x2, x3, x4, x5⟩ := hw b' θ' h'
        exact ⟨x1, by omega, x3, x4, x5⟩
      · rw [hcase] at h'
        simp only [Option.some.injEq, Prod.mk.injEq] at h'
        obtain ⟨rfl, rfl⟩ := h'
        exact ⟨hc.2.1, by omega, hc.2.2, hc.1, rfl⟩

/-- **the minimal-loss file holds the weights of one of the checked steps**: if the callback wrote it,
    it was written at the start of a batch `b` with `0 < b < N`, `(b-1) % check_interval = 0`, and holds
    exactly the model after `b` training steps -/
theorem ws_min_checked (cfg : Cfg K σ) (interval N : Nat) (θ : List K) (o : σ) (b : Nat) (φ : List K)
    (h : (wsRun cfg interval true true N (fresh cfg θ o)).2.min = some (b, φ)) :
    0 < b ∧ b < N ∧ (b - 1) % interval = 0 ∧ 0 < interval ∧
    φ = (solverRun cfg (fun _ => false) false b (fresh cfg θ o)).θ := by
  simp only [wsRun] at h
  have h0 : (onTrainStart (fresh cfg θ o)).gstep = 0 := rfl
  have := wsLoop_min cfg interval (onTrainStart (fresh cfg θ o)) h0 (N - (fresh cfg θ o).gstep) 0
    { (wsNew : WS K) with init := some (onTrainStart (fresh cfg θ o)).θ } (by intro b θ hh; simp [wsNew] at hh) b φ
    (by simpa [loop] using h)
  obtain ⟨a1, a2, a3, a4, a5⟩ := this
  refine ⟨a1, by simpa [fresh] using a2, a3, a4, ?_⟩
  rw [a5]
  simp [solverRun, fresh]

end Generic
/-! ## the executable instance: which set-ups satisfy the hypothesis, and witnesses that it is needed -/

/-- conditions with a single point set / a single data batch are call-invariant -/
theorem toCfg_callInvariant (s : Spec) (o : OptSpec) (h : ∀ c ∈ s.train, c.losses.length = 1) :
    CallInvariant (s.toCfg o) := by
  intro c hc it n m θ
  simp only [Spec.toCfg, List.mem_map] at hc
  obtain ⟨c0, hc0, rfl⟩ := hc
  simp only [CondSpec.toCond, CondSpec.lossAt, h c0 hc0, Nat.mod_one]

/-- one training condition whose loss uses the iteration argument: `(p0 - iteration)^2` -/
def probeSpec : Spec :=
  { env0 := [(0, 1/2)]
    train := [ { weight := 1, tensors := [0], track := true,
                 losses := [ .mul (.add (.par 0) (.neg .iter)) (.add (.par 0) (.neg .iter)) ] } ]
    val := [] }

/-- one data condition with two batches: `(p0 - 1)^2`, `(p0 + 1)^2` in turn -/
def twoBatchSpec : Spec :=
  { env0 := [(0, 1/2)]
    train := [ { weight := 1, tensors := [0], track := true,
                 losses := [ .mul (.add (.par 0) (.const (-1))) (.add (.par 0) (.const (-1))),
                             .mul (.add (.par 0) (.const 1)) (.add (.par 0) (.const 1)) ] } ]
    val := [] }

def plainSGD : OptSpec := { lr := 1/4, momentum := 0, dampening := 0, wd := 0, stepSize := 0, gamma := 1, freq := 1 }

/-- **the Solver before the repair did not resume exactly** when a condition uses the iteration
    argument: checkpoint after step 1, resume to step 2 — `n_training_step` restarts at 0 instead of 1
    (uninterrupted: 5/8, resumed: 1/8) -/
theorem resumeOld_not_exact :
    (resumeOld (probeSpec.toCfg plainSGD) (fun _ => false) 2
        (save (solverRun (probeSpec.toCfg plainSGD) (fun _ => false) false 1
          (fresh (probeSpec.toCfg plainSGD) probeSpec.θ0 (probeSpec.opt0 plainSGD))))).θ = [1/8] ∧
    (solverRun (probeSpec.toCfg plainSGD) (fun _ => false) false 2
        (fresh (probeSpec.toCfg plainSGD) probeSpec.θ0 (probeSpec.opt0 plainSGD))).θ = [5/8] := by
  decide +kernel

/-- after the repair the same set-up resumes exactly (instance of `resume_eq`; hypotheses satisfiable) -/
example :
    (resume (probeSpec.toCfg plainSGD) (fun _ => false) 2
        (save (solverRun (probeSpec.toCfg plainSGD) (fun _ => false) false 1
          (fresh (probeSpec.toCfg plainSGD) probeSpec.θ0 (probeSpec.opt0 plainSGD))))).θ
      = (solverRun (probeSpec.toCfg plainSGD) (fun _ => false) false 2
          (fresh (probeSpec.toCfg plainSGD) probeSpec.θ0 (probeSpec.opt0 plainSGD))).θ :=
  (resume_eq _ (toCfg_callInvariant probeSpec plainSGD (by decide)) _ _ false 1 2 (by decide) _ _).1
example : (solverRun (probeSpec.toCfg plainSGD) (fun _ => false) false 2
    (fresh (probeSpec.toCfg plainSGD) probeSpec.θ0 (probeSpec.opt0 plainSGD))).θ ≠ probeSpec.θ0 := by decide +kernel

/-- **the call-invariance hypothesis is needed (open finding):** the position of a data iterator is
    not part of the checkpoint, so a condition that cycles through two batches resumes with the wrong
    batch when interrupted after an odd number of steps (uninterrupted: -1/8, resumed: 7/8) -/
theorem resume_not_exact_two_batches :
    (resume (twoBatchSpec.toCfg plainSGD) (fun _ => false) 2
        (save (solverRun (twoBatchSpec.toCfg plainSGD) (fun _ => false) false 1
          (fresh (twoBatchSpec.toCfg plainSGD) twoBatchSpec.θ0 (twoBatchSpec.opt0 plainSGD))))).θ = [7/8] ∧
    (solverRun (twoBatchSpec.toCfg plainSGD) (fun _ => false) false 2
        (fresh (twoBatchSpec.toCfg plainSGD) twoBatchSpec.θ0 (twoBatchSpec.opt0 plainSGD))).θ = [-1/8] := by
  decide +kernel

/-- the weight-save callback on the probe set-up, 6 steps, check interval 2: the file is written (so
    `ws_min_checked` is not vacuous) at a checked batch -/
example : ((wsRun (probeSpec.toCfg plainSGD) 2 true true 6
    (fresh (probeSpec.toCfg plainSGD) probeSpec.θ0 (probeSpec.opt0 plainSGD))).2.min.map (·.1)) = some 1 := by
  decide +kernel
example : ((wsRun (twoBatchSpec.toCfg plainSGD) 1 true true 6
    (fresh (twoBatchSpec.toCfg plainSGD) twoBatchSpec.θ0 (twoBatchSpec.opt0 plainSGD))).2.min.map (·.1)) = some 1 := by
  decide +kernel

/-- with the SAME objects even the two-batch set-up resumes exactly (contrast `resume_not_exact_two_batches`) -/
example :
    (loop (twoBatchSpec.toCfg plainSGD) (fun _ => false) 1
      (onTrainStart (restoreInto
        (solverRun (twoBatchSpec.toCfg plainSGD) (fun _ => false) false 1
          (fresh (twoBatchSpec.toCfg plainSGD) twoBatchSpec.θ0 (twoBatchSpec.opt0 plainSGD)))
        (save (solverRun (twoBatchSpec.toCfg plainSGD) (fun _ => false) false 1
          (fresh (twoBatchSpec.toCfg plainSGD) twoBatchSpec.θ0 (twoBatchSpec.opt0 plainSGD))))))).θ = [-1/8] := by
  decide +kernel

end TPV.Train
