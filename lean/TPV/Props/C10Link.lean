/-
  C10, third part: results that build on other properties' theorems.
    * products (uses C01's `mem_congr` / `envAgree_*`: membership reads only the expression's own coordinates):
      the denoted set of a constant product is the rectangle of the factors' sets; expression-level soundness for products;
    * density sampling of a cut / intersection with a parallelogram, end to end (uses C11's `par_law`).
-/
import TPV.Props.C10Sound
import TPV.Props.C01
import TPV.Props.C11Affine

namespace TPV.Geom
open MeasureTheory Set Metric
local notation "μL" => MeasureTheory.MeasureSpace.volume

/-! ## products -/

/-- in a constant product the first factor does not notice the partner's coordinates in the point row -/
theorem mem_prod_left (a : Dom ℝ) (ρ : Env ℝ) (va vb : String) (x y : List ℝ)
    (hig : ∀ f ∈ a.pfuns, f.ignores [(vb, y)]) (hva : ∀ v ∈ a.leafVars, v = va) (hne : va ≠ vb) :
    mem a ([(va, x)] ++ [(vb, y)]) ρ ↔ mem a [(va, x)] ρ := by
  have h1 := envAgree_assoc a ρ [(va, x)] [(vb, y)]
    (fun v hv => ⟨x, by rw [hva v hv]; simp [Env.get, List.lookup]⟩)
    (fun v hv => by
      have hb : (va == vb) = false := by simpa using hne
      rw [hva v hv]; simp [Env.get, List.lookup, hb])
  have h2 := envAgree_ignore [(vb, y)] a hig [(va, x)] [] ρ
  simp only [List.nil_append] at h2
  exact ((mem_congr a _ _ _ _ h1).symm.trans (mem_congr a _ _ _ _ h2))

/-- … and the second factor does not notice the first factor's coordinates -/
theorem mem_prod_right (b : Dom ℝ) (ρ : Env ℝ) (va vb : String) (x y : List ℝ)
    (hig : ∀ f ∈ b.pfuns, f.ignores [(va, x)]) (hvb : ∀ v ∈ b.leafVars, v ≠ va) :
    mem b ([(va, x)] ++ [(vb, y)]) ρ ↔ mem b [(vb, y)] ρ := by
  have h := envAgree_left [(va, x)] b hig (fun v hv => by
    have hb : (v == va) = false := by simpa using hvb v hv
    simp [Env.get, List.lookup, hb]) [(vb, y)] ρ
  exact (mem_congr b _ _ _ _ h).symm


/-- **the denoted set of a constant product is the rectangle of the factors' sets** (`cP`, `cQ`: the coordinate lists
    of the two point spaces) -/
theorem prod_denotation {P Q : Type} (cP : P → List ℝ) (cQ : Q → List ℝ) (a b : Dom ℝ) (ρ : Env ℝ) (va vb : String)
    (hne : va ≠ vb)
    (higa : ∀ f ∈ a.pfuns, ∀ y, f.ignores [(vb, y)]) (hva : ∀ v ∈ a.leafVars, v = va)
    (higb : ∀ f ∈ b.pfuns, ∀ x, f.ignores [(va, x)]) (hvb : ∀ v ∈ b.leafVars, v ≠ va) :
    {pq : P × Q | mem (.prod a b) ([(va, cP pq.1)] ++ [(vb, cQ pq.2)]) ρ}
      = {p | mem a [(va, cP p)] ρ} ×ˢ {q | mem b [(vb, cQ q)] ρ} := by
  ext ⟨p, q⟩
  simp only [mem_ofPred_eq, mem_prod]
  show (mem a _ ρ ∧ mem b _ ρ) ↔ _
  rw [mem_prod_left a ρ va vb _ _ (fun f hf => higa f hf _) hva hne,
    mem_prod_right b ρ va vb _ _ (fun f hf => higb f hf _) hvb]

theorem volAux_prod_ok {a b : VDom ℝ} {ρ : Env ℝ} {x : ℝ} (h : volAux false (.prod a b) ρ = .ok (x, false)) :
    prodConstant a b = true ∧ ∃ va vb, volAux false a ρ = .ok (va, false) ∧ volAux false b ρ = .ok (vb, false) ∧ x = va * vb := by
  by_cases hc : prodConstant a b = true
  · refine ⟨hc, ?_⟩
    cases ha : volAux false a ρ with
    | error e => simp [volAux, hc, ha, bind, Except.bind] at h
    | ok va =>
      cases hb : volAux false b ρ with
      | error e => simp [volAux, hc, ha, hb, bind, Except.bind] at h
      | ok vb =>
        obtain ⟨va, ea⟩ := va; obtain ⟨vb, eb⟩ := vb
        rw [vol_prod a b ρ va vb ea eb hc ha hb] at h
        simp only [Except.ok.injEq, Prod.mk.injEq, Bool.or_eq_false_iff] at h
        obtain ⟨hx, h2, h3⟩ := h
        subst h2 h3
        exact ⟨va, vb, rfl, rfl, hx.symm⟩
  · simp [volAux, hc] at h

/-- **products**: if both factors are sound (measurable denoted set, measure = model value ≥ 0) and neither reads the
    other's coordinates, the product expression is sound in the product space with the product measure -/
theorem volume_sound_prod {P Q : Type} [MeasureSpace P] [MeasureSpace Q] [SigmaFinite (μL : Measure Q)]
    (cP : P → List ℝ) (cQ : Q → List ℝ) (A B : VDom ℝ) (a b : Dom ℝ) (ρ : Env ℝ) (va vb : String) (x : ℝ)
    (hne : va ≠ vb)
    (higa : ∀ f ∈ a.pfuns, ∀ y, f.ignores [(vb, y)]) (hva : ∀ v ∈ a.leafVars, v = va)
    (higb : ∀ f ∈ b.pfuns, ∀ x, f.ignores [(va, x)]) (hvb : ∀ v ∈ b.leafVars, v ≠ va)
    (soundA : ∀ xa, volAux false A ρ = .ok (xa, false) →
      MeasurableSet {p : P | mem a [(va, cP p)] ρ} ∧ μL {p : P | mem a [(va, cP p)] ρ} = ENNReal.ofReal xa ∧ 0 ≤ xa)
    (soundB : ∀ xb, volAux false B ρ = .ok (xb, false) →
      MeasurableSet {q : Q | mem b [(vb, cQ q)] ρ} ∧ μL {q : Q | mem b [(vb, cQ q)] ρ} = ENNReal.ofReal xb ∧ 0 ≤ xb)
    (h : volAux false (.prod A B) ρ = .ok (x, false)) :
    MeasurableSet {pq : P × Q | mem (.prod a b) ([(va, cP pq.1)] ++ [(vb, cQ pq.2)]) ρ} ∧
    ((μL : Measure P).prod (μL : Measure Q)) {pq : P × Q | mem (.prod a b) ([(va, cP pq.1)] ++ [(vb, cQ pq.2)]) ρ}
      = ENNReal.ofReal x ∧ 0 ≤ x := by
  obtain ⟨-, xa, xb, ha, hb, rfl⟩ := volAux_prod_ok h
  obtain ⟨ma, mua, pa⟩ := soundA xa ha
  obtain ⟨mb, mub, pb⟩ := soundB xb hb
  rw [prod_denotation cP cQ a b ρ va vb hne higa hva higb hvb]
  exact ⟨ma.prod mb, product_mul _ _ _ _ xa xb pa mua mub, mul_nonneg pa pb⟩

/-- the typical product "shape × interval": a 2-D expression (`volume_sound_2d`) times a 1-D expression
    (`volume_sound_1d`), in `(Fin 2 → ℝ) × ℝ` with its Lebesgue measure -/
theorem volume_sound_2d_x_1d (A B : VDom ℝ) (a b : Dom ℝ) (ρ : Env ℝ) (va vb : String) (x : ℝ)
    (hea : A.erase = some a) (heb : B.erase = some b) (hta : Truthful2 va ρ A) (htb : Truthful1 vb ρ B) (hne : va ≠ vb)
    (higa : ∀ f ∈ a.pfuns, ∀ y, f.ignores [(vb, y)]) (hva : ∀ v ∈ a.leafVars, v = va)
    (higb : ∀ f ∈ b.pfuns, ∀ x, f.ignores [(va, x)]) (hvb : ∀ v ∈ b.leafVars, v ≠ va)
    (h : volAux false (.prod A B) ρ = .ok (x, false)) :
    μL {pq : (Fin 2 → ℝ) × ℝ | mem (.prod a b) [(va, [pq.1 0, pq.1 1]), (vb, [pq.2])] ρ} = ENNReal.ofReal x := by
  have := (volume_sound_prod (P := Fin 2 → ℝ) (Q := ℝ) (fun p => [p 0, p 1]) (fun s => [s]) A B a b ρ va vb x hne higa hva higb hvb
    (fun xa hxa => volume_sound_2d va ρ A a xa hea hta hxa) (fun xb hxb => volume_sound_1d vb ρ B b xb heb htb hxb) h).2.1
  rw [Measure.volume_eq_prod]
  exact this

/-- "ball × interval" -/
theorem volume_sound_3d_x_1d (A B : VDom ℝ) (a b : Dom ℝ) (ρ : Env ℝ) (va vb : String) (x : ℝ)
    (hea : A.erase = some a) (heb : B.erase = some b) (hta : Truthful3 va ρ A) (htb : Truthful1 vb ρ B) (hne : va ≠ vb)
    (higa : ∀ f ∈ a.pfuns, ∀ y, f.ignores [(vb, y)]) (hva : ∀ v ∈ a.leafVars, v = va)
    (higb : ∀ f ∈ b.pfuns, ∀ x, f.ignores [(va, x)]) (hvb : ∀ v ∈ b.leafVars, v ≠ va)
    (h : volAux false (.prod A B) ρ = .ok (x, false)) :
    μL {pq : (Fin 3 → ℝ) × ℝ | mem (.prod a b) [(va, [pq.1 0, pq.1 1, pq.1 2]), (vb, [pq.2])] ρ} = ENNReal.ofReal x := by
  have := (volume_sound_prod (P := Fin 3 → ℝ) (Q := ℝ) (fun p => [p 0, p 1, p 2]) (fun s => [s]) A B a b ρ va vb x hne higa hva higb hvb
    (fun xa hxa => volume_sound_3d va ρ A a xa hea hta hxa) (fun xb hxb => volume_sound_1d vb ρ B b xb heb htb hxb) h).2.1
  rw [Measure.volume_eq_prod]
  exact this

/-- "interval × interval" -/
theorem volume_sound_1d_x_1d (A B : VDom ℝ) (a b : Dom ℝ) (ρ : Env ℝ) (va vb : String) (x : ℝ)
    (hea : A.erase = some a) (heb : B.erase = some b) (hta : Truthful1 va ρ A) (htb : Truthful1 vb ρ B) (hne : va ≠ vb)
    (higa : ∀ f ∈ a.pfuns, ∀ y, f.ignores [(vb, y)]) (hva : ∀ v ∈ a.leafVars, v = va)
    (higb : ∀ f ∈ b.pfuns, ∀ x, f.ignores [(va, x)]) (hvb : ∀ v ∈ b.leafVars, v ≠ va)
    (h : volAux false (.prod A B) ρ = .ok (x, false)) :
    μL {pq : ℝ × ℝ | mem (.prod a b) [(va, [pq.1]), (vb, [pq.2])] ρ} = ENNReal.ofReal x := by
  have := (volume_sound_prod (P := ℝ) (Q := ℝ) (fun p => [p]) (fun s => [s]) A B a b ρ va vb x hne higa hva higb hvb
    (fun xa hxa => volume_sound_1d va ρ A a xa hea hta hxa) (fun xb hxb => volume_sound_1d vb ρ B b xb heb htb hxb) h).2.1
  rw [Measure.volume_eq_prod]
  exact this

/-- non-vacuity: the cylinder `disc(0, 2) × [0, 3]` has volume `π·2²·3` -/
example : μL {pq : (Fin 2 → ℝ) × ℝ | mem (.prod (.circle "x" (.const [0, 0]) (.const [2])) (.interval "t" (.const [0]) (.const [3])))
      [("x", [pq.1 0, pq.1 1]), ("t", [pq.2])] ([] : Env ℝ)} = ENNReal.ofReal (circleVol 2 * intervalVol 0 3) := by
  refine volume_sound_2d_x_1d (.circle "x" (.const [0, 0]) (.const [2])) (.interval "t" (.const [0]) (.const [3])) _ _ [] "x" "t" _
    rfl rfl ?_ ?_ (by decide) ?_ ?_ ?_ ?_ ?_
  · exact ⟨rfl, fun _ => ⟨rfl, rfl⟩, ⟨0, 0, rfl⟩, fun x hx => by simp [PFun.const] at hx; linarith⟩
  · exact ⟨rfl, fun _ => ⟨rfl, rfl⟩, fun l u hl hu => by simp [PFun.const] at hl hu; linarith⟩
  · intro f hf y e1 e2; simp [Dom.pfuns] at hf; rcases hf with rfl | rfl <;> rfl
  · intro v hv; simpa [Dom.leafVars] using hv
  · intro f hf y e1 e2; simp [Dom.pfuns] at hf; rcases hf with rfl | rfl <;> rfl
  · intro v hv; simp [Dom.leafVars] at hv; subst hv; decide
  · simp [volAux, prodConstant, VDom.vars, VDom.freeVars, PFun.const, dedup, bind, Except.bind, pure, Except.pure]

/-! ## rejection-based density sampling, end to end for the parallelogram -/

instance unitSquareProb : IsProbabilityMeasure ((μL : Measure (Fin 2 → ℝ)).restrict (Icc 0 1)) :=
  ⟨by simp [Real.volume_Icc_pi]⟩

/-- **density sampling of `Parallelogram ∖ B` / `Parallelogram ∩ B`, end to end**: `n` pairs of independent uniform draws
    (the tape), mapped by the coded parametrisation (C11 `par_law`: their image is uniform on the parallelogram `A`),
    kept when they fall into the measurable set `S` (`S = Bᶜ` for a cut, `S = B` for an intersection):
    the expected number of kept points is `n · |A ∩ S| / |A|` -/
theorem par_density_expected (ox oy ax ay bx cy : ℝ) (hdet : parDet ox oy ax ay bx cy ≠ 0)
    (S : Set (Fin 2 → ℝ)) (hS : MeasurableSet S) (n : ℕ) :
    ∫⁻ ω : Fin n → (Fin 2 → ℝ), ∑ i, S.indicator (fun _ => (1 : ENNReal)) (parMap ox oy ax ay bx cy (ω i))
        ∂(Measure.pi fun _ : Fin n => (μL : Measure (Fin 2 → ℝ)).restrict (Icc 0 1))
      = n * ((ENNReal.ofReal |parDet ox oy ax ay bx cy|)⁻¹ * μL (parMap ox oy ax ay bx cy '' Icc 0 1 ∩ S)) := by
  have hm := parMap_measurable ox oy ax ay bx cy
  have h := expected_accepted ((μL : Measure (Fin 2 → ℝ)).restrict (Icc 0 1)) (parMap ox oy ax ay bx cy ⁻¹' S) (hm hS) n
  have hind : ∀ q : Fin 2 → ℝ, (parMap ox oy ax ay bx cy ⁻¹' S).indicator (fun _ => (1 : ENNReal)) q
      = S.indicator (fun _ => (1 : ENNReal)) (parMap ox oy ax ay bx cy q) := by
    intro q; rfl
  simp only [hind] at h
  rw [h, ← Measure.map_apply hm hS, par_law ox oy ax ay bx cy hdet, Measure.smul_apply, Measure.restrict_apply hS,
    smul_eq_mul, Set.inter_comm]

/-! ## the two admissible schemes for the triangle's density sampler

  (a) rejection (as coded): `2n` proposals, kept with probability ½ — `tri_expected_count` (C10Sound): `n` points in expectation;
  (b) exact: `n` proposals, mirrored — below: exactly `n` points, all in the triangle.  The harness accepts either and judges
  the counts under the scheme the implementation follows. -/

/-- scheme (b) returns exactly as many points as proposals, i.e. exactly `ceil(d·area)` -/
theorem triDensityMirror_length (tape : List (ℝ × ℝ)) : (triDensityMirror tape).length = tape.length := by
  simp [triDensityMirror]

theorem triDensityMirror_count (d v : ℚ) (tape : List (ℝ × ℝ)) (h : (tape.length : ℤ) = densityCount d v) :
    ((triDensityMirror tape).length : ℤ) = ⌈d * v⌉ := by
  rw [triDensityMirror_length, h, densityCount_eq_ceil]

/-- … and every point of scheme (b) has barycentric coordinates in the closed standard triangle -/
theorem triDensityMirror_mem (tape : List (ℝ × ℝ)) (h : ∀ p ∈ tape, 0 ≤ p.1 ∧ p.1 ≤ 1 ∧ 0 ≤ p.2 ∧ p.2 ≤ 1) :
    ∀ q ∈ triDensityMirror tape, 0 ≤ q.1 ∧ 0 ≤ q.2 ∧ q.1 + q.2 ≤ 1 := by
  intro q hq
  simp only [triDensityMirror, List.mem_map] at hq
  obtain ⟨p, hp, rfl⟩ := hq
  obtain ⟨a, b, c, d⟩ := h p hp
  exact triMirror_simplex p.1 p.2 a b c d

example : triDensityMirror [((3/4 : ℝ), (1/2 : ℝ)), (1/4, 1/4)] = [(1/4, 1/2), (1/4, 1/4)] := by
  simp [triDensityMirror, triMirror, le]; norm_num

end TPV.Geom
