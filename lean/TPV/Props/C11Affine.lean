/-
  C11 — sampling laws of the 2-D affine shapes (parallelogram, triangle) and of the rigid motions.

  The parametrisations of TPV.Model.GeomSample (`parSample`, `triMirror`, `triSample`, `rotatePt`,
  `translatePt`) are read as maps of the plane `Fin 2 → ℝ` (`parMap`, `mirMap`, `triMap`, `rotateMap`,
  `transMap`); "uniform draws" = Lebesgue measure on the unit square `Icc 0 1`.  Proved:
  area scaling `|det|` of every set of barycentric pairs, the cell laws (probability of a cell =
  share of its area), the full push-forward laws (`par_law`, `tri_law`, `rotation_law`,
  `transMap_law`), the mirror step being 2-to-1 and measure preserving onto the lower triangle.
-/
import TPV.Model.GeomSample
import TPV.Proofs.GeomLemmas
import Mathlib.MeasureTheory.Measure.Lebesgue.EqHaar
import Mathlib.LinearAlgebra.Matrix.Determinant.Basic
import Mathlib.MeasureTheory.Group.Measure
import Mathlib.MeasureTheory.Measure.Haar.Unique
import Mathlib.Tactic.LinearCombination
import Mathlib.Tactic.FinCases

namespace TPV.Geom
open MeasureTheory Set

set_option linter.unusedSectionVars false
set_option linter.unusedVariables false

/-! ## generic 2-D affine maps -/

/-- the linear map of the plane with matrix `[[a, b], [c, d]]` -/
noncomputable def lin2 (a b c d : ℝ) : (Fin 2 → ℝ) →ₗ[ℝ] (Fin 2 → ℝ) :=
  Matrix.toLin' (Matrix.of ![![a, b], ![c, d]])

theorem lin2_apply (a b c d : ℝ) (q : Fin 2 → ℝ) :
    lin2 a b c d q = ![a * q 0 + b * q 1, c * q 0 + d * q 1] := by
  ext i; fin_cases i <;> simp [lin2, Matrix.toLin'_apply, Matrix.mulVec, dotProduct, Fin.sum_univ_two]

theorem det_lin2 (a b c d : ℝ) : LinearMap.det (lin2 a b c d) = a * d - b * c := by
  simp [lin2, LinearMap.det_toLin', Matrix.det_fin_two]

/-- Lebesgue measure of the image of ANY set under an affine map `q ↦ L q + c` is `|det L|` times
    the measure of the set. -/
theorem affine_image_volume (L : (Fin 2 → ℝ) →ₗ[ℝ] (Fin 2 → ℝ)) (c : Fin 2 → ℝ) (R : Set (Fin 2 → ℝ)) :
    volume ((fun q => L q + c) '' R) = ENNReal.ofReal |LinearMap.det L| * volume R := by
  have h : (fun q => L q + c) '' R = (· + c) '' (L '' R) := by rw [Set.image_image]
  rw [h, Set.image_add_right, measure_preimage_add_right, Measure.addHaar_image_linearMap]

/-! ## 1. parallelogram -/

/-- the parallelogram sampler of the model as a map of the plane: barycentric pair `q` ↦ point -/
noncomputable def parMap (ox oy ax ay bx cy : ℝ) (q : Fin 2 → ℝ) : Fin 2 → ℝ :=
  ![(parSample ox oy ax ay bx cy (q 0) (q 1)).1, (parSample ox oy ax ay bx cy (q 0) (q 1)).2]

/-- determinant of the two edge vectors -/
def parDet (ox oy ax ay bx cy : ℝ) : ℝ := (ax - ox) * (cy - oy) - (ay - oy) * (bx - ox)

/-- the model sampler is the affine map with matrix (dir_1 | dir_2) and offset `origin` -/
theorem parMap_eq_affine (ox oy ax ay bx cy : ℝ) :
    parMap ox oy ax ay bx cy
      = fun q => Matrix.toLin' (Matrix.of ![![ax - ox, bx - ox], ![ay - oy, cy - oy]]) q + ![ox, oy] := by
  funext q; ext i
  fin_cases i <;>
    simp [parMap, parSample, Matrix.toLin'_apply, dotProduct, Fin.sum_univ_two] <;> ring

example : parMap 1 1 3 1 2 4 ![1, 1] = ![4, 4] := by
  ext i; fin_cases i <;> simp [parMap, parSample]; norm_num

/-- **Area scaling of the parallelogram sampler**: the image of any set `R` of barycentric pairs has
    Lebesgue measure `|det| · |R|`. -/
theorem par_image_volume (ox oy ax ay bx cy : ℝ) (R : Set (Fin 2 → ℝ)) :
    volume (parMap ox oy ax ay bx cy '' R)
      = ENNReal.ofReal |parDet ox oy ax ay bx cy| * volume R := by
  rw [parMap_eq_affine]
  have := affine_image_volume (lin2 (ax - ox) (bx - ox) (ay - oy) (cy - oy)) ![ox, oy] R
  rw [det_lin2] at this
  rw [lin2] at this
  rw [this, parDet]
  congr 3; ring


example : volume (parMap 1 1 3 1 2 4 '' Icc 0 1) = 6 := by
  rw [par_image_volume, Real.volume_Icc_pi]
  norm_num [parDet]

/-- with a non-zero determinant the sampler map is injective -/
theorem parMap_injective (ox oy ax ay bx cy : ℝ) (hdet : parDet ox oy ax ay bx cy ≠ 0) :
    Function.Injective (parMap ox oy ax ay bx cy) := by
  intro p q h
  have h0 := congrFun h 0
  have h1 := congrFun h 1
  simp only [parMap, parSample, Matrix.cons_val_zero, Matrix.cons_val_one] at h0 h1
  unfold parDet at hdet
  have e0 : (p 0 - q 0) * ((ax - ox) * (cy - oy) - (ay - oy) * (bx - ox)) = 0 := by
    linear_combination (cy - oy) * h0 - (bx - ox) * h1
  have e1 : (p 1 - q 1) * ((ax - ox) * (cy - oy) - (ay - oy) * (bx - ox)) = 0 := by
    linear_combination (ax - ox) * h1 - (ay - oy) * h0
  have e0' := (mul_eq_zero.1 e0).resolve_right hdet
  have e1' := (mul_eq_zero.1 e1).resolve_right hdet
  ext i; fin_cases i
  · exact sub_eq_zero.1 e0'
  · exact sub_eq_zero.1 e1'

theorem parMap_continuous (ox oy ax ay bx cy : ℝ) : Continuous (parMap ox oy ax ay bx cy) := by
  rw [parMap_eq_affine]
  exact (LinearMap.continuous_of_finiteDimensional _).add continuous_const

theorem parMap_measurable (ox oy ax ay bx cy : ℝ) : Measurable (parMap ox oy ax ay bx cy) :=
  (parMap_continuous ox oy ax ay bx cy).measurable

theorem ofReal_abs_ne_zero {d : ℝ} (h : d ≠ 0) : ENNReal.ofReal |d| ≠ 0 := by
  simpa using h

/-- **Cell law of the parallelogram sampler**: for a non-degenerate parallelogram and any set `R` of
    barycentric pairs in the unit square, the probability (Lebesgue measure of the set of uniform
    draws in the unit square) that the sample falls into the image of `R` equals the share of that
    image in the area of the parallelogram. -/
theorem par_cell_law (ox oy ax ay bx cy : ℝ) (hdet : parDet ox oy ax ay bx cy ≠ 0)
    (R : Set (Fin 2 → ℝ)) (hR : R ⊆ Icc 0 1) :
    volume {q | q ∈ Icc (0 : Fin 2 → ℝ) 1 ∧ parMap ox oy ax ay bx cy q ∈ parMap ox oy ax ay bx cy '' R}
      = volume (parMap ox oy ax ay bx cy '' R) / volume (parMap ox oy ax ay bx cy '' Icc 0 1) := by
  have hinj := parMap_injective ox oy ax ay bx cy hdet
  have hset : {q | q ∈ Icc (0 : Fin 2 → ℝ) 1 ∧
      parMap ox oy ax ay bx cy q ∈ parMap ox oy ax ay bx cy '' R} = R := by
    ext q
    simp only [mem_ofPred_eq, hinj.mem_set_image]
    exact ⟨fun h => h.2, fun h => ⟨hR h, h⟩⟩
  rw [hset, par_image_volume, par_image_volume, Real.volume_Icc_pi]
  simp only [sub_zero, Pi.one_apply, Pi.zero_apply, ENNReal.ofReal_one, Finset.prod_const_one, mul_one]
  rw [mul_comm, ENNReal.mul_div_cancel_right (ofReal_abs_ne_zero hdet) ENNReal.ofReal_ne_top]

example : volume {q | q ∈ Icc (0 : Fin 2 → ℝ) 1 ∧
      parMap 1 1 3 1 2 4 q ∈ parMap 1 1 3 1 2 4 '' Icc 0 ![1 / 2, 1]} = 1 / 2 := by
  rw [par_cell_law _ _ _ _ _ _ (by norm_num [parDet])]
  · rw [par_image_volume, par_image_volume, Real.volume_Icc_pi, Real.volume_Icc_pi]
    simp [Fin.prod_univ_two, parDet]
    rw [mul_comm _ (2⁻¹ : ENNReal), ENNReal.mul_div_cancel_right] <;> norm_num
  · intro q hq
    refine ⟨hq.1, fun i => (hq.2 i).trans ?_⟩
    fin_cases i <;> simp; norm_num

/-! ## 2. full push-forward law -/

/-- **Law of the parallelogram sampler**: the push-forward of the uniform distribution on the unit
    square under the sampler is the normalised Lebesgue measure on the parallelogram
    (density `1/|det|` on the image of the square, nothing outside). -/
theorem par_law (ox oy ax ay bx cy : ℝ) (hdet : parDet ox oy ax ay bx cy ≠ 0) :
    Measure.map (parMap ox oy ax ay bx cy) (volume.restrict (Icc 0 1))
      = (ENNReal.ofReal |parDet ox oy ax ay bx cy|)⁻¹ •
          volume.restrict (parMap ox oy ax ay bx cy '' Icc 0 1) := by
  ext S hS
  rw [Measure.map_apply (parMap_measurable ox oy ax ay bx cy) hS,
    Measure.restrict_apply ((parMap_measurable ox oy ax ay bx cy) hS),
    Measure.smul_apply, Measure.restrict_apply hS, ← Set.image_preimage_inter, par_image_volume,
    smul_eq_mul, ← mul_assoc,
    ENNReal.inv_mul_cancel (ofReal_abs_ne_zero hdet) ENNReal.ofReal_ne_top, one_mul]


/-! ## 3. triangle sampler = parallelogram sampler after the mirror step (any ordered field) -/

section algebra
variable {K : Type} [Field K] [LinearOrder K] [IsStrictOrderedRing K]

/-- **Triangle sampler factorisation**: the coded triangle sampler (`u'·dir_1 − v'·dir_3 + origin`)
    is the parallelogram sampler applied to the mirrored barycentric pair. -/
theorem triSample_eq_parSample_mirror (ox oy ax ay bx cy u v : K) :
    triSample ox oy ax ay bx cy u v
      = parSample ox oy ax ay bx cy (triMirror u v).1 (triMirror u v).2 := by
  simp only [triSample, parSample]
  refine Prod.ext ?_ ?_ <;> simp only [] <;> ring

example : triSample (0 : ℚ) 0 2 0 0 2 (3 / 4) (3 / 4) = parSample (0 : ℚ) 0 2 0 0 2 (1 / 4) (1 / 4) := by
  rw [triSample_eq_parSample_mirror]; simp [triMirror, le]; norm_num

/-- below the diagonal the mirror step does nothing -/
theorem triMirror_of_lt (u v : K) (h : u + v < 1) : triMirror u v = (u, v) := by
  simp [triMirror, not_le.2 h]

/-- on or above the diagonal the mirror step is the point reflection at (½, ½) -/
theorem triMirror_of_le (u v : K) (h : 1 ≤ u + v) : triMirror u v = (1 - u, 1 - v) := by
  simp [triMirror, h]

example : triMirror (3 / 4 : ℚ) (1 / 2) = (1 / 4, 1 / 2) := by
  rw [triMirror_of_le _ _ (by norm_num)]; norm_num

end algebra

/-! ## 4. the mirror map is 2-to-1 and measure preserving onto the lower triangle -/

/-- the open-diagonal lower triangle of barycentric pairs -/
def triT : Set (Fin 2 → ℝ) := {q | 0 ≤ q 0 ∧ 0 ≤ q 1 ∧ q 0 + q 1 < 1}

/-- the mirror step of the model as a map of the plane -/
noncomputable def mirMap (q : Fin 2 → ℝ) : Fin 2 → ℝ :=
  ![(triMirror (q 0) (q 1)).1, (triMirror (q 0) (q 1)).2]

theorem mirMap_of_lt (q : Fin 2 → ℝ) (h : q 0 + q 1 < 1) : mirMap q = q := by
  ext i; fin_cases i <;> simp [mirMap, triMirror_of_lt _ _ h]

theorem mirMap_of_le (q : Fin 2 → ℝ) (h : 1 ≤ q 0 + q 1) : mirMap q = 1 - q := by
  ext i; fin_cases i <;> simp [mirMap, triMirror_of_le _ _ h]

/-- the draws whose mirrored pair lies in `S` are `S` itself and its point reflection -/
theorem mirMap_preimage (S : Set (Fin 2 → ℝ)) (hST : S ⊆ triT) :
    {q | q ∈ Icc (0 : Fin 2 → ℝ) 1 ∧ mirMap q ∈ S} = S ∪ (fun q => 1 - q) ⁻¹' S := by
  ext q
  simp only [mem_ofPred_eq, mem_union, mem_preimage]
  constructor
  · rintro ⟨_, hm⟩
    rcases lt_or_ge (q 0 + q 1) 1 with h | h
    · left; rwa [mirMap_of_lt q h] at hm
    · right; rwa [mirMap_of_le q h] at hm
  · rintro (h | h)
    · obtain ⟨h0, h1, h2⟩ := hST h
      refine ⟨⟨fun i => ?_, fun i => ?_⟩, ?_⟩
      · fin_cases i <;> simpa
      · fin_cases i <;> simp <;> linarith
      · rwa [mirMap_of_lt q h2]
    · obtain ⟨h0, h1, h2⟩ := hST h
      simp only [Pi.sub_apply, Pi.one_apply] at h0 h1 h2
      refine ⟨⟨fun i => ?_, fun i => ?_⟩, ?_⟩
      · fin_cases i <;> simp <;> linarith
      · fin_cases i <;> simp <;> linarith
      · rwa [mirMap_of_le q (by linarith)]

/-- **Mirror step doubles the density on the lower triangle**: for every measurable set `S` of
    barycentric pairs below the diagonal, the set of uniform draws in the unit square that the mirror
    step sends into `S` has measure `2·|S|` (it is `S` and its disjoint point reflection). -/
theorem triMirror_measure (S : Set (Fin 2 → ℝ)) (hS : MeasurableSet S) (hST : S ⊆ triT) :
    volume {q | q ∈ Icc (0 : Fin 2 → ℝ) 1 ∧ mirMap q ∈ S} = 2 * volume S := by
  have hmp : MeasurePreserving (fun q : Fin 2 → ℝ => 1 - q) volume volume :=
    Measure.measurePreserving_sub_left volume (1 : Fin 2 → ℝ)
  have hdisj : Disjoint S ((fun q : Fin 2 → ℝ => 1 - q) ⁻¹' S) := by
    rw [Set.disjoint_left]
    intro q hq hq'
    obtain ⟨_, _, h2⟩ := hST hq
    obtain ⟨_, _, h2'⟩ := hST hq'
    simp only [Pi.sub_apply, Pi.one_apply] at h2'
    linarith
  rw [mirMap_preimage S hST, measure_union hdisj (hmp.measurable hS),
    hmp.measure_preimage hS.nullMeasurableSet, two_mul]

example : volume {q | q ∈ Icc (0 : Fin 2 → ℝ) 1 ∧ mirMap q ∈ Icc 0 ![1 / 4, 1 / 4]} = ENNReal.ofReal (1 / 8) := by
  rw [triMirror_measure _ measurableSet_Icc, Real.volume_Icc_pi]
  · rw [Fin.prod_univ_two, show (2 : ENNReal) = ENNReal.ofReal 2 by simp,
      ← ENNReal.ofReal_mul (by norm_num), ← ENNReal.ofReal_mul (by norm_num)]
    congr 1; norm_num
  · intro q hq
    have h0 := hq.2 0
    have h1 := hq.2 1
    simp at h0 h1
    exact ⟨hq.1 0, hq.1 1, by linarith⟩


/-- the triangle sampler of the model as a map of the plane -/
noncomputable def triMap (ox oy ax ay bx cy : ℝ) (q : Fin 2 → ℝ) : Fin 2 → ℝ :=
  ![(triSample ox oy ax ay bx cy (q 0) (q 1)).1, (triSample ox oy ax ay bx cy (q 0) (q 1)).2]

/-- triangle sampler = parallelogram sampler ∘ mirror step -/
theorem triMap_eq (ox oy ax ay bx cy : ℝ) (q : Fin 2 → ℝ) :
    triMap ox oy ax ay bx cy q = parMap ox oy ax ay bx cy (mirMap q) := by
  simp [triMap, parMap, mirMap, triSample_eq_parSample_mirror]

/-- **Cell law of the triangle sampler**: for a non-degenerate triangle and every measurable set `S`
    of barycentric pairs below the diagonal, the probability that the triangle sample falls into the
    image of `S` is `2·|S|` — i.e. `|S| / |T|` for the barycentric triangle `T` of area ½. -/
theorem tri_cell_law (ox oy ax ay bx cy : ℝ) (hdet : parDet ox oy ax ay bx cy ≠ 0)
    (S : Set (Fin 2 → ℝ)) (hS : MeasurableSet S) (hST : S ⊆ triT) :
    volume {q | q ∈ Icc (0 : Fin 2 → ℝ) 1 ∧ triMap ox oy ax ay bx cy q ∈ parMap ox oy ax ay bx cy '' S}
      = 2 * volume S := by
  have hinj := parMap_injective ox oy ax ay bx cy hdet
  simp only [triMap_eq, hinj.mem_set_image]
  exact triMirror_measure S hS hST

/-- the same as a share of areas: probability = area of the cell's image / area of the triangle
    (`|det|/2`) -/
theorem tri_cell_share (ox oy ax ay bx cy : ℝ) (hdet : parDet ox oy ax ay bx cy ≠ 0)
    (S : Set (Fin 2 → ℝ)) (hS : MeasurableSet S) (hST : S ⊆ triT) :
    volume {q | q ∈ Icc (0 : Fin 2 → ℝ) 1 ∧ triMap ox oy ax ay bx cy q ∈ parMap ox oy ax ay bx cy '' S}
      = volume (parMap ox oy ax ay bx cy '' S) / (ENNReal.ofReal |parDet ox oy ax ay bx cy| / 2) := by
  rw [tri_cell_law ox oy ax ay bx cy hdet S hS hST, par_image_volume]
  have h0 := ofReal_abs_ne_zero hdet
  have ht : ENNReal.ofReal |parDet ox oy ax ay bx cy| ≠ ⊤ := ENNReal.ofReal_ne_top
  generalize ENNReal.ofReal |parDet ox oy ax ay bx cy| = c at h0 ht
  have hc : c * c⁻¹ = 1 := ENNReal.mul_inv_cancel h0 ht
  rw [div_eq_mul_inv, div_eq_mul_inv, ENNReal.mul_inv (Or.inl h0) (Or.inl ht), inv_inv]
  calc 2 * volume S = (c * c⁻¹) * (2 * volume S) := by rw [hc, one_mul]
    _ = c * volume S * (c⁻¹ * 2) := by ring

example : volume {q | q ∈ Icc (0 : Fin 2 → ℝ) 1 ∧
      triMap 1 1 3 1 2 4 q ∈ parMap 1 1 3 1 2 4 '' Icc 0 ![1 / 4, 1 / 4]} = ENNReal.ofReal (1 / 8) := by
  rw [tri_cell_law _ _ _ _ _ _ (by norm_num [parDet]) _ measurableSet_Icc, Real.volume_Icc_pi]
  · rw [Fin.prod_univ_two, show (2 : ENNReal) = ENNReal.ofReal 2 by simp,
      ← ENNReal.ofReal_mul (by norm_num), ← ENNReal.ofReal_mul (by norm_num)]
    congr 1; norm_num
  · intro q hq
    have h0 := hq.2 0
    have h1 := hq.2 1
    simp at h0 h1
    exact ⟨hq.1 0, hq.1 1, by linarith⟩

/-! ## 5. rigid / linear motions of samples -/

/-- `Rotate._rotate_points` as a map of the plane: `M (q − c) + c` -/
noncomputable def rotateMap (m00 m01 m10 m11 cx cy : ℝ) (q : Fin 2 → ℝ) : Fin 2 → ℝ :=
  ![m00 * (q 0 - cx) + m01 * (q 1 - cy) + cx, m10 * (q 0 - cx) + m11 * (q 1 - cy) + cy]

/-- the model function `rotatePt` computes `rotateMap` -/
theorem rotatePt_linear (m00 m01 m10 m11 cx cy : ℝ) (q : Fin 2 → ℝ) :
    rotatePt [q 0, q 1] [m00, m01, m10, m11] [cx, cy]
      = some [rotateMap m00 m01 m10 m11 cx cy q 0, rotateMap m00 m01 m10 m11 cx cy q 1] := by
  simp [rotatePt, rotateMap]

example : rotatePt [(1 : ℝ), 0] [0, -1, 1, 0] [0, 0] = some [0, 1] := by
  simp [rotatePt]

theorem rotateMap_eq_affine (m00 m01 m10 m11 cx cy : ℝ) :
    rotateMap m00 m01 m10 m11 cx cy
      = fun q => lin2 m00 m01 m10 m11 q + ![cx - (m00 * cx + m01 * cy), cy - (m10 * cx + m11 * cy)] := by
  funext q; ext i
  fin_cases i <;> simp [rotateMap, lin2_apply] <;> ring

/-- **Linear motion scales every region by `|det M|`**: the image of any set under
    `q ↦ M (q − c) + c` has measure `|det M|` times the measure of the set. -/
theorem rotate_image_volume (m00 m01 m10 m11 cx cy : ℝ) (R : Set (Fin 2 → ℝ)) :
    volume (rotateMap m00 m01 m10 m11 cx cy '' R)
      = ENNReal.ofReal |m00 * m11 - m01 * m10| * volume R := by
  rw [rotateMap_eq_affine, affine_image_volume, det_lin2]

/-- **A rotation keeps the measure of every region** (matrix of determinant 1), so a rotated uniform
    sample is uniform on the rotated domain. -/
theorem rotation_image_volume (m00 m01 m10 m11 cx cy : ℝ) (hdet : m00 * m11 - m01 * m10 = 1)
    (R : Set (Fin 2 → ℝ)) :
    volume (rotateMap m00 m01 m10 m11 cx cy '' R) = volume R := by
  rw [rotate_image_volume, hdet]; simp

example (θ cx cy : ℝ) (R : Set (Fin 2 → ℝ)) :
    volume (rotateMap (Real.cos θ) (-Real.sin θ) (Real.sin θ) (Real.cos θ) cx cy '' R) = volume R :=
  rotation_image_volume _ _ _ _ _ _ (by nlinarith [Real.cos_sq_add_sin_sq θ]) R

example : volume (rotateMap 0 (-1) 1 0 5 7 '' Icc 0 1) = 1 := by
  rw [rotation_image_volume _ _ _ _ _ _ (by norm_num), Real.volume_Icc_pi]; simp

/-- `Translate._translate_points` as a map of the plane -/
noncomputable def transMap (t0 t1 : ℝ) (q : Fin 2 → ℝ) : Fin 2 → ℝ := ![q 0 + t0, q 1 + t1]

/-- the model function `translatePt` computes `transMap` -/
theorem translatePt_linear (t0 t1 : ℝ) (q : Fin 2 → ℝ) :
    translatePt [q 0, q 1] [t0, t1] = some [transMap t0 t1 q 0, transMap t0 t1 q 1] := by
  simp [translatePt, transMap]

example : translatePt [(1 : ℝ), 2] [10, 20] = some [11, 22] := by
  simp [translatePt]; norm_num

/-- **A translation keeps the measure of every region.** -/
theorem translate_image_volume (t0 t1 : ℝ) (R : Set (Fin 2 → ℝ)) :
    volume (transMap t0 t1 '' R) = volume R := by
  have h : transMap t0 t1 = fun q => q + ![t0, t1] := by
    funext q; ext i; fin_cases i <;> simp [transMap]
  rw [h, Set.image_add_right, measure_preimage_add_right]

example : volume (transMap 3 4 '' Icc 0 1) = 1 := by
  rw [translate_image_volume, Real.volume_Icc_pi]; simp

/-- **Shares of regions are preserved** by every map that scales all measures by one finite non-zero
    factor (affine maps with `det ≠ 0`, rotations, translations): the share of the image of a cell in
    the image of the domain is the share of the cell in the domain. -/
theorem image_cell_share (f : (Fin 2 → ℝ) → (Fin 2 → ℝ)) (c : ENNReal) (hc0 : c ≠ 0) (hct : c ≠ ⊤)
    (hf : ∀ R, volume (f '' R) = c * volume R) (R D : Set (Fin 2 → ℝ)) :
    volume (f '' R) / volume (f '' D) = volume R / volume D := by
  rw [hf, hf, ENNReal.mul_div_mul_left _ _ hc0 hct]

/-- **Uniform law transport**: for an injective such map and a cell `R` of the domain `D`, the
    probability (relative measure in `D`) that the moved point lands in the moved cell is the share
    of the moved cell in the moved domain. -/
theorem image_cell_law (f : (Fin 2 → ℝ) → (Fin 2 → ℝ)) (hinj : Function.Injective f) (c : ENNReal)
    (hc0 : c ≠ 0) (hct : c ≠ ⊤) (hf : ∀ R, volume (f '' R) = c * volume R)
    (R D : Set (Fin 2 → ℝ)) (hRD : R ⊆ D) :
    volume {q | q ∈ D ∧ f q ∈ f '' R} / volume D = volume (f '' R) / volume (f '' D) := by
  have hset : {q | q ∈ D ∧ f q ∈ f '' R} = R := by
    ext q
    simp only [mem_ofPred_eq, hinj.mem_set_image]
    exact ⟨fun h => h.2, fun h => ⟨hRD h, h⟩⟩
  rw [hset, image_cell_share f c hc0 hct hf]

example : volume (rotateMap 0 (-1) 1 0 5 7 '' Icc 0 ![1 / 2, 1]) / volume (rotateMap 0 (-1) 1 0 5 7 '' Icc 0 1)
    = volume (Icc (0 : Fin 2 → ℝ) ![1 / 2, 1]) / volume (Icc (0 : Fin 2 → ℝ) 1) :=
  image_cell_share _ 1 one_ne_zero ENNReal.one_ne_top
    (fun R => by rw [rotation_image_volume _ _ _ _ _ _ (by norm_num), one_mul]) _ _


/-! ## push-forward laws for all measure-scaling maps; the triangle law -/

/-- **Push-forward of a uniform distribution under a measure-scaling map**: if a measurable `f`
    scales the measure of every set by the finite non-zero factor `c`, then the image of Lebesgue
    measure restricted to `D` is `c⁻¹ ·` Lebesgue measure restricted to `f '' D`. -/
theorem scaling_map_law (f : (Fin 2 → ℝ) → (Fin 2 → ℝ)) (hm : Measurable f) (c : ENNReal)
    (hc0 : c ≠ 0) (hct : c ≠ ⊤) (hf : ∀ R, volume (f '' R) = c * volume R) (D : Set (Fin 2 → ℝ)) :
    Measure.map f (volume.restrict D) = c⁻¹ • volume.restrict (f '' D) := by
  ext S hS
  rw [Measure.map_apply hm hS, Measure.restrict_apply (hm hS), Measure.smul_apply,
    Measure.restrict_apply hS, ← Set.image_preimage_inter, hf, smul_eq_mul, ← mul_assoc,
    ENNReal.inv_mul_cancel hc0 hct, one_mul]

/-- law of the parallelogram sampler on an arbitrary set `D` of draws -/
theorem par_law_on (ox oy ax ay bx cy : ℝ) (hdet : parDet ox oy ax ay bx cy ≠ 0) (D : Set (Fin 2 → ℝ)) :
    Measure.map (parMap ox oy ax ay bx cy) (volume.restrict D)
      = (ENNReal.ofReal |parDet ox oy ax ay bx cy|)⁻¹ • volume.restrict (parMap ox oy ax ay bx cy '' D) :=
  scaling_map_law _ (parMap_measurable ox oy ax ay bx cy) _ (ofReal_abs_ne_zero hdet)
    ENNReal.ofReal_ne_top (par_image_volume ox oy ax ay bx cy) D

theorem rotateMap_measurable (m00 m01 m10 m11 cx cy : ℝ) : Measurable (rotateMap m00 m01 m10 m11 cx cy) := by
  rw [rotateMap_eq_affine]
  exact ((LinearMap.continuous_of_finiteDimensional _).add continuous_const).measurable

/-- **A rotated uniform sample is uniform on the rotated domain**: push-forward of Lebesgue measure
    on `D` under a rotation about any centre is Lebesgue measure on the rotated `D`. -/
theorem rotation_law (m00 m01 m10 m11 cx cy : ℝ) (hdet : m00 * m11 - m01 * m10 = 1)
    (D : Set (Fin 2 → ℝ)) :
    Measure.map (rotateMap m00 m01 m10 m11 cx cy) (volume.restrict D)
      = volume.restrict (rotateMap m00 m01 m10 m11 cx cy '' D) := by
  have := scaling_map_law _ (rotateMap_measurable m00 m01 m10 m11 cx cy) 1 one_ne_zero ENNReal.one_ne_top
    (fun R => by rw [rotation_image_volume _ _ _ _ _ _ hdet, one_mul]) D
  simpa using this

example (D : Set (Fin 2 → ℝ)) :
    Measure.map (rotateMap 0 (-1) 1 0 5 7) (volume.restrict D) = volume.restrict (rotateMap 0 (-1) 1 0 5 7 '' D) :=
  rotation_law _ _ _ _ _ _ (by norm_num) D

theorem transMap_measurable (t0 t1 : ℝ) : Measurable (transMap t0 t1) := by
  have h : transMap t0 t1 = fun q => q + ![t0, t1] := by
    funext q; ext i; fin_cases i <;> simp [transMap]
  rw [h]; exact measurable_id.add_const _

/-- **A translated uniform sample is uniform on the translated domain.** -/
theorem transMap_law (t0 t1 : ℝ) (D : Set (Fin 2 → ℝ)) :
    Measure.map (transMap t0 t1) (volume.restrict D) = volume.restrict (transMap t0 t1 '' D) := by
  have := scaling_map_law _ (transMap_measurable t0 t1) 1 one_ne_zero ENNReal.one_ne_top
    (fun R => by rw [translate_image_volume, one_mul]) D
  simpa using this

example : Measure.map (transMap 3 4) (volume.restrict (Icc 0 1)) = volume.restrict (transMap 3 4 '' Icc 0 1) :=
  transMap_law 3 4 _

/-- the diagonal `u + v = 1` of the unit square is a Lebesgue null set (image of the plane under a
    singular affine map) -/
theorem diag_null : volume {q : Fin 2 → ℝ | q 0 + q 1 = 1} = 0 := by
  have hsub : {q : Fin 2 → ℝ | q 0 + q 1 = 1} ⊆ (fun q => lin2 1 0 (-1) 0 q + ![0, 1]) '' univ := by
    intro q hq
    refine ⟨q, mem_univ _, ?_⟩
    have hq' : q 0 + q 1 = 1 := hq
    ext i; fin_cases i <;> simp [lin2_apply]
    linarith
  refine measure_mono_null hsub ?_
  rw [affine_image_volume, det_lin2]; simp

theorem measurableSet_triT : MeasurableSet triT := by
  have h0 : Measurable (fun q : Fin 2 → ℝ => q 0) := measurable_pi_apply 0
  have h1 : Measurable (fun q : Fin 2 → ℝ => q 1) := measurable_pi_apply 1
  exact (measurableSet_le measurable_const h0).inter
    ((measurableSet_le measurable_const h1).inter (measurableSet_lt (h0.add h1) measurable_const))

/-- off the diagonal the mirror step sends the unit square into the lower triangle -/
theorem mirMap_mem_triT (q : Fin 2 → ℝ) (hq : q ∈ Icc (0 : Fin 2 → ℝ) 1) (hd : q 0 + q 1 ≠ 1) :
    mirMap q ∈ triT := by
  have a0 := hq.1 0; have a1 := hq.1 1; have b0 := hq.2 0; have b1 := hq.2 1
  simp only [Pi.zero_apply, Pi.one_apply] at a0 a1 b0 b1
  rcases lt_or_ge (q 0 + q 1) 1 with h | h
  · rw [mirMap_of_lt q h]; exact ⟨a0, a1, h⟩
  · rw [mirMap_of_le q h]
    have h' : 1 < q 0 + q 1 := lt_of_le_of_ne h (Ne.symm hd)
    refine ⟨?_, ?_, ?_⟩ <;> simp only [Pi.sub_apply, Pi.one_apply] <;> linarith

/-- **Area of the barycentric triangle** is ½ (so `2·|S| = |S| / |T|` in `tri_cell_law`). -/
theorem triT_volume : volume triT = 2⁻¹ := by
  have h2 := triMirror_measure triT measurableSet_triT Subset.rfl
  have hset : Icc (0 : Fin 2 → ℝ) 1 \ {q : Fin 2 → ℝ | q 0 + q 1 = 1}
      ⊆ {q | q ∈ Icc (0 : Fin 2 → ℝ) 1 ∧ mirMap q ∈ triT} :=
    fun q hq => ⟨hq.1, mirMap_mem_triT q hq.1 hq.2⟩
  have hle : volume (Icc (0 : Fin 2 → ℝ) 1) ≤ 2 * volume triT := by
    rw [← h2, ← measure_sdiff_null diag_null]
    exact measure_mono hset
  have hge : 2 * volume triT ≤ volume (Icc (0 : Fin 2 → ℝ) 1) := by
    rw [← h2]; exact measure_mono (fun q hq => hq.1)
  have h1 : 2 * volume triT = 1 := by
    have := le_antisymm hge hle
    rw [Real.volume_Icc_pi] at this
    simpa using this
  rw [mul_comm] at h1
  exact ENNReal.eq_inv_of_mul_eq_one_left h1

theorem mirMap_measurable : Measurable mirMap := by
  have h : mirMap = fun q => if 1 ≤ q 0 + q 1 then 1 - q else q := by
    funext q
    split_ifs with hq
    · exact mirMap_of_le q hq
    · exact mirMap_of_lt q (not_le.1 hq)
  rw [h]
  exact Measurable.ite (measurableSet_le measurable_const
    ((measurable_pi_apply 0).add (measurable_pi_apply 1))) (measurable_const.sub measurable_id)
    measurable_id

/-- **Law of the mirror step**: the push-forward of the uniform distribution on the unit square is
    twice Lebesgue measure on the lower triangle, i.e. the uniform distribution on that triangle. -/
theorem mirror_law :
    Measure.map mirMap (volume.restrict (Icc 0 1)) = (2 : ENNReal) • volume.restrict triT := by
  ext S hS
  rw [Measure.map_apply mirMap_measurable hS, Measure.restrict_apply (mirMap_measurable hS),
    Measure.smul_apply, Measure.restrict_apply hS, smul_eq_mul,
    ← triMirror_measure (S ∩ triT) (hS.inter measurableSet_triT) inter_subset_right]
  apply le_antisymm
  · have hsub : mirMap ⁻¹' S ∩ Icc 0 1 ⊆ {q | q ∈ Icc (0 : Fin 2 → ℝ) 1 ∧ mirMap q ∈ S ∩ triT}
        ∪ {q : Fin 2 → ℝ | q 0 + q 1 = 1} := by
      intro q hq
      by_cases hd : q 0 + q 1 = 1
      · exact Or.inr hd
      · exact Or.inl ⟨hq.2, hq.1, mirMap_mem_triT q hq.2 hd⟩
    calc volume (mirMap ⁻¹' S ∩ Icc 0 1) ≤ _ := measure_mono hsub
      _ ≤ _ + volume {q : Fin 2 → ℝ | q 0 + q 1 = 1} := measure_union_le _ _
      _ = _ := by rw [diag_null, add_zero]
  · exact measure_mono (fun q hq => ⟨hq.2.1, hq.1⟩)

theorem triMap_measurable (ox oy ax ay bx cy : ℝ) : Measurable (triMap ox oy ax ay bx cy) := by
  have h : triMap ox oy ax ay bx cy = parMap ox oy ax ay bx cy ∘ mirMap := by
    funext q; exact triMap_eq ox oy ax ay bx cy q
  rw [h]; exact (parMap_measurable ox oy ax ay bx cy).comp mirMap_measurable

/-- **Law of the triangle sampler**: the push-forward of the uniform distribution on the unit square
    under the coded triangle sampler is Lebesgue measure on the triangle (image of the barycentric
    triangle) divided by the triangle's area `|det|/2` — the uniform distribution on the triangle. -/
theorem tri_law (ox oy ax ay bx cy : ℝ) (hdet : parDet ox oy ax ay bx cy ≠ 0) :
    Measure.map (triMap ox oy ax ay bx cy) (volume.restrict (Icc 0 1))
      = (ENNReal.ofReal |parDet ox oy ax ay bx cy| / 2)⁻¹ •
          volume.restrict (parMap ox oy ax ay bx cy '' triT) := by
  have h : triMap ox oy ax ay bx cy = parMap ox oy ax ay bx cy ∘ mirMap := by
    funext q; exact triMap_eq ox oy ax ay bx cy q
  have h0 := ofReal_abs_ne_zero hdet
  have ht : ENNReal.ofReal |parDet ox oy ax ay bx cy| ≠ ⊤ := ENNReal.ofReal_ne_top
  rw [h, ← Measure.map_map (parMap_measurable ox oy ax ay bx cy) mirMap_measurable, mirror_law,
    Measure.map_smul, par_law_on ox oy ax ay bx cy hdet, smul_smul, div_eq_mul_inv,
    ENNReal.mul_inv (Or.inl h0) (Or.inl ht), inv_inv, mul_comm]

/-- area of the triangle: the image of the barycentric triangle has measure `|det|/2` -/
theorem tri_image_volume (ox oy ax ay bx cy : ℝ) :
    volume (parMap ox oy ax ay bx cy '' triT) = ENNReal.ofReal |parDet ox oy ax ay bx cy| / 2 := by
  rw [par_image_volume, triT_volume, div_eq_mul_inv]

example : volume (parMap 1 1 3 1 2 4 '' triT) = 3 := by
  rw [tri_image_volume]
  norm_num [parDet]
  rw [show (6 : ENNReal) = 3 * 2 by norm_num, ENNReal.mul_div_cancel_right (by norm_num) (by norm_num)]


/-! ## 6. algebra of the parametrisations over any ordered field -/

section algebra6
variable {K : Type} [Field K] [LinearOrder K] [IsStrictOrderedRing K]

/-- barycentric form: the parallelogram sample is the affine combination
    `(1 − u − v)·origin + u·corner_1 + v·corner_2` -/
theorem parSample_barycentric (ox oy ax ay bx cy u v : K) :
    parSample ox oy ax ay bx cy u v
      = ((1 - u - v) * ox + u * ax + v * bx, (1 - u - v) * oy + u * ay + v * cy) := by
  simp only [parSample]
  refine Prod.ext ?_ ?_ <;> simp only [] <;> ring

/-- the corners of the unit square go to origin, corner_1, corner_2 and the fourth corner -/
theorem parSample_corners (ox oy ax ay bx cy : K) :
    parSample ox oy ax ay bx cy 0 0 = (ox, oy) ∧ parSample ox oy ax ay bx cy 1 0 = (ax, ay) ∧
    parSample ox oy ax ay bx cy 0 1 = (bx, cy) ∧
    parSample ox oy ax ay bx cy 1 1 = (ax + bx - ox, ay + cy - oy) := by
  simp only [parSample]
  refine ⟨?_, ?_, ?_, ?_⟩ <;> refine Prod.ext ?_ ?_ <;> simp only [] <;> ring

example : parSample (1 : ℚ) 1 3 1 2 4 1 1 = (4, 4) := by
  rw [(parSample_corners (1 : ℚ) 1 3 1 2 4).2.2.2]; norm_num

/-- with a non-zero determinant the barycentric pair is determined by the sample -/
theorem parSample_injective (ox oy ax ay bx cy u v u' v' : K)
    (hdet : (ax - ox) * (cy - oy) - (ay - oy) * (bx - ox) ≠ 0)
    (h : parSample ox oy ax ay bx cy u v = parSample ox oy ax ay bx cy u' v') : u = u' ∧ v = v' := by
  simp only [parSample, Prod.mk.injEq] at h
  obtain ⟨h0, h1⟩ := h
  have e0 : (u - u') * ((ax - ox) * (cy - oy) - (ay - oy) * (bx - ox)) = 0 := by
    linear_combination (cy - oy) * h0 - (bx - ox) * h1
  have e1 : (v - v') * ((ax - ox) * (cy - oy) - (ay - oy) * (bx - ox)) = 0 := by
    linear_combination (ax - ox) * h1 - (ay - oy) * h0
  exact ⟨sub_eq_zero.1 ((mul_eq_zero.1 e0).resolve_right hdet),
    sub_eq_zero.1 ((mul_eq_zero.1 e1).resolve_right hdet)⟩

example (u v : ℚ) (h : parSample (1 : ℚ) 1 3 1 2 4 u v = parSample (1 : ℚ) 1 3 1 2 4 (1 / 2) (1 / 3)) :
    u = 1 / 2 ∧ v = 1 / 3 :=
  parSample_injective _ _ _ _ _ _ _ _ _ _ (by norm_num) h

/-- the mirrored pair of draws from the unit square lies in the closed lower triangle -/
theorem triMirror_mem (u v : K) (hu0 : 0 ≤ u) (hu1 : u ≤ 1) (hv0 : 0 ≤ v) (hv1 : v ≤ 1) :
    0 ≤ (triMirror u v).1 ∧ 0 ≤ (triMirror u v).2 ∧ (triMirror u v).1 + (triMirror u v).2 ≤ 1 := by
  rcases lt_or_ge (u + v) 1 with h | h
  · rw [triMirror_of_lt u v h]; exact ⟨hu0, hv0, h.le⟩
  · rw [triMirror_of_le u v h]
    refine ⟨sub_nonneg.2 hu1, sub_nonneg.2 hv1, ?_⟩
    simp only []; linarith

/-- **2-to-1**: off the diagonal a draw and its point reflection at (½, ½) give the same mirrored
    pair — hence the same triangle sample -/
theorem triMirror_reflect (u v : K) (h : u + v ≠ 1) : triMirror (1 - u) (1 - v) = triMirror u v := by
  rcases lt_or_gt_of_ne h with h' | h'
  · rw [triMirror_of_lt u v h', triMirror_of_le (1 - u) (1 - v) (by linarith)]
    refine Prod.ext ?_ ?_ <;> simp
  · rw [triMirror_of_le u v h'.le, triMirror_of_lt (1 - u) (1 - v) (by linarith)]

theorem triSample_reflect (ox oy ax ay bx cy u v : K) (h : u + v ≠ 1) :
    triSample ox oy ax ay bx cy (1 - u) (1 - v) = triSample ox oy ax ay bx cy u v := by
  rw [triSample_eq_parSample_mirror, triSample_eq_parSample_mirror, triMirror_reflect u v h]

example : triSample (0 : ℚ) 0 2 0 0 2 (3 / 4) (7 / 8) = triSample (0 : ℚ) 0 2 0 0 2 (1 / 4) (1 / 8) := by
  have := triSample_reflect (0 : ℚ) 0 2 0 0 2 (1 / 4) (1 / 8) (by norm_num)
  norm_num at this ⊢
  exact this

/-- on the diagonal the mirror step reflects (the code tests `u + v ≥ 1`), and the result stays on
    the diagonal: the hypotenuse is hit only from the diagonal -/
theorem triMirror_diag (u v : K) (h : u + v = 1) :
    triMirror u v = (1 - u, 1 - v) ∧ (triMirror u v).1 + (triMirror u v).2 = 1 := by
  rw [triMirror_of_le u v h.ge]
  refine ⟨rfl, ?_⟩
  simp only []; linarith

end algebra6

end TPV.Geom
