/-
  C15 — the random variant keeps a row "with the stated probability": for a threshold drawn uniformly from [0,1)
  (what `torch.rand_like` is assumed to deliver) the set of draws for which the coded rule keeps the row has
  Lebesgue measure (loss − min) / (max − min).
-/
import TPV.Model.SamplerState
import Mathlib.MeasureTheory.Measure.Lebesgue.Basic

namespace TPV.SamplerState
open MeasureTheory

/-- the coded per-row rule over the reals: the row is kept iff the drawn `u` is at most the normalised loss -/
theorem kept_iff_le (lo hi x u : ℝ) (hlt : lo < hi) :
    replaced lo hi u x = false ↔ u ≤ (x - lo) / (hi - lo) := by
  have hd : 0 < hi - lo := by linarith
  simp only [replaced, decide_eq_false_iff_not, not_lt]
  rw [le_div_iff₀ hd]
  constructor <;> intro h <;> nlinarith

/-- **Random variant, keep probability**: with `min < max` and `min ≤ loss ≤ max`, the set of thresholds `u ∈ [0,1)` for
    which the row is kept has measure `(loss − min)/(max − min)`: rows of maximal loss are kept with probability 1, rows of
    minimal loss with probability 0, linearly in between. -/
theorem keep_probability (lo hi x : ℝ) (hlt : lo < hi) (hx1 : lo ≤ x) (hx2 : x ≤ hi) :
    volume {u : ℝ | u ∈ Set.Ico (0 : ℝ) 1 ∧ replaced lo hi u x = false} = ENNReal.ofReal ((x - lo) / (hi - lo)) := by
  have hd : 0 < hi - lo := by linarith
  have ht0 : 0 ≤ (x - lo) / (hi - lo) := div_nonneg (by linarith) hd.le
  have ht1 : (x - lo) / (hi - lo) ≤ 1 := by rw [div_le_one hd]; linarith
  rcases lt_or_eq_of_le ht1 with h | h
  · have : {u : ℝ | u ∈ Set.Ico (0 : ℝ) 1 ∧ replaced lo hi u x = false} = Set.Icc 0 ((x - lo) / (hi - lo)) := by
      ext u
      simp only [Set.mem_ofPred_eq, Set.mem_Ico, Set.mem_Icc, kept_iff_le lo hi x u hlt]
      constructor
      · rintro ⟨⟨a, _⟩, c⟩; exact ⟨a, c⟩
      · rintro ⟨a, c⟩; exact ⟨⟨a, by linarith⟩, c⟩
    rw [this, Real.volume_Icc, sub_zero]
  · have : {u : ℝ | u ∈ Set.Ico (0 : ℝ) 1 ∧ replaced lo hi u x = false} = Set.Ico 0 1 := by
      ext u
      simp only [Set.mem_ofPred_eq, Set.mem_Ico, kept_iff_le lo hi x u hlt, h]
      constructor
      · rintro ⟨a, _⟩; exact a
      · rintro ⟨a, b⟩; exact ⟨⟨a, b⟩, b.le⟩
    rw [this, Real.volume_Ico, h, sub_zero]

example : volume {u : ℝ | u ∈ Set.Ico (0 : ℝ) 1 ∧ replaced (0 : ℝ) 2 u (1 / 2) = false} = ENNReal.ofReal (1 / 4) := by
  have := keep_probability 0 2 (1 / 2) (by norm_num) (by norm_num) (by norm_num)
  rw [this]; congr 1; norm_num

end TPV.SamplerState
