/-
  C11 — samplers follow their named laws (uniform, even grid, Gaussian, Latin hypercube).

  The theorems are spread over four modules (all audited, see lean/obligations/C11.json):
    * Props/C11Meas.lean    1-D and product-measure laws of the parametrisations on [0,1]^m with Lebesgue
                            measure (interval, end-point pick, disc — full push-forward law —, ball radial /
                            height / azimuth cells, sphere surface cells), rejection = conditioning, law of the
                            first accepted proposal (uniform and Gaussian samplers), transport of the uniform law
                            by translations / linear maps, independent products
    * Props/C11Affine.lean  parallelogram and triangle: full push-forward laws (`par_law`, `tri_law`), the
                            mirror step is 2-to-1 and measure preserving, rotations / translations keep every share
    * Props/C11Strat.lean   Latin hypercube: exactly one point per slab; perimeter walks: every edge is traversed
                            with its own arclength parameter; interval grid evenness
    * Props/C11Finite.lean  finite (counting-measure) models with exact rational probabilities: union mixture law
                            (uniform iff the operands do not overlap; density ratio 1 + |A∩B|/|A| otherwise),
                            dependent-product acceptance (density ∝ fibre volume when the batch maximum is the
                            global one; false for small batches), "output = first n accepted proposals"
  This file adds the statements that combine them (perimeter laws) and keeps the full-strength statements that
  are not proved visible as `def … : Prop`.
-/
import TPV.Props.C11Meas
import TPV.Props.C11Affine
import TPV.Props.C11Strat
import TPV.Props.C11Finite

namespace TPV.Geom
open MeasureTheory Set

/-- **Perimeter parameter law.** The boundary samplers of parallelogram and triangle draw `u` uniformly and
    walk to the perimeter position `s = u·L` (`L` = total length).  Every arc `[a, b]` of the perimeter
    parameter receives the probability `(b − a)/L`, its share of the total length.  Together with
    `parBdryWalk_edge1 … 4` / `triBdryWalk_edge1 … 3` (on each edge the walk is the affine arclength
    parametrisation of that edge) this is uniformity with respect to arclength. -/
theorem perimeter_param_law (L a b : ℝ) (hL : 0 < L) (h0 : 0 ≤ a) (hab : a ≤ b) (hb : b ≤ L) :
    volume {u : ℝ | u ∈ Icc (0:ℝ) 1 ∧ u * L ∈ Icc a b} = ENNReal.ofReal ((b - a) / L) := by
  have h := interval_cell_law 0 L a b hL h0 hab hb
  simpa [intervalSample] using h

example : volume {u : ℝ | u ∈ Icc (0:ℝ) 1 ∧ u * 6 ∈ Icc 1 3} = ENNReal.ofReal ((3 - 1) / 6) :=
  perimeter_param_law 6 1 3 (by norm_num) (by norm_num) (by norm_num) (by norm_num)

/-- **Each edge of a parallelogram receives its own length share.** With side lengths `l1, l2 > 0` the
    sampler's perimeter position `u·2(l1+l2)` falls on the four edges (in walking order) with probabilities
    `l1/L, l2/L, l1/L, l2/L`, `L = 2(l1+l2)`. -/
theorem par_perimeter_edge_shares (l1 l2 : ℝ) (h1 : 0 < l1) (h2 : 0 < l2) :
    volume {u : ℝ | u ∈ Icc (0:ℝ) 1 ∧ u * (two * (l1 + l2)) ∈ Icc 0 l1} = ENNReal.ofReal (l1 / (2 * (l1 + l2))) ∧
    volume {u : ℝ | u ∈ Icc (0:ℝ) 1 ∧ u * (two * (l1 + l2)) ∈ Icc l1 (l1 + l2)} = ENNReal.ofReal (l2 / (2 * (l1 + l2))) ∧
    volume {u : ℝ | u ∈ Icc (0:ℝ) 1 ∧ u * (two * (l1 + l2)) ∈ Icc (l1 + l2) (2 * l1 + l2)} = ENNReal.ofReal (l1 / (2 * (l1 + l2))) ∧
    volume {u : ℝ | u ∈ Icc (0:ℝ) 1 ∧ u * (two * (l1 + l2)) ∈ Icc (2 * l1 + l2) (2 * (l1 + l2))} = ENNReal.ofReal (l2 / (2 * (l1 + l2))) := by
  have hL : (0:ℝ) < 2 * (l1 + l2) := by positivity
  rw [two_eq_real]
  refine ⟨?_, ?_, ?_, ?_⟩
  · have := perimeter_param_law (2 * (l1 + l2)) 0 l1 hL le_rfl h1.le (by linarith)
    simpa using this
  · have := perimeter_param_law (2 * (l1 + l2)) l1 (l1 + l2) hL h1.le (by linarith) (by linarith)
    simpa using this
  · have := perimeter_param_law (2 * (l1 + l2)) (l1 + l2) (2 * l1 + l2) hL (by linarith) (by linarith) (by linarith)
    rw [this]; congr 2; ring
  · have := perimeter_param_law (2 * (l1 + l2)) (2 * l1 + l2) (2 * (l1 + l2)) hL (by linarith) (by linarith) le_rfl
    rw [this]; congr 2; ring

example : volume {u : ℝ | u ∈ Icc (0:ℝ) 1 ∧ u * (two * (1 + 2)) ∈ Icc 1 (1 + 2)} = ENNReal.ofReal (2 / (2 * (1 + 2))) :=
  (par_perimeter_edge_shares 1 2 (by norm_num) (by norm_num)).2.1

/-- **Each edge of a triangle receives its own length share** (`TriangleBoundary`, perimeter position
    `u·(l1+l2+l3)`). -/
theorem tri_perimeter_edge_shares (l1 l2 l3 : ℝ) (h1 : 0 < l1) (h2 : 0 < l2) (h3 : 0 < l3) :
    volume {u : ℝ | u ∈ Icc (0:ℝ) 1 ∧ u * (l1 + l2 + l3) ∈ Icc 0 l1} = ENNReal.ofReal (l1 / (l1 + l2 + l3)) ∧
    volume {u : ℝ | u ∈ Icc (0:ℝ) 1 ∧ u * (l1 + l2 + l3) ∈ Icc l1 (l1 + l2)} = ENNReal.ofReal (l2 / (l1 + l2 + l3)) ∧
    volume {u : ℝ | u ∈ Icc (0:ℝ) 1 ∧ u * (l1 + l2 + l3) ∈ Icc (l1 + l2) (l1 + l2 + l3)} = ENNReal.ofReal (l3 / (l1 + l2 + l3)) := by
  have hL : (0:ℝ) < l1 + l2 + l3 := by positivity
  refine ⟨?_, ?_, ?_⟩
  · have := perimeter_param_law (l1 + l2 + l3) 0 l1 hL le_rfl h1.le (by linarith)
    simpa using this
  · have := perimeter_param_law (l1 + l2 + l3) l1 (l1 + l2) hL h1.le (by linarith) (by linarith)
    rw [this]; congr 2; ring
  · have := perimeter_param_law (l1 + l2 + l3) (l1 + l2) (l1 + l2 + l3) hL (by linarith) (by linarith) le_rfl
    rw [this]; congr 2; ring

example : volume {u : ℝ | u ∈ Icc (0:ℝ) 1 ∧ u * (3 + 4 + 5) ∈ Icc 3 (3 + 4)} = ENNReal.ofReal (4 / (3 + 4 + 5)) :=
  (tri_perimeter_edge_shares 3 4 5 (by norm_num) (by norm_num) (by norm_num)).2.1

/-- **Uniform angle on the circle line** (`CircleBoundary.sample_random_uniform`): the arc with angles in
    `[α, β]` has probability `(β − α)/2π`, its share of the circumference. -/
theorem circle_arc_law (α β : ℝ) (h0 : 0 ≤ α) (hab : α ≤ β) (h1 : β ≤ 2 * Real.pi) :
    volume {v : ℝ | v ∈ Icc (0:ℝ) 1 ∧ two * Transc.pi * v ∈ Icc α β} = ENNReal.ofReal ((β - α) / (2 * Real.pi)) :=
  disc_angle_law α β h0 hab h1

example : volume {v : ℝ | v ∈ Icc (0:ℝ) 1 ∧ two * Transc.pi * v ∈ Icc 0 Real.pi} = ENNReal.ofReal ((Real.pi - 0) / (2 * Real.pi)) :=
  circle_arc_law 0 Real.pi le_rfl Real.pi_pos.le (by linarith [Real.pi_pos])

end TPV.Geom
